"""Shared machinery of the checks: Lean build + axiom audit, driver pipe, verdict protocol, evidence, replays.

Verdict protocol (DESIGN.md §3.4):
  build ok ∧ axioms ok ∧ all cases agree ∧ spec holds on the implementation's output everywhere  -> exit 0
  spec fails on the implementation's output for a valid case                                     -> VIOLATION (replay = that case)
      unless the case matches an entry of known_findings.json                                    -> KNOWN-FINDING line, exit 0
  proof / axiom audit / correspondence broken, but no failing input found                        -> VIOLATION ... no-failing-input-found
  harness trouble (lake missing, driver crash, timeout)                                          -> exit 2, no VIOLATION line
"""
import hashlib
import json
import os
import random
import re
import subprocess
import sys
import time

VERIF = os.path.dirname(os.path.dirname(os.path.abspath(__file__)))
LEAN = os.path.join(VERIF, "lean")
REPO = os.environ.get("GAFTOOLS_REPO") or "/repo"
DRIVER = os.path.join(LEAN, ".lake", "build", "bin", "driver")
ALLOWED_AXIOMS = {"propext", "Classical.choice", "Quot.sound"}
FORBIDDEN = re.compile(r"\b(sorry|admit|native_decide|bv_decide|implemented_by|unsafe)\b|^\s*axiom\s|maxHeartbeats\s+0")

os.environ.setdefault("GAFTOOLS_VERIF", "1")
os.environ.setdefault("PYTHONDONTWRITEBYTECODE", "1")
sys.dont_write_bytecode = True
import logging
logging.disable(logging.CRITICAL)


class HarnessError(Exception):
    pass


def sh(cmd, cwd=None, timeout=3600, env=None):
    p = subprocess.run(cmd, cwd=cwd, stdout=subprocess.PIPE, stderr=subprocess.STDOUT, text=True, timeout=timeout,
                       shell=isinstance(cmd, str), env=env)
    return p.returncode, p.stdout


def strip_comments(text):
    """remove Lean block comments (nested) and line comments, so the forbidden-token grep ignores prose"""
    out = []
    i, depth, n = 0, 0, len(text)
    while i < n:
        if text.startswith("/-", i):
            depth += 1
            i += 2
        elif depth and text.startswith("-/", i):
            depth -= 1
            i += 2
        elif depth:
            i += 1
        elif text.startswith("--", i):
            j = text.find("\n", i)
            i = n if j < 0 else j
        elif text[i] == '"':
            j = i + 1
            while j < n and text[j] != '"':
                j += 2 if text[j] == "\\" else 1
            i = j + 1
        else:
            out.append(text[i])
            i += 1
    return "".join(out)


def import_closure(roots):
    """files of this project reachable through `import Gaftools.*` from the given module names"""
    seen, todo = set(), list(roots)
    while todo:
        m = todo.pop()
        if m in seen:
            continue
        p = os.path.join(LEAN, *m.split(".")) + ".lean"
        if not os.path.exists(p):
            continue
        seen.add(m)
        for imp in re.findall(r"^import\s+((?:Gaftools|Driver)[\w.]*)", open(p).read(), re.M):
            todo.append(imp)
    return sorted(seen)


def grep_forbidden(roots):
    hits = []
    for m in import_closure(roots):
        p = os.path.join(LEAN, *m.split(".")) + ".lean"
        txt = strip_comments(open(p).read())
        for ln, line in enumerate(txt.splitlines(), 1):
            if FORBIDDEN.search(line):
                hits.append("%s:%d: %s" % (os.path.relpath(p, VERIF), ln, line.strip()[:120]))
    return hits


class Check:
    def __init__(self, prop, tier=None, seed=None):
        self.prop = prop
        self.tier = tier or os.environ.get("VERIF_TIER", "quick")
        if self.tier not in ("quick", "thorough"):
            self.tier = "quick"
        self.seed = int(seed if seed is not None else os.environ.get("VERIF_SEED", "1"))
        self.rng = random.Random("%s-%d" % (prop, self.seed))
        CLI_RNG.seed("cli-%s-%d" % (prop, self.seed))
        CLI_COUNTS.clear()
        try:
            import gen
            gen.QUIRK_RNG = random.Random("quirks-%s-%d" % (prop, self.seed))
            gen.QUIRKS.clear()
        except ImportError:
            pass
        self.t0 = time.time()
        self.evaluations = 0
        self.nontrivial = set()
        self.samples = []
        self.hist = {}
        self.violations = []          # dicts with replay info (real failing inputs)
        self.broken = []              # proof / correspondence breakages (names)
        self.known_hits = {}
        self.tie = {}
        self.obligations = []
        self.discharged = []
        self.assumptions = []
        self.trusted = []
        self.rule = ""
        self.extra = {}
        self.canon = []
        self.exhaustive = None
        self.known = [k for k in json.load(open(os.path.join(VERIF, "known_findings.json")))
                      if k["property"] == prop and k["status"] == "known"]
        os.makedirs(os.path.join(VERIF, "replays"), exist_ok=True)
        os.makedirs(os.path.join(VERIF, "evidence"), exist_ok=True)
        # which lines and branches of the tool the generated inputs reach (measured, reported in the evidence; no verdict)
        self.cov = None
        if os.environ.get("VERIF_COVERAGE", "1") != "0":
            try:
                import coverage
                self.cov = coverage.Coverage(data_file=None, branch=True, include=[os.path.join(REPO, "gaftools", "*")], config_file=False)
                self.cov.start()
            except Exception:  # noqa: coverage measurement is optional
                self.cov = None

    # ------------------------------------------------------------------ accounting
    def count(self, key, n=1):
        self.hist[key] = self.hist.get(key, 0) + n

    def case(self, canon_input, nontrivial, sample=None):
        self.evaluations += 1
        if nontrivial:
            h = hashlib.sha1(json.dumps(canon_input, sort_keys=True, default=str).encode()).hexdigest()
            self.nontrivial.add(h)
        if sample is not None and len(self.samples) < 3:
            self.samples.append(sample)

    # ------------------------------------------------------------------ lean
    def lean_build(self, modules):
        """regenerate Gen/, build the property's proof modules and the driver. Proof failures are recorded in
        self.broken (not fatal: the search for a failing input still runs); a driver failure is fatal (exit 2)."""
        sys.path.insert(0, os.path.join(VERIF, "harness"))
        import translate
        self.tie = translate.regenerate()
        hits = grep_forbidden(list(modules) + ["Driver"])
        if hits:
            self.broken.append({"kind": "forbidden-token", "detail": hits[:10]})
        rc, out = sh(["lake", "build", "driver"], cwd=LEAN)
        if rc != 0 or not os.path.exists(DRIVER):
            raise HarnessError("driver build failed:\n" + out[-3000:])
        for m in modules:
            rc, out = sh(["lake", "build", m], cwd=LEAN)
            if rc != 0:
                errs = [l for l in out.splitlines() if l.startswith("error")]
                self.broken.append({"kind": "proof-build", "module": m, "detail": errs[:8]})
        if self.tier == "thorough":
            # independent re-check of the compiled proofs with the toolchain's leanchecker
            good = [m for m in modules if not any(b.get("module") == m for b in self.broken)]
            if good:
                rc, out = sh(["lake", "env", "leanchecker"] + good, cwd=LEAN, timeout=3600)
                self.extra["leanchecker"] = {"modules": good, "ok": rc == 0}
                if rc != 0:
                    self.broken.append({"kind": "leanchecker", "detail": out[-800:]})
        return not self.broken

    def audit(self, audit_file):
        """run lean on Audit/<file> (and on Audit/<name>_tie.lean when present: the Tie-A equalities of the property, kept in a
        file of their own so that a broken equality does not hide the other theorems): every `#print axioms thm` line is an
        obligation; discharged iff its axioms are allowed"""
        files = [audit_file]
        for suffix in ("_tie.lean", "_extra.lean"):      # Tie-A equalities; theorems about code beyond the property's anchors
            extra_file = audit_file.replace(".lean", suffix)
            if os.path.exists(os.path.join(LEAN, "Audit", extra_file)):
                files.append(extra_file)
        self.obligations, self.discharged = [], []
        axioms_used = set()
        for af in files:
            rc, out = sh(["lake", "env", "lean", os.path.join("Audit", af)], cwd=LEAN)
            wanted = re.findall(r"^#print axioms\s+(\S+)", open(os.path.join(LEAN, "Audit", af)).read(), re.M)
            self.obligations += wanted
            found = {}
            for m in re.finditer(r"'(\S+)' depends on axioms: \[([^\]]*)\]", out.replace("\n ", " ")):
                found[m.group(1)] = {a.strip() for a in m.group(2).split(",") if a.strip()}
            for m in re.finditer(r"'(\S+)' does not depend on any axioms", out):
                found[m.group(1)] = set()
            for w in wanted:
                ax = found.get(w)
                if ax is None:
                    # namespace-qualified names are printed in full; match by suffix
                    cands = [k for k in found if k == w or k.endswith("." + w)]
                    ax = found[cands[0]] if cands else None
                if ax is not None and ax <= ALLOWED_AXIOMS:
                    self.discharged.append(w)
                    axioms_used |= ax
                else:
                    self.broken.append({"kind": "audit", "theorem": w,
                                        "detail": "not proved in this build" if ax is None else "axioms: %s" % sorted(ax)})
        self.extra["axioms_used"] = sorted(axioms_used)
        return len(self.discharged) == len(self.obligations)

    def driver(self, cases, timeout=1800):
        """pipe JSON cases to the compiled Lean driver, return the replies (same order)"""
        if not cases:
            return []
        inp = "\n".join(json.dumps(c, separators=(",", ":")) for c in cases) + "\n"
        p = subprocess.run([DRIVER], input=inp, stdout=subprocess.PIPE, stderr=subprocess.PIPE, text=True, timeout=timeout)
        lines = p.stdout.split("\n")          # not splitlines(): a reply may echo U+0085 / U+2028 / U+001C inside a string
        if lines and lines[-1] == "":
            lines.pop()
        if p.returncode != 0 or len(lines) != len(cases):
            raise HarnessError("driver failed rc=%s, %d replies for %d cases: %s" % (p.returncode, len(lines), len(cases), p.stderr[-500:]))
        out = [json.loads(l) for l in lines]
        for c, r in zip(cases, out):
            if "driver_error" in r:
                raise HarnessError("driver error %r on case %s" % (r["driver_error"], json.dumps(c)[:400]))
        return out

    def impl_coverage(self):
        """statement / branch coverage of gaftools/*.py reached by this run's calls into the tool (in-process calls only)"""
        if not self.cov:
            return None
        try:
            self.cov.stop()
            data = self.cov.get_data()
            out = {}
            for f in sorted(data.measured_files()):
                rel = os.path.relpath(f, REPO)
                try:
                    _, stmts, _, missing, _ = self.cov.analysis2(f)
                except Exception:  # noqa
                    continue
                if not stmts:
                    continue
                runs, cur = [], None
                for ln in missing:
                    if cur and ln == cur[1] + 1:
                        cur[1] = ln
                    else:
                        cur = [ln, ln]
                        runs.append(cur)
                out[rel] = {"statements": len(stmts), "executed": len(stmts) - len(missing),
                            "missed_lines": ["%d-%d" % (a, b) if a != b else str(a) for a, b in runs][:200]}
            return out
        except Exception as e:  # noqa
            return {"error": str(e)[:200]}

    # ------------------------------------------------------------------ verdicts
    def violation(self, what, replay):
        """a concrete failing input against the real code"""
        self.violations.append({"what": what, "replay": replay})

    def disagreement(self, what, replay):
        """model and implementation differ but the spec holds on the implementation's output"""
        self.broken.append({"kind": "correspondence", "detail": what, "replay": replay})

    def known_finding(self, kid, what):
        self.known_hits[kid] = what

    def write_replay(self, tag, body):
        name = "%s-%s-seed%d.json" % (self.prop, tag, self.seed)
        path = os.path.join(VERIF, "replays", name)
        with open(path, "w") as f:
            json.dump(body, f, indent=1, default=str)
        return os.path.relpath(path, VERIF)

    def finish(self, level="proof", checker_cmd=None):
        wall = time.time() - self.t0
        rc = 0
        lines = []
        for kid, what in sorted(self.known_hits.items()):
            lines.append("KNOWN-FINDING: property=%s %s %s" % (self.prop, kid, what))
        if self.violations:
            v = self.violations[0]
            path = self.write_replay("violation", {"property": self.prop, "seed": self.seed, "tier": self.tier,
                                                   "what": v["what"], "case": v["replay"],
                                                   "others": [x["what"] for x in self.violations[1:20]]})
            lines.append("VIOLATION property=%s replay=%s" % (self.prop, path))
            rc = 1
        elif self.broken:
            path = self.write_replay("unproved", {"property": self.prop, "seed": self.seed, "tier": self.tier,
                                                  "no_longer_checks": self.broken[:20],
                                                  "search": "spec evaluated on the implementation's output for %d cases, no failing input" % self.evaluations})
            lines.append("VIOLATION property=%s replay=%s no-failing-input-found" % (self.prop, path))
            rc = 1
        try:
            import gen
            for k, v in gen.QUIRKS.items():
                self.hist["quirk:" + k] = v
        except ImportError:
            pass
        for k, v in CLI_COUNTS.items():
            self.hist["entry:" + k] = v
        impl_cov = self.impl_coverage()
        cov = {
            "obligations": len(self.obligations),
            "discharged": len(self.discharged),
            "checker_cmd": checker_cmd or "cd lean && lake build Gaftools.Props.%s && lake env lean Audit/%s.lean" % (self.prop, self.prop),
            "trusted_base": self.trusted,
            "theorems": self.obligations,
            "evaluations": self.evaluations,
            "distinct_nontrivial": len(self.nontrivial),
            "rule": self.rule,
            "samples": self.samples,
            "branch_histogram": self.hist,
            "tie": self.tie,
            "canonicalisations": self.canon,
            "known_findings_hit": sorted(self.known_hits),
            "broken": self.broken[:10],
        }
        if self.exhaustive is not None:
            cov["exhaustive"] = self.exhaustive
        if impl_cov:
            cov["implementation_coverage"] = impl_cov
        cov.update(self.extra)
        ev = {"property_id": self.prop, "tier": self.tier, "seed": self.seed, "level": level, "coverage": cov,
              "assumptions": self.assumptions, "wall_s": round(wall, 2), "violations": len(self.violations)}
        with open(os.path.join(VERIF, "evidence", "%s.json" % self.prop), "w") as f:
            json.dump(ev, f, indent=1, default=str)
        for l in lines:
            print(l)
        print("%s %s tier=%s seed=%d: %d/%d theorems, %d cases (%d distinct non-trivial), %d violations, %d broken, %.1fs" % (
            "OK" if rc == 0 else "FAIL", self.prop, self.tier, self.seed, len(self.discharged), len(self.obligations),
            self.evaluations, len(self.nontrivial), len(self.violations), len(self.broken), wall))
        return rc



# ---------------------------------------------------------------------------------------------------- the tool's entry points
CLI_RNG = random.Random("cli")
CLI_COUNTS = {}
CLI_SHARE = 0.3


def _argv(sub, kw):
    """the command line that the documentation gives for the call `sub(**kw)`"""
    a = [sub]
    opt = lambda flag, v: a.extend([flag, str(v)]) if v is not None else None
    if sub == "index":
        a += [kw["gaf_path"], kw["gfa_path"]]
        opt("-o", kw.get("output"))
    elif sub == "view":
        a.append(kw["gaf_path"])
        opt("-g", kw.get("gfa"))
        opt("-o", kw.get("output"))
        opt("-i", kw.get("index"))
        for n in kw.get("nodes") or []:
            a += ["-n", n]
        for r in kw.get("regions") or []:
            a += ["-r", r]
        opt("-f", kw.get("format"))
    elif sub == "sort":
        a += [kw["gaf"], kw["gfa"]]
        opt("--outgaf", kw.get("outgaf"))
        opt("--outind", kw.get("outind"))
        if kw.get("bgzip"):
            a.append("--bgzip")
    elif sub == "stat":
        a.append(kw["gaf_path"])
        opt("-o", kw.get("output"))
        if kw.get("cigar_stat"):
            a.append("--cigar")
    elif sub == "phase":
        a += [kw["gaf_file"], kw["tsv_file"]]
        opt("-o", kw.get("output"))
    elif sub == "realign":
        a += [kw["gaf"], kw["graph"], kw["fasta"]]
        opt("-o", kw.get("output"))
        opt("-c", kw.get("cores"))
    elif sub == "find_path":
        a += [kw["gfa_path"], kw["input_path"]]
        opt("-o", kw.get("output"))
        if kw.get("fasta"):
            a.append("--fasta")
    elif sub == "order_gfa":
        if kw.get("chromosome_order"):
            a += ["--chromosome_order", kw["chromosome_order"]]
        if kw.get("with_sequence"):
            a.append("--with-sequence")
        a += ["--outdir", kw["outdir"]]
        if kw.get("by_chrom"):
            a.append("--by-chrom")
        a.append(kw["gfa_filename"])
    else:
        raise HarnessError("no command line known for %s" % sub)
    return a


class _KeepOpen:
    """text sink standing in for sys.stdout: collects what is written; `close()` (run_sort closes its writer) is recorded, not obeyed"""

    def __init__(self):
        import io
        self.buf = io.StringIO()
        self.closed_by_tool = False

    def write(self, x):
        if isinstance(x, bytes):
            raise TypeError("string argument expected, got 'bytes'")
        return self.buf.write(x)

    def flush(self):
        pass

    def close(self):
        self.closed_by_tool = True

    def isatty(self):
        return False


def tool(sub, via_cli=None, allow_stdout=False, **kw):
    """one call of sub-command `sub` of the real tool, either through its Python entry point (`view.run`, `run_sort`, ...) or -
    for a share of the calls, drawn from a PRNG stream of its own - through the command line (`gaftools.__main__.main(argv)`,
    in-process: argument parser, `validate`, `main(args)` of the sub-command). Exceptions and `SystemExit` propagate as they
    come; the one translation: `view` reports "nothing found" by CommandLineError, which the command line turns into exit
    status 1 - it is raised again as CommandLineError so that callers see one outcome for both routes."""
    if via_cli is None:
        via_cli = CLI_RNG.random() < CLI_SHARE
    CLI_COUNTS[("cli:" if via_cli else "api:") + sub] = CLI_COUNTS.get(("cli:" if via_cli else "api:") + sub, 0) + 1
    okey = "outgaf" if sub == "sort" else "output"
    to_stdout = bool(via_cli and allow_stdout and kw.get(okey) and CLI_RNG.random() < 0.4)
    if to_stdout:
        # no -o: the records go to standard output (the documented default); collected here and written to the file the caller
        # expects, so that both routes are judged by the same code
        CLI_COUNTS["cli-stdout:" + sub] = CLI_COUNTS.get("cli-stdout:" + sub, 0) + 1
        target = kw[okey]
        kw = dict(kw)
        kw[okey] = None
        import contextlib
        sink = _KeepOpen()
        try:
            with contextlib.redirect_stdout(sink):
                tool(sub, via_cli=True, allow_stdout=False, **kw)
        finally:
            with open(target, "w") as f:
                f.write(sink.buf.getvalue())
        return None
    if via_cli:
        from gaftools.__main__ import main as gmain
        from gaftools.cli import CommandLineError
        root = logging.getLogger()
        before = list(root.handlers)
        try:
            gmain(_argv(sub, kw))
        except SystemExit as e:
            if sub == "view" and e.code == 1:
                raise CommandLineError("exit status 1 from the command line")
            if e.code not in (0, None):
                raise
        finally:
            for h in list(root.handlers):
                if h not in before:
                    root.removeHandler(h)
        return None
    import importlib
    mod = importlib.import_module("gaftools.cli." + sub)
    fn = {"index": "run", "view": "run", "sort": "run_sort", "stat": "run_stat", "phase": "run", "realign": "run_realign",
          "find_path": "run", "order_gfa": "run_order_gfa"}[sub]
    return getattr(mod, fn)(**kw)


class ImplHang(BaseException):
    """raised by the watchdog inside a call into the implementation (BaseException: not swallowed by `except Exception`)"""


class watchdog:
    """`with watchdog(20): call_into_the_tool()` - a call that does not return within the limit raises ImplHang, which the
    harnesses report as the outcome 'hang' (a violation wherever the property says the tool terminates)"""

    def __init__(self, seconds):
        self.seconds = seconds

    def __enter__(self):
        import signal

        def on_alarm(*a):
            raise ImplHang("no return within %d s" % self.seconds)
        self.old = signal.signal(signal.SIGALRM, on_alarm)
        signal.alarm(self.seconds)

    def __exit__(self, *a):
        import signal
        signal.alarm(0)
        signal.signal(signal.SIGALRM, self.old)
        return False


def run_check(fn, prop):
    """entry wrapper: exit 2 on harness trouble"""
    try:
        rc = fn()
    except HarnessError as e:
        print("HARNESS-ERROR %s: %s" % (prop, e), file=sys.stderr)
        sys.exit(2)
    except subprocess.TimeoutExpired as e:
        print("HARNESS-TIMEOUT %s: %s" % (prop, e), file=sys.stderr)
        sys.exit(2)
    except SystemExit:
        raise
    except BaseException as e:  # noqa: anything unexpected inside the harness itself is harness trouble, never a verdict
        import traceback
        traceback.print_exc()
        print("HARNESS-ERROR %s: %s: %s" % (prop, type(e).__name__, e), file=sys.stderr)
        sys.exit(2)
    sys.exit(rc)
