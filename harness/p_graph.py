"""C14 (walk sequences), C15 (graph primitives), C07 (GFA I/O) against the Lean model/spec."""
import io
import itertools
import os
import re
import shutil
import sys
import tempfile

from core import Check, run_check
import gen


def tokenize_gfa(text):
    """independent tokeniser of GFA text -> the JSON shape of Gfa.GfaFile (S and L records in file order)"""
    segs, links = [], []
    for line in text.splitlines():
        if line.startswith("S"):
            f = line.strip().split("\t")
            tags = []
            for t in f[3:]:
                n, ty, v = t.split(":", 2)
                tags.append([n, ty, v])
            segs.append({"id": f[1], "seq": f[2], "tags": tags})
        elif line.startswith("L"):
            f = line.strip().split("\t")
            links.append({"a": f[1], "da": f[2] == "+", "b": f[3], "db": f[4] == "+", "ov": int(f[5][:-1]), "tags": f[6:]})
    return {"segs": segs, "links": links}


def small_gfa(rng, maxn=6, tags=False):
    """tiny GFA with sequences, links in all four orientation combinations, self-links, both-end declarations, dangling links"""
    n = rng.randint(1, maxn)
    ids = ["n%d" % i for i in range(n)] if rng.random() < 0.7 else [str(i) for i in range(1, n + 1)]
    lines = []
    for i in ids:
        seq = gen.rseq(rng, rng.randint(1, 5))
        if rng.random() < 0.1:
            seq = seq[:-1] + "N"
        lines.append("S\t%s\t%s" % (i, seq))
    nl = rng.randint(0, 2 * n + 1)
    seen = set()
    for _ in range(nl):
        a, b = rng.choice(ids), rng.choice(ids)
        da, db = rng.choice("+-"), rng.choice("+-")
        if rng.random() < 0.05:
            b = "ghost"
        if (a, da, b, db) in seen:
            continue
        seen.add((a, da, b, db))
        lines.append("L\t%s\t%s\t%s\t%s\t%dM" % (a, da, b, db, rng.choice([0, 0, 3])))
        if rng.random() < 0.15:  # same link declared from the other end as well
            fl = {"+": "-", "-": "+"}
            m = (b, fl[db], a, fl[da])
            if m not in seen:
                seen.add(m)
                lines.append("L\t%s\t%s\t%s\t%s\t0M" % m)
    if rng.random() < 0.3:
        lines.insert(0, "H\tVN:Z:1.0")
    rng.shuffle(lines) if rng.random() < 0.3 else None
    return "\n".join(lines) + "\n", ids


def rand_steps(rng, text, ids, adj_links):
    """half of the time a real walk (following declared links forwards or mirrored), else arbitrary steps"""
    fl = {"+": "-", "-": "+"}
    if rng.random() < 0.55 and adj_links:
        adj = {}
        for (a, da, b, db) in adj_links:
            adj.setdefault((a, da), []).append((b, db))
            adj.setdefault((b, fl[db]), []).append((a, fl[da]))
        cur = (rng.choice(ids), rng.choice("+-"))
        w = [cur]
        for _ in range(rng.randint(0, 5)):
            nx = adj.get(cur)
            if not nx:
                break
            cur = rng.choice(nx)
            w.append(cur)
        if rng.random() < 0.15 and len(w) > 1:  # break it somewhere
            k = rng.randrange(len(w))
            w[k] = (w[k][0], fl[w[k][1]])
        return w
    return [(rng.choice(ids), rng.choice("+-")) for _ in range(rng.randint(1, 6))]


def c14(ck, tmp):
    from gaftools.gfa import GFA
    from gaftools.cli import find_path
    rng = ck.rng
    ngraphs = 300 if ck.tier == "quick" else 12000
    for it in range(ngraphs):
        text, ids = small_gfa(rng)
        gfa = os.path.join(tmp, "w.gfa")
        gz = rng.random() < 0.15
        if gz:
            gfa += ".gz"
            gen.write_gzip(gfa, text)
        else:
            gen.write_text(gfa, text)
        tok = tokenize_gfa(text)
        real = [(l["a"], "+" if l["da"] else "-", l["b"], "+" if l["db"] else "-") for l in tok["links"] if l["a"] in ids and l["b"] in ids]
        paths = [rand_steps(rng, text, ids, real) for _ in range(10)]
        rev = [[(n, {"+": "-", "-": "+"}[o]) for n, o in reversed(p)] for p in paths]
        allp = paths + rev
        strs = [gen.path_str(p) for p in allp]
        impl = []
        try:
            g = GFA(gfa)
            for s in strs:
                try:
                    impl.append(g.extract_path(s))
                except BaseException:  # noqa
                    impl.append(None)
        except BaseException as e:  # noqa
            ck.violation("loading a valid GFA failed: %s" % type(e).__name__, {"gfa": text})
            continue
        # the CLI with a file of paths (and FASTA naming), every 5th graph
        cli = None
        if it % 5 == 0:
            pf = os.path.join(tmp, "paths.txt")
            gen.write_text(pf, "".join(s + "\n" for s in strs))
            out = os.path.join(tmp, "fp.out")
            fasta = rng.random() < 0.5
            try:
                find_path.run(gfa, pf, output=out, fasta=fasta)
                cli = open(out).read().split("\n")
                if cli and cli[-1] == "":
                    cli.pop()
                if fasta:
                    names, cli = cli[0::2], cli[1::2]
                    if names != [">seq_" + s for s in strs]:
                        ck.violation("find_path --fasta record names are not seq_<path> in input order", {"gfa": text, "paths": strs, "names": names})
            except BaseException as e:  # noqa
                cli = "crash:" + type(e).__name__
        rep = ck.driver([{"op": "walk.extract", "gfa": tok, "paths": [[[o == "+", n] for n, o in p] for p in allp], "impl": impl}])[0]["results"]
        for k, (s, im, r) in enumerate(zip(strs, impl, rep)):
            nsteps = len(allp[k])
            ck.case({"gfa": text, "path": s}, nsteps >= 2 and r["valid"], sample={"gfa": text.splitlines(), "path": s, "impl": im} if nsteps >= 3 and r["is_walk"] else None)
            ck.count("steps:%d" % min(nsteps, 4))
            ck.count("walk" if r["is_walk"] else "non-walk")
            if not r["valid"]:
                ck.count("invalid")
                continue
            replay = {"gfa": text, "path": s, "impl": im, "expected": r["expected"], "model": r["model"]}
            if not r["spec_on_impl"]:
                ck.violation("extract_path(%s) = %r, expected %r" % (s, im, r["expected"]), replay)
                continue
            if im != r["model"]:
                ck.disagreement("extract_path differs from the model", replay)
        # reversed walk accepted iff the walk is, and spells the reverse complement (on the implementation's own outputs)
        for k in range(len(paths)):
            if not rep[k]["valid"]:
                continue
            a, b = impl[k], impl[k + len(paths)]
            if a is None or b is None:
                continue
            if (a == "") != (b == "") or (a and gen.rc(a) != b and "N" not in a):
                ck.violation("reversed walk inconsistent: %s -> %r, %s -> %r" % (strs[k], a, strs[k + len(paths)], b), {"gfa": text, "paths": [strs[k], strs[k + len(paths)]], "impl": [a, b]})
        if cli is not None:
            ck.count("cli-file-mode")
            if cli != [x if x is not None else "<crash>" for x in impl]:
                ck.violation("find_path with a path file: output records differ from one extract_path per line, in order", {"gfa": text, "paths": strs, "cli": cli, "lib": impl})
        os.remove(gfa)


def main(prop):
    ck = Check(prop)
    ck.trusted = ["Lean 4.33.0 kernel", "axioms: propext, Classical.choice, Quot.sound (audited)", "correspondence harness + JSON driver",
                  "tokenisation of GFA text (strip/split) and of path strings (re.findall) modelled at token level: covered by correspondence only"]
    ck.lean_build(["Gaftools.Props.%s" % prop])
    ck.audit("%s.lean" % prop)
    tmp = tempfile.mkdtemp(prefix="gtv-graph-")
    try:
        if prop == "C14":
            ck.assumptions = ["unique segment ids", "steps over nodes of the graph (an unknown first node of a pair raises KeyError in the tool)", "sequences over ACGT for the reverse-complement involution"]
            ck.rule = "random GFAs of 1-6 nodes (all four link orientations, self-links, both-end declarations, dangling links, shuffled lines, numeric ids, gzip) x 10 step sequences (55% walks following links forwards/mirrored, some broken, rest arbitrary) + each reversed; library call and find_path file mode; non-trivial = >= 2 steps over nodes of the graph"
            c14(ck, tmp)
    finally:
        shutil.rmtree(tmp, ignore_errors=True)
    return ck.finish()


if __name__ == "__main__":
    prop = sys.argv[1]
    run_check(lambda: main(prop), prop)
