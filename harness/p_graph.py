"""C14 (walk sequences), C15 (graph primitives), C07 (GFA I/O) against the Lean model/spec."""
import io
import itertools
import os
import re
import shutil
import sys
import tempfile

from core import tool, Check, run_check, watchdog
import gen


def tokenize_gfa(text):
    """independent tokeniser of GFA text -> the JSON shape of Gfa.GfaFile (S and L records in file order)"""
    segs, links = [], []
    for line in text.splitlines():
        if line.startswith("S"):
            f = line.strip().split("\t")
            tags = []
            for t in f[3:]:
                n, ty, v = t.split(":", 2)
                tags.append([n, ty, v])
            segs.append({"id": f[1], "seq": f[2], "tags": tags})
        elif line.startswith("L"):
            f = line.strip().split("\t")
            links.append({"a": f[1], "da": f[2] == "+", "b": f[3], "db": f[4] == "+", "ov": int(f[5][:-1]), "tags": f[6:]})
    return {"segs": segs, "links": links}


def small_gfa(rng, maxn=6, tags=False):
    """tiny GFA with sequences, links in all four orientation combinations, self-links, both-end declarations, dangling links"""
    n = rng.randint(1, maxn)
    ids = ["n%d" % i for i in range(n)] if rng.random() < 0.7 else [str(i) for i in range(1, n + 1)]
    lines = []
    for i in ids:
        seq = gen.rseq(rng, rng.randint(1, 5))
        if rng.random() < 0.1:
            seq = seq[:-1] + "N"
        lines.append("S\t%s\t%s" % (i, seq))
    nl = rng.randint(0, 2 * n + 1)
    seen = set()
    for _ in range(nl):
        a, b = rng.choice(ids), rng.choice(ids)
        da, db = rng.choice("+-"), rng.choice("+-")
        if rng.random() < 0.05:
            b = "ghost"
        if (a, da, b, db) in seen:
            continue
        seen.add((a, da, b, db))
        lines.append("L\t%s\t%s\t%s\t%s\t%dM" % (a, da, b, db, rng.choice([0, 0, 3])))
        if rng.random() < 0.15:  # same link declared from the other end as well
            fl = {"+": "-", "-": "+"}
            m = (b, fl[db], a, fl[da])
            if m not in seen:
                seen.add(m)
                lines.append("L\t%s\t%s\t%s\t%s\t0M" % m)
    if rng.random() < 0.3:
        lines.insert(0, "H\tVN:Z:1.0")
    rng.shuffle(lines) if rng.random() < 0.3 else None
    return "\n".join(lines) + "\n", ids


def rand_steps(rng, text, ids, adj_links):
    """half of the time a real walk (following declared links forwards or mirrored), else arbitrary steps"""
    fl = {"+": "-", "-": "+"}
    if rng.random() < 0.55 and adj_links:
        adj = {}
        for (a, da, b, db) in adj_links:
            adj.setdefault((a, da), []).append((b, db))
            adj.setdefault((b, fl[db]), []).append((a, fl[da]))
        cur = (rng.choice(ids), rng.choice("+-"))
        w = [cur]
        for _ in range(rng.randint(0, 5)):
            nx = adj.get(cur)
            if not nx:
                break
            cur = rng.choice(nx)
            w.append(cur)
        if rng.random() < 0.15 and len(w) > 1:  # break it somewhere
            k = rng.randrange(len(w))
            w[k] = (w[k][0], fl[w[k][1]])
        return w
    w = [(rng.choice(ids), rng.choice("+-")) for _ in range(rng.randint(1, 6))]
    if rng.random() < 0.06:
        # a step over a node the graph does not have (outside the property's quantifier: compared with the model only - the last
        # or only step gives an empty sequence, an earlier one is a KeyError in the tool and `none` in the model)
        k = rng.choice([len(w) - 1, len(w) - 1, rng.randrange(len(w))])
        w[k] = ("zz_not_a_node", w[k][1])
    return w


def c14(ck, tmp):
    from gaftools.gfa import GFA
    from gaftools.cli import find_path
    rng = ck.rng
    ngraphs = 300 if ck.tier == "quick" else 6000
    for it in range(ngraphs):
        text, ids = small_gfa(rng)
        gfa = os.path.join(tmp, "w.gfa")
        gz = rng.random() < 0.15
        if gz:
            gfa += ".gz"
            gen.write_gzip(gfa, text)
        else:
            gen.write_text(gfa, text)
        tok = tokenize_gfa(text)
        real = [(l["a"], "+" if l["da"] else "-", l["b"], "+" if l["db"] else "-") for l in tok["links"] if l["a"] in ids and l["b"] in ids]
        # one graph per run gets a path file of more than a thousand lines (beyond any plausible internal batch)
        paths = [rand_steps(rng, text, ids, real) for _ in range(10 if it != 5 else 560)]
        rev = [[(n, {"+": "-", "-": "+"}[o]) for n, o in reversed(p)] for p in paths]
        allp = paths + rev
        strs = [gen.path_str(p) for p in allp]
        impl = []
        try:
            g = GFA(gfa)
            for s in strs:
                try:
                    with watchdog(20):
                        impl.append(g.extract_path(s))
                except BaseException:  # noqa
                    impl.append(None)
        except BaseException as e:  # noqa
            ck.violation("loading a valid GFA failed: %s" % type(e).__name__, {"gfa": text})
            continue
        # the CLI with a file of paths (and FASTA naming), every 5th graph
        cli = None
        if it % 5 == 0:
            pf = os.path.join(tmp, "paths.txt")
            keep = [i for i, s in enumerate(strs) if "zz_not_a_node" not in s]     # the file mode is run on steps over nodes of the graph
            fstrs = [strs[i] for i in keep]
            gen.write_text(pf, "".join(s + "\n" for s in fstrs))
            out = os.path.join(tmp, "fp.out")
            fasta = rng.random() < 0.5
            try:
                tool("find_path", allow_stdout=True, gfa_path=gfa, input_path=pf, output=out, fasta=fasta)
                cli = open(out).read().split("\n")
                if cli and cli[-1] == "":
                    cli.pop()
                if fasta:
                    names, cli = cli[0::2], cli[1::2]
                    if names != [">seq_" + s for s in fstrs]:
                        ck.violation("find_path --fasta record names are not seq_<path> in input order", {"gfa": text, "paths": fstrs, "names": names})
            except BaseException as e:  # noqa
                cli = "crash:" + type(e).__name__
        # the command line with ONE path given as the argument itself (not a file of paths), a few per graph
        if it % 4 == 1:
            for k in rng.sample(range(len(strs)), min(3, len(strs))):
                if "zz_not_a_node" in strs[k] or impl[k] is None:
                    continue
                out1 = os.path.join(tmp, "fp1.out")
                try:
                    tool("find_path", allow_stdout=True, gfa_path=gfa, input_path=strs[k], output=out1, fasta=False)
                    got = open(out1).read().split("\n")
                    if got and got[-1] == "":
                        got.pop()
                except BaseException as e:  # noqa
                    got = "crash:" + type(e).__name__
                ck.count("cli-single-path")
                if got != [impl[k]]:
                    ck.violation("find_path with the path %s as its argument writes %r, extract_path gives %r" % (strs[k], got, impl[k]),
                                 {"gfa": text, "path": strs[k], "cli": got, "lib": impl[k]})
        rep = ck.driver([{"op": "walk.extract", "gfa": tok, "paths": [[[o == "+", n] for n, o in p] for p in allp], "impl": impl}])[0]["results"]
        for k, (s, im, r) in enumerate(zip(strs, impl, rep)):
            nsteps = len(allp[k])
            ck.case({"gfa": text, "path": s}, nsteps >= 2 and r["valid"], sample={"gfa": text.splitlines(), "path": s, "impl": im} if nsteps >= 3 and r["is_walk"] else None)
            ck.count("steps:%d" % min(nsteps, 4))
            ck.count("walk" if r["is_walk"] else "non-walk")
            replay = {"gfa": text, "path": s, "impl": im, "expected": r["expected"], "model": r["model"]}
            if not r["valid"]:
                ck.count("invalid")
                if "zz_not_a_node" in s:
                    ck.count("unknown-node:model-only")
                    if im != r["model"]:
                        ck.disagreement("extract_path over a node the graph does not have differs from the model (outside the property's quantifier)", replay)
                continue
            if not r["spec_on_impl"]:
                ck.violation("extract_path(%s) = %r, expected %r" % (s, im, r["expected"]), replay)
                continue
            if im != r["model"]:
                ck.disagreement("extract_path differs from the model", replay)
        # reversed walk accepted iff the walk is, and spells the reverse complement (on the implementation's own outputs)
        for k in range(len(paths)):
            if not rep[k]["valid"]:
                continue
            a, b = impl[k], impl[k + len(paths)]
            if a is None or b is None:
                continue
            if (a == "") != (b == "") or (a and gen.rc(a) != b and "N" not in a):
                ck.violation("reversed walk inconsistent: %s -> %r, %s -> %r" % (strs[k], a, strs[k + len(paths)], b), {"gfa": text, "paths": [strs[k], strs[k + len(paths)]], "impl": [a, b]})
        if cli is not None:
            ck.count("cli-file-mode")
            if cli != [impl[i] if impl[i] is not None else "<crash>" for i in keep]:
                ck.violation("find_path with a path file: output records differ from one extract_path per line, in order", {"gfa": text, "paths": fstrs, "cli": cli, "lib": [impl[i] for i in keep]})
        os.remove(gfa)


# ---------------------------------------------------------------------------------------------------- C15
def graph_text(n, edges, rng=None, ids=None):
    """edges: list of (i, di, j, dj, ov) over node indices"""
    ids = ids or ["v%d" % i for i in range(n)]
    lines = ["S\t%s\t*" % i for i in ids]
    for (a, da, b, db, ov) in edges:
        lines.append("L\t%s\t%s\t%s\t%s\t%dM" % (ids[a], da, ids[b], db, ov))
    if rng is not None and rng.random() < 0.3:
        rng.shuffle(lines)
    return "\n".join(lines) + "\n", ids


def rand_graph(rng, maxn=9):
    n = rng.randint(1, maxn)
    edges = []
    style = rng.random()
    if style < 0.35:   # chain of blocks: guarantees cut vertices and cycles
        k = 0
        cur = 0
        while cur < n - 1:
            size = rng.randint(1, min(4, n - 1 - cur))
            block = list(range(cur, cur + size + 1))
            for a, b in zip(block, block[1:]):
                edges.append((a, b))
            if size >= 2:
                edges.append((block[0], block[-1]))
                if size >= 3 and rng.random() < 0.5:
                    edges.append((block[0], block[2]))
            cur += size
    else:
        m = rng.randint(0, min(2 * n, n * (n - 1) // 2 + 2))
        for _ in range(m):
            edges.append((rng.randrange(n), rng.randrange(n)))
    out = []
    for (a, b) in edges:
        out.append((a, rng.choice("+-"), b, rng.choice("+-"), rng.choice([0, 0, 0, 5])))
        if rng.random() < 0.08:   # parallel link with another overlap / orientation
            out.append((a, rng.choice("+-"), b, rng.choice("+-"), 7))
    perm = list(range(n))
    rng.shuffle(perm)   # node order in the file independent of structure
    out = [(perm[a], da, perm[b], db, ov) for (a, da, b, db, ov) in out]
    return n, out


PENDING_ALGOS = []


def run_algos(ck, text, ids, rng, tmp, tag):
    """run the real primitives now, queue the case for one batched driver call (flush_algos)"""
    from gaftools.gfa import GFA
    gfa = os.path.join(tmp, "a.gfa")
    gen.write_text(gfa, text)
    tok = tokenize_gfa(text)
    starts = [rng.choice(ids) for _ in range(min(3, len(ids)))]
    impl = {}
    try:
        g = GFA(gfa, low_memory=True)
        with watchdog(60):
            comps = g.all_components()
            impl["components"] = [sorted(c) for c in comps]
            impl["dfs"] = [g.dfs(s) for s in starts]
        flags_reset = all(not n.visited for n in g.nodes.values())
        connected = len(comps) == 1 and len(ids) >= 2
        if connected:
            with watchdog(60):
                c, a = g.biccs()
            impl["biccs"] = {"comps": [sorted(x) for x in c], "aps": sorted(a)}
        else:
            impl["biccs"] = None
    except BaseException as e:  # noqa
        ck.violation("graph primitive crashed or did not terminate: %s: %s" % (type(e).__name__, e), {"gfa": text})
        return
    PENDING_ALGOS.append(({"op": "graph.algos", "gfa": tok, "starts": starts, "impl": impl}, text, ids, starts, impl, flags_reset, tag))
    if len(PENDING_ALGOS) >= 400:
        flush_algos(ck)


def flush_algos(ck):
    if not PENDING_ALGOS:
        return
    rep = ck.driver([x[0] for x in PENDING_ALGOS])
    for (case, text, ids, starts, impl, flags_reset, tag), r in zip(PENDING_ALGOS, rep):
        judge_algos(ck, r, text, ids, starts, impl, flags_reset, tag)
    del PENDING_ALGOS[:]


def judge_algos(ck, r, text, ids, starts, impl, flags_reset, tag):
    has_cycle_or_cut = r["connected"] and (len(r["biccs_spec"]["aps"]) > 0 or any(len(c) >= 3 for c in r["biccs_spec"]["comps"]))
    ck.case({"gfa": text}, len(ids) >= 3 and has_cycle_or_cut, sample={"gfa": text.splitlines(), "impl": impl} if has_cycle_or_cut and len(ids) >= 5 else None)
    ck.count(tag)
    ck.count("nodes:%d" % len(ids))
    ck.count("connected" if r["connected"] else "disconnected-or-single")
    if r["connected"]:
        ck.count("cutvertices:%d" % min(3, len(r["biccs_spec"]["aps"])))
    replay = {"gfa": text, "starts": starts, "impl": impl, "spec": {"components": r["components_spec"], "biccs": r["biccs_spec"]}}
    if not r["components_ok"]:
        ck.violation("all_components is not the partition into connected components", replay)
        return
    if not flags_reset:
        ck.violation("visited flags left set after all_components", replay)
        return
    if not r["dfs_ok"]:
        ck.violation("dfs does not visit exactly the nodes of the start node's component once each", replay)
        return
    if not r["biccs_ok"]:
        ck.violation("biccs does not return the true biconnected components / articulation points", replay)
        return
    canon = lambda ll: sorted(sorted(x) for x in ll)
    if canon(impl["components"]) != r["components_model"] or impl["dfs"] != r["dfs_model"]:
        ck.disagreement("components/dfs differ from the model", dict(replay, model={"components": r["components_model"], "dfs": r["dfs_model"]}))
    if impl["biccs"] is not None and (canon(impl["biccs"]["comps"]) != r["biccs_model"]["comps"] or impl["biccs"]["aps"] != r["biccs_model"]["aps"]):
        ck.disagreement("biccs differs from the model", dict(replay, model=r["biccs_model"]))


def dump_graph(g):
    return [{"id": n.id, "start": sorted([list(x) for x in ((a, bool(b), c) for a, b, c in n.start)]),
             "end": sorted([list(x) for x in ((a, bool(b), c) for a, b, c in n.end)])} for n in g.nodes.values()]


def run_history(ck, rng):
    """an edit history through the library, with queries (traversals) interleaved; afterwards the edited OBJECT must equal the
    graph built from the survivors, and the primitives must answer on it as on a freshly built graph"""
    from gaftools.gfa import GFA
    g = GFA()
    alive = []
    links = []
    ops = []
    pool = ["n%d" % i for i in range(rng.randint(2, 6))]
    ndel = 0
    nquery = 0
    for _ in range(rng.randint(3, 25)):
        r = rng.random()
        if alive and rng.random() < 0.25:
            # a query between edits (must not change anything; caches must not go stale)
            try:
                q = rng.random()
                if q < 0.4:
                    g.all_components()
                elif q < 0.7:
                    g.dfs(rng.choice(alive))
                else:
                    g[rng.choice(alive)].neighbors()
                nquery += 1
            except BaseException as e:  # noqa
                ck.violation("a graph primitive raised %s on a graph made through the library" % type(e).__name__, {"ops": ops})
                return
        if r < 0.3 or len(alive) < 1:
            i = rng.choice(pool)
            ops.append({"op": "addNode", "id": i})
            g.add_node(i)
            if i not in alive:
                alive.append(i)
        elif r < 0.8:
            a, b = rng.choice(alive), rng.choice(alive)
            da, db, ov = rng.choice("+-"), rng.choice("+-"), rng.choice([0, 0, 4])
            ops.append({"op": "addLink", "a": a, "da": da == "+", "b": b, "db": db == "+", "ov": ov, "tags": []})
            g.add_edge(a, da, b, db, ov)
            links.append((a, da, b, db, ov))
        else:
            i = rng.choice(alive)
            ops.append({"op": "delNode", "id": i})
            try:
                g.remove_node(i)
            except BaseException as e:  # noqa
                ck.violation("remove_node raised %s" % type(e).__name__, {"ops": ops})
                return
            alive.remove(i)
            links = [l for l in links if l[0] != i and l[2] != i]
            ndel += 1
    impl = dump_graph(g)
    r = ck.driver([{"op": "graph.history", "ops": ops}])[0]
    ck.case(ops, ndel >= 1 and any(o["op"] != "delNode" for o in ops[[k for k, o in enumerate(ops) if o["op"] == "delNode"][0]:]) if ndel else False,
            sample={"ops": ops[:8]} if ndel else None)
    ck.count("history-dels:%d" % min(ndel, 3))
    ck.count("history-queries:%d" % min(nquery, 3))
    replay = {"ops": ops, "impl": impl, "spec": r["spec"]}
    # symmetric and no dangling, on the implementation's own graph
    ids = {n["id"] for n in impl}
    for n in impl:
        for side, key in ((False, "start"), (True, "end")):
            for (m, sm, ov) in n[key]:
                if m not in ids:
                    ck.violation("adjacency of %s refers to deleted node %s" % (n["id"], m), replay)
                    return
                other = [x for x in impl if x["id"] == m][0]["end" if sm else "start"]
                if [n["id"], side, ov] not in other:
                    ck.violation("adjacency not symmetric between %s and %s" % (n["id"], m), replay)
                    return
    if impl != r["spec"]:
        ck.violation("graph after the history differs from the graph built from the surviving nodes and links", replay)
        return
    if impl != r["model"]:
        ck.disagreement("history result differs from the model", dict(replay, model=r["model"]))
    # the primitives on the edited object = the primitives on the graph built from the survivors
    if alive:
        text = "".join("S\t%s\t*\n" % i for i in alive) + "".join("L\t%s\t%s\t%s\t%s\t%dM\n" % l for l in links)
        tok = tokenize_gfa(text)
        starts = [rng.choice(alive) for _ in range(min(3, len(alive)))]
        res = {}
        try:
            comps = g.all_components()
            res["components"] = [sorted(c) for c in comps]
            res["dfs"] = [g.dfs(s) for s in starts]
            flags_reset = all(not n.visited for n in g.nodes.values())
            if len(comps) == 1 and len(alive) >= 2:
                c, a = g.biccs()
                res["biccs"] = {"comps": [sorted(x) for x in c], "aps": sorted(a)}
            else:
                res["biccs"] = None
        except BaseException as e:  # noqa
            ck.violation("a graph primitive raised %s on a graph made through the library" % type(e).__name__, replay)
            return
        PENDING_ALGOS.append(({"op": "graph.algos", "gfa": tok, "starts": starts, "impl": res}, "history: " + text, alive[:], starts, res, flags_reset, "after-history"))


def c15(ck, tmp):
    rng = ck.rng
    quick = ck.tier == "quick"
    for it in range(400 if quick else 10000):
        n, edges = rand_graph(rng)
        ids = ["v%d" % i for i in range(n)] if rng.random() < 0.6 else [str(10 - i) for i in range(n)]
        if it % 9 == 4:
            # a node whose id is the empty string: reachable through add_node("") and through an S line with an empty name, which
            # read_graph accepts; falsy in Python (D23: `if nn:` in biccs)
            ids[rng.randrange(n)] = ""
            ck.count("empty-node-id")
        text, ids = graph_text(n, edges, rng, ids)
        run_algos(ck, text, ids, rng, tmp, "random")
    # exhaustive: every simple graph on n labelled nodes (n <= 4 quick, <= 5 thorough), one orientation labelling each
    top = 4 if quick else 5
    count = 0
    for n in range(1, top + 1):
        pairs = list(itertools.combinations(range(n), 2))
        for mask in range(1 << len(pairs)):
            edges = [(a, "+", b, "+", 0) for k, (a, b) in enumerate(pairs) if mask >> k & 1]
            text, ids = graph_text(n, edges)
            run_algos(ck, text, ids, rng, tmp, "exhaustive<=%d" % top)
            count += 1
    # exhaustive with self-links / parallel links / all four orientation labellings on <= 3 nodes
    for n in range(1, 4):
        slots = [(a, b) for a in range(n) for b in range(a, n)]
        for mult in itertools.product(range(3), repeat=len(slots)):
            if sum(mult) > 4:
                continue
            edges = []
            for (a, b), m in zip(slots, mult):
                for k in range(m):
                    edges.append((a, "+-"[k % 2], b, "+-"[(k + (a == b)) % 2], k))
            text, ids = graph_text(n, edges)
            run_algos(ck, text, ids, rng, tmp, "exhaustive-multigraph<=3")
    flush_algos(ck)
    ck.extra["exhaustive_scopes"] = ["all simple graphs on <= %d labelled nodes" % top, "all multigraphs on <= 3 nodes with <= 2 links per slot (self-links included), <= 4 links"]
    for it in range(250 if quick else 4000):
        run_history(ck, rng)
    flush_algos(ck)
    mid_graph(ck, rng, tmp)
    if not quick:
        big_graph(ck)
    # the helper functions of gfa.py beyond the property's anchors (in_direction/children, remove_lonely_nodes, graph_from_comp,
    # list_is_path, get_path, get_contig_length, return_gfa_path, is_equal_to): model Model/GraphExtra.lean, theorems Props/C15Extra.lean
    import p_graph_extra
    p_graph_extra.c15_extra(ck, tmp, 300 if quick else 6000)


def mid_graph(ck, rng, tmp):
    """a generated chain of > 1000 bubbles (> 4096 L lines) written S-first, L-first and shuffled, loaded with and without
    low_memory: components, articulation points and dfs against what the construction fixes (supporting run at a size the
    definition-level checker does not reach; the small scopes above are decided by the Lean specification)"""
    from gaftools.gfa import GFA
    nb = rng.randint(1050, 1200)
    S, L = [], []
    k = 0

    def new():
        nonlocal k
        k += 1
        S.append("S\tn%d\t%s" % (k, gen.rseq(rng, 2)))
        return "n%d" % k
    scaff = [new()]
    for b in range(nb):
        r, h, nxt = new(), new(), new()
        for x in (r, h):
            L.append("L\t%s\t+\t%s\t+\t0M" % (scaff[-1], x))
            L.append("L\t%s\t+\t%s\t+\t0M" % (x, nxt))
        scaff.append(nxt)
    lone = new()                     # a second component: one segment without links
    sh = S + L
    rng.shuffle(sh)
    allids = {"n%d" % i for i in range(1, k + 1)}
    for name, lines in (("S-first", S + L), ("L-first", L + S), ("shuffled", sh)):
        for lm in (False, True):
            path = os.path.join(tmp, "mid.gfa")
            gen.write_text(path, "\n".join(lines) + "\n")
            meta = {"layout": name, "low_memory": lm, "segments": len(S), "links": len(L)}
            ck.case(meta, True, sample=meta if name == "shuffled" and lm else None)
            ck.count("mid-graph:%s" % name)
            try:
                with watchdog(120):
                    g = GFA(path, low_memory=lm)
                    comps = sorted(sorted(c) for c in g.all_components())
                    chain = set(allids) - {lone}
                    _, aps = g.biccs(set(chain))
                    d = g.dfs(scaff[0])
            except BaseException as e:  # noqa
                ck.violation("graph algorithms fail on a large generated graph (%s, low_memory=%s): %s: %s" % (name, lm, type(e).__name__, str(e)[:100]), meta)
                return
            if comps != sorted([sorted(allids - {lone}), [lone]]):
                ck.violation("all_components does not give the two components of a large generated graph (%s, low_memory=%s): %d components, sizes %s" % (
                    name, lm, len(comps), sorted(map(len, comps))[-3:]), meta)
                return
            if set(aps) != set(scaff[1:-1]):
                ck.violation("articulation points of a large bubble chain are not its inner scaffold nodes (%s, low_memory=%s)" % (name, lm), meta)
                return
            if sorted(d) != sorted(allids - {lone}):
                ck.violation("dfs does not visit the component exactly once (%s, low_memory=%s)" % (name, lm), meta)
                return


def big_graph(ck):
    """the 100k-node test graph: implementation's components/aps against definitions that scale (components only)"""
    from gaftools.gfa import GFA
    from core import REPO
    p = REPO + "/tests/data/large-graph-chr1.gfa.gz"
    if not os.path.exists(p):
        return
    g = GFA(p, low_memory=True)
    comps = g.all_components()
    # independent union-find
    parent = {}
    def find(x):
        while parent.setdefault(x, x) != x:
            parent[x] = parent[parent[x]]
            x = parent[x]
        return x
    import gzip
    for line in gzip.open(p, "rt"):
        if line.startswith("S"):
            find(line.split("\t")[1])
    for line in gzip.open(p, "rt"):
        if line.startswith("L"):
            f = line.split("\t")
            if f[1] in parent and f[3] in parent:
                parent[find(f[1])] = find(f[3])
    classes = {}
    for x in list(parent):
        classes.setdefault(find(x), set()).add(x)
    ck.count("large-graph")
    ck.case("large-graph-chr1", True)
    if sorted(map(sorted, comps)) != sorted(map(sorted, classes.values())):
        ck.violation("all_components wrong on tests/data/large-graph-chr1.gfa.gz", {"file": p})



def main(prop):
    ck = Check(prop)
    ck.trusted = ["Lean 4.33.0 kernel", "axioms: propext, Classical.choice, Quot.sound (audited)", "correspondence harness + JSON driver",
                  "tokenisation of GFA text (strip/split) and of path strings (re.findall) modelled at token level: covered by correspondence only"]
    ck.lean_build((["Gaftools.Props.C15Hist", "Gaftools.Props.C15Bicc", "Gaftools.Props.C15Bicc2", "Gaftools.Props.C15Extra"] if prop == "C15" else ["Gaftools.Props.%s" % prop, "Gaftools.Props.TextLayer"]) + ["Gaftools.Props.TieA", "Gaftools.Props.TieA5"] + (["Gaftools.Props.TieA9", "Gaftools.Props.TieA12", "Gaftools.Props.TieA20", "Gaftools.Props.TieA25"] if prop == "C15" else ["Gaftools.Props.TieA17"] if prop == "C14" else []))
    ck.audit("%s.lean" % prop)
    tmp = tempfile.mkdtemp(prefix="gtv-graph-")
    try:
        if prop == "C14":
            ck.assumptions = ["unique segment ids", "steps over nodes of the graph (an unknown first node of a pair raises KeyError in the tool)", "sequences over ACGT for the reverse-complement involution"]
            ck.rule = "random GFAs of 1-6 nodes (all four link orientations, self-links, both-end declarations, dangling links, shuffled lines, numeric ids, gzip) x 10 step sequences (55% walks following links forwards/mirrored, some broken, rest arbitrary) + each reversed; library call and find_path file mode; non-trivial = >= 2 steps over nodes of the graph"
            c14(ck, tmp)
            # the string level of extract_path / find_path (tokenisation, first-character test, strip() of file lines, argument vs
            # file mode): Model/TextLayer.lean, theorems Props/TextLayer.lean (Audit/C14_extra.lean)
            import p_textlayer
            p_textlayer.c14_strings(ck, tmp, 2400 if ck.tier == "quick" else 24000)
        elif prop == "C15":
            ck.assumptions = ["unique segment ids; histories only use calls that do not raise (links between existing nodes, deletion of existing nodes)",
                              "biccs: the graph is connected (the library's caller passes one component)"]
            ck.canon = ["components / blocks / articulation points compared as sorted sets", "adjacency sets sorted"]
            ck.rule = "random multigraphs of 1-9 nodes (block chains with cycles and cut vertices; G(n,m) with self-links, parallel links, all orientations, shuffled lines, numeric ids) + exhaustive small scopes + random edit histories; non-trivial = >= 3 nodes with a cycle or a cut vertex; histories: a deletion followed by further operations"
            c15(ck, tmp)
    finally:
        shutil.rmtree(tmp, ignore_errors=True)
    return ck.finish()


if __name__ == "__main__":
    prop = sys.argv[1]
    run_check(lambda: main(prop), prop)
