"""C01 (conversion designates the same locus) and C02 (lossless: round trips, untouched columns) through the real `view --format`."""
import os
import shutil
import sys
import tempfile

from core import tool, Check, run_check, watchdog
import gen
from p_graph import tokenize_gfa


def run_view(gaf_lines, gfa_text, fmt, tmp, bgzf=False, gz_graph=False):
    from gaftools.cli import view
    gfa = os.path.join(tmp, "c.gfa" + (".gz" if gz_graph else ""))
    (gen.write_gzip if gz_graph else gen.write_text)(gfa, gfa_text)
    gaf = os.path.join(tmp, "c.gaf" + (".gz" if bgzf else ""))
    text = "".join(l + "\n" for l in gaf_lines)
    (gen.write_bgzf if bgzf else gen.write_text)(gaf, text)
    out = os.path.join(tmp, "c.out")
    try:
        with watchdog(60):
            tool("view", allow_stdout=True, gaf_path=gaf, gfa=gfa, output=out, format=fmt)
        return open(out).read().splitlines(), None
    except BaseException as e:  # noqa
        return None, type(e).__name__ + ": " + str(e)[:200]
    finally:
        for f in (gaf, gfa):
            if os.path.exists(f):
                os.remove(f)


def synth_stable(rng, g, k):
    """stable records not produced by to_stable: bare reference contig on either strand; unmerged per-node intervals"""
    seqd = g.seqd()
    refs = sorted({s["SN"] for s in g.segs if s["SR"] == 0})
    if rng.random() < 0.5:
        c = rng.choice(refs)
        L = sum(len(s["seq"]) for s in g.segs if s["SN"] == c)
        ps = rng.randrange(0, L)
        pe = rng.randrange(ps + 1, L + 1)
        n = pe - ps
        return gen.gaf_record("syn%d" % k, n + 5, 2, 2 + n, rng.choice("+-"), c, L, ps, pe, n, n, 60,
                              gen.rand_tags(rng, cigar=gen.simple_cigar(rng, n) if rng.random() < 0.8 else None))
    adj = g.adjacency()
    w = gen.walk(rng, g, adj, maxsteps=4)
    path = "".join((">" if o == "+" else "<") + "%s:%d-%d" % (g.seg(nm)["SN"], g.seg(nm)["SO"], g.seg(nm)["SO"] + len(seqd[nm])) for nm, o in w)
    plen = sum(len(seqd[nm]) for nm, o in w)
    ps = rng.randrange(0, plen)
    pe = rng.randrange(ps + 1, plen + 1)
    n = pe - ps
    # one in five on the '-' strand: outside the property's quantifier ('+'-strand alignments), but a branch of to_unstable that
    # the model mirrors (split contig, '-' strand) - compared with the model only, never judged by the specification
    return gen.gaf_record("syn%d" % k, n + 5, 2, 2 + n, "+" if rng.random() < 0.8 else "-", path, plen, ps, pe, n, n, 60,
                          gen.rand_tags(rng, cigar=gen.simple_cigar(rng, n) if rng.random() < 0.8 else None))


def main(prop):
    ck = Check(prop)
    ck.trusted = ["Lean 4.33.0 kernel", "axioms: propext, Classical.choice, Quot.sound (audited)", "correspondence harness + JSON driver",
                  "table-building glue of view.run (gfa_nodes, ref_contig, contig_len, reference) is modelled in Model/View.lean and tied by correspondence only"]
    ck.assumptions = ["valid rGFA: unique ids, non-empty segments, segments of one stable sequence disjoint, rank-0 sequences tiled from 0",
                      "'+'-strand walk records over nodes of the graph with offsets inside the path; stable inputs are bare rank-0 contigs (either strand) or '+' interval lists tiled by segments"]
    ck.canon = ["lines compared as text"]
    mods = {"C01": ["Gaftools.Props.C01a", "Gaftools.Props.C01b", "Gaftools.Props.C03s", "Gaftools.Props.TieA", "Gaftools.Props.TieA4", "Gaftools.Props.TieA10", "Gaftools.Props.TieA11", "Gaftools.Props.TieA27", "Gaftools.Props.Glue", "Gaftools.Props.Reflect"], "C02": ["Gaftools.Props.C02", "Gaftools.Props.TieA22", "Gaftools.Props.TieA", "Gaftools.Props.TieA4", "Gaftools.Props.TieA10", "Gaftools.Props.TieA11", "Gaftools.Props.Glue", "Gaftools.Props.Reflect"]}[prop]
    from core import LEAN
    mods = [m for m in mods if os.path.exists(os.path.join(LEAN, *m.split(".")) + ".lean")]
    ck.lean_build(mods)
    ck.audit("%s.lean" % prop)
    rng = ck.rng
    quick = ck.tier == "quick"
    tmp = tempfile.mkdtemp(prefix="gtv-conv-")
    try:
        for it in range(150 if quick else 2500):
            g = gen.rgfa(rng)
            adj = g.adjacency()
            gtext = g.text(shuffle_rng=rng if rng.random() < 0.3 else None)
            tok = tokenize_gfa(gtext)
            nrec = rng.choice([1, 2, 4, 8]) if rng.random() < 0.95 else rng.randint(100, 300)
            ulines = []
            for k in range(nrec):
                w = gen.walk(rng, g, adj)
                ulines.append(gen.walk_record(rng, g, w, "r%d" % k + (" z" if rng.random() < 0.1 else "")))
            bg = rng.random() < 0.2
            gz = rng.random() < 0.15
            slines, err = run_view(ulines, gtext, "stable", tmp, bg, gz)
            if slines is None:
                ck.violation("view --format stable failed on a valid input: %s" % err, {"gfa": gtext, "gaf": ulines[:20]})
                continue
            r1 = ck.driver([{"op": "conv.file", "gfa": tok, "dir": "stable", "lines_in": ulines, "lines_out": slines}])[0]
            if not judge(ck, prop, "stable", gtext, ulines, slines, r1):
                continue
            # second leg: the stable file (plus synthetic stable records) back to unstable
            extra = [synth_stable(rng, g, k) for k in range(rng.randint(0, 3))]
            sin = slines + extra
            back, err = run_view(sin, gtext, "unstable", tmp, bg, gz)
            if back is None:
                ck.violation("view --format unstable failed on a valid input: %s" % err, {"gfa": gtext, "gaf": sin[:20]})
                continue
            r2 = ck.driver([{"op": "conv.file", "gfa": tok, "dir": "unstable", "lines_in": sin, "lines_out": back}])[0]
            if not judge(ck, prop, "unstable", gtext, sin, back, r2):
                continue
            if prop == "C02":
                roundtrips(ck, gtext, ulines, slines, back, r1, r2, tmp, bg, gz)
    finally:
        shutil.rmtree(tmp, ignore_errors=True)
    ck.rule = ("generated valid rGFAs (1-2 tiled rank-0 contigs, 0-3 haplotype contigs with touching or separated segments, links of all orientations, self-links, shuffled lines) x walk records "
               "(1-7 steps, reverse steps, inversions, revisits, offsets anywhere or canonical) through view -f stable, then the result plus synthetic stable records (bare contig +/-; unmerged per-node intervals) through view -f unstable; "
               + ("non-trivial = path of >= 2 steps, or a reverse step, or touching a haplotype contig" if prop == "C01" else "non-trivial = canonical record with >= 2 steps or a reverse step (round trip checked)"))
    return ck.finish()


def judge(ck, prop, direction, gtext, lin, lout, r):
    if not r["graph_valid"]:
        ck.count("invalid-graph")
        return False
    if not r["count_ok"]:
        ck.violation("view --format %s wrote %d records for %d input records" % (direction, len(lout), len(lin)), {"gfa": gtext, "in": lin[:30], "out": lout[:30]})
        return False
    ok = True
    for li, lo, rr in zip(lin, lout, r["results"]):
        path = li.split("\t")[5]
        nsteps = path.count(">") + path.count("<")
        nontriv = nsteps >= 2 or "<" in path or "hap" in path or li.split("\t")[4] == "-"
        ck.case({"gfa": gtext, "line": li}, nontriv and rr["valid"], sample={"in": li, "out": lo} if nontriv and nsteps >= 3 else None)
        ck.count("%s:steps%d" % (direction, min(nsteps, 4)))
        if not rr["valid"]:
            ck.count("invalid-record")
            f = li.split("\t")
            if direction == "unstable" and f[4] == "-" and ":" in f[5] and rr.get("model") is not None:
                ck.count("minus-strand-interval-list:model-only")
                if lo != rr["model"]:
                    ck.disagreement("view --format unstable of a '-'-strand interval list differs from the model (outside the property's quantifier)",
                                    {"gfa": gtext, "direction": direction, "line_in": li, "line_out": lo, "model": rr["model"]})
            continue
        replay = {"gfa": gtext, "direction": direction, "line_in": li, "line_out": lo, "model": rr["model"], "locus_in": rr["locus"]}
        if not rr["spec_on_impl"]:
            ck.violation("converted record does not designate the same bases / wrong path length / CIGAR-strand rule / altered column or tag", replay)
            ok = False
            continue
        if lo != rr["model"]:
            ck.disagreement("view --format %s output differs from the model" % direction, replay)
    return ok


def roundtrips(ck, gtext, ulines, slines, back, r1, r2, tmp, bg, gz):
    # U -> S -> U for canonical unstable records (alignment touches its first and last node)
    for k, (u, s, b) in enumerate(zip(ulines, slines, back)):
        f = u.split("\t")
        if not r1["results"][k]["valid"]:
            continue
        canon = canonical_unstable(f, gtext)
        ck.count("USU-canonical" if canon else "USU-noncanonical")
        if canon:
            exp = "\t".join([f[0].split(" ")[0]] + f[1:12] + [t for t in f[12:] if not t.startswith("ds:Z:")])
            if b != exp:
                ck.violation("unstable -> stable -> unstable does not reproduce a canonical record", {"gfa": gtext, "unstable": u, "stable": s, "back": b})
    # S -> U -> S for gaftools' own canonical stable form (= what to_stable wrote)
    again, err = run_view(back[:len(slines)], gtext, "stable", tmp, bg, gz)
    if again is None:
        ck.violation("second view --format stable failed: %s" % err, {"gfa": gtext, "gaf": back[:20]})
        return
    for k, (s, a) in enumerate(zip(slines, again)):
        if not r1["results"][k]["valid"]:
            continue
        ck.count("SUS")
        if s != a:
            ck.violation("stable (own canonical form) -> unstable -> stable does not reproduce the record", {"gfa": gtext, "stable": s, "unstable": back[k], "again": a})


def canonical_unstable(f, gtext):
    import re
    ln = {}
    for line in gtext.splitlines():
        if line.startswith("S"):
            p = line.split("\t")
            ln[p[1]] = len(p[2])
    steps = re.findall(r"[<>]([^<>]+)", f[5])
    plen, ps, pe = int(f[6]), int(f[7]), int(f[8])
    return ps < pe and ps < ln[steps[0]] and pe > plen - ln[steps[-1]]


if __name__ == "__main__":
    prop = sys.argv[1]
    run_check(lambda: main(prop), prop)
