"""Text level of GFA reading and writing (C07): the REAL `gaftools.gfa.GFA(path, low_memory=...)` - `read_graph`, `add_node`,
`utils.is_correct_tag`, `add_edge` - is run in-process on generated GFA *texts*, well formed and malformed, plain `.gfa` and gzip
`.gfa.gz`, and its outcome (the dump of nodes / tags / adjacency / edge_tags / contigs / contig_to_nodes, or the exception) is
compared with the Lean model of Model/GfaText.lean (`parseGfaFull`, `parseGfaText`, then the existing `readGraph`) through the driver
op `gfa.parsetext`.  On the well-formed texts the harness's own tokeniser `p_graph.tokenize_gfa` (which every other graph check trusts)
is compared with `parseGfaText`, `utils.is_correct_tag` with `isCorrectTag` on tag strings, and the file the real `write_gfa` writes with
`renderGfaText (writeGfa ...)`.

    gfatext_check(ck, tmp, n)     >= n texts (each under one (low_memory, plain|gzip) choice; a third under both file kinds)
    hook(ck)                      the one call p_order.main makes for C07: `Gaftools.Props.GfaText` joins the modules that are grepped,
                                  built and audited (Audit/C07_extra.lean), the comparison runs before the verdict
    python p_gfatext.py [n] [--seed s] [--mutant name|all]        standalone (needs the compiled driver)

Outcome of a load: {"ok": dump} or {"err": kind, "cls": exception class}; `kind` names the program point (shortS, badTag, badRank,
rankClash, shortL, badOverlap, badOrient), taken from the last traceback frame of the real exception; when the frame is not
recognised only the class is compared.  A mutant (`--mutant`) replaces one function of the loaded gaftools modules by a deliberately
wrong copy (made from its own source text) for one run and restores it afterwards: the run must then report disagreements.

Documented gap of the model (not counted as a disagreement, counted in the histogram as `gap:non-ascii-digit`): Python's `int()`
accepts decimal digits outside ASCII ("٣M" is overlap 3); the model says ValueError."""
import gzip
import inspect
import json
import os
import random
import shutil
import subprocess
import sys
import tempfile
import textwrap
import traceback

sys.path.insert(0, os.path.dirname(os.path.abspath(__file__)))
import core                                              # noqa: E402
import gen                                               # noqa: E402
from p_graph import tokenize_gfa, small_gfa              # noqa: E402

MODULE = "Gaftools.Props.GfaText"
FL = {"+": "-", "-": "+"}
# characters `str.splitlines()` takes as line ends although a text file does not (tokenize_gfa uses splitlines)
SPLITLINES_ONLY = "\x0b\x0c\x1c\x1d\x1e\x85\u2028\u2029"
PY_BLANKS = ["\t", " ", "\x0b", "\x0c", "\x1c", "\x1f", "\x85", "\xa0", "\u2003", "\u3000", "\u2028"]


def driver(cases):
    """core.Check.driver with the replies split at "\\n" only (a reply echoes ids holding U+0085, U+001C, U+2028 ...)"""
    if not cases:
        return []
    inp = "\n".join(json.dumps(c, separators=(",", ":")) for c in cases) + "\n"
    p = subprocess.run([core.DRIVER], input=inp.encode(), stdout=subprocess.PIPE, stderr=subprocess.PIPE, timeout=1800)
    lines = [ln for ln in p.stdout.decode("utf-8").split("\n") if ln]
    if p.returncode != 0 or len(lines) != len(cases):
        raise core.HarnessError("driver failed rc=%s, %d replies for %d cases: %s" % (p.returncode, len(lines), len(cases), p.stderr[-500:]))
    out = [json.loads(ln) for ln in lines]
    for c, r in zip(cases, out):
        if "driver_error" in r:
            raise core.HarnessError("driver error %r on case %s" % (r["driver_error"], json.dumps(c)[:400]))
    return out


# ------------------------------------------------------------------------------------------------ the real code
FRAMES = [
    ("read_graph", "assert len(line) >= 3", "shortS"),
    ("add_node", "raise ValueError(", "badTag"),
    ("add_node", "contig_rank = int(", "badRank"),
    ("add_node", "assert self.contigs[", "rankClash"),
    ("read_graph", "assert len(e) >= 6", "shortL"),
    ("read_graph", "raise ValueError(f\"The overlap", "badOverlap"),
    ("add_edge", "assert node1_dir in", "badOrient"),
    ("add_edge", "assert node2_dir in", "badOrient"),
]


def err_kind(e):
    tb = traceback.extract_tb(e.__traceback__)
    if not tb:
        return None
    fr = tb[-1]
    for fn, start, kind in FRAMES:
        if fr.name == fn and (fr.line or "").startswith(start):
            return kind
    return None


def dump_graph(g):
    nodes = []
    for nid, n in g.nodes.items():
        if nid != n.id or n.seq_len != len(n.seq):
            raise AssertionError("node key / seq_len inconsistent: %r %r %r" % (nid, n.id, n.seq_len))
        nodes.append({"id": n.id, "seq": n.seq, "tags": [[k, v[0], v[1]] for k, v in n.tags.items()],
                      "start": sorted([[x[0], x[1], str(x[2])] for x in n.start]),
                      "end": sorted([[x[0], x[1], str(x[2])] for x in n.end])})
    et = [[[k[0], k[1], k[2], k[3]], ([] if v == [0] else list(v))] for k, v in g.edge_tags.items()]
    return {"nodes": nodes, "edge_tags": et,
            "contigs": [[k, str(v)] for k, v in g.contigs.items()],
            "c2n": [[k, list(v)] for k, v in g.contig_to_nodes.items()]}


def write_file(tmp, text, gz, name="t"):
    p = os.path.join(tmp, name + (".gfa.gz" if gz else ".gfa"))
    data = text.encode("utf-8")
    if gz:
        with gzip.open(p, "wb") as f:
            f.write(data)
    else:
        with open(p, "wb") as f:
            f.write(data)
    return p


def real_load(tmp, text, lm, gz, want_written=False):
    """outcome of GFA(path, low_memory=lm); with want_written also the text write_gfa() writes for the loaded graph"""
    from gaftools.gfa import GFA
    p = write_file(tmp, text, gz)
    try:
        g = GFA(p, low_memory=lm)
        out = {"ok": dump_graph(g)}
    except (AssertionError, ValueError) as e:
        return {"err": err_kind(e), "cls": type(e).__name__}
    except BaseException as e:  # noqa
        return {"err": None, "cls": "crash:" + type(e).__name__}
    if want_written:
        w = os.path.join(tmp, "w.gfa")
        try:
            g.write_gfa(output_file=w)
            with open(w, "rb") as f:
                out["written"] = f.read().decode("utf-8")
        except BaseException as e:  # noqa
            out["written"] = "crash:" + type(e).__name__
    return out


# ------------------------------------------------------------------------------------------------ the model's answer
def model_outcome(r):
    if "err" in r:
        return {"err": r["err"], "cls": r["cls"]}
    g = r["graph"]
    nodes = [{"id": n["id"], "seq": n["seq"], "tags": n["tags"], "start": sorted(n["start"]), "end": sorted(n["end"])} for n in g["nodes"]]
    return {"ok": {"nodes": nodes, "edge_tags": g["edge_tags"], "contigs": r["ok"]["contigs"], "c2n": r["ok"]["c2n"]}}


def same(real, model):
    if "ok" in real or "ok" in model:
        return "ok" in real and "ok" in model and real["ok"] == model["ok"]
    if real["cls"] != model["cls"]:
        return False
    return real["err"] is None or real["err"] == model["err"]


def klass(o, r=None):
    if "ok" in o:
        return "ok" if r is None or r.get("file") == "ok" else "ok-negative-overlap"
    return "%s(%s)" % (o["err"], o["cls"])


# ------------------------------------------------------------------------------------------------ generators
ODD_IDS = ["n 1", "a-b", "h#1", "x.y:3", "s1 ", " lead", "é", "N", "0", "+", "S", "L", "*", "a,b", "chr1:5-9", "id_with_underscore", "ΩΩ"]
EXOTIC_IDS = ["a\x0cb", "q\x85", "\x1cz", "u\u2028v", "w\x0b"]       # white space of strip() that is no line end of a text file
SEQS = ["*", "acgt", "ACGTN", "AcGt", "NNNN", "A", "*A", "ACGU", "RYKM"]
OTHER_LINES = ["H\tVN:Z:1.0", "# a comment line", "P\tp1\tn0+,n1-\t*", "W\tsample\t1\tchrQ\t0\t5\t>n0<n1", "", " ", "\t", "s\tlower\tACGT",
               " S\tlead\tACGT", "\tS\tx\tA", "l\ta\t+\tb\t+\t0M", "C\tn0\t+\tn1\t+\t1\t2M", "E\t*\tn0+\tn1-\t0\t1\t0\t1$\t*", "#S\tn0\tA", "xS\tq\tA",
               "J\tn0\t+\tn1\t+\t10"]
S_LIKE = ["Sx\tfoo\tbar", "S1\tn0\tTTTT", "Sample\ta\tb\tLN:i:3", "SS\t\t*", "S \tq r\t*\tab:Z:v"]   # start with 'S': read as segments
L_TAGS = ["x:i:1", "EC:i:10", "L1:i:20", "not a tag", "a:b:c:d", "", "ID:Z:e 1", "zz", "é"]
GOOD_RANK = ["0", "1", "2", "+1", "01", "-1"]


def rgfa_tags(rng, sn, so, sr, ln):
    t = ["LN:i:%d" % ln, "SN:Z:%s" % sn, "SO:i:%d" % so, "SR:%s" % sr]
    if rng.random() < 0.5:
        rng.shuffle(t)
    return t


def gen_tokens(rng, exotic=False):
    """(S records [(id, seq, [tag strings])], L records [(a, da, b, db, ovtext, [tag strings])], other lines); everything the real
    reader accepts: all link shapes, tags of every SAM type, values with ':' and blanks inside, repeated tag names, untagged lines"""
    n = rng.randint(1, 6)
    k = rng.random()
    if k < 0.45:
        ids = ["n%d" % i for i in range(n)]
    elif k < 0.65:
        ids = [str(i) for i in range(1, n + 1)]
    else:
        pool = rng.sample(ODD_IDS, min(len(ODD_IDS), n)) + (rng.sample(EXOTIC_IDS, 2) if exotic else [])
        rng.shuffle(pool)
        ids = pool[:n]
    contigs = [("chr1", "0"), ("chr2", "0"), ("hap A", rng.choice(GOOD_RANK)), ("c:x", "3")]
    segs = []
    for i in ids:
        k = rng.random()
        seq = gen.rseq(rng, rng.randint(1, 6)) if k < 0.6 else rng.choice(SEQS)
        if rng.random() < 0.1:
            seq = seq.lower()
        k = rng.random()
        if k < 0.25:
            tags = []
        elif k < 0.6:
            tags = [t for t in gen.rand_tags(rng, with_tp=rng.random() < 0.3, allow_repeat=rng.random() < 0.3)]
        else:
            sn, sr = rng.choice(contigs)
            ty = rng.choice(["i", "i", "i", "Z"]) if not sr.startswith("+") and not sr.startswith("-") else rng.choice("iZ")
            tags = rgfa_tags(rng, sn, rng.randint(0, 50), "%s:%s" % (ty, sr if ty == "i" or rng.random() < 0.6 else rng.choice([" %s" % sr, "%s " % sr, "%s" % sr])), len(seq))
            if rng.random() < 0.3:
                tags += gen.rand_tags(rng, n=2, with_tp=False)
            if rng.random() < 0.15:
                tags = [t for t in tags if not t.startswith(rng.choice(["SN", "SR", "SO"]))]
            if rng.random() < 0.1:                   # a repeated SN / SR on the line: position of the first, value of the last
                tags.insert(rng.randint(0, len(tags)), rng.choice(["SN:Z:%s" % sn, "SR:i:%s" % sr, "SN:Z:first"]))
        segs.append((i, seq, tags))
    links = []
    for _ in range(rng.randint(0, 2 * n + 2)):
        a, b = rng.choice(ids), rng.choice(ids)
        da, db = rng.choice("+-"), rng.choice("+-")
        if rng.random() < 0.08:
            b = rng.choice(["ghost", "", "n0 "])
        if rng.random() < 0.04:
            a = "ghost2"
        ov = rng.choice(["0M", "0M", "0M", "3M", "12M", "007M", "5M", "0M", "0M", "-2M"] if rng.random() < 0.15 else ["0M", "0M", "0M", "3M", "12M", "007M", "5M"])
        tags = [] if rng.random() < 0.55 else [rng.choice(L_TAGS) for _ in range(rng.randint(1, 3))] if rng.random() < 0.5 else gen.rand_tags(rng, n=2, with_tp=False)
        links.append((a, da, b, db, ov, tags))
        if rng.random() < 0.15:      # the same link declared from the other end
            links.append((b, FL[db], a, FL[da], rng.choice([ov, "1M"]), []))
        if rng.random() < 0.1:       # a parallel link: same key, other overlap / other tags (one edge_tags slot, two adjacency entries)
            links.append((a, da, b, db, rng.choice(["0M", "9M"]), [rng.choice(L_TAGS)] if rng.random() < 0.5 else []))
    others = [rng.choice(OTHER_LINES) for _ in range(rng.randint(0, 3))] if rng.random() < 0.5 else []
    return segs, links, others


def s_text(s):
    return "\t".join(["S", s[0], s[1]] + s[2])


def l_text(l):
    return "\t".join(["L", l[0], l[1], l[2], l[3], l[4]] + l[5])


def layout(rng, lines, shape):
    """order of lines, trailing white space, line ends, final newline"""
    lines = list(lines)
    k = rng.random()
    if k < 0.35:
        rng.shuffle(lines)
        shape.add("shuffled")
    elif k < 0.5:
        lines = [l for l in lines if l.startswith("L")] + [l for l in lines if not l.startswith("L")]
        shape.add("links-first")
    if rng.random() < 0.25:
        out = []
        for l in lines:
            if rng.random() < 0.4 and l.strip():
                l += "".join(rng.choice(PY_BLANKS) for _ in range(rng.randint(1, 3)))
                shape.add("trailing-blanks")
            out.append(l)
        lines = out
    k = rng.random()
    if k < 0.6:
        ends = ["\n"] * len(lines)
    elif k < 0.8:
        ends = ["\r\n"] * len(lines)
        shape.add("crlf")
    elif k < 0.88:
        ends = ["\r"] * len(lines)
        shape.add("cr")
    else:
        ends = [rng.choice(["\n", "\r\n", "\r", "\n\n", "\r\r\n", "\n\r"]) for _ in lines]
        shape.add("mixed-line-ends")
    text = "".join(l + e for l, e in zip(lines, ends))
    if lines and rng.random() < 0.2:
        text = text[:-len(ends[-1])]
        shape.add("no-final-newline")
    return text


BAD_TAGS = {
    "shape": ["x:i:1", "1x:i:1", "xxx:i:1", "xx:I:1", "xx:i", "xx", "", "xx;i;1", "xx:i;1", "é1:i:1", "x_:i:1", "xx:Z:é", "xx:Z:a\x7fb", "xx:Z:a\x0cb",
              "xx::1", ":x:i:1", "xx:ii:1", "xx:z:1", " xx:i:1", "xx:i:1 "],
    "A": ["xx:A:ab", "xx:A:", "xx:A: ", "xx:A:é"],
    "i": ["xx:i:", "xx:i:1.5", "xx:i:--3", "xx:i:1_0", "xx:i: 3", "xx:i:3 ", "xx:i:+", "xx:i:0x1F", "xx:i:1e3", "xx:i:٣"],
    "f": ["xx:f:1.", "xx:f:e5", "xx:f:1e", "xx:f:1.e5", "xx:f:inf", "xx:f:nan", "xx:f:", "xx:f:.", "xx:f:1.5.3", "xx:f:1e+", "xx:f:1e5.0", "xx:f:--1", "xx:f:1,5",
          "xx:f:1E5E5", "xx:f:+.e1"],
    "H": ["xx:H:0a", "xx:H:ABC", "xx:H:GG", "xx:H:0", "xx:H:A "],
    "B": ["xx:B:", "xx:B:c,", "xx:B:x,1", "xx:B:c,1,,2", "xx:B:c1", "xx:B:,1", "xx:B:c,1,", "xx:B:cc,1", "xx:B:f,1.e3", "xx:B:i,1;2", "xx:B:c, 1"],
}
GOOD_EDGE_TAGS = ["xx:f:.5", "xx:f:-.5e-3", "xx:f:007", "xx:f:1E+05", "xx:B:f", "xx:B:c,.5,1e3,-2", "xx:H:", "xx:A::", "xx:Z:", "xx:Z:a:b:c", "xx:Z:  two  blanks",
                  "xx:i:-0", "xx:i:+007", "x1:Z:~!", "Xx:B:S,1.5", "xx:f:5e5", "xx:Z: lead"]
BAD_OVERLAPS = {   # text of the sixth column -> what happens
    "5": "bad", "M": "bad", "": "bad", "*": "bad", "3MM": "bad", "0x1M": "bad", "1e3M": "bad", "1.0M": "bad", "--3M": "bad", "1__0M": "bad", "_1M": "bad", "1_M": "bad",
    "3 4M": "bad", "+M": "bad", "\x1c3M": "bad", "1" * 4301 + "M": "bad",
    "-3M": "neg", "-0M": "ok", "+3M": "ok", " 3M": "ok", "3 M": "ok", "3m": "ok", "3X": "ok", "31": "ok", "1_0M": "ok", "\xa03M": "ok", "3 M": "ok", "1" * 4300 + "M": "ok",
    "-12M": "neg",
}
NONASCII_OVERLAPS = ["٣M", "１２M"]
BAD_ORIENT = ["x", "", "++", ">", "<", "+ ", " +", "1", "plus", "−"]


def malform(rng, segs, links, others, shape):
    """one to three defects in one file (S and L defects mixed, so that the order of the errors is exercised)"""
    segs, links, others = [list(s) for s in segs], [list(l) for l in links], list(others)
    raw = []          # complete lines added as they are
    ids = [s[0] for s in segs]
    for _ in range(rng.choice([1, 1, 1, 2, 2, 3])):
        k = rng.randrange(15)
        if k == 0:
            raw.append(rng.choice(["S", "S\tq9", "S\tq9\t", "S\tq9\t \t", "Sample\tfoo", "S\t\t", "Sq9 ACGT", "S\t%s" % rng.choice(ids), "S q9 ACGT"]))
            shape.add("short-S")
        elif k in (1, 2, 3):
            ty = rng.choice(list(BAD_TAGS))
            t = rng.choice(BAD_TAGS[ty])
            s = rng.choice(segs)
            pos = rng.randint(0, len(s[2]))
            if t.endswith(" ") and pos == len(s[2]):
                pos = 0                # at the end of the line the blank would be stripped
                if not s[2]:
                    s[2] = ["yy:i:1"]
            s[2] = s[2][:pos] + [t] + s[2][pos:]
            shape.add("bad-tag-" + ty)
        elif k == 4:
            s = rng.choice(segs)
            s[2] = s[2] + [rng.choice(GOOD_EDGE_TAGS)]
            shape.add("edge-of-grammar-tag")
        elif k == 5:
            sr = rng.choice(["Z:abc", "f:1.5", "Z:", "Z:1 2", "A:x", "Z:1__0", "H:0A", "B:c,1", "Z:+ 1", "Z:0x1", "Z:1_0", "Z: 7 ", "i:+3", "Z:1e3", "A:7", "f:3", "H:10", "Z:" + "9" * 4301])
            s = rng.choice(segs)
            s[2] = [t for t in s[2] if t[:2] not in ("SN", "SR")] + ["SN:Z:rk", "SR:" + sr]
            rng.shuffle(s[2])
            shape.add("odd-SR")
        elif k == 6:
            a, b = rng.choice(["1", "7"]), rng.choice(["2", "07", "7", "+7", " 7"])
            for r in (a, b):
                i = "rk%d" % len(segs)
                segs.append([i, "A", ["SN:Z:two", "SR:%s:%s" % ("Z" if r.startswith(" ") else "i", r)] + (["zz:i:1"] if r.startswith(" ") else [])])
            shape.add("one-SN-two-SR")
        elif k == 7:
            s = rng.choice(segs)
            dup = [s[0], rng.choice(["*", "TTTT", s[1]]), rng.choice([[], ["junk"], ["SN:Z:other", "SR:i:9"], ["xx:i:bad"], list(s[2])])]
            segs.insert(rng.randint(0, len(segs)), dup)
            shape.add("duplicate-id")
        elif k == 8:
            raw.append(rng.choice(["L", "L\ta", "L\tn0\t+\tn1\t+", "L\tn0\t+\tn1\t+\t", "L\tn0\t+\tn1\t+\t \t", "Lx", "Link\tn0\t+\tn1", "L n0 + n1 + 0M"]))
            shape.add("short-L")
        elif k in (9, 10):
            ov = rng.choice(list(BAD_OVERLAPS))
            a, b = rng.choice(ids), rng.choice(ids + ["ghost"])
            links.insert(rng.randint(0, len(links)), [a, rng.choice("+-"), b, rng.choice("+-"), ov, [] if ov == "" and rng.random() < 0.5 else ["x:i:1"] if rng.random() < 0.4 else []])
            shape.add("overlap-" + BAD_OVERLAPS[ov])
        elif k == 11:
            ov = rng.choice(NONASCII_OVERLAPS)
            links.insert(rng.randint(0, len(links)), [rng.choice(ids), "+", rng.choice(ids), "-", ov, []])
            shape.add("gap-non-ascii-digit")
        elif k in (12, 13):
            o = rng.choice(BAD_ORIENT)
            a, b = rng.choice(ids), rng.choice(ids + ["ghost"])
            l = [a, "+", b, "-", "0M", []]
            l[rng.choice([1, 3])] = o
            if rng.random() < 0.2:
                l[1], l[3] = rng.choice(BAD_ORIENT), rng.choice(BAD_ORIENT)
            links.insert(rng.randint(0, len(links)), l)
            shape.add("orientation")
        else:
            raw.append(rng.choice(S_LIKE))
            shape.add("S-prefixed-line")
    return segs, links, others, raw


def tokens_of_text(text):
    """the records of a text of the other checks' generators, as (segs, links, others) of gen_tokens"""
    segs, links, others = [], [], []
    for ln in text.split("\n"):
        f = ln.split("\t")
        if f[0] == "S" and len(f) >= 3:
            segs.append((f[1], f[2], f[3:]))
        elif f[0] == "L" and len(f) >= 6:
            links.append((f[1], f[2], f[3], f[4], f[5], f[6:]))
        elif ln:
            others.append(ln)
    return segs, links, others


def borrowed_tokens(rng, shape):
    """the generators of the other graph checks: p_graph.small_gfa (all link shapes, both-end declarations, dangling links),
    p_order.make_case + text (rGFA chromosomes with bubbles, SN/SO/SR/LN, stale BO/NO, untagged alleles), gen.rgfa"""
    k = rng.random()
    if k < 0.4:
        text, _ = small_gfa(rng, maxn=6)
        shape.add("source:p_graph.small_gfa")
    elif k < 0.75:
        import p_order
        segs, links, order, broken = p_order.make_case(rng)
        text = p_order.text(rng, segs[:25], [l for l in links if l[0] in {s[0] for s in segs[:25]} and l[2] in {s[0] for s in segs[:25]}],
                            stale=rng.random() < 0.5, shuffle=False)
        shape.add("source:p_order.make_case")
    else:
        text = gen.rgfa(rng).text(with_seq=rng.random() < 0.8, other_records=rng.random() < 0.3)
        shape.add("source:gen.rgfa")
    segs, links, others = tokens_of_text(text)
    # tags of every SAM type on some S and L lines, as roundtrip_io of p_order does
    segs = [(i, q, t + ([x for x in gen.rand_tags(rng, with_tp=False)] if rng.random() < 0.3 else [])) for i, q, t in segs]
    links = [(a, da, b, db, ov, t + (gen.rand_tags(rng, n=2, with_tp=False) if rng.random() < 0.3 else [])) for a, da, b, db, ov, t in links]
    return segs, links, others


def gen_text(rng):
    """(text, shape labels, meta): meta["clean"] = generated without any defect and without exotic characters"""
    shape = set()
    exotic = rng.random() < 0.06
    if not exotic and rng.random() < 0.3:
        segs, links, others = borrowed_tokens(rng, shape)
        if not segs:
            segs, links, others = gen_tokens(rng, False)
    else:
        segs, links, others = gen_tokens(rng, exotic)
        shape.add("source:own")
    raw = []
    k = rng.random()
    clean = True
    if k < 0.5:
        clean = False
        segs, links, others, raw = malform(rng, segs, links, others, shape)
    elif k < 0.6:
        raw = [rng.choice(S_LIKE)]
        shape.add("S-prefixed-line")
    elif k < 0.63:
        segs, links = [], ([] if rng.random() < 0.5 else links)       # no S line at all / an empty file
        shape.add("no-segments")
    if exotic:
        shape.add("exotic-blanks-in-ids")
    if others:
        shape.add("other-records")
    lines = [s_text(s) for s in segs] + [l_text(l) for l in links] + others + raw
    text = layout(rng, lines, shape)
    if any(c in text for c in SPLITLINES_ONLY):
        shape.add("splitlines-only-chars")
    return text, shape, {"clean": clean}


# ------------------------------------------------------------------------------------------------ the comparison
def tokenizer_view(text):
    """what tokenize_gfa says, brought to the normal form of parseGfaText: first S line of an id, links between known ids"""
    t = tokenize_gfa(text)
    segs, seen = [], set()
    for s in t["segs"]:
        if s["id"] not in seen:
            seen.add(s["id"])
            segs.append(s)
    links = [dict(l, ov=str(l["ov"])) for l in t["links"] if l["a"] in seen and l["b"] in seen]
    return {"segs": segs, "links": links}


_PUA = {c: chr(0xE000 + i) for i, c in enumerate(SPLITLINES_ONLY)}
_PUA_BACK = {v: k for k, v in _PUA.items()}


def tokenizer_view_textmode(text):
    """tokenize_gfa with the line iteration of a text file instead of str.splitlines(): the characters splitlines() alone takes as
    line ends are hidden from it (after the strip() it would do anyway) and put back into the tokens"""
    import re
    lines = []
    for ln in re.split("\r\n|\r|\n", text):
        if ln[:1] in ("S", "L"):
            ln = ln.strip()
        else:
            ln = "#"
        lines.append("".join(_PUA.get(c, c) for c in ln))

    def back(x):
        if isinstance(x, str):
            return "".join(_PUA_BACK.get(c, c) for c in x)
        if isinstance(x, list):
            return [back(y) for y in x]
        if isinstance(x, dict):
            return {k: back(v) for k, v in x.items()}
        return x
    try:
        return back(tokenizer_view("\n".join(lines)))
    except BaseException as e:  # noqa
        return "crash:" + type(e).__name__


def written_view(text):
    lines = text.split("\n")
    return [l for l in lines if l.startswith("S")], sorted(l for l in lines if not l.startswith("S"))


def tag_strings(rng, k):
    out = []
    alpha = ["x", "X", "1", ":", "i", "f", "Z", "A", "H", "B", ".", "e", "E", "+", "-", ",", "0", "9", "F", "a", " ", "~", "!", "\n", "c", "S", "é", "\t", "_"]
    for _ in range(k):
        r = rng.random()
        if r < 0.3:
            t = rng.choice([x for v in BAD_TAGS.values() for x in v] + GOOD_EDGE_TAGS)
        elif r < 0.5:
            t = rng.choice(gen.rand_tags(rng, n=3, with_tp=True) or ["tp:A:P"])
        elif r < 0.8:
            ty = rng.choice("AifZHB")
            t = "xy:%s:" % ty + "".join(rng.choice({"A": "x~ !", "i": "+-019_ ", "f": "+-.eE019", "Z": "a b:~\x7f", "H": "09AFaG", "B": "cCsSiIfx,.+-eE12"}[ty]) for _ in range(rng.randint(0, 6)))
        else:
            t = "".join(rng.choice(alpha) for _ in range(rng.randint(0, 9)))
        if rng.random() < 0.08:
            t += "\n"              # `$` also matches before a final newline
        out.append(t)
    return out


def gfatext_check(ck, tmp, n):
    from gaftools.utils import is_correct_tag
    rng = ck.rng
    todo = []
    while len(todo) < n:
        text, shape, meta = gen_text(rng)
        lm = rng.random() < 0.3
        gz = rng.random() < 0.3
        both = rng.random() < 0.33
        todo.append((text, shape, meta, lm, gz, both, tag_strings(rng, 4)))
    replies = driver([{"op": "gfa.parsetext", "text": t[0], "low_memory": t[3], "tags": t[6]} for t in todo])
    seen_kinds = set()
    for (text, shape, meta, lm, gz, both, tags), r in zip(todo, replies):
        replay = {"text": text, "low_memory": lm, "gzip": gz, "shape": sorted(shape)}
        model = model_outcome(r)
        real = real_load(tmp, text, lm, gz, want_written=True)
        written = real.pop("written", None)
        ck.evaluations += 1
        if "ok" in model and len(model["ok"]["nodes"]) >= 2:
            ck.nontrivial.add(hash(text))
        ck.count("gfatext:outcome:" + klass(model, r))
        seen_kinds.add(klass(model, r))
        for s in shape:
            ck.count("gfatext:shape:" + s)
        ck.count("gfatext:file:%s%s" % ("gzip" if gz else "plain", "+low_memory" if lm else ""))
        ok = same(real, model)
        if "gap-non-ascii-digit" in shape and not ok:
            ck.count("gfatext:gap:non-ascii-digit (int() of a digit outside ASCII; model: ValueError)")
            continue
        if not ok:
            ck.disagreement("GFA text: the tool and the model of read_graph differ (%s vs %s)" % (klass(real), klass(model, r)),
                            dict(replay, real=real, model=model))
            continue
        if both:
            other = real_load(tmp, text, lm, not gz)
            ck.count("gfatext:plain-and-gzip")
            if other != real:
                ck.disagreement("the plain and the gzip copy of one text load differently", dict(replay, real=real, other=other))
        # utils.is_correct_tag against isCorrectTag, on raw strings
        for t, m in zip(tags, r["tags"]):
            ck.count("gfatext:is_correct_tag:%s" % m)
            if bool(is_correct_tag(t)) != m:
                ck.disagreement("is_correct_tag(%r) is %s, the model says %s" % (t, is_correct_tag(t), m), {"tag": t})
        if "ok" not in model:
            continue
        # the file write_gfa() writes against renderGfaText (writeGfa (readGraph ..)): S lines in order, L lines as a multiset
        if r["written"] is not None and written is not None:
            ck.count("gfatext:written-compared")
            if written_view(written) != written_view(r["written"]):
                ck.disagreement("write_gfa() of the loaded graph differs from renderGfaText (writeGfa ..)", dict(replay, real=written, model=r["written"]))
        # the trusted tokeniser of the other checks against parseGfaText (only where it is meant to work: texts generated well formed)
        if meta["clean"] and r["file"] == "ok" and not lm:
            try:
                tv = tokenizer_view(text)
            except BaseException as e:  # noqa
                tv = "crash:" + type(e).__name__
            mv = {"segs": r["ok"]["segs"], "links": r["ok"]["links"]}
            if tv == mv:
                ck.count("gfatext:tokenize_gfa-agrees")
            elif "splitlines-only-chars" in shape and tokenizer_view_textmode(text) == mv:
                ck.count("gfatext:tokenize_gfa-differs (str.splitlines cuts at U+000B/000C/001C-1E/0085/2028/2029; not generated by the other checks)")
            else:
                ck.disagreement("p_graph.tokenize_gfa and parseGfaText differ on a well-formed text", dict(replay, tokenizer=tv, model=mv))
    ck.extra["gfatext_outcomes"] = sorted(seen_kinds)
    return seen_kinds


def hook(ck):
    """called by p_order.main for C07 before the build: the proof module joins the modules that are grepped, built and audited, and
    the text-level comparison runs before the verdict is formed"""
    build, finish = ck.lean_build, ck.finish

    def lean_build(modules):
        return build(list(modules) + [MODULE])

    def finish_(*a, **k):
        tmp = tempfile.mkdtemp(prefix="gtv-gfatext-")
        try:
            gfatext_check(ck, tmp, 3000 if ck.tier == "quick" else 30000)
        finally:
            shutil.rmtree(tmp, ignore_errors=True)
        return finish(*a, **k)
    ck.lean_build, ck.finish = lean_build, finish_


# ------------------------------------------------------------------------------------------------ non-vacuity: wrong copies
def _rewrite(owner, name, old, new, count=1):
    """a copy of owner.name with `old` replaced by `new` in its source text"""
    fn = getattr(owner, name)
    src = textwrap.dedent(inspect.getsource(fn))
    assert old in src, (name, old)
    ns = {}
    exec(compile(src.replace(old, new, count), "<mutant %s>" % name, "exec"), fn.__globals__, ns)
    return ns[name]


def _mutants():
    from gaftools.gfa import GFA
    import gaftools.gfa as gfa_mod
    return {
        "S-strip-rstrip-nl": (GFA, "read_graph", 'line = line.strip().split("\\t")', 'line = line.rstrip("\\n").split("\\t")'),
        "L-strip-rstrip": (GFA, "read_graph", 'e = e.strip().split("\\t")', 'e = e.rstrip().split("\\t")'),       # same behaviour: must NOT be caught
        "overlap-rstrip-M": (GFA, "read_graph", "int(e[4][:-1])", 'int(e[4].rstrip("M"))'),
        "split-colon-all": (GFA, "add_node", 'tag.split(":", 2)', 'tag.split(":")'),
        "startswith-S-tab": (GFA, "read_graph", 'line.startswith("S")', 'line.startswith("S\\t")'),
        "skip-after-assert": (GFA, "read_graph", "if e[0] not in self or e[2] not in self:", 'assert e[1] in "+-" and e[3] in "+-"\n        if e[0] not in self or e[2] not in self:'),
        "three-columns": (GFA, "read_graph", "assert len(line) >= 3", "assert len(line) > 3"),
        "dup-checks-tags": (GFA, "add_node", "if node_id not in self:", "for tag in tags:\n        assert is_correct_tag(tag)\n    if node_id not in self:"),
        "rank-int-later": (GFA, "add_node", "contig_rank = int(self[node_id].tags[\"SR\"][1])", "contig_rank = self[node_id].tags[\"SR\"][1]"),
        "tag-check-off": (gfa_mod, "is_correct_tag", None, None),
    }

EQUIVALENT = {"L-strip-rstrip"}       # an L line starts with "L": lstrip has nothing to remove


def run_standalone(n, seed, mutant=None):
    ck = _StandaloneCheck(seed)
    saved = None
    tmp = tempfile.mkdtemp(prefix="gtv-gfatext-")
    try:
        if mutant:
            owner, name, old, new = _mutants()[mutant]
            saved = (owner, name, owner.__dict__[name] if isinstance(owner, type) else getattr(owner, name))
            if old is None:
                from gaftools.utils import tag_regex
                import re
                setattr(owner, name, lambda tag: bool(re.match(tag_regex, tag)))      # the per-type value check dropped
            else:
                setattr(owner, name, _rewrite(owner, name, old, new))
        gfatext_check(ck, tmp, n)
    finally:
        if saved:
            setattr(*saved)
        shutil.rmtree(tmp, ignore_errors=True)
    return ck


class _StandaloneCheck(core.Check):
    """the accounting of core.Check without the build / evidence machinery"""

    def __init__(self, seed):  # noqa: super().__init__ deliberately not called
        self.prop, self.tier, self.seed = "gfatext", "quick", seed
        self.rng = random.Random("gfatext-%d" % seed)
        self.hist, self.broken, self.violations, self.samples = {}, [], [], []
        self.evaluations, self.nontrivial, self.extra, self.canon = 0, set(), {}, []


if __name__ == "__main__":
    sys.path.insert(0, core.REPO)
    os.environ.setdefault("GAFTOOLS_VERIF", "1")
    a = sys.argv[1:]
    nums = [x for i, x in enumerate(a) if x.isdigit() and (i == 0 or a[i - 1] != "--seed")]
    n = int(nums[0]) if nums else 3000
    seed = int(a[a.index("--seed") + 1]) if "--seed" in a else 1
    mut = a[a.index("--mutant") + 1] if "--mutant" in a else None
    if mut == "all":
        bad = 0
        for m in _mutants():
            ck = run_standalone(n, seed, m)
            expect = m not in EQUIVALENT
            verdict = ("caught" if ck.broken else "NOT CAUGHT") if expect else ("equivalent, no disagreement (as it must be)" if not ck.broken else "DISAGREES although equivalent")
            print("mutant %-20s %6d compared, %5d disagreements  %s" % (m, ck.evaluations, len(ck.broken), verdict))
            bad += bool(ck.broken) != expect
        sys.exit(1 if bad else 0)
    ck = run_standalone(n, seed, mut)
    for k in sorted(ck.hist):
        print("%7d  %s" % (ck.hist[k], k))
    print("%d compared, %d disagreements%s" % (ck.evaluations, len(ck.broken), " [mutant %s]" % mut if mut else ""))
    for b in ck.broken[:6]:
        print(json.dumps(b, indent=1, default=str)[:1800])
    sys.exit(1 if ck.broken else 0)
