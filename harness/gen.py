"""Structured generators built from the repo's own formats (rGFA, GAF, SAM tags, BGZF). Every random choice comes
from the `random.Random` instance passed in, so a (property, seed, case index) replays exactly."""
import collections
import os

COMP = str.maketrans("ACGT", "TGCA")


def rc(s):
    return s[::-1].translate(COMP)


def rseq(rng, n):
    return "".join(rng.choice("ACGT") for _ in range(n))


class Graph:
    """segs: list of dict(id, seq, SN, SO, SR, [BO, NO], extra tags list); links: list of (a, da, b, db, ov, tags)"""

    def __init__(self):
        self.segs = []
        self.links = []

    def seg(self, i):
        for s in self.segs:
            if s["id"] == i:
                return s
        raise KeyError(i)

    def seqd(self):
        return {s["id"]: s["seq"] for s in self.segs}

    def text(self, with_seq=True, bo=True, shuffle_rng=None, other_records=False):
        S = []
        for s in self.segs:
            tags = ["LN:i:%d" % len(s["seq"]), "SN:Z:%s" % s["SN"], "SO:i:%d" % s["SO"], "SR:i:%d" % s["SR"]]
            if bo and "BO" in s:
                tags += ["BO:i:%s" % s.get("BO_txt", "%d" % s["BO"]), "NO:i:%s" % s.get("NO_txt", "%d" % s["NO"])]
            tags += s.get("extra", [])
            S.append("S\t%s\t%s\t%s" % (s["id"], s["seq"] if with_seq else "*", "\t".join(tags)))
        L = []
        seen = set()
        for (a, da, b, db, ov, tags) in self.links:
            if (a, da, b, db) in seen:
                continue
            seen.add((a, da, b, db))
            L.append("\t".join(["L", a, da, b, db, "%dM" % ov] + list(tags)))
        lines = S + L
        if shuffle_rng is not None:
            shuffle_rng.shuffle(lines)
        if other_records:
            lines = ["H\tVN:Z:1.0"] + lines
        return "\n".join(lines) + "\n"

    def adjacency(self):
        adj = collections.defaultdict(set)
        fl = {"+": "-", "-": "+"}
        for (a, da, b, db, ov, tags) in self.links:
            adj[(a, da)].add((b, db))
            adj[(b, fl[db])].add((a, fl[da]))
        return adj


def noncanonical_int(rng, v):
    """another valid spelling of the integer v (SAM type i: [-+]?[0-9]+)"""
    if v < 0:
        return rng.choice(["-0%d" % -v, "-00%d" % -v, "%d" % v])
    return rng.choice(["+%d" % v, "0%d" % v, "00%d" % v, "+0%d" % v] + (["-0"] if v == 0 else []))


def rgfa(rng, max_ref=2, max_ref_segs=6, max_hap=3, maxlen=6, extra_links=True, ids="s", min_ref_segs=1):
    """valid rGFA: rank-0 contigs tiled from 0; haplotype contigs with 1-3 segments, touching or separated"""
    g = Graph()
    nid = [0]

    def new(seq, c, so, r):
        nid[0] += 1
        i = "%s%d" % (ids, nid[0])
        g.segs.append(dict(id=i, seq=seq, SN=c, SO=so, SR=r))
        return i

    # stable sequence names with a '-' (valid; the interval syntax CONTIG:a-b only splits after the ':'): own PRNG stream
    dash = QUIRK_RNG is not None and QUIRK_RNG.random() < 0.15
    if dash:
        QUIRKS["contig-names-with-dash"] = QUIRKS.get("contig-names-with-dash", 0) + 1
    # very short / odd stable sequence names (valid): "e" ties with the index's own "ref_contig" key when view sorts the keys by
    # their second and third character / component (D21); own PRNG stream
    odd = (not dash) and QUIRK_RNG is not None and QUIRK_RNG.random() < 0.1
    if odd:
        QUIRKS["contig-names-one-letter"] = QUIRKS.get("contig-names-one-letter", 0) + 1
    for c in range(rng.randint(1, max_ref)):
        name = ("chr%d-v2" if dash else "chr%d") % (c + 1)
        if odd:
            name = ["e", "r", "ref_contig", "f", "E", "ef"][c % 6]
        so = 0
        idl = []
        for _ in range(rng.randint(min_ref_segs, max_ref_segs)):
            L = rng.randint(1, maxlen)
            idl.append(new(rseq(rng, L), name, so, 0))
            so += L
        for a, b in zip(idl, idl[1:]):
            g.links.append((a, "+", b, "+", 0, ()))
    for h in range(rng.randint(0, max_hap)):
        name = ("hap%d-b" if dash else "hap%d") % (h + 1)
        so = rng.randint(0, 50)
        r = rng.randint(1, 5)
        for _ in range(rng.randint(1, 3)):
            L = rng.randint(1, maxlen)
            new(rseq(rng, L), name, so, r)
            so += L + rng.choice([0, 0, 3, 10])
    allids = [s["id"] for s in g.segs]
    if extra_links:
        for _ in range(rng.randint(2, 3 * len(allids))):
            g.links.append((rng.choice(allids), rng.choice("+-"), rng.choice(allids), rng.choice("+-"), 0, ()))
    return g


def walk(rng, g, adj, maxsteps=6):
    cur = (rng.choice(g.segs)["id"], rng.choice("+-"))
    w = [cur]
    for _ in range(rng.randint(0, maxsteps)):
        nx = sorted(adj.get(cur, ()))
        if not nx:
            break
        cur = rng.choice(nx)
        w.append(cur)
    return w


def path_str(w):
    return "".join((">" if o == "+" else "<") + n for n, o in w)


# ------------------------------------------------------------------------------------------------ tags (SAM grammar)
def tag_value(rng, ty):
    if ty == "i":
        return rng.choice(["0", "7", "-3", "+12", "123456", "-0"])
    if ty == "f":
        return rng.choice(["0.5", "1e-05", ".5", "-2.5E+3", "3", "+0.25", "1.0e10"])
    if ty == "A":
        return rng.choice(list("PSI!~a0:"))
    if ty == "Z":
        if rng.random() < 0.12:
            # a value that contains what looks like another field's TAG:TYPE: prefix (ds / cg / tp are treated specially by the parser)
            return rng.choice(["", "read", "pool_of_rea", "minimap2 ", "x"]) + rng.choice(["ds", "cg", "tp", "NM", "sn"]) + ":" + rng.choice("ZZAi") + ":" + rng.choice(["", "batch1", "7", "P", "5=", " field removed"])
        return rng.choice(["", "foo", "foo_bar baz", "a:b", "x#y.z-w", "*", "/path/to", "with space", "=ACG*at", "12=", "q:Z:r",
                           "cov=100%", "%d/%s", "100%% sure", "{0}", "\\t"])
    if ty == "H":
        return rng.choice(["", "1AE301", "FF"])
    if ty == "B":
        return rng.choice(["i,1,2", "c,-1", "f,1.5,-2e3", "S", "C,255"])
    raise ValueError(ty)


def rand_tags(rng, n=None, allow_repeat=False, with_tp=True, cigar=None, with_ds=False):
    """list of 'TAG:TYPE:VALUE' strings in random order; optionally a cg:Z: somewhere; names unique unless allow_repeat"""
    names = ["NM", "AS", "dv", "id", "XX", "zz", "BB", "x1", "rl", "s2", "de", "cm"]
    n = rng.randint(0, 5) if n is None else n
    out = []
    used = set()
    for _ in range(n):
        nm = rng.choice(names)
        ty = rng.choice("ifAZHB")
        if (nm, ty) in used and not allow_repeat:
            continue
        used.add((nm, ty))
        out.append("%s:%s:%s" % (nm, ty, tag_value(rng, ty)))
    if with_tp and rng.random() < 0.7:
        out.insert(rng.randint(0, len(out)), "tp:A:" + rng.choice("PSIP"))
    if with_ds and rng.random() < 0.3:
        out.insert(rng.randint(0, len(out)), "ds:Z:" + rng.choice(["=ACG*at+g", "*ac", "=TT"]))
    if rng.random() < 0.06:
        # only ds:Z: is the documented exception; a field named ds of another type is an ordinary optional field
        ty = rng.choice("ifAHB")
        out.insert(rng.randint(0, len(out)), "ds:%s:%s" % (ty, tag_value(rng, ty)))
    if cigar is not None:
        out.insert(rng.randint(0, len(out)), "cg:Z:" + cigar)
    return out


def simple_cigar(rng, n):
    """a CIGAR over =/X/I/D consuming n path bases (for converters only; not necessarily a real alignment)"""
    if n <= 0:
        return "1I"
    parts = []
    left = n
    while left > 0:
        k = rng.randint(1, left)
        parts.append("%d%s" % (k, rng.choice("==X=D")))
        left -= k
        if rng.random() < 0.2:
            parts.append("%dI" % rng.randint(1, 3))
    return "".join(parts)


def gaf_record(name, qlen, qs, qe, strand, path, plen, ps, pe, matches, blen, mapq, tags):
    return "\t".join([name, str(qlen), str(qs), str(qe), strand, path, str(plen), str(ps), str(pe), str(matches), str(blen), str(mapq)] + list(tags))


def walk_record(rng, g, w, name, canonical=None, tags=None, mapq=None):
    seqd = g.seqd()
    path = path_str(w)
    plen = sum(len(seqd[n]) for n, o in w)
    if canonical is None:
        canonical = rng.random() < 0.5
    if canonical:
        f = len(seqd[w[0][0]])
        l = len(seqd[w[-1][0]])
        ps = rng.randrange(0, f)
        pe = rng.randrange(max(plen - l, ps) + 1, plen + 1)
    else:
        r = rng.random()
        if r < 0.15:
            ps, pe = 0, plen
        else:
            ps = rng.randrange(0, plen)
            pe = rng.randrange(ps + 1, plen + 1)
    n = pe - ps
    if tags is None:
        tags = rand_tags(rng, cigar=simple_cigar(rng, n) if rng.random() < 0.85 else None)
    return gaf_record(name, n + 10, 3, 3 + n, "+", path, plen, ps, pe, n, n, rng.choice([0, 1, 30, 60]) if mapq is None else mapq, tags)


# ------------------------------------------------------------------------------------------------ files
# file-format quirks that are valid but rare, drawn from their own PRNG stream (set by core.Check) so that they do not
# perturb the main generator: a .gaf / .gfa file whose last line has no final newline
QUIRK_RNG = None
QUIRKS = {}


def write_text(path, text):
    if QUIRK_RNG is not None and path.endswith(".gfa") and text.endswith("\n") and QUIRK_RNG.random() < 0.12:
        # other GFA record types and comment lines between the S and L lines (header, path, walk, '#')
        lines = text[:-1].split("\n")
        for extra in ["H\tVN:Z:1.1", "# a comment line", "P\tp1\tzz1+,zz2-\t*", "W\tsample\t1\tchrQ\t0\t5\t>zz1<zz2"]:
            if QUIRK_RNG.random() < 0.6:
                lines.insert(QUIRK_RNG.randint(0, len(lines)), extra)
        text = "\n".join(lines) + "\n"
        QUIRKS["gfa-with-other-record-types"] = QUIRKS.get("gfa-with-other-record-types", 0) + 1
    if QUIRK_RNG is not None and path.endswith((".gaf", ".gfa")) and text.endswith("\n") and QUIRK_RNG.random() < 0.12:
        text = text[:-1]
        QUIRKS["file-without-final-newline"] = QUIRKS.get("file-without-final-newline", 0) + 1
    with open(path, "w") as f:
        f.write(text)


def write_bgzf(path, text, block=None):
    """BGZF via pysam; `block` (bytes) forces small blocks by flushing, giving multi-block files from small inputs"""
    from pysam import libcbgzf
    f = libcbgzf.BGZFile(path, "wb")
    data = text.encode()
    if block:
        for i in range(0, len(data), block):
            f.write(data[i:i + block])
            f.flush()
    else:
        f.write(data)
    f.close()


def write_gzip(path, text):
    import gzip
    with gzip.open(path, "wt") as f:
        f.write(text)


def write_gzip_multi(path, text, members=3):
    """a valid gzip file of several members (what bgzip writes for a file > 64 KiB, or `cat a.gz b.gz`)"""
    import gzip
    data = text.encode()
    k = max(1, len(data) // members)
    with open(path, "wb") as f:
        for i in range(0, len(data), k):
            f.write(gzip.compress(data[i:i + k]))


def record_offsets(path):
    """(offsets, raw lines) of a plain or BGZF file, read the way the tool does (tell / readline)"""
    from pysam import libcbgzf
    with open(path, "rb") as f:
        gz = f.read(2) == b"\x1f\x8b"
    h = libcbgzf.BGZFile(path, "rb") if gz else open(path, "rb")
    offs, lines = [], []
    while True:
        o = h.tell()
        l = h.readline()
        if not l:
            break
        offs.append(o)
        lines.append(l.decode())
    h.close()
    return offs, lines


def bgzf_layout(path):
    """[(compressed address, uncompressed payload)] of a BGZF file, parsed from the gzip member headers (BSIZE in the 'BC' extra
    subfield) and inflated with zlib - independent of pysam / htslib"""
    import struct
    import zlib
    data = open(path, "rb").read()
    out, pos = [], 0
    while pos < len(data):
        if data[pos:pos + 4] != b"\x1f\x8b\x08\x04":
            raise ValueError("not a BGZF block at %d" % pos)
        xlen = struct.unpack("<H", data[pos + 10:pos + 12])[0]
        extra = data[pos + 12:pos + 12 + xlen]
        bsize, k = None, 0
        while k < len(extra):
            si1, si2, slen = extra[k], extra[k + 1], struct.unpack("<H", extra[k + 2:k + 4])[0]
            if si1 == 66 and si2 == 67:
                bsize = struct.unpack("<H", extra[k + 4:k + 6])[0] + 1
            k += 4 + slen
        if bsize is None:
            raise ValueError("no BC subfield at %d" % pos)
        cdata = data[pos + 12 + xlen:pos + bsize - 8]
        payload = zlib.decompress(cdata, -15)
        out.append((pos, payload))
        pos += bsize
    return out
