"""C03 (index), C04 (view --node), C05 (view --region) through the real index.run / view.run, against the Lean model/spec."""
import os
import pickle
import re
import shutil
import sys
import tempfile

from core import tool, Check, run_check, watchdog
import gen
from p_graph import tokenize_gfa
from p_conv import synth_stable


class CaseSetupFailed(Exception):
    def __init__(self, what, replay):
        Exception.__init__(self, what)
        self.what, self.replay = what, replay


class Case:
    """one generated (graph, GAF) pair on disk, indexed by the real tool"""

    def __init__(self, rng, tmp, stable, bgzf, big=False, many=False):
        from gaftools.cli import view
        self.tmp = tmp
        self.big = big
        # big: one reference contig of 55-80 segments, every one of them aligned (more nodes under one region than any
        # plausible internal limit of fifty)
        self.g = gen.rgfa(rng, max_ref_segs=7) if not big else gen.rgfa(rng, max_ref=1, min_ref_segs=55, max_ref_segs=80, max_hap=1)
        self.gtext = self.g.text(shuffle_rng=rng if rng.random() < 0.6 else None)
        self.tok = tokenize_gfa(self.gtext)
        adj = self.g.adjacency()
        nrec = rng.choice([1, 2, 3, 5, 8, 14]) if rng.random() < 0.93 else rng.randint(80, 200)
        if many:
            nrec = rng.randint(1001, 1100)      # more records than any plausible internal batch of a thousand
        lines = []
        for k in range(nrec):
            w = gen.walk(rng, self.g, adj)
            lines.append(gen.walk_record(rng, self.g, w, "q%d" % k))
        if big:
            for sg in self.g.segs:
                lines.append(gen.walk_record(rng, self.g, [(sg["id"], rng.choice("+-"))], "q%d" % len(lines)))
        self.stable = stable
        self.gfa = os.path.join(tmp, "v.gfa")
        gen.write_text(self.gfa, self.gtext)
        if stable:
            # stable records: the tool's own conversion of walk records plus independent synthetic ones
            u = os.path.join(tmp, "u.gaf")
            gen.write_text(u, "".join(l + "\n" for l in lines))
            o = os.path.join(tmp, "u.out")
            try:
                with watchdog(120):
                    tool("view", allow_stdout=True, gaf_path=u, gfa=self.gfa, output=o, format="stable")
                conv = open(o).read().splitlines()
            except BaseException as e:  # noqa: the tool refusing / failing on a valid whole-file conversion is a finding of the caller
                raise CaseSetupFailed("view --format stable of a valid unstable GAF (whole file) failed: %s: %s" % (type(e).__name__, str(e)[:200]),
                                      {"gfa": self.gtext, "gaf": lines[:60]})
            lines = []
            for k, l in enumerate(conv):
                lines.append(l if rng.random() < 0.6 else synth_stable(rng, self.g, k).replace("syn%d" % k, "q%d" % k))
        # unusual but valid text: multi-byte UTF-8 characters in read names / comment tags (characters != bytes), and, for a
        # plain file, CRLF line ends (the tool reads plain files in text mode: universal newlines)
        self.variant = "ascii"
        if rng.random() < 0.25:
            self.variant = rng.choice(["utf8", "utf8", "crlf", "utf8+crlf"]) if not bgzf else "utf8"
            if "utf8" in self.variant:
                out = []
                for l in lines:
                    f = l.split("\t")
                    if rng.random() < 0.6:
                        f[0] = rng.choice(["M\u00fcller_", "\u00b5", "\u8aad\u307f_", ""]) + f[0]
                    if rng.random() < 0.3:
                        f.append("co:Z:5\u00b5m filter")
                    out.append("\t".join(f))
                lines = out
        self.lines = lines
        self.bgzf = bgzf
        self.gaf = os.path.join(tmp, "v.gaf" + (".gz" if bgzf else ""))
        text = "".join(l + "\n" for l in lines)
        if bgzf:
            gen.write_bgzf(self.gaf, text, block=rng.choice([None, 150, 400]))
        elif "crlf" in self.variant:
            with open(self.gaf, "w", newline="") as f:
                f.write(text.replace("\n", "\r\n"))
        else:
            gen.write_text(self.gaf, text)
        self.offs, self.raw = gen.record_offsets(self.gaf)
        self.ord_of = {o: i for i, o in enumerate(self.offs)}
        self.name_ord = {l.split("\t")[0]: i for i, l in enumerate(lines)}

    def index(self):
        from gaftools.cli import index
        idx = self.gaf + ".gvi"
        if os.path.exists(idx):
            os.remove(idx)
        try:
            with watchdog(60):
                tool("index", gaf_path=self.gaf, gfa_path=self.gfa)
            with open(idx, "rb") as f:
                return pickle.load(f), None
        except BaseException as e:  # noqa
            return None, type(e).__name__ + ": " + str(e)[:200]

    def view(self, nodes=(), regions=(), fmt=None):
        from gaftools.cli import view, CommandLineError
        out = os.path.join(self.tmp, "v.out")
        try:
            with watchdog(30):
                tool("view", allow_stdout=True, gaf_path=self.gaf, gfa=self.gfa, output=out, nodes=list(nodes), regions=list(regions), format=fmt)
            return open(out).read().splitlines()
        except CommandLineError:
            return "none"
        except BaseException as e:  # noqa
            return "crash:" + type(e).__name__ + ": " + str(e)[:200]

    def base(self):
        return {"gfa": self.tok, "stable": self.stable, "lines": self.lines}

    def replay(self):
        return {"gfa": self.gtext, "gaf": self.lines[:60], "stable": self.stable, "bgzf": self.bgzf, "text_variant": self.variant}


def index_to_ordinals(case, ind):
    """pickled index -> [[id, sn, so, en, [ordinals]]]; problems = offsets that do not start a record / seek mismatch"""
    from gaftools.gaf import GAF
    out, problems = [], []
    g = GAF(case.gaf)
    for k, v in ind.items():
        if k == "ref_contig":
            continue
        ords = []
        for off in v:
            if off not in case.ord_of:
                problems.append("offset %r of node %s does not start a record" % (off, k[0]))
                continue
            i = case.ord_of[off]
            ords.append(i)
            rec = g.read_line(off)
            if rec is None or rec.query_name != case.lines[i].split("\t")[0].split(" ")[0]:
                problems.append("seeking to offset %r does not return record %d" % (off, i))
        out.append([k[0], k[1], k[2], k[3], ords])
    g.close()
    return out, problems


def c03(ck, tmp, n):
    rng = ck.rng
    for it in range(n):
        try:
            case = Case(rng, tmp, stable=rng.random() < 0.5, bgzf=rng.random() < 0.5, big=it == 4, many=it == 6)
        except CaseSetupFailed as e:
            ck.violation(e.what, e.replay)
            if len(ck.violations) > 20:
                break
            continue
        ind, err = case.index()
        impl, problems = (None, [err]) if ind is None else index_to_ordinals(case, ind)
        r = ck.driver([dict(case.base(), op="view.index", impl_index=impl)])[0]
        multi = len(case.lines) >= 2
        ck.case({"gfa": case.gtext, "gaf": case.lines}, multi and r["parsed"], sample={"gfa": case.gtext.splitlines()[:6], "gaf": case.lines[:2], "index": (impl or [])[:3]})
        ck.count("%s/%s" % ("stable" if case.stable else "unstable", "bgzf" if case.bgzf else "plain"))
        ck.count("records:%s" % ("1" if len(case.lines) == 1 else "2-19" if len(case.lines) < 20 else "80+"))
        if any("hap" in l.split("\t")[5] for l in case.lines):
            ck.count("touches-haplotype-contig")
        if not r["parsed"]:
            ck.count("unparsed")
            continue
        if ind is None:
            ck.violation("index failed on a valid input: %s" % err, case.replay())
            continue
        if problems:
            ck.violation(problems[0], dict(case.replay(), index=impl))
            continue
        if not r["spec_on_impl"]:
            ck.violation("index entry of some node is not exactly the set of records traversing it (or a key is not (id, SN, SO, SO+LN))", dict(case.replay(), index=impl, model=r["model"]))
            continue
        canon = lambda ix: sorted([e[:4] + [sorted(set(e[4]))] for e in ix])
        if r["model"] is None or canon(impl) != canon(r["model"]):
            ck.disagreement("index differs from the model's", dict(case.replay(), index=impl, model=r["model"]))


def lines_to_ordinals(case, out):
    ords = []
    for l in out:
        nm = l.split("\t")[0]
        if nm not in case.name_ord:
            return None
        ords.append(case.name_ord[nm])
    return ords


def c04_c05(ck, prop, tmp, n):
    rng = ck.rng
    for it in range(n):
        try:
            case = Case(rng, tmp, stable=rng.random() < 0.4, bgzf=rng.random() < 0.4, big=it in (3, n // 2), many=it == 5)
        except CaseSetupFailed as e:
            ck.violation(e.what, e.replay)
            if len(ck.violations) > 20:
                break
            continue
        if case.big:
            ck.count("big-contig")
        ind, err = case.index()
        if ind is None:
            ck.violation("index failed on a valid input: %s" % err, case.replay())
            continue
        ids = [s["id"] for s in case.g.segs]
        whole = {}
        for q in range(4):
            if prop == "C04":
                k = rng.choice([1, 1, 2, 3, 5])
                nodes = [rng.choice(ids) for _ in range(k)]
                if rng.random() < 0.3 and nodes:
                    nodes.append(nodes[0])
                query = {"nodes": nodes, "regions": None}
                args = dict(nodes=nodes)
            else:
                regs = []
                for _ in range(rng.choice([1, 1, 1, 2, 3])):
                    s = rng.choice(case.g.segs)
                    c = s["SN"]
                    segs_c = [x for x in case.g.segs if x["SN"] == c]
                    lo = min(x["SO"] for x in segs_c)
                    hi = max(x["SO"] + len(x["seq"]) for x in segs_c)
                    mode = rng.random()
                    if case.big and not regs:      # the whole contig, or most of it: more than fifty nodes under one region
                        a = lo + rng.choice([0, 0, 1, 7])
                        b = hi - 1 - rng.choice([0, 0, 3])
                    elif mode < 0.3:   # inside one node
                        a = rng.randrange(s["SO"], s["SO"] + len(s["seq"]))
                        b = rng.randrange(a, s["SO"] + len(s["seq"]))
                    elif mode < 0.5:  # on node boundaries
                        a = s["SO"]
                        b = min(hi - 1, s["SO"] + len(s["seq"]) + rng.choice([-1, 0, 1]))
                        b = max(a, b)
                    elif mode < 0.6:  # a single base at the very start / end of the contig or of a node (0-0 for a reference contig)
                        a = rng.choice([lo, lo, hi - 1, s["SO"], s["SO"] + len(s["seq"]) - 1])
                        b = a
                    else:
                        a = rng.randrange(lo, hi)
                        b = rng.randrange(a, hi)
                    regs.append([c, a, b])
                    if rng.random() < 0.35:      # a second region on the same contig: nested in, overlapping or following the first
                        a2 = rng.randrange(lo, hi)
                        b2 = rng.randrange(a2, hi)
                        if rng.random() < 0.5 and a < b:
                            a2 = rng.randrange(a, b)
                            b2 = rng.randrange(a2, b + 1)
                        regs.append([c, a2, b2])
                if rng.random() < 0.5:
                    rng.shuffle(regs)
                query = {"nodes": None, "regions": regs}
                args = dict(regions=["%s:%d-%d" % tuple(r) for r in regs])
            fmt = None
            if rng.random() < 0.35:
                fmt = "unstable" if case.stable else "stable"
            out = case.view(fmt=fmt, **args)
            if isinstance(out, list):
                impl = lines_to_ordinals(case, out)
            else:
                impl = out if out == "none" else "crash"
            r = ck.driver([dict(case.base(), op="view.select", impl=impl if impl is not None else "crash", **query)])[0]
            nsel = len(r["expected"])
            separates = 0 < nsel < len(case.lines)
            ck.case({"gfa": case.gtext, "gaf": case.lines, "query": query}, len(case.lines) >= 2 and (separates or nsel == 0),
                    sample={"query": query, "format": fmt, "selected": impl, "records": len(case.lines)})
            ck.count("selects:%s" % ("none" if nsel == 0 else "all" if nsel == len(case.lines) else "some"))
            ck.count("format:%s" % fmt)
            ck.count("text:%s" % case.variant)
            replay = dict(case.replay(), query=query, format=fmt, impl=out if not isinstance(out, list) else out[:40], expected=r["expected"])
            if impl == "crash" or impl is None:
                ck.violation("view failed with an internal error or returned a line that is no input record: %s" % (out if isinstance(out, str) else "foreign line"), replay)
                continue
            if not r["spec_on_impl"]:
                ck.violation("view returned records %s, expected exactly %s (each once, in file order)" % (impl, r["expected"]), replay)
                continue
            if (r["model"] == "none") != (impl == "none") or (impl != "none" and r["model"] != impl):
                ck.disagreement("selection differs from the model's", dict(replay, model=r["model"]))
            if impl == "none":
                continue
            # content: without --format the records carry the input content; with --format = convert the whole file, then select
            if fmt not in whole:
                w = case.view(fmt=fmt)
                whole[fmt] = w
            w = whole[fmt]
            if not isinstance(w, list) or len(w) != len(case.lines):
                ck.violation("viewing the whole file (format=%s) does not give one record per input record" % fmt, dict(replay, whole=w if isinstance(w, str) else w[:20]))
                continue
            if fmt is None and w != [l.rstrip() for l in case.lines]:
                ck.violation("view without selection and --format does not reproduce the file", dict(replay, whole=w[:20]))
                continue
            want = [w[i] for i in impl]
            if fmt is None:
                # selected records are parsed and re-printed: same content as C16's expectation of the input line
                rep = ck.driver([{"op": "gaf.print_parse", "line": case.lines[i], "impl": o} for i, o in zip(impl, out)])
                if not all(x["spec_on_impl"] or (not x["norep"] and x["k1_on_impl"]) for x in rep):
                    ck.violation("selected records do not carry the content of the input records", replay)
            elif out != want:
                ck.violation("view --node/--region with --format differs from converting the whole file and selecting the same records", dict(replay, converted_then_selected=want[:20]))


def main(prop):
    ck = Check(prop)
    ck.trusted = ["Lean 4.33.0 kernel", "axioms: propext, Classical.choice, Quot.sound (audited)", "correspondence harness + JSON driver",
                  "pickle round-trip of the index; tell()/seek()/readline() of text files and of pysam's BGZF reader (C17's interface): offsets are resolved to record ordinals by the harness"]
    ck.assumptions = ["valid rGFA; GAF records well-formed, over nodes of the graph; unique read names in generated files (records are identified by name)"]
    ck.canon = ["index offsets resolved to record ordinals; entries compared as sets (the property says 'contains')", "records identified by read name"]
    mods = ["Gaftools.Props.C03", "Gaftools.Props.TieA", "Gaftools.Props.TieA13" if prop == "C03" else "Gaftools.Props.TieA15", "Gaftools.Props.TieA27", "Gaftools.Props.Glue", "Gaftools.Props.Glue2", "Gaftools.Props.Reflect"] + (["Gaftools.Props.TieA2", "Gaftools.Props.TextLayer"] if prop == "C05" else [])
    from core import LEAN
    mods = [m for m in mods if os.path.exists(os.path.join(LEAN, *m.split(".")) + ".lean")]
    ck.lean_build(mods)
    ck.audit("%s.lean" % prop)
    quick = ck.tier == "quick"
    tmp = tempfile.mkdtemp(prefix="gtv-view-")
    try:
        if prop == "C03":
            ck.rule = "generated valid rGFAs (tiled rank-0 contigs, split haplotype contigs, all link shapes) x GAFs of 1-200 records in the four configurations {stable, unstable} x {plain, BGZF with small blocks}; stable records = the tool's conversions mixed with independent synthetic ones (bare contig +/-, per-node intervals); non-trivial = file with >= 2 records"
            c03(ck, tmp, 120 if quick else 3000)
        else:
            ck.rule = ("4 queries per generated file: " + ("node lists with repeats and unaligned nodes" if prop == "C04" else "1-3 regions: inside one node, on node boundaries, spanning several nodes, over unaligned nodes, haplotype contigs")
                       + "; with and without --format; plain/BGZF; non-trivial = file with >= 2 records where the query selects some but not all records, or nothing")
            c04_c05(ck, prop, tmp, 80 if quick else 800)
            if prop == "C05":
                # the region syntax itself (CONTIG:a-b as get_unstable / search split and convert it): Model/TextLayer.lean
                # parseRegion, theorems in Props/TextLayer.lean (Audit/C05_extra.lean)
                import p_textlayer
                p_textlayer.c05_regions(ck, 2500 if quick else 25000)
    finally:
        shutil.rmtree(tmp, ignore_errors=True)
    return ck.finish()


if __name__ == "__main__":
    prop = sys.argv[1]
    run_check(lambda: main(prop), prop)
