"""The command-line layer (C17 extra): argument vectors for all eight sub-commands go through the REAL `gaftools.__main__.main(argv)`
- the real argparse parser built from every `add_arguments`, the real `validate`, the real `main(args)` of the sub-command - with
the sub-command's entry point (`view.run`, `run_sort`, ...) replaced, for the duration of the comparison, by a recorder of its
keyword arguments; the same vectors go to the Lean model (Model/Cli.lean, driver op `cli.parse`) and the two are compared on
    (accepted?, exit status, kind of the usage error / help / version, text of a `validate` refusal, --debug, entry point, keyword arguments).

    cli_check(ck, tmp, n)     >= n argument vectors (valid ones with every option, in random order, in all spellings; invalid ones of
                              every kind) + the head of view.run on real files (the CommandLineErrors before the first record)
    hook(ck)                  the one call p_c17.py makes: Gaftools.Props.Cli joins the modules built before the audit (which reads
                              Audit/C17_extra.lean), and the comparison runs before the verdict
    python p_cli.py [n] [--seed s] [--mutant name|all]       standalone (needs the compiled driver)

A mutant replaces `validate` / `add_arguments` of one module by a deliberately wrong copy (made from its own source text) for one
run and restores it afterwards: the run must then report disagreements."""
import contextlib
import importlib
import inspect
import io
import json
import logging
import os
import random
import shutil
import sys
import tempfile
import textwrap

sys.path.insert(0, os.path.dirname(os.path.abspath(__file__)))
import core                                              # noqa: E402

MODULE = "Gaftools.Props.Cli"
ENTRY = {"view": "run", "index": "run", "sort": "run_sort", "stat": "run_stat", "phase": "run", "realign": "run_realign",
         "find_path": "run", "order_gfa": "run_order_gfa"}
SUBS = sorted(ENTRY)
# (positionals, [(short, long, kind)]): what the documentation of each sub-command lists
SPEC = {
    "view": (1, [("-g", "--gfa", "v"), ("-o", "--output", "v"), ("-i", "--index", "v"), ("-n", "--node", "a"), ("-r", "--region", "a"), ("-f", "--format", "v")]),
    "index": (2, [("-o", "--output", "v")]),
    "sort": (2, [(None, "--outgaf", "v"), (None, "--outind", "v"), (None, "--bgzip", "f")]),
    "stat": (1, [("-o", "--output", "v"), (None, "--cigar", "f")]),
    "phase": (2, [("-o", "--output", "v")]),
    "realign": (3, [("-o", "--output", "v"), ("-c", "--cores", "i")]),
    "find_path": (2, [("-o", "--output", "v"), ("-f", "--fasta", "f")]),
    "order_gfa": (1, [(None, "--chromosome_order", "v"), (None, "--with-sequence", "f"), (None, "--outdir", "v"), (None, "--by-chrom", "f")]),
}
WHY = [("ambiguous option", "ambiguous"), ("expected one argument", "expected-one-argument"), ("ignored explicit argument", "ignored-explicit"),
       ("invalid int value", "invalid-int"), ("the following arguments are required", "required"), ("unrecognized arguments", "unrecognized"),
       ("invalid choice", "invalid-choice"), ("unknown parser", "invalid-choice"), ("Please provide the name of a subcommand", "no-subcommand")]
REFUSALS = ["--format only accepts unstable or stable as input.", "provide either of the --regions and --nodes options and not both.",
            "GFA file has to be provided along with --format.",
            "--bgzip flag has been specified but not output path has been defined. Please define the output path.",
            "index path specified but no output gaf path. Please provide an output path."]


# ------------------------------------------------------------------------------------------------ the real command line
def pyval(v):
    if v is None or isinstance(v, (bool, str)):
        return v
    if isinstance(v, int):
        return {"int": str(v)}
    if isinstance(v, list):
        return [pyval(x) for x in v]
    if v is sys.__stdout__ or v is sys.stdout or v is _REAL_STDOUT[0]:
        return {"object": "sys.stdout"}
    return {"object": type(v).__name__}


_REAL_STDOUT = [sys.stdout]


class Recorder:
    """replaces the entry points of the eight sub-commands by functions that record their keyword arguments"""

    def __enter__(self):
        self.saved, self.calls = [], []
        for sub, fn in ENTRY.items():
            mod = importlib.import_module("gaftools.cli." + sub)
            self.saved.append((mod, fn, getattr(mod, fn)))

            def rec(*a, _name="gaftools.cli.%s.%s" % (sub, fn), **kw):
                self.calls.append((_name, a, kw))
            setattr(mod, fn, rec)
        return self

    def __exit__(self, *exc):
        for mod, fn, orig in self.saved:
            setattr(mod, fn, orig)
        return False


def real_main(argv, recorder=None):
    """`gaftools.__main__.main(argv)` in-process: (outcome dict, stdout text, stderr text)"""
    from gaftools.__main__ import main as gmain
    root = logging.getLogger()
    before, level = list(root.handlers), root.level
    root.handlers[:] = []                     # handlers installed earlier in this process would write the tool's log to the real streams
    out, err = io.StringIO(), io.StringIO()
    if recorder is not None:
        del recorder.calls[:]
    res = {}
    _REAL_STDOUT[0] = sys.stdout
    try:
        with contextlib.redirect_stdout(out), contextlib.redirect_stderr(err):
            _REAL_STDOUT[0] = sys.stdout          # a default such as `default=sys.stdout` is evaluated while the parser is built
            try:
                gmain(list(argv))
                res = {"outcome": "return", "status": None}
            except SystemExit as e:
                res = {"outcome": "exit", "status": e.code if isinstance(e.code, int) or e.code is None else 1}
            except BaseException as e:  # noqa
                res = {"outcome": "crash:" + type(e).__name__, "status": 1, "detail": str(e)[:200]}
        res["debug"] = root.level == logging.DEBUG
    finally:
        root.handlers[:] = before
        root.setLevel(level)
    o, e = out.getvalue(), err.getvalue()
    if res["outcome"] == "exit" and res["status"] == 2:
        last = [ln for ln in e.splitlines() if ": error: " in ln]
        msg = last[-1].split(": error: ", 1)[1] if last else e[-200:]
        res["outcome"] = "usage"
        res["why"] = next((k for pat, k in WHY if pat in msg), None)
        if res["why"] is None:
            tail = e.split(": error: ", 1)[1].rstrip("\n") if ": error: " in e else msg
            res["why"], res["msg"] = ("refused", tail) if tail in REFUSALS else ("other:" + msg[:80], None)
    elif res["outcome"] == "exit" and res["status"] in (0, None):
        res["status"] = 0
        res["outcome"] = "version" if o.startswith("gaftools ") and "usage:" not in o else ("help" if "usage:" in o else "exit0-silent")
    if recorder is not None and recorder.calls:
        if len(recorder.calls) != 1 or recorder.calls[0][1]:
            res["outcome"] = "odd-call"
        else:
            name, _, kw = recorder.calls[0]
            res.update({"outcome": "call" if res["outcome"] == "return" else res["outcome"] + "+call", "fn": name,
                        "kwargs": {k: pyval(v) for k, v in kw.items()}})
    return res, o, e


# ------------------------------------------------------------------------------------------------ generator
PLAIN = ["x.gaf", "g.gfa", "out.txt", "dir/sub", "s1", "s22", ">s1<s2", "chr1:10-20", "chr2:5-5", "a b", " ", "", "é.gaf", "a=b", "=",
         "stable", "unstable", "view", "sort", "5", "0", "out", "-", "o", "h", "1.5", "x-y", "reads.fa", "t.tsv", "chr1,chr2", "./out"]
DASHY = ["-5", "-1.5", "-.5", "-5\n", "- x", "-a b", "-12", "-0"]                   # start with '-' but are read as values
DASH_OPTLIKE = ["-x", "--bogus", "-5x", "-.", "-1.", "--", "-é", "--x=1", "-\n", "-5\n\n", "-1.5.2", "-o", "--output", "-h"]
INTS_OK = ["1", "4", "0", "-3", " 7 ", "1_0", "+3", "007", "\t2\n", "12345678901234567890123", "-0", "\xa07", "\x0c5\x85"]
INTS_BAD = ["x", "", "1.5", "0x10", "1__0", "_1", "1_", "++1", "- 1", "1e3", "one", "--1", "1 0", "\x1f7", "7\x1c", "9" * 4301]
FORMATS = ["stable", "unstable", "", "Stable", "gfa", "unstable ", "st"]


def value(rng, kind="v"):
    if kind == "i":
        return rng.choice(INTS_OK if rng.random() < 0.8 else INTS_BAD)
    r = rng.random()
    if r < 0.85:
        return rng.choice(PLAIN)
    return rng.choice(DASHY)


def spell(rng, short, long_, v, sub):
    """one option with its value, in one of the spellings; returns (tokens, spelling name)"""
    forms = ["long-sep", "long-eq"] + (["short-sep", "short-attached"] if short else [])
    r = rng.random()
    if r < 0.06:
        forms = ["abbrev-sep", "abbrev-eq"]
    elif r < 0.10 and short:
        forms = ["short-eq"]
    f = rng.choice(forms)
    if f == "long-sep":
        return [long_, v], f
    if f == "long-eq":
        return [long_ + "=" + v], f
    if f == "short-sep":
        return [short, v], f
    if f == "short-attached":
        return [short + v], f
    if f == "short-eq":
        return [short + "=" + v], f
    k = rng.randint(3, len(long_) - 1)
    return ([long_[:k], v] if f == "abbrev-sep" else [long_[:k] + "=" + v]), f


def vector(rng):
    """(argv, label): an argument vector and the kind it was meant to be"""
    r = rng.random()
    if r < 0.015:
        return rng.choice([[], ["--debug"], ["--version"], ["-h"], ["--help"], ["--debug", "--version"], ["--vers"], ["--bogus"],
                           ["-x", "--version"], ["--debug=1"], ["-hx"], ["-hh"], ["--=x"], ["-5"], ["a b"], ["--deb"], ["--d"]]), "top-only"
    sub = rng.choice(SUBS)
    npos, opts = SPEC[sub]
    label = "valid"
    items, used = [], []
    # which options are present
    chosen = [o for o in opts if rng.random() < 0.6]
    if sub == "view":
        # keep a valid command line valid: not both -n and -r, --format with --gfa and one of the two words
        if rng.random() < 0.8:
            drop = rng.choice(["-n", "-r"])
            chosen = [o for o in chosen if o[0] != drop]
    for (short, long_, kind) in chosen:
        reps = rng.randint(1, 3) if kind == "a" else (2 if rng.random() < 0.05 else 1)
        for _ in range(reps):
            if kind == "f":
                items.append(([rng.choice([x for x in (short, long_) if x])], "flag"))
            else:
                v = value(rng, kind)
                if sub == "view" and long_ == "--format":
                    v = rng.choice(FORMATS[:2]) if rng.random() < 0.85 else rng.choice(FORMATS)
                toks, f = spell(rng, short, long_, v, sub)
                items.append((toks, f))
    if sub == "view" and any(t[0][0].startswith(("-f", "--fo")) for t in items) and not any(t[0][0].startswith(("-g", "--gf")) for t in items) and rng.random() < 0.85:
        items.append((["-g", "g.gfa"], "short-sep"))
    if sub == "sort" and any(t[0][0].startswith(("--bg", "--outi")) for t in items) and not any(t[0][0].startswith("--outg") for t in items) and rng.random() < 0.85:
        items.append((["--outgaf", "o.gaf"], "long-sep"))
    pos = [([value(rng)], "positional") for _ in range(npos)]
    # break it on purpose
    r = rng.random()
    if sub in ("view", "sort") and rng.random() < 0.25:
        r = 0.25 + 0.10 * rng.random()               # the refusals of `validate`
    elif sub == "realign" and rng.random() < 0.1:
        r = 0.36
    if r < 0.04:
        pos = pos[:rng.randrange(npos)] if npos else pos
        label = "missing-positional"
    elif r < 0.07:
        pos.append(([value(rng)], "positional"))
        label = "surplus-positional"
    elif r < 0.12:
        items.append(([rng.choice(["--bogus", "-z", "-zfoo", "--bogus=1", "-Z", "--debug", "--version", "--no-such", "-5x"])], "unknown"))
        label = "unknown-option"
    elif r < 0.16:
        vo = [o for o in opts if o[2] != "f"]
        if vo:
            s_, l_, _ = rng.choice(vo)
            items.append(([rng.choice([x for x in (s_, l_) if x])], "no-value"))
            label = "missing-value"
    elif r < 0.19:
        s_, l_, _ = rng.choice(opts)
        items.append(([rng.choice([x for x in (s_, l_) if x]), rng.choice(DASH_OPTLIKE[:5] + DASH_OPTLIKE[6:])], "dash-value"))
        label = "dash-value"
    elif r < 0.22:
        fl = [o for o in opts if o[2] == "f"]
        if fl:
            s_, l_, _ = rng.choice(fl)
            items.append(([rng.choice([l_ + "=1", l_ + "=", (s_ or l_) + "x", (s_ or l_) + "h", (s_ or l_) + "o", (s_ or l_) + "=o"])], "flag-explicit"))
            label = "flag-with-value"
    elif r < 0.25:
        items.append(([rng.choice(["-h", "--help", "--he", "-hh", "-hx", "--help=1"])], "help"))
        label = "help"
    elif r < 0.27 and sub == "view":
        items += [(rng.choice([["-n", "s1"], ["--node=s1"], ["-n", ""], ["-ns2"]]), "short-sep"), (rng.choice([["--region=chr1:1-2"], ["-r", "chr1:1-2"], ["-r", ""]]), "long-eq")]
        label = "both-n-and-r"
    elif r < 0.29 and sub == "view":
        items = [t for t in items if not t[0][0].startswith(("-g", "--gf"))] + [(["--format", rng.choice(["stable", "unstable"])], "long-sep")]
        if rng.random() < 0.4:
            items.append((rng.choice([["--gfa="], ["-g", ""], ["-g="]]), "long-eq"))          # given, but empty: refused as well
            label = "format-with-empty-gfa"
        else:
            label = "format-without-gfa"
    elif r < 0.31 and sub == "view":
        items = [t for t in items if not t[0][0].startswith(("-f", "--fo"))] + [(["-f", rng.choice(FORMATS[2:])], "short-sep"), (["--gfa", "g.gfa"], "long-sep")]
        label = "bad-format"
    elif r < 0.33 and sub == "sort":
        items = [t for t in items if not t[0][0].startswith("--outg")] + [(["--bgzip"], "flag")]
        if rng.random() < 0.4:
            items.append((rng.choice([["--outgaf="], ["--outgaf", ""]]), "long-eq"))
            label = "bgzip-with-empty-outgaf"
        else:
            label = "bgzip-without-outgaf"
    elif r < 0.35 and sub == "sort":
        items = [t for t in items if not t[0][0].startswith("--outg")] + [(rng.choice([["--outind", "x.gsi"], ["--outind="], ["--outind=x"]]), "long-sep")]
        if rng.random() < 0.3:
            items.append((["--outgaf="], "long-eq"))
        label = "outind-without-outgaf"
    elif r < 0.38 and sub == "realign":
        items.append((["-c", rng.choice(INTS_BAD)], "short-sep"))
        label = "bad-int"
    elif r < 0.40:
        items.append(([rng.choice(["--=x", "--o=1", "--out", "--out=3", "--", "--o"])], "odd"))
        label = "odd-dashes"
    # order: options shuffled, positionals in order but anywhere between them (order_gfa's documented line has them last)
    rng.shuffle(items)
    seq = list(items)
    for p in pos:
        seq.insert(rng.randint(0, len(seq)), p)
    # positionals keep their relative order
    pi = iter(pos)
    seq = [next(pi) if t[1] == "positional" else t for t in seq]
    argv = [sub] + [tok for t in seq for tok in t[0]]
    top = rng.random()
    if top < 0.06:
        argv = ["--debug"] + argv
        label += "+debug"
    elif top < 0.08:
        argv = [rng.choice(["--version", "-h", "--bogus", "--deb", "-x", "--debug=1"])] + argv
        label = "top-option"
    elif top < 0.10:
        argv[0] = rng.choice(["View", "vie", "", "gaftools", "sor", "x.gaf", "-5", "find-path"])
        label = "unknown-subcommand"
    elif top < 0.105:
        argv = argv[1:]
        label = "no-subcommand"
    return argv, label, [t[1] for t in seq]


def in_fragment(argv):
    """the fragment Model/Cli.lean covers (`covered`)"""
    for s in argv:
        if s == "--":
            return False
        if (s.startswith("-") or "realign" in argv) and any(ord(c) >= 0x660 for c in s):
            return False
    return True


def soup(rng):
    """a vector of arbitrary tokens: option strings of any parser, values, dashes"""
    toks = [o for sp in SPEC.values() for (s, l, _) in sp[1] for o in (s, l) if o] + PLAIN + DASHY + DASH_OPTLIKE + INTS_OK + SUBS + ["--debug", "--version", "-h"]
    argv = [rng.choice(SUBS)] if rng.random() < 0.8 else []
    argv += [rng.choice(toks) for _ in range(rng.randint(0, 7))]
    return argv


# ------------------------------------------------------------------------------------------------ comparison
def same(model, real):
    """what differs between the model's reply and the real outcome (empty: nothing)"""
    d = []
    if model["outcome"] != real["outcome"]:
        d.append("outcome %s vs %s" % (model["outcome"], real["outcome"]))
        return d
    if model["status"] != real["status"]:
        d.append("status %s vs %s" % (model["status"], real["status"]))
    if model["outcome"] == "usage":
        if model["why"] != real.get("why"):
            d.append("usage error %s vs %s" % (model["why"], real.get("why")))
        elif model["why"] == "refused" and model.get("msg") != real.get("msg"):
            d.append("refusal text %r vs %r" % (model.get("msg"), real.get("msg")))
    if model["outcome"] == "call":
        for k in ("fn", "debug", "kwargs"):
            if model.get(k) != real.get(k):
                d.append("%s %r vs %r" % (k, model.get(k), real.get(k)))
    return d


def cli_vectors(ck, n):
    rng = ck.rng
    vecs = []
    while len(vecs) < n:
        if rng.random() < 0.12:
            argv, label, spellings = soup(rng), "soup", []
        else:
            argv, label, spellings = (lambda v: (v[0], v[1], v[2] if len(v) > 2 else []))(vector(rng))
        if not in_fragment(argv):
            ck.count("cli outside-fragment (skipped)")
            continue
        vecs.append((argv, label, spellings))
    replies = ck.driver([{"op": "cli.parse", "argv": a} for a, _, _ in vecs])
    with Recorder() as rec:
        for (argv, label, spellings), m in zip(vecs, replies):
            real, o, e = real_main(argv, rec)
            sub = argv[0] if argv and argv[0] in SUBS else "-"
            key = m["outcome"] + ("/" + m["why"] if m["outcome"] == "usage" else "")
            ck.count("cli %s: %s" % (sub, key))
            ck.count("cli kind %s" % label)
            for s in set(spellings):
                ck.count("cli spelling %s" % s)
            ck.case({"argv": argv}, m["outcome"] == "call" or m["outcome"] == "usage",
                    sample={"argv": argv, "model": {k: m.get(k) for k in ("outcome", "why", "fn", "kwargs")}} if m["outcome"] == "call" and len(argv) > 5 else None)
            if not m["covered"]:
                ck.disagreement("cli: the model says this vector is outside its fragment, the generator says inside", {"argv": argv})
            diff = same(m, real)
            if diff:
                ck.disagreement("command line %r: model and gaftools.__main__.main differ: %s" % (argv, "; ".join(diff)),
                                {"argv": argv, "kind": label, "model": m, "real": real, "stderr_tail": e[-300:]})
            if m["outcome"] == "call":
                # parse_render, evaluated: the canonical command line of an accepted namespace parses to the same namespace whenever
                # every value is one argparse reads as a value; and the real parser agrees on the rendered line
                vals = [x for x in m["rendered"][1:] if not (x.startswith("-") and len(x) > 1 and x in _ALLOPTS)]
                if all(not v.startswith("-") for v in vals):
                    ck.count("cli rendered-line reparsed")
                    if not m["reparse"]:
                        ck.disagreement("cli: the canonical rendering %r does not parse back to the namespace of %r" % (m["rendered"], argv), {"argv": argv, "model": m})
                    real2, _, _ = real_main(m["rendered"], rec)
                    if real2.get("kwargs") != m["kwargs"] or real2["outcome"] != "call":
                        ck.disagreement("cli: the real parser reads the canonical rendering %r differently" % (m["rendered"],), {"argv": argv, "model": m, "real": real2})
    return len(vecs)


_ALLOPTS = {o for sp in SPEC.values() for (s, l, _) in sp[1] for o in (s, l) if o}


# ------------------------------------------------------------------------------------------------ the head of view.run on real files
def view_head(ck, tmp, rounds):
    """real `main(["view", ...])` (nothing patched) on a small graph with an unstable, a stable and an empty GAF: exit status, the
    CommandLineError text, and what happened to the -o file - against `viewHead` / `effect` of the model"""
    import gen
    from core import tool
    rng = ck.rng
    done = 0
    for rd in range(rounds):
        g = gen.rgfa(rng, max_ref=2, max_ref_segs=5, maxlen=6)
        adj = g.adjacency()
        lines = []
        for k in range(rng.randint(3, 12)):
            w = gen.walk(rng, g, adj, maxsteps=3)
            if len({g.seg(n)["SN"] for n, o in w if g.seg(n)["SR"] == 0}) > 1:
                continue
            lines.append(gen.walk_record(rng, g, w, "q%d" % k, tags=["tp:A:P", "cg:Z:5="]))
        if not lines:
            continue
        d = os.path.join(tmp, "head%d" % rd)
        os.makedirs(d)
        gfa, un, st, em = (os.path.join(d, x) for x in ("g.gfa", "u.gaf", "s.gaf", "e.gaf"))
        gen.write_text(gfa, g.text())
        gen.write_text(un, "".join(l + "\n" for l in lines))
        gen.write_text(em, "")
        try:
            tool("view", via_cli=False, gaf_path=un, gfa=gfa, output=st, format="stable")
        except BaseException as e:  # noqa
            ck.count("cli head: no stable copy (%s)" % type(e).__name__)
            continue
        files = {un: False, st: True, em: None}
        nodes = sorted({s["id"] for s in g.segs})
        for gaf, fmt in files.items():
            for _ in range(8):
                has_index = rng.random() < 0.5
                idx = gaf + ".gvi"
                if os.path.exists(idx):
                    os.remove(idx)
                if has_index and fmt is not None:
                    try:
                        tool("index", via_cli=False, gaf_path=gaf, gfa_path=gfa)
                    except BaseException:  # noqa
                        has_index = False
                    has_index = os.path.exists(idx)
                else:
                    has_index = False
                argv = ["view", gaf]
                fm = rng.choice([None, None, "stable", "unstable"])
                if fm:
                    argv += ["-g", gfa, rng.choice(["-f", "--format"]), fm]
                sel = rng.random()
                if sel < 0.4:
                    for nd in rng.sample(nodes, min(len(nodes), rng.randint(1, 3))):
                        argv += ["-n", nd]
                elif sel < 0.55 and fmt is False:
                    s0 = rng.choice([s for s in g.segs if s["SR"] == 0])
                    argv += ["-r", "%s:%d-%d" % (s0["SN"], s0["SO"], s0["SO"] + len(s0["seq"]))]
                out = None
                if rng.random() < 0.7:
                    out = os.path.join(d, "out.gaf")
                    with open(out, "w") as f:
                        f.write("OLD CONTENT\n")
                    argv += ["-o", out]
                m = ck.driver([{"op": "cli.parse", "argv": argv, "env": {"fmt": fmt, "index_exists": has_index}}])[0]
                logging.disable(logging.NOTSET)
                try:
                    real, o, e = real_main(argv)
                finally:
                    logging.disable(logging.CRITICAL)
                done += 1
                head = m.get("head", {})
                ck.case({"argv": argv, "fmt": fmt, "index": has_index}, head.get("kind") == "CommandLineError")
                ck.count("cli head: %s" % (head.get("kind") or m["outcome"]))
                after = open(out).read() if out else None
                replay = {"argv": argv, "fmt": fmt, "index_exists": has_index, "model": m, "real": real, "stderr": e[-400:], "out_after": after}
                if head.get("kind") == "CommandLineError":
                    if real["status"] != 1 or head["msg"] not in e:
                        ck.disagreement("view head: the model expects CommandLineError %r (status 1), the tool: %s" % (head["msg"], real), replay)
                    if o.strip() or (after not in (None, "")):
                        ck.disagreement("view head: records written on a CommandLineError path", replay)
                    if (m["effect"]["opened"] is not None) != (out is not None) or (out is not None and after != ""):
                        ck.disagreement("view head: the -o file after a CommandLineError is not as the model says (created / truncated, empty)", replay)
                    if out is not None:
                        ck.count("cli head: -o file truncated by a refused command")
                elif head.get("kind") == "proceed":
                    late = "No alignments found" in e
                    if real["status"] == 1 and not late and "CommandLineError" in e:
                        ck.disagreement("view head: CommandLineError %r where the model proceeds" % e[-200:], replay)
                    if any(msg in e for msg in ("No index found", "already has")):
                        ck.disagreement("view head: a head error where the model proceeds", replay)
                    if head.get("index") is not None and has_index and not (head["index"] == gaf + ".gvi"):
                        ck.disagreement("view head: index path", replay)
                else:
                    ck.disagreement("view head: unexpected model reply", replay)
    return done


def cli_check(ck, tmp, n):
    """>= n argument vectors through the real command line and the model; the head of view.run on real files"""
    done = 0
    while done < n:
        done += cli_vectors(ck, min(1000, n - done))
    heads = view_head(ck, tmp, 3 if n <= 5000 else 12)
    ck.extra["cli_layer"] = {"argument_vectors": done, "view_head_runs": heads}
    return done


# ------------------------------------------------------------------------------------------------ hook, mutants, standalone
def hook(ck):
    """called by p_c17.main before the build: the proof module joins the modules that are grepped, built and audited (the audit
    picks up Audit/C17_extra.lean by itself), and the comparison runs before the verdict is formed"""
    build, finish = ck.lean_build, ck.finish

    def lean_build(modules):
        return build(list(modules) + [MODULE])

    def finish_(*a, **k):
        tmp = tempfile.mkdtemp(prefix="gtv-cli-")
        try:
            cli_check(ck, tmp, 3000 if ck.tier == "quick" else 30000)
        finally:
            shutil.rmtree(tmp, ignore_errors=True)
        return finish(*a, **k)
    ck.lean_build, ck.finish = lean_build, finish_


def _rewrite(owner, name, old, new):
    """a copy of owner.name with `old` replaced by `new` in its source text"""
    fn = getattr(owner, name)
    src = textwrap.dedent(inspect.getsource(fn))
    assert old in src, (name, old)
    ns = {}
    exec(compile(src.replace(old, new), "<mutant %s>" % name, "exec"), fn.__globals__, ns)
    return ns[name]


def _mutants():
    from gaftools.cli import view, sort, realign, find_path, order_gfa, stat
    return {
        "view-validate-both": (view, "validate", "if args.nodes and args.regions:", "if args.nodes and args.regions and False:"),
        "view-validate-format-words": (view, "validate", '["unstable", "stable"]', '["unstable", "stable", "gfa"]'),
        "view-validate-gfa": (view, "validate", "if args.format and not args.gfa:", "if args.format and args.gfa is None:"),
        "sort-validate-bgzip": (sort, "validate", "if args.bgzip and not args.outgaf:", "if args.bgzip and args.outgaf is None:"),
        "sort-validate-outind": (sort, "validate", "if args.outind and not args.outgaf:", "if False:"),
        "view-node-store": (view, "add_arguments", "dest='nodes', metavar='NODE', default=[], action='append'", "dest='nodes', metavar='NODE', default=[], nargs=1"),
        "view-region-short": (view, "add_arguments", "'-r', '--region', dest='regions'", "'-R', '--region', dest='regions'"),
        "view-format-default": (view, "add_arguments", "dest='format', metavar='FORMAT',", "dest='format', metavar='FORMAT', default='',"),
        "realign-cores-str": (realign, "add_arguments", "default=1, type=int", "default=1"),
        "realign-cores-default": (realign, "add_arguments", "default=1, type=int", "default=2, type=int"),
        "find_path-fasta-short": (find_path, "add_arguments", '"-f",\n        "--fasta"', '"-F",\n        "--fasta"'),
        "order-outdir-default": (order_gfa, "add_arguments", 'default="./out"', 'default="out"'),
        "stat-cigar-dest": (stat, "add_arguments", 'dest="cigar_stat"', 'dest="cigar"'),
    }


class _StandaloneCheck(core.Check):
    """the accounting of core.Check without the build / evidence machinery"""

    def __init__(self, seed):  # noqa: super().__init__ deliberately not called
        self.prop, self.tier, self.seed = "cli", "quick", seed
        self.rng = random.Random("cli-%d" % seed)
        self.hist, self.broken, self.violations, self.samples = {}, [], [], []
        self.evaluations, self.nontrivial, self.extra, self.canon = 0, set(), {}, []


def run_standalone(n, seed, mutant=None, heads=True):
    ck = _StandaloneCheck(seed)
    core.CLI_RNG.seed("cli-cli-%d" % seed)
    saved = None
    tmp = tempfile.mkdtemp(prefix="gtv-cli-")
    try:
        if mutant:
            owner, name, old, new = _mutants()[mutant]
            saved = (owner, name, getattr(owner, name))
            setattr(owner, name, _rewrite(owner, name, old, new))
        if heads:
            cli_check(ck, tmp, n)
        else:
            done = 0
            while done < n:
                done += cli_vectors(ck, min(1000, n - done))
    finally:
        if saved:
            setattr(*saved)
        shutil.rmtree(tmp, ignore_errors=True)
    return ck


if __name__ == "__main__":
    sys.path.insert(0, core.REPO)
    os.environ.setdefault("GAFTOOLS_VERIF", "1")
    a = sys.argv[1:]
    nums = [x for i, x in enumerate(a) if x.isdigit() and (i == 0 or a[i - 1] != "--seed")]
    n = int(nums[0]) if nums else 3000
    seed = int(a[a.index("--seed") + 1]) if "--seed" in a else 1
    mut = a[a.index("--mutant") + 1] if "--mutant" in a else None
    if mut == "all":
        bad = 0
        for m in _mutants():
            ck = run_standalone(n, seed, m, heads=False)
            print("mutant %-28s %6d compared, %5d disagreements  %s" % (m, ck.evaluations, len(ck.broken), "caught" if ck.broken else "NOT CAUGHT"))
            bad += not ck.broken
        sys.exit(1 if bad else 0)
    ck = run_standalone(n, seed, mut, heads=not mut)
    for k in sorted(ck.hist):
        print("%7d  %s" % (ck.hist[k], k))
    print("%d compared (%d distinct non-trivial), %d disagreements%s" % (ck.evaluations, len(ck.nontrivial), len(ck.broken), " [mutant %s]" % mut if mut else ""))
    for b in ck.broken[:8]:
        print(json.dumps(b, indent=1, default=str)[:1800])
    sys.exit(1 if ck.broken else 0)
