"""C11 / C13 — the realign collector protocol: the real realign_gaf driven through scripted schedules (fakemp), every schedule
replayed through the Lean transition system."""
import io
import os
import shutil
import sys
import tempfile

from core import Check, HarnessError, run_check
import fakemp

DATA = "/repo/tests/data/"


def make_input(tmp, nrec):
    """nrec records: copies of the fixture's first records under distinct read names (the alignment work itself is C12's subject)"""
    base = [l.split("\t") for l in open(DATA + "alignments-graphaligner.gaf").read().splitlines()]
    fa = {}
    name = None
    for line in open(DATA + "reads.fa"):
        if line.startswith(">"):
            name = line[1:].split()[0]
            fa[name] = ""
        else:
            fa[name] += line.strip()
    gaf = os.path.join(tmp, "in%d.gaf" % nrec)
    fasta = os.path.join(tmp, "in%d.fa" % nrec)
    with open(gaf, "w") as f, open(fasta, "w") as g:
        for i in range(nrec):
            b = base[i % len(base)][:]
            seq = fa[b[0].split(" ")[0]]
            b[0] = "rd%d" % i
            f.write("\t".join(b) + "\n")
            g.write(">rd%d\n%s\n" % (i, seq))
    return gaf, fasta


def reference(gaf, fasta, tmp):
    """the single-core file, through the real multiprocessing"""
    from gaftools.cli.realign import run_realign
    out = os.path.join(tmp, "ref.out")
    run_realign(gaf, DATA + "smallgraph.gfa", fasta, output=out, cores=1)
    return open(out).read().splitlines()


def one_schedule(R, gaf, fasta, cores, chooser, allow_death, death_codes=(-9,)):
    world = fakemp.World(chooser, allow_death=allow_death, death_codes=death_codes)
    out = io.StringIO()
    res = fakemp.run_with(R, world, lambda: R.realign_gaf(gaf, DATA + "smallgraph.gfa", fasta, out, cores))
    return res, out.getvalue().splitlines(), world


PENDING = []


def judge(ck, prop, res, lines, world, ref, meta):
    """spec on the implementation now; the comparison with the model is queued and done in one driver call (flush_model)"""
    groups = world.groups
    cases = []
    for g in groups:
        batches = [[m.priority for m in p.total if m is not None] for p in g.procs]
        cases.append({"op": "realign.run", "batches": batches, "events": g.events})
    lost = any(p.lost for g in groups for p in g.procs)
    died = any(p.exitcode not in (0, None) for g in groups for p in g.procs)
    timeouts_inflight = any(e["e"] == "pTimeout" for g in groups for e in g.events)
    replay = dict(meta, result=list(res), output=[l.split("\t")[0] for l in lines],
                  groups=[{"batches": c["batches"], "events": c["events"]} for c in cases])
    kind = res[0]
    nontriv = (timeouts_inflight and not died) if prop == "C11" else died
    ck.case({"events": [c["events"] for c in cases], "meta": meta}, nontriv,
            sample={"meta": meta, "events": [e["e"] + (str(e.get("i", "")) if "i" in e else "") for e in cases[0]["events"]][:40], "result": list(res)} if nontriv and cases else None)
    ck.count("result:" + kind + (str(res[1]) if kind == "exit" else ""))
    ck.count("death" if died else "no-death")
    if kind == "hang":
        ck.violation("realign does not terminate under this schedule", replay)
        return
    if kind == "crash":
        ck.violation("realign crashed: %s" % res[1], replay)
        return
    if not died:
        if kind != "ok" or lines != ref:
            ck.violation("without any worker failure the output is not the single-core file (dropped/duplicated/reordered records or spurious failure)", replay)
            return
    else:
        if lost and kind == "ok":
            ck.violation("a worker died with undelivered results and realign reported success", replay)
            return
        if kind == "ok" and lines != ref:
            ck.violation("realign reported success for an incomplete/incorrect output after a worker death", replay)
            return
        if kind == "exit" and res[1] in (0, None):
            ck.violation("realign exited with status 0 after a worker death that lost records", replay)
            return
    PENDING.append((cases, kind, [l.split("\t")[0] for l in lines], replay))


def flush_model(ck):
    flat = [c for cases, _, _, _ in PENDING for c in cases]
    rep = ck.driver(flat)
    k = 0
    for cases, kind, names_all, replay in PENDING:
        pos = 0
        for gi, c in enumerate(cases):
            r = rep[k]
            k += 1
            last = gi == len(cases) - 1
            impl_pc = "failed" if (last and kind == "exit") else "done"
            if r["pc"] != impl_pc:
                ck.disagreement("group %d: parent ended %s, model says %s" % (gi, impl_pc, r["pc"]), replay)
                break
            if impl_pc == "done":
                n = len(r["output"])
                if names_all[pos:pos + n] != ["rd%d" % p for p in r["output"]]:
                    ck.disagreement("group %d: written order differs from the model's" % gi, replay)
                    break
                pos += n
    del PENDING[:]


def main(prop):
    ck = Check(prop)
    ck.trusted = ["Lean 4.33.0 kernel", "axioms: propext, Classical.choice, Quot.sound (audited)", "correspondence harness + JSON driver",
                  "harness/fakemp.py: the scripted multiprocessing stand-in (Queue FIFO, get(timeout) raises Empty only when nothing is readable, exit 0 implies flushed feeder, channel operations atomic w.r.t. death)",
                  "CPython multiprocessing / OS scheduler themselves (the model contains every interleaving of the protocol, not e.g. a lock held by a killed process)"]
    ck.assumptions = ["mp.Queue is FIFO per producer and get(timeout) raises Empty only when nothing is readable",
                      "a process that exits with status 0 has flushed everything it put",
                      "put/flush/get are atomic with respect to a worker's death (a kill inside a pipe write is outside the model)"]
    ck.canon = ["records identified by read name", "log output ignored"]
    ck.lean_build(["Gaftools.Props.C11"])
    ck.audit("%s.lean" % prop)
    import gaftools.cli.realign as R
    tmp = tempfile.mkdtemp(prefix="gtv-realign-")
    quick = ck.tier == "quick"
    death = prop == "C13"
    try:
        configs = [(2, 1, 2), (3, 1, 3), (4, 2, 2), (5, 2, 2), (3, 1, 2)]   # (records, batch size, cores)
        inputs = {}
        for nrec, bs, cores in configs:
            if nrec not in inputs:
                gaf, fasta = make_input(tmp, nrec)
                inputs[nrec] = (gaf, fasta, reference(gaf, fasta, tmp))
        # 1. exhaustive: every schedule (stutter-reduced) of 2 workers x 1 record
        nrec, bs, cores = configs[0]
        os.environ["GAFTOOLS_VERIF_BATCH_SIZE"] = str(bs)
        gaf, fasta, ref = inputs[nrec]
        stack = [[]]
        n = 0
        limit = 12000 if quick else 400000
        while stack and n < limit:
            prefix = stack.pop()
            ch = fakemp.Chooser(prefix)
            res, lines, world = one_schedule(R, gaf, fasta, cores, ch, death)
            n += 1
            judge(ck, prop, res, lines, world, ref, {"records": nrec, "batch": bs, "cores": cores, "choices": ch.trace})
            for pos in range(len(prefix), len(ch.trace)):
                for alt in range(ch.trace[pos] + 1, ch.arity[pos]):
                    stack.append(ch.trace[:pos] + [alt])
            if ck.violations:
                break
        ck.exhaustive = not stack
        ck.extra["exhaustive_scope"] = "all schedules of 2 workers x 1 record%s (%d schedules, %s)" % (
            " with at most one worker death at any point" if death else "", n, "exhausted" if not stack else "cut at the tier's limit")
        # 2. random larger schedules
        nrand = 150 if quick else 6000
        for it in range(nrand):
            nrec, bs, cores = ck.rng.choice(configs[1:])
            os.environ["GAFTOOLS_VERIF_BATCH_SIZE"] = str(bs)
            gaf, fasta, ref = inputs[nrec]
            ch = fakemp.Chooser(rng=ck.rng)
            codes = (-9, 1, -11) if death else (-9,)
            res, lines, world = one_schedule(R, gaf, fasta, cores, ch, death and ck.rng.random() < 0.8, death_codes=codes)
            judge(ck, prop, res, lines, world, ref, {"records": nrec, "batch": bs, "cores": cores, "choices": ch.trace})
            if len(ck.violations) > 5:
                break
        flush_model(ck)
    finally:
        os.environ.pop("GAFTOOLS_VERIF_BATCH_SIZE", None)
        shutil.rmtree(tmp, ignore_errors=True)
    ck.rule = ("schedules of the real realign_gaf through the scripted multiprocessing: exhaustive DFS over all interleavings of 2 workers x 1 record, plus random schedules of 2-3 workers, 1-2 records per batch, 1-2 groups; "
               + ("non-trivial = the schedule contains a worker death" if death else "non-trivial = a queue timeout occurs while results are still in flight (no death)"))
    return ck.finish()


if __name__ == "__main__":
    prop = sys.argv[1]
    run_check(lambda: main(prop), prop)
