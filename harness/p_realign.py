"""C11 / C13 — the realign collector protocol: the real realign_gaf driven through scripted schedules (fakemp), every schedule
replayed through the Lean transition system."""
import io
import os
import shutil
import sys
import tempfile

from core import tool, Check, HarnessError, run_check, watchdog
import fakemp
import gen

from core import REPO
DATA = REPO + "/tests/data/"


def make_input(tmp, nrec):
    """nrec records: copies of the fixture's first records under distinct read names (the alignment work itself is C12's subject)"""
    base = [l.split("\t") for l in open(DATA + "alignments-graphaligner.gaf").read().splitlines()]
    fa = {}
    name = None
    for line in open(DATA + "reads.fa"):
        if line.startswith(">"):
            name = line[1:].split()[0]
            fa[name] = ""
        else:
            fa[name] += line.strip()
    gaf = os.path.join(tmp, "in%d.gaf" % nrec)
    fasta = os.path.join(tmp, "in%d.fa" % nrec)
    with open(gaf, "w") as f, open(fasta, "w") as g:
        for i in range(nrec):
            b = base[i % len(base)][:]
            seq = fa[b[0].split(" ")[0]]
            b[0] = "rd%d" % i
            f.write("\t".join(b) + "\n")
            g.write(">rd%d\n%s\n" % (i, seq))
    return gaf, fasta


def reference(gaf, fasta, tmp):
    """the single-core file, through the real multiprocessing"""
    from gaftools.cli.realign import run_realign
    out = os.path.join(tmp, "ref.out")
    try:
        with watchdog(120):
            run_realign(gaf, DATA + "smallgraph.gfa", fasta, output=out, cores=1)
    except BaseException as e:  # noqa: a hang (ImplHang) or crash of the single-core run is itself the finding
        import multiprocessing
        for ch in multiprocessing.active_children():
            ch.kill()
        return "failed: %s: %s" % (type(e).__name__, e)
    return open(out).read().splitlines()


def one_schedule(R, gaf, fasta, cores, chooser, allow_death, death_codes=(-9,), allow_exc=False):
    world = fakemp.World(chooser, allow_death=allow_death, death_codes=death_codes, allow_exc=allow_exc)
    out = io.StringIO()
    res = fakemp.run_with(R, world, lambda: R.realign_gaf(gaf, DATA + "smallgraph.gfa", fasta, out, cores))
    return res, out.getvalue().splitlines(), world


PENDING = []


def judge(ck, prop, res, lines, world, ref, meta):
    """spec on the implementation now; the comparison with the model is queued and done in one driver call (flush_model)"""
    groups = world.groups
    cases = []
    for g in groups:
        batches = [list(p.batch_prios) for p in g.procs]
        cases.append({"op": "realign.run", "batches": batches, "events": g.events})
    lost = any(p.lost or getattr(p, "missing", 0) for g in groups for p in g.procs)
    died = any(p.code not in (0, None) and not p.stopped for g in groups for p in g.procs)
    timeouts_inflight = any(e["e"] == "pTimeout" for g in groups for e in g.events)
    replay = dict(meta, result=list(res), output=[l.split("\t")[0] for l in lines],
                  groups=[{"batches": c["batches"], "events": c["events"]} for c in cases])
    kind = res[0]
    nontriv = (timeouts_inflight and not died) if prop == "C11" else died
    ck.case({"events": [c["events"] for c in cases], "meta": meta}, nontriv,
            sample={"meta": meta, "events": [e["e"] + (str(e.get("i", "")) if "i" in e else "") for e in cases[0]["events"]][:40], "result": list(res)} if nontriv and cases else None)
    ck.count("result:" + kind + (str(res[1]) if kind == "exit" else ""))
    ck.count("death" if died else "no-death")
    if kind == "hang":
        ck.violation("realign does not terminate under this schedule", replay)
        return
    if kind == "crash":
        ck.violation("realign crashed: %s" % res[1], replay)
        return
    if not died:
        if kind != "ok" or lines != ref:
            ck.violation("without any worker failure the output is not the single-core file (dropped/duplicated/reordered records or spurious failure)", replay)
            return
    else:
        if lost and kind == "ok":
            ck.violation("a worker died with undelivered results and realign reported success", replay)
            return
        if kind == "ok" and lines != ref:
            ck.violation("realign reported success for an incomplete/incorrect output after a worker death", replay)
            return
        if kind == "exit" and res[1] in (0, None):
            ck.violation("realign exited with status 0 after a worker death that lost records", replay)
            return
    PENDING.append((cases, kind, [l.split("\t")[0] for l in lines], replay))


def flush_model(ck):
    flat = [c for cases, _, _, _ in PENDING for c in cases]
    rep = ck.driver(flat)
    k = 0
    for cases, kind, names_all, replay in PENDING:
        pos = 0
        for gi, c in enumerate(cases):
            r = rep[k]
            k += 1
            last = gi == len(cases) - 1
            impl_pc = "failed" if (last and kind == "exit") else "done"
            if r.get("poll_mismatch"):
                ck.disagreement("group %d: the tool polls its workers with other predicates / in another order than the model's handler" % gi, replay)
                break
            if r["pc"] != impl_pc:
                ck.disagreement("group %d: parent ended %s, model says %s" % (gi, impl_pc, r["pc"]), replay)
                break
            if impl_pc == "done":
                n = len(r["output"])
                if names_all[pos:pos + n] != ["rd%d" % p for p in r["output"]]:
                    ck.disagreement("group %d: written order differs from the model's" % gi, replay)
                    break
                pos += n
    del PENDING[:]


# ---------------------------------------------------------------------------------------------------- C12
def mutate(rng, ref, rate):
    """derive a read from the path slice by substitutions / insertions / deletions; returns (read, true alignment ops)"""
    out, ops = [], []
    i = 0

    def add(n, c):
        if n <= 0:
            return
        # fragmented on purpose: sometimes a run is split into two records of the same operation
        if ops and ops[-1][1] == c and rng.random() < 0.7:
            ops[-1][0] += n
        else:
            ops.append([n, c])
    while i < len(ref):
        r = rng.random()
        if r < rate:
            b = rng.choice([x for x in "ACGT" if x != ref[i]])
            out.append(b)
            add(1, "X")
            i += 1
        elif r < rate * 1.5:
            k = rng.choice([1, 1, 2, 5, 30, 60])
            out.append(gen.rseq(rng, k))
            add(k, "I")
        elif r < rate * 2:
            k = min(rng.choice([1, 1, 2, 5, 30, 60]), len(ref) - i)
            add(k, "D")
            i += k
        else:
            out.append(ref[i])
            add(1, "=")
            i += 1
    return "".join(out), "".join("%d%s" % (n, c) for n, c in ops)


def c12(ck, tmp):
    import gen as G
    from gaftools.cli.realign import run_realign
    from p_graph import tokenize_gfa
    rng = ck.rng
    nfiles = 40 if ck.tier == "quick" else 200
    for it in range(nfiles):
        if len(ck.violations) > 5:
            break           # enough failing inputs for a replay; under a defect the remaining files can be very slow
        g = G.rgfa(rng, maxlen=40, max_ref_segs=5)
        if it % 6 == 0:   # one long node so that a > 60 000-base alignment exists
            g.segs[0]["seq"] = G.rseq(rng, 60500)
            so = 0
            for sg in g.segs:
                if sg["SN"] == g.segs[0]["SN"]:
                    sg["SO"] = so
                    so += len(sg["seq"])
        for sg in g.segs[1:]:
            if rng.random() < 0.2:      # single-base segments (SNP alleles): reverse complement of one base
                sg["seq"] = rng.choice("ACGT")
        adj = g.adjacency()
        seqd = g.seqd()
        text = g.text(shuffle_rng=rng if rng.random() < 0.5 else None, other_records=rng.random() < 0.3)    # S / L lines in any order, H line
        if it % 5 == 2:
            # the last line of the file is an S line and the file has no final newline (whatever the quirk stream draws)
            tl = text.rstrip("\n").split("\n")
            k = rng.choice([i for i, l in enumerate(tl) if l.startswith("S")])
            tl.append(tl.pop(k))
            text = "\n".join(tl)
        tok = tokenize_gfa(text)
        lines, reads, steps_l = [], [], []
        for k in range(rng.randint(4, 14) if it % 6 else rng.randint(8, 14)):
            w = G.walk(rng, g, adj, maxsteps=5)
            if it % 6 == 0 and k in (0, 1, 2, 3, 4, 5, 6):
                w = [(g.segs[0]["id"], rng.choice("+-"))]
            pseq = "".join(seqd[n] if o == "+" else G.rc(seqd[n]) for n, o in w)
            if len(pseq) < 2:
                continue
            boundary = it % 6 == 0 and k == 1
            if it % 6 == 0 and k == 0:
                a, b = 100, 100 + 60001 + rng.randint(0, 50)
            elif boundary:
                a, b = 50, 50 + 60000          # exactly 60 000 read bases: the largest alignment that must still be realigned
            elif it % 6 == 0 and k == 2:
                a, b = 10, 10 + 59990          # the read will be longer than the limit, the path slice shorter (net insertions)
            elif it % 6 == 0 and k == 3:
                a, b = 20, 20 + 60050          # the read will be shorter than the limit, the path slice longer (net deletions)
            elif it % 6 == 0 and k == 4:
                a, b = 1000, 1000 + 600        # see below: a long insertion and, 150 bases later, a long deletion
            elif it % 6 == 0 and k == 5:
                a, b = 2000, 2000 + rng.randint(10500, 12500)     # the same pattern in an alignment of more than 10 000 bases
            elif it % 6 == 0 and k == 6:
                a, b = 20000, 20000 + rng.randint(6000, 9500)     # see below: a one-base deletion and, a few bases on, a one-base insertion
            else:
                a = rng.randrange(0, len(pseq) - 1)
                b = rng.randrange(a + 1, min(len(pseq), a + 400) + 1)
                if rng.random() < 0.3:   # offsets on node boundaries
                    a, b = 0, len(pseq)
            ref = pseq[a:b]
            rate = rng.choice([0.0, 0.02, 0.05, 0.15])
            if len(ref) > 60000 and not (it % 6 == 0 and k == 3):
                q, cg = ref, "%d=" % len(ref)
            elif it % 6 == 0 and k == 2:
                # 59 990 path bases, 60 093 read bases: two insertions; the input CIGAR is fragmented, so a realignment shows
                q = ref[:20000] + G.rseq(rng, 50) + ref[20000:40000] + G.rseq(rng, 53) + ref[40000:]
                cg = "12000=8000=50I20000=53I19990="
            elif it % 6 == 0 and k == 3:
                # 60 050 path bases, 59 990 read bases (one deletion): must be realigned; 'M'-form input CIGAR
                q = ref[:30000] + ref[30060:]
                cg = "30000M60D29990M"
            elif it % 6 == 0 and k == 4:
                # the optimal alignment leaves the main diagonal by ~100 and comes back: exact WFA finds it, a pruning
                # heuristic does not; the input CIGAR is the true (valid) one, so "cost no worse than the input's" applies
                n_i, n_d = rng.randint(80, 120), rng.randint(80, 120)
                q = ref[:150] + G.rseq(rng, n_i) + ref[150:300] + ref[300 + n_d:]
                cg = "150=%dI150=%dD%d=" % (n_i, n_d, len(ref) - 300 - n_d)
            elif it % 6 == 0 and k == 5:
                # > 10 000 read bases with a ~100-base insertion and, 150 bases later, a ~100-base deletion: any length-dependent
                # switch to a pruning heuristic shows here
                n_i, n_d = rng.randint(90, 130), rng.randint(90, 130)
                q = ref[:5000] + G.rseq(rng, n_i) + ref[5000:5150] + ref[5150 + n_d:]
                cg = "5000=%dI150=%dD%d=" % (n_i, n_d, len(ref) - 5150 - n_d)
            elif it % 6 == 0 and k == 6:
                # read and path slice of EQUAL length that differ by a one-base deletion followed, w bases later, by a one-base
                # insertion: as a gapless alignment that is 5-9 mismatches (cost 20-36), as the indel pair it costs 16 - any
                # shortcut that skips the aligner for "nearly identical, same length" pairs shows here
                p0 = 4000
                w_ = 5
                while w_ < 40 and sum(1 for i in range(p0, p0 + w_) if ref[i + 1] != ref[i]) < 5:
                    w_ += 1
                q = ref[:p0] + ref[p0 + 1:p0 + 1 + w_] + ref[p0 + w_] + ref[p0 + 1 + w_:]
                cg = "%d=1D%d=1I%d=" % (p0, w_, len(ref) - p0 - 1 - w_)
            elif boundary:
                q = list(ref)
                for pos in rng.sample(range(len(q)), 3):
                    q[pos] = rng.choice([c for c in "ACGT" if c != q[pos]])
                q, cg = "".join(q), "%dM" % len(ref)      # a minimap2-style input CIGAR: only realignment makes it =/X
            else:
                q, cg = mutate(rng, ref, rate)
            if not q:
                continue
            pre, post = G.rseq(rng, rng.randint(0, 6)), G.rseq(rng, rng.randint(0, 6))
            if it % 6 == 3 and k == 1:
                # a read of more than 60 000 bases of which only a short stretch is aligned: the limit is on the aligned interval
                pre = G.rseq(rng, 60000 + rng.randint(1, 300))
            read = pre + q + post
            name = "rd%d_%d" % (it, k)
            tags = G.rand_tags(rng, cigar=cg)
            lines.append(G.gaf_record(name + (" extra" if rng.random() < 0.3 else ""), len(read), len(pre), len(pre) + len(q), "+", G.path_str(w),
                                      len(pseq), a, b, 1, 2, rng.choice([0, 60]), tags))
            reads.append((name, read))
            steps_l.append([[o == "+", n] for n, o in w])
        if not lines:
            continue
        gfa = os.path.join(tmp, "r.gfa")
        gaf = os.path.join(tmp, "r.gaf")
        fa = os.path.join(tmp, "r.fa")
        for f in (fa + ".fai",):
            if os.path.exists(f):
                os.remove(f)
        G.write_text(gfa, text)
        if rng.random() < 0.25:
            gaf += ".gz"
            G.write_bgzf(gaf, "".join(l + "\n" for l in lines))
        else:
            G.write_text(gaf, "".join(l + "\n" for l in lines))
        G.write_text(fa, "".join(">%s\n%s\n" % (n, s) for n, s in reads))
        out = os.path.join(tmp, "r.out")
        cores = rng.choice([1, 1, 2])
        os.environ["GAFTOOLS_VERIF_BATCH_SIZE"] = str(rng.choice([2, 3, 1000]))
        # resource guards for this call: worker processes inherit a 6 GiB address-space limit (an aligner fed with the wrong
        # sequences needs memory quadratic in the distance) and the whole call has five minutes
        import resource
        import multiprocessing
        soft, hard = resource.getrlimit(resource.RLIMIT_AS)
        try:
            resource.setrlimit(resource.RLIMIT_AS, (6 << 30, hard))
            with watchdog(300):
                tool("realign", allow_stdout=True, gaf=gaf, graph=gfa, fasta=fa, output=out, cores=cores)
            olines = open(out).read().splitlines()
        except BaseException as e:  # noqa
            for ch in multiprocessing.active_children():
                ch.kill()
            ck.violation("realign crashed: %s: %s" % (type(e).__name__, e), {"gfa": text[:5000], "gaf": [l[:300] for l in lines]})
            continue
        finally:
            resource.setrlimit(resource.RLIMIT_AS, (soft, hard))
            if os.path.exists(gaf):
                os.remove(gaf)
        if len(olines) != len(lines):
            ck.violation("realign wrote %d records for %d input records" % (len(olines), len(lines)), {"gfa": text[:5000], "gaf": [l[:300] for l in lines], "out": [l[:300] for l in olines]})
            continue
        cases = [{"op": "realign.record", "gfa": tok, "steps": st, "line_in": li, "line_out": lo, "read": rd[1]}
                 for st, li, lo, rd in zip(steps_l, lines, olines, reads)]
        rep = ck.driver(cases)
        for c, r, li, lo in zip(cases, rep, lines, olines):
            long_ = r.get("pass_through", False)
            edited = r.get("in_cost", 0) not in (0, None)
            rev = any(not s[0] for s in c["steps"])
            ck.case({"in": li[:2000]}, r["valid"] and (edited or rev), sample={"in": li[:300], "out": lo[:300]} if edited and not long_ else None)
            ck.count("pass-through" if long_ else "realigned")
            ck.count("input-cigar-valid" if r.get("in_valid") else "input-cigar-not-an-alignment")
            if r.get("out_cost") is not None and r.get("in_cost") is not None and not long_:
                ck.count("cost-improved" if r["out_cost"] < r["in_cost"] else "cost-equal" if r["out_cost"] == r["in_cost"] else "cost-worse")
            if not r["valid"]:
                ck.count("invalid")
                continue
            if not r["spec_on_impl"]:
                short = len(li) < 4000
                ck.violation("realigned record violates C12 (CIGAR not a valid end-to-end alignment of read slice vs path slice / tallies / cost / untouched columns / pass-through)",
                             {"gfa": text if short else text[:3000], "line_in": li if short else li[:3000], "line_out": lo if short else lo[:3000], "ref": r["ref"][:3000], "query": r["query"][:3000],
                              "in_cost": r.get("in_cost"), "out_cost": r.get("out_cost")})
    os.environ.pop("GAFTOOLS_VERIF_BATCH_SIZE", None)


# ---------------------------------------------------------------------------------------------------- real processes
def long_record_runs(ck, tmp):
    """records of more than 60 000 read bases (passed through unchanged) among ordinary ones, real processes: the file must
    hold one record per input record, in input order, for every core count - in particular when such records END the file
    after an exact multiple of batch size x cores ordinary records, or are the only records"""
    import gen as G
    from p_graph import tokenize_gfa  # noqa: F401
    rng = ck.rng
    long_seq = G.rseq(rng, 60400)
    segs = [("L1", long_seq), ("a", G.rseq(rng, 30)), ("b", G.rseq(rng, 25)), ("c", G.rseq(rng, 40))]
    gfa = os.path.join(tmp, "long.gfa")
    so = 0
    with open(gfa, "w") as f:
        for i, sq in segs:
            f.write("S\t%s\t%s\tLN:i:%d\tSN:Z:chrL\tSO:i:%d\tSR:i:0\n" % (i, sq, len(sq), so))
            so += len(sq)
        for (a, _), (b, _) in zip(segs, segs[1:]):
            f.write("L\t%s\t+\t%s\t+\t0M\n" % (a, b))
    seqd = dict(segs)

    def rec(name, long_):
        if long_ == "partial":
            # a read of more than 60 000 bases, aligned over a short stretch only: realigned like any ordinary record
            line, q = rec(name, False)
            f = line.split("\t")
            pre = G.rseq(rng, 60000 + rng.randint(1, 200))
            f[1], f[2], f[3] = str(len(pre) + len(q)), str(len(pre)), str(len(pre) + len(q))
            return "\t".join(f), pre + q
        if long_:
            a, b = 50, 50 + 60001 + rng.randint(0, 200)
            q = long_seq[a:b]
            return G.gaf_record(name, len(q), 0, len(q), "+", ">L1", len(long_seq), a, b, len(q), len(q), 60, ["cg:Z:%d=" % len(q)]), q
        path = rng.choice([[("a", "+"), ("b", "+")], [("b", "+"), ("c", "+")], [("a", "+")], [("c", "-")]])
        pseq = "".join(seqd[n] if o == "+" else G.rc(seqd[n]) for n, o in path)
        a = rng.randrange(0, len(pseq) - 5)
        b = rng.randrange(a + 3, len(pseq) + 1)
        q = pseq[a:b]
        return G.gaf_record(name, len(q), 0, len(q), "+", G.path_str(path), len(pseq), a, b, len(q), len(q), 60, ["cg:Z:%d=" % len(q)]), q
    shapes = [("only-long", 2, 2, [True, True]),
              ("full-groups-then-long", 2, 2, [False] * 4 + [True]),
              ("full-group-then-long-one-core", 3, 1, [False] * 3 + [True, True]),
              ("long-in-the-middle", 2, 2, [False, True, False, False, True, False, False]),
              ("long-read-short-alignment", 2, 2, [False, "partial", False, True, "partial"])]
    for tag, bs, cores, kinds in shapes:
        if ck.violations:
            break
        recs = [rec("lr%d" % i, k) for i, k in enumerate(kinds)]
        gaf = os.path.join(tmp, "long.gaf")
        fa = os.path.join(tmp, "long.fa")
        for f in (fa + ".fai",):
            if os.path.exists(f):
                os.remove(f)
        G.write_text(gaf, "".join(l + "\n" for l, _ in recs))
        G.write_text(fa, "".join(">lr%d\n%s\n" % (i, q) for i, (_, q) in enumerate(recs)))
        outs = {}
        for c in sorted({1, cores}):
            os.environ["GAFTOOLS_VERIF_BATCH_SIZE"] = str(bs)
            out = os.path.join(tmp, "long.out%d" % c)
            try:
                with watchdog(120):
                    tool("realign", gaf=gaf, graph=gfa, fasta=fa, output=out, cores=c)
                outs[c] = open(out).read().splitlines()
            except BaseException as e:  # noqa
                outs[c] = "crash: %s: %s" % (type(e).__name__, e)
        ck.count("long-records:%s" % tag)
        ck.case({"long": tag}, True)
        replay = {"shape": tag, "batch_size": bs, "cores": cores, "records": ["long read, short alignment" if k == "partial" else "> 60 000 read bases" if k else "ordinary" for k in kinds],
                  "outputs": {str(c): (o if isinstance(o, str) else [l[:80] for l in o]) for c, o in outs.items()}}
        for c, o in outs.items():
            if isinstance(o, str):
                ck.violation("realign failed on a file with records of more than 60 000 read bases (%s, cores=%d): %s" % (tag, c, o), replay)
                break
            names = [l.split("\t")[0] for l in o]
            if names != ["lr%d" % i for i in range(len(kinds))]:
                ck.violation("realign does not write one record per input record in input order when records of more than 60 000 read bases are present (%s, cores=%d): wrote %s" % (tag, c, names), replay)
                break
        else:
            if len({tuple(o) for o in outs.values()}) != 1:
                ck.violation("realign output with %d cores differs from the single-core output (%s)" % (cores, tag), replay)


def real_runs(ck, prop, tmp, inputs, n):
    """supporting evidence with the REAL multiprocessing: workers sleep at random (C11) or one worker dies at a chosen point by
    os._exit / SIGKILL / an uncaught exception (C13); a watchdog turns a hang into a violation"""
    import random
    import signal
    import time
    import multiprocessing
    import gaftools.cli.realign as R
    rng = ck.rng
    orig = getattr(R, "wfa_alignment", None)
    if orig is None:          # the worker function is an internal of the tool: without it no fault can be injected
        ck.count("worker-function-absent")
        return

    class Watchdog(Exception):
        pass

    def on_alarm(*a):
        raise Watchdog()

    for it in range(n):
        if len(ck.violations) > 2:
            break
        nrec = rng.choice([3, 4, 5])
        bs = rng.choice([1, 2])
        cores = rng.choice([1, 2, 3])
        if prop == "C13" and it == 0:
            nrec, bs, cores = 4, 2, 2        # two workers in one round: the victim of the first run dies at once, holding the lock
        gaf, fasta, ref = inputs[nrec]
        death = None
        if prop == "C13":
            # "sigkill-holding-lock": the worker is killed while it holds the write lock of the shared result queue, i.e. in the
            # middle of delivering a result (K3): the surviving workers then block for ever when they deliver theirs
            death = {"first_prio": rng.randrange(0, nrec, bs), "k": rng.randint(0, bs + 1),
                     "mode": "sigkill-holding-lock" if it == 0 else rng.choice(["exit9", "sigkill", "exception", "sigkill-holding-lock"])}
            if it == 0:
                death.update(first_prio=0, k=0)
        seed = rng.randrange(1 << 30)

        def wrapped(seq_batch, qu, death=death, seed=seed):
            r = random.Random(seed + seq_batch[0][3])

            class Q:
                n = 0

                def put(self, x):
                    if death and seq_batch[0][3] == death["first_prio"] and Q.n == death["k"]:
                        if death["mode"] == "exit9":
                            os._exit(9)
                        if death["mode"] == "sigkill":
                            os.kill(os.getpid(), signal.SIGKILL)
                        if death["mode"] == "sigkill-holding-lock":
                            qu._wlock.acquire()
                            os.kill(os.getpid(), signal.SIGKILL)
                        sys.stderr = open(os.devnull, "w")     # the child's traceback is not interesting
                        raise RuntimeError("injected")
                    Q.n += 1
                    if death and death["mode"] == "sigkill-holding-lock" and Q.n == 1:
                        time.sleep(0.4)     # a survivor delivers its first result only after the victim has died
                    time.sleep(r.choice([0, 0, 0.01, 0.15]))
                    qu.put(x)
            return orig(seq_batch, Q())
        R.wfa_alignment = wrapped
        os.environ["GAFTOOLS_VERIF_BATCH_SIZE"] = str(bs)
        out = io.StringIO()
        old = signal.signal(signal.SIGALRM, on_alarm)
        signal.alarm(40)
        try:
            R.realign_gaf(gaf, DATA + "smallgraph.gfa", fasta, out, cores)
            res = ("ok", None)
        except SystemExit as e:
            res = ("exit", e.code)
        except Watchdog:
            res = ("hang", None)
        except BaseException as e:  # noqa
            res = ("crash", type(e).__name__ + ": " + str(e)[:200])
        finally:
            signal.alarm(0)
            signal.signal(signal.SIGALRM, old)
            R.wfa_alignment = orig
            for ch in multiprocessing.active_children():
                ch.kill()
        lines = out.getvalue().splitlines()
        meta = {"real_processes": True, "records": nrec, "batch": bs, "cores": cores, "death": death, "result": list(res), "output": [l.split("\t")[0] for l in lines]}
        ck.case(meta, True, sample=meta if it < 1 else None)
        ck.count("real:" + res[0] + (str(res[1]) if res[0] == "exit" else ""))
        if res[0] == "hang":
            ck.violation("realign (real processes) did not finish within 40 s", meta)
        elif res[0] == "crash":
            ck.violation("realign (real processes) crashed: %s" % res[1], meta)
        elif res[0] == "ok" and lines != ref:
            ck.violation("realign (real processes) reported success for an output that is not the single-core file", meta)
        elif res[0] == "exit" and (death is None or res[1] in (0, None)):
            ck.violation("realign (real processes) exited with status %r%s" % (res[1], "" if death else " without any worker failure"), meta)
    os.environ.pop("GAFTOOLS_VERIF_BATCH_SIZE", None)


def default_batch_runs(ck, tmp, cores_list):
    """the tool's own batch size (a thousand records) with the real multiprocessing: 1 500 records, i.e. one full batch and a
    partial one collected in the same round; the file must be the single-core file"""
    import gaftools.cli.realign as R
    os.environ.pop("GAFTOOLS_VERIF_BATCH_SIZE", None)
    gaf, fasta = make_input(tmp, 1500)
    ref = reference(gaf, fasta, tmp)
    for cores in cores_list:
        out = io.StringIO()
        try:
            with watchdog(300):
                R.realign_gaf(gaf, DATA + "smallgraph.gfa", fasta, out, cores)
            res = ("ok", None)
        except SystemExit as e:
            res = ("exit", e.code)
        except BaseException as e:  # noqa
            res = ("crash", type(e).__name__ + ": " + str(e)[:200])
        lines = out.getvalue().splitlines()
        meta = {"real_processes": True, "records": 1500, "batch": "default", "cores": cores, "result": list(res)}
        ck.case(meta, True, sample=meta)
        ck.count("default-batch:" + res[0])
        if res[0] != "ok":
            ck.violation("realign with the default batch size failed without any worker failure: %s" % (res[1],), meta)
        elif lines != ref:
            first = next((i for i, (a, b) in enumerate(zip(lines, ref)) if a != b), min(len(lines), len(ref)))
            ck.violation("realign --cores %d on 1500 records (default batch size) does not write the single-core file (%d vs %d records; first difference at record %d)" % (
                cores, len(lines), len(ref), first), dict(meta, got=[l.split("\t")[0] for l in lines[max(0, first - 2):first + 3]], expected=[l.split("\t")[0] for l in ref[max(0, first - 2):first + 3]]))


def main_c12():
    ck = Check("C12")
    ck.trusted = ["Lean 4.33.0 kernel", "axioms: propext, Classical.choice, Quot.sound (audited)", "correspondence harness + JSON driver",
                  "WFA2-lib / pywfa (foreign code): AlignerContract is a hypothesis of realign_record, monitored on every case by the proved checker",
                  "pysam.FastaFile.fetch = slice of the named read; real multiprocessing for these runs"]
    ck.assumptions = ["AlignerContract: the aligner returns a valid, cost-optimal end-to-end alignment (monitored, not proved)",
                      "cost comparison with the input CIGAR only when the input CIGAR is itself a valid alignment of the two slices"]
    ck.canon = ["log output ignored"]
    ck.lean_build(["Gaftools.Props.C12", "Gaftools.Props.C12b", "Gaftools.Props.TieA2", "Gaftools.Props.TieA19"])
    ck.audit("C12.lean")
    tmp = tempfile.mkdtemp(prefix="gtv-c12-")
    try:
        c12(ck, tmp)
    finally:
        shutil.rmtree(tmp, ignore_errors=True)
    ck.rule = "random rGFAs with sequences x walks (forward/reverse steps, offsets anywhere or on node boundaries) x reads derived by substitutions/insertions/deletions at rates 0-15% with indels up to 60 and fragmented true CIGARs; one > 60 000-base record, one of exactly 60 000 bases (input CIGAR in 'M' form), one with read > 60 000 >= path slice and one with read <= 60 000 < path slice every sixth file; cores 1-2, batch sizes 2/3/1000, plain/BGZF; non-trivial = the read differs from the path slice or the path has a reverse step"
    return ck.finish()


def main(prop):
    if prop == "C12":
        return main_c12()
    ck = Check(prop)
    ck.trusted = ["Lean 4.33.0 kernel", "axioms: propext, Classical.choice, Quot.sound (audited)", "correspondence harness + JSON driver",
                  "harness/fakemp.py: the scripted multiprocessing stand-in (Queue FIFO, get(timeout) raises Empty only when nothing is readable, exit 0 implies flushed feeder, channel operations atomic w.r.t. death)",
                  "CPython multiprocessing / OS scheduler themselves (the model contains every interleaving of the protocol, not e.g. a lock held by a killed process)"]
    ck.assumptions = ["mp.Queue is FIFO per producer and get(timeout) raises Empty only when nothing is readable",
                      "a process that exits with status 0 has flushed everything it put",
                      "put/flush/get are atomic with respect to a worker's death (a kill inside a pipe write is outside the model)"]
    ck.canon = ["records identified by read name", "log output ignored"]
    ck.lean_build(["Gaftools.Props.C11b", "Gaftools.Props.TieA3", "Gaftools.Props.TieA18"])
    ck.audit("%s.lean" % prop)
    import gaftools.cli.realign as R
    tmp = tempfile.mkdtemp(prefix="gtv-realign-")
    quick = ck.tier == "quick"
    death = prop == "C13"
    try:
        # (records, batch size, cores): the first two are explored exhaustively - (2,1,2) runs the in-loop collector (a full group of
        # `cores` batches), (2,1,3) the second copy of the collector after the loop ("leftover batches") with two workers
        configs = [(2, 1, 2), (2, 1, 3), (3, 1, 3), (4, 2, 2), (5, 2, 2), (3, 1, 2), (5, 2, 4), (3, 1, 4)]
        inputs = {}
        for nrec, bs, cores in configs:
            if nrec not in inputs:
                gaf, fasta = make_input(tmp, nrec)
                inputs[nrec] = (gaf, fasta, reference(gaf, fasta, tmp))
                if isinstance(inputs[nrec][2], str):
                    ck.violation("realign with one core and real processes on %d fault-free records: %s" % (nrec, inputs[nrec][2]),
                                 {"records": nrec, "cores": 1, "outcome": inputs[nrec][2]})
                    return ck.finish()
        # 1. exhaustive: every schedule (stutter-reduced) of 2 workers x 1 record, for both copies of the collector loop
        limit = 6000 if quick else 100000
        scopes = []
        all_exhausted = True
        for nrec, bs, cores in configs[:2]:
            os.environ["GAFTOOLS_VERIF_BATCH_SIZE"] = str(bs)
            gaf, fasta, ref = inputs[nrec]
            stack = [[]]
            n = 0
            while stack and n < limit:
                prefix = stack.pop()
                ch = fakemp.Chooser(prefix)
                res, lines, world = one_schedule(R, gaf, fasta, cores, ch, death)
                n += 1
                judge(ck, prop, res, lines, world, ref, {"records": nrec, "batch": bs, "cores": cores, "choices": ch.trace})
                for pos in range(len(prefix), len(ch.trace)):
                    for alt in range(ch.trace[pos] + 1, ch.arity[pos]):
                        stack.append(ch.trace[:pos] + [alt])
                if ck.violations:
                    break
            all_exhausted = all_exhausted and not stack
            scopes.append("%s collector, 2 workers x 1 record%s: %d schedules, %s" % (
                "in-loop" if cores == 2 else "leftover", " with at most one worker death at any point" if death else "", n,
                "exhausted" if not stack else "cut at the tier's limit"))
        ck.exhaustive = all_exhausted
        ck.extra["exhaustive_scope"] = scopes
        # 2. random larger schedules
        nrand = 150 if quick else 6000
        for it in range(nrand):
            nrec, bs, cores = ck.rng.choice(configs[2:])
            os.environ["GAFTOOLS_VERIF_BATCH_SIZE"] = str(bs)
            gaf, fasta, ref = inputs[nrec]
            ch = fakemp.Chooser(rng=ck.rng)
            codes = (-9, 1, -11) if death else (-9,)
            exc = death and ck.rng.random() < 0.35     # the death of this run is an exception inside the worker function
            res, lines, world = one_schedule(R, gaf, fasta, cores, ch, death and not exc and ck.rng.random() < 0.8, death_codes=codes, allow_exc=exc)
            judge(ck, prop, res, lines, world, ref, {"records": nrec, "batch": bs, "cores": cores, "choices": ch.trace})
            if len(ck.violations) > 5:
                break
        flush_model(ck)
        # the runs with real processes are slow when the tool hangs (every hang costs a watchdog period): they are skipped once
        # a failing input has been found
        if not ck.violations:
            real_runs(ck, prop, tmp, inputs, 4 if quick else 40)
        if prop == "C11" and not ck.violations:
            default_batch_runs(ck, tmp, [2] if quick else [2, 3, 4])
        if prop == "C11" and not ck.violations:
            long_record_runs(ck, tmp)
    finally:
        os.environ.pop("GAFTOOLS_VERIF_BATCH_SIZE", None)
        shutil.rmtree(tmp, ignore_errors=True)
    ck.rule = ("schedules of the real realign_gaf through the scripted multiprocessing: exhaustive DFS over all interleavings of 2 workers x 1 record, plus random schedules of 2-3 workers, 1-2 records per batch, 1-2 groups; "
               + ("non-trivial = the schedule contains a worker death" if death else "non-trivial = a queue timeout occurs while results are still in flight (no death)"))
    return ck.finish()


if __name__ == "__main__":
    prop = sys.argv[1]
    run_check(lambda: main(prop), prop)
