"""C17 — results do not depend on input compression: every sub-command under {plain, BGZF} GAF x {plain, gzip} graph."""
import glob
import os
import re
import pickle
import shutil
import sys
import tempfile

from core import tool, Check, run_check
import gen


def build_inputs(rng, tmp, nrec, with_reads=False, empty_line=False):
    g = gen.rgfa(rng, max_ref=2, max_ref_segs=7, maxlen=(30 if with_reads else 6))
    for k, s in enumerate(g.segs):
        s["BO"], s["NO"] = (k, 0) if s["SR"] == 0 else (k, 1)
        if rng.random() < 0.05:
            s["BO"], s["NO"] = -1, -1
    adj = g.adjacency()
    seqd = g.seqd()
    lines, reads = [], []
    for k in range(nrec):
        w = gen.walk(rng, g, adj, maxsteps=4)
        if len({g.seg(n)["SN"] for n, o in w if g.seg(n)["SR"] == 0}) > 1:
            continue
        if with_reads:
            pseq = "".join(seqd[n] if o == "+" else gen.rc(seqd[n]) for n, o in w)
            a = rng.randrange(0, len(pseq))
            b = rng.randrange(a + 1, len(pseq) + 1)
            q = pseq[a:b]
            name = "rd%d" % k
            reads.append(">%s\n%s\n" % (name, q))
            lines.append(gen.gaf_record(name, len(q), 0, len(q), "+", gen.path_str(w), len(pseq), a, b, len(q), len(q), 60,
                                        ["tp:A:P", "cg:Z:%d=" % len(q), "zz:Z:" + "x" * rng.randint(0, 40)]))
        else:
            pad = ["zz:Z:" + "pad" * rng.randint(0, 60)]
            tags = gen.rand_tags(rng, cigar="5=") + pad
            r = rng.random()
            if r < 0.08:
                tags.append("co:Z:free text ending in a blank ")     # valid Z value; the line then ends in a blank
            elif r < 0.12:
                tags.append("tp:A:P ")                               # stray blank after the last field
            # a few read names with multi-byte UTF-8 characters: characters != bytes in the plain file
            name = ("Zo\u00eb_q%d" if rng.random() < 0.02 else "q%d") % k
            lines.append(gen.walk_record(rng, g, w, name, tags=tags))
    if rng.random() < 0.7:
        lines = align_records(lines)
    text = "".join(l + "\n" for l in lines)
    gtext = g.text()
    if empty_line:
        # an empty line between the S block and the L block (the plain reader skips it; a compressed reader must too)
        gl = gtext.split("\n")
        k = next((i for i, l in enumerate(gl) if l.startswith("L")), len(gl) // 2)
        gtext = "\n".join(gl[:k] + [""] + gl[k:])
    p = {"gaf": os.path.join(tmp, "a.gaf"), "gafz": os.path.join(tmp, "b.gaf.gz"), "gfa": os.path.join(tmp, "g.gfa"), "gfaz": os.path.join(tmp, "h.gfa.gz")}
    gen.write_text(p["gaf"], text)
    gen.write_bgzf(p["gafz"], text)          # default block size: > 64 KiB of text gives several blocks
    gen.write_text(p["gfa"], gtext)
    # the compressed copy of the graph: an ordinary gzip file, or one of several members (bgzip output / concatenated gzip files)
    if rng.random() < 0.5:
        gen.write_gzip(p["gfaz"], gtext)
    else:
        gen.write_gzip_multi(p["gfaz"], gtext, members=rng.choice([2, 3, 5]))
    if with_reads:
        p["fa"] = os.path.join(tmp, "r.fa")
        gen.write_text(p["fa"], "".join(reads))
    nblocks = count_bgzf_blocks(p["gafz"])
    return g, lines, p, nblocks


def align_records(lines):
    """pad `zz:Z:` values so that some records START exactly at an uncompressed offset that is a multiple of 65536 (a natural read
    chunk) or of 65280 (the payload of a full BGZF block): boundaries that random line lengths hit only once in a hundred files"""
    total = sum(len(l.encode()) + 1 for l in lines)
    targets = sorted({k * 65536 for k in range(1, total // 65536 + 1)} | {k * 65280 for k in range(1, total // 65280 + 1)})
    out = list(lines)
    for B in targets:
        pos, i_best = 0, None
        for i, l in enumerate(out):
            pos += len(l.encode()) + 1
            if pos <= B:
                i_best, end_best = i, pos
            else:
                break
        if i_best is None or i_best + 1 >= len(out):
            continue
        delta = B - end_best
        f = out[i_best].split("\t")
        for j, x in enumerate(f):
            if x.startswith("zz:Z:"):
                f[j] = x + "p" * delta
                out[i_best] = "\t".join(f)
                gen.QUIRKS["record-aligned-at-%d" % (65536 if B % 65536 == 0 else 65280)] = gen.QUIRKS.get("record-aligned-at-%d" % (65536 if B % 65536 == 0 else 65280), 0) + 1
                break
    return out


def bgzf_model_check(ck, path, lines, tag):
    """the byte-level file model (Model/Bgzf.lean, theorems of Props/C17b.lean) against htslib: the block layout is parsed from the
    gzip headers by the harness, `tell()` before every record comes from pysam; the model must resolve each virtual offset to the
    start of that record in the uncompressed stream (and, for small files, read that record there)"""
    layout = gen.bgzf_layout(path)
    offs, raw = gen.record_offsets(path)
    total = sum(len(p) for _, p in layout)
    small = total <= 40000
    blocks = [[a, len(p), p.hex() if small else None] for a, p in layout]
    r = ck.driver([{"op": "bgzf.resolve", "blocks": blocks, "with_data": small, "voffs": offs}])[0]
    starts, pos = [], 0
    raw = [l if l.endswith("\n") else l + "\n" for l in raw]      # pysam's BGZF readline returns the line without its newline
    for l in raw:
        starts.append(pos)
        pos += len(l.encode())
    ck.count("bgzf-model:%s" % tag)
    ck.count("bgzf-model:blocks:%s" % ("1" if len(layout) <= 2 else "2-5" if len(layout) <= 6 else "6+"))
    if any(len(p) == 0 for _, p in layout[:-1]):
        ck.count("bgzf-model:empty-block-inside")
    bound = {a + 0 for a, _ in layout}
    if any((o >> 16) in bound and (o & 0xFFFF) == 0 and i > 0 for i, o in enumerate(offs)):
        ck.count("bgzf-model:record-starts-a-block")
    replay = {"file": os.path.basename(path), "blocks": [[a, len(p)] for a, p in layout][:50], "voffs": offs[:50], "starts": starts[:50]}
    if not r["wf"] or r["total"] != pos:
        ck.disagreement("BGZF layout parsed from the file is not well-formed for the model / stream length differs", replay)
        return
    got = [x["pos"] for x in r["results"]]
    if got != starts:
        bad = [i for i, (g, s) in enumerate(zip(got, starts)) if g != s][:5]
        ck.disagreement("pysam's tell() before record i does not resolve, in the model, to the start of record i (records %s)" % bad, dict(replay, model=got[:50]))
        return
    # the driver renders every byte as one character (Latin-1): compare as bytes
    if small and [None if x["line"] is None else x["line"].encode("latin-1") for x in r["results"]] != [l.encode() for l in raw]:
        ck.disagreement("the model's seek+readline at pysam's offsets does not return the records", replay)


def big_selection_case(ck, rng, tmp):
    """more than ten thousand records selected by one `view --node` query (beyond any plausible switch to a bulk-reading path),
    from a plain GAF and from its multi-block BGZF copy: the same records, all of them, in file order"""
    g = gen.rgfa(rng, max_ref_segs=5)
    adj = g.adjacency()
    target = rng.choice(g.segs)["id"]
    lines = []
    n = rng.randint(11000, 12500)
    for k in range(n):
        if rng.random() < 0.97:
            w = [(target, rng.choice("+-"))]
        else:
            w = gen.walk(rng, g, adj, maxsteps=3)
        lines.append(gen.walk_record(rng, g, w, "b%d" % k, tags=["tp:A:P", "cg:Z:3="]))
    expected = [l.split("\t")[0] for l in lines if target in re.findall(r"[<>]([^<>]+)", l.split("\t")[5])]
    gfa = os.path.join(tmp, "big.gfa")
    gen.write_text(gfa, g.text())
    text = "".join(l + "\n" for l in lines)
    res = {}
    for kind in ("plain", "bgzf"):
        gaf = os.path.join(tmp, "big.gaf" + (".gz" if kind == "bgzf" else ""))
        (gen.write_bgzf if kind == "bgzf" else gen.write_text)(gaf, text)
        out = os.path.join(tmp, "big.out")
        try:
            tool("index", gaf_path=gaf, gfa_path=gfa)
            tool("view", allow_stdout=True, gaf_path=gaf, gfa=gfa, output=out, nodes=[target])
            res[kind] = [l.split("\t")[0] for l in open(out).read().splitlines()]
        except BaseException as e:  # noqa
            res[kind] = "crash:%s:%s" % (type(e).__name__, str(e)[:100])
        for f in (gaf, gaf + ".gvi"):
            if os.path.exists(f):
                os.remove(f)
    ck.count("big-selection")
    ck.case({"big": n}, True)
    replay = {"records": n, "node": target, "expected": len(expected),
              "got": {k: (v if isinstance(v, str) else len(v)) for k, v in res.items()}, "gfa": g.text()[:2000]}
    if res["plain"] != res["bgzf"]:
        ck.violation("view --node selecting %d records gives a different result for the BGZF copy than for the plain file" % len(expected), replay)
    elif res["plain"] != expected:
        ck.violation("view --node selecting more than ten thousand records does not return exactly the records traversing the node, in file order", replay)


def empty_gaf_case(ck, rng, tmp):
    """a GAF without any record, as a 0-byte plain file and as its BGZF copy (only the end-of-file block): every sub-command that
    takes a GAF must behave the same way on both (the same output, or the same kind of failure)"""
    g = gen.rgfa(rng, max_ref_segs=4)
    gfa = os.path.join(tmp, "e.gfa")
    gen.write_text(gfa, g.text())
    tsv = os.path.join(tmp, "e.tsv")
    gen.write_text(tsv, "r1\tH1\t5\tchr1\n")
    files = {"plain": os.path.join(tmp, "e.gaf"), "bgzf": os.path.join(tmp, "e.gaf.gz")}
    with open(files["plain"], "w"):
        pass
    gen.write_bgzf(files["bgzf"], "")
    out = os.path.join(tmp, "e.out")
    res = {}
    for kind, gaf in files.items():
        r = {}

        def guard(name, fn):
            if os.path.exists(out):
                os.remove(out)
            try:
                r[name] = fn()
            except SystemExit as e:
                r[name] = "exit:%s" % (e.code,)
            except BaseException as e:  # noqa
                r[name] = "fails:%s" % type(e).__name__
        rd = lambda: [l for l in open(out).read().splitlines() if l.strip()] if os.path.exists(out) else None
        guard("stat", lambda: (tool("stat", gaf_path=gaf, cigar_stat=True, output=out), rd())[1])
        guard("view-all", lambda: (tool("view", gaf_path=gaf, output=out), rd())[1])
        guard("view-stable", lambda: (tool("view", gaf_path=gaf, gfa=gfa, output=out, format="stable"), rd())[1])
        guard("index", lambda: (tool("index", gaf_path=gaf, gfa_path=gfa), sorted(k for k in pickle.load(open(gaf + ".gvi", "rb")) if k != "ref_contig"))[1])
        guard("sort", lambda: (tool("sort", gfa=gfa, gaf=gaf, outgaf=out), rd())[1])
        guard("phase", lambda: (tool("phase", gaf_file=gaf, tsv_file=tsv, output=out), rd())[1])
        res[kind] = r
    ck.count("empty-gaf")
    ck.case({"empty": True}, True)
    for cmd in res["plain"]:
        a, b = res["plain"][cmd], res["bgzf"][cmd]
        ck.count("empty-gaf:%s:%s" % (cmd, "fails-both" if str(a).startswith(("fails", "exit")) and str(b).startswith(("fails", "exit")) else "ok"))
        if a != b:
            ck.violation("%s on a GAF without records behaves differently for the plain file (%s) and its BGZF copy (%s)" % (cmd, str(a)[:80], str(b)[:80]),
                         {"command": cmd, "plain": a, "bgzf": b, "gfa": g.text()[:1500]})


def sort_bgzip_index_case(ck, rng, tmp):
    """`sort --bgzip`: the .gsi written next to a multi-block BGZF output must resolve to the same records (first and last record
    of every contig) as the .gsi of the plain output of the same sort - with the last record of the first contig placed across a
    BGZF block boundary, where a virtual offset is not a byte count"""
    import p_sort
    g = p_sort.bo_graph(rng)
    adj = g.adjacency()
    lines = []
    for k in range(900):
        w = gen.walk(rng, g, adj, maxsteps=5)
        if len({g.seg(nm)["SN"] for nm, o in w if g.seg(nm)["SR"] == 0}) > 1:
            continue
        lines.append(gen.walk_record(rng, g, w, "r%d" % k, canonical=False) + "\tzz:Z:" + "pad" * rng.randint(20, 50))
    gfa_text = g.text(with_seq=False)
    runner = p_sort.SortRun(tmp)
    lines = p_sort.straddle_contig_end(ck, runner, gfa_text, lines, 0, None)
    res = {}
    for kind, bg_out in (("plain", 0), ("bgzip", 1)):
        obs = runner.run(gfa_text, lines, 0, bg_out, None)
        if obs.get("outcome") != "ok":
            res[kind] = "fails:%s" % obs.get("exc", obs.get("outcome"))
        else:
            ords, bad = p_sort.gsi_ordinals(obs)
            res[kind] = bad[0] if bad else sorted(ords)
    ck.count("sort-bgzip-index")
    ck.case({"sort-bgzip-index": len(lines)}, True)
    if res["plain"] != res["bgzip"]:
        ck.violation("the .gsi of `sort --bgzip` does not resolve to the same first/last records per contig as the .gsi of the plain output",
                     {"plain": res["plain"], "bgzip": res["bgzip"], "records": len(lines), "gfa": gfa_text[:1500]})


def count_bgzf_blocks(path):
    offs, _ = gen.record_offsets(path)
    return len({o >> 16 for o in offs})


def ordinals(path, offsets):
    offs, _ = gen.record_offsets(path)
    pos = {o: i for i, o in enumerate(offs)}
    return [pos.get(o, -1) for o in offsets]


def run_all(p, gaf_key, gfa_key, g, lines, rng_choices, tmp):
    """every sub-command once; returns a dict of canonical results"""
    from gaftools.cli import index, view, sort as gsort, stat, phase, find_path, order_gfa, CommandLineError
    from gaftools.cli.realign import run_realign
    gaf, gfa = p[gaf_key], p[gfa_key]
    res = {}

    def guard(name, fn):
        try:
            res[name] = fn()
        except CommandLineError:
            res[name] = "none"
        except BaseException as e:  # noqa
            res[name] = "crash:%s:%s" % (type(e).__name__, str(e)[:120])
    out = os.path.join(tmp, "o.txt")

    def do_index():
        idx = gaf + ".gvi"
        if os.path.exists(idx):
            os.remove(idx)
        tool("index", gaf_path=gaf, gfa_path=gfa)
        d = pickle.load(open(idx, "rb"))
        return sorted((k, ordinals(gaf, v)) for k, v in d.items() if k != "ref_contig")
    guard("index", do_index)
    nodes, region = rng_choices
    guard("view-nodes", lambda: (tool("view", allow_stdout=True, gaf_path=gaf, gfa=gfa, output=out, nodes=nodes), open(out).read())[1])
    guard("view-region", lambda: (tool("view", allow_stdout=True, gaf_path=gaf, gfa=gfa, output=out, regions=[region]), open(out).read())[1])
    guard("view-stable", lambda: (tool("view", allow_stdout=True, gaf_path=gaf, gfa=gfa, output=out, format="stable"), open(out).read())[1])
    guard("view-all", lambda: (tool("view", allow_stdout=True, gaf_path=gaf, output=out), open(out).read())[1])

    def do_sort():
        o = os.path.join(tmp, "s.gaf")
        for f in (o, o + ".gsi"):
            if os.path.exists(f):
                os.remove(f)
        tool("sort", gfa=gfa, gaf=gaf, outgaf=o)
        d = pickle.load(open(o + ".gsi", "rb"))
        return open(o).read(), sorted((k, ordinals(o, v)) for k, v in d.items())
    guard("sort", do_sort)
    # the report's figures: blank lines are dropped (one of them is printed to standard output whatever --output says)
    guard("stat", lambda: (tool("stat", allow_stdout=True, gaf_path=gaf, cigar_stat=True, output=out), [l for l in open(out).read().splitlines() if l.strip()])[1])

    def do_phase():
        tsv = os.path.join(tmp, "p.tsv")
        gen.write_text(tsv, "".join("%s\tH%d\t%d\tchr1\n" % (l.split("\t")[0], 1 + i % 2, 100 + i) for i, l in enumerate(lines[::3])))
        tool("phase", allow_stdout=True, gaf_file=gaf, tsv_file=tsv, output=out)
        return open(out).read()
    guard("phase", do_phase)
    if "fa" in p:
        guard("realign", lambda: (tool("realign", gaf=gaf, graph=gfa, fasta=p["fa"], output=out, cores=1), open(out).read())[1])
    path = lines[0].split("\t")[5]
    guard("find_path", lambda: (tool("find_path", allow_stdout=True, gfa_path=gfa, input_path=path, output=out, fasta=True), open(out).read())[1])

    def do_order():
        od = os.path.join(tmp, "ord")
        shutil.rmtree(od, ignore_errors=True)
        names = sorted({s["SN"] for s in g.segs if s["SR"] == 0})
        try:
            tool("order_gfa", gfa_filename=gfa, outdir=od, by_chrom=True, chromosome_order=",".join(names), with_sequence=True)
        except SystemExit as e:
            return "exit:%s" % e.code
        return sorted((os.path.basename(f).split("-", 1)[1].rsplit(".", 1), open(f).read()) for f in glob.glob(od + "/*"))
    guard("order_gfa", do_order)
    return res


def main():
    ck = Check("C17")
    ck.trusted = ["Lean 4.33.0 kernel", "axioms: propext, Classical.choice, Quot.sound (audited)",
                  "htslib/pysam BGZF reader (tell/seek/readline), zlib/gzip.open: foreign code, assumed to implement the interface (strictly increasing offsets, seek returns the record); checked by this correspondence only"]
    ck.assumptions = ["pysam.libcbgzf.BGZFile and gzip.open return the same bytes as the plain file; tell() before a record is strictly increasing; seek(tell()) returns that record"]
    ck.canon = ["index / .gsi offsets resolved to record ordinals per file before comparing", "stat report compared without blank lines", "order_gfa outputs keyed by chromosome (the CSV file name differs for a .gfa.gz input: contents compared)"]
    ck.lean_build(["Gaftools.Props.C17", "Gaftools.Props.C17b", "Gaftools.Props.Cli", "Gaftools.Props.TieA7", "Gaftools.Props.TieA26"])
    ck.audit("C17.lean")
    rng = ck.rng
    quick = ck.tier == "quick"
    tmp = tempfile.mkdtemp(prefix="gtv-c17-")
    try:
        for it in range(3 if quick else 20):
            with_reads = it % 3 == 2
            nrec = 200 if with_reads else (1500 if it % 3 == 0 else 60)
            g, lines, p, nblocks = build_inputs(rng, tmp, nrec, with_reads, empty_line=(it % 3 == 1))
            if it % 3 == 1:
                ck.count("graph-file-with-an-empty-line")
            ids = [s["id"] for s in g.segs]
            s0 = rng.choice([s for s in g.segs if s["SR"] == 0])
            choices = ([rng.choice(ids) for _ in range(3)], "%s:%d-%d" % (s0["SN"], s0["SO"], s0["SO"] + len(s0["seq"]) + 2))
            base = run_all(p, "gaf", "gfa", g, lines, choices, tmp)
            for gk, fk in (("gafz", "gfa"), ("gaf", "gfaz"), ("gafz", "gfaz")):
                other = run_all(p, gk, fk, g, lines, choices, tmp)
                for cmd in base:
                    ck.case({"it": it, "cmd": cmd, "cfg": [gk, fk]}, nblocks >= 2 or fk == "gfaz",
                            sample={"command": cmd, "gaf": gk, "graph": fk, "records": len(lines), "bgzf_blocks": nblocks} if cmd == "index" else None)
                    ck.count("%s/%s" % ("bgzf" if gk == "gafz" else "plain", "gzip" if fk == "gfaz" else "plain"))
                    if str(base[cmd]).startswith("crash") and str(other[cmd]).startswith("crash"):
                        ck.count("both-crash:" + cmd)
                        continue
                    if base[cmd] != other[cmd]:
                        ck.violation("%s gives a different result for GAF=%s graph=%s than for plain inputs" % (cmd, gk, fk),
                                     {"command": cmd, "records": len(lines), "plain": str(base[cmd])[:1500], "other": str(other[cmd])[:1500],
                                      "gfa": open(p["gfa"]).read()[:3000], "gaf_head": lines[:5]})
            ck.count("bgzf-blocks:%d" % min(nblocks, 4))
            # the byte-level file model against htslib: the file as written above, and the same text in small flushed blocks
            # (records straddling blocks, blocks ending exactly at a record boundary, empty blocks)
            bgzf_model_check(ck, p["gafz"], lines, "default-blocks")
            small = os.path.join(tmp, "small.gaf.gz")
            for blk in (rng.choice([97, 150, 400]), None):
                sub = lines[:rng.randint(20, 120)]
                text = "".join(l + "\n" for l in sub)
                if blk is None:
                    # blocks cut exactly at record boundaries, with an empty block (a flush without data) in between
                    from pysam import libcbgzf
                    f = libcbgzf.BGZFile(small, "wb")
                    for k, l in enumerate(sub):
                        f.write((l + "\n").encode())
                        if k % 7 == 3:
                            f.flush()
                        if k % 21 == 3:
                            f.flush()
                    f.close()
                else:
                    gen.write_bgzf(small, text, block=blk)
                bgzf_model_check(ck, small, sub, "small-blocks" if blk else "blocks-at-record-boundaries")
        for _ in range(1 if quick else 4):
            big_selection_case(ck, rng, tmp)
        empty_gaf_case(ck, rng, tmp)
        sort_bgzip_index_case(ck, rng, tmp)
        # the command-line layer every sub-command is reached through (argparse tables, validate, dispatch, exit statuses):
        # Model/Cli.lean, theorems Props/Cli.lean (Audit/C17_extra.lean), compared with the real gaftools.__main__.main
        import p_cli
        p_cli.cli_check(ck, tmp, 3000 if quick else 30000)
    finally:
        shutil.rmtree(tmp, ignore_errors=True)
    ck.rule = "generated graph + GAF (1500 padded records > 64 KiB = several BGZF blocks; smaller files; one file with reads for realign) run through index, view (nodes/region/format/whole), sort(+.gsi), stat, phase, realign, find_path, order_gfa under the four {plain,BGZF} x {plain,gzip} combinations; non-trivial = GAF of >= 2 BGZF blocks or a gzip-compressed graph"
    return ck.finish()


if __name__ == "__main__":
    run_check(main, "C17")
