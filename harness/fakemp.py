"""A deterministic stand-in for `multiprocessing` that lets a scheduler decide every interleaving of the realign workers
with the collecting parent, while the *real* `realign_gaf` and the *real* `wfa_alignment` run unchanged.

`Process.start()` runs the real worker function against a private list (its messages in program order); afterwards the
scheduler moves messages  todo -> feeder buffer -> pipe  (events wPut / wFlush), lets workers exit or die, and answers the
parent's `Queue.get(timeout)` / `is_alive()` / `exitcode` / `join()` calls.  Every decision is recorded as one event of the
Lean model's alphabet, so the very same event list can be replayed through `Gaftools.Realign.step`.
"""
import queue


class Hang(Exception):
    pass


class Chooser:
    """source of decisions: replay a prefix, then default (index 0) — used for exhaustive DFS — or a random source"""

    def __init__(self, prefix=(), rng=None, weights=None):
        self.prefix = list(prefix)
        self.pos = 0
        self.trace = []
        self.arity = []
        self.rng = rng

    def choose(self, n):
        if n <= 1:
            return 0
        if self.pos < len(self.prefix):
            c = self.prefix[self.pos]
        elif self.rng is not None:
            c = self.rng.randrange(n)
        else:
            c = 0
        self.pos += 1
        self.trace.append(c)
        self.arity.append(n)
        return c


class Group:
    def __init__(self):
        self.procs = []
        self.chan = []
        self.events = []      # model events of this group, in order
        self.idle = 0
        self.snapshot = None  # liveness snapshot taken at pCheck
        self.outcome = None


class World:
    def __init__(self, chooser, allow_death=False, max_deaths=1, max_calls=600, death_codes=(-9,), allow_exc=False):
        self.ch = chooser
        self.groups = []
        self.allow_death = allow_death
        self.deaths = 0
        self.max_deaths = max_deaths
        self.calls = 0
        self.max_calls = max_calls
        self.death_codes = death_codes
        self.allow_exc = allow_exc

    # -- group handling: a new group starts with the first Process created after the previous group was joined
    def cur(self):
        return self.groups[-1]

    def new_proc(self, p):
        if not self.groups or self.groups[-1].outcome == "joined":
            self.groups.append(Group())
        g = self.cur()
        p.index = len(g.procs)
        g.procs.append(p)

    def tick(self):
        self.calls += 1
        if self.calls > self.max_calls:
            raise Hang()

    def worker_moves(self, g):
        opts = []
        for p in g.procs:
            if p.started and p.code is None:
                if p.todo:
                    opts.append(("wPut", p.index))
                if p.buf:
                    opts.append(("wFlush", p.index))
                if not p.todo and not p.buf:
                    opts.append(("wExit", p.index))
                if self.allow_death and self.deaths < self.max_deaths:
                    opts.append(("wDie", p.index))
        return opts

    def apply(self, g, mv):
        kind, i = mv
        p = g.procs[i]
        if kind == "wPut":
            p.buf.append(p.todo.pop(0))
            g.events.append({"e": "wPut", "i": i})
        elif kind == "wFlush":
            g.chan.append(p.buf.pop(0))
            g.events.append({"e": "wFlush", "i": i})
        elif kind == "wExit":
            if getattr(p, "crashed", False):
                # the process ends through the uncaught exception: exit status 1, whatever it had not put is lost
                p.code = 1
                g.events.append({"e": "wDie", "i": i, "code": 1})
            else:
                p.code = 0
                g.events.append({"e": "wExit", "i": i})
        else:
            code = self.death_codes[self.ch.choose(len(self.death_codes))] if len(self.death_codes) > 1 else self.death_codes[0]
            p.lost = p.buf + p.todo
            p.buf, p.todo = [], []
            p.code = code
            self.deaths += 1
            g.events.append({"e": "wDie", "i": i, "code": code})

    def let_workers_run(self, g):
        """workers take steps chosen by the scheduler until it lets the parent act.
        Stutter reduction / fairness: a parent action that observes nothing new may happen only once in a row while a worker can move."""
        took = 0
        while True:
            moves = self.worker_moves(g)
            progress_only = [m for m in moves if m[0] != "wDie"]
            must_move = took == 0 and progress_only and not g.chan and g.idle >= 1
            opts = ([] if must_move else ["parent"]) + moves
            o = opts[self.ch.choose(len(opts))]
            if o == "parent":
                g.idle = g.idle + 1 if took == 0 else 0
                return
            took += 1
            self.apply(g, o)


W = None  # the current World (set by run_with)


class FakeQueue:
    """`mp.Queue()`: one per group in realign_gaf; workers are handed a private recording queue instead"""

    def put(self, x):  # never used by the parent
        raise AssertionError("parent does not put")

    def get(self, timeout=None):
        g = W.cur()
        W.tick()
        g.snapshot = None
        W.let_workers_run(g)
        if g.chan:
            g.events.append({"e": "pGet"})
            g.idle = 0
            return g.chan.pop(0)
        g.events.append({"e": "pTimeout"})
        raise queue.Empty


class InjectedCrash(Exception):
    """an uncaught exception inside the worker function (MemoryError in the aligner, a bad record, ...)"""


class RecQ:
    def __init__(self, crash_at=None):
        self.items = []
        self.crash_at = crash_at

    def put(self, x):
        if self.crash_at is not None and x is not None and len(self.items) == self.crash_at:
            self.crash_at = None
            raise InjectedCrash()
        self.items.append(x)


class FakeProcess:
    def __init__(self, target=None, args=()):
        self.target, self.args = target, args
        self.started = False
        self.code = None
        self.stopped = False
        self.todo, self.buf, self.lost = [], [], []
        self.batch_prios = []       # stays empty for a process that the tool creates but never starts
        W.new_proc(self)

    def start(self):
        # optionally the worker function itself raises at record k (decided by the scheduler; counts as the run's death)
        # the worker's batch: the list of per-record tuples among the arguments; a record's input ordinal is read from its
        # read name ("rd<k>") so that the harness does not depend on where the implementation keeps its priority counter
        batch = next((a for a in self.args if isinstance(a, (list, tuple)) and a and isinstance(a[0], (list, tuple))), [])

        def ordinal(t):
            for x in t:
                nm = getattr(x, "query_name", None)
                if isinstance(nm, str) and nm.startswith("rd") and nm[2:].isdigit():
                    return int(nm[2:])
            return t[3]
        self.batch_prios = [ordinal(t) for t in batch]
        crash_at = None
        if W.allow_exc and W.deaths < W.max_deaths and self.batch_prios:
            c = W.ch.choose(len(self.batch_prios) + 1)
            if c > 0:
                crash_at = c - 1
                W.deaths += 1
        q = RecQ(crash_at)
        self.crashed = False
        try:
            # the real wfa_alignment on this worker's batch, its queue argument replaced by the recording queue
            self.target(*[q if isinstance(a, FakeQueue) else a for a in self.args])
        except InjectedCrash:
            self.crashed = True
        self.todo = q.items
        self.total = list(q.items)
        self.missing = len(self.batch_prios) - len([m for m in q.items if m is not None])
        self.started = True

    def _check(self):
        """one POLL of the parent = one scheduling point (workers may move before it) + one pCheck event + one snapshot of the
        exit codes.  All reads inside one call of a process predicate (one_failed / one_is_alive / all_exited / all_are_alive:
        wrapped by run_with) share the snapshot - a loop over the processes returns what an atomic look at some moment of its
        execution returns, because a worker only ever goes from running to exited; a read outside such a call is a poll of its own.
        Between two polls of one handler run the workers move: the handler is not atomic."""
        g = W.cur()
        if g.snapshot is None:
            W.tick()
            W.let_workers_run(g)
            ev = {"e": "pCheck"}
            if W.poll_name:
                ev["pred"] = W.poll_name
            g.events.append(ev)
            g.snapshot = [p.code for p in g.procs]
        snap = g.snapshot
        if W.poll_name is None:
            g.snapshot = None
        return snap

    def is_alive(self):
        if self.stopped:
            return False
        snap = self._check()
        return self.started and snap[self.index] is None

    @property
    def exitcode(self):
        """what the parent sees at this poll (see _check)"""
        if self.stopped or W.cur().outcome == "joined":
            return self.code
        return self._check()[self.index]

    def kill(self):
        # the parent gives up (after it has seen a failed worker): the remaining workers are stopped; nothing the model observes
        # depends on them any more
        self.stopped = True
        if self.code is None:
            self.code = -9

    terminate = kill

    def join(self):
        g = W.cur()
        # after the loop: the remaining live workers finish; nothing the parent does depends on it any more
        while self.code is None:
            if self.todo:
                W.apply(g, ("wPut", self.index))
            elif self.buf:
                W.apply(g, ("wFlush", self.index))
            else:
                W.apply(g, ("wExit", self.index))
        if all(p.code is not None for p in g.procs):
            g.outcome = "joined"


class FakeMP:
    Queue = FakeQueue
    Process = FakeProcess

    @staticmethod
    def cpu_count():
        return 64


def run_with(realign_module, world, fn):
    """run fn() with `realign_module.mp` replaced by the fake; returns (result kind, payload)"""
    global W
    W = world
    W.poll_name = None
    old = realign_module.mp
    realign_module.mp = FakeMP
    # every call of a process predicate is ONE poll: begin a fresh snapshot, name the poll, end it afterwards
    wrapped = {}

    def wrap(name, pred_fn):
        def poll(*a, **k):
            g = W.cur() if W.groups else None
            if g is not None:
                g.snapshot = None
            W.poll_name = name
            try:
                return pred_fn(*a, **k)
            finally:
                W.poll_name = None
                if W.groups:
                    W.cur().snapshot = None
        return poll
    for name in ("one_failed", "one_is_alive", "all_exited", "all_are_alive"):
        pred = getattr(realign_module, name, None)
        if callable(pred):
            wrapped[name] = pred
            setattr(realign_module, name, wrap(name, pred))
    # exitcode reads in all_exited() must see the same snapshot as is_alive(): wrap through a property-like view
    try:
        fn()
        return ("ok", None)
    except SystemExit as e:
        return ("exit", e.code)
    except Hang:
        return ("hang", None)
    except BaseException as e:  # noqa
        return ("crash", type(e).__name__ + ": " + str(e)[:200])
    finally:
        realign_module.mp = old
        for name, fn in wrapped.items():
            setattr(realign_module, name, fn)
