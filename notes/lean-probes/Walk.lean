-- feasibility probe for C14: adjacency built from L lines answers the path_exists table exactly when the step is joined by a link
structure Link where
  a : String
  da : Bool      -- true = '+'
  b : String
  db : Bool
deriving DecidableEq, Repr

-- E_DIR: ('+','+') -> (1,0); ('+','-') -> (1,1); ('-','+') -> (0,0); ('-','-') -> (0,1)     side: true = end(1), false = start(0)
def eDir (da db : Bool) : Bool × Bool := (da, !db)

/-- adjacency entries contributed by one link: (owner, ownerSide, neighbour, neighbourSide) ; add_edge inserts both -/
def entries (l : Link) : List (String × Bool × String × Bool) :=
  let (s1, s2) := eDir l.da l.db
  [(l.a, s1, l.b, s2), (l.b, s2, l.a, s1)]

def adj (ls : List Link) : List (String × Bool × String × Bool) := ls.flatMap entries

/-- path_exists `cases` table: orientations (true = '>') -> (side of n1 to look in, side of n2 expected) -/
def pathCase (o1 o2 : Bool) : Bool × Bool :=
  match o1, o2 with
  | true,  true  => (true, false)    -- ("end", 0)
  | false, false => (false, true)    -- ("start", 1)
  | true,  false => (true, true)     -- ("end", 1)
  | false, true  => (false, false)   -- ("start", 0)

def stepOk (ls : List Link) (o1 : Bool) (n1 : String) (o2 : Bool) (n2 : String) : Bool :=
  let (s1, s2) := pathCase o1 o2
  (adj ls).any (fun e => e == (n1, s1, n2, s2))

/-- specification on the file: the step is a declared link or the mirror image of one -/
def Joined (ls : List Link) (o1 : Bool) (n1 : String) (o2 : Bool) (n2 : String) : Prop :=
  ∃ l ∈ ls, (l = ⟨n1, o1, n2, o2⟩) ∨ (l = ⟨n2, !o2, n1, !o1⟩)

theorem stepOk_iff (ls : List Link) (o1 o2 : Bool) (n1 n2 : String) :
    stepOk ls o1 n1 o2 n2 = true ↔ Joined ls o1 n1 o2 n2 := by
  unfold stepOk Joined adj
  simp only [List.any_eq_true, List.mem_flatMap, beq_iff_eq]
  constructor
  · rintro ⟨e, ⟨l, hl, he⟩, rfl⟩
    refine ⟨l, hl, ?_⟩
    obtain ⟨a, da, b, db⟩ := l
    cases o1 <;> cases o2 <;> cases da <;> cases db <;> simp_all [entries, eDir, pathCase] <;> grind
  · rintro ⟨l, hl, h | h⟩
    · subst h
      refine ⟨_, ⟨_, hl, ?_⟩, rfl⟩
      cases o1 <;> cases o2 <;> simp [entries, eDir, pathCase]
    · subst h
      refine ⟨_, ⟨_, hl, ?_⟩, rfl⟩
      cases o1 <;> cases o2 <;> simp [entries, eDir, pathCase]

-- reverse walk
theorem joined_rev (ls : List Link) (o1 o2 : Bool) (n1 n2 : String) :
    Joined ls o1 n1 o2 n2 ↔ Joined ls (!o2) n2 (!o1) n1 := by
  unfold Joined
  constructor <;> rintro ⟨l, hl, h | h⟩ <;> refine ⟨l, hl, ?_⟩ <;> simp_all

#print axioms stepOk_iff
