-- probe: BGZF virtual offsets are order-isomorphic to (block address, offset within block)
theorem voffset_eq (c u : Nat) (hu : u < 2^16) : (c <<< 16 ||| u) = c * 65536 + u := by
  rw [← Nat.shiftLeft_add_eq_or_of_lt hu, Nat.shiftLeft_eq]

theorem voffset_lt (c₁ u₁ c₂ u₂ : Nat) (h₁ : u₁ < 2^16) (h₂ : u₂ < 2^16) :
    (c₁ <<< 16 ||| u₁) < (c₂ <<< 16 ||| u₂) ↔ (c₁ < c₂ ∨ (c₁ = c₂ ∧ u₁ < u₂)) := by
  rw [voffset_eq c₁ u₁ h₁, voffset_eq c₂ u₂ h₂]
  have : (2:Nat)^16 = 65536 := by decide
  omega
#print axioms voffset_lt
