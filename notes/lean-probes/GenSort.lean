-- generated from /tmp/gt_scratch/rc/gaftools/cli/sort.py : compare_gaf  (do not edit)
structure Aln where
  offset : Int
  bo : Int
  no : Int
  start : Int
deriving Repr, DecidableEq
namespace Gen
def cmpGaf (al1 al2 : Aln) : Option Int :=
  if ((al1.bo = (-1 : Int)) ∧ (al2.bo = (-1 : Int))) then
    if (al1.offset < al2.offset) then
      some (-1 : Int)
    else
      some (1 : Int)
  else
    if (al1.bo = (-1 : Int)) then
      some (1 : Int)
    else
      if (al2.bo = (-1 : Int)) then
        some (-1 : Int)
      else
        if (al1.bo < al2.bo) then
          some (-1 : Int)
        else
          if (al1.bo > al2.bo) then
            some (1 : Int)
          else
            if (al1.no < al2.no) then
              some (-1 : Int)
            else
              if (al1.no > al2.no) then
                some (1 : Int)
              else
                if (al1.start < al2.start) then
                  some (-1 : Int)
                else
                  if (al1.start > al2.start) then
                    some (1 : Int)
                  else
                    if (al1.offset < al2.offset) then
                      some (-1 : Int)
                    else
                      if (al1.offset > al2.offset) then
                        some (1 : Int)
                      else
                        none
end Gen
