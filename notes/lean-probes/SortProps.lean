import Probe.GenSort
/-- spec order: untagged last (input order among themselves), then BO, NO, start, input position -/
def keyLe (a b : Aln) : Prop :=
  if a.bo = -1 then (b.bo = -1 ∧ a.offset ≤ b.offset)
  else if b.bo = -1 then True
  else a.bo < b.bo ∨ (a.bo = b.bo ∧ (a.no < b.no ∨ (a.no = b.no ∧ (a.start < b.start ∨ (a.start = b.start ∧ a.offset ≤ b.offset)))))

theorem cmp_iff (a b : Aln) (h : a.offset ≠ b.offset) :
    ∃ c, Gen.cmpGaf a b = some c ∧ (c ≤ 0 ↔ keyLe a b) := by
  simp only [Gen.cmpGaf, keyLe]
  repeat' split
  all_goals simp_all
  all_goals omega
#print axioms cmp_iff
