/-! Probe: realign collector protocol as a transition system -/
inductive Msg where
  | item (w : Nat) (prio : Nat)     -- produced by worker w
  | sentinel (w : Nat)
deriving DecidableEq, Repr

def Msg.owner : Msg → Nat
  | .item w _ => w
  | .sentinel w => w

inductive WSt | running | exited (code : Int)
deriving DecidableEq, Repr

structure Worker where
  todo : List Msg
  buf  : List Msg
  st   : WSt
deriving Repr

inductive PC | atGet | afterEmpty | done (ok : Bool) | crashed
deriving DecidableEq, Repr

structure St where
  ws : List Worker
  chan : List Msg
  pc : PC
  last : Option Msg
  nSent : Nat
  got : List Msg
deriving Repr

inductive Ev | wPut (i : Nat) | wFlush (i : Nat) | wExit (i : Nat) | wDie (i : Nat) | pGet | pTimeout | pCheck
deriving Repr

def updW (ws : List Worker) (i : Nat) (f : Worker → Worker) : List Worker :=
  ws.mapIdx (fun j w => if j = i then f w else w)

def process (s : St) (m : Msg) : St :=
  let s' := match m with
    | .sentinel _ => { s with nSent := s.nSent + 1 }
    | .item _ _ => { s with got := s.got ++ [m] }
  if s'.nSent = s'.ws.length then { s' with pc := .done true } else { s' with pc := .atGet }

def anyRunning (s : St) : Bool := s.ws.any (fun w => w.st == .running)
def allZero (s : St) : Bool := s.ws.all (fun w => w.st == .exited 0 || w.st == .running)

/-- `fixed = true` is the repaired loop (continue), `false` the pinned one (fall through with the stale item) -/
def step (fixed : Bool) (s : St) : Ev → St
  | .wPut i => match s.ws[i]? with
      | some ⟨m :: t, b, .running⟩ => { s with ws := updW s.ws i (fun _ => ⟨t, b ++ [m], .running⟩) }
      | _ => s
  | .wFlush i => match s.ws[i]? with
      | some ⟨t, m :: b, .running⟩ => { s with ws := updW s.ws i (fun _ => ⟨t, b, .running⟩), chan := s.chan ++ [m] }
      | _ => s
  | .wExit i => match s.ws[i]? with
      | some ⟨[], [], .running⟩ => { s with ws := updW s.ws i (fun _ => ⟨[], [], .exited 0⟩) }
      | _ => s
  | .wDie i => match s.ws[i]? with
      | some ⟨t, _, .running⟩ => { s with ws := updW s.ws i (fun _ => ⟨t, [], .exited (-9)⟩) }
      | _ => s
  | .pGet => match s.pc, s.chan with
      | .atGet, m :: c => process { s with chan := c, last := some m } m
      | _, _ => s
  | .pTimeout => match s.pc, s.chan with
      | .atGet, [] => { s with pc := .afterEmpty }
      | _, _ => s
  | .pCheck => match s.pc with
      | .afterEmpty =>
          if anyRunning s then { s with pc := .atGet }
          else if !allZero s then { s with pc := .done false }
          else if fixed then { s with pc := .atGet }
          else match s.last with
            | none => { s with pc := .crashed }
            | some m => process s m
      | _ => s

def run (fixed : Bool) (s : St) (es : List Ev) : St := es.foldl (step fixed) s

def init (batches : List (List Nat)) : St :=
  { ws := batches.mapIdx (fun w ps => ⟨ps.map (Msg.item w) ++ [.sentinel w], [], .running⟩),
    chan := [], pc := .atGet, last := none, nSent := 0, got := [] }

-- D17 witness: one worker, two records; item, timeout, worker finishes completely, liveness check
def sched : List Ev := [.wPut 0, .wFlush 0, .pGet, .pTimeout, .wPut 0, .wFlush 0, .wPut 0, .wFlush 0, .wExit 0, .pCheck, .pGet, .pGet]
#eval (run false (init [[0, 1]]) sched).got      -- pinned code: record 0 twice
#eval (run true  (init [[0, 1]]) sched).got      -- repaired: each once
example : (run false (init [[0, 1]]) sched).got = [.item 0 0, .item 0 0, .item 0 1] := by decide
example : (run true (init [[0, 1]]) sched).got = [.item 0 0, .item 0 1] ∧ (run true (init [[0, 1]]) sched).pc = .done true := by decide

/-- per-worker projection of what has been received / is in flight -/
def recvd (s : St) (w : Nat) : List Msg := (s.got.filter (·.owner = w))
def inflight (s : St) (w : Nat) : List Msg := s.chan.filter (·.owner = w)

/-- key safety invariant: nSent counts exactly the workers whose sentinel has been *received*;
    probe of one preservation lemma: worker-side events never change parent-side counters -/
theorem worker_ev_keeps_parent (fixed : Bool) (s : St) (i : Nat) :
    (step fixed s (.wPut i)).nSent = s.nSent ∧ (step fixed s (.wPut i)).got = s.got ∧ (step fixed s (.wPut i)).chan = s.chan := by
  simp only [step]
  split <;> simp
