def revcomp {α} (c : α → α) (x : List α) : List α := (x.map c).reverse
def slice {α} (x : List α) (a b : Nat) : List α := (x.drop a).take (b - a)

theorem slice_revcomp {α} (c : α → α) (x : List α) (a b : Nat) (hab : a ≤ b) (hb : b ≤ x.length) :
    slice (revcomp c x) a b = revcomp c (slice x (x.length - b) (x.length - a)) := by
  unfold slice revcomp
  apply List.ext_getElem
  · simp; omega
  · intro i h1 h2
    simp at h1 h2
    simp only [List.getElem_take, List.getElem_drop, List.getElem_reverse, List.getElem_map, List.length_map,
      List.length_take, List.length_drop]
    congr 1
    congr 1
    omega

theorem slice_append_left {α} (x y : List α) (a b : Nat) (hb : b ≤ x.length) : slice (x ++ y) a b = slice x a b := by
  unfold slice
  apply List.ext_getElem
  · simp; omega
  · intro i h1 h2
    simp at h1 h2
    simp only [List.getElem_take, List.getElem_drop]
    rw [List.getElem_append_left]
#print axioms slice_revcomp
