/-! Probe for C01/C03 lemma L3: the window returned by utils.search_intervals contains every overlapping segment -/

/-- transliteration; `iv[i] = (SO, SO+LN)`; Python ints may go to -1, so `Int`; `none` = IndexError / out of fuel -/
def searchIv (iv : List (Nat × Nat)) (qs qe : Nat) : Nat → Int → Int → Option (Int × Int)
  | 0, _, _ => none
  | fuel+1, s, e =>
    if s ≤ e then
      let mid := s + (e - s) / 2
      match iv[mid.toNat]? with
      | none => none
      | some (so, en) =>
        if qe ≤ so then searchIv iv qs qe fuel s (mid - 1)
        else if qs ≥ en then searchIv iv qs qe fuel (mid + 1) e
        else some (s, e)
    else some (-1, -1)

def Sorted (iv : List (Nat × Nat)) : Prop :=
  ∀ i j (hi : i < iv.length) (hj : j < iv.length), i < j → iv[i].2 ≤ iv[j].1

def Overlaps (iv : List (Nat × Nat)) (qs qe : Nat) (i : Nat) : Prop :=
  ∃ h : i < iv.length, iv[i].1 < qe ∧ qs < iv[i].2

theorem searchIv_window (iv : List (Nat × Nat)) (qs qe : Nat)
    (hsorted : Sorted iv) (hne : ∀ i (h : i < iv.length), iv[i].1 < iv[i].2) :
    ∀ fuel (s e : Int), 0 ≤ s →
      (∀ i, Overlaps iv qs qe i → s ≤ (i : Int) ∧ (i : Int) ≤ e) →
      ∀ r, searchIv iv qs qe fuel s e = some r →
      (∀ i, Overlaps iv qs qe i → r.1 ≤ (i : Int) ∧ (i : Int) ≤ r.2) := by
  intro fuel
  induction fuel with
  | zero => intro s e _ _ r h; simp [searchIv] at h
  | succ fuel ih =>
    intro s e hs hinv r h
    unfold searchIv at h
    split at h
    · rename_i hse
      simp only at h
      split at h
      · simp at h
      · rename_i so en hget
        have hmid0 : 0 ≤ s + (e - s) / 2 := by omega
        obtain ⟨hlt, hval⟩ : ∃ hlt : (s + (e - s) / 2).toNat < iv.length, iv[(s + (e - s) / 2).toNat] = (so, en) := by
          rw [List.getElem?_eq_some_iff] at hget; exact hget
        split at h
        · -- go left
          rename_i hq
          apply ih s (s + (e - s) / 2 - 1) hs _ r h
          intro i hov
          obtain ⟨hi, h1, h2⟩ := hov
          have := hinv i ⟨hi, h1, h2⟩
          refine ⟨this.1, ?_⟩
          -- i < mid, else so_mid ≤ so_i... contradiction with so_i < qe ≤ so_mid
          by_cases hc : (i : Int) ≤ s + (e - s) / 2 - 1
          · exact hc
          · exfalso
            have hge : (s + (e - s) / 2).toNat ≤ i := by omega
            rcases Nat.lt_or_eq_of_le hge with hlt' | heq
            · have hs1 := hsorted _ _ hlt hi hlt'
              have hs2 := hne _ hlt
              rw [hval] at hs1 hs2
              simp only at hs1 hs2
              omega
            · subst heq; simp [hval] at h1; omega
        · split at h
          · rename_i hq1 hq2
            apply ih (s + (e - s) / 2 + 1) e (by omega) _ r h
            intro i hov
            obtain ⟨hi, h1, h2⟩ := hov
            have := hinv i ⟨hi, h1, h2⟩
            refine ⟨?_, this.2⟩
            by_cases hc : s + (e - s) / 2 + 1 ≤ (i : Int)
            · exact hc
            · exfalso
              have hle : i ≤ (s + (e - s) / 2).toNat := by omega
              rcases Nat.lt_or_eq_of_le hle with hlt' | heq
              · have hs1 := hsorted _ _ hi hlt hlt'
                have hs2 := hne _ hlt
                rw [hval] at hs1 hs2
                simp only at hs1 hs2
                omega
              · subst heq; simp [hval] at h2; omega
          · simp at h; subst h; exact hinv
    · simp at h; subst h
      intro i hov
      have := hinv i hov
      omega
#print axioms searchIv_window
