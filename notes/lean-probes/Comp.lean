/-! Probe for C15: worklist component search is exactly the reachability class -/
variable {α : Type} [DecidableEq α]

inductive Reach (adj : α → List α) : α → α → Prop
  | refl (a) : Reach adj a a
  | step {a b c} : Reach adj a b → c ∈ adj b → Reach adj a c

def unvisited (V cc : List α) : Nat := (V.filter (fun y => decide (y ∉ cc))).length

theorem unvisited_le (V cc : List α) (x : α) : unvisited V (x :: cc) ≤ unvisited V cc := by
  unfold unvisited
  induction V with
  | nil => simp
  | cons v V ih =>
    simp only [List.filter_cons]
    by_cases h1 : v ∈ cc
    · have : v ∈ x :: cc := List.mem_cons_of_mem _ h1
      simp [h1, this]; simpa using ih
    · by_cases h2 : v = x
      · subst h2; simp [h1]; have := ih; simp at this; omega
      · have : v ∉ x :: cc := by simp [h1, h2]
        simp [h1, this]; simpa using ih

theorem unvisited_lt (V cc : List α) (x : α) (h1 : x ∉ cc) (h2 : x ∈ V) : unvisited V (x :: cc) < unvisited V cc := by
  induction V with
  | nil => simp at h2
  | cons v V ih =>
    have hle := unvisited_le V cc x
    unfold unvisited at *
    simp only [List.filter_cons]
    by_cases hv : v = x
    · subst hv; simp [h1]; simp at hle; omega
    · have hxV : x ∈ V := by
        rcases List.mem_cons.mp h2 with h | h
        · exact absurd h.symm hv
        · exact h
      have ih' := ih hxV
      by_cases hvc : v ∈ cc
      · have : v ∈ x :: cc := List.mem_cons_of_mem _ hvc
        simp [hvc, this]; simpa using ih'
      · have : v ∉ x :: cc := by simp [hvc, hv]
        simp [hvc, this]; simpa using ih'

/-- find_component: pop; skip if already in cc; else add and push the neighbours.  `V` bounds the universe. -/
def findComp (adj : α → List α) (V : List α) : List α → List α → List α
  | [], cc => cc
  | x :: st, cc =>
    if h : x ∈ cc ∨ x ∉ V then findComp adj V st cc
    else findComp adj V (adj x ++ st) (x :: cc)
termination_by st cc => (unvisited V cc, st.length)
decreasing_by
  · exact Prod.Lex.right _ (by simp)
  · apply Prod.Lex.left
    apply unvisited_lt
    · intro hc; exact h (Or.inl hc)
    · exact Decidable.byContradiction (fun hv => h (Or.inr hv))

/-- soundness: everything collected is reachable from the start -/
theorem findComp_sound (adj : α → List α) (V : List α) (a : α) :
    ∀ st cc, (∀ x ∈ st, Reach adj a x) → (∀ x ∈ cc, Reach adj a x) →
      ∀ y ∈ findComp adj V st cc, Reach adj a y := by
  intro st cc
  induction st, cc using findComp.induct (adj := adj) (V := V) with
  | case1 cc => intro _ hcc y hy; simp [findComp] at hy; exact hcc y hy
  | case2 x st cc h ih =>
    intro hst hcc y hy
    rw [findComp, dif_pos h] at hy
    exact ih (fun z hz => hst z (List.mem_cons_of_mem _ hz)) hcc y hy
  | case3 x st cc h ih =>
    intro hst hcc y hy
    rw [findComp, dif_neg h] at hy
    have hx : Reach adj a x := hst x (by simp)
    apply ih _ _ y hy
    · intro z hz
      rcases List.mem_append.mp hz with hz | hz
      · exact Reach.step hx hz
      · exact hst z (List.mem_cons_of_mem _ hz)
    · intro z hz
      rcases List.mem_cons.mp hz with hz | hz
      · subst hz; exact hx
      · exact hcc z hz

/-- completeness invariant: closed under adj up to the pending stack -/
theorem findComp_closed (adj : α → List α) (V : List α) (hV : ∀ x ∈ V, ∀ y ∈ adj x, y ∈ V) :
    ∀ st cc, (∀ x ∈ cc, ∀ y ∈ adj x, y ∈ cc ∨ y ∈ st) →
      (∀ x ∈ cc, x ∈ V) → (∀ x ∈ st, x ∈ V) →
      (∀ x ∈ cc, x ∈ findComp adj V st cc) ∧ (∀ x ∈ st, x ∈ findComp adj V st cc) ∧
      (∀ x ∈ findComp adj V st cc, ∀ y ∈ adj x, y ∈ findComp adj V st cc) := by
  intro st cc
  induction st, cc using findComp.induct (adj := adj) (V := V) with
  | case1 cc =>
    intro hinv _ _
    simp only [findComp]
    refine ⟨fun x hx => hx, fun x hx => by simp at hx, ?_⟩
    intro x hx y hy
    rcases hinv x hx y hy with h | h
    · exact h
    · simp at h
  | case2 x st cc h ih =>
    intro hinv hccV hstV
    rw [findComp, dif_pos h]
    have hxcc : x ∈ cc := by
      rcases h with h | h
      · exact h
      · exact absurd (hstV x (by simp)) h
    have := ih (fun z hz y hy => by
      rcases hinv z hz y hy with h' | h'
      · exact Or.inl h'
      · rcases List.mem_cons.mp h' with h'' | h''
        · subst h''; exact Or.inl hxcc
        · exact Or.inr h'') hccV (fun z hz => hstV z (List.mem_cons_of_mem _ hz))
    refine ⟨this.1, ?_, this.2.2⟩
    intro z hz
    rcases List.mem_cons.mp hz with hz | hz
    · subst hz; exact this.1 _ hxcc
    · exact this.2.1 z hz
  | case3 x st cc h ih =>
    intro hinv hccV hstV
    rw [findComp, dif_neg h]
    have hxV : x ∈ V := hstV x (by simp)
    have := ih (fun z hz y hy => by
        rcases List.mem_cons.mp hz with hz | hz
        · subst hz; exact Or.inr (List.mem_append_left _ hy)
        · rcases hinv z hz y hy with h' | h'
          · exact Or.inl (List.mem_cons_of_mem _ h')
          · rcases List.mem_cons.mp h' with h'' | h''
            · subst h''; exact Or.inl (by simp)
            · exact Or.inr (List.mem_append_right _ h''))
      (fun z hz => by
        rcases List.mem_cons.mp hz with hz | hz
        · subst hz; exact hxV
        · exact hccV z hz)
      (fun z hz => by
        rcases List.mem_append.mp hz with hz | hz
        · exact hV x hxV z hz
        · exact hstV z (List.mem_cons_of_mem _ hz))
    refine ⟨fun z hz => this.1 z (List.mem_cons_of_mem _ hz), ?_, this.2.2⟩
    intro z hz
    rcases List.mem_cons.mp hz with hz | hz
    · subst hz; exact this.1 _ (by simp)
    · exact this.2.1 z (List.mem_append_right _ hz)

/-- exactness: from `[a]`, the result is the reachability class of `a` -/
theorem findComp_exact (adj : α → List α) (V : List α) (hV : ∀ x ∈ V, ∀ y ∈ adj x, y ∈ V) (a : α) (ha : a ∈ V) (y : α) :
    y ∈ findComp adj V [a] [] ↔ Reach adj a y := by
  constructor
  · exact findComp_sound adj V a [a] [] (by intro x hx; simp at hx; subst hx; exact Reach.refl _) (by simp) y
  · intro hr
    have hc := findComp_closed adj V hV [a] [] (by simp) (by simp) (by intro x hx; simp at hx; subst hx; exact ha)
    induction hr with
    | refl => exact hc.2.1 a (by simp)
    | step _ hcb ih => exact hc.2.2 _ ih _ hcb
#print axioms findComp_exact
