/-! Probe: executable transliteration of GFA.biccs (iterative Hopcroft–Tarjan with edge stack) -/
abbrev V := String

structure Frame where
  parent : V
  child : V
  ptr : Nat
  nbrs : List V
deriving Repr

structure BSt where
  disc : List (V × Nat)
  low : List (V × Nat)
  visited : List V
  estack : List (V × V)            -- bottom first, like the Python list
  loc : List ((V × V) × Nat)       -- later entries shadow earlier ones (dict overwrite)
  stack : List Frame               -- top first
  comps : List (List V)
  aps : List V
  rootChildren : Nat
deriving Repr

def lookup {α β} [BEq α] (k : α) : List (α × β) → Option β
  | [] => none
  | (k', v) :: r => if k == k' then some v else lookup k r

def setKV {α β} [BEq α] (k : α) (v : β) (l : List (α × β)) : List (α × β) := (k, v) :: l   -- shadowing insert

def nodesOf (es : List (V × V)) : List V :=
  (es.flatMap (fun e => [e.1, e.2])).eraseDups

def insertSet (x : V) (l : List V) : List V := if l.contains x then l else x :: l

/-- one iteration of the `while stack:` loop -/
def bstep (nb : V → List V) (s : BSt) : BSt :=
  match s.stack with
  | [] => s
  | f :: rest =>
    if f.ptr < f.nbrs.length then
      let nn := f.nbrs[f.ptr]!
      let f' := { f with ptr := f.ptr + 1 }
      let s := { s with stack := f' :: rest }
      if nn == f.parent then s
      else if s.visited.contains nn then
        let dn := (lookup nn s.disc).getD 0
        let dc := (lookup f.child s.disc).getD 0
        if dn ≤ dc then
          let lc := (lookup f.child s.low).getD 0
          { s with estack := s.estack ++ [(f.child, nn)],
                   loc := setKV (f.child, nn) s.estack.length s.loc,
                   low := setKV f.child (min lc dn) s.low }
        else s
      else
        let d := s.disc.length          -- len(discovery): keys are distinct, one entry per node
        { s with low := setKV nn d s.low, disc := setKV nn d s.disc, visited := nn :: s.visited,
                 stack := ⟨f.child, nn, 0, nb nn⟩ :: f' :: rest,
                 estack := s.estack ++ [(f.child, nn)],
                 loc := setKV (f.child, nn) s.estack.length s.loc }
    else
      -- neighbours exhausted: pop
      let s := { s with stack := rest }
      if rest.length > 1 then
        let lc := (lookup f.child s.low).getD 0
        let dp := (lookup f.parent s.disc).getD 0
        let s :=
          if lc ≥ dp then
            let cut := (lookup (f.parent, f.child) s.loc).getD 0
            { s with aps := insertSet f.parent s.aps,
                     comps := s.comps ++ [nodesOf (s.estack.drop cut)],
                     estack := s.estack.take cut }
          else s
        let lp := (lookup f.parent s.low).getD 0
        { s with low := setKV f.parent (min lp lc) s.low }
      else if rest.length == 1 then
        let cut := (lookup (f.parent, f.child) s.loc).getD 0
        { s with rootChildren := s.rootChildren + 1,
                 comps := s.comps ++ [nodesOf (s.estack.drop cut)],
                 estack := s.estack.take cut }
      else s

def biccsFrom (nb : V → List V) (root : V) (fuel : Nat) : List (List V) × List V :=
  let init : BSt := { disc := [(root, 0)], low := [(root, 0)], visited := [root], estack := [], loc := [],
                      stack := [⟨root, root, 0, nb root⟩], comps := [], aps := [], rootChildren := 0 }
  let rec go : Nat → BSt → BSt
    | 0, s => s
    | n+1, s => if s.stack.isEmpty then s else go n (bstep nb s)
  let s := go fuel init
  (s.comps, if s.rootChildren > 1 then insertSet root s.aps else s.aps)

-- the 13-node test graph (tests/data/smallgraph-noseq.gfa), undirected neighbour lists sorted as Node.neighbors() does
def edges : List (V × V) := [("s1","s2"),("s1","s644045"),("s2","s3"),("s2","s464827"),("s3","s4"),("s4","s5"),("s4","s2"),
  ("s5","s6"),("s6","s7"),("s6","s4"),("s7","s8"),("s8","s9"),("s8","s314711"),("s8","s6"),("s314711","s9"),
  ("s464827","s3"),("s464827","s575719"),("s575719","s3"),("s644045","s2")]
def nbOf (es : List (V × V)) (v : V) : List V :=
  let l := es.filterMap (fun e => if e.1 == v then some e.2 else if e.2 == v then some e.1 else none)
  l.mergeSort (fun a b => a ≤ b)

#eval biccsFrom (nbOf edges) "s1" 1000
#eval (biccsFrom (nbOf edges) "s9" 1000).2
-- triangle with pendants: three cut vertices on one cycle
#eval biccsFrom (nbOf [("a","b"),("b","c"),("a","c"),("a","pa"),("b","pb"),("c","pc")]) "a" 1000
