/-! Probe for C01 lemma L1: the merge loop of to_stable preserves the spelled sequence -/
structure SNode where
  contig : String
  s : Nat
  e : Nat
deriving DecidableEq, Repr

/-- transliteration of conversion.merge_nodes (orientation: true = '>') -/
def mergeNodes (n1 n2 : SNode) (o1 o2 : Bool) : Option (SNode × Bool) :=
  if n1.contig ≠ n2.contig ∨ o1 ≠ o2 then none
  else if o1 = true ∧ n1.e ≠ n2.s then none
  else if o1 = false ∧ n1.s ≠ n2.e then none
  else if o1 = false then some (⟨n1.contig, n2.s, n1.e⟩, o1)
  else some (⟨n1.contig, n1.s, n2.e⟩, o1)

/-- the loop `out_node[-1] = merge … / out_node.append(…)` with the open interval carried separately -/
def mergeGo (cur : SNode × Bool) : List (SNode × Bool) → List (SNode × Bool)
  | [] => [cur]
  | x :: xs =>
    match mergeNodes cur.1 x.1 cur.2 x.2 with
    | some m => mergeGo m xs
    | none => cur :: mergeGo x xs

variable (cs : String → Nat → Nat → List Char) (comp : Char → Char)

def revcomp (x : List Char) : List Char := (x.map comp).reverse

def spellIv (x : SNode × Bool) : List Char :=
  if x.2 then cs x.1.contig x.1.s x.1.e else revcomp comp (cs x.1.contig x.1.s x.1.e)

def spell (l : List (SNode × Bool)) : List Char := l.flatMap (spellIv cs comp)

theorem revcomp_append (x y : List Char) : revcomp comp (x ++ y) = revcomp comp y ++ revcomp comp x := by
  simp [revcomp]

theorem merge_spell
    (hadd : ∀ c a b d, a ≤ b → b ≤ d → cs c a b ++ cs c b d = cs c a d)
    (n1 n2 : SNode) (o1 o2 : Bool) (m : SNode × Bool)
    (h1 : n1.s ≤ n1.e) (h2 : n2.s ≤ n2.e)
    (hm : mergeNodes n1 n2 o1 o2 = some m) :
    spellIv cs comp m = spellIv cs comp (n1, o1) ++ spellIv cs comp (n2, o2) ∧ m.1.s ≤ m.1.e ∧ m.2 = o1 := by
  unfold mergeNodes at hm
  split at hm; · simp at hm
  split at hm; · simp at hm
  split at hm; · simp at hm
  rename_i hc hf hr
  have hcontig : n1.contig = n2.contig := by
    by_cases h : n1.contig = n2.contig; exact h; simp [h] at hc
  have ho : o1 = o2 := by
    by_cases h : o1 = o2; exact h; simp [h] at hc
  subst ho
  cases o1
  · -- reverse: n1.s = n2.e, merged = [n2.s, n1.e)
    have hse : n1.s = n2.e := by simpa using hr
    simp at hm
    subst hm
    refine ⟨?_, by simp; omega, rfl⟩
    simp only [spellIv, Bool.false_eq_true, if_false]
    rw [← revcomp_append, ← hcontig, ← hse, hadd _ _ _ _ (by omega) h1]
  · have hes : n1.e = n2.s := by simpa using hf
    simp at hm
    subst hm
    refine ⟨?_, by simp; omega, rfl⟩
    simp only [spellIv, if_true]
    rw [← hcontig, ← hes, hadd _ _ _ _ h1 (by omega)]

theorem mergeGo_spell
    (hadd : ∀ c a b d, a ≤ b → b ≤ d → cs c a b ++ cs c b d = cs c a d)
    (xs : List (SNode × Bool)) (cur : SNode × Bool)
    (hcur : cur.1.s ≤ cur.1.e) (hxs : ∀ x ∈ xs, x.1.s ≤ x.1.e) :
    spell cs comp (mergeGo cur xs) = spell cs comp (cur :: xs) := by
  induction xs generalizing cur with
  | nil => simp [mergeGo]
  | cons x xs ih =>
    unfold mergeGo
    have hx : x.1.s ≤ x.1.e := hxs x (by simp)
    have hxs' : ∀ y ∈ xs, y.1.s ≤ y.1.e := fun y hy => hxs y (by simp [hy])
    split
    · rename_i m hm
      obtain ⟨hsp, hle, _⟩ := merge_spell cs comp hadd cur.1 x.1 cur.2 x.2 m hcur hx hm
      rw [ih m hle hxs']
      simp only [spell, List.flatMap_cons] at *
      rw [hsp]; simp [List.append_assoc]
    · rw [spell, List.flatMap_cons, ← spell, ih x hx hxs']
      simp [spell]
#print axioms mergeGo_spell
