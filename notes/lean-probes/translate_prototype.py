import ast, sys, textwrap
src=open(sys.argv[1]).read()
mod=ast.parse(src)
fn=[n for n in mod.body if isinstance(n,ast.FunctionDef) and n.name=='compare_gaf'][0]
args=[a.arg for a in fn.args.args]
FIELD={'BO':'bo','NO':'no','start':'start','offset':'offset'}
class Untranslatable(Exception): pass
def expr(e):
    if isinstance(e,ast.Compare) and len(e.ops)==1:
        op={ast.Lt:'<',ast.Gt:'>',ast.Eq:'=',ast.LtE:'≤',ast.GtE:'≥',ast.NotEq:'≠'}[type(e.ops[0])]
        return f"({expr(e.left)} {op} {expr(e.comparators[0])})"
    if isinstance(e,ast.BoolOp):
        op=' ∧ ' if isinstance(e.op,ast.And) else ' ∨ '
        return "("+op.join(expr(v) for v in e.values)+")"
    if isinstance(e,ast.Attribute) and isinstance(e.value,ast.Name) and e.value.id in args and e.attr in FIELD:
        return f"{e.value.id}.{FIELD[e.attr]}"
    if isinstance(e,ast.Constant) and isinstance(e.value,int): return f"({e.value} : Int)"
    if isinstance(e,ast.UnaryOp) and isinstance(e.op,ast.USub) and isinstance(e.operand,ast.Constant): return f"(-{e.operand.value} : Int)"
    raise Untranslatable(ast.dump(e))
def block(stmts, ind):
    if not stmts: return " "*ind+"none"
    s=stmts[0]; rest=stmts[1:]
    if isinstance(s,ast.Expr) and isinstance(s.value,ast.Constant): return block(rest,ind)   # docstring / comment string
    if isinstance(s,ast.Return):
        return " "*ind+f"some {expr(s.value)}"
    if isinstance(s,ast.If):
        # if body always returns, 'rest' continues only on the else path
        def always_returns(b):
            l=b[-1]
            return isinstance(l,ast.Return) or (isinstance(l,ast.If) and l.orelse and always_returns(l.body) and always_returns(l.orelse))
        then=block(s.body if always_returns(s.body) else s.body+rest, ind+2)
        els=block((s.orelse+rest) if (s.orelse and not always_returns(s.orelse)) else (s.orelse if s.orelse else rest), ind+2)
        return " "*ind+f"if {expr(s.test)} then\n{then}\n"+" "*ind+f"else\n{els}"
    raise Untranslatable(ast.dump(s))
body=block(fn.body,2)
print(f"""-- generated from {sys.argv[1]} : compare_gaf  (do not edit)
structure Aln where
  offset : Int
  bo : Int
  no : Int
  start : Int
deriving Repr, DecidableEq
namespace Gen
def cmpGaf ({args[0]} {args[1]} : Aln) : Option Int :=
{body}
end Gen""")
