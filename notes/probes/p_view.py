# probe C03/C04/C05/C16 on a code tree given as argv[1]
import sys, random, os, pickle, re, collections, signal
ROOT=sys.argv[1]; sys.path.insert(0,ROOT)
import logging; logging.disable(logging.CRITICAL)
from gaftools.cli import index, view
from gaftools.cli import CommandLineError
from gaftools.gaf import GAF
from pysam import libcbgzf
exec(open('/tmp/gt_scratch/t8.py').read().split("def run(seed):")[0])   # reuse gen_graph, gfa_text, adjacency, gen_walk
rng=random.Random(int(sys.argv[2]))
bad=collections.Counter(); first={}
def note(k,v):
    bad[k]+=1; first.setdefault(k,v)
class TO(Exception): pass
def alarm(*a): raise TO()
signal.signal(signal.SIGALRM, alarm)
def tagsgen():
    pool=["tp:A:P","NM:i:-3","nm:i:+4","dv:f:1e-05","id:f:.5","de:f:-0.25","XX:Z:foo_bar baz","YY:Z:a:b*c/d#e.","hx:H:1AE3","bb:B:i,1,-2,3","bf:B:f,1.5,-2e3","ee:Z:","ch:A:*","ds:Z:=ACG*at+gg","s1:i:33"]
    k=rng.randint(0,6); t=rng.sample(pool,k)
    return t
for it in range(int(sys.argv[3])):
    segs,links=gen_graph(rng); seqd={s[0]:s[1] for s in segs}; adj=adjacency(links)
    info={s[0]:(s[2],s[3],s[3]+len(s[1])) for s in segs}
    open('pv.gfa','w').write(gfa_text(segs,links))
    recs=[];paths=[]
    for k in range(rng.randint(1,10)):
        w=gen_walk(rng,segs,adj)
        path="".join(('>' if o=='+' else '<')+n for n,o in w); plen=sum(len(seqd[n]) for n,o in w)
        ps=rng.randrange(0,plen); pe=rng.randrange(ps+1,plen+1); n=pe-ps
        t=tagsgen()
        if rng.random()<0.8: t.insert(rng.randint(0,len(t)),f"cg:Z:{n}=")
        qn=f"r{k}"+(" extra words" if rng.random()<0.2 else "")
        recs.append("\t".join([qn,str(n),"0",str(n),"+",path,str(plen),str(ps),str(pe),str(n),str(n),"60"]+t)); paths.append([n for n,o in w])
    text="\n".join(recs)+"\n"; open('pv.gaf','w').write(text)
    bg=rng.random()<0.3; inp='pv.gaf'
    if bg:
        f=libcbgzf.BGZFile('pv.gaf.gz','wb'); f.write(text.encode()); f.close(); inp='pv.gaf.gz'
    for f in ('pv.gaf.gvi','pv.gaf.gz.gvi'):
        if os.path.exists(f): os.remove(f)
    def expected_line(r):
        f=r.split("\t"); f[0]=f[0].split(" ")[0]
        return "\t".join(f[:12]+[x for x in f[12:] if not x.startswith("ds:Z:")])
    def expected_line_ds(r):
        f=r.split("\t"); f[0]=f[0].split(" ")[0]; return "\t".join(f)
    try:
        index.run(inp,'pv.gfa')
        ind=pickle.load(open(inp+'.gvi','rb'))
    except BaseException as e:
        note("index EXC "+type(e).__name__,(recs,)); continue
    # C03
    g=GAF(inp)
    offs=[]; h=g.file
    h.seek(0)
    while True:
        o=h.tell(); l=h.readline()
        if not l: break
        offs.append(o)
    exp=collections.defaultdict(set)
    for i,p in enumerate(paths):
        for n in p: exp[(n,)+info[n]].add(offs[i])
    got={k:set(v) for k,v in ind.items() if k!='ref_contig'}
    if got!=dict(exp): note("C03 index",(recs,got,dict(exp)))
    g.close()
    # C04
    allnodes=list(seqd)
    for q in range(4):
        ns=[rng.choice(allnodes+['zz9']) for _ in range(rng.randint(1,4))]
        want=[expected_line(r) for r,p in zip(recs,paths) if set(p)&set(ns)]
        want2=[expected_line_ds(r) for r,p in zip(recs,paths) if set(p)&set(ns)]
        signal.alarm(5)
        try:
            view.run(inp,output='pv.out',nodes=list(ns)); res=open('pv.out').read().splitlines()
        except CommandLineError: res=None
        except TO: res="HANG"
        except BaseException as e: res="EXC "+type(e).__name__
        finally: signal.alarm(0)
        if (res is None and want) or (res is not None and res!=want and res!=want2): note("C04 nodes",(recs,ns,res,want))
    # C05
    contigs=collections.defaultdict(list)
    for n,(c,s,e) in info.items(): contigs[c].append((s,e,n))
    for q in range(4):
        regs=[];under=set()
        for _ in range(rng.randint(1,2)):
            c=rng.choice(list(contigs)); lo=min(s for s,e,n in contigs[c]); hi=max(e for s,e,n in contigs[c])
            a=rng.randrange(lo,hi); b=rng.randrange(a,hi)
            regs.append(f"{c}:{a}-{b}")
            for s,e,n in contigs[c]:
                if s<=b and a<e: under.add(n)
        aligned=set(n for p in paths for n in p)
        want=[expected_line(r) for r,p in zip(recs,paths) if set(p)&under]
        want2=[expected_line_ds(r) for r,p in zip(recs,paths) if set(p)&under]
        signal.alarm(5)
        try:
            view.run(inp,output='pv.out',regions=list(regs)); res=open('pv.out').read().splitlines()
        except CommandLineError: res=None
        except TO: res="HANG"
        except BaseException as e: res="EXC "+type(e).__name__+" "+str(e)[:60]
        finally: signal.alarm(0)
        if (res is None and want) or (res is not None and res!=want and res!=want2): note("C05 regions "+(res if isinstance(res,str) else "diff"),(recs,regs,res,want))
print(bad)
for k,v in first.items(): print(k, str(v)[:1200])
