import sys, pickle, random, os
sys.path.insert(0,'/repo')
from pysam import libcbgzf
from gaftools.cli import index, view, sort as gsort, stat
from gaftools.gaf import GAF
D='/repo/tests/data/'
random.seed(1)
nodes={'s1':3293,'s2':341,'s3':62,'s4':1032,'s5':337,'s6':6604,'s7':59,'s8':6365,'s9':3744,'s464827':186,'s575719':126,'s644045':96}
paths=['>s1>s2','>s2>s3','>s2>s464827>s3','>s4>s5','<s5<s4','>s7','>s8>s9','<s464827','>s575719','>s3>s4>s5>s6']
lines=[]
for i in range(4000):
    p=random.choice(paths)
    ids=[x for x in p.replace('<','>').split('>') if x]
    L=sum(nodes[x] for x in ids)
    a=random.randrange(0,L-1); b=random.randrange(a+1,L+1)
    n=b-a
    lines.append(f"read{i}\t{n}\t0\t{n}\t+\t{p}\t{L}\t{a}\t{b}\t{n}\t{n}\t60\ttp:A:P\tNM:i:0\tcg:Z:{n}=\n")
open('big.gaf','w').write("".join(lines))
f=libcbgzf.BGZFile('big.gaf.gz','wb'); f.write("".join(lines).encode()); f.close()
print(os.path.getsize('big.gaf'), os.path.getsize('big.gaf.gz'))
g=D+'smallgraph-ordered.gfa'
index.run('big.gaf', g); index.run('big.gaf.gz', g)
i1=pickle.load(open('big.gaf.gvi','rb')); i2=pickle.load(open('big.gaf.gz.gvi','rb'))
ga=GAF('big.gaf'); gb=GAF('big.gaf.gz')
ok=True
for k in i1:
    if k=='ref_contig': continue
    r1=[str(ga.read_line(o)) for o in i1[k]]; r2=[str(gb.read_line(o)) for o in i2[k]]
    if r1!=r2: ok=False; print("DIFF",k,len(r1),len(r2))
print("index plain==bgzf by record:", ok, "max voffset", max(max(v) for k,v in i2.items() if k!='ref_contig'))
view.run('big.gaf', output='v1.out', nodes=['s3','s464827']); view.run('big.gaf.gz', output='v2.out', nodes=['s3','s464827'])
print("view equal:", open('v1.out').read()==open('v2.out').read(), len(open('v1.out').readlines()))
gsort.run_sort(gfa=g, gaf='big.gaf', outgaf='s1.gaf'); gsort.run_sort(gfa=g, gaf='big.gaf.gz', outgaf='s2.gaf.gz', bgzip=True)
a=open('s1.gaf').read(); b=libcbgzf.BGZFile('s2.gaf.gz','rb').read().decode()
print("sort equal:", a==b)
j1=pickle.load(open('s1.gaf.gsi','rb')); j2=pickle.load(open('s2.gaf.gz.gsi','rb')); print(j1,j2)
h=libcbgzf.BGZFile('s2.gaf.gz','rb')
for c,(x,y) in j2.items():
    h.seek(x); l1=h.readline(); h.seek(y); l2=h.readline(); print(c, l1.split(b'\t')[0], l1.strip().split(b'\t')[-2], l2.split(b'\t')[0], l2.strip().split(b'\t')[-2])
