import os, sys, pickle, traceback, shutil, signal, glob
sys.path.insert(0, '/repo')
from gaftools.cli import phase, order_gfa
from gaftools.gfa import GFA
def w(name, s): open(name,'w').write(s)
class TO(Exception): pass
def alarm(*a): raise TO()
signal.signal(signal.SIGALRM, alarm)
def tryrun(label, f):
    signal.alarm(10)
    try:
        f(); print(label, "OK")
    except SystemExit as e:
        print(label, "SystemExit", e.code)
    except TO:
        print(label, "TIMEOUT (non-termination)")
    except BaseException as e:
        print(label, "EXC", type(e).__name__, e)
    finally:
        signal.alarm(0)

def chain(prefix, contig, nbub, extra_branch=False, idfmt="%s%d"):
    # scaffold a0, bubble (ref r_i + alt x_i), a1, ...
    S=[];L=[];so=0;k=0
    def nid():
        nonlocal k; k+=1; return idfmt%(prefix,k)
    prev=nid(); S.append((prev,contig,so,0)); so+=10
    for b in range(nbub):
        r=nid(); x=nid(); nxt=nid()
        S.append((r,contig,so,0)); so+=10
        S.append((x,"hap"+prefix,1000+b*100,1))
        S.append((nxt,contig,so,0)); so+=10
        L+= [(prev,r),(prev,x),(r,nxt),(x,nxt)]
        prev=nxt
    if extra_branch:
        t=nid(); S.append((t,"hapT"+prefix,5000,2)); L.append((S[3][0],t))   # tip hanging from a middle scaffold node
        t2=nid(); S.append((t2,"hapT"+prefix,6000,2)); L.append((S[3][0],t2))
    out=""
    for (i,c,o,r) in S: out+=f"S\t{i}\tACGTACGTAC\tLN:i:10\tSN:Z:{c}\tSO:i:{o}\tSR:i:{r}\n"
    for (a,b) in L: out+=f"L\t{a}\t+\t{b}\t+\t0M\n"
    return out

# C18: chrA fine, chrB branching, chrC fine
w('m.gfa', chain('a','chrA',2)+chain('b','chrB',2,extra_branch=True)+chain('c','chrC',2))
for order in ['chrA,chrB,chrC','chrB,chrA,chrC','chrA,chrC,chrB', 'chrA,chrC']:
    shutil.rmtree('out', ignore_errors=True)
    tryrun("C18 order "+order, lambda: order_gfa.run_order_gfa('m.gfa','out',by_chrom=True,chromosome_order=order))
    print(sorted(os.listdir('out')))
# 3 artic on a cycle
w('cyc.gfa', "".join(f"S\t{i}\tACGT\tLN:i:4\tSN:Z:chrZ\tSO:i:{o}\tSR:i:0\n" for i,o in [('a',0),('b',4),('c',8),('pa',100),('pb',104),('pc',108)])
   + "".join(f"L\t{x}\t+\t{y}\t+\t0M\n" for x,y in [('a','b'),('b','c'),('a','c'),('a','pa'),('b','pb'),('c','pc')]))
shutil.rmtree('out', ignore_errors=True)
tryrun("C18 three-artic-cycle", lambda: order_gfa.run_order_gfa('cyc.gfa','out',by_chrom=True,chromosome_order='chrZ'))
# C06 numeric ids
w('num.gfa', chain('','chrN',5, idfmt="%s%d"))
shutil.rmtree('out', ignore_errors=True)
tryrun("C06 numeric ids", lambda: order_gfa.run_order_gfa('num.gfa','out',by_chrom=True,chromosome_order='chrN'))
print(sorted(os.listdir('out')))
if os.path.exists('out/num-chrN.gfa'): print(open('out/num-chrN.gfa').read()[:1500])
