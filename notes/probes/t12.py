import sys, random, re, os, collections
sys.path.insert(0,'/repo')
import logging; logging.disable(logging.CRITICAL)
from gaftools.gfa import GFA
from gaftools.cli.realign import run_realign
rng=random.Random(int(sys.argv[1]))
G='/repo/tests/data/smallgraph.gfa'
g=GFA(G)
paths=['>s1>s2','>s2>s3','>s2>s464827>s3','>s4>s5','<s5<s4','>s7','>s8>s9','<s464827','<s3<s464827<s2','>s3>s4>s5>s6','>s2>s4','<s4<s2']
def mutate(s):
    out=[];i=0
    while i<len(s):
        r=rng.random()
        if r<0.03: out.append(rng.choice("ACGT")); i+=1
        elif r<0.045: out.append("".join(rng.choice("ACGT") for _ in range(rng.randint(1,30))))
        elif r<0.06: i+=rng.randint(1,30)
        else: out.append(s[i]); i+=1
    return "".join(out)
recs=[];fa=[]
for k in range(60):
    p=rng.choice(paths); seq=g.extract_path(p); assert seq
    L=len(seq); a=rng.randrange(0,L-50); b=min(L,a+rng.randint(30,400))
    ref=seq[a:b]; q=mutate(ref)
    pre="".join(rng.choice("ACGT") for _ in range(rng.randint(0,5))); post="".join(rng.choice("ACGT") for _ in range(rng.randint(0,5)))
    read=pre+q+post
    fa.append(f">rd{k} extra\n{read}\n")
    # crude input cigar: all X/I/D fragmented: just say len match with indel
    cg=f"{min(len(q),len(ref))}="+ (f"{len(q)-len(ref)}I" if len(q)>len(ref) else (f"{len(ref)-len(q)}D" if len(ref)>len(q) else ""))
    recs.append(f"rd{k} extra\t{len(read)}\t{len(pre)}\t{len(pre)+len(q)}\t+\t{p}\t{L}\t{a}\t{b}\t1\t2\t60\tNM:i:3\tcg:Z:{cg}\ttp:A:P")
open('r12.fa','w').write("".join(fa)); open('r12.gaf','w').write("\n".join(recs)+"\n")
for f in ('r12.fa.fai',):
    if os.path.exists(f): os.remove(f)
run_realign('r12.gaf', G, 'r12.fa', output='r12.out', cores=1)
out=[l.rstrip("\n").split("\t") for l in open('r12.out')]
reads={l.split()[0][1:]:s for l,s in (x.split("\n")[:2] for x in fa)}
bad=collections.Counter()
assert len(out)==len(recs)
for r,o in zip(recs,out):
    fi=r.split("\t")
    if o[:9]!=[fi[0].split(" ")[0]]+fi[1:9] or o[11]!=fi[11]: bad['cols']+=1
    cg=[x for x in o[12:] if x.startswith('cg:Z:')][0][5:]
    ops=[(int(n),c) for n,c in re.findall(r"(\d+)([=XIDM])",cg)]
    ref=g.extract_path(o[5])[int(o[7]):int(o[8])]; q=reads[o[0]][int(o[2]):int(o[3])]
    i=j=0; m=0; bl=0; ok=True
    for n,c in ops:
        bl+=n
        if c=='=': ok&= ref[i:i+n]==q[j:j+n] and len(ref[i:i+n])==n; i+=n;j+=n;m+=n
        elif c=='X': ok&= all(x!=y for x,y in zip(ref[i:i+n],q[j:j+n])) and len(ref[i:i+n])==n==len(q[j:j+n]); i+=n;j+=n
        elif c=='I': j+=n
        elif c=='D': i+=n
        else: ok=False
    if not ok or i!=len(ref) or j!=len(q): bad['invalid']+=1
    if int(o[9])!=m or int(o[10])!=bl: bad['tally']+=1
    if [x for x in o[12:] if not x.startswith('cg:Z:')]!=[x for x in fi[12:] if not x.startswith('cg:Z:')]: bad['tags']+=1
print(bad, len(out)); print(out[0])
