# exhaustive small-scope schedule exploration of realign_gaf's collector loop through a scripted fake multiprocessing
import sys, queue, io, os, collections, itertools
ROOT=sys.argv[1]; sys.path.insert(0,ROOT)
import logging; logging.disable(logging.CRITICAL)
import gaftools.cli.realign as R
D='/repo/tests/data/'
NREC=int(sys.argv[2]); BATCH=int(sys.argv[3]); CORES=int(sys.argv[4]); ALLOW_DEATH=sys.argv[5]=='1'
# build an input with NREC records (copies of the fixture's first record with distinct names)
base=open(D+'alignments-graphaligner.gaf').read().splitlines()[0].split("\t")
fa=open(D+'reads.fa').read().split(">")[1].split("\n",1)
seq=fa[1].replace("\n","")
with open('sc.gaf','w') as f, open('sc.fa','w') as g:
    for i in range(NREC):
        b=base[:]; b[0]=f"rd{i}"; f.write("\t".join(b)+"\n"); g.write(f">rd{i}\n{seq}\n")
for x in ('sc.fa.fai',):
    if os.path.exists(x): os.remove(x)
# patch batch size: pinned code has no hook -> rewrite constant via source patching of the function's code object
import types
src=open(ROOT+'/gaftools/cli/realign.py').read().replace("batch_size = 1000", f"batch_size = {BATCH}")
mod=types.ModuleType('realign_patched'); mod.__dict__['__name__']='gaftools.cli.realign_patched'
exec(compile(src, ROOT+'/gaftools/cli/realign.py','exec'), mod.__dict__)
R=mod

class Hang(Exception): pass
class Sched:
    """replay-based DFS over decision points; each decision = index into a list of alternatives"""
    def __init__(self, prefix): self.prefix=list(prefix); self.pos=0; self.trace=[]; self.arity=[]
    def choose(self, n, label):
        if n<=1:
            return 0
        if self.pos<len(self.prefix): c=self.prefix[self.pos]
        else: c=0
        self.pos+=1; self.trace.append(c); self.arity.append(n); return c
class World:
    def __init__(self, sched): self.s=sched; self.procs=[]; self.chan=[]; self.calls=0; self.died=False
    def worker_steps(self):
        # let workers take micro-steps chosen by the scheduler: repeatedly choose one of {stop, step worker i, kill worker i}
        # fairness / stutter reduction: a parent iteration that observed nothing new is explored once, then some live worker must move
        took=0
        while True:
            live=[p for p in self.procs if p.started and p.exitcode is None]
            opts=[] if (took==0 and live and not self.chan and getattr(self,'idle',0)>=1) else ['stop']
            for i,p in enumerate(self.procs):
                if p.started and p.exitcode is None:
                    opts.append(('step',i))
                    if ALLOW_DEATH and not self.died: opts.append(('die',i))
            c=self.s.choose(len(opts),'w')
            o=opts[c]
            if o=='stop':
                self.idle = (getattr(self,'idle',0)+1) if took==0 else 0
                return
            took+=1
            kind,i=o; p=self.procs[i]
            if kind=='die': p.exitcode=-9; self.died=True; p.pending=[]
            else:
                if p.pending: self.chan.append(p.pending.pop(0))
                else: p.exitcode=0
    def tick(self):
        self.calls+=1
        if self.calls>400: raise Hang()
class FakeQ:
    def __init__(self): self.tmp=[]
    def put(self,x): self.tmp.append(x)
    def get(self, timeout=None):
        W.tick(); W.worker_steps()
        if W.chan: return W.chan.pop(0)
        raise queue.Empty
class FakeP:
    def __init__(self,target,args): self.t=target; self.a=args; self.exitcode=None; self.started=False; self.pending=[]; W.procs.append(self)
    def start(self):
        q=FakeQ(); self.t(self.a[0], q); self.pending=q.tmp; self.started=True; self.total=len(q.tmp)
    def is_alive(self):
        W.tick()
        if not getattr(W,'in_check',False):
            W.worker_steps()     # workers may progress between the Empty and the liveness check
        return self.started and self.exitcode is None
    def join(self):
        # remaining live workers finish; their data would stay in the pipe
        while self.exitcode is None:
            if self.pending: W.chan.append(self.pending.pop(0))
            else: self.exitcode=0
class FakeMP:
    Queue=FakeQ; Process=FakeP
    @staticmethod
    def cpu_count(): return 64
R.mp=FakeMP
def run(prefix):
    global W
    s=Sched(prefix); W=World(s); out=io.StringIO()
    try:
        R.realign_gaf('sc.gaf', D+'smallgraph.gfa', 'sc.fa', out, CORES); res=('ok',[l.split('\t')[0] for l in out.getvalue().splitlines()])
    except SystemExit as e: res=('exit',e.code)
    except Hang: res=('hang',)
    except BaseException as e: res=('exc',type(e).__name__)
    # did some worker die before its sentinel reached the channel?
    dead_early=any(p.exitcode not in (0,None) and p.pending is not None and p.total!=0 and getattr(p,'lost',True) for p in W.procs if p.exitcode==-9)
    return res,s.trace,s.arity,W
expected=[f"rd{i}" for i in range(NREC)]
outcomes=collections.Counter(); examples={}
stack=[[]]; n=0
LIMIT=int(sys.argv[6])
while stack and n<LIMIT:
    prefix=stack.pop(); res,trace,arity,W=run(prefix); n+=1
    died=any(p.exitcode==-9 for p in W.procs)
    if res[0]=='ok': verdict='ok-correct' if res[1]==expected else 'ok-WRONG'
    else: verdict=res[0]+(str(res[1]) if len(res)>1 else '')
    key=(verdict,'death' if died else 'nodeath')
    outcomes[key]+=1; examples.setdefault(key,(trace,res))
    # expand: alternatives at positions >= len(prefix)
    for pos in range(len(prefix),len(trace)):
        for alt in range(trace[pos]+1, arity[pos]):
            stack.append(trace[:pos]+[alt])
print("schedules explored:",n,"exhausted" if not stack else "LIMIT")
for k,v in sorted(outcomes.items()): print(k,v, "e.g.", str(examples[k])[:160])
