set -u
run_mut() { # name file sed-expr probe-cmd
  name="$1"; file="$2"; expr="$3"; shift 3
  rm -rf mc && cp -r rc mc
  before=$(md5sum mc/$file | cut -d' ' -f1)
  sed -i "$expr" mc/$file
  after=$(md5sum mc/$file | cut -d' ' -f1)
  if [ "$before" = "$after" ]; then echo "$name: MUTATION NOT APPLIED"; return; fi
  t=$(cd mc && /venv/bin/python -m pytest -q -p no:cacheprovider --timeout=900 2>&1 | tail -1)
  p=$("$@" 2>&1 | grep -v "WARNING conda" | grep -v '^$' | head -1 | cut -c1-150)
  echo "$name | suite: $t | probe: $p"
}
run_mut M3-gsi-last   gaftools/cli/sort.py   's/index_dict\[alignment.sn\]\[1\] = out_off$/pass/; 0,/^ *pass$/{s/^\( *\)pass$/\1index_dict[alignment.sn][1] = out_off/}' /venv/bin/python p_sort.py /tmp/gt_scratch/mc 1 150
run_mut M4-unsorted   gaftools/cli/view.py   's/offsets = sorted(offsets)/offsets = list(offsets)/' /venv/bin/python p_view.py /tmp/gt_scratch/mc 1 120
run_mut M6-noreverse  gaftools/cli/order_gfa.py 's/^        traversal.reverse()$/        pass/' python3-vt p_order.py /tmp/gt_scratch/mc 1 120
run_mut M7-writeorient gaftools/gfa.py 's/\["L", str(n1), "-", str(n\[0\]), "+", overlap\]/["L", str(n1), "-", str(n[0]), "-", overlap]/' python3-vt p_order.py /tmp/gt_scratch/mc 1 120
run_mut M9-ge50       gaftools/cli/stat.py 's/if int(all_cigars\[cnt\]) >= 50:/if int(all_cigars[cnt]) > 50:/' /venv/bin/python p_stat.py /tmp/gt_scratch/mc 1 100
run_mut M10-tsvcols   gaftools/cli/phase.py 's/Node(line_elements\[3\], line_elements\[1\], line_elements\[2\])/Node(line_elements[3], line_elements[2], line_elements[1])/' /venv/bin/python p_stat.py /tmp/gt_scratch/mc 1 100
run_mut M11-narrowval gaftools/gaf.py 's/\[AifZHB\]:)(\.\*)\$/[AifZHB]:)([!-~]*)/' /venv/bin/python p_view.py /tmp/gt_scratch/mc 1 120
run_mut M13-cases     gaftools/gfa.py 's/("<", ">"): ("start", 0)/("<", ">"): ("start", 1)/' /venv/bin/python t10_mc.py 1
run_mut M15-bo-restart gaftools/cli/order_gfa.py 's/            bo = next_bo$/            bo = 0/' python3-vt p_order.py /tmp/gt_scratch/mc 1 120
run_mut M16-dupcheck  gaftools/cli/realign.py '0,/                        continue$/{s/                        continue$/                        pass/}' /venv/bin/python p_sched.py /tmp/gt_scratch/mc 2 1 2 0 400000
rm -rf mc
