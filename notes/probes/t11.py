import sys, random, os, shutil
sys.path.insert(0,'/repo')
import logging; logging.disable(logging.CRITICAL)
from gaftools.cli import order_gfa
seed=int(sys.argv[1])
rng=random.Random(seed)
lines=[l for l in open('/repo/tests/data/smallgraph.gfa')]
# second chromosome: copy with renamed ids/contig
def ren(l):
    f=l.rstrip("\n").split("\t")
    if f[0]=='S':
        f[1]='t'+f[1][1:]; f=[x.replace('SN:Z:chr1','SN:Z:chr2').replace('SN:Z:','SN:Z:') for x in f]
    else:
        f[1]='t'+f[1][1:]; f[3]='t'+f[3][1:]
    return "\t".join(f)+"\n"
lines2=[ren(l) for l in lines]
# add stale BO/NO to some S lines
allL=lines+lines2
out=[]
for l in allL:
    if l[0]=='S' and rng.random()<0.5: l=l.rstrip("\n")+f"\tBO:i:{rng.randint(0,99)}\tNO:i:{rng.randint(0,9)}\n"
    out.append(l)
rng.shuffle(out)
open('perm.gfa','w').write("".join(out))
shutil.rmtree('outp',ignore_errors=True)
order_gfa.run_order_gfa('perm.gfa','outp',by_chrom=False,chromosome_order='chr2,chr1',with_sequence=False)
res={}
for l in open('outp/perm-complete.gfa'):
    f=l.rstrip("\n").split("\t")
    if f[0]=='S':
        d={x[:2]:x[5:] for x in f[3:]}
        res[f[1]]=(int(d['BO']),int(d['NO']))
print(sorted(res.items()))
