import os, sys, pickle, traceback, shutil, signal, glob
sys.path.insert(0, '/repo')
from gaftools.cli import phase, order_gfa
from gaftools.gfa import GFA
def w(name, s): open(name,'w').write(s)
def tryrun(label, f):
    try:
        f(); print(label, "OK")
    except SystemExit as e:
        print(label, "SystemExit", e.code)
    except BaseException as e:
        print(label, "EXC", type(e).__name__, e)
# C20
w('p.gaf', "r1\t100\t0\t100\t-\tchr1\t3293\t0\t100\t100\t100\t60\ttp:A:P\tNM:i:0\tcg:Z:100=\n"
           "r2\t100\t0\t100\t+\t>s1\t3293\t0\t100\t100\t100\t60\ttp:A:P\tNM:i:0\tcg:Z:100=\n"
           "r3\t100\t0\t100\t+\t>s1\t3293\t0\t100\t100\t100\t60\ttp:A:P\tNM:i:0\tcg:Z:100=\n")
w('p.tsv', "#readname\thaplotype\tphaseset\tchromosome\nr1\tH1\t12345\tchr1\nr2\tnone\tnone\tchr1\n")
tryrun("phase", lambda: phase.run('p.gaf','p.tsv','p.out'))
print(repr(open('p.out').read()))
tryrun("phase stdout default", lambda: phase.run('p.gaf','p.tsv'))
# C07 colon in tag
w('colon.gfa', "H\tVN:Z:1.0\nS\ta\tACGT\tLN:i:4\tUR:Z:http://x/y\nS\tb\tAC\tLN:i:2\nL\ta\t+\tb\t-\t0M\nL\tb\t+\ta\t-\t0M\tXX:i:1\nL\ta\t-\ta\t+\t0M\n")
tryrun("C07 load colon", lambda: GFA('colon.gfa'))
w('c2.gfa', "H\tVN:Z:1.0\nS\ta\tACGT\tLN:i:4\nS\tb\tAC\tLN:i:2\nL\ta\t+\tb\t-\t0M\nL\tb\t+\ta\t-\t0M\tXX:i:1\nL\ta\t-\ta\t+\t0M\nL\ta\t+\ta\t-\t3M\nL\tb\t-\tb\t-\t0M\n")
g=GFA('c2.gfa'); g.write_gfa(output_file='c2.out.gfa'); print(open('c2.out.gfa').read()); g2=GFA('c2.out.gfa'); print("roundtrip equal", g.is_equal_to(g2), g.edge_tags, g2.edge_tags)
tryrun("write_graph", lambda: g.write_graph(output_file='c3.out.gfa'))
# C15 remove then stale edge_tags
g=GFA('c2.gfa'); del g['b']; print(g.edge_tags); print({k:(v.start,v.end) for k,v in g.nodes.items()})
# C06 single artic: linear 3-node chain, run under several hash seeds
w('lin3.gfa', "".join(f"S\t{i}\tACGT\tLN:i:4\tSN:Z:chrL\tSO:i:{o}\tSR:i:0\n" for i,o in [('x1',0),('x2',4),('x3',8)]) + "L\tx1\t+\tx2\t+\t0M\nL\tx2\t+\tx3\t+\t0M\n")
