import sys, random, itertools, collections, os
sys.path.insert(0,'/repo')
import logging; logging.disable(logging.CRITICAL)
from gaftools.gfa import GFA
comp=str.maketrans("ACGT","TGCA")
def rc(s): return s[::-1].translate(comp)
fl={'+':'-','-':'+'}
rng=random.Random(int(sys.argv[1]))
bad=collections.Counter(); first={}
def note(k,v):
    bad[k]+=1; first.setdefault(k,v)
for t in range(3000):
    n=rng.randint(1,5)
    seqs={f"n{i}":"".join(rng.choice("ACGTN") for _ in range(rng.randint(1,4))) for i in range(n)}
    links=set()
    for _ in range(rng.randint(0,3*n)):
        links.add((rng.choice(list(seqs)),rng.choice('+-'),rng.choice(list(seqs)),rng.choice('+-')))
    txt="".join(f"S\t{i}\t{s}\n" for i,s in seqs.items())+"".join(f"L\t{a}\t{sa}\t{b}\t{sb}\t0M\n" for a,sa,b,sb in links)
    open('g10.gfa','w').write(txt)
    g=GFA('g10.gfa')
    def joined(s1,s2):
        (o1,a),(o2,b)=s1,s2
        x1='+' if o1=='>' else '-'; x2='+' if o2=='>' else '-'
        return (a,x1,b,x2) in links or (b,fl[x2],a,fl[x1]) in links
    for _ in range(30):
        steps=[(rng.choice('<>'),rng.choice(list(seqs))) for _ in range(rng.randint(1,4))]
        p="".join(o+x for o,x in steps)
        walk=all(joined(a,b) for a,b in zip(steps,steps[1:]))
        exp="".join(seqs[x] if o=='>' else rc(seqs[x]) for o,x in steps) if walk else ""
        got=g.extract_path(p)
        if got!=exp: note("extract",(txt,p,got,exp))
        rp="".join(('<' if o=='>' else '>')+x for o,x in reversed(steps))
        got2=g.extract_path(rp)
        if (got2!="")!=(got!="") or (got and got2!=rc(got)): note("reverse",(txt,p,rp,got,got2))
    # edit histories
    g=GFA(); nodes={}; edges=set()
    ops=[]
    for _ in range(rng.randint(1,15)):
        r=rng.random()
        if r<0.35:
            i=f"v{rng.randint(0,4)}"; g.add_node(i,"A"); nodes.setdefault(i,"A"); ops.append(("addn",i))
        elif r<0.8 and nodes:
            a=rng.choice(list(nodes)); b=rng.choice(list(nodes)); sa=rng.choice('+-'); sb=rng.choice('+-'); ov=rng.choice([0,0,3])
            g.add_edge(a,sa,b,sb,ov); edges.add((a,sa,b,sb,ov)); ops.append(("adde",a,sa,b,sb,ov))
        elif nodes:
            a=rng.choice(list(nodes)); del g[a]; del nodes[a]; edges={e for e in edges if e[0]!=a and e[2]!=a}; ops.append(("del",a))
    h=GFA()
    for i in nodes: h.add_node(i,"A")
    for (a,sa,b,sb,ov) in edges: h.add_edge(a,sa,b,sb,ov)
    if not g.is_equal_to(h) or not h.is_equal_to(g): note("history",(ops,))
    for i,nd in g.nodes.items():
        for (m,side,ov) in nd.start:
            if m not in g.nodes or (i,0,ov) not in (g.nodes[m].start if side==0 else g.nodes[m].end): note("sym",(ops,))
        for (m,side,ov) in nd.end:
            if m not in g.nodes or (i,1,ov) not in (g.nodes[m].start if side==0 else g.nodes[m].end): note("sym",(ops,))
print(bad)
for k,v in first.items(): print(k,v)
