import os, sys, pickle, traceback, shutil, signal
sys.path.insert(0, '/repo')
from gaftools.cli import sort as gsort, view, index, phase, order_gfa
from gaftools.gfa import GFA
D='/repo/tests/data/'
def w(name, s): open(name,'w').write(s)
def rec(name, path, plen, ps, pe, extra="tp:A:P\tcg:Z:%d="):
    n=pe-ps
    return f"{name}\t{n}\t0\t{n}\t+\t{path}\t{plen}\t{ps}\t{pe}\t{n}\t{n}\t60\t" + (extra % n) + "\n"
class TO(Exception): pass
def alarm(*a): raise TO()
signal.signal(signal.SIGALRM, alarm)
def tryrun(label, f):
    signal.alarm(5)
    try:
        f(); print(label, "OK")
    except SystemExit as e:
        print(label, "SystemExit", e.code)
    except TO:
        print(label, "TIMEOUT (non-termination)")
    except BaseException as e:
        print(label, "EXC", type(e).__name__, e)
    finally:
        signal.alarm(0)

# C04: revisit of node + unaligned node
# smallgraph: s4 - s2 - link "L s4 - s2 -" means <s4<s2 i.e. >s2>s4 is a walk. path >s2>s3>s4<s2? need link s4+ -> s2-: not there. Use >s2>s4 ... revisit: build own graph.
w('g.gfa', "S\tn1\tAAAAAAAAAA\tLN:i:10\tSN:Z:chr1\tSO:i:0\tSR:i:0\n"
           "S\tn2\tCCCCCCCCCC\tLN:i:10\tSN:Z:chr1\tSO:i:10\tSR:i:0\n"
           "S\tn3\tGGGGGGGGGG\tLN:i:10\tSN:Z:chr1\tSO:i:20\tSR:i:0\n"
           "S\tn4\tTTTTTTTTTT\tLN:i:10\tSN:Z:chr1\tSO:i:30\tSR:i:0\n"
           "S\th1\tACACACACAC\tLN:i:10\tSN:Z:hap\tSO:i:100\tSR:i:1\n"
           "S\th2\tAGAGAGAGAG\tLN:i:10\tSN:Z:hap\tSO:i:300\tSR:i:1\n"
           "L\tn1\t+\tn2\t+\t0M\nL\tn2\t+\tn3\t+\t0M\nL\tn3\t+\tn4\t+\t0M\n"
           "L\tn1\t+\th1\t+\t0M\nL\th1\t+\tn2\t+\t0M\nL\tn3\t+\th2\t+\t0M\nL\th2\t+\tn4\t+\t0M\nL\tn2\t+\tn2\t+\t0M\n")
w('e.gaf', rec('r_rev','>n2>n2',20,2,18)+rec('r12','>n1>n2',20,5,15)+rec('r4','>n4',10,0,10)+rec('rh','>n1>h1>n2>n3>h2>n4',60,5,55))
tryrun("index unstable", lambda: index.run('e.gaf','g.gfa'))
print(pickle.load(open('e.gaf.gvi','rb')))
tryrun("C04 view -n n2 (revisit)", lambda: view.run('e.gaf', output='e.n2.out', nodes=['n2']))
print(open('e.n2.out').read())
tryrun("C04 view -n n3x (unaligned node n3? n3 aligned by rh) use nonaligned", lambda: view.run('e.gaf', output='e.x.out', nodes=['n1','zz']))
# C05 regions
tryrun("C05 region multi-node chr1:5-25", lambda: view.run('e.gaf', output='e.r.out', regions=['chr1:5-25']))
print(open('e.r.out').read())
w('f.gaf', rec('r2','>n2',10,0,10)+rec('r4','>n4',10,0,10))
tryrun("index f", lambda: index.run('f.gaf','g.gfa'))
tryrun("C05 region start in unaligned node chr1:2-12", lambda: view.run('f.gaf', output='f.r.out', regions=['chr1:2-12']))
tryrun("C05 region end beyond last aligned node chr1:32-39", lambda: view.run('f.gaf', output='f.r2.out', regions=['chr1:32-39']))
tryrun("C05 region in unaligned gap chr1:22-28", lambda: view.run('f.gaf', output='f.r3.out', regions=['chr1:22-28']))
print(repr(open('f.r3.out').read()))
# C03 stable index with separated hap segments
tryrun("to stable", lambda: view.run('e.gaf', gfa='g.gfa', output='e.stable.gaf', format='stable'))
print(open('e.stable.gaf').read())
tryrun("C03 index stable", lambda: index.run('e.stable.gaf','g.gfa'))
tryrun("back to unstable", lambda: view.run('e.stable.gaf', gfa='g.gfa', output='e.unstable2.gaf', format='unstable'))
print(open('e.unstable2.gaf').read())
