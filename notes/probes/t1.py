import os, sys, pickle, traceback, io, contextlib
sys.path.insert(0, '/repo')
import logging
from gaftools.gaf import GAF
from gaftools.cli import stat, sort as gsort, view, index

D='/repo/tests/data/'
def w(name, s):
    open(name,'w').write(s)

# --- C19 tp:A:S
w('a.gaf', "r1\t100\t0\t100\t+\t>s1\t3293\t0\t100\t100\t100\t60\ttp:A:P\tcg:Z:100=\n"
           "r1\t100\t0\t50\t+\t>s2\t341\t0\t50\t50\t50\t30\ttp:A:S\tcg:Z:50=\n"
           "r2\t100\t0\t50\t+\t>s2\t341\t0\t50\t50\t50\t0\ttp:A:P\tcg:Z:50=\n")
stat.run_stat('a.gaf', cigar_stat=True, output='a.stat')
print(open('a.stat').read())
for a in GAF('a.gaf').read_file(): print(a.is_primary, a.tags)

# --- C16 tags
w('b.gaf', "r1 extra\t100\t0\t100\t+\t>s1\t3293\t0\t100\t100\t100\t60\ttp:A:P\tNM:i:-3\tdv:f:1e-05\tid:f:.5\tXX:Z:foo_bar baz\tds:Z:=ACG*at\tBB:B:i,1,2\tNM:i:7\tzz:Z:a:b\n")
for a in GAF('b.gaf').read_file(): print(str(a))
