import sys, random, os, collections, re
from fractions import Fraction
ROOT=sys.argv[1]; sys.path.insert(0,ROOT)
import logging; logging.disable(logging.CRITICAL)
from gaftools.cli import stat, phase
rng=random.Random(int(sys.argv[2]))
bad=collections.Counter(); first={}
def note(k,v):
    bad[k]+=1; first.setdefault(k,v)
def cig():
    ops=[]; last=None
    for _ in range(rng.randint(1,6)):
        o=rng.choice([x for x in "=XID" if x!=last]); last=o
        ops.append((rng.choice([1,3,49,50,51,120]),o))
    return ops
for it in range(int(sys.argv[3])):
    recs=[]
    for k in range(rng.randint(1,20)):
        q=f"read{rng.randint(0,6)}"; ops=cig()
        qlen=rng.randint(50,400); qs=rng.randint(0,20); qe=rng.randint(qs+1,qlen)
        m=sum(n for n,o in ops if o=='='); bl=sum(n for n,o in ops)
        if bl==0: continue
        mapq=rng.choice([0,0,1,30,60]); tp=rng.choice(["tp:A:P","tp:A:S","tp:A:I",None])
        tags=[t for t in [tp,"NM:i:1"] if t]+["cg:Z:"+"".join(f"{n}{o}" for n,o in ops)]
        rng.shuffle(tags)
        recs.append(dict(line="\t".join([q,str(qlen),str(qs),str(qe),rng.choice("+-"),">s1","1000","0","100",str(m),str(bl),str(mapq)]+tags),q=q,qlen=qlen,qs=qs,qe=qe,m=m,bl=bl,mapq=mapq,tp=tp,ops=ops))
    prim=[r for r in recs if (r['tp'] in (None,"tp:A:P")) and r['mapq']>0]
    if not prim: continue
    def report(order):
        open('st.gaf','w').write("\n".join(r['line'] for r in order)+"\n")
        stat.run_stat('st.gaf',cigar_stat=True,output='st.out')
        return open('st.out').read()
    try: out=report(recs)
    except BaseException as e: note("EXC "+type(e).__name__,(recs,)); continue
    d=dict(re.findall(r"^\s*([A-Za-z][^:\n]*): (.*)$",out,re.M))
    reads=collections.defaultdict(list)
    for r in prim: reads[r['q']].append(r)
    exp={"Total alignments":str(len(recs)),"Primary":str(len(prim)),"Secondary":str(len(recs)-len(prim)),
         "Reads with at least one alignment":str(len(reads)),"Total aligned bases":str(sum(r['m'] for r in prim))}
    for k,v in exp.items():
        if d.get(k)!=v: note("C19 "+k,(d.get(k),v,[r['line'] for r in recs]))
    avg_id=sum(max(Fraction(r['m'],r['bl']) for r in rs) for rs in reads.values())/len(reads)
    avg_mr=sum(max(Fraction(r['qe']-r['qs'],r['qlen']) for r in rs) for rs in reads.values())/len(reads)
    for k,v in (("Average highest sequence identity",avg_id),("Average highest map ratio",avg_mr)):
        if abs(float(d[k])-float(v))>0.0006: note("C19 "+k,(d[k],float(v)))
    cnt=collections.Counter(); big=collections.Counter()
    for r in prim:
        for n,o in r['ops']:
            cnt[o]+=1; big[o]+= n>=50
    m=re.search(r"deletion regions: (\d+) \((\d+) .*insertion regions: (\d+) \((\d+) .*substitution regions: (\d+) \((\d+) .*match regions: (\d+) \((\d+)",out,re.S)
    got=tuple(map(int,m.groups())); want=(cnt['D'],big['D'],cnt['I'],big['I'],cnt['X'],big['X'],cnt['='],big['='])
    if got!=want: note("C19 cigar",(got,want))
    sh=recs[:]; rng.shuffle(sh); out2=report(sh)
    if out2!=out: note("C19 perm",(out,out2))
    # ---- C20 phase
    tsv=["#readname\thaplotype\tphaseset\tchromosome"]; ph={}
    for q in {r['q'] for r in recs}:
        if rng.random()<0.7:
            for _ in range(rng.randint(1,2)):
                hap=rng.choice(["H1","H2","none"]); ps=str(rng.randint(1,99999)) if hap!="none" else "none"; c=rng.choice(["chr1","chr2"])
                tsv.append(f"{q}\t{hap}\t{ps}\t{c}"); ph.setdefault(q,(hap,ps,c))
    open('ph.tsv','w').write("\n".join(tsv)+"\n")
    open('st.gaf','w').write("\n".join(r['line'] for r in recs)+"\n")
    try:
        phase.run('st.gaf','ph.tsv','ph.out')
    except BaseException as e: note("phase EXC "+type(e).__name__,()); continue
    outl=open('ph.out').read().split("\n")
    if len(outl)!=len(recs): note("C20 count",(len(outl),len(recs)))
    for r,o in zip(recs,outl):
        fi=r['line'].split("\t"); fo=o.split("\t")
        if fo[:12]!=fi[:12]: note("C20 cols",(fi[:12],fo[:12]))
        rest=[x for x in fo[12:] if x[:5] not in ("ps:Z:","ht:Z:")]
        if rest!=fi[12:]: note("C20 tags",(fi[12:],fo[12:]))
        hap,ps,c=ph.get(r['q'],("none",None,None))
        want=(f"ps:Z:{c}-{ps}",f"ht:Z:{hap}") if hap!="none" else ("ps:Z:none","ht:Z:none")
        got=tuple(x for x in fo[12:] if x[:5] in ("ps:Z:","ht:Z:"))
        if got!=want: note("C20 values",(got,want))
        if "" in fo: note("C20 empty field",(o,))
print(bad)
for k,v in first.items(): print(k,str(v)[:700])
