import sys, random, os, time
ROOT=sys.argv[1]; sys.path.insert(0,ROOT)
import logging; logging.disable(logging.CRITICAL)
from gaftools.gfa import GFA
from gaftools.cli.realign import run_realign
rng=random.Random(3)
G='/repo/tests/data/smallgraph.gfa'; g=GFA(G)
paths=['>s1>s2','>s2>s3','>s2>s464827>s3','>s4>s5','<s5<s4','>s7','>s8>s9','<s464827','>s3>s4>s5>s6','>s2>s4','<s4<s2']
recs=[];fa=[]
N=2300
for k in range(N):
    p=rng.choice(paths); seq=g.extract_path(p); L=len(seq)
    a=rng.randrange(0,L-20); b=min(L,a+rng.randint(20,150)); ref=seq[a:b]
    q="".join(c if rng.random()>0.03 else rng.choice("ACGT") for c in ref)
    fa.append(f">rd{k}\n{q}\n"); n=len(q)
    recs.append(f"rd{k}\t{n}\t0\t{n}\t+\t{p}\t{L}\t{a}\t{b}\t{n}\t{n}\t60\tNM:i:0\tcg:Z:{n}=")
# one long pass-through record (> 60000 read bases)
p='>s1>s2>s3>s4>s5>s6>s7>s8>s9'; seq=g.extract_path(p); 
big=(seq*4)[:60050]
fa.append(f">big\n{big}\n"); recs.insert(5,f"big\t60050\t0\t60050\t+\t{p}\t{len(seq)}\t0\t{len(seq)}\t1\t2\t7\tNM:i:5\tcg:Z:60050=")
open('rm.fa','w').write("".join(fa)); open('rm.gaf','w').write("\n".join(recs)+"\n")
outs={}
for c in (1,3,4):
    if os.path.exists('rm.fa.fai'): os.remove('rm.fa.fai')
    t=time.time(); run_realign('rm.gaf',G,'rm.fa',output=f'rm{c}.out',cores=c); outs[c]=open(f'rm{c}.out').read(); print("cores",c,"lines",outs[c].count("\n"),"%.1fs"%(time.time()-t))
print("identical:", outs[1]==outs[3]==outs[4], "count ok:", outs[1].count("\n")==N+1)
l=[x for x in outs[1].splitlines() if x.startswith("big\t")][0]; print("passthrough unchanged:", l==recs[5])
print("order ok:", [x.split("\t")[0] for x in outs[1].splitlines()]==[x.split("\t")[0] for x in recs])
