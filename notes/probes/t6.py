import sys, queue, io
sys.path.insert(0, '/repo')
import gaftools.cli.realign as R
D='/repo/tests/data/'
class FakeQ:
    inst=[]
    def __init__(self): self.items=[]; self.script=None; FakeQ.inst.append(self)
    def put(self, x): self.items.append(x)
    def get(self, timeout=None):
        act = SCRIPT.pop(0) if SCRIPT else 'item'
        if act=='empty': raise queue.Empty
        if not self.items: raise queue.Empty
        return self.items.pop(0)
class FakeP:
    def __init__(self, target, args): self.t=target; self.a=args; self.exitcode=None; self.alive=False
    def start(self): self.t(*self.a); self.exitcode=0   # ran to completion instantly, results "in flight"
    def is_alive(self): return False
    def join(self): pass
class FakeMP:
    Queue=FakeQ; Process=FakeP
    @staticmethod
    def cpu_count(): return 16
R.mp=FakeMP
for script in (['item','empty'], ['empty'], ['item','item','empty','item']):
    SCRIPT=list(script)
    out=io.StringIO()
    try:
        R.realign_gaf(D+'alignments-graphaligner.gaf', D+'smallgraph.gfa', D+'reads.fa', out, 1)
        print(script, '->', [l.split('\t')[0] for l in out.getvalue().splitlines()])
    except BaseException as e:
        print(script, 'EXC', type(e).__name__, e)
