# probe C08/C09/C10 (+C03/C04/C05, C16 light) on a code tree given as argv[1]
import sys, random, os, pickle, re, collections, io
ROOT=sys.argv[1]; sys.path.insert(0,ROOT)
import logging; logging.disable(logging.CRITICAL)
from gaftools.cli import sort as gsort, index, view
from gaftools.cli import CommandLineError
from pysam import libcbgzf
rng=random.Random(int(sys.argv[2]))
bad=collections.Counter(); first={}
def note(k,v):
    bad[k]+=1; first.setdefault(k,v)

def gen_graph():
    # 1-3 chromosomes, each a chain; nodes get BO/NO (some -1), SR, SN, SO, LN
    segs={}; links=set(); chroms=[]
    nid=0; bo=0
    for c in range(rng.randint(1,3)):
        name=f"chr{c+1}"; so=0; prev=None
        for k in range(rng.randint(2,5)):
            nid+=1; s=f"s{nid}"; L=rng.randint(1,9)
            segs[s]=dict(SN=name,SO=so,LN=L,SR=0,BO=bo,NO=0); so+=L; bo+=1
            if prev: 
                # bubble between prev and s
                inner=[]
                for j in range(rng.randint(0,3)):
                    nid+=1; h=f"s{nid}"; Lh=rng.randint(1,9)
                    ref = (j==0 and rng.random()<0.7)
                    segs[h]=dict(SN=name if ref else f"hap{nid}",SO=(so if ref else rng.randint(0,99)),LN=Lh,SR=0 if ref else rng.randint(1,5),BO=bo-1 if False else None,NO=j+1)
                    inner.append(h)
                # fix BO: bubble gets its own BO between prev and s: reassign
                if inner:
                    b=segs[s]['BO']; segs[s]['BO']=b+1; bo+=1
                    for h in inner: segs[h]['BO']=b
                    for h in inner:
                        links.add((prev,'+',h,'+')); links.add((h,'+',s,'+'))
                        if rng.random()<0.3: links.add((prev,'+',h,'-')); links.add((h,'-',s,'+'))
                links.add((prev,'+',s,'+'))
            prev=s
        chroms.append(name)
    # some untagged nodes
    for s in list(segs):
        if rng.random()<0.08: segs[s]['BO']=-1; segs[s]['NO']=-1
    return segs,links
def gfa_text(segs,links):
    out=[f"S\t{i}\t*\tLN:i:{d['LN']}\tSN:Z:{d['SN']}\tSO:i:{d['SO']}\tSR:i:{d['SR']}\tBO:i:{d['BO']}\tNO:i:{d['NO']}" for i,d in segs.items()]
    out+=[f"L\t{a}\t{x}\t{b}\t{y}\t0M" for a,x,b,y in links]
    return "\n".join(out)+"\n"
def walks(segs,links,n):
    fl={'+':'-','-':'+'}; adj=collections.defaultdict(list)
    for a,x,b,y in links: adj[(a,x)].append((b,y)); adj[(b,fl[y])].append((a,fl[x]))
    res=[]
    comp_of={s:d['SN'] for s,d in segs.items()}
    for _ in range(n):
        cur=(rng.choice(list(segs)),rng.choice('+-')); w=[cur]
        for _ in range(rng.randint(0,5)):
            nx=adj.get(cur)
            if not nx: break
            cur=rng.choice(nx); w.append(cur)
        res.append(w)
    return res
def expected_keys(w,segs,plen,ps,pe):
    orient=[o for n,o in w if segs[n]['BO']!=-1 and segs[n]['NO']!=-1 and segs[n]['NO']==0]
    f=orient.count('+'); r=orient.count('-')
    inv=1 if f and r else 0
    if f<r: anchor=w[-1][0]; start=plen-pe
    else: anchor=w[0][0]; start=ps
    sns={segs[n]['SN'] for n,o in w if segs[n]['SR']==0}
    sn = sns.pop() if len(sns)==1 else ('unknown' if not sns else None)
    return segs[anchor]['BO'],segs[anchor]['NO'],start,inv,sn

for it in range(int(sys.argv[3])):
    segs,links=gen_graph(); open('ps.gfa','w').write(gfa_text(segs,links))
    recs=[];keys=[]
    for k,w in enumerate(walks(segs,links,rng.randint(1,25))):
        path="".join(('>' if o=='+' else '<')+n for n,o in w); plen=sum(segs[n]['LN'] for n,o in w)
        ps=rng.randrange(0,plen); pe=rng.randrange(ps+1,plen+1); n=pe-ps
        key=expected_keys(w,segs,plen,ps,pe)
        if key[4] is None: continue   # touches two reference contigs: outside quantifier
        tags=rng.choice(["tp:A:P\tNM:i:0","NM:i:-2\tdv:f:1e-05\tXX:Z:a_b:c d","tp:A:S\tzz:B:i,1,-2"])
        recs.append(f"r{k}\t{n}\t0\t{n}\t+\t{path}\t{plen}\t{ps}\t{pe}\t{n}\t{n}\t{rng.choice([0,60])}\t{tags}\tcg:Z:{n}="); keys.append(key)
    if not recs: continue
    open('ps.gaf','w').write("\n".join(recs)+"\n")
    bg = rng.random()<0.3
    inp='ps.gaf'
    if bg:
        f=libcbgzf.BGZFile('ps.gaf.gz','wb'); f.write(("\n".join(recs)+"\n").encode()); f.close(); inp='ps.gaf.gz'
    outbg = rng.random()<0.3
    out='ps.sorted.gaf'+('.gz' if outbg else '')
    for f in (out,out+'.gsi'):
        if os.path.exists(f): os.remove(f)
    try:
        gsort.run_sort(gfa='ps.gfa',gaf=inp,outgaf=out,bgzip=outbg)
    except BaseException as e:
        note("sort EXC "+type(e).__name__,(gfa_text(segs,links),recs)); continue
    if outbg: lines=libcbgzf.BGZFile(out,'rb').read().decode().splitlines()
    else: lines=open(out).read().splitlines()
    # C09
    exp={r:k for r,k in zip(recs,keys)}
    stripped=["\t".join(l.split("\t")[:-3]) for l in lines]
    if sorted(stripped)!=sorted(recs): note("C09 perm",(recs,lines))
    okeys=[]
    for l,s in zip(lines,stripped):
        if s not in exp: continue
        bo,no,start,inv,sn=exp[s]
        t=l.split("\t")[-3:]
        if t!=[f"bo:i:{bo}",f"sn:Z:{sn}",f"iv:i:{inv}"]: note("C09 tags",(l,exp[s]))
        okeys.append(((1,0,0,0) if bo==-1 else (0,bo,no,start), recs.index(s)))
    # C08: sorted by key then input position
    if okeys!=sorted(okeys): note("C08 order",(gfa_text(segs,links),recs,lines))
    # C10
    try: gsi=pickle.load(open(out+'.gsi','rb'))
    except Exception as e: note("C10 noindex",(str(e),)); continue
    sns=[l.split("\t")[-2][5:] for l in lines]
    if set(gsi)!=set(sns)-{'unknown'}: note("C10 keys",(gsi,set(sns)))
    h=libcbgzf.BGZFile(out,'rb') if outbg else open(out,'rb')
    offs=[]
    while True:
        o=h.tell(); l=h.readline()
        if not l: break
        offs.append(o)
    for c,(a,b) in gsi.items():
        idx=[i for i,s in enumerate(sns) if s==c]
        if a!=offs[idx[0]] or b!=offs[idx[-1]]: note("C10 offsets",(c,a,b,offs,idx))
print(bad)
for k,v in first.items(): print(k, str(v)[:1500])
