import sys, random, re, os, collections
sys.path.insert(0,'/repo')
import logging; logging.disable(logging.CRITICAL)
from gaftools.cli import view
comp=str.maketrans("ACGT","TGCA")
def rc(s): return s[::-1].translate(comp)

def gen_graph(rng):
    segs=[]  # (id, seq, contig, so, rank)
    links=[]
    nid=0
    def new(seq,c,so,r):
        nonlocal nid; nid+=1; i=f"s{nid}"; segs.append((i,seq,c,so,r)); return i
    def rs(n): return "".join(rng.choice("ACGT") for _ in range(n))
    refs=[]
    for c in range(rng.randint(1,2)):
        name=f"chr{c+1}"; so=0; ids=[]
        for k in range(rng.randint(1,6)):
            L=rng.randint(1,6); ids.append(new(rs(L),name,so,0)); so+=L
        for a,b in zip(ids,ids[1:]): links.append((a,'+',b,'+'))
        refs.append(ids)
    for h in range(rng.randint(0,3)):
        name=f"hap{h+1}"; so=rng.randint(0,50); r=rng.randint(1,5)
        for k in range(rng.randint(1,3)):
            L=rng.randint(1,6); i=new(rs(L),name,so,r); so+=L+rng.choice([0,0,3,10])
    allids=[s[0] for s in segs]
    for _ in range(rng.randint(2,3*len(allids))):
        links.append((rng.choice(allids),rng.choice('+-'),rng.choice(allids),rng.choice('+-')))
    return segs,links

def gfa_text(segs,links):
    out=[]
    for (i,seq,c,so,r) in segs: out.append(f"S\t{i}\t{seq}\tLN:i:{len(seq)}\tSN:Z:{c}\tSO:i:{so}\tSR:i:{r}")
    seen=set()
    for (a,sa,b,sb) in links:
        if (a,sa,b,sb) in seen: continue
        seen.add((a,sa,b,sb)); out.append(f"L\t{a}\t{sa}\t{b}\t{sb}\t0M")
    return "\n".join(out)+"\n"

def adjacency(links):
    adj=collections.defaultdict(set)  # (node, orient) -> set of (node, orient)
    fl={'+':'-','-':'+'}
    for (a,sa,b,sb) in links:
        adj[(a,sa)].add((b,sb)); adj[(b,fl[sb])].add((a,fl[sa]))
    return adj

def gen_walk(rng,segs,adj):
    cur=(rng.choice(segs)[0],rng.choice('+-')); w=[cur]
    for _ in range(rng.randint(0,6)):
        nx=sorted(adj.get(cur,()))
        if not nx: break
        cur=rng.choice(nx); w.append(cur)
    return w

def spell_unstable(path,seqd):
    out=""
    for o,n in re.findall(r"([<>])([^<>]+)",path):
        out+= seqd[n] if o=='>' else rc(seqd[n])
    return out
def contig_seq(segs,c,s,e):
    # concatenate segments of contig c covering exactly [s,e)
    parts=sorted([x for x in segs if x[2]==c and x[3]<e and x[3]+len(x[1])>s], key=lambda x:x[3])
    out=""; pos=None
    for x in parts:
        if pos is not None and x[3]!=pos: return None
        out+=x[1]; pos=x[3]+len(x[1])
    if not parts: return None
    s0=parts[0][3]
    return out[s-s0:e-s0] if (s>=s0 and e<=pos) else None
def locus(fields,segs,seqd):
    strand,path,plen,ps,pe=fields[4],fields[5],int(fields[6]),int(fields[7]),int(fields[8])
    if path[0] in '<>' and ':' not in path:
        sp=spell_unstable(path,seqd); assert len(sp)==plen,("plen",len(sp),plen); return sp[ps:pe]
    if path[0] in '<>':
        sp=""
        for o,c,s,e in re.findall(r"([<>])([^<>:]+):(\d+)-(\d+)",path):
            cs=contig_seq(segs,c,int(s),int(e)); assert cs is not None,("tile",c,s,e)
            sp+= cs if o=='>' else rc(cs)
        assert len(sp)==plen,("plen",len(sp),plen); return sp[ps:pe]
    clen=sum(len(x[1]) for x in segs if x[2]==path); assert clen==plen,("clen",clen,plen)
    cs=contig_seq(segs,path,ps,pe); assert cs is not None
    return cs if strand=='+' else rc(cs)

def run(seed):
    rng=random.Random(seed)
    segs,links=gen_graph(rng); seqd={s[0]:s[1] for s in segs}; adj=adjacency(links)
    open('g8.gfa','w').write(gfa_text(segs,links))
    recs=[]
    for k in range(8):
        w=gen_walk(rng,segs,adj)
        path="".join(('>' if o=='+' else '<')+n for n,o in w)
        plen=sum(len(seqd[n]) for n,o in w)
        canon = rng.random()<0.6
        if canon:
            f=len(seqd[w[0][0]]); l=len(seqd[w[-1][0]])
            ps=rng.randrange(0,f); pe=rng.randrange(max(plen-l,ps)+1,plen+1)
        else:
            ps=rng.randrange(0,plen); pe=rng.randrange(ps+1,plen+1)
        n=pe-ps
        cg = f"{n}=" if n<3 else f"{n-2}=1X1="
        recs.append(f"r{k}\t{n}\t0\t{n}\t+\t{path}\t{plen}\t{ps}\t{pe}\t{n}\t{n}\t60\ttp:A:P\tcg:Z:{cg}")
        recs[-1]=(recs[-1],canon)
    open('u8.gaf','w').write("\n".join(r for r,c in recs)+"\n")
    view.run('u8.gaf', gfa='g8.gfa', output='s8.gaf', format='stable')
    st=[l.rstrip("\n") for l in open('s8.gaf')]
    assert len(st)==len(recs),"count"
    bad=[]
    for (r,c),s in zip(recs,st):
        fi=r.split("\t"); fo=s.split("\t")
        try:
            a=locus(fi,segs,seqd); b=locus(fo,segs,seqd)
            if a!=b: bad.append(("locus U->S",r,s))
            flipped = fo[4]=='-'
            cin=fi[-1]; cout=fo[-1]
            toks=re.findall(r"\d+\D",cin); exp="".join(reversed(toks)) if flipped else cin
            if cout!=exp: bad.append(("cigar",r,s))
        except AssertionError as e: bad.append(("assert U->S "+str(e),r,s))
    view.run('s8.gaf', gfa='g8.gfa', output='u8b.gaf', format='unstable')
    ub=[l.rstrip("\n") for l in open('u8b.gaf')]
    for (r,c),s,u in zip(recs,st,ub):
        fs=s.split("\t"); fu=u.split("\t")
        try:
            a=locus(fs,segs,seqd); b=locus(fu,segs,seqd)
            if a!=b: bad.append(("locus S->U",s,u))
        except AssertionError as e: bad.append(("assert S->U "+str(e),s,u))
        if c and u!=r: bad.append(("roundtrip U->S->U",r,s,u))
    # S->U->S
    view.run('u8b.gaf', gfa='g8.gfa', output='s8b.gaf', format='stable')
    sb=[l.rstrip("\n") for l in open('s8b.gaf')]
    for s,s2 in zip(st,sb):
        if s!=s2: bad.append(("roundtrip S->U->S",s,s2))
    return bad
tot=0
kinds=collections.Counter()
first={}
for seed in range(int(sys.argv[1]), int(sys.argv[2])):
    try:
        bad=run(seed)
    except BaseException as e:
        bad=[("EXC "+type(e).__name__+" "+str(e)[:80],)]
    for b in bad:
        kinds[b[0][:40]]+=1
        first.setdefault(b[0][:40],(seed,b))
print(kinds)
for k,v in first.items(): print(k, v)
