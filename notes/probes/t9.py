import sys, random, itertools, collections
sys.path.insert(0,'/repo')
import logging; logging.disable(logging.CRITICAL)
import networkx as nx
from gaftools.gfa import GFA
def build(n, edges):
    g=GFA()
    for i in range(n): g.add_node(f"v{i}", "A")
    for (a,sa,b,sb) in edges: g.add_edge(f"v{a}",sa,f"v{b}",sb,0)
    return g
def check(n, edges):
    g=build(n,edges)
    G=nx.Graph(); G.add_nodes_from(f"v{i}" for i in range(n)); G.add_edges_from((f"v{a}",f"v{b}") for a,_,b,_ in edges if a!=b)
    bad=[]
    # components
    cc=g.all_components()
    if sorted(map(sorted,cc))!=sorted(map(sorted,nx.connected_components(G))): bad.append(("cc",cc))
    if nx.is_connected(G):
        comps,aps=g.biccs()
        tc=sorted(map(sorted,nx.biconnected_components(G))); ta=set(nx.articulation_points(G))
        if sorted(map(sorted,comps))!=tc or set(aps)!=ta: bad.append(("bicc",sorted(map(sorted,comps)),sorted(aps),tc,sorted(ta)))
    for i in range(n):
        d=g.dfs(f"v{i}")
        if sorted(d)!=sorted(nx.node_connected_component(G,f"v{i}")) or len(d)!=len(set(d)): bad.append(("dfs",i,d))
    return bad
rng=random.Random(int(sys.argv[1]))
cnt=collections.Counter(); first={}
# exhaustive small simple graphs up to 5 nodes (orientation ++), then random multigraphs
for n in range(1,6):
    pairs=list(itertools.combinations(range(n),2))
    for mask in range(1<<len(pairs)):
        edges=[(a,'+',b,'+') for k,(a,b) in enumerate(pairs) if mask>>k&1]
        for b in check(n,edges):
            cnt[b[0]]+=1; first.setdefault(b[0],(n,edges,b))
print("exhaustive<=5:",cnt)
for t in range(20000):
    n=rng.randint(1,9); m=rng.randint(0,2*n)
    edges=[(rng.randrange(n),rng.choice('+-'),rng.randrange(n),rng.choice('+-')) for _ in range(m)]
    for b in check(n,edges):
        cnt[b[0]]+=1; first.setdefault(b[0],(n,edges,b))
print("random:",cnt)
for k,v in first.items(): print(k,v)
