# smoke: compression independence for every sub-command (C17) + find_path file mode (C14) on ROOT
import sys, os, gzip, shutil, random, subprocess, pickle, io
ROOT=sys.argv[1]; sys.path.insert(0,ROOT)
import logging; logging.disable(logging.CRITICAL)
from pysam import libcbgzf
from gaftools.cli import view, index, sort as gsort, stat, find_path, order_gfa, realign, phase
from gaftools.gaf import GAF
D='/repo/tests/data/'
rng=random.Random(5)
shutil.copy(D+'smallgraph.gfa','c17.gfa'); 
with open('c17.gfa','rb') as f, gzip.open('c17z.gfa.gz','wb') as g: g.write(f.read())
shutil.copy(D+'smallgraph-ordered.gfa','c17o.gfa')
with open('c17o.gfa','rb') as f, gzip.open('c17oz.gfa.gz','wb') as g: g.write(f.read())
nodes={'s1':3293,'s2':341,'s3':62,'s4':1032,'s5':337,'s6':6604,'s7':59,'s8':6365,'s9':3744,'s464827':186,'s575719':126,'s644045':96}
paths=['>s1>s2','>s2>s3','>s2>s464827>s3','>s4>s5','<s5<s4','>s7','>s8>s9','<s464827','>s3>s4>s5>s6','>s2>s4']
from gaftools.gfa import GFA
G=GFA('c17.gfa')
lines=[];fa=[]
for i in range(1500):
    p=rng.choice(paths); seq=G.extract_path(p); L=len(seq)
    a=rng.randrange(0,L-1); b=min(L,a+rng.randint(1,120)); n=b-a
    fa.append(f">read{i}\n{seq[a:b]}\n")
    lines.append(f"read{i}\t{n}\t0\t{n}\t+\t{p}\t{L}\t{a}\t{b}\t{n}\t{n}\t{rng.choice([0,60])}\ttp:A:{rng.choice('PS')}\tNM:i:0\tcg:Z:{n}=\tXX:Z:{'x'*rng.randint(0,120)}\n")
txt="".join(lines); open('c17.gaf','w').write(txt); open('c17.fa','w').write("".join(fa))
f=libcbgzf.BGZFile('c17.gaf.gz','wb'); f.write(txt.encode()); f.close()
print("sizes", os.path.getsize('c17.gaf'), os.path.getsize('c17.gaf.gz'))
res={}
def rd(p): return open(p).read()
ok=True
def same(name,a,b):
    global ok
    if a!=b: ok=False; print("DIFF",name)
    else: print("same",name)
# view whole, view format, index+view nodes, regions
for gaf in ('c17.gaf','c17.gaf.gz'):
    for gfa in ('c17.gfa','c17z.gfa.gz'):
        k=(gaf,gfa)
        view.run(gaf,output='o1'); a=rd('o1')
        view.run(gaf,gfa=gfa,output='o2',format='stable'); b=rd('o2')
        index.run(gaf,gfa); 
        view.run(gaf,gfa=gfa,output='o3',nodes=['s3','s464827'],format='stable'); c=rd('o3')
        view.run(gaf,output='o4',regions=['chr1:3600-3700']); d=rd('o4')
        open('o2s.gaf','w').write(b)
        if gaf.endswith('.gz'):
            f=libcbgzf.BGZFile('o2s.gaf.gz','wb'); f.write(b.encode()); f.close(); sg='o2s.gaf.gz'
        else: sg='o2s.gaf'
        index.run(sg,gfa); view.run(sg,gfa=gfa,output='o5',nodes=['s3'],format='unstable'); e=rd('o5')
        stat.run_stat(gaf,cigar_stat=True,output='o6'); s=rd('o6')
        res[k]=(a,b,c,d,e,s)
ks=list(res)
for k in ks[1:]: same("view/index/stat "+str(k), res[ks[0]], res[k])
# sort
srt={}
for gaf in ('c17.gaf','c17.gaf.gz'):
    for gfa in ('c17o.gfa','c17oz.gfa.gz'):
        gsort.run_sort(gfa=gfa,gaf=gaf,outgaf='so.gaf'); srt[(gaf,gfa)]=rd('so.gaf')
ks=list(srt)
for k in ks[1:]: same("sort "+str(k), srt[ks[0]], srt[k])
# realign (subset of 100 records for time)
open('c17s.gaf','w').write("".join(lines[:120])); f=libcbgzf.BGZFile('c17s.gaf.gz','wb'); f.write("".join(lines[:120]).encode()); f.close()
ra={}
for gaf in ('c17s.gaf','c17s.gaf.gz'):
    for gfa in ('c17.gfa','c17z.gfa.gz'):
        for fx in ('c17.fa.fai',):
            if os.path.exists(fx): os.remove(fx)
        realign.run_realign(gaf,gfa,'c17.fa',output='ra.gaf',cores=1); ra[(gaf,gfa)]=rd('ra.gaf')
ks=list(ra)
for k in ks[1:]: same("realign "+str(k), ra[ks[0]], ra[k])
# find_path file mode, both graphs
open('fp.txt','w').write("\n".join(paths+['>s1>s3'])+"\n")
fp={}
for gfa in ('c17.gfa','c17z.gfa.gz'):
    find_path.run(gfa,'fp.txt',output='fp.out',fasta=True); fp[gfa]=rd('fp.out')
same("find_path", fp['c17.gfa'], fp['c17z.gfa.gz'])
exp="".join(f">seq_{p}\n{G.extract_path(p)}\n" for p in paths+['>s1>s3'])
same("find_path vs expected", fp['c17.gfa'], exp)
# order_gfa both
og={}
for gfa in ('c17.gfa','c17z.gfa.gz'):
    shutil.rmtree('og',ignore_errors=True); order_gfa.run_order_gfa(gfa,'og',by_chrom=False,chromosome_order='chr1',with_sequence=True)
    og[gfa]={f:sorted(open('og/'+f).read().splitlines()) for f in os.listdir('og')}
    print(sorted(og[gfa]))
same("order_gfa contents", sorted(og['c17.gfa'].values()), sorted(og['c17z.gfa.gz'].values()))
print("ALL SAME" if ok else "SOME DIFF")
