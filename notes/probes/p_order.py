# probe C06/C07/C18 with networkx oracle; run with python3-vt ; argv: ROOT seed iters
import sys, random, os, shutil, collections, itertools
ROOT=sys.argv[1]; sys.path.insert(0,ROOT)
import logging; logging.disable(logging.CRITICAL)
import networkx as nx
from gaftools.cli import order_gfa
rng=random.Random(int(sys.argv[2]))
bad=collections.Counter(); first={}
def note(k,v):
    bad[k]+=1; first.setdefault(k,v)
IDSTYLE=None
def gen_chrom(name, ids, broken=None):
    """returns segs(list of (id, sn, so, sr, seq, extratags)), links(list of (a,da,b,db,ov,tags))"""
    segs=[];links=[]
    def rs(n): return "".join(rng.choice("ACGT") for _ in range(n))
    def new(sn,so,sr):
        i=next(ids); L=rng.randint(1,6); extra=rng.choice([[],["XT:Z:a:b c"],["x1:i:-5","zz:f:1e-3"]])
        segs.append([i,sn,so,sr,rs(L),extra]); return i,L
    so=0
    def link(a,da,b,db):
        tags=rng.choice([[],["SR:i:0"],["L1:i:3","L2:i:4"]])
        if rng.random()<0.5: links.append((a,da,b,db,0,tags))
        else:
            fl={'+':'-','-':'+'}; links.append((b,fl[db],a,fl[da],0,tags))     # declared from the other end
    nsc=rng.randint(4,7)
    prev,L=new(name,so,0); so+=L
    scaff=[prev]
    hapc=0
    for k in range(nsc-1):
        kind=rng.choice(['snp','ins','del','inv','multi','nested','none'])
        inner_ref=[]
        if kind in ('snp','multi','nested','inv','del'):
            r,L=new(name,so,0); so+=L; inner_ref=[r]
        nxt,Ln=new(name,so,0); so+=Ln
        if kind=='none':
            link(prev,'+',nxt,'+')
        elif kind=='ins':
            h,_=new(f"{name}_h{hapc}",rng.randint(0,500),rng.randint(1,9)); hapc+=1
            link(prev,'+',nxt,'+'); link(prev,'+',h,'+'); link(h,'+',nxt,'+')
        elif kind=='del':
            r=inner_ref[0]; link(prev,'+',r,'+'); link(r,'+',nxt,'+'); link(prev,'+',nxt,'+')
        elif kind=='snp':
            r=inner_ref[0]; h,_=new(f"{name}_h{hapc}",rng.randint(0,500),rng.randint(1,9)); hapc+=1
            for x in (r,h): link(prev,'+',x,'+'); link(x,'+',nxt,'+')
        elif kind=='inv':
            r=inner_ref[0]; link(prev,'+',r,'+'); link(r,'+',nxt,'+'); link(prev,'+',r,'-'); link(r,'-',nxt,'+')
            h,_=new(f"{name}_h{hapc}",rng.randint(0,500),rng.randint(1,9)); hapc+=1
            link(prev,'+',h,'+'); link(h,'+',nxt,'+')
        elif kind=='multi':
            r=inner_ref[0]; h1,_=new(f"{name}_h{hapc}",10,2); h2,_=new(f"{name}_h{hapc}",200,2); hapc+=1
            link(prev,'+',r,'+'); link(r,'+',nxt,'+'); link(prev,'+',h1,'+'); link(h1,'+',h2,'+'); link(h2,'+',nxt,'+')
        elif kind=='nested':
            r=inner_ref[0]; h1,_=new(f"{name}_h{hapc}",10,2); h2,_=new(f"{name}_h{hapc+1}",20,3); h3,_=new(f"{name}_h{hapc+1}",90,3); hapc+=2
            link(prev,'+',r,'+'); link(r,'+',nxt,'+'); link(prev,'+',h1,'+'); link(h1,'+',nxt,'+'); link(h1,'+',h2,'+'); link(h2,'+',h3,'+'); link(h3,'+',nxt,'+'); link(r,'+',h3,'+')
        prev=nxt; scaff.append(nxt)
    if rng.random()<0.3: links.append((scaff[0],'+',scaff[0],'-',0,[]))   # self link
    if broken=='tips':
        m=scaff[len(scaff)//2]
        for _ in range(2):
            t,_=new(f"{name}_t",rng.randint(0,50),4); link(m,'+',t,'+')
    if broken=='cycle3':
        # three cut vertices on one cycle: add cycle through scaffold[0], two new hubs each with a pendant
        a=scaff[0]; b,_=new(f"{name}_c",5,5); c,_=new(f"{name}_c",50,5)
        link(a,'-',b,'+'); link(b,'+',c,'+'); link(c,'+',a,'-')
        pb,_=new(f"{name}_p",5,6); pc,_=new(f"{name}_q",5,7); link(b,'+',pb,'+'); link(c,'+',pc,'+')
    return segs,links
def idgen(style):
    k=0
    while True:
        k+=1
        yield {'s':f"s{k}",'num':str(k),'mixed':(str(k) if k%2 else f"n{k}")}[style]
def text(segs,links,stale):
    L=[]
    for i,sn,so,sr,seq,extra in segs:
        t=[f"LN:i:{len(seq)}",f"SN:Z:{sn}",f"SO:i:{so}",f"SR:i:{sr}"]+extra
        if stale and rng.random()<0.5: t+= [f"BO:i:{rng.randint(0,50)}",f"NO:i:{rng.randint(0,5)}"]
        L.append("\t".join(["S",i,seq]+t))
    for a,da,b,db,ov,tags in links: L.append("\t".join(["L",a,da,b,db,f"{ov}M"]+tags))
    L.append("H\tVN:Z:1.0")
    rng.shuffle(L)
    return "\n".join(L)+"\n"
def read_gfa(path):
    S={};Ls=[];order=[]
    for l in open(path):
        f=l.rstrip("\n").split("\t")
        if f[0]=='S': S[f[1]]=(f[2],f[3:]); order.append(('S',f[1]))
        elif f[0]=='L': Ls.append(tuple(f[1:])); order.append(('L',))
    return S,Ls,order
for it in range(int(sys.argv[3])):
    style=rng.choice(['s','num','mixed']); ids=idgen(style)
    nchr=rng.randint(1,3); chroms=[f"chr{c+1}" for c in range(nchr)]
    brokenset={c:(rng.choice(['tips','cycle3']) if rng.random()<0.25 else None) for c in chroms}
    allsegs=[];alllinks=[];per={}
    for c in chroms:
        s,l=gen_chrom(c,ids,brokenset[c]); per[c]=(s,l); allsegs+=s; alllinks+=l
    withseq=rng.random()<0.5; bychrom=rng.random()<0.5
    order=chroms[:]; rng.shuffle(order)
    open('po.gfa','w').write(text(allsegs,alllinks,stale=rng.random()<0.5))
    shutil.rmtree('po_out',ignore_errors=True)
    try:
        order_gfa.run_order_gfa('po.gfa','po_out',by_chrom=bychrom,chromosome_order=",".join(order),with_sequence=withseq)
    except BaseException as e:
        note("EXC "+type(e).__name__+" "+str(e)[:50],(open('po.gfa').read(),order,brokenset)); continue
    good=[c for c in order if not brokenset[c]]
    # expected BO/NO from networkx
    exp={};bo=0
    for c in good:
        s,l=per[c]; G=nx.Graph(); G.add_nodes_from(x[0] for x in s); G.add_edges_from((a,b) for a,_,b,_,_,_ in l if a!=b)
        aps=set(nx.articulation_points(G)); blocks=[set(b) for b in nx.biconnected_components(G)]
        so={x[0]:x[2] for x in s}
        chain=[('s',a,so[a]) for a in aps]
        for b in blocks:
            inner=b-aps
            if inner:
                ends=b&aps; chain.append(('b',inner,(min(so[e] for e in ends)+max(so[e] for e in ends))/2 if len(ends)==2 else (min(so[e] for e in ends)-0.5 if min(so[e] for e in ends)==min(so[a] for a in aps) else max(so[e] for e in ends)+0.5)))
        chain.sort(key=lambda x:x[2])
        for el in chain:
            if el[0]=='s': exp[el[1]]=(bo,0)
            else:
                for j,n in enumerate(sorted(el[1])): exp[n]=(bo,j+1)
            bo+=1
    files=sorted(os.listdir('po_out'))
    if bychrom:
        want=sorted([f"po-{c}.gfa" for c in good]+[f"po-{c}.csv" for c in good])
        if files!=want: note("C18 files",(files,want,brokenset,order))
        gfiles=[f"po_out/po-{c}.gfa" for c in good]
    else:
        gfiles=['po_out/po-complete.gfa']
        if files!=['po-complete.csv','po-complete.gfa']: note("files complete",(files,))
    gotS={};gotL=[];
    for gf in gfiles:
        if not os.path.exists(gf): continue
        S,Ls,ordr=read_gfa(gf)
        kinds=[o[0] for o in ordr]
        if 'S' in kinds[kinds.index('L'):] if 'L' in kinds else False: note("C07 S after L",(gf,))
        keys=[]
        for i,(seq,tags) in S.items():
            d={t[:2]:t[5:] for t in tags}
            gotS[i]=(seq,[t for t in tags if t[:2] not in ('BO','NO')],(int(d['BO']),int(d['NO'])))
        keys=[gotS[o[1]][2] for o in ordr if o[0]=='S']
        if keys!=sorted(keys): note("C07 S order",(gf,keys))
        gotL+=Ls
    # C06
    gotbn={i:v[2] for i,v in gotS.items()}
    if gotbn!=exp: note("C06 bo/no",(open('po.gfa').read(),order,{k:(gotbn.get(k),exp.get(k)) for k in set(gotbn)|set(exp) if gotbn.get(k)!=exp.get(k)}))
    # C07 preservation
    goodnodes={x[0] for c in good for x in per[c][0]}
    for c in good:
        for i,sn,so_,sr,seq,extra in per[c][0]:
            if i not in gotS: note("C07 missing node",(i,)); continue
            wantseq=seq if withseq else '*'
            wanttags=[f"LN:i:{len(seq)}",f"SN:Z:{sn}",f"SO:i:{so_}",f"SR:i:{sr}"]+extra
            if gotS[i][0]!=wantseq or gotS[i][1]!=wanttags: note("C07 node content",(i,gotS[i],wantseq,wanttags))
    if set(gotS)!=goodnodes: note("C07 node set",(set(gotS)^goodnodes,))
    wantL=collections.Counter((a,da,b,db,f"{ov}M")+tuple(t) for c in good for a,da,b,db,ov,t in per[c][1])
    # duplicates of identical declarations collapse
    wantL=collections.Counter(set(wantL)); gL=collections.Counter(gotL)
    if gL!=wantL: note("C07 links",(sorted((gL-wantL).items()),sorted((wantL-gL).items())))
    # CSV
    rows=[]
    for f in files:
        if f.endswith('.csv'):
            rows+=[l.strip().split(",") for l in open('po_out/'+f) if not l.startswith("Name,")]
    names=[r[0] for r in rows]
    if sorted(names)!=sorted(goodnodes): note("C07 csv names",(sorted(names),sorted(goodnodes)))
    for r in rows:
        if r[0] in gotbn and (int(r[4]),int(r[5]))!=gotbn[r[0]]: note("C07 csv bo/no",(r,))
print(bad)
for k,v in first.items(): print(k, str(v)[:1800])
