# probe C03/C04/C05 on STABLE GAFs (convert_coord route) + C04 "select∘convert = convert∘select" ; argv: ROOT seed iters
import sys, random, os, pickle, re, collections, signal
ROOT=sys.argv[1]; sys.path.insert(0,ROOT)
import logging; logging.disable(logging.CRITICAL)
from gaftools.cli import index, view
from gaftools.cli import CommandLineError
from gaftools.gaf import GAF
from pysam import libcbgzf
exec(open('/tmp/gt_scratch/t8.py').read().split("def run(seed):")[0])
rng=random.Random(int(sys.argv[2]))
bad=collections.Counter(); first={}
def note(k,v):
    bad[k]+=1; first.setdefault(k,v)
class TO(Exception): pass
def alarm(*a): raise TO()
signal.signal(signal.SIGALRM, alarm)
def intervals_of(fields, info, contiglen):
    path=fields[5]
    if path[0] in '<>': return [(c,int(s),int(e)) for o,c,s,e in re.findall(r"([<>])([^<>:]+):(\d+)-(\d+)",path)]
    return [(path,int(fields[7]),int(fields[8]))]
for it in range(int(sys.argv[3])):
    segs,links=gen_graph(rng); seqd={s[0]:s[1] for s in segs}; adj=adjacency(links)
    info={s[0]:(s[2],s[3],s[3]+len(s[1])) for s in segs}
    open('ps.gfa','w').write(gfa_text(segs,links))
    recs=[]
    for k in range(rng.randint(1,10)):
        w=gen_walk(rng,segs,adj)
        path="".join(('>' if o=='+' else '<')+n for n,o in w); plen=sum(len(seqd[n]) for n,o in w)
        f=len(seqd[w[0][0]]); l=len(seqd[w[-1][0]])
        ps=rng.randrange(0,f); pe=rng.randrange(max(plen-l,ps)+1,plen+1); n=pe-ps     # canonical
        recs.append("\t".join([f"r{k}",str(n),"0",str(n),"+",path,str(plen),str(ps),str(pe),str(n),str(n),"60","tp:A:P",f"cg:Z:{n}="]))
    open('ps_u.gaf','w').write("\n".join(recs)+"\n")
    try:
        view.run('ps_u.gaf',gfa='ps.gfa',output='ps_s.gaf',format='stable')
    except BaseException as e: note("to stable EXC "+type(e).__name__,(recs,)); continue
    srecs=open('ps_s.gaf').read().splitlines()
    inp='ps_s.gaf'
    if rng.random()<0.3:
        f=libcbgzf.BGZFile('ps_s.gaf.gz','wb'); f.write(("\n".join(srecs)+"\n").encode()); f.close(); inp='ps_s.gaf.gz'
    for f in ('ps_s.gaf.gvi','ps_s.gaf.gz.gvi'):
        if os.path.exists(f): os.remove(f)
    try:
        index.run(inp,'ps.gfa'); ind=pickle.load(open(inp+'.gvi','rb'))
    except BaseException as e: note("index stable EXC "+type(e).__name__+" "+str(e)[:40],(open('ps.gfa').read(),srecs)); continue
    # expected: node traversed iff overlaps an interval of the record on its contig
    def trav(fields):
        out=set()
        for c,s,e in intervals_of(fields,info,None):
            for n,(cn,ns,ne) in info.items():
                if cn==c and ns<e and s<ne: out.add(n)
        return out
    travs=[trav(r.split("\t")) for r in srecs]
    g=GAF(inp); h=g.file; h.seek(0); offs=[]
    while True:
        o=h.tell(); l=h.readline()
        if not l: break
        offs.append(o)
    g.close()
    exp=collections.defaultdict(set)
    for i,t in enumerate(travs):
        for n in t: exp[(n,)+info[n]].add(offs[i])
    got={k:set(v) for k,v in ind.items() if k!='ref_contig'}
    if got!=dict(exp): note("C03 stable index",(open('ps.gfa').read(),srecs,{k:(got.get(k),exp.get(k)) for k in set(got)|set(exp) if got.get(k)!=exp.get(k)}))
    # C04 on stable with conversion back to unstable: equals converting whole file then selecting
    try:
        view.run(inp,gfa='ps.gfa',output='ps_all_u.gaf',format='unstable'); allu=open('ps_all_u.gaf').read().splitlines()
    except BaseException as e: note("to unstable EXC "+type(e).__name__,(srecs,)); continue
    if allu!=recs: note("C02 roundtrip",(recs,srecs,allu))
    for q in range(3):
        ns=[rng.choice(list(seqd)+['zz9']) for _ in range(rng.randint(1,3))]
        sel=[i for i,t in enumerate(travs) if t&set(ns)]
        for fmt,want in ((None,[srecs[i] for i in sel]),('unstable',[allu[i] for i in sel])):
            signal.alarm(5)
            try:
                view.run(inp,gfa='ps.gfa',output='ps.out',nodes=list(ns),format=fmt); res=open('ps.out').read().splitlines()
            except CommandLineError: res=None
            except TO: res="HANG"
            except BaseException as e: res="EXC "+type(e).__name__
            finally: signal.alarm(0)
            if (res is None and want) or (res is not None and res!=want): note(f"C04 stable nodes fmt={fmt}",(srecs,ns,res,want))
    contigs=collections.defaultdict(list)
    for n,(c,s,e) in info.items(): contigs[c].append((s,e,n))
    for q in range(3):
        c=rng.choice(list(contigs)); lo=min(s for s,e,n in contigs[c]); hi=max(e for s,e,n in contigs[c])
        a=rng.randrange(lo,hi); b=rng.randrange(a,hi)
        under={n for s,e,n in contigs[c] if s<=b and a<e}
        want=[srecs[i] for i,t in enumerate(travs) if t&under]
        signal.alarm(5)
        try:
            view.run(inp,output='ps.out',regions=[f"{c}:{a}-{b}"]); res=open('ps.out').read().splitlines()
        except CommandLineError: res=None
        except TO: res="HANG"
        except BaseException as e: res="EXC "+type(e).__name__
        finally: signal.alarm(0)
        if (res is None and want) or (res is not None and res!=want): note("C05 stable regions",(srecs,f"{c}:{a}-{b}",res,want))
print(bad)
for k,v in first.items(): print(k,str(v)[:1500])
