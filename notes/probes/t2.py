import os, sys, pickle, traceback, shutil
sys.path.insert(0, '/repo')
from gaftools.cli import sort as gsort, view, index, phase, order_gfa
from gaftools.gfa import GFA
D='/repo/tests/data/'
def w(name, s): open(name,'w').write(s)
def rec(name, path, plen, ps, pe, extra="tp:A:P\tcg:Z:%d="):
    n=pe-ps
    return f"{name}\t{n}\t0\t{n}\t+\t{path}\t{plen}\t{ps}\t{pe}\t{n}\t{n}\t60\t" + (extra % n) + "\n"
def tryrun(label, f):
    try:
        f(); print(label, "OK")
    except SystemExit as e:
        print(label, "SystemExit", e.code)
    except BaseException as e:
        print(label, "EXC", type(e).__name__, e)

# C10: every alignment touches a reference node -> pop('unknown') KeyError
w('c.gaf', rec('a','>s1',3293,0,100)+rec('b','>s2',341,0,100))
tryrun("C10 sort all-ref", lambda: gsort.run_sort(gfa=D+'smallgraph-ordered.gfa', gaf='c.gaf', outgaf='c.sorted.gaf'))

# C08: comparator. same BO different NO in "wrong" order: s464827 (BO2,NO2) before s3 (BO2,NO1); plus s575719 (BO 2, NO 3)
w('d.gaf', rec('x575','>s575719',126,5,50)+rec('x464','>s464827',186,9,50)+rec('x3','>s3',62,10,50)+rec('x464b','>s464827',186,1,50)+rec('x575b','>s575719',126,0,50))
tryrun("C08 sort", lambda: gsort.run_sort(gfa=D+'smallgraph-ordered.gfa', gaf='d.gaf', outgaf='d.sorted.gaf', outind='d.gsi'))
print(open('d.sorted.gaf').read())
