import sys, queue, io
sys.path.insert(0, '/repo')
import logging; logging.disable(logging.CRITICAL)
import gaftools.cli.realign as R
D='/repo/tests/data/'
KEEP=None
class FakeQ:
    def __init__(self): self.items=[]
    def put(self, x): self.items.append(x)
    def get(self, timeout=None):
        global CALLS; CALLS+=1
        if CALLS>50: raise RuntimeError("HANG: >50 get calls")
        if not self.items: raise queue.Empty
        return self.items.pop(0)
class FakeP:
    def __init__(self, target, args): self.t=target; self.a=args; self.exitcode=None
    def start(self):
        self.t(*self.a)
        q=self.a[1]
        if KEEP is not None:
            del q.items[KEEP:]; self.exitcode=-9
        else: self.exitcode=0
    def is_alive(self): return False
    def join(self): pass
class FakeMP:
    Queue=FakeQ; Process=FakeP
    @staticmethod
    def cpu_count(): return 16
R.mp=FakeMP
for KEEP in (0,1,2,3,None):
    CALLS=0
    out=io.StringIO()
    try:
        R.realign_gaf(D+'alignments-graphaligner.gaf', D+'smallgraph.gfa', D+'reads.fa', out, 1)
        print("delivered",KEEP, '-> OK', [l.split('\t')[0] for l in out.getvalue().splitlines()])
    except SystemExit as e: print("delivered",KEEP,'-> SystemExit',e.code, len(out.getvalue().splitlines()))
    except BaseException as e: print("delivered",KEEP,'EXC', type(e).__name__, e)
