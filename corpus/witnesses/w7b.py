import sys, functools, importlib.util
from collections import namedtuple
spec=importlib.util.spec_from_file_location('oldsort','oldsort.py'); m=importlib.util.module_from_spec(spec); spec.loader.exec_module(m)
A=namedtuple("Alignment", ["offset", "BO", "NO", "start", "inv", "sn"])
l=[A(i,2,no,0,0,'c') for i,no in enumerate([3,2,1,2,3])]
print([a.NO for a in sorted(l,key=functools.cmp_to_key(m.compare_gaf))])
from gaftools.cli.sort import compare_gaf
print([a.NO for a in sorted(l,key=functools.cmp_to_key(compare_gaf))])
l=[A(0,-1,-1,0,0,'c'),A(1,2,0,0,0,'c')]
print('old',[a.BO for a in sorted(l,key=functools.cmp_to_key(m.compare_gaf))])
print('new',[a.BO for a in sorted(l,key=functools.cmp_to_key(compare_gaf))])
import random
r=random.Random(1)
l=[A(i,2,r.randint(0,5),0,0,'c') for i in range(200)]
o=[a.NO for a in sorted(l,key=functools.cmp_to_key(m.compare_gaf))]; print('old sorted?',o==sorted(o))
o=[a.NO for a in sorted(l,key=functools.cmp_to_key(compare_gaf))]; print('new sorted?',o==sorted(o))
