"""K3 witness: a worker is killed while it holds the write lock of the shared result queue (i.e. in the middle of delivering a
result). The other worker blocks on that lock for ever, stays alive, and the parent keeps polling: realign never terminates."""
import io, os, signal, sys, time, multiprocessing
sys.path.insert(0, os.environ.get("GAFTOOLS_REPO", "/repo"))
os.environ["GAFTOOLS_VERIF"] = "1"
os.environ["GAFTOOLS_VERIF_BATCH_SIZE"] = "1"
import logging; logging.disable(logging.CRITICAL)
import gaftools.cli.realign as R
DATA = os.environ.get("GAFTOOLS_REPO", "/repo") + "/tests/data/"
orig = R.wfa_alignment

def wrapped(seq_batch, qu):
    first = seq_batch[0][0].query_name
    if first == VICTIM:
        qu._wlock.acquire()            # what Queue._feed holds while it writes a pickled result into the pipe
        os.kill(os.getpid(), signal.SIGKILL)
    time.sleep(0.5)                    # the survivor delivers after the victim died
    return orig(seq_batch, qu)

class Hang(Exception): pass
def on_alarm(*a): raise Hang()

if __name__ == "__main__":
    lines = open(DATA + "alignments-graphaligner.gaf").read().splitlines()[:2]
    VICTIM = lines[0].split("\t")[0].split(" ")[0]
    R.wfa_alignment = wrapped
    signal.signal(signal.SIGALRM, on_alarm)
    signal.alarm(int(sys.argv[1]) if len(sys.argv) > 1 else 8)
    out = io.StringIO()
    t0 = time.time()
    try:
        R.realign_gaf(DATA + "alignments-graphaligner.gaf", DATA + "smallgraph.gfa", DATA + "reads.fa", out, 2)
        print("terminated normally after %.1fs" % (time.time() - t0)); rc = 0
    except SystemExit as e:
        print("exit status", e.code, "after %.1fs" % (time.time() - t0)); rc = 0
    except Hang:
        print("HANG: realign still running after the watchdog (a worker blocked on the dead worker's lock is alive: %s)" % [p.is_alive() for p in multiprocessing.active_children()]); rc = 3
    finally:
        for ch in multiprocessing.active_children(): ch.kill()
    sys.exit(rc)
