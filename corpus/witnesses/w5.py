import sys,signal
exec(open('mk.py').read())
from gaftools.cli import index, view
from gaftools.cli import CommandLineError
open('e.gaf','w').write(rec('r1','>n2',10,2,8)+rec('r2','>n4',10,1,5)+rec('r3','>n2>n3>n4',30,1,25))
index.run('e.gaf','g.gfa')
def q(regions):
    signal.alarm(5)
    try:
        view.run('e.gaf',gfa='g.gfa',output='o',regions=regions)
        return sorted(l.split('\t')[0] for l in open('o'))
    except CommandLineError: return 'none'
    except BaseException as e: return 'EXC '+type(e).__name__
    finally: signal.alarm(0)
def h(*a): raise TimeoutError()
signal.signal(signal.SIGALRM,h)
res={r:q([r]) for r in ['chr1:2-12','chr1:5-25','chr1:22-28','chr1:32-35','chr1:41-45']}
print(res)
exp={'chr1:2-12':['r1','r3'],'chr1:5-25':['r1','r3'],'chr1:22-28':['r3'],'chr1:32-35':['r2','r3'],'chr1:41-45':'none'}
sys.exit(0 if res==exp else 1)
