import sys,os,shutil,glob
from gaftools.cli.order_gfa import run_order_gfa
def chain(prefix,chrom,nb,so0=0,ids=None):
    # scaffold s0 .. s_nb with bubbles of two alleles between
    S=[];L=[];so=so0;k=0
    def nid():
        nonlocal k; k+=1
        return (prefix+str(k)) if ids is None else str(ids+k-1)
    prev=nid(); S.append((prev,chrom,so,0,4)); so+=4
    for b in range(nb):
        a1=nid(); a2=nid(); nx=nid()
        S.append((a1,chrom,so,0,4)); 
        S.append((a2,chrom+'_alt',1000+so,1,3))
        so+=4
        S.append((nx,chrom,so,0,4)); so+=4
        for a in (a1,a2):
            L.append((prev,a)); L.append((a,nx))
        prev=nx
    return S,L
def write(fn,parts,extraL=[]):
    with open(fn,'w') as f:
        for S,L in parts:
            for (i,c,so,sr,ln) in S: f.write("S\t%s\t%s\tSN:Z:%s\tSO:i:%d\tSR:i:%d\tLN:i:%d\n"%(i,'A'*ln,c,so,sr,ln))
        for S,L in parts:
            for a,b in L: f.write("L\t%s\t+\t%s\t+\t0M\n"%(a,b))
        for a,b in extraL: f.write("L\t%s\t+\t%s\t+\t0M\n"%(a,b))
ok=True
# D12: A ok, B branching (tip on a scaffold), C ok
A=chain('a','chrA',2); B=chain('b','chrB',2); C=chain('c','chrC',2)
B[0].append(('btip','chrB_t',5000,1,3)); B[1].append(('b4','btip'))
write('o.gfa',[A,B,C])
shutil.rmtree('out',ignore_errors=True)
try:
    run_order_gfa('o.gfa','out',True,'chrA,chrB,chrC')
    fs=sorted(os.path.basename(x) for x in glob.glob('out/*.gfa')); print(fs); ok&= fs==['o-chrA.gfa','o-chrC.gfa']
except BaseException as e:
    print('D12 EXC',type(e).__name__,e); ok=False
# D13: triangle with pendants
S=[(x,'chrT',i*4,0,4) for i,x in enumerate(['p1','t1','t2','t3','p3'])]+[('p2','chrT_alt',900,1,4)]
L=[('p1','t1'),('t1','t2'),('t2','t3'),('t1','t3'),('t3','p3'),('t2','p2')]
write('t.gfa',[A,(S,L)])
shutil.rmtree('out2',ignore_errors=True)
try:
    run_order_gfa('t.gfa','out2',True,'chrA,chrT')
    fs=sorted(os.path.basename(x) for x in glob.glob('out2/*.gfa')); print(fs); ok&= fs==['t-chrA.gfa']
except BaseException as e:
    print('D13 EXC',type(e).__name__,e); ok=False
sys.exit(0 if ok else 1)
