import sys,pickle
from gaftools.cli import index
g=["S\ta\tAAAAAAAAAA\tSN:Z:chr1\tSO:i:0\tSR:i:0\tLN:i:10",
   "S\tb\tCCCCCCCCCC\tSN:Z:chr1\tSO:i:10\tSR:i:0\tLN:i:10",
   "S\th1\tGGGGG\tSN:Z:hap\tSO:i:100\tSR:i:1\tLN:i:5",
   "S\th2\tTTTTT\tSN:Z:hap\tSO:i:300\tSR:i:1\tLN:i:5",
   "L\ta\t+\tb\t+\t0M","L\ta\t+\th1\t+\t0M","L\th1\t+\tb\t+\t0M","L\ta\t+\th2\t+\t0M","L\th2\t+\tb\t+\t0M"]
open('h.gfa','w').write("\n".join(g)+"\n")
open('h.gaf','w').write("r1\t100\t0\t20\t+\t>chr1:0-10>hap:100-105>chr1:10-20\t25\t2\t22\t20\t20\t60\tcg:Z:20=\n")
try:
    index.run('h.gaf','h.gfa')
    d=pickle.load(open('h.gaf.gvi','rb'))
    ks=sorted(k[0] for k in d if k!='ref_contig'); print(ks)
    sys.exit(0 if ks==['a','b','h1'] else 1)
except Exception as e:
    print('EXC',type(e).__name__); sys.exit(1)
