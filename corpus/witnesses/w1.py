import sys
from gaftools.gaf import GAF
open('a.gaf','w').write("r1\t100\t0\t100\t+\t>s1\t3293\t0\t100\t100\t100\t60\ttp:A:P\tcg:Z:100=\n"
           "r1\t100\t0\t50\t+\t>s2\t341\t0\t50\t50\t50\t30\ttp:A:S\tcg:Z:50=\n"
           "r2\t100\t0\t50\t+\t>s2\t341\t0\t50\t50\t50\t0\ttp:A:P\tcg:Z:50=\n")
prim=[a.is_primary for a in GAF('a.gaf').read_file()]
print(prim); sys.exit(0 if prim==[True,False,True] else 1)
