# tiny rGFA: chr1 = n1[0,10) n2[10,20) n3[20,30) n4[30,40) n5[40,50); hap node h1 between n1 and n3
import random
def seq(n,seed):
    r=random.Random(seed); return ''.join(r.choice('ACGT') for _ in range(n))
def gfa():
    L=[]
    for i in range(1,6):
        L.append("S\tn%d\t%s\tSN:Z:chr1\tSO:i:%d\tSR:i:0\tLN:i:10"%(i,seq(10,i),(i-1)*10))
    L.append("S\th1\t%s\tSN:Z:hap\tSO:i:100\tSR:i:1\tLN:i:7"%seq(7,9))
    for i in range(1,5):
        L.append("L\tn%d\t+\tn%d\t+\t0M"%(i,i+1))
    L.append("L\tn1\t+\th1\t+\t0M"); L.append("L\th1\t+\tn3\t+\t0M")
    L.append("L\tn2\t+\tn2\t+\t0M")
    return "\n".join(L)+"\n"
def rec(name,path,plen,ps,pe,tags="tp:A:P\tcg:Z:5="):
    return "%s\t100\t0\t%d\t+\t%s\t%d\t%d\t%d\t%d\t%d\t60\t%s\n"%(name,pe-ps,path,plen,ps,pe,pe-ps,pe-ps,tags)
open('g.gfa','w').write(gfa())
