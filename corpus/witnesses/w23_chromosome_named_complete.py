"""D22 (C07): `gaftools order_gfa` without --by-chrom on a graph with a stable sequence named "complete". Before the fix the
per-chromosome files of that chromosome ARE the `-complete` files: opening the final file for writing truncates the chromosome's
file, it is read back empty and then removed - exit status 0 and no output at all. After: `-complete.gfa` / `.csv` hold every
segment and link. Exit 1 = defect present."""
import os
import sys
import tempfile

sys.path.insert(0, os.environ.get("GAFTOOLS_REPO") or "/repo")
import logging
logging.disable(logging.CRITICAL)
from gaftools.__main__ import main

d = tempfile.mkdtemp()
gfa, out = os.path.join(d, "g.gfa"), os.path.join(d, "out")
L = []
for name in ("chr1", "complete"):
    p = name[:2]
    L += ["S\t%s1\tAC\tLN:i:2\tSN:Z:%s\tSO:i:0\tSR:i:0" % (p, name), "S\t%s2\tG\tLN:i:1\tSN:Z:%s\tSO:i:2\tSR:i:0" % (p, name),
          "S\t%s3\tT\tLN:i:1\tSN:Z:%s_h\tSO:i:0\tSR:i:1" % (p, name), "S\t%s4\tCC\tLN:i:2\tSN:Z:%s\tSO:i:3\tSR:i:0" % (p, name),
          "S\t%s5\tA\tLN:i:1\tSN:Z:%s\tSO:i:5\tSR:i:0" % (p, name), "S\t%s6\tA\tLN:i:1\tSN:Z:%s\tSO:i:6\tSR:i:0" % (p, name)]
    L += ["L\t%s1\t+\t%s2\t+\t0M" % (p, p), "L\t%s1\t+\t%s3\t+\t0M" % (p, p), "L\t%s2\t+\t%s4\t+\t0M" % (p, p), "L\t%s3\t+\t%s4\t+\t0M" % (p, p),
          "L\t%s4\t+\t%s5\t+\t0M" % (p, p), "L\t%s5\t+\t%s6\t+\t0M" % (p, p)]
open(gfa, "w").write("\n".join(L) + "\n")
try:
    main(["order_gfa", "--chromosome_order", "chr1,complete", "--outdir", out, gfa])
except SystemExit as e:
    print("exit", e.code)
    sys.exit(1)
files = sorted(os.listdir(out))
final = os.path.join(out, "g-complete.gfa")
segs = [l.split("\t")[1] for l in open(final)] if os.path.exists(final) else []
nS = len([l for l in (open(final) if os.path.exists(final) else []) if l.startswith("S")])
nL = len([l for l in (open(final) if os.path.exists(final) else []) if l.startswith("L")])
ok = files == ["g-complete.csv", "g-complete.gfa"] and nS == 12 and nL == 12
print("files:", files, "S lines:", nS, "L lines:", nL, "->", "ok" if ok else "DEFECT: the ordered graph was lost")
sys.exit(0 if ok else 1)
