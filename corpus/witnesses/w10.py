import sys,os,shutil,glob
exec(open('w9.py').read().split("ok=True")[0])
N=chain('','chrN',5,ids=1)
write('n.gfa',[N])
shutil.rmtree('out3',ignore_errors=True)
try:
    run_order_gfa('n.gfa','out3',True,'chrN')
    fs=sorted(os.path.basename(x) for x in glob.glob('out3/*.gfa')); print(fs); sys.exit(0 if fs==['n-chrN.gfa'] else 1)
except BaseException as e:
    print('D14 EXC',type(e).__name__,e); sys.exit(1)
