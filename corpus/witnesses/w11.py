import sys
from gaftools.gfa import GFA
open('u.gfa','w').write("S\ta\tACGT\tUR:Z:http://x/y\tx1:i:3\n")
try:
    g=GFA('u.gfa'); print(g['a'].tags); sys.exit(0 if g['a'].tags=={'UR':('Z','http://x/y'),'x1':('i','3')} else 1)
except Exception as e:
    print('EXC',type(e).__name__,e); sys.exit(1)
