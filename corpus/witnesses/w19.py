import sys,os,shutil,glob
exec(open('w9.py').read().split("ok=True")[0])
# chrA and chrB joined end to end through a haplotype node: one component whose collapsed graph is a chain with scaffold nodes of two stable sequences; chrC is fine
A=chain('a','chrA',3); B=chain('b','chrB',1,so0=0); C=chain('c','chrC',2)
H=([('h','hapX',7,2,3)],[('a10','h'),('h','b1')])
write('j.gfa',[A,B,C,H])
shutil.rmtree('out19',ignore_errors=True)
try:
    run_order_gfa('j.gfa','out19',True,'chrA,chrC')
    fs=sorted(os.path.basename(x) for x in glob.glob('out19/*.gfa')); print(fs); rc=0 if fs==['j-chrC.gfa'] else 1
except BaseException as e:
    print('D19 EXC',type(e).__name__,e); rc=1
sys.exit(rc)
