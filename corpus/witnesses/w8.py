import sys,pickle
g=["S\ta\tAAAAAAAAAA\tSN:Z:chr1\tSO:i:0\tSR:i:0\tLN:i:10\tBO:i:0\tNO:i:0",
   "S\tb\tCCCCCCCCCC\tSN:Z:chr1\tSO:i:10\tSR:i:0\tLN:i:10\tBO:i:1\tNO:i:0",
   "L\ta\t+\tb\t+\t0M"]
open('s.gfa','w').write("\n".join(g)+"\n")
open('s.gaf','w').write("r1\t100\t0\t20\t+\t>a>b\t20\t2\t18\t16\t16\t60\tcg:Z:16=\nr2\t100\t0\t5\t+\t>b\t10\t2\t7\t5\t5\t60\tcg:Z:5=\n")
from gaftools.cli.sort import run_sort
try:
    run_sort('s.gfa','s.gaf',outgaf='s.out')
    d=pickle.load(open('s.out.gsi','rb')); print(d); sys.exit(0 if list(d)==['chr1'] else 1)
except Exception as e:
    print('EXC',type(e).__name__,e); sys.exit(1)
