import sys
from gaftools.cli.phase import add_phase_info
l1="r1\t100\t0\t100\t-\t<s1\t3293\t0\t100\t100\t100\t60\ttp:A:P\tNM:i:0\tcg:Z:100="
l2="r2\t100\t0\t100\t+\t>s1\t3293\t0\t100\t100\t100\t60\tcg:Z:100="
open('p.gaf','w').write(l1+"\n"+l2+"\n")
open('p.tsv','w').write("#readname\thaplotype\tphaseset\tchromosome\nr1\tH1\t555\tchr1\n")
add_phase_info('p.gaf','p.tsv','p.out')
o=open('p.out').read().split("\n"); print(o)
exp=[l1.replace("\ttp:A:P","\tps:Z:chr1-555\tht:Z:H1\ttp:A:P"), l2.replace("\tcg:Z","\tps:Z:none\tht:Z:none\tcg:Z")]
sys.exit(0 if o==exp else 1)
