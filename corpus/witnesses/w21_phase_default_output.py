"""D20 (C20): `gaftools phase GAF TSV` without --output. Before 19f8fc2: TypeError (open() on the sys.stdout object that is the
option's default); after: one annotated record per input record on standard output. Exit 1 = defect present."""
import contextlib
import io
import os
import sys
import tempfile

sys.path.insert(0, os.environ.get("GAFTOOLS_REPO") or "/repo")
import logging
logging.disable(logging.CRITICAL)
from gaftools.__main__ import main

d = tempfile.mkdtemp()
gaf, tsv = os.path.join(d, "x.gaf"), os.path.join(d, "x.tsv")
open(gaf, "w").write("r1\t10\t0\t10\t-\t>s1\t10\t0\t10\t10\t10\t60\tcg:Z:10=\nr2\t10\t0\t10\t+\t>s1\t10\t0\t10\t10\t10\t60\n")
open(tsv, "w").write("r1\tH1\t5\tchr1\n")
buf = io.StringIO()
try:
    with contextlib.redirect_stdout(buf):
        main(["phase", gaf, tsv])
except SystemExit as e:
    print("exit", e.code)
    sys.exit(1)
except Exception as e:  # noqa
    print("defect: %s: %s" % (type(e).__name__, e))
    sys.exit(1)
lines = buf.getvalue().splitlines()
ok = len(lines) == 2 and lines[0].split("\t")[:13] == "r1\t10\t0\t10\t-\t>s1\t10\t0\t10\t10\t10\t60".split("\t") + ["ps:Z:chr1-5"] and "ht:Z:none" in lines[1]
print("ok" if ok else "unexpected output: %r" % lines)
sys.exit(0 if ok else 1)
