"""D21 (C04, C05): `gaftools view GAF -n NODE` / `-r CONTIG:a-b` on an index that holds a node of a stable sequence called "e".
Before the fix: TypeError ('<' not supported between 'str' and 'int') - the string key "ref_contig" of the index was sorted together
with the node keys by (x[1], x[2]) = ("e", "f"), which ties with ("e", SO) on the first component. After: the records are returned.
Exit 1 = defect present."""
import contextlib
import io
import os
import sys
import tempfile

sys.path.insert(0, os.environ.get("GAFTOOLS_REPO") or "/repo")
import logging
logging.disable(logging.CRITICAL)
from gaftools.__main__ import main

d = tempfile.mkdtemp()
gfa, gaf = os.path.join(d, "g.gfa"), os.path.join(d, "a.gaf")
open(gfa, "w").write("S\ts1\tACGT\tLN:i:4\tSN:Z:e\tSO:i:0\tSR:i:0\nS\ts2\tTTT\tLN:i:3\tSN:Z:e\tSO:i:4\tSR:i:0\nL\ts1\t+\ts2\t+\t0M\n")
open(gaf, "w").write("r1\t7\t0\t7\t+\t>s1>s2\t7\t0\t7\t7\t7\t60\n")
bad = 0
with contextlib.redirect_stdout(io.StringIO()):
    main(["index", gaf, gfa])
for sel in (["-n", "s1"], ["-r", "e:0-3"]):
    buf = io.StringIO()
    try:
        with contextlib.redirect_stdout(buf):
            main(["view", gaf, "-g", gfa] + sel)
        ok = buf.getvalue().splitlines() == ["r1\t7\t0\t7\t+\t>s1>s2\t7\t0\t7\t7\t7\t60"]
        print(sel, "ok" if ok else "unexpected output %r" % buf.getvalue())
        bad += not ok
    except SystemExit as e:
        print(sel, "exit", e.code)
        bad += 1
    except Exception as e:  # noqa
        print(sel, "defect: %s: %s" % (type(e).__name__, e))
        bad += 1
sys.exit(1 if bad else 0)
