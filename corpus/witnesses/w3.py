import sys
from gaftools.gaf import GAF
line="r1\t100\t0\t100\t+\t>s1\t3293\t0\t100\t100\t100\t60\ttp:A:P\n"
open('c.gaf','w').write(line)
out=[str(a) for a in GAF('c.gaf').read_file()][0]
print(repr(out)); sys.exit(0 if out==line.rstrip() else 1)
