import sys
from collections import namedtuple
from gaftools.cli.sort import compare_gaf
import functools
A=namedtuple("Alignment", ["offset", "BO", "NO", "start", "inv", "sn"])
l=[A(i,2,no,0,0,'c') for i,no in enumerate([3,2,1,2,3])]+[A(9,-1,-1,0,0,'c'),A(10,1,0,0,0,'c')]
l2=sorted(l,key=functools.cmp_to_key(compare_gaf))
got=[(a.BO,a.NO,a.offset) for a in l2]; print(got)
exp=[(1,0,10),(2,1,2),(2,2,1),(2,2,3),(2,3,0),(2,3,4),(-1,-1,9)]
sys.exit(0 if got==exp else 1)
