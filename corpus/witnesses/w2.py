import sys
from gaftools.gaf import GAF
line="r1 extra\t100\t0\t100\t+\t>s1\t3293\t0\t100\t100\t100\t60\ttp:A:P\tNM:i:-3\tdv:f:1e-05\tid:f:.5\tXX:Z:foo_bar baz\tBB:B:i,1,2\tzz:Z:a:b\tcg:Z:100=\n"
open('b.gaf','w').write(line)
out=[str(a) for a in GAF('b.gaf').read_file()][0]
exp=line.rstrip().replace("r1 extra","r1")
print(out); sys.exit(0 if out==exp else 1)
