import sys,io,contextlib
exec(open('mk.py').read())
from gaftools.cli import index, view
from gaftools.cli import CommandLineError
open('d.gaf','w').write(rec('r1','>n1>n2',20,2,15)+rec('r2','>n2>n2',20,2,15)+rec('r3','>n4',10,1,5))
index.run('d.gaf','g.gfa')
ok=True
try:
    view.run('d.gaf',gfa='g.gfa',output='o1',nodes=['n1','n5'])
    o=open('o1').read().splitlines(); print(o); ok&= len(o)==1
except Exception as e:
    print('EXC',type(e).__name__,e); ok=False
view.run('d.gaf',gfa='g.gfa',output='o2',nodes=['n2'])
o=open('o2').read().splitlines(); print(len(o)); ok&= len(o)==2
sys.exit(0 if ok else 1)
