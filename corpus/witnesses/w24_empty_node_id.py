"""D23 (C15): GFA.biccs() on a graph that has a node whose id is the empty string (reachable through add_node("") and through an
S line with an empty name, which read_graph accepts). `if nn:` treats that neighbour as "no neighbour left" without taking the
`elif nn is None` branch either, so the edge to it is skipped. Triangle ""-a-b: before the fix biccs reports two components
({a,b} and {"",a}) and the articulation point a; the triangle is one biconnected component without articulation point.
Exit 1 = defect present."""
import os
import sys

sys.path.insert(0, os.environ.get("GAFTOOLS_REPO") or "/repo")
import logging
logging.disable(logging.CRITICAL)
from gaftools.gfa import GFA

g = GFA()
for n in ("", "a", "b"):
    g.add_node(n)
for x, y in (("", "a"), ("a", "b"), ("b", "")):
    g.add_edge(x, "+", y, "+", 0)
comps, aps = g.biccs()
comps = sorted(sorted(c) for c in comps)
ok = comps == [["", "a", "b"]] and set(aps) == set()
print("components:", comps, "articulation points:", sorted(aps), "->", "ok" if ok else "DEFECT")
sys.exit(0 if ok else 1)
