#!/usr/bin/env python3
"""tools/attach_tie.py <Name> <Cxx> [<Cyy> ...]: move the theorems of lean/Audit/<Name>_tie.lean into the Tie-A audit files of the
given properties (Audit/Cxx_tie.lean), imports first; the first property receives all theorems, the others too."""
import os
import sys
A = os.path.join(os.path.dirname(os.path.dirname(os.path.abspath(__file__))), "lean", "Audit")
name, props = sys.argv[1], sys.argv[2:]
src = open(os.path.join(A, name + "_tie.lean")).read().splitlines()
imp = [l for l in src if l.startswith("import")]
thm = [l for l in src if l.startswith("#print axioms")]
for p in props:
    f = os.path.join(A, p + "_tie.lean")
    cur = open(f).read().splitlines() if os.path.exists(f) else []
    ci = [l for l in cur if l.startswith("import")]
    ct = [l for l in cur if not l.startswith("import") and l.strip()]
    out = ci + [l for l in imp if l not in ci] + ct + [l for l in thm if l not in ct]
    open(f, "w").write("\n".join(out) + "\n")
    print(p, len(thm), "theorems attached")
os.remove(os.path.join(A, name + "_tie.lean"))
