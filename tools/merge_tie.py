#!/usr/bin/env python3
"""Merge a Tie-A extension built in a private copy of /verif back into /verif.

  tools/merge_tie.py <copy-of-verif> <base translate.py the copy started from>

* harness/translate.py: the copy's pure insertions (relative to the base) are inserted into the current file after the same
  preceding lines (the two anchors are the end of the last generator and the head of FALLBACK); any deletion or change of a
  base line is refused (merge by hand).
* lean/Gaftools/Gen/*.lean, Props/*.lean, Proofs/*.lean, Audit/*.lean that do not exist here are copied; existing files that
  differ are listed and left alone.
"""
import difflib
import os
import shutil
import sys

VERIF = os.path.dirname(os.path.dirname(os.path.abspath(__file__)))


def main():
    copy, base_path = sys.argv[1], sys.argv[2]
    base = open(base_path).read().split("\n")
    theirs = open(os.path.join(copy, "harness", "translate.py")).read().split("\n")
    cur_path = os.path.join(VERIF, "harness", "translate.py")
    cur = open(cur_path).read().split("\n")
    sm = difflib.SequenceMatcher(None, base, theirs, autojunk=False)
    inserts = []
    for tag, i1, i2, j1, j2 in sm.get_opcodes():
        if tag == "equal":
            continue
        if tag != "insert":
            print("REFUSED: the copy changes or deletes base lines %d-%d of translate.py: merge by hand" % (i1 + 1, i2))
            print("\n".join(base[i1:i2][:10]))
            sys.exit(1)
        inserts.append((i1, theirs[j1:j2]))
    for i1, block in reversed(inserts):
        # anchor: the base lines just before the insertion point, found in the current file
        k = 3
        ctx = base[max(0, i1 - k):i1]
        pos = [p for p in range(len(cur) - len(ctx) + 1) if cur[p:p + len(ctx)] == ctx]
        if len(pos) != 1:
            # try the lines that FOLLOW the insertion point
            after = base[i1:i1 + k]
            pos2 = [p for p in range(len(cur) - len(after) + 1) if cur[p:p + len(after)] == after] if after else []
            if len(pos2) == 1:
                cur[pos2[0]:pos2[0]] = block
                print("inserted %d lines before line %d" % (len(block), pos2[0] + 1))
                continue
            print("REFUSED: anchor for an insertion of %d lines is not unique in the current translate.py (%d matches):" % (len(block), len(pos)))
            print("\n".join(ctx))
            sys.exit(1)
        at = pos[0] + len(ctx)
        cur[at:at] = block
        print("inserted %d lines after line %d" % (len(block), at))
    open(cur_path, "w").write("\n".join(cur))
    for sub in ("lean/Gaftools/Gen", "lean/Gaftools/Props", "lean/Gaftools/Proofs", "lean/Audit"):
        d = os.path.join(copy, sub)
        for f in sorted(os.listdir(d)):
            src, dst = os.path.join(d, f), os.path.join(VERIF, sub, f)
            if not f.endswith(".lean"):
                continue
            if not os.path.exists(dst):
                shutil.copy(src, dst)
                print("new file", os.path.join(sub, f))
            elif open(src).read() != open(dst).read() and "/Gen" not in sub:
                print("DIFFERS (left alone):", os.path.join(sub, f))


if __name__ == "__main__":
    main()
