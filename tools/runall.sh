#!/bin/bash
# run every claimed check (tier from $1, default quick) on the current tree; summary on stdout
TIER="${1:-quick}"
cd "$(cd "$(dirname "$0")/.." && pwd)"
for p in $(python3 -c "import json;print(' '.join(c['property_id'] for c in json.load(open('MANIFEST.json'))['checks']))"); do
  ./check $p --tier $TIER 2>&1 | grep -E "^(OK|FAIL|VIOLATION|KNOWN-FINDING|HARNESS)" | cut -c1-220
done
