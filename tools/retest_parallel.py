#!/usr/bin/env python3
"""Re-test every seeded change in private copies of /verif and /repo (nothing here touches /repo or /verif's evidence).

  tools/retest_parallel.py <outdir> <workers>      -> <outdir>/retest.jsonl and a summary; exit 1 if a seed is no longer caught

Each worker k takes every k-th seed: copy of /repo with the seed's patch applied, `./check <property>` in a copy of /verif
(GAFTOOLS_REPO points at the patched copy), verdict recorded.  Seeds marked `superseded_by` are skipped.
"""
import glob
import json
import os
import shutil
import subprocess
import sys
from concurrent.futures import ThreadPoolExecutor

VERIF = os.path.dirname(os.path.dirname(os.path.abspath(__file__)))
REPO = "/repo"


def worker(outdir, k, n, seeds):
    w = os.path.join(outdir, "w%d" % k)
    wv, wr = os.path.join(w, "verif"), os.path.join(w, "repo")
    os.makedirs(w, exist_ok=True)
    subprocess.run(["rsync", "-a", "--delete", "--exclude", ".git", "--exclude", "seeded", "--exclude", "replays", "--exclude", "notes", VERIF + "/", wv + "/"], check=True)
    res = []
    for i, sd in enumerate(seeds):
        if i % n != k:
            continue
        meta = json.load(open(os.path.join(sd, "meta.json")))
        sid = os.path.basename(sd.rstrip("/"))
        if "superseded_by" in meta:
            res.append({"id": sid, "verdict": "superseded"})
            continue
        if os.path.exists(wr):
            shutil.rmtree(wr)
        subprocess.run(["rsync", "-a", "--exclude", ".git", REPO + "/", wr + "/"], check=True)
        p = subprocess.run(["patch", "-p1", "-s", "-i", os.path.abspath(os.path.join(sd, "patch.diff"))], cwd=wr, stdout=subprocess.PIPE, stderr=subprocess.STDOUT, text=True)
        if p.returncode != 0:
            res.append({"id": sid, "verdict": "patch-does-not-apply", "detail": p.stdout[-300:]})
            continue
        env = dict(os.environ, GAFTOOLS_REPO=wr, PYTHONPATH=wr, PYTHONDONTWRITEBYTECODE="1", VERIF_COVERAGE="0")
        prop = meta["breaks_property"]
        try:
            c = subprocess.run(["./check", prop], cwd=wv, env=env, stdout=subprocess.PIPE, stderr=subprocess.STDOUT, text=True, timeout=1800)
            out, rc = c.stdout, c.returncode
        except subprocess.TimeoutExpired:
            out, rc = "timeout", 3
        line = [l for l in out.splitlines() if l.startswith(("OK", "FAIL"))]
        v = "caught" if rc == 1 and "no-failing-input-found" not in out else "caught-tie-only" if rc == 1 else "MISSED" if rc == 0 else "harness(%s)" % rc
        res.append({"id": sid, "property": prop, "verdict": v, "line": (line[-1] if line else out[-200:])[:160]})
        print(sid, v, flush=True)
    return res


def main():
    outdir, n = sys.argv[1], int(sys.argv[2])
    os.makedirs(outdir, exist_ok=True)
    seeds = sorted(d for d in glob.glob(os.path.join(VERIF, "seeded", "*")) if os.path.isdir(d) and os.path.exists(os.path.join(d, "meta.json")))
    with ThreadPoolExecutor(n) as ex:
        parts = list(ex.map(lambda k: worker(outdir, k, n, seeds), range(n)))
    res = sorted([r for p in parts for r in p], key=lambda r: r["id"])
    with open(os.path.join(outdir, "retest.jsonl"), "w") as f:
        for r in res:
            f.write(json.dumps(r) + "\n")
    from collections import Counter
    print(Counter(r["verdict"] for r in res))
    bad = [r for r in res if r["verdict"] not in ("caught", "caught-tie-only", "superseded")]
    for r in bad:
        print("NOT CAUGHT:", r)
    sys.exit(1 if bad else 0)


if __name__ == "__main__":
    main()
