#!/bin/bash
# tools/try_seed.sh <seed-id> <worktree> <prop> [more props...]
# 1. confirm in the scratch worktree: suite passes with the change, demo fails with / passes without the change
# 2. store under /verif/seeded/<seed-id>/  3. apply to /repo, run the checks, undo
set -u
ID="$1"; WT="$2"; shift 2
OUT=/verif/seeded/$ID
mkdir -p "$OUT"
cd "$WT" || exit 2
git diff -- gaftools > "$OUT/patch.diff"
[ -s "$OUT/patch.diff" ] || cp MUTATION/patch.diff "$OUT/patch.diff"
cp MUTATION/demo.py "$OUT/demo.py"; cp MUTATION/NOTES.md "$OUT/NOTES.md" 2>/dev/null
git checkout -q -- gaftools; git apply "$OUT/patch.diff" || { echo "patch does not apply in worktree"; exit 2; }
export PYTHONPATH="$WT"   # the worktree's code, not the installed /repo
SUITE=$(/venv/bin/python -m pytest -q -p no:cacheprovider 2>&1 | tail -1)
/venv/bin/python MUTATION/demo.py >/dev/null 2>&1; DEMO_WITH=$?
git checkout -q -- gaftools
/venv/bin/python MUTATION/demo.py >/dev/null 2>&1; DEMO_WITHOUT=$?
git apply "$OUT/patch.diff"
echo "suite(with change): $SUITE | demo with change: exit $DEMO_WITH | demo without: exit $DEMO_WITHOUT"
unset PYTHONPATH
cd /repo && git apply "$OUT/patch.diff" || { echo "patch does not apply to /repo"; exit 2; }
RES=""
for P in "$@"; do
  cd /verif && LINE=$(./check "$P" 2>&1 | grep -E "^(VIOLATION|OK|FAIL)" | tr '\n' ' ')
  echo "  $P: $LINE"
  RES="$RES$P: $LINE; "
done
cd /repo && git checkout -q -- . && git status --short | head -3
# the evidence files now describe runs against the changed tree: restore the committed (clean-tree) ones
cd /verif && git checkout -q -- evidence 2>/dev/null; python3 harness/translate.py >/dev/null 2>&1   # Gen/ back to the clean source
python3 - "$ID" "$SUITE" "$DEMO_WITH" "$DEMO_WITHOUT" "$RES" "$@" <<'PY'
import json,sys,os
i,suite,dw,dwo,res=sys.argv[1:6]; props=sys.argv[6:]
notes=open('/verif/seeded/%s/NOTES.md'%i).read() if os.path.exists('/verif/seeded/%s/NOTES.md'%i) else ''
json.dump({"id":i,"breaks_property":props[0],"checks_run":props,"suite_with_change":suite,"demo_exit_with_change":int(dw),"demo_exit_without_change":int(dwo),
           "check_results":res,"needs_to_manifest":notes[:1500]},open('/verif/seeded/%s/meta.json'%i,'w'),indent=1)
PY
