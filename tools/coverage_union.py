#!/usr/bin/env python3
"""Which statements of gaftools/*.py does NO check reach?  Reads evidence/*.json (implementation_coverage of the last run of every
check) and prints, per file, the statements missed by every check that measured the file, with the source line."""
import glob
import json
import os
import sys

HERE = os.path.dirname(os.path.dirname(os.path.abspath(__file__)))
REPO = os.environ.get("GAFTOOLS_REPO") or "/repo"


def expand(ranges):
    out = set()
    for r in ranges:
        a, _, b = r.partition("-")
        out |= set(range(int(a), int(b or a) + 1))
    return out


def main():
    missed, total = {}, {}
    for f in sorted(glob.glob(os.path.join(HERE, "evidence", "C*.json"))):
        cov = json.load(open(f))["coverage"].get("implementation_coverage") or {}
        for rel, v in cov.items():
            if "missed_lines" not in v:
                continue
            m = expand(v["missed_lines"])
            missed[rel] = m if rel not in missed else missed[rel] & m
            total[rel] = v["statements"]
    grand_t = grand_m = 0
    for rel in sorted(missed):
        src = open(os.path.join(REPO, rel)).read().splitlines()
        grand_t += total[rel]
        grand_m += len(missed[rel])
        print("== %s: %d of %d statements reached by no check" % (rel, len(missed[rel]), total[rel]))
        if "-v" in sys.argv:
            for ln in sorted(missed[rel]):
                print("   %4d  %s" % (ln, src[ln - 1].rstrip()[:110]))
    print("TOTAL: %d of %d statements (%.1f%%) reached by at least one check" % (grand_t - grand_m, grand_t, 100.0 * (grand_t - grand_m) / max(1, grand_t)))


if __name__ == "__main__":
    main()
