#!/usr/bin/env python3
"""Regenerate MANIFEST.json from the table below (single place to edit what is claimed)."""
import json
import os

HERE = os.path.dirname(os.path.dirname(os.path.abspath(__file__)))
TECH = "Lean 4 theorems about a model of the code + differential correspondence of the model's executable definitions with the real implementation"
TECH_A = "Lean 4 theorems re-checked against definitions translated from the current source (Tie A) + differential correspondence"
BASE = "Trusted: Lean 4.33 kernel; axioms propext/Classical.choice/Quot.sound only (audited per run); the hand-written model's fidelity rests on the correspondence run (sampled); JSON driver and canonicalisers. "

CLAIMS = {
    "C08": dict(tech=TECH_A, ref="§5-C08",
                text="Proof: the comparator translated from sort.py on every run is proved to decide the (untagged-last, BO, NO, start, input position) order, to be total/antisymmetric/transitive, and any sorted permutation is proved unique (so the output is independent of input order and of the sort algorithm). Correspondence: real compare_gaf on random pairs and real run_sort on generated files incl. shuffled re-runs, spec evaluated on the implementation's output.",
                note=BASE + "Translator harness/translate.py (compare_gaf -> Gen.cmpGaf). CPython list.sort assumed to return a sorted permutation for a consistent total order. process_alignment's keys are C09's subject."),
    "C09": dict(tech=TECH, ref="§5-C09",
                text="Proof: process_alignment's loop is proved equal to a declarative spec of bo/sn/iv and of the sort key (process_eq_spec), the output offsets are a permutation of the input offsets and each line carries the suffix of its own record, and the whole-file executable spec holds of the model's output (specFile_model). Correspondence: real run_sort (plain/BGZF in, plain/bgzip out), every output line compared byte-for-byte with its input line + three fields.",
                note=BASE + "Path tokenisation (re.split) and the raw-line copy are modelled at token level and covered by correspondence only. Hypotheses: known nodes, at most one rank-0 contig per path, no trailing blanks."),
    "C10": dict(tech=TECH, ref="§5-C10",
                text="Proof: the .gsi bookkeeping is proved to hold, for exactly the contigs != 'unknown' of the output, the offsets of the first and last record of that contig; no 'unknown' key; every record of a contig lies between its two offsets for any strictly increasing offset function (plain or BGZF virtual offsets). Correspondence: real run_sort with/without 'unknown' records, .gsi/--outind, plain/BGZF output; offsets resolved by seeking the real output.",
                note=BASE + "tell()/seek() of pysam BGZF and of text files assumed strictly increasing and faithful (C17's interface); pickle round-trip."),
    "C14": dict(tech=TECH, ref="§5-C14",
                text="Proof: for every GFA file, the side-indexed adjacency built by add_edge answers the path_exists table exactly when the step is a declared link or its mirror image (stepOk_iff: all orientation cases, self-links, both-end declarations, duplicate and dangling links), hence extract_path returns the spelled sequence exactly for walks and '' otherwise (extractPath_spec); the reversed walk is accepted iff the walk is and spells the reverse complement. Correspondence: real GFA.extract_path and find_path (file mode, FASTA names) on random graphs x walk/non-walk step sequences and their reversals.",
                note=BASE + "Text tokenisation of GFA lines and of the path string (re.findall) is modelled at token level: covered by correspondence only. Steps range over nodes of the graph (an unknown first node of a pair raises KeyError in the tool: outside the quantifier)."),
    "C19": dict(tech=TECH, ref="§5-C19",
                text="Proof: the fold model of run_stat is proved equal to declarative definitions (counts, primary-only reads/bases, per-read maxima as exact rationals, CIGAR run counts, >=50 threshold, perfect alignments) and invariant under every permutation of the records, averages included. Correspondence: real run_stat on generated files (tp P/p/S/I/absent, MAPQ 0.., several records per read, plain/BGZF, each file also shuffled); printed averages must be correct 3-decimal roundings of the exact values.",
                note=BASE + "IEEE floats and round() are modelled by exact rationals (not verified); hypothesis: at least one primary record (the tool divides by the number of reads). parse_gaf_line is C16's model."),
}

IN_PROGRESS = "check under construction in this round; not claimed until its proofs and correspondence run green"


def main():
    props = [json.loads(l)["id"] for l in open(os.path.join(HERE, "properties.jsonl"))]
    checks = []
    for p in props:
        if p not in CLAIMS:
            continue
        c = CLAIMS[p]
        checks.append({
            "property_id": p,
            "quick_cmd": "./check %s --tier quick" % p,
            "thorough_cmd": "./check %s --tier thorough" % p,
            "evidence_file": "evidence/%s.json" % p,
            "replay_cmd_template": "./check %s --replay {path}" % p,
            "engine": "lean+harness",
            "level_claimed": {"category": "proof", "text": c["text"], "design_ref": "DESIGN.md " + c["ref"]},
            "level_note": c["note"],
            "technique": c["tech"],
        })
    m = {
        "version": 1,
        "setup_cmd": "./check --setup",
        "hooks": {
            "guard": "GAFTOOLS_VERIF",
            "enable": "GAFTOOLS_VERIF=1 (and GAFTOOLS_VERIF_BATCH_SIZE=<n>) in the environment of the process that imports gaftools; pure Python, editable install, no rebuild",
            "baseline_off_cmd": "cd /repo && env -u GAFTOOLS_VERIF -u GAFTOOLS_VERIF_BATCH_SIZE /venv/bin/python -m pytest -ra -q -p no:cacheprovider --timeout=900 --continue-on-collection-errors",
            "source_commits": ["6a1b7f7"],
            "add_only": True,
        },
        "engines": [
            {"name": "lean", "path": "lean/", "serves_properties": sorted(CLAIMS), "kind_free_text": "Lean 4 model (Gaftools/Model), specs (Gaftools/Spec), property theorems (Gaftools/Props), translated fragments (Gaftools/Gen), compiled JSON driver"},
            {"name": "harness", "path": "harness/", "serves_properties": sorted(CLAIMS), "kind_free_text": "Python: translator (Tie A), generators, in-process runs of /repo's gaftools, differential comparison with the Lean driver, verdicts, evidence"},
        ],
        "checks": checks,
        "not_applicable": [{"property_id": p, "reason": IN_PROGRESS} for p in props if p not in CLAIMS],
        "notes": "All checks: ./check <id> [--tier quick|thorough]; exit 0 held / 1 VIOLATION / 2 harness trouble. See DESIGN.md.",
    }
    with open(os.path.join(HERE, "MANIFEST.json"), "w") as f:
        json.dump(m, f, indent=1)


if __name__ == "__main__":
    main()
