#!/usr/bin/env python3
"""Regenerate MANIFEST.json from the table below (single place to edit what is claimed)."""
import json
import os

HERE = os.path.dirname(os.path.dirname(os.path.abspath(__file__)))
TECH = "Lean 4 theorems about a model of the code + differential correspondence of the model's executable definitions with the real implementation"
TECH_A = "Lean 4 theorems re-checked against definitions translated from the current source (Tie A) + differential correspondence"
BASE = "Trusted: Lean 4.33 kernel; axioms propext/Classical.choice/Quot.sound only (audited per run); the hand-written model's fidelity rests on the correspondence run (sampled); JSON driver and canonicalisers. "

CLAIMS = {
    "C08": dict(tech=TECH_A, ref="§5-C08",
                text="Proof: the comparator translated from sort.py on every run is proved to decide the (untagged-last, BO, NO, start, input position) order, to be total/antisymmetric/transitive, and any sorted permutation is proved unique (so the output is independent of input order and of the sort algorithm). Correspondence: real compare_gaf on random pairs and real run_sort on generated files incl. shuffled re-runs, spec evaluated on the implementation's output.",
                note=BASE + "Translator harness/translate.py (compare_gaf -> Gen.cmpGaf). CPython list.sort assumed to return a sorted permutation for a consistent total order. process_alignment's keys are C09's subject."),
    "C09": dict(tech=TECH, ref="§5-C09",
                text="Proof: process_alignment's loop is proved equal to a declarative spec of bo/sn/iv and of the sort key (process_eq_spec), the output offsets are a permutation of the input offsets and each line carries the suffix of its own record, and the whole-file executable spec holds of the model's output (specFile_model). Correspondence: real run_sort (plain/BGZF in, plain/bgzip out), every output line compared byte-for-byte with its input line + three fields.",
                note=BASE + "Path tokenisation (re.split) and the raw-line copy are modelled at token level and covered by correspondence only. Hypotheses: known nodes, at most one rank-0 contig per path, no trailing blanks."),
    "C10": dict(tech=TECH, ref="§5-C10",
                text="Proof: the .gsi bookkeeping is proved to hold, for exactly the contigs != 'unknown' of the output, the offsets of the first and last record of that contig; no 'unknown' key; every record of a contig lies between its two offsets for any strictly increasing offset function (plain or BGZF virtual offsets). Correspondence: real run_sort with/without 'unknown' records, .gsi/--outind, plain/BGZF output; offsets resolved by seeking the real output.",
                note=BASE + "tell()/seek() of pysam BGZF and of text files assumed strictly increasing and faithful (C17's interface); pickle round-trip."),
    "C14": dict(tech=TECH, ref="§5-C14",
                text="Proof: for every GFA file, the side-indexed adjacency built by add_edge answers the path_exists table exactly when the step is a declared link or its mirror image (stepOk_iff: all orientation cases, self-links, both-end declarations, duplicate and dangling links), hence extract_path returns the spelled sequence exactly for walks and '' otherwise (extractPath_spec); the reversed walk is accepted iff the walk is and spells the reverse complement. Correspondence: real GFA.extract_path and find_path (file mode, FASTA names) on random graphs x walk/non-walk step sequences and their reversals.",
                note=BASE + "Text tokenisation of GFA lines and of the path string (re.findall) is modelled at token level: covered by correspondence only. Steps range over nodes of the graph (an unknown first node of a pair raises KeyError in the tool: outside the quantifier)."),
    "C19": dict(tech=TECH, ref="§5-C19",
                text="Proof: the fold model of run_stat is proved equal to declarative definitions (counts, primary-only reads/bases, per-read maxima as exact rationals, CIGAR run counts, >=50 threshold, perfect alignments) and invariant under every permutation of the records, averages included. Correspondence: real run_stat on generated files (tp P/p/S/I/absent, MAPQ 0.., several records per read, plain/BGZF, each file also shuffled); printed averages must be correct 3-decimal roundings of the exact values.",
                note=BASE + "IEEE floats and round() are modelled by exact rationals (not verified); hypothesis: at least one primary record (the tool divides by the number of reads). parse_gaf_line is C16's model."),
    "C15": dict(tech=TECH, ref="§5-C15",
                text="Proof (full): all_components returns the partition of the node set into reachability classes (findComp_exact with the shared visited flags, components_partition); dfs visits exactly the start node's class, once each, starting at the start node; every loaded graph has a symmetric, closed neighbour relation; after every history of add-node/add-link/delete-node the graph equals the one built from the surviving nodes and links, adjacency symmetric, nothing dangling (history_eq_build, history_symmetric, history_no_dangling). biccs: the full exactness statement (BiccExact) is kept visible but NOT proved; what decides it here is the executable definition-level checker (articulation point = removal disconnects, proved equivalent in isCut_iff; blocks = classes of links no single node removal separates) evaluated on the real biccs output for random graphs and exhaustively on all simple graphs <= 4 (thorough: 5) nodes and all small multigraphs <= 3 nodes.",
                note=BASE + "biccs exactness is sampled/exhaustive-small-scope, not a theorem (labelled partial); the characterisation of blocks by single-node separation is the textbook definition taken as specification. Histories only use calls that do not raise. edge_tags of deleted nodes are not part of the observation (adjacency)."),
    "C16": dict(tech=TECH, ref="§5-C16",
                text="Proof: for every well-formed record (canonical decimals, SAM-grammar optional fields, ASCII) print(parse(line)) reproduces the read name cut at its first space, columns 2-12 verbatim (decimal print/parse round trip proved), every optional field verbatim and in order with only ds:Z: dropped, provided no TAG:TYPE repeats (print_parse, print_parse_line); no optional field is ever invented (no_invented_field, also with repeats; in particular no cg:Z: for a record without CIGAR); with repeated tags the behaviour is exactly the recorded known finding K1 (print_parse_K1). Correspondence: real parse_gaf_line+__str__, view -n and view -f stable on generated records over the whole tag grammar, plus repeated-tag and malformed streams.",
                note=BASE + "Known finding K1 (repeated TAG:TYPE emitted once) is reported as KNOWN-FINDING, any other deviation on such records is a violation. Python re/str semantics as modelled in Model/Gaf.lean (ASCII). The realign route is covered by C12's check."),
    "C20": dict(tech=TECH, ref="§5-C20",
                text="Proof: phase writes one record per input record in order (phase_lines); each output record is the input's twelve columns (strand included) followed by ps:Z/ht:Z carrying the values of the FIRST TSV line naming the read ('none' when absent or unphased) followed by the input's optional fields (phase_record, lookup_first); the output is again a well-formed GAF line (phase_wellformed). Correspondence: real add_phase_info on generated GAFs (both strands, stable/unstable paths, all tag shapes, plain/BGZF) x TSVs with H1/H2/none/missing/duplicated reads.",
                note=BASE + "phase_wellformed carries the hypothesis that the last kept optional field does not end in a blank (the counterexample without it is in the file). Records without repeated tags (K1 of C16). TSV lines have >= 4 columns."),
    "C11": dict(tech=TECH, ref="§5-C11",
                text="Proof over ALL schedules of a transition-system model of the collector protocol (workers put/flush/exit, parent get/timeout/liveness check): whenever the parent leaves the loop normally every record of the group has been received exactly once (done_complete, by a conservation + per-worker FIFO invariant), the written order is the sorted priority order = input order (done_output_range), without an abnormal worker termination the parent never fails (no_spurious_failure), from every quiescent state the parent terminates (quiescent_terminates), worker work is bounded (worker_step_decreases), and batching concatenates to the input (groups_flatten). Correspondence: the REAL realign_gaf and wfa_alignment driven through a scripted multiprocessing stand-in; exhaustive DFS over all interleavings of 2 workers x 1 record (including the timeout-while-in-flight window) and random larger schedules; each schedule replayed through the Lean model; output compared with the single-core file produced with the real multiprocessing.",
                note=BASE + "multiprocessing runtime modelled, not verified: Queue FIFO, get(timeout) raises Empty only when nothing is readable, exit 0 implies a flushed feeder. Hook GAFTOOLS_VERIF_BATCH_SIZE makes small batches. harness/fakemp.py is trusted."),
    "C13": dict(tech=TECH, ref="§5-C13",
                text="Proof over ALL schedules with worker deaths at any point: if a worker died with anything undelivered (at least its sentinel) the parent never reports success (death_detected, from done_complete's invariant), `failed` is reached only when some worker has a non-zero exit code, a dead worker's loss is permanent, and from every quiescent state after such a death the parent's drain ends in `failed`, i.e. exit status 1, never a hang (quiescent_death_fails, quiescent_terminates). Correspondence: real realign_gaf under scripted schedules with one death at every possible point (exhaustive for 2 workers x 1 record, cut at the tier's limit in quick) and random larger ones with several exit codes.",
                note=BASE + "'A point of its batch' is read as any point up to the delivery of the worker's sentinel; a worker killed after everything reached the pipe leaves a complete output and success is reported (stated). Channel operations are atomic with respect to death: a kill inside a pipe write or while holding the queue lock is CPython/OS behaviour the model cannot exhibit (partial in that sense)."),
    "C12": dict(tech=TECH, ref="§5-C12",
                text="Proof (conditional on the foreign aligner's contract, which is an explicit hypothesis and is monitored): the executable checker cigarValid decides the inductive definition of an end-to-end alignment (cigarValid_iff); a valid alignment consumes both strings exactly; the printed CIGAR parses back to the operations the tallies were taken from, match count and block length agree with it, 'M' is never emitted (tally_agrees, parse_render); all other columns and optional fields are unchanged (untouched); alignments of more than 60 000 read bases pass through unchanged (passthrough); realign_record assembles the full statement under AlignerContract. Correspondence/monitor: the REAL run_realign (real multiprocessing, WFA2) on generated reads; for every output record the Lean driver re-derives the path slice with its own graph model, runs the proved checker on the CIGAR the tool wrote, compares tallies, cost(out) <= cost(in) under the aligner's penalties, untouched columns/tags and the pass-through guard.",
                note=BASE + "PARTIAL: WFA2-lib/pywfa is C code outside every theorem (AlignerContract assumed, monitored per case); pysam.FastaFile.fetch assumed to return the read slice; penalties 4/6/2 read from pywfa's defaults."),
    "C01": dict(tech=TECH_A, ref="§5-C01",
                text="Proof, both directions, for every valid rGFA and every walk / stable record, unbounded path length: unstable->stable (toStable_locus): the merge loop preserves the spelled sequence (induction on the walk, '<' merges extend to the left), the collapsed single-reference-interval case is the slice / reverse-complement-slice identity, path length = total interval length or the contig length, CIGAR reversed iff the strand flips; stable->unstable (toUnstable_bare, toUnstable_ivs): the bisection window contains every overlapping segment and the three cases select exactly the overlapping segments (selected_eq_overlaps), rank-0 sequences are tiled (ref_tiled), so the emitted node run spells the same bases with the same offsets arithmetic on both strands. merge_nodes is translated from the source on every run and proved equal to the model (Tie A). Correspondence: real view --format stable/unstable on generated graphs and records; the Lean driver spells the locus of input and output from the S lines and compares.",
                note=BASE + "Translator (merge_nodes). The table-building glue of view.run and the path/number text layer (Model/View.lean, Model/ConvText.lean) are tied by correspondence only. Stable inputs: bare rank-0 contig (either strand) or '+' interval lists tiled by segments."),
    "C03": dict(tech=TECH, ref="§5-C03",
                text="Proof: for every graph with unique ids and sorted disjoint per-contig tables and every record list (unstable: nodes of the graph; stable: intervals/spans that overlap a node), indexing succeeds, every key is (id, SN, SO, SO+LN) of a node, keys are distinct, and ordinal i is in the entry of node n iff record i traverses n (index_exact via recNodes_iff: for stable records through the bisection-window and three-case lemmas). Correspondence: real index.run in the four configurations {stable, unstable} x {plain, BGZF with small blocks}; every stored offset is resolved by seeking the real file (GAF.read_line) and the entry sets compared; absence of false entries is part of the comparison.",
                note=BASE + "Offsets enter only through their order and seek/readline (C17's interface): the model works on record ordinals. Pickle round-trip trusted. A revisited node lists the record twice (the property says 'contains')."),
    "C04": dict(tech=TECH, ref="§5-C04",
                text="Proof: view --node on the index returns exactly the ordinals of the records traversing at least one named node, each once, in file order, nodes without entry contribute nothing, and 'no alignments' exactly when that set is empty (selectNodes_exact). Correspondence: real view.run with node lists (repeats, unaligned nodes), with and without --format, plain/BGZF; content of the selected records checked against C16's expectation (no --format) and against convert-whole-file-then-select (--format); whole-file view reproduces the file.",
                note=BASE + "Same interface assumptions as C03. Content of re-emitted records is C16; conversion is C01/C02."),
    "C05": dict(tech=TECH, ref="§5-C05",
                text="Proof: the repaired region search returns exactly the indexed nodes of the contig whose interval intersects the closed region (regionNodes_iff) and view --region equals view --node for the nodes under the regions, 'no alignments' when nothing matches (selectRegions_exact); termination is by construction (structural recursion over the node list). Correspondence: real view.run with 1-3 regions (inside one node, on boundaries, spanning nodes, over unaligned nodes, haplotype contigs); an internal error or a foreign line is a violation.",
                note=BASE + "The property text leaves open whether position b of CONTIG:a-b belongs to the region: the executable spec accepts both readings for a node that only touches b; the model follows the code (closed)."),
    "C06": dict(tech=TECH, ref="§5-C06",
                text="PARTIAL proof + definition-level checking. Proved: depth-first traversal of a path-shaped scaffold graph from either end enumerates the chain in order whatever the dict order or the order/multiplicity of neighbour lists (dfs_path, dfs_path_rev, dfs_path_perm); the numbering of a traversal gives scaffold nodes NO = 0 and a bubble's inner nodes the bubble's BO and NO = 1..M in lexicographic order, and nothing else (numberChain_*); chromosomes receive consecutive disjoint BO ranges in request order (runOrder_ranges, written_names). The model never reads BO/NO input tags (stale tags cannot matter). NOT proved in general: ChainCorrect (decompose of a linear chain satisfies the chain specification) - it needs exactness of biccs (C15's open part). It is decided per run by evaluating chainSpecB - built on the definition-level blocks/cut vertices, not on biccs - on the BO/NO the REAL order_gfa wrote, for generated multi-chromosome graphs (SNP/insertion/deletion/inversion/multi-segment/nested bubbles, numeric/mixed ids, shuffled lines, stale tags), with a re-run on a re-shuffled file to check order-independence.",
                note=BASE + "Known finding K2 (fewer than two articulation points: direction depends on set iteration order / PYTHONHASHSEED) is reported as KNOWN-FINDING from a recorded witness run under 8 hash seeds. Hypotheses: scaffold nodes are reference segments of one SN; strict plurality of the chromosome name in its component."),
    "C17": dict(tech=TECH, ref="§5-C17",
                text="PARTIAL (codecs are foreign code). Proved: BGZF virtual offsets order like (block address, offset in block) (voffset_lt); plain byte offsets and BGZF virtual offsets are strictly increasing in the record ordinal; sorting and de-duplicating stored offsets commutes with any strictly increasing offset function, so view's selection on stored offsets is the selection on ordinals (select_parametric) and sort's .gsi holds the offsets of the first/last positions (gsi_parametric). All models are functions of the record list / token list only. Correspondence: every sub-command (index, view nodes/region/format/whole, sort+.gsi, stat, phase, realign, find_path, order_gfa) under {plain, BGZF} GAF x {plain, gzip} graph on generated inputs, one GAF > 64 KiB (several BGZF blocks); outputs, statistics and ordinal-resolved indexes must be identical.",
                note=BASE + "htslib/pysam BGZF tell/seek/readline and gzip.open are assumed to implement the interface (strictly increasing offsets; seek returns the record); this is exactly what the correspondence exercises on real files."),
    "C18": dict(tech=TECH, ref="§5-C18",
                text="Proof: the chromosome loop with its running BO is a pure filter with respect to skipped chromosomes - runOrder dec order = runOrder dec (order without the skipped ones) (skip_isolated); it completes whatever subset cannot be ordered (runOrder_total); exactly the orderable chromosomes are written, in request order (written_names), with consecutive BO ranges (runOrder_ranges). Correspondence: real run_order_gfa on multi-chromosome graphs in which random chromosomes get branching tips, three cut vertices on a cycle, a haplotype tail, or are joined to another chromosome through a haplotype node, at random positions of --chromosome_order; non-chain components must be skipped with no file/CSV, the others must equal a run from which the skipped ones are absent, the command must complete.",
                note=BASE + "`dec` (decompose_and_order without the BO offset) is modelled in Model/Order.lean and tied by correspondence; that it does not depend on the running BO is by construction of the model (the Python adds bo_start to positions). Genuine defect D19 (AssertionError on components joined through a haplotype) was repaired by a fix: commit."),
}

IN_PROGRESS = "check under construction in this round; not claimed until its proofs and correspondence run green"


def main():
    props = [json.loads(l)["id"] for l in open(os.path.join(HERE, "properties.jsonl"))]
    checks = []
    for p in props:
        if p not in CLAIMS:
            continue
        c = CLAIMS[p]
        checks.append({
            "property_id": p,
            "quick_cmd": "./check %s --tier quick" % p,
            "thorough_cmd": "./check %s --tier thorough" % p,
            "evidence_file": "evidence/%s.json" % p,
            "replay_cmd_template": "./check %s --replay {path}" % p,
            "engine": "lean+harness",
            "level_claimed": {"category": "proof", "text": c["text"], "design_ref": "DESIGN.md " + c["ref"]},
            "level_note": c["note"],
            "technique": c["tech"],
        })
    m = {
        "version": 1,
        "setup_cmd": "./check --setup",
        "hooks": {
            "guard": "GAFTOOLS_VERIF",
            "enable": "GAFTOOLS_VERIF=1 (and GAFTOOLS_VERIF_BATCH_SIZE=<n>) in the environment of the process that imports gaftools; pure Python, editable install, no rebuild",
            "baseline_off_cmd": "cd /repo && env -u GAFTOOLS_VERIF -u GAFTOOLS_VERIF_BATCH_SIZE /venv/bin/python -m pytest -ra -q -p no:cacheprovider --timeout=900 --continue-on-collection-errors",
            "source_commits": ["6a1b7f7"],
            "add_only": True,
        },
        "engines": [
            {"name": "lean", "path": "lean/", "serves_properties": sorted(CLAIMS), "kind_free_text": "Lean 4 model (Gaftools/Model), specs (Gaftools/Spec), property theorems (Gaftools/Props), translated fragments (Gaftools/Gen), compiled JSON driver"},
            {"name": "harness", "path": "harness/", "serves_properties": sorted(CLAIMS), "kind_free_text": "Python: translator (Tie A), generators, in-process runs of /repo's gaftools, differential comparison with the Lean driver, verdicts, evidence"},
        ],
        "checks": checks,
        "not_applicable": [{"property_id": p, "reason": IN_PROGRESS} for p in props if p not in CLAIMS],
        "notes": "All checks: ./check <id> [--tier quick|thorough]; exit 0 held / 1 VIOLATION / 2 harness trouble. See DESIGN.md.",
    }
    with open(os.path.join(HERE, "MANIFEST.json"), "w") as f:
        json.dump(m, f, indent=1)


if __name__ == "__main__":
    main()
