#!/bin/bash
# apply every seeded change to /repo in turn, run the check of the property it breaks, undo; prints one line per seed
cd /verif
for d in seeded/*/; do
  id=$(basename $d)
  prop=$(python3 -c "import json;print(json.load(open('$d/meta.json'))['breaks_property'])")
  if grep -q superseded_by $d/meta.json; then echo "$id -> superseded (no longer breaks the property on the repaired tree)"; continue; fi
  (cd /repo && git apply /verif/$d/patch.diff) || { echo "$id: patch does not apply"; continue; }
  line=$(./check $prop 2>&1 | grep -E "^(OK|FAIL)" | cut -c1-120)
  (cd /repo && git checkout -q -- .)
  echo "$id -> $line"
done
python3 harness/translate.py >/dev/null
git checkout -q -- evidence 2>/dev/null   # evidence of runs against changed trees is not kept
