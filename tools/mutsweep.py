#!/usr/bin/env python3
"""Mechanical mutation sweep: how many single-point changes of the anchored code do the checks notice?

  tools/mutsweep.py gen  <outdir>                 enumerate mutants of the anchored line ranges (properties.jsonl) -> <outdir>/mutants.jsonl
  tools/mutsweep.py run  <outdir> <k> <n>         worker k of n: for every k-th mutant: suite must pass, then the mapped checks (quick)
  tools/mutsweep.py report <outdir>               summary + the survivors (suite passes, every mapped check says OK)

Each worker needs a private copy of /verif (Gen/ is regenerated from the source on every run) and of the repository:
<outdir>/w<k>/verif and <outdir>/w<k>/repo are created on demand.  Nothing here touches /repo or /verif.
A survivor is either an equivalent mutant (the property still holds) or a blind spot of a generator: triage by hand.
"""
import ast
import json
import os
import re
import shutil
import subprocess
import sys

VERIF = os.path.dirname(os.path.dirname(os.path.abspath(__file__)))
REPO = "/repo"
CHECKS_OF = {
    "gaftools/conversion.py": ["C01", "C02"], "gaftools/utils.py": ["C01", "C03", "C07"], "gaftools/cli/view.py": ["C04", "C05", "C01"],
    "gaftools/cli/index.py": ["C03", "C04"], "gaftools/gfa.py": ["C07", "C14", "C15", "C06", "C01"], "gaftools/gaf.py": ["C16", "C19", "C17"],
    "gaftools/cli/sort.py": ["C08", "C09", "C10"], "gaftools/cli/order_gfa.py": ["C06", "C07", "C18"],
    "gaftools/cli/realign.py": ["C11", "C13", "C12"], "gaftools/cli/stat.py": ["C19"], "gaftools/cli/phase.py": ["C20"],
    "gaftools/cli/find_path.py": ["C14"],
}
CMP = {"<": "<=", "<=": "<", ">": ">=", ">=": ">", "==": "!=", "!=": "=="}


def anchored_ranges():
    rng = {}
    for line in open(os.path.join(VERIF, "properties.jsonl")):
        d = json.loads(line)
        for m in d["anchors"].get("mechanism", []):
            w = m.get("where", "")
            mm = re.match(r"(gaftools/[\w/]+\.py):(\d+)(?:-(\d+))?", w)
            if mm and mm.group(1) in CHECKS_OF:
                a = int(mm.group(2))
                b = int(mm.group(3) or a)
                rng.setdefault(mm.group(1), []).append((a, b, d["id"]))
    return rng


def enclosing_functions(tree, ranges):
    """anchors were written against the pinned tree; the repaired tree shifted lines: take every function that overlaps a range
    (± 15 lines) as a whole"""
    out = []
    for n in ast.walk(tree):
        if isinstance(n, (ast.FunctionDef,)):
            for a, b, pid in ranges:
                if n.lineno <= b + 15 and n.end_lineno >= a - 15:
                    out.append(n)
                    break
    return out


def mutants_of(rel, src, ranges):
    tree = ast.parse(src)
    lines = src.splitlines(keepends=True)
    offs = [0]
    for l in lines:
        offs.append(offs[-1] + len(l))

    def pos(ln, col):
        # col offsets of ast are in UTF-8 bytes; the files are ASCII in the relevant places
        return offs[ln - 1] + col
    seen = set()
    res = []

    def add(kind, a, b, new, node):
        if (a, b, new) in seen or src[a:b] == new:
            return
        seen.add((a, b, new))
        res.append({"file": rel, "kind": kind, "line": node.lineno, "old": src[a:b][:60], "new": new[:60], "a": a, "b": b, "text": new})
    for fn in enclosing_functions(tree, ranges):
        for n in ast.walk(fn):
            if isinstance(n, ast.Compare):
                left = n.left
                for op, right in zip(n.ops, n.comparators):
                    a, b = pos(left.end_lineno, left.end_col_offset), pos(right.lineno, right.col_offset)
                    seg = src[a:b]
                    m = re.search(r"(<=|>=|==|!=|<|>)", seg)
                    if m and m.group(1) in CMP and "\n" not in seg:
                        add("cmp", a + m.start(), a + m.end(), CMP[m.group(1)], n)
                    left = right
            elif isinstance(n, ast.BoolOp):
                for x, y in zip(n.values, n.values[1:]):
                    a, b = pos(x.end_lineno, x.end_col_offset), pos(y.lineno, y.col_offset)
                    seg = src[a:b]
                    m = re.search(r"\b(and|or)\b", seg)
                    if m and "\n" not in seg:
                        add("bool", a + m.start(), a + m.end(), "or" if m.group(1) == "and" else "and", n)
            elif isinstance(n, ast.BinOp) and isinstance(n.op, (ast.Add, ast.Sub)):
                a, b = pos(n.left.end_lineno, n.left.end_col_offset), pos(n.right.lineno, n.right.col_offset)
                seg = src[a:b]
                m = re.search(r"[+-]", seg)
                if m and "\n" not in seg and not (isinstance(n.left, ast.Constant) and isinstance(n.left.value, str)):
                    add("arith", a + m.start(), a + m.end(), "-" if m.group(0) == "+" else "+", n)
            elif isinstance(n, ast.Constant) and isinstance(n.value, int) and not isinstance(n.value, bool) and n.end_lineno == n.lineno:
                a, b = pos(n.lineno, n.col_offset), pos(n.end_lineno, n.end_col_offset)
                if re.fullmatch(r"[\d_]+", src[a:b]):
                    add("const+1", a, b, str(n.value + 1), n)
                    if n.value != 0:
                        add("const-1", a, b, str(n.value - 1), n)
            elif isinstance(n, ast.UnaryOp) and isinstance(n.op, ast.Not) and n.end_lineno == n.lineno:
                a, b = pos(n.lineno, n.col_offset), pos(n.operand.lineno, n.operand.col_offset)
                add("drop-not", a, b, "", n)
            elif isinstance(n, (ast.If, ast.While)) and n.test.end_lineno == n.test.lineno:
                a, b = pos(n.test.lineno, n.test.col_offset), pos(n.test.end_lineno, n.test.end_col_offset)
                add("negate", a, b, "not (%s)" % src[a:b], n)
            elif isinstance(n, (ast.Continue, ast.Break)):
                a, b = pos(n.lineno, n.col_offset), pos(n.end_lineno, n.end_col_offset)
                add("del-" + type(n).__name__.lower(), a, b, "pass", n)
            elif isinstance(n, ast.AugAssign) and n.end_lineno == n.lineno:
                a, b = pos(n.lineno, n.col_offset), pos(n.end_lineno, n.end_col_offset)
                add("del-augassign", a, b, "pass", n)
            elif (isinstance(n, ast.Expr) and isinstance(n.value, ast.Call) and isinstance(n.value.func, ast.Attribute)
                  and n.value.func.attr in ("append", "sort", "reverse", "add", "extend", "remove", "put", "close") and n.end_lineno == n.lineno):
                a, b = pos(n.lineno, n.col_offset), pos(n.end_lineno, n.end_col_offset)
                add("del-call:" + n.value.func.attr, a, b, "pass", n)
            elif isinstance(n, ast.Subscript) and isinstance(n.slice, ast.Constant) and isinstance(n.slice.value, int) and n.end_lineno == n.lineno:
                a, b = pos(n.slice.lineno, n.slice.col_offset), pos(n.slice.end_lineno, n.slice.end_col_offset)
                if n.slice.value == 0:
                    add("idx", a, b, "-1", n)
                elif n.slice.value == -1:
                    add("idx", a, b, "0", n)
                elif n.slice.value == 1:
                    add("idx", a, b, "0", n)
    return res


def cmd_gen(outdir):
    os.makedirs(outdir, exist_ok=True)
    allm = []
    for rel, ranges in sorted(anchored_ranges().items()):
        src = open(os.path.join(REPO, rel)).read()
        ms = mutants_of(rel, src, ranges)
        # drop mutants inside logging / error-message lines
        keep = []
        for m in ms:
            line = src.splitlines()[m["line"] - 1]
            if re.search(r"logg(er|ing)\.|raise |assert |timers|help=", line):
                continue
            keep.append(m)
        allm += keep
        print("%-28s %4d mutants" % (rel, len(keep)))
    with open(os.path.join(outdir, "mutants.jsonl"), "w") as f:
        for i, m in enumerate(allm):
            m["id"] = i
            f.write(json.dumps(m) + "\n")
    print("total", len(allm))


def cmd_run(outdir, k, n, limit=None):
    w = os.path.join(outdir, "w%d" % k)
    wv, wr = os.path.join(w, "verif"), os.path.join(w, "repo")
    if not os.path.exists(wv):
        os.makedirs(w, exist_ok=True)
        subprocess.run(["rsync", "-a", "--exclude", ".git", "--exclude", "seeded", "--exclude", "replays", "--exclude", "notes", VERIF + "/", wv + "/"], check=True)
    if os.path.exists(wr):
        shutil.rmtree(wr)
    subprocess.run(["rsync", "-a", "--exclude", ".git", REPO + "/", wr + "/"], check=True)
    env = dict(os.environ, GAFTOOLS_REPO=wr, PYTHONPATH=wr, PYTHONDONTWRITEBYTECODE="1", VERIF_COVERAGE="0")
    ms = [json.loads(l) for l in open(os.path.join(outdir, "mutants.jsonl"))]
    done = set()
    resf = os.path.join(outdir, "results-%d.jsonl" % k)
    if os.path.exists(resf):
        done = {json.loads(l)["id"] for l in open(resf)}
    todo = [m for m in ms if m["id"] % n == k and m["id"] not in done]
    if limit:
        todo = todo[:limit]
    for m in todo:
        path = os.path.join(wr, m["file"])
        orig = open(os.path.join(REPO, m["file"])).read()
        mut = orig[:m["a"]] + m["text"] + orig[m["b"]:]
        rec = {"id": m["id"], "file": m["file"], "line": m["line"], "kind": m["kind"], "old": m["old"], "new": m["new"]}
        try:
            ast.parse(mut)
        except SyntaxError:
            rec["verdict"] = "syntax"
            open(resf, "a").write(json.dumps(rec) + "\n")
            continue
        open(path, "w").write(mut)
        try:
            p = subprocess.run(["/venv/bin/python", "-m", "pytest", "-q", "-x", "-p", "no:cacheprovider", "--timeout=120"], cwd=wr, env=env,
                               stdout=subprocess.PIPE, stderr=subprocess.STDOUT, text=True, timeout=900)
            suite_ok = p.returncode == 0
        except subprocess.TimeoutExpired:
            suite_ok = False
        if not suite_ok:
            rec["verdict"] = "killed-by-suite"
        else:
            rec["verdict"] = "survived"
            rec["checks"] = {}
            for c in CHECKS_OF[m["file"]]:
                try:
                    p = subprocess.run(["./check", c], cwd=wv, env=env, stdout=subprocess.PIPE, stderr=subprocess.STDOUT, text=True, timeout=1500)
                    out = p.stdout
                    rc = p.returncode
                except subprocess.TimeoutExpired:
                    out, rc = "timeout", 3
                v = "violation" if rc == 1 and "no-failing-input-found" not in out else "unproved" if rc == 1 else "ok" if rc == 0 else "harness(%s)" % rc
                rec["checks"][c] = v
                if rc == 1:
                    rec["verdict"] = "killed:" + c + (":tie-only" if v == "unproved" else "")
                    break
                if rc != 0:
                    rec["verdict"] = "harness-trouble:" + c
                    rec["tail"] = out[-400:]
                    break
        open(path, "w").write(orig)
        open(resf, "a").write(json.dumps(rec) + "\n")
        print(rec["id"], rec["file"], rec["line"], rec["kind"], repr(rec["old"]), "->", repr(rec["new"]), rec["verdict"], flush=True)


def cmd_report(outdir):
    import glob
    recs = []
    for f in glob.glob(os.path.join(outdir, "results-*.jsonl")):
        recs += [json.loads(l) for l in open(f)]
    by = {}
    for r in recs:
        by.setdefault(r["verdict"].split(":")[0], []).append(r)
    print({k: len(v) for k, v in by.items()}, "of", len(recs))
    for r in sorted(by.get("survived", []) + by.get("harness-trouble", []), key=lambda r: (r["file"], r["line"])):
        print("%-11s %-26s %4d %-14s %r -> %r   %s" % (r["verdict"][:11], r["file"], r["line"], r["kind"], r["old"], r["new"], r.get("checks")))


if __name__ == "__main__":
    if sys.argv[1] == "gen":
        cmd_gen(sys.argv[2])
    elif sys.argv[1] == "run":
        cmd_run(sys.argv[2], int(sys.argv[3]), int(sys.argv[4]), int(sys.argv[5]) if len(sys.argv) > 5 else None)
    else:
        cmd_report(sys.argv[2])
