import Gaftools.Props.TieA2
import Gaftools.Props.TieA9
#print axioms Gaftools.TieA.finishScaffold_gen
#print axioms Gaftools.TieA.numberChain_gen
#print axioms Gaftools.TieA.bstep_gen
#print axioms Gaftools.TieA.biccsFrom_gen
