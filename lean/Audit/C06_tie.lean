import Gaftools.Props.TieA2
#print axioms Gaftools.TieA.finishScaffold_gen
#print axioms Gaftools.TieA.numberChain_gen
