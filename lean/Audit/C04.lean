import Gaftools.Props.C03
#print axioms Gaftools.C03.index_exact
#print axioms Gaftools.C03.sortNat_sorted
#print axioms Gaftools.C03.mem_sortNat
#print axioms Gaftools.C03.selectNodes_exact
