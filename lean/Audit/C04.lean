import Gaftools.Props.C03
import Gaftools.Props.Glue2
#print axioms Gaftools.C03.index_exact
#print axioms Gaftools.C03.sortNat_sorted
#print axioms Gaftools.C03.mem_sortNat
#print axioms Gaftools.C03.selectNodes_exact
#print axioms Gaftools.Glue.goodGraph_of_valid
