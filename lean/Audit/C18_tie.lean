import Gaftools.Props.TieA2
#print axioms Gaftools.TieA.finishScaffold_gen
