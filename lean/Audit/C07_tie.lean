import Gaftools.Props.TieA
#print axioms Gaftools.TieA.eDir_gen_eq_model
