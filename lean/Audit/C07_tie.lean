import Gaftools.Props.TieA5
import Gaftools.Props.TieA
#print axioms Gaftools.TieA.eDir_gen_eq_model
#print axioms Gaftools.TieA.addEdge_gen
#print axioms Gaftools.TieA.removeEdge_gen
