import Gaftools.Props.C20
#print axioms Gaftools.C20.lookup_first
#print axioms Gaftools.C20.phase_lines
#print axioms Gaftools.C20.phase_record
#print axioms Gaftools.C20.phase_wellformed
