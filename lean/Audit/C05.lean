import Gaftools.Props.C03
#print axioms Gaftools.C03.regionNodes_iff
#print axioms Gaftools.C03.selectNodes_exact
#print axioms Gaftools.C03.selectRegions_exact
