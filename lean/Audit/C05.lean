import Gaftools.Props.C03
import Gaftools.Props.Glue2
#print axioms Gaftools.C03.regionNodes_iff
#print axioms Gaftools.C03.selectNodes_exact
#print axioms Gaftools.C03.selectRegions_exact
#print axioms Gaftools.Glue.goodGraph_of_valid
