import Gaftools.Props.C08
#print axioms Gaftools.C08.gen_eq_model
#print axioms Gaftools.C08.cmp_iff
#print axioms Gaftools.C08.cmp_antisymm
#print axioms Gaftools.C08.cmpLe_iff
#print axioms Gaftools.C08.keyLe_total
#print axioms Gaftools.C08.keyLe_trans
#print axioms Gaftools.C08.sort_perm
#print axioms Gaftools.C08.sort_sorted
#print axioms Gaftools.C08.sort_unique
#print axioms Gaftools.C08.sort_perm_invariant
