import Gaftools.Props.TieA6
import Gaftools.Props.TieA2
import Gaftools.Props.TieA8
#print axioms Gaftools.TieA.processAlignment_gen
#print axioms Gaftools.TieA.sortNode_gen
#print axioms Gaftools.TieA.loopStep_gen
#print axioms Gaftools.TieA.suffix_gen
#print axioms Gaftools.TieA.sortStrips_gen
