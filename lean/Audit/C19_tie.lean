import Gaftools.Props.TieA
import Gaftools.Props.TieA2
#print axioms Gaftools.TieA.isSecondary_gen_eq_model
#print axioms Gaftools.TieA.bump_gen
#print axioms Gaftools.TieA.cigarStep_gen
