import Gaftools.Props.TieA
import Gaftools.Props.TieA2
import Gaftools.Props.TieA14
#print axioms Gaftools.TieA.isSecondary_gen_eq_model
#print axioms Gaftools.TieA.bump_gen
#print axioms Gaftools.TieA.cigarStep_gen
#print axioms Gaftools.TieA.statFor_cnt_gen
#print axioms Gaftools.TieA.cigLoop_gen
#print axioms Gaftools.TieA.statStep_gen
#print axioms Gaftools.TieA.step_statKeysOk
#print axioms Gaftools.TieA.statInit_gen
#print axioms Gaftools.TieA.statFoldl_gen
#print axioms Gaftools.TieA.statRun_gen
#print axioms Gaftools.TieA.statReport_gen
#print axioms Gaftools.TieA.report_run_gen
