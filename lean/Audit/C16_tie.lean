import Gaftools.Props.TieA7
#print axioms Gaftools.TieA.rstrip_gen
#print axioms Gaftools.TieA.tagSplit_gen
#print axioms Gaftools.TieA.tagStep_gen
#print axioms Gaftools.TieA.parseFields_columns
#print axioms Gaftools.TieA.parseFields_rejects
#print axioms Gaftools.TieA.parseFields_tags
#print axioms Gaftools.TieA.mandatory_gen
#print axioms Gaftools.TieA.strFormat_gen
#print axioms Gaftools.TieA.printTags_gen
#print axioms Gaftools.TieA.strTagFormat_gen
