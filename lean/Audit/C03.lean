import Gaftools.Props.C03
import Gaftools.Props.Glue
import Gaftools.Props.Glue2
import Gaftools.Props.Reflect
#print axioms Gaftools.C03.recNodes_iff
#print axioms Gaftools.C03.index_exact
#print axioms Gaftools.C03.specIndex_model
#print axioms Gaftools.C03.overlapCase_iff
#print axioms Gaftools.C03.searchIv_window
#print axioms Gaftools.C03.searchIv_isSome
#print axioms Gaftools.C03.selected_eq_overlaps
#print axioms Gaftools.C03.refOf_sortedDisjoint
#print axioms Gaftools.Glue.infos_readGraph
#print axioms Gaftools.Glue.reference_eq
#print axioms Gaftools.Glue.goodGraph_of_valid
#print axioms Gaftools.Reflect.segsOf_eq
#print axioms Gaftools.Reflect.validRGFAB_sound
#print axioms Gaftools.Reflect.validRGFAB_tagged
#print axioms Gaftools.Reflect.validRGFAB_complete
