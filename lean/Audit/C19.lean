import Gaftools.Props.C19
import Gaftools.Props.TieA
import Gaftools.Props.TieA2
#print axioms Gaftools.C19.isSecondary_iff
#print axioms Gaftools.C19.stat_counts
#print axioms Gaftools.C19.stat_reads_bases
#print axioms Gaftools.C19.stat_best
#print axioms Gaftools.C19.stat_cigar
#print axioms Gaftools.C19.stat_perm
#print axioms Gaftools.TieA.isSecondary_gen_eq_model
#print axioms Gaftools.TieA.bump_gen
#print axioms Gaftools.TieA.cigarStep_gen
