import Gaftools.Props.C19
#print axioms Gaftools.C19.isSecondary_iff
#print axioms Gaftools.C19.stat_counts
#print axioms Gaftools.C19.stat_reads_bases
#print axioms Gaftools.C19.stat_best
#print axioms Gaftools.C19.stat_cigar
#print axioms Gaftools.C19.stat_perm
