import Gaftools.Props.C11
#print axioms Gaftools.C11.done_complete
#print axioms Gaftools.C11.failed_has_death
#print axioms Gaftools.C11.death_detected
#print axioms Gaftools.C11.death_persistent
#print axioms Gaftools.C11.quiescent_terminates
#print axioms Gaftools.C11.quiescent_death_fails
#print axioms Gaftools.C11.worker_step_decreases
#print axioms Gaftools.C11.failed_worker_terminates
