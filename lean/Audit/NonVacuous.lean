import Gaftools.Props.NvA
import Gaftools.Props.NvB
import Gaftools.Props.NvB13
import Gaftools.Props.NvC
import Gaftools.Props.NvD
/-! Non-vacuity audit of the Tie-A theorems (DESIGN.md section 0.10): for every main theorem of Props/TieA3 … TieA28 an `example`
    applies it to a concrete, non-trivial input with ALL hypotheses discharged, and a `#guard` / `example` shows the generated side is
    not degenerate on that input. Built by `./check --setup` (this file is what makes the set-up build them); not part of any
    property's obligation list: the examples speak about the theorems' statements, not about the source. -/
