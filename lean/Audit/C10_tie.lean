import Gaftools.Props.TieA8
#print axioms Gaftools.TieA.gsiStep_gen_same
#print axioms Gaftools.TieA.gsiStep_gen_other
#print axioms Gaftools.TieA.gsiIndex_gen
#print axioms Gaftools.TieA.suffix_gen
