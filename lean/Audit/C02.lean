import Gaftools.Props.C02
import Gaftools.Props.Glue
import Gaftools.Props.Reflect
#print axioms Gaftools.C02.roundtrip_USU
#print axioms Gaftools.C02.roundtrip_SUS
#print axioms Gaftools.C02.reverseCigar_involutive
#print axioms Gaftools.C02.emit_untouched
#print axioms Gaftools.C02.convertFile_length
#print axioms Gaftools.Glue.parse_render_unstable
#print axioms Gaftools.Glue.parse_render_ivs
#print axioms Gaftools.Glue.parse_render_bare
#print axioms Gaftools.Reflect.segsOf_eq
#print axioms Gaftools.Reflect.validRGFAB_sound
#print axioms Gaftools.Reflect.validRGFAB_tagged
#print axioms Gaftools.Reflect.validRGFAB_complete
#print axioms Gaftools.Reflect.recValid_walk
#print axioms Gaftools.Reflect.recValid_bare
#print axioms Gaftools.Reflect.recValid_ivs
