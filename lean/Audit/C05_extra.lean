import Gaftools.Props.TextLayer
/-! C05 (extra): the region syntax of `view -r` — the split expressions of `view.get_unstable` and the `int()` of `view.search` (Model/TextLayer.lean) -/
#print axioms Gaftools.TextLayerProps.parseRegion_render
#print axioms Gaftools.TextLayerProps.parseRegion_single
#print axioms Gaftools.TextLayerProps.parseRegion_dashes
#print axioms Gaftools.TextLayerProps.parseRegion_no_colon
#print axioms Gaftools.TextLayerProps.parseRegion_second_colon
#print axioms Gaftools.TextLayerProps.parseRegion_nonneg
