import Gaftools.Props.TieA5
import Gaftools.Props.TieA
import Gaftools.Props.TieA17
#print axioms Gaftools.TieA.eDir_gen_eq_model
#print axioms Gaftools.TieA.pathCase_gen_eq_model
#print axioms Gaftools.TieA.addEdge_gen
#print axioms Gaftools.TieA.removeEdge_gen
#print axioms Gaftools.TieA17.pyGet_nat
#print axioms Gaftools.TieA17.pyGet_nat_succ
#print axioms Gaftools.TieA17.pyGet_zero
#print axioms Gaftools.TieA17.pyGet_last
#print axioms Gaftools.TieA17.pyRange_step
#print axioms Gaftools.TieA17.has_eq_isSome
#print axioms Gaftools.TieA17.translate_comp
#print axioms Gaftools.TieA17.revComp_gen
#print axioms Gaftools.TieA17.oriChar_of_isOri
#print axioms Gaftools.TieA17.findall_aux
#print axioms Gaftools.TieA17.findall_gen
#print axioms Gaftools.TieA17.scan_spec
#print axioms Gaftools.TieA17.walk_spec
#print axioms Gaftools.TieA17.pathExists_gen
#print axioms Gaftools.TieA17.spell_spec
#print axioms Gaftools.TieA17.contains_ori1
#print axioms Gaftools.TieA17.contains_ori2
#print axioms Gaftools.TieA17.tokOf_fst_gt
#print axioms Gaftools.TieA17.tokOf_fst_lt
#print axioms Gaftools.TieA17.extractPath_gen
#print axioms Gaftools.TieA17.read_spec
#print axioms Gaftools.TieA17.print_spec
#print axioms Gaftools.TieA17.zip_map_fst_snd
#print axioms Gaftools.TieA17.run_gen
