import Gaftools.Props.TieA6
import Gaftools.Props.TieA2
import Gaftools.Props.TieA24
#print axioms Gaftools.TieA.processAlignment_gen
#print axioms Gaftools.TieA.sortNode_gen
#print axioms Gaftools.TieA.loopStep_gen
#print axioms Gaftools.TieA.SortPass.reSplitAux_tokens
#print axioms Gaftools.TieA.SortPass.tokens_gen
#print axioms Gaftools.TieA.SortPass.orient_enc
#print axioms Gaftools.TieA.SortPass.contains_orient
#print axioms Gaftools.TieA.SortPass.for1_orient
#print axioms Gaftools.TieA.SortPass.for1_name
#print axioms Gaftools.TieA.SortPass.loop_cons
#print axioms Gaftools.TieA.SortPass.for1_fold
#print axioms Gaftools.TieA.SortPass.count_fwd
#print axioms Gaftools.TieA.SortPass.count_rev
#print axioms Gaftools.TieA.SortPass.pyIdx_last
#print axioms Gaftools.TieA.SortPass.toInt_digits
#print axioms Gaftools.TieA.SortPass.processAlignment_ok
#print axioms Gaftools.TieA.SortPass.processAlignment_err
#print axioms Gaftools.TieA.SortPass.steps_getLast
#print axioms Gaftools.TieA.SortPass.processAlignment_gen
#print axioms Gaftools.TieA.SortPass.alnOfLine_gen
#print axioms Gaftools.TieA.SortPass.while_step
#print axioms Gaftools.TieA.SortPass.while_eof
#print axioms Gaftools.TieA.SortPass.while_gen
#print axioms Gaftools.TieA.SortPass.sort_gen
#print axioms Gaftools.TieA.SortPass.firstPass_gen
#print axioms Gaftools.TieA.SortPass.mapM_records
#print axioms Gaftools.TieA.SortPass.firstPass_model
#print axioms Gaftools.TieA.SortPass.sortLines_gen
#print axioms Gaftools.TieA.SortPass.name_not_orient
#print axioms Gaftools.TieA.SortPass.last_pairs
#print axioms Gaftools.TieA.SortPass.anchored_of_steps
