import Gaftools.Props.TieA2
#print axioms Gaftools.TieA.processAlignment_gen
#print axioms Gaftools.TieA.sortNode_gen
