import Gaftools.Props.C11b
#print axioms Gaftools.C11.done_complete
#print axioms Gaftools.C11.done_output
#print axioms Gaftools.C11.sortNat_sorted
#print axioms Gaftools.C11.sortNat_perm
#print axioms Gaftools.C11.done_output_range
#print axioms Gaftools.C11.no_spurious_failure
#print axioms Gaftools.C11.quiescent_terminates
#print axioms Gaftools.C11.never_stuck
#print axioms Gaftools.C11.reordered_fails_spuriously
#print axioms Gaftools.C11.worker_step_decreases
#print axioms Gaftools.C11.groups_flatten
#print axioms Gaftools.C11.file_output_in_order
#print axioms Gaftools.C11.file_output_cores_independent
#print axioms Gaftools.C11.failed_worker_terminates
