import Gaftools.Props.C10
#print axioms Gaftools.C10.gsi_no_unknown
#print axioms Gaftools.C10.gsi_exact
#print axioms Gaftools.C10.gsi_keys_nodup
#print axioms Gaftools.C10.gsi_between
#print axioms Gaftools.C10.specGsi_model
