import Gaftools.Props.C16
#print axioms Gaftools.C16.dec_toNat
#print axioms Gaftools.C16.toNat_dec
#print axioms Gaftools.C16.split_join
#print axioms Gaftools.C16.parse_isSome
#print axioms Gaftools.C16.print_parse
#print axioms Gaftools.C16.no_invented_field
#print axioms Gaftools.C16.print_parse_K1
#print axioms Gaftools.C16.expectedK1_eq
#print axioms Gaftools.C16.print_parse_line
