import Gaftools.Props.C09b
#print axioms Gaftools.C09.process_eq_spec
#print axioms Gaftools.C09.sort_output_perm
#print axioms Gaftools.C09.sort_output_suffix
#print axioms Gaftools.C09.specFile_model
#print axioms Gaftools.C09.sortLines_perm
#print axioms Gaftools.C09.alns_offsets
