import Gaftools.Props.C09b
import Gaftools.Props.TieA2
#print axioms Gaftools.C09.process_eq_spec
#print axioms Gaftools.C09.sort_output_perm
#print axioms Gaftools.C09.sort_output_suffix
#print axioms Gaftools.C09.specFile_model
#print axioms Gaftools.C09.sortLines_perm
#print axioms Gaftools.C09.alns_offsets
#print axioms Gaftools.TieA.processAlignment_gen
#print axioms Gaftools.TieA.sortNode_gen
