import Gaftools.Props.C01b
import Gaftools.Props.Glue
import Gaftools.Props.Reflect
#print axioms Gaftools.C01.contigSlice_node
#print axioms Gaftools.C01.contigSlice_append
#print axioms Gaftools.C01.mergeGo_spell
#print axioms Gaftools.C01.toStable_locus
#print axioms Gaftools.C01.toStable_isSome
#print axioms Gaftools.C01.toStable_plen
#print axioms Gaftools.C01.toStable_cigar
#print axioms Gaftools.C01.ref_tiled
#print axioms Gaftools.C01.toUnstable_bare
#print axioms Gaftools.C01.toUnstable_ivs
#print axioms Gaftools.C03.overlapCase_iff
#print axioms Gaftools.C03.searchIv_window
#print axioms Gaftools.C03.searchIv_isSome
#print axioms Gaftools.C03.selected_eq_overlaps
#print axioms Gaftools.Glue.infos_readGraph
#print axioms Gaftools.Glue.nodeTable_eq
#print axioms Gaftools.Glue.refContigs_eq
#print axioms Gaftools.Glue.reference_eq
#print axioms Gaftools.Glue.contigLen_eq
#print axioms Gaftools.Glue.parse_render_unstable
#print axioms Gaftools.Glue.parse_render_ivs
#print axioms Gaftools.Glue.parse_render_bare
#print axioms Gaftools.Reflect.segsOf_eq
#print axioms Gaftools.Reflect.validRGFAB_sound
#print axioms Gaftools.Reflect.validRGFAB_tagged
#print axioms Gaftools.Reflect.validRGFAB_complete
#print axioms Gaftools.Reflect.recValid_walk
#print axioms Gaftools.Reflect.recValid_bare
#print axioms Gaftools.Reflect.recValid_ivs
