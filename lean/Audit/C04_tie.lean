import Gaftools.Props.TieA
#print axioms Gaftools.TieA.isStable_gen_eq_model
