import Gaftools.Props.TieA
import Gaftools.Props.TieA15
#print axioms Gaftools.TieA.isStable_gen_eq_model
#print axioms Gaftools.TieA.ViewSel.pySortedBy_ok
#print axioms Gaftools.TieA.ViewSel.keys_comparable
#print axioms Gaftools.TieA.ViewSel.indDict_entries
#print axioms Gaftools.TieA.ViewSel.search_gen
#print axioms Gaftools.TieA.ViewSel.loop1_spec
#print axioms Gaftools.TieA.ViewSel.get_unstable_gen
#print axioms Gaftools.TieA.ViewSel.run_nodes_gen
#print axioms Gaftools.TieA.ViewSel.run_regions_reduce
#print axioms Gaftools.TieA.ViewSel.run_gen
#print axioms Gaftools.TieA.ViewSel.selecting_gen
