import Gaftools.Props.C06
import Gaftools.Props.C06b
#print axioms Gaftools.C18.runOrder_ranges
#print axioms Gaftools.C18.numberChain_scaffold
#print axioms Gaftools.C18.numberChain_bubble
#print axioms Gaftools.C18.numberChain_only
#print axioms Gaftools.C18.written_names
#print axioms Gaftools.C06.dfs_path
#print axioms Gaftools.C06.dfs_path_rev
#print axioms Gaftools.C06.dfs_path_perm
#print axioms Gaftools.C06.finish_path
#print axioms Gaftools.C06.finish_path_rev
