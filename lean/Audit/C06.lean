import Gaftools.Props.C06
import Gaftools.Props.C06b
import Gaftools.Props.C06c
import Gaftools.Props.C06d
import Gaftools.Props.C06e
import Gaftools.Props.C06f
import Gaftools.Props.C06g
#print axioms Gaftools.C18.runOrder_ranges
#print axioms Gaftools.C18.numberChain_scaffold
#print axioms Gaftools.C18.numberChain_bubble
#print axioms Gaftools.C18.numberChain_only
#print axioms Gaftools.C18.written_names
#print axioms Gaftools.C06.dfs_path
#print axioms Gaftools.C06.dfs_path_rev
#print axioms Gaftools.C06.dfs_path_perm
#print axioms Gaftools.C06.finish_path
#print axioms Gaftools.C06.finish_path_rev
#print axioms Gaftools.C06.finish_ok_inv
#print axioms Gaftools.C06.finish_mixedSN
#print axioms Gaftools.C06.finish_crash
#print axioms Gaftools.C06.finish_notIncreasing
#print axioms Gaftools.C06.chain_adjacent
#print axioms Gaftools.C06.buildScaffold_error_iff
#print axioms Gaftools.C06.buildScaffold_error_kind
#print axioms Gaftools.C06.buildScaffold_ok
#print axioms Gaftools.C06.census_path
#print axioms Gaftools.C06.finish_ok_census
#print axioms Gaftools.C06.finish_ok_general
#print axioms Gaftools.C06.buildScaffold_wf
#print axioms Gaftools.C06.decompose_ok_stages
#print axioms Gaftools.C06.decompose_ok_chain
#print axioms Gaftools.C06.scaffold_connected
#print axioms Gaftools.C06.decompose_ok_chain_full
#print axioms Gaftools.C06.chainCorrect
#print axioms Gaftools.C06.chainSpecB_shift
#print axioms Gaftools.C06.decompose_congr
#print axioms Gaftools.C06.orderRun_chain
