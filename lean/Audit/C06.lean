import Gaftools.Spec.Order
