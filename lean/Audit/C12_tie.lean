import Gaftools.Props.TieA2
import Gaftools.Props.TieA19
#print axioms Gaftools.TieA.passThrough_gen
#print axioms Gaftools.TieA.nMatch_eq_lenOf
#print axioms Gaftools.TieA.opsOf_cons
#print axioms Gaftools.TieA.softOf_cons
#print axioms Gaftools.TieA.lenOf_cons
#print axioms Gaftools.TieA.blockLen_cons
#print axioms Gaftools.TieA.render_cons
#print axioms Gaftools.TieA.softOf_codesOk
#print axioms Gaftools.TieA.codesOk_accepted
#print axioms Gaftools.TieA.tallyStep_gen
#print axioms Gaftools.TieA.tally_gen
#print axioms Gaftools.TieA.tally_fails
#print axioms Gaftools.TieA.decI_natCast
#print axioms Gaftools.TieA.tagLoop_gen
#print axioms Gaftools.TieA.joinTab_cons
#print axioms Gaftools.TieA.guard_gen
#print axioms Gaftools.TieA.workerStep_gen
#print axioms Gaftools.TieA.workerStep_fails
#print axioms Gaftools.TieA.batchLoop_gen
#print axioms Gaftools.TieA.worker_gen
#print axioms Gaftools.TieA.worker_todo
#print axioms Gaftools.TieA.worker_init
#print axioms Gaftools.TieA.batchEntry_gen
