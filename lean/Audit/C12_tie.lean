import Gaftools.Props.TieA2
#print axioms Gaftools.TieA.passThrough_gen
