import Gaftools.Props.TieA4
import Gaftools.Props.TieA
import Gaftools.Props.TieA11
import Gaftools.Props.TieA10
#print axioms Gaftools.TieA.mergeNodes_gen_eq_model
#print axioms Gaftools.TieA.searchIv_gen_eq_model
#print axioms Gaftools.TieA.overlapCaseConv_gen_eq_model
#print axioms Gaftools.TieA.unstableCoords_gen
#print axioms Gaftools.TieA.stableCoords_gen
#print axioms Gaftools.TieA.splitKeepAux_gen
#print axioms Gaftools.TieA.gafNodes_gen
#print axioms Gaftools.TieA.toStr_gen
#print axioms Gaftools.TieA.toStr_gen_pair
#print axioms Gaftools.TieA.tokStep_orient
#print axioms Gaftools.TieA.tokStep_name
#print axioms Gaftools.TieA.tokLoop_aux
#print axioms Gaftools.TieA.tokLoop_gen
#print axioms Gaftools.TieA.tokLoop_orients_aux
#print axioms Gaftools.TieA.tokLoop_orients
#print axioms Gaftools.TieA.mergeGo_ne_nil
#print axioms Gaftools.TieA.mergeStep_gen
#print axioms Gaftools.TieA.mergeLoop_aux
#print axioms Gaftools.TieA.mergeLoop_gen
#print axioms Gaftools.TieA.flatMap_dropLast_getLast
#print axioms Gaftools.TieA.toStableS_gen
#print axioms Gaftools.TieA.toStableS_emit
#print axioms Gaftools.TieA.searchIv_range
#print axioms Gaftools.TieA.pySlice_window
#print axioms Gaftools.TieA.emit_fold
#print axioms Gaftools.TieA.emit_foldr
#print axioms Gaftools.TieA.convScanStep_gen
#print axioms Gaftools.TieA.scanFold_gen
#print axioms Gaftools.TieA.scanWindow_gen
#print axioms Gaftools.TieA.go_cons
#print axioms Gaftools.TieA.convTokStep_orient
#print axioms Gaftools.TieA.convTokStep_item
#print axioms Gaftools.TieA.itemStep_orient
#print axioms Gaftools.TieA.tokItem_iv
#print axioms Gaftools.TieA.convLoop_fold
#print axioms Gaftools.TieA.toUnstable_gen
#print axioms Gaftools.TieA.tokOk_ivToks
#print axioms Gaftools.TieA.tokOk_render_ivs
#print axioms Gaftools.TieA.tokOk_render_bare
#print axioms Gaftools.TieA.toUnstable_gen_ivs
#print axioms Gaftools.TieA.toUnstable_gen_bare
