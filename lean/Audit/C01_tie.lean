import Gaftools.Props.TieA4
import Gaftools.Props.TieA
#print axioms Gaftools.TieA.mergeNodes_gen_eq_model
#print axioms Gaftools.TieA.searchIv_gen_eq_model
#print axioms Gaftools.TieA.overlapCaseConv_gen_eq_model
#print axioms Gaftools.TieA.unstableCoords_gen
#print axioms Gaftools.TieA.stableCoords_gen
