import Gaftools.Props.TieA4
import Gaftools.Props.TieA
import Gaftools.Props.TieA11
#print axioms Gaftools.TieA.mergeNodes_gen_eq_model
#print axioms Gaftools.TieA.unstableCoords_gen
#print axioms Gaftools.TieA.stableCoords_gen
#print axioms Gaftools.TieA.splitKeepAux_gen
#print axioms Gaftools.TieA.gafNodes_gen
#print axioms Gaftools.TieA.toStr_gen
#print axioms Gaftools.TieA.toStr_gen_pair
#print axioms Gaftools.TieA.tokStep_orient
#print axioms Gaftools.TieA.tokStep_name
#print axioms Gaftools.TieA.tokLoop_aux
#print axioms Gaftools.TieA.tokLoop_gen
#print axioms Gaftools.TieA.tokLoop_orients_aux
#print axioms Gaftools.TieA.tokLoop_orients
#print axioms Gaftools.TieA.mergeGo_ne_nil
#print axioms Gaftools.TieA.mergeStep_gen
#print axioms Gaftools.TieA.mergeLoop_aux
#print axioms Gaftools.TieA.mergeLoop_gen
#print axioms Gaftools.TieA.flatMap_dropLast_getLast
#print axioms Gaftools.TieA.toStableS_gen
#print axioms Gaftools.TieA.toStableS_emit
