import Gaftools.Props.C18
#print axioms Gaftools.C18.skip_isolated
#print axioms Gaftools.C18.runOrder_total
#print axioms Gaftools.C18.written_names
#print axioms Gaftools.C18.runOrder_ranges
