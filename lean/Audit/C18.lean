import Gaftools.Props.C18
import Gaftools.Props.C18b
#print axioms Gaftools.C18.skip_isolated
#print axioms Gaftools.C18.runOrder_total
#print axioms Gaftools.C18.written_names
#print axioms Gaftools.C18.runOrder_ranges
#print axioms Gaftools.C18.ok_linear
#print axioms Gaftools.C18.nonlinear_skipped
#print axioms Gaftools.C18.decompose_noCrash
#print axioms Gaftools.C18.orderRun_total
#print axioms Gaftools.C18.orderRun_skips
