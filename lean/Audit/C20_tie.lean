import Gaftools.Props.TieA7
import Gaftools.Props.TieA22
#print axioms Gaftools.TieA.phaseTags_gen
#print axioms Gaftools.TieA.phaseMandatory_gen
#print axioms Gaftools.TieA.parseFields_columns
#print axioms Gaftools.TieA.parseFields_tags
#print axioms Gaftools.TieA.dHas_enc
#print axioms Gaftools.TieA.dGet_enc
#print axioms Gaftools.TieA.tsvBody_gen
#print axioms Gaftools.TieA.tsvBody_short
#print axioms Gaftools.TieA.tsvFold_gen
#print axioms Gaftools.TieA.tsvLoop_eq
#print axioms Gaftools.TieA.tsvLoop_gen
#print axioms Gaftools.TieA.tsvFold_sound
#print axioms Gaftools.TieA.tsvLoop_sound
#print axioms Gaftools.TieA.phaseFile_gen
#print axioms Gaftools.TieA.short_duplicate_line
#print axioms Gaftools.TieA.pyRange_down
#print axioms Gaftools.TieA.pyIdx_cons2
#print axioms Gaftools.TieA.foldlM_map_congr
#print axioms Gaftools.TieA.revFold
#print axioms Gaftools.TieA.reverseCigar_gen
#print axioms Gaftools.TieA.reverseCigar_odd_example
#print axioms Gaftools.TieA.isFileGzipped_iff
