import Gaftools.Props.TieA7
#print axioms Gaftools.TieA.phaseTags_gen
#print axioms Gaftools.TieA.phaseMandatory_gen
#print axioms Gaftools.TieA.parseFields_columns
#print axioms Gaftools.TieA.parseFields_tags
