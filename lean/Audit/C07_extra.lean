import Gaftools.Props.GfaText
/-! C07 (extra): the text level of GFA reading and writing — `GFA.read_graph`, `add_node`, `utils.is_correct_tag`, `add_edge`, the line formats of `write_gfa` (Model/GfaText.lean) -/
#print axioms Gaftools.C07.Text.parseGfaText_congr
#print axioms Gaftools.C07.Text.parse_render_full
#print axioms Gaftools.C07.Text.parse_render
#print axioms Gaftools.C07.Text.parse_render_exact
#print axioms Gaftools.C07.Text.parse_ignores_other_records
#print axioms Gaftools.C07.Text.parse_line_order
#print axioms Gaftools.C07.Text.parse_S_first
#print axioms Gaftools.C07.Text.parse_crlf
#print axioms Gaftools.C07.Text.parse_no_final_newline
#print axioms Gaftools.C07.Text.written_segs
#print axioms Gaftools.C07.Text.read_write_read_text
#print axioms Gaftools.C07.Text.first_S_error_wins
#print axioms Gaftools.C07.Text.first_L_error_wins
#print axioms Gaftools.C07.Text.parse_short_S
#print axioms Gaftools.C07.Text.parse_bad_tag
#print axioms Gaftools.C07.Text.parse_bad_rank
#print axioms Gaftools.C07.Text.parse_rank_clash
#print axioms Gaftools.C07.Text.parse_repeated_id
#print axioms Gaftools.C07.Text.parse_short_L
#print axioms Gaftools.C07.Text.parse_bad_overlap
#print axioms Gaftools.C07.Text.parse_bad_orient
#print axioms Gaftools.C07.Text.parse_dangling_link
