import Gaftools.Props.TieA7
#print axioms Gaftools.TieA.rstrip_gen
#print axioms Gaftools.TieA.parseFields_columns
