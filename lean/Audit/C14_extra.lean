import Gaftools.Props.TextLayer
/-! C14 (extra): the string level of find_path — `re.findall("[><][^><]+", ·)`, `GFA.extract_path(str)`, `find_path.run` (Model/TextLayer.lean) -/
#print axioms Gaftools.TextLayerProps.tokenize_render
#print axioms Gaftools.TextLayerProps.tokenize_good
#print axioms Gaftools.TextLayerProps.tokenize_idem
#print axioms Gaftools.TextLayerProps.extractPathStr_render
#print axioms Gaftools.TextLayerProps.pathExists_known
#print axioms Gaftools.TextLayerProps.extractPathStr_render_known
#print axioms Gaftools.TextLayerProps.extractPathStr_render_nil
#print axioms Gaftools.TextLayerProps.extractPathStr_first_char
#print axioms Gaftools.TextLayerProps.extractPathStr_empty
#print axioms Gaftools.TextLayerProps.findPathRun_arg
#print axioms Gaftools.TextLayerProps.findPathRun_file
#print axioms Gaftools.TextLayerProps.findPathRun_file_length
#print axioms Gaftools.TextLayerProps.findPathRun_file_error
#print axioms Gaftools.TextLayerProps.findPathRun_empty
#print axioms Gaftools.TextLayerProps.textLines_lines
