import Gaftools.Props.C14
#print axioms Gaftools.C14.stepOk_iff
#print axioms Gaftools.C14.has_iff
#print axioms Gaftools.C14.pathExists_iff
#print axioms Gaftools.C14.extractPath_spec
#print axioms Gaftools.C14.joined_rev
#print axioms Gaftools.C14.reverse_walk
#print axioms Gaftools.C14.reverse_spell
