import Gaftools.Props.C14
import Gaftools.Props.TieA
#print axioms Gaftools.C14.stepOk_iff
#print axioms Gaftools.C14.has_iff
#print axioms Gaftools.C14.pathExists_iff
#print axioms Gaftools.C14.extractPath_spec
#print axioms Gaftools.C14.joined_rev
#print axioms Gaftools.C14.reverse_walk
#print axioms Gaftools.C14.reverse_spell
#print axioms Gaftools.TieA.eDir_gen_eq_model
#print axioms Gaftools.TieA.pathCase_gen_eq_model
