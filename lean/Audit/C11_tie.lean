import Gaftools.Props.TieA3
#print axioms Gaftools.TieA.oneIsAlive_gen
#print axioms Gaftools.TieA.allAreAlive_gen
#print axioms Gaftools.TieA.allExited_gen
#print axioms Gaftools.TieA.oneFailed_gen
#print axioms Gaftools.TieA.handlerMain_eq
#print axioms Gaftools.TieA.handlerLeft_eq
#print axioms Gaftools.TieA.receive_genMain
#print axioms Gaftools.TieA.receive_genLeft
#print axioms Gaftools.TieA.evalPred_gen
#print axioms Gaftools.TieA.step_genMain
