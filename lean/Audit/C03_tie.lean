import Gaftools.Props.TieA
#print axioms Gaftools.TieA.isStable_gen_eq_model
#print axioms Gaftools.TieA.searchIv_gen_eq_model
#print axioms Gaftools.TieA.overlapCaseIndex_gen_eq_model
