import Gaftools.Props.TieA5
import Gaftools.Props.TieA
import Gaftools.Props.TieA9
#print axioms Gaftools.TieA.eDir_gen_eq_model
#print axioms Gaftools.TieA.addEdge_gen
#print axioms Gaftools.TieA.removeEdge_gen
#print axioms Gaftools.TieA.bstep_gen
#print axioms Gaftools.TieA.bstep_framesOk
#print axioms Gaftools.TieA.bgo_gen
#print axioms Gaftools.TieA.biccsFrom_gen
