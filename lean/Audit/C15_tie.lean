import Gaftools.Props.TieA5
import Gaftools.Props.TieA
import Gaftools.Props.TieA9
import Gaftools.Props.TieA12
#print axioms Gaftools.TieA.eDir_gen_eq_model
#print axioms Gaftools.TieA.addEdge_gen
#print axioms Gaftools.TieA.removeEdge_gen
#print axioms Gaftools.TieA.bstep_gen
#print axioms Gaftools.TieA.bstep_framesOk
#print axioms Gaftools.TieA.bgo_gen
#print axioms Gaftools.TieA.biccsFrom_gen
#print axioms Gaftools.TieA.whileFuel_done
#print axioms Gaftools.TieA.whileFuel_more
#print axioms Gaftools.TieA.fold_push
#print axioms Gaftools.TieA.fcStep_eq
#print axioms Gaftools.TieA.fcCond_eq
#print axioms Gaftools.TieA.findCompLoop_cons
#print axioms Gaftools.TieA.findCompLoop_step
#print axioms Gaftools.TieA.fcLoop_gen
#print axioms Gaftools.TieA.findComponent_gen
#print axioms Gaftools.TieA.acFold_gen
#print axioms Gaftools.TieA.allComponents_gen
#print axioms Gaftools.TieA.allComponents_gen'
#print axioms Gaftools.TieA.fold_pushAll
#print axioms Gaftools.TieA.dfsStep_eq
#print axioms Gaftools.TieA.dfsCond_eq
#print axioms Gaftools.TieA.dfsLoop_cons
#print axioms Gaftools.TieA.dfsLoop_step
#print axioms Gaftools.TieA.dfsLoop_gen
#print axioms Gaftools.TieA.dfs_gen
