import Gaftools.Props.C15Hist
import Gaftools.Props.C15Bicc
import Gaftools.Props.C15Bicc2
#print axioms Gaftools.C15.findComp_exact
#print axioms Gaftools.C15.components_partition
#print axioms Gaftools.C15.dfs_once
#print axioms Gaftools.C15.dfs_head
#print axioms Gaftools.C15.isCut_iff
#print axioms Gaftools.C15.readGraph_undirected
#print axioms Gaftools.C15.history_eq_build
#print axioms Gaftools.C15.history_symmetric
#print axioms Gaftools.C15.history_no_dangling
#print axioms Gaftools.C15.bgo_terminates
#print axioms Gaftools.C15.bgo_visits_all
#print axioms Gaftools.C15.bgo_wellformed
#print axioms Gaftools.C15.biccs_aps_sound
#print axioms Gaftools.C15.biccs_aps_complete
#print axioms Gaftools.C15.biccs_aps_exact
#print axioms Gaftools.C15.biccs_covers_links
#print axioms Gaftools.C15.biccs_comps_share_one
#print axioms Gaftools.C15.biccs_comp_biconnected
#print axioms Gaftools.C15.biccExact
