import Gaftools.Props.C17
#print axioms Gaftools.C17.voffset_lt
#print axioms Gaftools.C17.plainOff_strictMono
#print axioms Gaftools.C17.bgzfOff_strictMono
#print axioms Gaftools.C17.sort_offsets
#print axioms Gaftools.C17.dedup_offsets
#print axioms Gaftools.C17.select_parametric
#print axioms Gaftools.C17.gsi_parametric
