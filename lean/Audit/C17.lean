import Gaftools.Props.C17
import Gaftools.Props.C17b
#print axioms Gaftools.C17.voffset_lt
#print axioms Gaftools.C17.plainOff_strictMono
#print axioms Gaftools.C17.bgzfOff_strictMono
#print axioms Gaftools.C17.sort_offsets
#print axioms Gaftools.C17.dedup_offsets
#print axioms Gaftools.C17.select_parametric
#print axioms Gaftools.C17.gsi_parametric
#print axioms Gaftools.C17.plain_readAt
#print axioms Gaftools.C17.resolve_voff
#print axioms Gaftools.C17.bgzf_readAt
#print axioms Gaftools.C17.voff_order
#print axioms Gaftools.C17.plain_bgzf_agree
