import Gaftools.Props.C07
import Gaftools.Props.C07b
import Gaftools.Props.C07c
#print axioms Gaftools.C07.write_segs
#print axioms Gaftools.C07.write_links
#print axioms Gaftools.C07.write_links_subset
#print axioms Gaftools.C07.read_write_read
#print axioms Gaftools.C07.orderFiles_spec
#print axioms Gaftools.C07.csv_spec
#print axioms Gaftools.C07.complete_sorted
#print axioms Gaftools.C07.resolve_given
#print axioms Gaftools.C07.resolve_default
#print axioms Gaftools.C07.resolve_default_none
