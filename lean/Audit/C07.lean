import Gaftools.Props.C07
import Gaftools.Props.TieA
#print axioms Gaftools.C07.write_segs
#print axioms Gaftools.C07.write_links
#print axioms Gaftools.C07.write_links_subset
#print axioms Gaftools.C07.read_write_read
#print axioms Gaftools.TieA.eDir_gen_eq_model
