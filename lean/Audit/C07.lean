import Gaftools.Props.C07
#print axioms Gaftools.C07.write_segs
#print axioms Gaftools.C07.write_links
#print axioms Gaftools.C07.write_links_subset
#print axioms Gaftools.C07.read_write_read
