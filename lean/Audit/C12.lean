import Gaftools.Props.C12
import Gaftools.Props.C12b
#print axioms Gaftools.C12.cigarValid_iff
#print axioms Gaftools.C12.aligns_lengths
#print axioms Gaftools.C12.aligns_wfOps
#print axioms Gaftools.C12.parse_render
#print axioms Gaftools.C12.tally_agrees
#print axioms Gaftools.C12.untouched
#print axioms Gaftools.C12.passthrough
#print axioms Gaftools.C12.realign_record
#print axioms Gaftools.C12.optCost_le
#print axioms Gaftools.C12.optAlign_aligns
#print axioms Gaftools.C12.optAlign_cost
#print axioms Gaftools.C12.contract_satisfiable
