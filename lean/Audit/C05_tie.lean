import Gaftools.Props.TieA2
#print axioms Gaftools.TieA.regionNodes_gen
