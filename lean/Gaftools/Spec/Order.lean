import Gaftools.Spec.Graph
import Gaftools.Model.Order
/-!
# Specification for C06 / C07 / C18 (order_gfa), from the property text

The chain is described with the definition-level decomposition of `Spec.Graph` (cut vertex = removal disconnects; block =
class of links that no single node removal separates), not with `biccs`.
-/
namespace Gaftools.Spec.Order
open Gaftools.Gfa Gaftools.Algo Gaftools.Spec.Graph Gaftools.Order

/-- the chain elements of a component: scaffold nodes (articulation points) and bubbles (blocks minus articulation points) -/
structure Chain where
  aps : List V
  bubbles : List (List V × List V)      -- (inner nodes, articulation points of the block)
  bridges : List (V × V)                -- blocks without inner nodes: pairs of articulation points
  bad : Bool                            -- a block without inner nodes that does not join exactly two articulation points
deriving Repr

/-- the chain elements determined by a list of blocks and a list of articulation points -/
def chainOfBlocks (bl : List (List V)) (aps : List V) : Chain :=
  let parts := bl.map (fun b => (b.filter (fun v => !aps.contains v), b.filter (fun v => aps.contains v)))
  { aps := aps,
    bubbles := parts.filter (fun p => !p.1.isEmpty),
    bridges := (parts.filter (fun p => p.1.isEmpty)).filterMap (fun p => match p.2 with | [a, b] => some (a, b) | _ => none),
    bad := (parts.filter (fun p => p.1.isEmpty)).any (fun p => p.2.length != 2) }

/-- … of a component, from the definition-level decomposition (cut vertices, blocks) -/
def chainOf (nb : V → List V) (comp : List V) : Chain :=
  chainOfBlocks (blocks nb comp) (cutVertices nb comp)

/-- degree of a scaffold node / of bubble `i` in the collapsed graph -/
def degAp (c : Chain) (a : V) : Nat :=
  (c.bubbles.filter (fun b => b.2.contains a)).length + (c.bridges.filter (fun p => p.1 == a || p.2 == a)).length
def degBubble (c : Chain) (i : Nat) : Nat := ((c.bubbles.getD i ([], [])).2).length

/-- "the collapsed bubble graph is a simple chain": two elements of degree one, all others of degree two
    (the collapsed graph of a connected component is a tree, so this is "is a path") -/
def isLinear (c : Chain) : Bool :=
  !c.bad &&
  (let degs := c.aps.map (degAp c) ++ (List.range c.bubbles.length).map (degBubble c)
   (degs.filter (· == 1)).length == 2 && (degs.filter (· == 2)).length + 2 == degs.length)

/-- C06 for one written component: `tag v = (BO, NO)`; `lo` = first BO of the component; `so` = reference offset -/
def chainSpecB (nb : V → List V) (comp : List V) (so : V → Option Int) (tag : V → Option (Int × Int)) (lo : Int) : Bool :=
  let c := chainOf nb comp
  let n := c.aps.length + c.bubbles.length
  -- every node is tagged
  comp.all (fun v => (tag v).isSome) &&
  -- scaffold nodes: NO = 0
  c.aps.all (fun a => (tag a).map (·.2) == some 0) &&
  -- a bubble's inner nodes share one BO and are numbered 1..M in lexicographic id order
  c.bubbles.all (fun b =>
    let inner := sortStrings b.1
    (inner.map (fun v => (tag v).map (·.1))).eraseDups.length == 1 &&
    inner.zipIdx.all (fun (v, j) => (tag v).map (·.2) == some ((j : Int) + 1))) &&
  -- every chain element has its own BO value, none below `lo` (the ranges of earlier chromosomes)
  (let eltBo : List (Option Int) := c.aps.map (fun a => (tag a).map (·.1)) ++ c.bubbles.map (fun b => (b.1.head?.bind tag).map (·.1))
   eltBo.all (fun b => match b with | some v => decide (lo ≤ v) | none => false) &&
   eltBo.eraseDups.length == eltBo.length && eltBo.length == n) &&
  -- walking the elements in order of increasing BO, consecutive elements are adjacent in the chain
  -- (scaffold–bubble through the block, scaffold–scaffold through a bridge)
  (let elts : List (Int × Sum V Nat) :=
     (c.aps.filterMap (fun a => (tag a).map (fun t => (t.1, Sum.inl a)))) ++
     ((List.range c.bubbles.length).filterMap (fun i => (((c.bubbles.getD i ([], [])).1.head?.bind tag).map (fun t => (t.1, Sum.inr i)))))
   let sorted := elts.mergeSort (fun x y => decide (x.1 ≤ y.1))
   (List.zip sorted sorted.tail).all (fun p => match p.1.2, p.2.2 with
     | Sum.inl a, Sum.inr i => ((c.bubbles.getD i ([], [])).2).contains a
     | Sum.inr i, Sum.inl a => ((c.bubbles.getD i ([], [])).2).contains a
     | Sum.inl a, Sum.inl b => c.bridges.any (fun q => (q.1 == a && q.2 == b) || (q.1 == b && q.2 == a))
     | _, _ => false)) &&
  -- reference offsets strictly increase along the scaffold nodes
  (let scaf := (c.aps.filterMap (fun a => match tag a, so a with | some t, some o => some (t.1, o) | _, _ => none))
   scaf.all (fun x => scaf.all (fun y => !(decide (x.1 < y.1)) || decide (x.2 < y.2))))

/-- the scaffold nodes, taken in order of increasing reference offset, follow the chain: consecutive ones are joined by a bridge or
    lie on one bubble (and their offsets are pairwise different). When this fails — the reference is rearranged relative to the
    graph — no BO assignment can satisfy `chainSpecB` (its last clause wants the offsets to increase with BO, its adjacency clause
    wants BO to follow the chain); such a component is outside C06's quantifier, and the tool reports and skips it. -/
def refOrdered (c : Chain) (so : V → Option Int) : Bool :=
  let withSo := c.aps.filterMap (fun a => (so a).map (fun o => (o, a)))
  withSo.length == c.aps.length &&
  (let sorted := withSo.mergeSort (fun x y => decide (x.1 ≤ y.1))
   (List.zip sorted sorted.tail).all (fun p => decide (p.1.1 < p.2.1) &&
      (c.bridges.any (fun q => (q.1 == p.1.2 && q.2 == p.2.2) || (q.1 == p.2.2 && q.2 == p.1.2)) ||
       c.bubbles.any (fun b => b.2.contains p.1.2 && b.2.contains p.2.2))))

/-- C07 for one written component: the output file against the input file -/
def stripBoNo (tags : List Tag) : List Tag := tags.filter (fun t => t.name != "BO" && t.name != "NO")

/-- the same tags, each as often (their order on the line is not constrained by the property) -/
def sameTags (x y : List Tag) : Bool :=
  x.length == y.length && x.all (fun t => (x.filter (· == t)).length == (y.filter (· == t)).length)

def specWritten (tin : GfaFile) (comp : List V) (tag : V → Option (Int × Int)) (withSeq : Bool) (tout : GfaFile) : Bool :=
  let segsIn := tin.segs.filter (fun s => comp.contains s.id)
  -- exactly the segments of the component, each once
  tout.segs.length == segsIn.length &&
  segsIn.all (fun s => match tout.segs.filter (·.id == s.id) with
    | [o] =>
      o.seq == (if withSeq then s.seq else "*") &&
      sameTags (stripBoNo o.tags) (stripBoNo s.tags) &&
      (match tag s.id with
       | some (b, n) => (o.tags.filter (·.name == "BO")).map (·.val) == [toString b] && (o.tags.filter (·.name == "NO")).map (·.val) == [toString n] &&
                        (o.tags.filter (fun t => t.name == "BO" || t.name == "NO")).all (·.ty == "i")
       | none => false)
    | _ => false) &&
  -- S lines in (BO, NO) order
  (let keys := tout.segs.map (fun o => tag o.id)
   (List.zip keys keys.tail).all (fun p => match p.1, p.2 with
     | some a, some b => decide (a.1 < b.1) || (a.1 == b.1 && decide (a.2 < b.2))
     | _, _ => false)) &&
  -- exactly the links of the component, as a multiset, direction / overlap / tags as declared
  (let linksIn := tin.links.filter (fun l => comp.contains l.a && comp.contains l.b)
   tout.links.length == linksIn.length &&
   linksIn.all (fun l => (tout.links.filter (· == l)).length == (linksIn.filter (· == l)).length))

/-- C07, CSV clause, for one written component: a header line, then every node of the component exactly once with its role
    (scaffold node / bubble node), the SN / SO of its S line (`NA` when absent) and the BO / NO values of the GFA file -/
def specCsv (tin : GfaFile) (comp : List V) (tag : V → Option (Int × Int)) (isScaffold : V → Bool) (rows : List (List String)) : Bool :=
  match rows with
  | [] => false
  | hd :: body =>
    hd == ["Name", "Color", "SN", "SO", "BO", "NO"] &&
    body.length == comp.length &&
    comp.all (fun v => match body.filter (fun r => r.head? == some v) with
      | [[_, col, sn, so, bo, no]] =>
        col == (if isScaffold v then "orange" else "blue") &&
        (match tag v with
         | some (b, n) => bo == toString b && no == toString n
         | none => false) &&
        sn == (((tin.segs.find? (·.id == v)).bind (fun s => Gaftools.View.tagVal s.tags "SN")).getD "NA") &&
        so == (((tin.segs.find? (·.id == v)).bind (fun s => Gaftools.View.tagVal s.tags "SO")).getD "NA")
      | _ => false)

/-- C07, without `--by-chrom`: the `-complete` GFA holds the S lines of the ordered components, chromosome after chromosome in
    request order, in strictly increasing (BO, NO) order over the whole file, followed by their L lines; nothing else -/
def specComplete (parts : List GfaFile) (tag : V → Option (Int × Int)) (tout : GfaFile) : Bool :=
  tout.segs == parts.flatMap (·.segs) &&
  tout.links.length == (parts.flatMap (·.links)).length &&
  (parts.flatMap (·.links)).all (fun l => (tout.links.filter (· == l)).length == ((parts.flatMap (·.links)).filter (· == l)).length) &&
  (let keys := tout.segs.map (fun o => tag o.id)
   (List.zip keys keys.tail).all (fun p => match p.1, p.2 with
     | some a, some b => decide (a.1 < b.1) || (a.1 == b.1 && decide (a.2 < b.2))
     | _, _ => false))

end Gaftools.Spec.Order
