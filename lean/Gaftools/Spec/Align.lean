import Gaftools.Model.Cigar
/-!
# Specification for C12: what a valid global alignment is (inductive definition, independent of the checker)
-/
namespace Gaftools.Spec.Align
open Gaftools.Gaf Gaftools.Cigar

/-- `Aligns ref q ops`: the operations are an end-to-end alignment of `q` against `ref` -/
inductive Aligns : List Char → List Char → List Op → Prop
  | nil : Aligns [] [] []
  | eq (s : List Char) {ref q ops} (h : Aligns ref q ops) (hs : s ≠ []) :
      Aligns (s ++ ref) (s ++ q) ((s.length, '=') :: ops)
  | mis (a b : List Char) {ref q ops} (h : Aligns ref q ops) (hl : a.length = b.length) (ha : a ≠ [])
      (hd : ∀ i (h1 : i < a.length) (h2 : i < b.length), a[i] ≠ b[i]) :
      Aligns (a ++ ref) (b ++ q) ((a.length, 'X') :: ops)
  | ins (b : List Char) {ref q ops} (h : Aligns ref q ops) (hb : b ≠ []) :
      Aligns ref (b ++ q) ((b.length, 'I') :: ops)
  | del (a : List Char) {ref q ops} (h : Aligns ref q ops) (ha : a ≠ []) :
      Aligns (a ++ ref) q ((a.length, 'D') :: ops)

/-- C12 on one output record, executable: given the path slice, the read slice, the input record and the output fields -/
def specRecord (ref query : List Char) (rin : Rec) (out : List Str) : Bool :=
  match parseFields out with
  | none => false
  | some ro =>
    if passThrough rin then out == printRealigned rin
    else
      match parseCigar ro.cigar, parseCigar rin.cigar with
      | some ops, inOps =>
        cigarValid ref query ops &&
        ro.nmatch == nMatch ops && ro.blen == blockLen ops &&
        -- no worse than the input CIGAR under the aligner's penalties (when the input CIGAR is itself a valid alignment)
        (match inOps with
         | some io => !(cigarValid ref query (io.map (fun o => if o.2 == 'M' then (o.1, '=') else o))) || cost ops ≤ cost io
         | none => true) &&
        -- every other column and optional field unchanged
        ro.qname == rin.qname && ro.qlen == rin.qlen && ro.qs == rin.qs && ro.qe == rin.qe && ro.strand == rin.strand &&
        ro.path == rin.path && ro.plen == rin.plen && ro.ps == rin.ps && ro.pe == rin.pe && ro.mapq == rin.mapq &&
        ro.tags.filter (fun kv => kv.1 != cgKey) == rin.tags.filter (fun kv => kv.1 != cgKey) &&
        (ro.tags.map (·.1)).filter (· != cgKey) == (rin.tags.map (·.1)).filter (· != cgKey) &&
        ro.cigar.all (fun c => c != 'M')
      | none, _ => false

end Gaftools.Spec.Align
