import Gaftools.Model.View
import Gaftools.Spec.Conv
/-!
# From the GFA token file to the abstract rGFA segments of `Spec.Conv`
-/
namespace Gaftools.Spec.Glue
open Gaftools.Gfa Gaftools.View Gaftools.Spec.Conv

/-- the rGFA reading of an S record: sequence placed at `SO` of the stable sequence `SN`, rank `SR` -/
def rsegOf (s : SegLine) : Option RSeg := do
  let sn ← tagVal s.tags "SN"
  let so ← tagInt s.tags "SO"
  let sr ← tagInt s.tags "SR"
  return ⟨s.id, s.seq.toList, sn, so, sr⟩

def rsegsOf (t : GfaFile) : List RSeg := t.segs.filterMap rsegOf

/-- every S record is a complete rGFA segment: unique ids, one tag per name, SN/SO/SR/LN present, `LN` = sequence length -/
structure TaggedRGFA (t : GfaFile) : Prop where
  ids : (t.segs.map (·.id)).Nodup
  names : ∀ s ∈ t.segs, (s.tags.map (·.name)).Nodup
  tagged : ∀ s ∈ t.segs, (rsegOf s).isSome
  ln : ∀ s ∈ t.segs, tagInt s.tags "LN" = some (s.seq.length : Int)

end Gaftools.Spec.Glue
