import Gaftools.Model.Algo
/-!
# Specification for C15: connectivity, cut vertices and blocks, from their textbook definitions over the neighbour relation.
-/
namespace Gaftools.Spec.Graph
open Gaftools.Gfa Gaftools.Algo

/-- reachability along the neighbour relation -/
inductive Reach (nb : V → List V) : V → V → Prop
  | refl (a) : Reach nb a a
  | step {a b c} : Reach nb a b → c ∈ nb b → Reach nb a c

/-- the neighbour relation of an undirected graph: symmetric and closed in the node list -/
structure Undirected (nb : V → List V) (Vs : List V) : Prop where
  symm : ∀ a b, b ∈ nb a → a ∈ nb b
  closed : ∀ a ∈ Vs, ∀ b ∈ nb a, b ∈ Vs
  outside : ∀ a, a ∉ Vs → nb a = []

/-- `comps` is the partition of `Vs` into reachability classes -/
def IsPartition (nb : V → List V) (Vs : List V) (comps : List (List V)) : Prop :=
  (∀ c ∈ comps, c ≠ [] ∧ c.Nodup ∧ (∀ a ∈ c, a ∈ Vs) ∧ (∀ a ∈ c, ∀ b, Reach nb a b ↔ b ∈ c)) ∧
  (∀ v ∈ Vs, ∃ c ∈ comps, v ∈ c) ∧
  comps.Pairwise (fun c d => ∀ a ∈ c, a ∉ d)

/-! ## executable definitions used to judge `biccs` (on the implementation's output and on the model's) -/

/-- the graph without node `x` -/
def nbWithout (nb : V → List V) (x : V) : V → List V := fun v => if v == x then [] else (nb v).filter (· != x)

/-- reachability class of `a`, computed by the component search that `C15.findComp_exact` proves exact -/
def classOf (nb : V → List V) (Vs : List V) (a : V) : List V := (findComp nb Vs a []).1

def connectedB (nb : V → List V) (Vs : List V) : Bool :=
  match Vs with
  | [] => true
  | a :: _ => Vs.all (fun v => (classOf nb Vs a).contains v)

/-- DEFINITION (property text): a node is an articulation point iff removing it disconnects the (connected) graph -/
def isCut (nb : V → List V) (Vs : List V) (x : V) : Bool :=
  !connectedB (nbWithout nb x) (Vs.filter (· != x))

def cutVertices (nb : V → List V) (Vs : List V) : List V := Vs.filter (isCut nb Vs)

/-- undirected links as unordered pairs (self-links and parallel links collapse) -/
def edgesOf (nb : V → List V) (Vs : List V) : List (V × V) :=
  (Vs.flatMap (fun a => (nb a).filterMap (fun b => if a ≤ b then some (a, b) else none))).eraseDups

/-- DEFINITION: two links lie in the same biconnected component iff no single node removal separates them
    (a link with an endpoint removed survives as its other endpoint) -/
def separates (nb : V → List V) (Vs : List V) (x : V) (e f : V × V) : Bool :=
  let re := [e.1, e.2].filter (· != x)
  let rf := [f.1, f.2].filter (· != x)
  match re, rf with
  | a :: _, b :: _ => !(classOf (nbWithout nb x) (Vs.filter (· != x)) a).contains b
  | _, _ => false

def sameBlock (nb : V → List V) (Vs : List V) (e f : V × V) : Bool := Vs.all (fun x => !separates nb Vs x e f)

/-- node sets of the blocks: classes of `sameBlock` over the non-loop links -/
def blocks (nb : V → List V) (Vs : List V) : List (List V) :=
  let es := (edgesOf nb Vs).filter (fun e => e.1 != e.2)
  let classes := es.map (fun e => (es.filter (sameBlock nb Vs e)))
  (classes.map (fun c => sortStrings (nodesOf c))).eraseDups

def sameSets (a b : List (List V)) : Bool :=
  let na := (a.map sortStrings)
  let nb := (b.map sortStrings)
  na.all nb.contains && nb.all na.contains && na.length == nb.length

/-- C15 for `biccs` on a connected graph with at least one link: reported components = blocks, reported points = cut vertices -/
def biccExactB (nb : V → List V) (Vs : List V) (comps : List (List V)) (aps : List V) : Bool :=
  sameSets comps (blocks nb Vs) && sameSets [aps] [cutVertices nb Vs]

end Gaftools.Spec.Graph
