import Gaftools.Model.Gfa
/-!
# Specification for C14 (path sequences), written on the GFA *file*: which steps are joined is read off the `L` records
(`a ± b ±`, or the mirror image `b ∓ a ∓`), what is spelled is read off the `S` records.
-/
namespace Gaftools.Spec.Walk
open Gaftools.Gfa

def hasSeg (t : GfaFile) (id : String) : Bool := t.segs.any (·.id == id)

/-- the step `s1 s2` is a declared link of the file or its mirror image (links with a missing endpoint do not count) -/
def joinedB (t : GfaFile) (s1 s2 : Step) : Bool :=
  t.links.any (fun l => hasSeg t l.a && hasSeg t l.b &&
    ((l.a == s1.2 && l.da == s1.1 && l.b == s2.2 && l.db == s2.1) ||
     (l.a == s2.2 && l.da == !s2.1 && l.b == s1.2 && l.db == !s1.1)))

def Joined (t : GfaFile) (s1 s2 : Step) : Prop := joinedB t s1 s2 = true

def isWalkB (t : GfaFile) : List Step → Bool
  | [] => true
  | [_] => true
  | s1 :: s2 :: rest => joinedB t s1 s2 && isWalkB t (s2 :: rest)

/-- sequence of the first S record with this id (later duplicates are ignored by the reader) -/
def seqOf (t : GfaFile) (id : String) : String :=
  match t.segs.find? (·.id == id) with
  | some s => s.seq
  | none => ""

def spell (t : GfaFile) (steps : List Step) : String :=
  String.join (steps.map (fun s => if s.1 then seqOf t s.2 else revComp (seqOf t s.2)))

/-- the reversed walk: `>a<b>c` ↦ `<c>b<a` -/
def revSteps (steps : List Step) : List Step := steps.reverse.map (fun s => (!s.1, s.2))

/-- what `find_path` must print for a step sequence over nodes of the graph -/
def expected (t : GfaFile) (steps : List Step) : String := if isWalkB t steps then spell t steps else ""

end Gaftools.Spec.Walk
