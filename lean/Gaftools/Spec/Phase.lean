import Gaftools.Model.Phase
import Gaftools.Spec.Gaf
/-! # Specification of `gaftools phase` (C20), from the property text -/
namespace Gaftools.Spec.Phase
open Gaftools.Gaf Gaftools.Phase Gaftools.Spec.Gaf

/-- the haplotype / phase-set values of a read: first TSV line naming the read; 'none' when absent or unphased -/
def specValues (es : List TsvEntry) (q : Str) : Str × Str :=
  match es.find? (·.read == q) with
  | some e => if e.hap == noneStr then (noneStr, noneStr) else (e.chr ++ ['-'] ++ e.pset, e.hap)
  | none => (noneStr, noneStr)

/-- the output record = the input's twelve columns, then ps:Z and ht:Z, then the input's optional fields -/
def specFields (es : List TsvEntry) (fs : List Str) : List Str :=
  let e := expected fs
  let v := specValues es (cutAtSpace (fs.headD []))
  e.take 12 ++ ["ps:Z:".toList ++ v.1, "ht:Z:".toList ++ v.2] ++ e.drop 12

/-- a TSV entry whose fields are printable -/
def wfEntry (e : TsvEntry) : Bool :=
  !e.hap.isEmpty && e.hap.all printable && e.chr.all printable && e.pset.all printable

/-- C20 as a predicate on (input record, output record): twelve columns and optional fields of the input are all
    there, in order, and exactly two fields ps:Z / ht:Z with the right values were added (anywhere among the optional fields) -/
def specRecord (es : List TsvEntry) (fs out : List Str) : Bool :=
  let e := expected fs
  let v := specValues es (cutAtSpace (fs.headD []))
  let added := ["ps:Z:".toList ++ v.1, "ht:Z:".toList ++ v.2]
  out.take 12 == e.take 12 &&
  (out.drop 12).filter (fun f => !added.contains f) == (e.drop 12).filter (fun f => !added.contains f) &&
  added.all (fun a => (out.drop 12).contains a) &&
  out.length == e.length + 2 &&
  wfFields out

end Gaftools.Spec.Phase
