import Gaftools.Model.Stat
/-!
# Specification of `gaftools stat` (C19) from the property text: every figure as a definition over the file,
with filters / counts / maxima — no running state.
-/
namespace Gaftools.Spec.Stat
open Gaftools.Gaf Gaftools.Stat

/-- primary = `tp:A` is P (or absent) and mapping quality > 0 -/
def isPrimaryRec (r : Rec) : Bool := r.isPrimary && r.mapq > 0

def primaries (recs : List Rec) : List Rec := recs.filter isPrimaryRec

def total (recs : List Rec) : Nat := recs.length
def secondary (recs : List Rec) : Nat := (recs.filter (fun r => !isPrimaryRec r)).length
def primary (recs : List Rec) : Nat := (primaries recs).length

/-- distinct read names over primary records, in first-occurrence order -/
def readNames (recs : List Rec) : List Str := ((primaries recs).map (·.qname)).eraseDups

def bases (recs : List Rec) : Nat := ((primaries recs).map (·.nmatch)).sum

def maxRat : List Rat → Rat
  | [] => 0
  | a :: l => l.foldl (fun m x => if m < x then x else m) a

def bestId (recs : List Rec) (q : Str) : Rat := maxRat (((primaries recs).filter (·.qname == q)).map identity)
def bestRatio (recs : List Rec) (q : Str) : Rat := maxRat (((primaries recs).filter (·.qname == q)).map ratio)

/-- runs of one operation in a CIGAR: maximal digit-run followed by that single operation character -/
def runs (op : Char) (cigar : Str) : List Nat :=
  ((cigarPairs (groupDigits cigar)).filter (fun p => p.2 == [op])).map (fun p => toNat p.1)

def events (op : Char) (recs : List Rec) : Nat := ((primaries recs).map (fun r => (runs op r.cigar).length)).sum
def large (op : Char) (recs : List Rec) : Nat :=
  ((primaries recs).map (fun r => ((runs op r.cigar).filter (· ≥ 50)).length)).sum
def perfect (recs : List Rec) : Nat := ((primaries recs).filter (fun r => (groupDigits r.cigar).length == 2)).length

end Gaftools.Spec.Stat
