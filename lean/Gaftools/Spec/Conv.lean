import Gaftools.Model.Conv
/-!
# Specification for C01/C02/C03: what an rGFA is, which bases a record designates, which nodes it traverses

Written from the rGFA / GAF format descriptions: a segment `S id seq SN:Z:c SO:i:o SR:i:r` places `seq` at `[o, o+|seq|)` of the
stable sequence `c`; an unstable path spells the node sequences (reverse-complemented for `<`); a stable path spells the
slices of the stable sequences.
-/
namespace Gaftools.Spec.Conv
open Gaftools.Conv

/-- one rGFA segment -/
structure RSeg where
  id : String
  seq : List Char
  sn : String
  so : Int
  sr : Int
deriving DecidableEq, Repr, Inhabited

def RSeg.en (s : RSeg) : Int := s.so + s.seq.length

/-- valid rGFA (the quantifier of C01–C05): unique ids; non-empty segments at non-negative offsets; segments of one stable
    sequence pairwise disjoint and of one rank; rank-0 sequences tiled from 0 without gaps -/
structure ValidRGFA (segs : List RSeg) : Prop where
  ids : (segs.map (·.id)).Nodup
  pos : ∀ s ∈ segs, 0 ≤ s.so ∧ s.seq ≠ []
  disjoint : ∀ a ∈ segs, ∀ b ∈ segs, a.sn = b.sn → a ≠ b → a.en ≤ b.so ∨ b.en ≤ a.so
  rank : ∀ a ∈ segs, ∀ b ∈ segs, a.sn = b.sn → a.sr = b.sr
  tiled : ∀ a ∈ segs, a.sr = 0 → a.so = 0 ∨ ∃ b ∈ segs, b.sn = a.sn ∧ b.en = a.so

variable (comp : Char → Char)

/-- reverse complement for an arbitrary complement map (the theorems do not depend on the table) -/
def revcomp (x : List Char) : List Char := (x.map comp).reverse

def slice (x : List Char) (a b : Int) : List Char := (x.drop a.toNat).take (b - a).toNat

def findSeg (segs : List RSeg) (id : String) : Option RSeg := segs.find? (·.id == id)

/-- the base of stable sequence `c` at position `p` -/
def baseAt (segs : List RSeg) (c : String) (p : Int) : Option Char :=
  match segs.find? (fun s => s.sn == c && decide (s.so ≤ p) && decide (p < s.en)) with
  | some s => s.seq[(p - s.so).toNat]?
  | none => none

/-- the bases of `c` in `[s, e)`; `none` if some position is not covered by a segment -/
def contigSlice (segs : List RSeg) (c : String) (s e : Int) : Option (List Char) :=
  (List.range (e - s).toNat).mapM (fun (k : Nat) => baseAt segs c (s + (k : Int)))

/-- sequence spelled by an unstable path -/
def spellU (segs : List RSeg) (steps : List (Bool × String)) : Option (List Char) :=
  (steps.mapM (fun st => (findSeg segs st.2).map (fun s => if st.1 then s.seq else revcomp comp s.seq))).map List.flatten

/-- sequence spelled by a list of oriented stable intervals -/
def spellS (segs : List RSeg) (ivs : List OIv) : Option (List Char) :=
  (ivs.mapM (fun x => (contigSlice segs x.1.contig x.1.s x.1.e).map (fun b => if x.2 then b else revcomp comp b))).map List.flatten

/-- LOCUS of an unstable record: the bases `path[ps:pe]` in read-forward orientation -/
def locusU (segs : List RSeg) (steps : List (Bool × String)) (ps pe : Int) : Option (List Char) :=
  (spellU comp segs steps).map (fun x => slice x ps pe)

/-- LOCUS of a stable record -/
def locusS (segs : List RSeg) (p : SPath) (strandPlus : Bool) (ps pe : Int) : Option (List Char) :=
  match p with
  | .ivs l => (spellS comp segs l).map (fun x => slice x ps pe)
  | .bare c => (contigSlice segs c ps pe).map (fun x => if strandPlus then x else revcomp comp x)

/-- total length of a path -/
def plenU (segs : List RSeg) (steps : List (Bool × String)) : Option Int :=
  (steps.mapM (fun st => (findSeg segs st.2).map (fun s => (s.seq.length : Int)))).map List.sum
def plenS (ivs : List OIv) : Int := (ivs.map (fun x => x.1.e - x.1.s)).sum

/-! ## the tables `view`/`index` build from the graph, defined directly on the segments -/

def nodeTbl (segs : List RSeg) (id : String) : Option SNode := (findSeg segs id).map (fun s => ⟨s.sn, s.so, s.en⟩)

def refNames (segs : List RSeg) : List String := ((segs.filter (·.sr == 0)).map (·.sn)).eraseDups

def ctgLen (segs : List RSeg) (c : String) : Option Int :=
  match segs.filter (·.sn == c) with
  | [] => none
  | l => some ((l.map (fun s => (s.seq.length : Int))).sum)

def insertBySo (x : Seg) : List Seg → List Seg
  | [] => [x]
  | y :: ys => if x.so < y.so then x :: y :: ys else y :: insertBySo x ys

/-- `reference[c]`: the segments of `c` sorted by offset -/
def refOf (segs : List RSeg) (c : String) : List Seg :=
  ((segs.filter (·.sn == c)).map (fun s => (⟨s.id, s.so, s.en⟩ : Seg))).foldl (fun acc x => insertBySo x acc) []

/-! ## which nodes a record traverses (C03) -/

/-- a segment list as `search_intervals` needs it: sorted by offset, pairwise disjoint, non-empty segments -/
def SortedDisjoint (iv : List Seg) : Prop :=
  (∀ sg ∈ iv, sg.so < sg.en) ∧ iv.Pairwise (fun a b => a.en ≤ b.so)

/-- non-empty overlap of a segment with the query `[qs, qe)` -/
def overlaps (sg : Seg) (qs qe : Int) : Bool := decide (sg.so < qe) && decide (qs < sg.en)

end Gaftools.Spec.Conv
