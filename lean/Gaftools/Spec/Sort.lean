import Gaftools.Model.Sort
/-!
# Specification of `gaftools sort` (C08, C09, C10), written from the property text

Independent of the control flow of sort.py: declarative definitions with filters / quantifier-like list
predicates instead of the loop with its `continue`s.  Executable, so that the driver can evaluate it on the
*implementation's* output.
-/
namespace Gaftools.Spec.Sort
open Gaftools.Sort

/-- C08: untagged anchors (BO = −1) after all tagged ones, in input order; otherwise BO, NO, start, input position. -/
def keyLe (a b : Aln) : Prop :=
  if a.bo = -1 then (b.bo = -1 ∧ a.offset ≤ b.offset)
  else if b.bo = -1 then True
  else a.bo < b.bo ∨ (a.bo = b.bo ∧ (a.no < b.no ∨ (a.no = b.no ∧
        (a.start < b.start ∨ (a.start = b.start ∧ a.offset ≤ b.offset)))))

instance : DecidableRel keyLe := fun a b => by unfold keyLe; exact inferInstance

def keyLeB (a b : Aln) : Bool := decide (keyLe a b)

/-- a scaffold step: its node carries BO/NO ≠ −1 and NO = 0 -/
def isScaffold (nodes : String → Option NodeTags) (s : Step) : Bool :=
  match nodes s.2 with
  | some t => t.bo != -1 && t.no != -1 && t.no == 0
  | none => false

/-- rank-0 contig names met along the path, in path order -/
def refNames (nodes : String → Option NodeTags) (steps : List Step) : List String :=
  steps.filterMap (fun s => match nodes s.2 with
    | some t => if t.sr == 0 then some t.sn else none
    | none => none)

/-- C09: bo/sn/iv and the sort key of one record, or `none` when the record is outside the quantifier
    (unknown node, empty path, or two different reference contigs on one path) -/
def specAln (nodes : String → Option NodeTags) (steps : List Step) (plen ps pe : Int) (offset : Int) : Option Aln :=
  if steps.all (fun s => (nodes s.2).isSome) && !steps.isEmpty then
    let names := refNames nodes steps
    match names with
    | [] => go "unknown"
    | n :: rest => if rest.all (· == n) then go n else none
  else none
where
  go (sn : String) : Option Aln :=
    let sc := steps.filter (isScaffold nodes)
    let nf := (sc.filter (·.1)).length
    let nr := (sc.filter (!·.1)).length
    let iv : Int := if nf > 0 ∧ nr > 0 then 1 else 0
    let anchorLast := nr > nf
    let anchor := if anchorLast then steps.getLast? else steps.head?
    match anchor.bind (fun s => nodes s.2) with
    | none => none
    | some t => some ⟨offset, t.bo, t.no, if anchorLast then plen - pe else ps, iv, sn⟩

def isPermOfRange (ords : List Int) (n : Nat) : Bool :=
  ords.length == n && (List.range n).all (fun i => (ords.filter (· == (i : Int))).length == 1)

def pairwiseB (r : α → α → Bool) : List α → Bool
  | [] => true
  | a :: l => l.all (r a) && pairwiseB r l

/-- two tab-separated field strings hold the same fields, each as often, in any order -/
def sameFields (x y : String) : Bool :=
  let fx := x.splitOn "\t"
  let fy := y.splitOn "\t"
  fx.length == fy.length && fx.all (fun f => (fx.filter (· == f)).length == (fy.filter (· == f)).length)

/-- C08+C09 on a whole file: `impl` is the output as (ordinal of the input record, appended suffix) in output order -/
def specFile (specs : List (Option Aln)) (impl : List (Int × String)) : Bool :=
  isPermOfRange (impl.map (·.1)) specs.length &&
  (let alns := impl.filterMap (fun (o, _) => (specs[o.toNat]?).join)
   alns.length == impl.length &&
   pairwiseB keyLeB alns &&
   -- exactly the three fields bo:i / sn:Z / iv:i of that record were appended (their mutual order is not constrained)
   (List.zip alns impl).all (fun (a, (_, sfx)) => sameFields sfx (suffix a)))

/-- C10: `g` lists exactly the contigs ≠ "unknown" of the output with the first and last output position -/
def specGsi (sns : List String) (g : List (String × Nat × Nat)) : Bool :=
  let present := (sns.filter (· != "unknown")).eraseDups
  present.all (fun c =>
    match sns.findIdx? (· == c), (sns.reverse.findIdx? (· == c)) with
    | some f, some lr => g.any (fun e => e == (c, f, sns.length - 1 - lr))
    | _, _ => false) &&
  g.all (fun e => present.contains e.1) && g.length == present.length

end Gaftools.Spec.Sort
