import Gaftools.Model.Gaf
/-!
# Specification side for C16/C20: what a well-formed GAF line is (SAM/GAF grammar) and what re-emitting it must give.
Written from the GAF/SAM format description, not from gaf.py.
-/
namespace Gaftools.Spec.Gaf
open Gaftools.Gaf

def printable (c : Char) : Bool := '!' ≤ c && c ≤ '~'
def printableSp (c : Char) : Bool := c == ' ' || printable c

/-- canonical decimal `0|[1-9][0-9]*` -/
def canonDec (s : Str) : Bool :=
  match s with
  | [] => false
  | ['0'] => true
  | c :: rest => c.isDigit && c != '0' && rest.all Char.isDigit

/-- an optional field `TAG:TYPE:VALUE`: two-character tag `[A-Za-z][A-Za-z0-9]`, type in `AifZHB`, value printable
    (the per-type value grammar — signs, exponents, arrays — is a subset of "printable, possibly with spaces";
    the theorems only need: no tab, and a well-formed 5-character head) -/
def wfTag (k : Str) : Bool :=
  match k with
  | a :: b :: c :: t :: d :: v => a.isAlpha && b.isAlphanum && c == ':' && isTagType t && d == ':' && v.all printableSp
  | _ => false

def tagKey (k : Str) : Str := k.take 5

/-- a well-formed GAF record, as a list of tab-separated fields -/
def wfFields (fs : List Str) : Bool :=
  match fs with
  | f0 :: f1 :: f2 :: f3 :: f4 :: f5 :: f6 :: f7 :: f8 :: f9 :: f10 :: f11 :: opt =>
    !f0.isEmpty && f0.all printableSp && f0.head? != some ' ' &&
    canonDec f1 && canonDec f2 && canonDec f3 && f4.all printable && f5.all printable && !f5.isEmpty &&
    canonDec f6 && canonDec f7 && canonDec f8 && canonDec f9 && canonDec f10 && canonDec f11 &&
    opt.all wfTag &&
    -- `rstrip` must not eat anything: the last field does not end in a blank
    (match (f11 :: opt).getLast? with | some l => (match l.getLast? with | some c => c != ' ' | none => true) | none => true)
  | _ => false

/-- the optional fields that must come back: all but `ds:Z:` -/
def keptOpt (opt : List Str) : List Str := opt.filter (fun k => tagKey k != dsKey)

/-- what re-emitting a parsed record must produce: read name cut at its first space, columns 2–12 verbatim,
    optional fields verbatim and in order, `ds:Z:` dropped -/
def expected (fs : List Str) : List Str :=
  match fs with
  | f0 :: rest => cutAtSpace f0 :: (rest.take 11 ++ keptOpt (rest.drop 11))
  | [] => []

/-- no TAG:TYPE occurs twice among the kept optional fields (known finding K1 lives outside this predicate) -/
def noRepeatedTag (fs : List Str) : Bool := ((keptOpt (fs.drop 12)).map tagKey).Nodup

/-- the K1-aware expectation: later occurrences of a repeated TAG:TYPE are dropped (first value kept),
    except `cg:Z:` which keeps its first position and its last value -/
def expectedK1 (fs : List Str) : List Str :=
  match fs with
  | f0 :: rest =>
    let opt := keptOpt (rest.drop 11)
    let lastCg := (opt.filter (fun k => tagKey k == cgKey)).getLast?
    let firsts := (opt.zipIdx.filter (fun (k, i) => !((opt.take i).map tagKey).contains (tagKey k))).map (·.1)
    cutAtSpace f0 :: (rest.take 11 ++ firsts.map (fun k => if tagKey k == cgKey then lastCg.getD k else k))
  | [] => []

end Gaftools.Spec.Gaf
