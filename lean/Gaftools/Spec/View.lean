import Gaftools.Model.View
import Gaftools.Spec.Conv
/-!
# Specification for C03/C04/C05: which records traverse a node, which nodes lie under a region
-/
namespace Gaftools.Spec.View
open Gaftools.Conv Gaftools.View

/-- the record's path traverses the node: an unstable path names it; a stable path has an interval (or, for a bare contig
    name, the span `[ps, pe)`) on the node's stable sequence that overlaps the node's stable interval -/
def traverses (r : RecPath) (n : NodeInfo) : Bool :=
  match r with
  | .unstable steps => steps.any (fun s => s.2 == n.id)
  | .stable items ps pe => items.any (fun it => match it with
      | .iv _ c s e => c == n.sn && decide (s < n.en) && decide (n.so < e)
      | .bare c => c == n.sn && decide (ps < n.en) && decide (n.so < pe))

/-- C03 on an index given as (key, record ordinals): every key is a node of the graph with its (SN, SO, SO+LN); the entry
    of a node contains ordinal `i` iff record `i` traverses it; every traversed node has an entry -/
def specIndex (nodes : List NodeInfo) (recs : List RecPath) (idx : List (Key × List Nat)) : Bool :=
  idx.all (fun e => nodes.any (fun n => keyOf n == e.1)) &&
  (idx.map (·.1.1)).eraseDups.length == idx.length &&
  nodes.all (fun n =>
    let entry := (idx.find? (fun e => e.1.1 == n.id)).map (·.2)
    let want := (recs.zipIdx.filter (fun (r, _) => traverses r n)).map (·.2)
    match entry with
    | some l => l.all (fun o => want.contains o) && want.all (fun o => l.contains o)
    | none => want.isEmpty)

/-- C04: the ordinals `view --node` must output, in file order, each once -/
def expectedNodes (nodes : List NodeInfo) (recs : List RecPath) (query : List String) : List Nat :=
  (recs.zipIdx.filter (fun (r, _) => query.any (fun q => nodes.any (fun n => n.id == q && traverses r n)))).map (·.2)

/-- nodes whose stable interval intersects the region `c:a-b`; `closed` decides whether position `b` itself belongs to the
    region (the property text leaves it open: both readings are accepted by the check) -/
def regionNodesSpec (nodes : List NodeInfo) (c : String) (a b : Int) (closed : Bool) : List String :=
  (nodes.filter (fun n => n.sn == c && decide (a < n.en) && (if closed then decide (n.so ≤ b) else decide (n.so < b)))).map (·.id)

def expectedRegions (nodes : List NodeInfo) (recs : List RecPath) (regions : List (String × Int × Int)) (closed : Bool) : List Nat :=
  expectedNodes nodes recs (regions.flatMap (fun r => regionNodesSpec nodes r.1 r.2.1 r.2.2 closed))

end Gaftools.Spec.View
