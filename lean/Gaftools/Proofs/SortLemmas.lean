import Gaftools.Spec.Sort
/-!
# Helper lemmas for C09 / C10 (`gaftools sort`)

* `.gsi` fold: `mem_gsiRaw` (one entry per name with the offsets of its first / last position), `keys_gsiRaw`
* `process_alignment`: `loop_char` / `loop_err` (loop invariant), `tailPart_eq_go`, `processAlignment_toOption`
* small list facts used by `specFile_model`
-/
namespace Gaftools.Proofs.Sort
open Gaftools.Sort Gaftools.Spec.Sort

theorem snoc_ind {α} {P : List α → Prop} (nil : P []) (snoc : ∀ l a, P l → P (l ++ [a])) : ∀ l, P l := by
  intro l
  have : ∀ r : List α, P r.reverse := by
    intro r
    induction r with
    | nil => exact nil
    | cons a r ih => simpa using snoc _ a ih
  simpa using this l.reverse

/-- the fold of `gsiIndex` before the final `filter` -/
def gsiRaw (sns : List String) (offs : Nat → Nat) : List (String × Nat × Nat) :=
  (sns.zipIdx.map (fun (s, i) => (s, offs i))).foldl gsiStep []

theorem gsiIndex_eq (sns : List String) (offs : Nat → Nat) :
    gsiIndex sns offs = (gsiRaw sns offs).filter (·.1 != "unknown") := rfl

theorem gsiRaw_snoc (l : List String) (a : String) (offs : Nat → Nat) :
    gsiRaw (l ++ [a]) offs = gsiStep (gsiRaw l offs) (a, offs l.length) := by
  simp [gsiRaw, List.zipIdx_append, List.foldl_append]

theorem keys_gsiStep (acc : List (String × Nat × Nat)) (a : String) (o : Nat) :
    (gsiStep acc (a, o)).map (·.1) = if a ∈ acc.map (·.1) then acc.map (·.1) else acc.map (·.1) ++ [a] := by
  unfold gsiStep
  by_cases h : a ∈ acc.map (·.1)
  · have : acc.any (fun x => x.1 == a) = true := by
      simp only [List.mem_map] at h
      obtain ⟨x, hx, rfl⟩ := h
      exact List.any_eq_true.2 ⟨x, hx, by simp⟩
    simp only [this, if_true, h, List.map_map]
    apply List.map_congr_left
    intro x _
    simp only [Function.comp]
    split <;> rfl
  · have : acc.any (fun x => x.1 == a) = false := by
      cases hh : acc.any (fun x => x.1 == a) with
      | false => rfl
      | true =>
        obtain ⟨x, hx, hxa⟩ := List.any_eq_true.1 hh
        exact absurd (List.mem_map.2 ⟨x, hx, by simpa using hxa⟩) h
    simp [this, h]

theorem eraseDups_snoc (l : List String) (a : String) :
    (l ++ [a]).eraseDups = if a ∈ l then l.eraseDups else l.eraseDups ++ [a] := by
  rw [List.eraseDups_append]
  by_cases h : a ∈ l <;> simp [List.removeAll, h, List.eraseDups_cons]

theorem keys_gsiRaw (l : List String) (offs : Nat → Nat) : (gsiRaw l offs).map (·.1) = l.eraseDups := by
  induction l using snoc_ind with
  | nil => rfl
  | snoc l a ih =>
    rw [gsiRaw_snoc, keys_gsiStep, ih, eraseDups_snoc]
    simp [List.mem_eraseDups]

theorem nodup_eraseDups (l : List String) : l.eraseDups.Nodup := by
  induction l using snoc_ind with
  | nil => simp
  | snoc l a ih =>
    rw [eraseDups_snoc]
    split
    · exact ih
    · rename_i h
      rw [List.nodup_append]
      refine ⟨ih, by simp, ?_⟩
      intro x hx y hy
      simp at hy
      subst hy
      rintro rfl
      exact h (List.mem_eraseDups.1 hx)

theorem eraseDups_filter (p : String → Bool) (l : List String) :
    (l.filter p).eraseDups = l.eraseDups.filter p := by
  induction l using snoc_ind with
  | nil => simp
  | snoc l a ih =>
    rw [eraseDups_snoc, List.filter_append]
    by_cases hp : p a = true
    · have : [a].filter p = [a] := by simp [hp]
      rw [this, eraseDups_snoc, ih]
      by_cases h : a ∈ l
      · simp [h, hp]
      · simp [h, hp]
    · have : [a].filter p = [] := by simp [hp]
      rw [this, List.append_nil, ih]
      by_cases h : a ∈ l
      · simp [h]
      · simp [h, hp]


/-- `i` and `j` are the first and the last position of `c` in `l` -/
def FL (l : List String) (c : String) (i j : Nat) : Prop :=
  i < l.length ∧ j < l.length ∧ l[i]? = some c ∧ l[j]? = some c ∧ ∀ k, l[k]? = some c → i ≤ k ∧ k ≤ j

theorem FL_mem {l : List String} {c : String} {i j : Nat} (h : FL l c i j) : c ∈ l :=
  List.mem_of_getElem? h.2.2.1

theorem FL_snoc_ne (l : List String) (a c : String) (i j : Nat) (h : c ≠ a) :
    FL (l ++ [a]) c i j ↔ FL l c i j := by
  unfold FL
  constructor
  · rintro ⟨h1, h2, h3, h4, h5⟩
    have hi : i < l.length := by
      rcases Nat.lt_or_ge i l.length with hi | hi
      · exact hi
      · have : i = l.length := by simp at h1; omega
        subst this
        simp at h3
        exact absurd h3.symm h
    have hj : j < l.length := by
      rcases Nat.lt_or_ge j l.length with hj | hj
      · exact hj
      · have : j = l.length := by simp at h2; omega
        subst this
        simp at h4
        exact absurd h4.symm h
    refine ⟨hi, hj, ?_, ?_, ?_⟩
    · rwa [List.getElem?_append_left hi] at h3
    · rwa [List.getElem?_append_left hj] at h4
    · intro k hk
      have hk' : k < l.length := by
        rcases Nat.lt_or_ge k l.length with hk' | hk'
        · exact hk'
        · rw [List.getElem?_eq_none hk'] at hk; cases hk
      apply h5
      rwa [List.getElem?_append_left hk']
  · rintro ⟨h1, h2, h3, h4, h5⟩
    refine ⟨by simp; omega, by simp; omega, ?_, ?_, ?_⟩
    · rwa [List.getElem?_append_left h1]
    · rwa [List.getElem?_append_left h2]
    · intro k hk
      rcases Nat.lt_or_ge k l.length with hk' | hk'
      · rw [List.getElem?_append_left hk'] at hk
        exact h5 k hk
      · rw [List.getElem?_append_right hk'] at hk
        have : k - l.length = 0 := by
          rcases Nat.eq_zero_or_pos (k - l.length) with h0 | h0
          · exact h0
          · rw [List.getElem?_eq_none (by simp; omega)] at hk; cases hk
        rw [this] at hk
        simp at hk
        exact absurd hk.symm h

theorem FL_snoc_new (l : List String) (a : String) (i j : Nat) (h : a ∉ l) :
    FL (l ++ [a]) a i j ↔ i = l.length ∧ j = l.length := by
  unfold FL
  constructor
  · rintro ⟨h1, h2, h3, h4, h5⟩
    simp at h1 h2
    constructor
    · rcases Nat.lt_or_ge i l.length with hi | hi
      · rw [List.getElem?_append_left hi] at h3
        exact absurd (List.mem_of_getElem? h3) h
      · omega
    · rcases Nat.lt_or_ge j l.length with hj | hj
      · rw [List.getElem?_append_left hj] at h4
        exact absurd (List.mem_of_getElem? h4) h
      · omega
  · rintro ⟨rfl, rfl⟩
    refine ⟨by simp, by simp, by simp, by simp, ?_⟩
    intro k hk
    rcases Nat.lt_or_ge k l.length with hk' | hk'
    · rw [List.getElem?_append_left hk'] at hk
      exact absurd (List.mem_of_getElem? hk) h
    · have : k < (l ++ [a]).length := by
        rcases Nat.lt_or_ge k (l ++ [a]).length with h' | h'
        · exact h'
        · rw [List.getElem?_eq_none h'] at hk; cases hk
      simp at this
      omega

theorem getElem?_lt_of_some {l : List String} {k : Nat} {c : String} (h : l[k]? = some c) : k < l.length := by
  rcases Nat.lt_or_ge k l.length with h' | h'
  · exact h'
  · rw [List.getElem?_eq_none h'] at h; cases h

theorem FL_snoc_old_fwd (l : List String) (a : String) (i i0 j j0 : Nat) (h : FL l a i0 j0)
    (h' : FL (l ++ [a]) a i j) : i = i0 ∧ j = l.length := by
  obtain ⟨h1, h2, h3, h4, h5⟩ := h
  obtain ⟨g1, g2, g3, g4, g5⟩ := h'
  have e1 := g5 l.length (by simp)
  have e2 := g5 i0 (by rwa [List.getElem?_append_left h1])
  simp at g2
  have hi : i < l.length := by omega
  rw [List.getElem?_append_left hi] at g3
  have e3 := h5 i g3
  omega

theorem FL_snoc_old_bwd (l : List String) (a : String) (i j0 : Nat) (h : FL l a i j0) :
    FL (l ++ [a]) a i l.length := by
  obtain ⟨h1, h2, h3, h4, h5⟩ := h
  refine ⟨by simp; omega, by simp, by rwa [List.getElem?_append_left h1], by simp, ?_⟩
  intro k hk
  have hk1 := getElem?_lt_of_some hk
  simp at hk1
  rcases Nat.lt_or_ge k l.length with hk' | hk'
  · rw [List.getElem?_append_left hk'] at hk
    have := h5 k hk
    omega
  · omega

/-- the invariant of the `.gsi` fold: one entry per name, holding the offsets of its first and last position -/
theorem mem_gsiRaw (offs : Nat → Nat) (l : List String) (c : String) (f t : Nat) :
    (c, f, t) ∈ gsiRaw l offs ↔ ∃ i j, FL l c i j ∧ f = offs i ∧ t = offs j := by
  induction l using snoc_ind generalizing c f t with
  | nil => simp [gsiRaw, FL]
  | snoc l a ih =>
    rw [gsiRaw_snoc]
    have hkeys : ∀ x, x ∈ (gsiRaw l offs).map (·.1) ↔ x ∈ l := by
      intro x; rw [keys_gsiRaw, List.mem_eraseDups]
    by_cases ha : a ∈ l
    · -- `a` already has an entry: its last position is updated
      have hany : (gsiRaw l offs).any (fun x => x.1 == a) = true := by
        obtain ⟨x, hx, hxa⟩ := List.mem_map.1 ((hkeys a).2 ha)
        exact List.any_eq_true.2 ⟨x, hx, by simp [hxa]⟩
      obtain ⟨⟨a', f0, t0⟩, hx, hxa⟩ := List.mem_map.1 ((hkeys a).2 ha)
      simp only at hxa
      subst hxa
      obtain ⟨i0, j0, hFL0, -, -⟩ := (ih _ _ _).1 hx
      unfold gsiStep
      simp only [hany, if_true, List.mem_map]
      by_cases hc : c = a'
      · subst hc
        constructor
        · rintro ⟨⟨c', f', t'⟩, hx', he⟩
          simp only at he
          split at he
          · rename_i hcc
            simp only [Prod.mk.injEq] at he
            obtain ⟨rfl, rfl, rfl⟩ := he
            obtain ⟨i, j, hFL, rfl, -⟩ := (ih _ _ _).1 hx'
            exact ⟨i, l.length, FL_snoc_old_bwd l _ i j hFL, rfl, rfl⟩
          · rename_i hcc
            simp only [Prod.mk.injEq] at he
            obtain ⟨rfl, rfl, rfl⟩ := he
            simp at hcc
        · rintro ⟨i, j, hFL, rfl, rfl⟩
          obtain ⟨rfl, rfl⟩ := FL_snoc_old_fwd l c i i0 j j0 hFL0 hFL
          refine ⟨(c, offs i, offs j0), (ih _ _ _).2 ⟨i, j0, hFL0, rfl, rfl⟩, ?_⟩
          simp
      · constructor
        · rintro ⟨⟨c', f', t'⟩, hx', he⟩
          simp only at he
          split at he
          · rename_i hcc
            simp only [Prod.mk.injEq] at he
            obtain ⟨rfl, rfl, rfl⟩ := he
            simp at hcc
            exact absurd hcc hc
          · simp only [Prod.mk.injEq] at he
            obtain ⟨rfl, rfl, rfl⟩ := he
            obtain ⟨i, j, hFL, rfl, rfl⟩ := (ih _ _ _).1 hx'
            exact ⟨i, j, (FL_snoc_ne l a' c' i j hc).2 hFL, rfl, rfl⟩
        · rintro ⟨i, j, hFL, rfl, rfl⟩
          have hFL' := (FL_snoc_ne l a' c i j hc).1 hFL
          refine ⟨(c, offs i, offs j), (ih _ _ _).2 ⟨i, j, hFL', rfl, rfl⟩, ?_⟩
          simp [hc]
    · -- first record of `a`
      have hany : (gsiRaw l offs).any (fun x => x.1 == a) = false := by
        cases hh : (gsiRaw l offs).any (fun x => x.1 == a) with
        | false => rfl
        | true =>
          obtain ⟨x, hx, hxa⟩ := List.any_eq_true.1 hh
          exact absurd ((hkeys a).1 (List.mem_map.2 ⟨x, hx, by simpa using hxa⟩)) ha
      unfold gsiStep
      simp only [hany, Bool.false_eq_true, if_false, List.mem_append, List.mem_singleton, Prod.mk.injEq]
      by_cases hc : c = a
      · subst hc
        constructor
        · rintro (h | ⟨-, rfl, rfl⟩)
          · exact absurd ((hkeys c).1 (List.mem_map.2 ⟨_, h, rfl⟩)) ha
          · exact ⟨l.length, l.length, (FL_snoc_new l c _ _ ha).2 ⟨rfl, rfl⟩, rfl, rfl⟩
        · rintro ⟨i, j, hFL, rfl, rfl⟩
          obtain ⟨rfl, rfl⟩ := (FL_snoc_new l c _ _ ha).1 hFL
          exact Or.inr ⟨rfl, rfl, rfl⟩
      · constructor
        · rintro (h | ⟨rfl, -, -⟩)
          · obtain ⟨i, j, hFL, rfl, rfl⟩ := (ih _ _ _).1 h
            exact ⟨i, j, (FL_snoc_ne l a c i j hc).2 hFL, rfl, rfl⟩
          · exact absurd rfl hc
        · rintro ⟨i, j, hFL, rfl, rfl⟩
          exact Or.inl ((ih _ _ _).2 ⟨i, j, (FL_snoc_ne l a c i j hc).1 hFL, rfl, rfl⟩)

theorem keys_gsiIndex (l : List String) (offs : Nat → Nat) :
    (gsiIndex l offs).map (·.1) = l.eraseDups.filter (· != "unknown") := by
  rw [gsiIndex_eq, ← keys_gsiRaw l offs, List.filter_map]
  rfl


theorem findIdx?_first (l : List String) (c : String) (hc : c ∈ l) :
    ∃ f, l.findIdx? (· == c) = some f ∧ f < l.length ∧ l[f]? = some c ∧ ∀ k, l[k]? = some c → f ≤ k := by
  cases h : l.findIdx? (· == c) with
  | none =>
    rw [List.findIdx?_eq_none_iff] at h
    have := h c hc
    simp at this
  | some f =>
    obtain ⟨hf, h1, h2⟩ := List.findIdx?_eq_some_iff_getElem.1 h
    refine ⟨f, rfl, hf, ?_, ?_⟩
    · rw [List.getElem?_eq_getElem hf]; simpa using h1
    · intro k hk
      rcases Nat.lt_or_ge k f with hkf | hkf
      · have hk' : k < l.length := Nat.lt_trans hkf hf
        have := h2 k hkf
        rw [List.getElem?_eq_getElem hk'] at hk
        simp at hk
        simp [hk] at this
      · exact hkf

theorem findIdx?_last (l : List String) (c : String) (hc : c ∈ l) :
    ∃ r, l.reverse.findIdx? (· == c) = some r ∧ r < l.length ∧ l[l.length - 1 - r]? = some c ∧
      ∀ k, l[k]? = some c → k ≤ l.length - 1 - r := by
  obtain ⟨r, h0, h1, h2, h3⟩ := findIdx?_first l.reverse c (by simpa using hc)
  simp only [List.length_reverse] at h1
  refine ⟨r, h0, h1, ?_, ?_⟩
  · rwa [List.getElem?_reverse h1] at h2
  · intro k hk
    have hk' := getElem?_lt_of_some hk
    have : l.reverse[l.length - 1 - k]? = some c := by
      rw [List.getElem?_reverse (by omega)]
      have : l.length - 1 - (l.length - 1 - k) = k := by omega
      rwa [this]
    have := h3 _ this
    omega

theorem specGsi_gsiIndex (sns : List String) : specGsi sns (gsiIndex sns id) = true := by
  have hpres : ∀ c, c ∈ (sns.filter (· != "unknown")).eraseDups ↔ c ∈ sns ∧ c ≠ "unknown" := by
    intro c; rw [List.mem_eraseDups, List.mem_filter]; simp
  have hmem : ∀ c f t, (c, f, t) ∈ gsiIndex sns id ↔ c ≠ "unknown" ∧ ∃ i j, FL sns c i j ∧ f = i ∧ t = j := by
    intro c f t
    rw [gsiIndex_eq, List.mem_filter, mem_gsiRaw]
    simp [and_comm]
  unfold specGsi
  simp only [Bool.and_eq_true, List.all_eq_true]
  refine ⟨⟨?_, ?_⟩, ?_⟩
  · intro c hc
    obtain ⟨hcs, hcu⟩ := (hpres c).1 hc
    obtain ⟨f, hf0, hf1, hf2, hf3⟩ := findIdx?_first sns c hcs
    obtain ⟨r, hr0, hr1, hr2, hr3⟩ := findIdx?_last sns c hcs
    rw [hf0, hr0]
    simp only
    apply List.any_eq_true.2
    refine ⟨(c, f, sns.length - 1 - r), ?_, by simp⟩
    rw [hmem]
    exact ⟨hcu, f, _, ⟨hf1, by omega, hf2, hr2, fun k hk => ⟨hf3 k hk, hr3 k hk⟩⟩, rfl, rfl⟩
  · rintro ⟨c, f, t⟩ he
    obtain ⟨hcu, i, j, hFL, -, -⟩ := (hmem c f t).1 he
    simp only [List.contains_eq_mem, decide_eq_true_eq]
    exact (hpres c).2 ⟨FL_mem hFL, hcu⟩
  · have := congrArg List.length (keys_gsiIndex sns id)
    rw [List.length_map] at this
    rw [this, eraseDups_filter]
    simp


/-! ## `process_alignment` -/

/-- the part of `process_alignment` after the loop -/
def tailPart (nodes : String → Option NodeTags) (steps : List Step) (plen ps pe : Int) (offset : Int)
    (st : LoopSt) : Except Err Aln :=
  let inv : Int := if countFwd st.orients != 0 && countRev st.orients != 0 then 1 else 0
  let sn := st.sn.getD "unknown"
  if countFwd st.orients < countRev st.orients then
    match steps.getLast? with
    | none => .error .emptyPath
    | some s => match nodes s.2 with
      | none => .error .keyError
      | some t => .ok ⟨offset, t.bo, t.no, plen - pe, inv, sn⟩
  else
    match steps.head? with
    | none => .error .emptyPath
    | some s => match nodes s.2 with
      | none => .error .keyError
      | some t => .ok ⟨offset, t.bo, t.no, ps, inv, sn⟩

theorem processAlignment_eq (nodes : String → Option NodeTags) (steps : List Step) (plen ps pe offset : Int) :
    processAlignment nodes steps plen ps pe offset =
      match loop nodes ⟨none, []⟩ steps with
      | .error e => .error e
      | .ok st => tailPart nodes steps plen ps pe offset st := rfl

/-- are the reference names consistent with the `sn` seen so far and with each other -/
def consistent : Option String → List String → Bool
  | none, [] => true
  | none, n :: rest => rest.all (· == n)
  | some n, names => names.all (· == n)

def finalSn : Option String → List String → Option String
  | some n, _ => some n
  | none, names => names.head?

theorem refNames_cons (nodes : String → Option NodeTags) (s : Step) (rest : List Step) (t : NodeTags)
    (h : nodes s.2 = some t) :
    refNames nodes (s :: rest) = (if t.sr = 0 then [t.sn] else []) ++ refNames nodes rest := by
  simp only [refNames, List.filterMap_cons, h]
  split <;> simp_all

theorem scaffold_cons (nodes : String → Option NodeTags) (s : Step) (rest : List Step) (t : NodeTags)
    (h : nodes s.2 = some t) :
    ((s :: rest).filter (isScaffold nodes)).map (·.1) =
      (if t.bo ≠ -1 ∧ t.no ≠ -1 ∧ t.no = 0 then [s.1] else []) ++ (rest.filter (isScaffold nodes)).map (·.1) := by
  simp only [List.filter_cons, isScaffold, h]
  split <;> simp_all

theorem loopStep_eq (nodes : String → Option NodeTags) (st : LoopSt) (s : Step) (t : NodeTags)
    (h : nodes s.2 = some t) :
    loopStep nodes st s =
      if t.sr = 0 then
        match st.sn with
        | none => .ok ⟨some t.sn, st.orients ++ (if t.bo ≠ -1 ∧ t.no ≠ -1 ∧ t.no = 0 then [s.1] else [])⟩
        | some n =>
          if n = t.sn then .ok ⟨some n, st.orients ++ (if t.bo ≠ -1 ∧ t.no ≠ -1 ∧ t.no = 0 then [s.1] else [])⟩
          else .error .assertion
      else .ok ⟨st.sn, st.orients ++ (if t.bo ≠ -1 ∧ t.no ≠ -1 ∧ t.no = 0 then [s.1] else [])⟩ := by
  obtain ⟨sn, o⟩ := st
  simp only [loopStep, h]
  cases sn with
  | none =>
    by_cases hsr : t.sr = 0 <;> by_cases hbo : t.bo = -1 <;> by_cases hno1 : t.no = -1 <;>
      by_cases hno : t.no = 0 <;> simp [hsr, hbo, hno1, hno]
  | some v =>
    by_cases hv : v = t.sn <;>
    by_cases hsr : t.sr = 0 <;> by_cases hbo : t.bo = -1 <;> by_cases hno1 : t.no = -1 <;>
      by_cases hno : t.no = 0 <;> simp [hv, hsr, hbo, hno1, hno]

theorem loop_char (nodes : String → Option NodeTags) (steps : List Step) (st : LoopSt)
    (hall : ∀ s ∈ steps, ∃ t, nodes s.2 = some t) :
    loop nodes st steps =
      if consistent st.sn (refNames nodes steps) then
        .ok ⟨finalSn st.sn (refNames nodes steps), st.orients ++ (steps.filter (isScaffold nodes)).map (·.1)⟩
      else .error .assertion := by
  induction steps generalizing st with
  | nil =>
    obtain ⟨sn, o⟩ := st
    cases sn <;> simp [loop, refNames, consistent, finalSn]
  | cons s rest ih =>
    obtain ⟨t, ht⟩ := hall s (by simp)
    have ih' := fun st => ih st (fun s hs => hall s (by simp [hs]))
    rw [refNames_cons nodes s rest t ht, scaffold_cons nodes s rest t ht]
    obtain ⟨sn, o⟩ := st
    rw [loop, loopStep_eq nodes _ s t ht]
    by_cases hsr : t.sr = 0
    · simp only [hsr, if_true]
      cases sn with
      | none =>
        simp only [ih', List.singleton_append, List.append_assoc]
        rfl
      | some n =>
        by_cases hn : n = t.sn
        · subst hn
          simp only [if_true, ih', List.singleton_append, List.append_assoc]
          simp [consistent, finalSn]
        · have hn' : ¬ t.sn = n := fun h => hn h.symm
          simp [hn, hn', consistent]
    · simp only [hsr, if_false, ih', List.nil_append, List.append_assoc]

theorem loop_err (nodes : String → Option NodeTags) (steps : List Step) (st : LoopSt)
    (h : ∃ s ∈ steps, nodes s.2 = none) : ∃ e, loop nodes st steps = .error e := by
  induction steps generalizing st with
  | nil => obtain ⟨s, hs, -⟩ := h; cases hs
  | cons s rest ih =>
    rw [loop]
    cases hs : loopStep nodes st s with
    | error e => exact ⟨e, rfl⟩
    | ok st' =>
      simp only
      apply ih
      obtain ⟨s', hs', hn⟩ := h
      rcases List.mem_cons.1 hs' with rfl | hs'
      · simp [loopStep, hn] at hs
      · exact ⟨s', hs', hn⟩

theorem countFwd_map (sc : List Step) : countFwd (sc.map (·.1)) = (sc.filter (·.1)).length := by
  unfold countFwd
  rw [List.filter_map, List.length_map]
  congr 2
  funext s
  obtain ⟨b, n⟩ := s
  cases b <;> rfl

theorem countRev_map (sc : List Step) : countRev (sc.map (·.1)) = (sc.filter (!·.1)).length := by
  unfold countRev
  rw [List.filter_map, List.length_map]
  congr 2
  funext s
  obtain ⟨b, n⟩ := s
  cases b <;> rfl

theorem tailPart_eq_go (nodes : String → Option NodeTags) (steps : List Step) (plen ps pe offset : Int)
    (hall : ∀ s ∈ steps, ∃ t, nodes s.2 = some t) (hne : steps ≠ []) (o : Option String) :
    (tailPart nodes steps plen ps pe offset ⟨o, (steps.filter (isScaffold nodes)).map (·.1)⟩).toOption =
      specAln.go nodes steps plen ps pe offset (o.getD "unknown") := by
  obtain ⟨sl, hsl⟩ : ∃ s, steps.getLast? = some s := by
    cases h : steps.getLast? with
    | none => exact absurd (List.getLast?_eq_none_iff.1 h) hne
    | some s => exact ⟨s, rfl⟩
  obtain ⟨sh, hsh⟩ : ∃ s, steps.head? = some s := by
    cases h : steps.head? with
    | none => exact absurd (List.head?_eq_none_iff.1 h) hne
    | some s => exact ⟨s, rfl⟩
  obtain ⟨tl, htl⟩ := hall sl (List.mem_of_getLast? hsl)
  obtain ⟨th, hth⟩ := hall sh (List.mem_of_head? hsh)
  simp only [tailPart, specAln.go, countFwd_map, countRev_map, hsl, hsh]
  generalize ((steps.filter (isScaffold nodes)).filter (·.1)).length = nf
  generalize ((steps.filter (isScaffold nodes)).filter (!·.1)).length = nr
  by_cases hlt : nf < nr
  · simp [hlt, htl, Except.toOption, Nat.pos_iff_ne_zero]
  · simp [hlt, hth, Except.toOption, Nat.pos_iff_ne_zero]

theorem processAlignment_toOption (nodes : String → Option NodeTags) (steps : List Step) (plen ps pe off : Int) :
    (processAlignment nodes steps plen ps pe off).toOption = specAln nodes steps plen ps pe off := by
  rw [processAlignment_eq]
  by_cases hall : ∀ s ∈ steps, ∃ t, nodes s.2 = some t
  · have hallB : steps.all (fun s => (nodes s.2).isSome) = true := by
      rw [List.all_eq_true]
      intro s hs
      obtain ⟨t, ht⟩ := hall s hs
      simp [ht]
    cases steps with
    | nil => simp [loop, tailPart, specAln, countFwd, countRev, Except.toOption]
    | cons s0 rest =>
      rw [loop_char nodes _ _ hall]
      unfold specAln
      simp only [hallB, List.isEmpty_cons, Bool.not_false, Bool.and_true, if_true]
      cases hn : refNames nodes (s0 :: rest) with
      | nil =>
        simp only [consistent, finalSn, if_true, List.nil_append, List.head?_nil]
        exact tailPart_eq_go nodes _ plen ps pe off hall (by simp) none
      | cons n r =>
        simp only [consistent, finalSn]
        by_cases hc : r.all (· == n) = true
        · simp only [hc, if_true, List.head?_cons, List.nil_append]
          exact tailPart_eq_go nodes _ plen ps pe off hall (by simp) (some n)
        · simp [hc, Except.toOption]
  · have hallB : steps.all (fun s => (nodes s.2).isSome) = false := by
      cases hb : steps.all (fun s => (nodes s.2).isSome) with
      | false => rfl
      | true =>
        exfalso
        apply hall
        intro s hs
        have := List.all_eq_true.1 hb s hs
        exact Option.isSome_iff_exists.1 this
    have hex : ∃ s ∈ steps, nodes s.2 = none := by
      false_or_by_contra
      rename_i hcon
      apply hall
      intro s hs
      cases hns : nodes s.2 with
      | none => exact absurd ⟨s, hs, hns⟩ hcon
      | some t => exact ⟨t, rfl⟩
    obtain ⟨e, he⟩ := loop_err nodes steps ⟨none, []⟩ hex
    rw [he]
    simp [specAln, hallB, Except.toOption]


/-! ## list facts for the file-level specification -/

theorem pairwiseB_iff {α} (r : α → α → Bool) (l : List α) :
    pairwiseB r l = true ↔ l.Pairwise (fun a b => r a b = true) := by
  induction l with
  | nil => simp [pairwiseB]
  | cons a l ih => simp [pairwiseB, ih, List.all_eq_true]

theorem filterMap_congr' {α β} {f g : α → Option β} {l : List α} (h : ∀ a ∈ l, f a = g a) :
    l.filterMap f = l.filterMap g := by
  induction l with
  | nil => rfl
  | cons a l ih =>
    have h1 := h a (by simp)
    have h2 := ih (fun a ha => h a (by simp [ha]))
    simp only [List.filterMap_cons, h1, h2]

theorem sameFields_refl (x : String) : Gaftools.Spec.Sort.sameFields x x = true := by
  simp [Gaftools.Spec.Sort.sameFields]

theorem zip_suffix_all (l : List Aln) :
    (List.zip l (l.map (fun a => (a.offset, suffix a)))).all (fun (a, (_, sfx)) => Gaftools.Spec.Sort.sameFields sfx (suffix a)) = true := by
  induction l with
  | nil => rfl
  | cons a l ih => simp [ih, sameFields_refl]

theorem filter_cast_range (n i : Nat) (hi : i < n) :
    (((List.range n).map (fun (j : Nat) => (j : Int))).filter (· == (i : Int))).length = 1 := by
  rw [List.filter_map, List.length_map]
  have : ((fun x : Int => x == (i : Int)) ∘ fun j : Nat => (j : Int)) = (fun j : Nat => j == i) := by
    funext j
    simp only [Function.comp]
    rw [Bool.eq_iff_iff]
    simp only [beq_iff_eq]
    omega
  rw [this, ← List.countP_eq_length_filter]
  have := (List.nodup_range (n := n)).count (a := i)
  simp only [List.mem_range, hi, if_true] at this
  exact this


end Gaftools.Proofs.Sort
