import Gaftools.Proofs.CsvLemmas2
/-!
# Lemmas for C07c, part 3: the chromosome loop, the loaded graph's nodes, the CSV rows
-/
namespace Gaftools.Proofs.Csv
open Gaftools.Gfa Gaftools.Algo Gaftools.View Gaftools.Order Gaftools.Spec.Order Gaftools.Spec.Graph
open Gaftools.Proofs.Chain Gaftools.Proofs.OrderRun Gaftools.Proofs.Finish2

/-- the tags a chromosome is written with -/
def shiftOrder (lo : Int) (order : List (V × Nat × Nat)) : List (V × Int × Int) :=
  order.map (fun (v, k, no) => (v, lo + (k : Int), (no : Int)))

theorem outList_mem' (dec : String → Outcome) (order : List String) : ∀ (b : Int),
    ∀ w ∈ Gaftools.C18.outList dec b order, ∃ l lo, dec w.name = .ok l ∧
      w.tags = shiftOrder lo l.order ∧ w.aps = l.aps ∧ w.inside = l.inside ∧ w.name ∈ order := by
  induction order with
  | nil => intro b w hw; simp [Gaftools.C18.outList] at hw
  | cons c cs ih =>
    intro b w hw
    cases hc : dec c with
    | ok l =>
      have e : Gaftools.C18.outList dec b (c :: cs) =
          ⟨c, l.order.map (fun (v, k, no) => (v, b + (k : Int), (no : Int))), l.aps, l.inside⟩ ::
            Gaftools.C18.outList dec (b + (l.len : Int)) cs := by
        simp [Gaftools.C18.outList, hc]
      rw [e] at hw
      rcases List.mem_cons.mp hw with rfl | hw
      · exact ⟨l, b, hc, rfl, rfl, rfl, by simp⟩
      · obtain ⟨l', lo, h1, h2, h3, h4, h5⟩ := ih _ w hw
        exact ⟨l', lo, h1, h2, h3, h4, List.mem_cons_of_mem _ h5⟩
    | skipped x =>
      have e : Gaftools.C18.outList dec b (c :: cs) = Gaftools.C18.outList dec b cs := by
        simp [Gaftools.C18.outList, hc]
      rw [e] at hw
      obtain ⟨l', lo, h1, h2, h3, h4, h5⟩ := ih _ w hw
      exact ⟨l', lo, h1, h2, h3, h4, List.mem_cons_of_mem _ h5⟩
    | crash x =>
      have e : Gaftools.C18.outList dec b (c :: cs) = Gaftools.C18.outList dec b cs := by
        simp [Gaftools.C18.outList, hc]
      rw [e] at hw
      obtain ⟨l', lo, h1, h2, h3, h4, h5⟩ := ih _ w hw
      exact ⟨l', lo, h1, h2, h3, h4, List.mem_cons_of_mem _ h5⟩

/-- what the run wrote, as a list -/
theorem orderRun_outList (t : GfaFile) (order : List String) (lm : Bool) (ws : List Written) (next : Int)
    (h : orderRun t order lm = .ok (ws, next)) :
    ws = Gaftools.C18.outList (fun c => decompose (Graph.nbFun (readGraph t lm)) (compOfName t lm c) (soOf t) (snOf t)) 0 order := by
  have hgo : Gaftools.C18.go (fun c => decompose (Graph.nbFun (readGraph t lm)) (compOfName t lm c) (soOf t) (snOf t))
      ([], 0) order = .ok (ws, next) := h
  have hws := Gaftools.C18.go_written _ order _ _ hgo
  simpa using hws

/-- an accepted chromosome names a component of the graph, and `LocalOK` holds of what was accepted -/
theorem accepted_comp (t : GfaFile) (lm : Bool) (hids : (t.segs.map (·.id)).Nodup) (htab : ∀ s ∈ t.segs, '\t' ∉ s.id.toList)
    (c : String) (l : Local)
    (hdec : decompose (Graph.nbFun (readGraph t lm)) (compOfName t lm c) (soOf t) (snOf t) = .ok l) :
    compOfName t lm c ∈ allComponents (Graph.nbFun (readGraph t lm)) (Graph.ids (readGraph t lm)) ∧
      (compOfName t lm c).Nodup ∧ (∀ v ∈ compOfName t lm c, v ∈ t.segs.map (·.id)) ∧
      LocalOK (compOfName t lm c) l := by
  rcases compOfName_cases t lm c with hnil | hmem
  · rw [hnil] at hdec
    exact absurd hdec (decompose_nil' _ _ _ _)
  · have hU := Gaftools.C15.readGraph_undirected t hids lm
    have hidsEq : Graph.ids (readGraph t lm) = t.segs.map (·.id) := Gaftools.Proofs.Write.ids_readGraph t lm hids
    have hnd : (Graph.ids (readGraph t lm)).Nodup := by rw [hidsEq]; exact hids
    have hpart := Gaftools.C15.components_partition _ _ hU hnd
    obtain ⟨hne, hcnd, hsub, hcls⟩ := hpart.1 _ hmem
    refine ⟨hmem, hcnd, fun v hv => hidsEq ▸ hsub v hv, ?_⟩
    generalize compOfName t lm c = comp at hdec hne hcnd hsub hcls ⊢
    have hclosed := class_closed (Graph.nbFun (readGraph t lm)) comp hcls
    have hagree := restrict_agree (Graph.nbFun (readGraph t lm)) comp
    have hu' := restrict_undirected _ _ comp hU hclosed
    have hconn := restrict_connected _ _ comp hU hcls
    have htab' : ∀ v ∈ comp, '\t' ∉ v.toList := by
      intro v hv
      have := hsub v hv
      rw [hidsEq, List.mem_map] at this
      obtain ⟨s, hs, rfl⟩ := this
      exact htab s hs
    have hdec' : decompose (restrict (Graph.nbFun (readGraph t lm)) comp) comp (soOf t) (snOf t) = .ok l := by
      rw [Gaftools.C06.decompose_congr _ _ comp _ _ hne hclosed hagree]
      exact hdec
    exact decompose_localOK _ comp (soOf t) (snOf t) l hu' hcnd hconn htab' hdec'

/-! ## nodes of the loaded graph -/

theorem find_core_readGraph (t : GfaFile) (lm : Bool) (hids : (t.segs.map (·.id)).Nodup) (v : V) :
    ((readGraph t lm).find v).map Gaftools.Proofs.Write.core =
      (t.segs.find? (·.id == v)).map (fun s => (s.id, (if lm then "" else s.seq), s.tags.foldl tagSet [])) := by
  have h := congrArg (List.find? (fun c => c.1 == v)) (Gaftools.Proofs.Write.core_readGraph t lm hids)
  rw [List.find?_map, List.find?_map] at h
  exact h

/-- a node of the loaded graph carries the tags of its S line (tag names distinct on the line) -/
theorem find_readGraph (t : GfaFile) (lm : Bool) (hids : (t.segs.map (·.id)).Nodup)
    (hnames : ∀ s ∈ t.segs, (s.tags.map (·.name)).Nodup) (v : V) (hv : v ∈ t.segs.map (·.id)) :
    ∃ n s, (readGraph t lm).find v = some n ∧ t.segs.find? (·.id == v) = some s ∧ n.tags = s.tags ∧ n.id = v := by
  have h := find_core_readGraph t lm hids v
  obtain ⟨s0, hs0, hs0v⟩ := List.mem_map.mp hv
  cases hf : t.segs.find? (·.id == v) with
  | none =>
    rw [List.find?_eq_none] at hf
    have := hf s0 hs0
    simp [hs0v] at this
  | some s =>
    rw [hf] at h
    cases hg : (readGraph t lm).find v with
    | none => rw [hg] at h; simp at h
    | some n =>
      rw [hg] at h
      simp only [Option.map_some, Option.some.injEq, Gaftools.Proofs.Write.core, Prod.mk.injEq] at h
      refine ⟨n, s, rfl, rfl, ?_, Gaftools.Proofs.Gfa.find_id hg⟩
      rw [h.2.2]
      have hs := List.mem_of_find?_eq_some hf
      have := Gaftools.Proofs.Write.foldl_tagSet_of_nodup s.tags [] (by simpa [Gaftools.Proofs.Write.names] using hnames s hs)
      simpa using this

/-! ## the CSV clause -/

theorem filter_eq_singleton (L : List V) (hnd : L.Nodup) (v : V) (hv : v ∈ L) : L.filter (· == v) = [v] := by
  induction L with
  | nil => simp at hv
  | cons a L ih =>
    rw [List.nodup_cons] at hnd
    by_cases hav : a = v
    · subst hav
      rw [List.filter_cons_of_pos (by simp)]
      congr 1
      rw [List.filter_eq_nil_iff]
      intro x hx hxa
      have : x = a := by simpa using hxa
      subst this
      exact hnd.1 hx
    · rw [List.filter_cons_of_neg (by simpa using hav)]
      rcases List.mem_cons.mp hv with h | h
      · exact absurd h.symm hav
      · exact ih hnd.2 h

/-- rows produced by a row function over an enumeration of the component satisfy the CSV clause -/
theorem specCsv_of_rows (tin : GfaFile) (comp : List V) (tag : V → Option (Int × Int)) (isScaffold : V → Bool)
    (row : V → List String) (L : List V) (hperm : L.Perm comp) (hnd : comp.Nodup)
    (hrow : ∀ v ∈ comp, ∃ col sn so bo no, row v = [v, col, sn, so, bo, no] ∧
      col = (if isScaffold v then "orange" else "blue") ∧
      (∃ b n, tag v = some (b, n) ∧ bo = toString b ∧ no = toString n) ∧
      sn = (((tin.segs.find? (·.id == v)).bind (fun s => tagVal s.tags "SN")).getD "NA") ∧
      so = (((tin.segs.find? (·.id == v)).bind (fun s => tagVal s.tags "SO")).getD "NA")) :
    specCsv tin comp tag isScaffold (csvHeader :: L.map row) = true := by
  unfold specCsv
  simp only [Bool.and_eq_true, List.all_eq_true]
  refine ⟨⟨by decide, by simp [hperm.length_eq]⟩, ?_⟩
  intro v hv
  have hLnd : L.Nodup := hperm.nodup_iff.mpr hnd
  have hfil : (L.map row).filter (fun r => r.head? == some v) = [row v] := by
    rw [List.filter_map]
    have : L.filter ((fun r => r.head? == some v) ∘ row) = L.filter (· == v) := by
      apply List.filter_congr
      intro u hu
      obtain ⟨col, sn, so, bo, no, hr, _⟩ := hrow u (hperm.mem_iff.mp hu)
      simp [hr]
    rw [this, filter_eq_singleton L hLnd v (hperm.mem_iff.mpr hv)]
    rfl
  rw [hfil]
  obtain ⟨col, sn, so, bo, no, hr, hcol, ⟨b, n, htag, hbo, hno⟩, hsn, hso⟩ := hrow v hv
  rw [hr]
  simp only [htag]
  subst hcol hbo hno hsn hso
  simp

end Gaftools.Proofs.Csv
