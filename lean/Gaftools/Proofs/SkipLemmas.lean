import Gaftools.Props.C06g
/-!
# Lemmas for C18 (continued): the census of the scaffold graph against `Spec.Order.isLinear`

* `decompose_nil_skipped` — an empty component is always skipped (two loop iterations of `biccs` report no articulation point);
* `finish_crash_elt`, `finish_not_census` — when `finishScaffold` crashes / skips;
* `deg_scaffold`, `deg_bubble` — degrees in the scaffold graph = `degAp` / `degBubble` of the chain built from the same blocks;
* `isLinear_transfer` — `isLinear` does not depend on the enumeration of blocks and articulation points.
-/
namespace Gaftools.Proofs.Skip
open Gaftools.Gfa Gaftools.Algo Gaftools.Order Gaftools.Spec.Order Gaftools.Spec.Graph
open Gaftools.Proofs.Finish2 Gaftools.Proofs.Chain
open Gaftools.C06 hiding sortStrings_perm insertSorted_perm

/-! ## an empty component -/

/-- no articulation point and at most one root child while the stack holds at most two frames -/
theorem bstep_small1 (nb : V → List V) (s : BSt) (h : s.aps = [] ∧ s.rootChildren = 0 ∧ s.stack.length ≤ 1) :
    (bstep nb s).aps = [] ∧ (bstep nb s).rootChildren = 0 ∧ (bstep nb s).stack.length ≤ 2 := by
  obtain ⟨h1, h2, h3⟩ := h
  apply Gaftools.Proofs.Bicc.bstep_cases nb s
    (fun s' => s'.aps = [] ∧ s'.rootChildren = 0 ∧ s'.stack.length ≤ 2)
  · intro _; exact ⟨h1, h2, by omega⟩
  · intro f rest hs _ _; rw [hs] at h3; simp only [List.length_cons] at h3; exact ⟨h1, h2, by simp only [List.length_cons]; omega⟩
  · intro f rest nn hs _ _ _ _ _; rw [hs] at h3; simp only [List.length_cons] at h3; exact ⟨h1, h2, by simp only [List.length_cons]; omega⟩
  · intro f rest nn hs _ _ _ _ _; rw [hs] at h3; simp only [List.length_cons] at h3; exact ⟨h1, h2, by simp only [List.length_cons]; omega⟩
  · intro f rest nn hs _ _ _ _; rw [hs] at h3; simp only [List.length_cons] at h3; exact ⟨h1, h2, by simp only [List.length_cons]; omega⟩
  · intro f rest hs _ hl _; rw [hs] at h3; simp only [List.length_cons] at h3; omega
  · intro f rest hs _ hl _; rw [hs] at h3; simp only [List.length_cons] at h3; omega
  · intro f rest hs _ hl; rw [hs] at h3; simp only [List.length_cons] at h3; omega
  · intro f hs _; exact ⟨h1, h2, by simp⟩

theorem bstep_small2 (nb : V → List V) (s : BSt) (h : s.aps = [] ∧ s.rootChildren = 0 ∧ s.stack.length ≤ 2) :
    (bstep nb s).aps = [] ∧ (bstep nb s).rootChildren ≤ 1 := by
  obtain ⟨h1, h2, h3⟩ := h
  apply Gaftools.Proofs.Bicc.bstep_cases nb s (fun s' => s'.aps = [] ∧ s'.rootChildren ≤ 1)
  · intro _; exact ⟨h1, by omega⟩
  · intro f rest hs _ _; exact ⟨h1, by simp; omega⟩
  · intro f rest nn hs _ _ _ _ _; exact ⟨h1, by simp; omega⟩
  · intro f rest nn hs _ _ _ _ _; exact ⟨h1, by simp; omega⟩
  · intro f rest nn hs _ _ _ _; exact ⟨h1, by simp; omega⟩
  · intro f rest hs _ hl _; rw [hs] at h3; simp only [List.length_cons] at h3; omega
  · intro f rest hs _ hl _; rw [hs] at h3; simp only [List.length_cons] at h3; omega
  · intro f rest hs _ hl; exact ⟨h1, by simp; omega⟩
  · intro f hs _; exact ⟨h1, by simp; omega⟩

/-- with the fuel of an empty node list (two iterations) `biccs` reports no articulation point, whatever the graph -/
theorem biccs_nil_aps (nb : V → List V) (root : V) : (biccsFrom nb root (biccFuel nb [])).2 = [] := by
  have hf : biccFuel nb [] = 2 := by simp [biccFuel]
  rw [hf]
  have h0 : (Gaftools.Proofs.Bicc.init nb root).aps = [] ∧ (Gaftools.Proofs.Bicc.init nb root).rootChildren = 0 ∧
      (Gaftools.Proofs.Bicc.init nb root).stack.length ≤ 1 := ⟨rfl, rfl, by simp [Gaftools.Proofs.Bicc.init]⟩
  have h1 := bstep_small1 nb _ h0
  have h2 := bstep_small2 nb _ h1
  have key : (bgo nb 2 (Gaftools.Proofs.Bicc.init nb root)).aps = [] ∧
      (bgo nb 2 (Gaftools.Proofs.Bicc.init nb root)).rootChildren ≤ 1 := by
    unfold bgo
    split
    · exact ⟨h0.1, by rw [h0.2.1]; omega⟩
    · unfold bgo
      split
      · exact ⟨h1.1, by rw [h1.2.1]; omega⟩
      · unfold bgo
        exact h2
  show (if (bgo nb 2 (Gaftools.Proofs.Bicc.init nb root)).rootChildren > 1 then
        insertSet root (bgo nb 2 (Gaftools.Proofs.Bicc.init nb root)).aps
        else (bgo nb 2 (Gaftools.Proofs.Bicc.init nb root)).aps) = []
  rw [if_neg (by omega)]
  exact key.1

/-- a scaffold graph without edges fails the census -/
theorem finish_noEdges (s : Scaffold) (aps : List V) (so : V → Option Int) (sn : V → Option String)
    (h : s.edges = []) : finishScaffold s aps so sn = .skipped .degreeOne := by
  have hn : ∀ e, s.nbrs e = [] := by intro e; simp [Scaffold.nbrs, h]
  unfold finishScaffold
  simp only [hn]
  have hf : s.elts.filter (fun _ => false) = [] := List.filter_eq_nil_iff.mpr (by simp)
  rw [if_pos (by simp [hf])]

/-- without articulation points the scaffold graph has no edges -/
theorem build_noAps (bl : List (List V)) (s : Scaffold) (h : buildScaffold bl [] = .ok s) : s.edges = [] := by
  obtain ⟨_, _, _, hedges⟩ := buildScaffold_ok bl [] s h
  cases he : s.edges with
  | nil => rfl
  | cons p r =>
    exfalso
    have hp : p ∈ s.edges := by rw [he]; simp
    rcases (hedges p).mp hp with ⟨i, a, _, hi, ha⟩ | ⟨a, b, _, hab⟩
    · obtain ⟨C, _, hp', _⟩ := bubble_block hi
      rw [hp'] at ha
      have := (mem_part_ends.mp ha).2
      simp at this
    · obtain ⟨C, _, _, hends⟩ := mem_bridges.mp hab
      have : a ∈ (part [] C).2 := by rw [hends]; simp
      have := (mem_part_ends.mp this).2
      simp at this

/-- an empty component is skipped, whatever the neighbour function says about the node `""` -/
theorem decompose_nil_skipped (nb : V → List V) (so : V → Option Int) (sn : V → Option String) :
    ∃ w, decompose nb [] so sn = .skipped w := by
  unfold decompose
  simp only
  have hap := biccs_nil_aps nb ((sortStrings []).headD "")
  generalize biccsFrom nb ((sortStrings []).headD "") (biccFuel nb []) = r at hap
  obtain ⟨bl, ap⟩ := r
  simp only at hap
  subst hap
  simp only
  have hs : sortStrings ([] : List V) = [] := rfl
  rw [hs]
  cases hb : buildScaffold bl [] with
  | error e => exact ⟨e, rfl⟩
  | ok s => exact ⟨_, finish_noEdges s [] so sn (build_noAps bl s hb)⟩

/-! ## when `finishScaffold` skips / crashes -/

theorem finish_not_census (s : Scaffold) (aps : List V) (so : V → Option Int) (sn : V → Option String)
    (h : ¬ census s) : ∃ w, finishScaffold s aps so sn = .skipped w := by
  unfold finishScaffold
  simp only
  split
  · exact ⟨_, rfl⟩
  · rename_i h1
    split
    · exact ⟨_, rfl⟩
    · rename_i h2
      exact absurd ⟨by simpa using h1, by simpa using h2⟩ h

theorem mapM_all_some {α β} (f : α → Option β) (l : List α) (h : ∀ a ∈ l, (f a).isSome) : ∃ cs, l.mapM f = some cs := by
  induction l with
  | nil => exact ⟨[], by simp⟩
  | cons x xs ih =>
    obtain ⟨cs, hcs⟩ := ih (fun a ha => h a (List.mem_cons_of_mem _ ha))
    obtain ⟨y, hy⟩ := Option.isSome_iff_exists.mp (h x (by simp))
    exact ⟨y :: cs, by rw [List.mapM_cons, hy, hcs]; rfl⟩

theorem mem_scaffoldDfs (s : Scaffold) (start e : Elt) (h : e ∈ scaffoldDfs s start) : e ∈ s.elts := by
  unfold scaffoldDfs at h
  simp only at h
  obtain ⟨n, _, hn⟩ := List.mem_filterMap.mp h
  exact List.mem_of_find?_eq_some hn

theorem afterCoords_ne_crash (s : Scaffold) (aps : List V) (T : List Elt) (coords : List Int) (r : Bool) (w : String) :
    afterCoords s aps T coords r ≠ .crash w := by
  intro h
  unfold afterCoords at h
  cases r <;> simp only [Bool.false_eq_true, if_false, if_true] at h
  all_goals
    split at h <;> cases h

/-- a crash is a missing SO tag on a scaffold node of the scaffold graph -/
theorem finish_crash_elt (s : Scaffold) (aps : List V) (so : V → Option Int) (sn : V → Option String) (w : String)
    (h : finishScaffold s aps so sn = .crash w) : ∃ id, Elt.scaffold id ∈ s.elts ∧ so id = none := by
  apply Classical.byContradiction
  intro hno
  have hall : ∀ id, Elt.scaffold id ∈ s.elts → (so id).isSome := by
    intro id hid
    cases hs : so id with
    | none => exact absurd ⟨id, hid, hs⟩ hno
    | some _ => rfl
  by_cases hc : census s
  · rw [finish_eq_afterTrav s aps so sn _ hc.1 hc.2 rfl] at h
    unfold afterTrav at h
    split at h
    · cases h
    · obtain ⟨cs, hcs⟩ := mapM_all_some so
        ((scaffoldDfs s ((s.elts.filter (fun e => (s.nbrs e).length == 1)).headD (Elt.bubble 0))).filterMap
          Gaftools.Proofs.Finish.idOf) (by
          intro id hid
          obtain ⟨e, he, hx⟩ := List.mem_filterMap.mp hid
          cases e with
          | scaffold id' =>
            simp only [Gaftools.Proofs.Finish.idOf, Option.some.injEq] at hx
            subst hx
            exact hall _ (mem_scaffoldDfs s _ _ he)
          | bubble i => simp [Gaftools.Proofs.Finish.idOf] at hx)
      rw [hcs] at h
      simp only at h
      exact afterCoords_ne_crash _ _ _ _ _ _ h
  · obtain ⟨w', hw'⟩ := finish_not_census s aps so sn hc
    rw [hw'] at h
    cases h

/-! ## degrees in the scaffold graph -/

/-- two different blocks (by position) share at most one node -/
def ShareOne (bl : List (List V)) : Prop :=
  bl.Pairwise (fun C C' => ∀ x y, x ∈ C → x ∈ C' → y ∈ C → y ∈ C' → x = y)

theorem range_filter_getD {α} (d : α) (P : α → Bool) (l : List α) :
    ((List.range l.length).filter (fun i => P (l.getD i d))).length = (l.filter P).length := by
  induction l with
  | nil => simp
  | cons x xs ih =>
    rw [List.length_cons, List.range_succ_eq_map, List.filter_cons, List.filter_cons, List.filter_map]
    have h0 : (x :: xs).getD 0 d = x := rfl
    have hf : ((fun i => P ((x :: xs).getD i d)) ∘ Nat.succ) = (fun i => P (xs.getD i d)) := by
      funext i
      rfl
    rw [h0, hf]
    cases P x
    · simp only [Bool.false_eq_true, if_false, List.length_map]; exact ih
    · simp only [if_true, List.length_cons, List.length_map]; rw [ih]

theorem filter_map_length {α β} (f : α → β) (p : β → Bool) (l : List α) :
    (l.filter (fun e => p (f e))).length = ((l.map f).filter p).length := by
  rw [List.filter_map, List.length_map]
  rfl

section deg
variable {nb : V → List V} {comp : List V} {bl : List (List V)} {ap : List V} {s : Scaffold}

theorem ends_nodup (h : BlockCut nb comp bl ap) {i : Nat} (hi : i < (chainOfBlocks bl ap).bubbles.length) :
    ((chainOfBlocks bl ap).bubbles.getD i ([], [])).2.Nodup := by
  obtain ⟨C, hC, hp, _⟩ := bubble_block hi
  rw [hp]
  exact (h.blNodup C hC).sublist List.filter_sublist

theorem deg_bubble (h : BlockCut nb comp bl ap) (hb : buildScaffold bl ap = .ok s) {i : Nat}
    (hi : i < (chainOfBlocks bl ap).bubbles.length) :
    (s.nbrs (.bubble i)).length = degBubble (chainOfBlocks bl ap) i := by
  obtain ⟨_, _, _, hedges⟩ := buildScaffold_ok bl ap s hb
  have hl := edges_noLoop h s hb
  have hperm : (s.nbrs (.bubble i)).Perm
      (((chainOfBlocks bl ap).bubbles.getD i ([], [])).2.map Elt.scaffold) := by
    apply (List.perm_ext_iff_of_nodup (Gaftools.Proofs.Finish.nbrs_nodup s _) ?_).mpr
    · intro e
      rw [mem_nbrs' s hl, List.mem_map]
      constructor
      · rintro ⟨p, hp, ⟨e1, e2⟩ | ⟨e1, e2⟩⟩
        · rcases (hedges p).mp hp with ⟨j, a, rfl, hj, ha⟩ | ⟨a, b, rfl, hab⟩
          · simp only [Elt.bubble.injEq] at e1
            subst e1
            exact ⟨a, ha, e2⟩
          · cases e1
        · rcases (hedges p).mp hp with ⟨j, a, rfl, hj, ha⟩ | ⟨a, b, rfl, hab⟩
          · cases e1
          · cases e1
      · rintro ⟨a, ha, rfl⟩
        exact ⟨(.bubble i, .scaffold a), (hedges _).mpr (Or.inl ⟨i, a, rfl, hi, ha⟩), Or.inl ⟨rfl, rfl⟩⟩
    · exact List.Pairwise.map Elt.scaffold (fun a b hab e => hab (by injection e)) (ends_nodup h hi)
  rw [hperm.length_eq, List.length_map]
  rfl

/-- the bridges joining a given articulation point lead to different articulation points -/
theorem bridges_distinct (h : BlockCut nb comp bl ap) (hs : ShareOne bl) :
    (chainOfBlocks bl ap).bridges.Pairwise (fun p q => ∀ a, (p.1 = a ∨ p.2 = a) → (q.1 = a ∨ q.2 = a) →
      (if p.1 == a then p.2 else p.1) ≠ (if q.1 == a then q.2 else q.1)) := by
  rw [chain_eq]
  simp only
  have h1 : bl.Pairwise (fun C C' => C.Nodup ∧ ∀ x y, x ∈ C → x ∈ C' → y ∈ C → y ∈ C' → x = y) :=
    hs.imp_of_mem (fun hC _ hr => ⟨h.blNodup _ hC, hr⟩)
  have h2 : (bl.map (part ap)).Pairwise
      (fun p q => p.2.Nodup ∧ ∀ x y, x ∈ p.2 → x ∈ q.2 → y ∈ p.2 → y ∈ q.2 → x = y) := by
    apply List.Pairwise.map (part ap) _ h1
    intro C C' ⟨hn, hr⟩
    refine ⟨hn.sublist List.filter_sublist, ?_⟩
    intro x y hx hx' hy hy'
    exact hr x y (mem_part_ends.mp hx).1 (mem_part_ends.mp hx').1 (mem_part_ends.mp hy).1 (mem_part_ends.mp hy').1
  refine List.Pairwise.filterMap _ ?_ (h2.filter _)
  intro p q ⟨hn, hr⟩ b hb b' hb' a ha ha' e
  split at hb
  · rename_i x y hxy
    split at hb'
    · rename_i u v huv
      cases hb
      cases hb'
      rw [hxy] at hn hr
      rw [huv] at hr
      have hxy' : x ≠ y := by simpa using hn
      simp only at ha ha' e
      have ha_uv : a ∈ [u, v] := by rcases ha' with h' | h' <;> simp [← h']
      have hoq : (if (u == a) = true then v else u) ∈ [u, v] := by split <;> simp
      have hboth : x ∈ [u, v] ∧ y ∈ [u, v] := by
        by_cases hxa : x = a
        · rw [if_pos (by simp [hxa])] at e
          exact ⟨by rw [hxa]; exact ha_uv, by rw [e]; exact hoq⟩
        · have hya : y = a := by
            rcases ha with h' | h'
            · exact absurd h' hxa
            · exact h'
          rw [if_neg (by simpa using hxa)] at e
          exact ⟨by rw [e]; exact hoq, by rw [hya]; exact ha_uv⟩
      exact hxy' (hr x y (by simp) hboth.1 (by simp) hboth.2)
    · cases hb'
  · cases hb

theorem deg_scaffold (h : BlockCut nb comp bl ap) (hs : ShareOne bl) (hb : buildScaffold bl ap = .ok s) (a : V) :
    (s.nbrs (.scaffold a)).length = degAp (chainOfBlocks bl ap) a := by
  obtain ⟨_, _, _, hedges⟩ := buildScaffold_ok bl ap s hb
  have hl := edges_noLoop h s hb
  have hperm : (s.nbrs (.scaffold a)).Perm
      (((List.range (chainOfBlocks bl ap).bubbles.length).filter
          (fun i => ((chainOfBlocks bl ap).bubbles.getD i ([], [])).2.contains a)).map Elt.bubble ++
        ((chainOfBlocks bl ap).bridges.filter (fun p => p.1 == a || p.2 == a)).map
          (fun p => Elt.scaffold (if p.1 == a then p.2 else p.1))) := by
    apply (List.perm_ext_iff_of_nodup (Gaftools.Proofs.Finish.nbrs_nodup s _) ?_).mpr
    · intro e
      rw [mem_nbrs' s hl, List.mem_append, List.mem_map, List.mem_map]
      constructor
      · rintro ⟨p, hp, ⟨e1, e2⟩ | ⟨e1, e2⟩⟩
        · rcases (hedges p).mp hp with ⟨j, x, rfl, hj, hx⟩ | ⟨x, y, rfl, hxy⟩
          · cases e1
          · simp only [Elt.scaffold.injEq] at e1
            subst e1
            right
            refine ⟨(x, y), List.mem_filter.mpr ⟨hxy, by simp⟩, ?_⟩
            rw [← e2]
            simp
        · rcases (hedges p).mp hp with ⟨j, x, rfl, hj, hx⟩ | ⟨x, y, rfl, hxy⟩
          · simp only [Elt.scaffold.injEq] at e1
            subst e1
            left
            exact ⟨j, List.mem_filter.mpr ⟨List.mem_range.mpr hj, by simpa using hx⟩, e2⟩
          · simp only [Elt.scaffold.injEq] at e1
            subst e1
            right
            refine ⟨(x, y), List.mem_filter.mpr ⟨hxy, by simp⟩, ?_⟩
            rw [← e2]
            by_cases hxy' : (x == y) = true
            · have : x = y := by simpa using hxy'
              simp [this]
            · simp only [hxy']
              rfl
      · rintro (⟨i, hi, rfl⟩ | ⟨⟨x, y⟩, hp, rfl⟩)
        · obtain ⟨hi1, hi2⟩ := List.mem_filter.mp hi
          exact ⟨(.bubble i, .scaffold a),
            (hedges _).mpr (Or.inl ⟨i, a, rfl, List.mem_range.mp hi1, by simpa using hi2⟩), Or.inr ⟨rfl, rfl⟩⟩
        · obtain ⟨hp1, hp2⟩ := List.mem_filter.mp hp
          refine ⟨(.scaffold x, .scaffold y), (hedges _).mpr (Or.inr ⟨x, y, rfl, hp1⟩), ?_⟩
          by_cases hxa : x = a
          · left
            simp [hxa]
          · have hya : y = a := by
              simp only [Bool.or_eq_true, beq_iff_eq] at hp2
              rcases hp2 with h' | h'
              · exact absurd h' hxa
              · exact h'
            right
            simp [hxa, hya]
    · unfold List.Nodup
      rw [List.pairwise_append]
      refine ⟨?_, ?_, ?_⟩
      · apply List.Pairwise.map Elt.bubble (fun i j (hij : i ≠ j) e => hij (by injection e))
        exact List.Pairwise.filter _ List.nodup_range
      · have hbr : ((chainOfBlocks bl ap).bridges.filter (fun p => p.1 == a || p.2 == a)).Pairwise
            (fun p q => (if p.1 == a then p.2 else p.1) ≠ (if q.1 == a then q.2 else q.1)) := by
          refine ((bridges_distinct h hs).filter _).imp_of_mem ?_
          intro p q hp hq hr
          have hp' := (List.mem_filter.mp hp).2
          have hq' := (List.mem_filter.mp hq).2
          simp only [Bool.or_eq_true, beq_iff_eq] at hp' hq'
          exact hr a hp' hq'
        apply List.Pairwise.map _ _ hbr
        intro p q hpq e
        exact hpq (by injection e)
      · intro x hx y hy e
        obtain ⟨i, _, rfl⟩ := List.mem_map.mp hx
        obtain ⟨q, _, e'⟩ := List.mem_map.mp hy
        rw [← e'] at e
        cases e
  rw [hperm.length_eq, List.length_append, List.length_map, List.length_map,
    range_filter_getD ([], []) (fun b => b.2.contains a) (chainOfBlocks bl ap).bubbles]
  rfl

theorem degs_eq (h : BlockCut nb comp bl ap) (hs : ShareOne bl) (hb : buildScaffold bl ap = .ok s) :
    s.elts.map (fun e => (s.nbrs e).length) =
      (chainOfBlocks bl ap).aps.map (degAp (chainOfBlocks bl ap)) ++
        (List.range (chainOfBlocks bl ap).bubbles.length).map (degBubble (chainOfBlocks bl ap)) := by
  obtain ⟨_, _, helts, _⟩ := buildScaffold_ok bl ap s hb
  rw [helts, List.map_append, List.map_map, List.map_map]
  congr 1
  · show _ = ap.map _
    apply List.map_congr_left
    intro a _
    exact deg_scaffold h hs hb a
  · apply List.map_congr_left
    intro i hi
    exact deg_bubble h hb (List.mem_range.mp hi)

/-- the census of `decompose_and_order` on the scaffold graph is the specification's `isLinear` on the chain of the same
    blocks and articulation points -/
theorem census_iff_linear (h : BlockCut nb comp bl ap) (hs : ShareOne bl) (hb : buildScaffold bl ap = .ok s) :
    census s ↔ isLinear (chainOfBlocks bl ap) = true := by
  obtain ⟨hbad, _, _, _⟩ := buildScaffold_ok bl ap s hb
  have h1 : (s.elts.filter (fun e => (s.nbrs e).length == 1)).length =
      ((s.elts.map (fun e => (s.nbrs e).length)).filter (· == 1)).length := filter_map_length _ (· == 1) _
  have h2 : (s.elts.filter (fun e => (s.nbrs e).length == 2)).length =
      ((s.elts.map (fun e => (s.nbrs e).length)).filter (· == 2)).length := filter_map_length _ (· == 2) _
  have hlen : s.elts.length = (s.elts.map (fun e => (s.nbrs e).length)).length := (List.length_map _).symm
  unfold census isLinear
  rw [hbad, h1, h2, hlen, degs_eq h hs hb]
  simp only [Bool.not_false, Bool.true_and, Bool.and_eq_true, beq_iff_eq]
  have hle := List.length_filter_le (· == 1)
    ((chainOfBlocks bl ap).aps.map (degAp (chainOfBlocks bl ap)) ++
        (List.range (chainOfBlocks bl ap).bubbles.length).map (degBubble (chainOfBlocks bl ap)))
  constructor
  · rintro ⟨a1, a2⟩
    exact ⟨a1, by omega⟩
  · rintro ⟨a1, a2⟩
    exact ⟨a1, by omega⟩

end deg

/-! ## `isLinear` does not depend on the enumeration -/

theorem range_map_getD {α β} (d : α) (f : α → β) (l : List α) :
    (List.range l.length).map (fun i => f (l.getD i d)) = l.map f := by
  apply List.ext_getElem (by simp)
  intro i h1 h2
  simp only [List.length_map, List.length_range] at h1
  simp [List.getD_eq_getElem?_getD, List.getElem?_eq_getElem h1]

/-- the degree list of a chain -/
def degs (c : Chain) : List Nat := c.aps.map (degAp c) ++ c.bubbles.map (fun b => b.2.length)

theorem isLinear_eq (c : Chain) :
    isLinear c = (!c.bad && (((degs c).filter (· == 1)).length == 2 && ((degs c).filter (· == 2)).length + 2 == (degs c).length)) := by
  have : (List.range c.bubbles.length).map (degBubble c) = c.bubbles.map (fun b => b.2.length) :=
    range_map_getD ([], []) (fun b => b.2.length) c.bubbles
  unfold isLinear degs
  rw [this]

theorem isLinear_congr (c c' : Chain) (hbad : c'.bad = c.bad) (hA : c'.aps.Perm c.aps) (hdeg : ∀ a, degAp c' a = degAp c a)
    (hB : (c'.bubbles.map (fun b => b.2.length)).Perm (c.bubbles.map (fun b => b.2.length))) :
    isLinear c' = isLinear c := by
  have hp : (degs c').Perm (degs c) := by
    unfold degs
    have : degAp c' = degAp c := funext hdeg
    rw [this]
    exact (hA.map _).append hB
  rw [isLinear_eq, isLinear_eq, hbad, (hp.filter _).length_eq, (hp.filter _).length_eq, hp.length_eq]

/-- `[x, y]` with `a` one of the two -/
def isPairWith (a : V) : List V → Bool
  | [x, y] => x == a || y == a
  | _ => false

theorem isPairWith_perm (a : V) {l l' : List V} (h : l'.Perm l) : isPairWith a l' = isPairWith a l := by
  match l, h with
  | [x, y], h =>
    rcases perm_pair h with rfl | rfl
    · rfl
    · simp [isPairWith, Bool.or_comm]
  | [], h => rw [h.eq_nil]
  | [x], h =>
    have := h.length_eq
    match l', this with
    | [z], _ => rfl
  | x :: y :: z :: r, h =>
    have := h.length_eq
    match l', this with
    | x' :: y' :: z' :: r', _ => rfl

/-- the pieces of `chainOfBlocks` as counts over the block list -/
theorem chain_bubbles (bl : List (List V)) (ap : List V) :
    (chainOfBlocks bl ap).bubbles = (bl.filter (fun C => !(part ap C).1.isEmpty)).map (part ap) := by
  rw [chain_eq]
  simp only
  rw [List.filter_map]
  rfl

theorem chain_bad (bl : List (List V)) (ap : List V) :
    (chainOfBlocks bl ap).bad = bl.any (fun C => (part ap C).1.isEmpty && (part ap C).2.length != 2) := by
  rw [chain_eq]
  simp only
  rw [List.any_filter, List.any_map]
  rfl

theorem filterMap_pair_count (a : V) (L : List (List V × List V)) :
    ((L.filterMap (fun p => match p.2 with | [x, y] => some (x, y) | _ => none)).filter
        (fun p => p.1 == a || p.2 == a)).length = (L.filter (fun p => isPairWith a p.2)).length := by
  induction L with
  | nil => rfl
  | cons p L ih =>
    obtain ⟨p1, p2⟩ := p
    match p2 with
    | [x, y] =>
      have hfm : ((p1, [x, y]) :: L).filterMap (fun p => match p.2 with | [x, y] => some (x, y) | _ => none) =
          (x, y) :: L.filterMap (fun p => match p.2 with | [x, y] => some (x, y) | _ => none) := rfl
      have e1 : isPairWith a ((p1, [x, y]) : List V × List V).2 = (x == a || y == a) := rfl
      rw [hfm, List.filter_cons, List.filter_cons, e1]
      split
      · rw [List.length_cons, List.length_cons, ih]
      · exact ih
    | [] => exact ih
    | [x] => exact ih
    | x :: y :: z :: r => exact ih

theorem chain_degAp (bl : List (List V)) (ap : List V) (a : V) :
    degAp (chainOfBlocks bl ap) a =
      (bl.filter (fun C => (part ap C).2.contains a && !(part ap C).1.isEmpty)).length +
      (bl.filter (fun C => isPairWith a (part ap C).2 && (part ap C).1.isEmpty)).length := by
  unfold degAp
  rw [chain_bubbles]
  congr 1
  · rw [List.filter_map, List.length_map, List.filter_filter]
    rfl
  · rw [chain_eq]
    simp only
    refine (filterMap_pair_count a _).trans ?_
    rw [List.filter_filter, List.filter_map, List.length_map]
    rfl

theorem part_congr {ap ap' : List V} (hap : ∀ a, a ∈ ap' ↔ a ∈ ap) : part ap' = part ap := by
  have hc : ∀ x, ap'.contains x = ap.contains x := by
    intro x
    rw [Bool.eq_iff_iff]
    simp only [List.contains_iff_mem]
    exact hap x
  funext C
  unfold part
  simp only [hc]

theorem perm_isEmpty {l l' : List V} (h : l'.Perm l) : l'.isEmpty = l.isEmpty := by
  have := h.length_eq
  cases l' <;> cases l <;> simp at this ⊢

theorem perm_contains {l l' : List V} (h : l'.Perm l) (a : V) : l'.contains a = l.contains a := by
  rw [Bool.eq_iff_iff]
  simp only [List.contains_iff_mem]
  exact h.mem_iff

theorem count_transfer {bl bl' : List (List V)} (q : List V → Bool) (hq : ∀ C, q (sortStrings C) = q C)
    (hperm : bl'.Perm (bl.map sortStrings)) : (bl'.filter q).length = (bl.filter q).length := by
  rw [(hperm.filter q).length_eq, List.filter_map, List.length_map]
  congr 1
  apply List.filter_congr
  intro C _
  exact hq C

theorem any_transfer {bl bl' : List (List V)} (q : List V → Bool) (hq : ∀ C, q (sortStrings C) = q C)
    (hperm : bl'.Perm (bl.map sortStrings)) : bl'.any q = bl.any q := by
  rw [Bool.eq_iff_iff, List.any_eq_true, List.any_eq_true]
  constructor
  · rintro ⟨B, hB, hqB⟩
    obtain ⟨C, hC, rfl⟩ := List.mem_map.mp (hperm.mem_iff.mp hB)
    exact ⟨C, hC, by rw [← hq C]; exact hqB⟩
  · rintro ⟨C, hC, hqC⟩
    exact ⟨sortStrings C, hperm.mem_iff.mpr (List.mem_map.mpr ⟨C, hC, rfl⟩), by rw [hq C]; exact hqC⟩

theorem lens_transfer {bl bl' : List (List V)} (q : List V → Bool) (f : List V → Nat) (hq : ∀ C, q (sortStrings C) = q C)
    (hf : ∀ C, f (sortStrings C) = f C)
    (hperm : bl'.Perm (bl.map sortStrings)) : ((bl'.filter q).map f).Perm ((bl.filter q).map f) := by
  refine ((hperm.filter q).map f).trans ?_
  rw [List.filter_map, List.map_map]
  have h1 : bl.filter (q ∘ sortStrings) = bl.filter q := List.filter_congr (fun C _ => hq C)
  have h2 : (f ∘ sortStrings) = f := funext hf
  rw [h1, h2]

/-- `isLinear` of the chain built from a list of blocks and a list of articulation points is the same for every enumeration
    of the blocks (each block in any order) and of the articulation points -/
theorem isLinear_transfer {bl bl' : List (List V)} {ap ap' : List V} (hbl : bl'.Perm (bl.map sortStrings))
    (hap : ap'.Perm ap) : isLinear (chainOfBlocks bl' ap') = isLinear (chainOfBlocks bl ap) := by
  have hpart : part ap' = part ap := part_congr (fun a => hap.mem_iff)
  have hrel : ∀ C, PartRel (part ap (sortStrings C)) (part ap C) := fun C => part_sort (fun a => Iff.rfl) C
  have hemp : ∀ C, (part ap (sortStrings C)).1.isEmpty = (part ap C).1.isEmpty := fun C => perm_isEmpty (hrel C).1
  apply isLinear_congr
  · rw [chain_bad, chain_bad, hpart]
    apply any_transfer _ _ hbl
    intro C
    rw [hemp C, (hrel C).2.length_eq]
  · exact hap
  · intro a
    rw [chain_degAp, chain_degAp, hpart]
    congr 1
    · apply count_transfer _ _ hbl
      intro C
      rw [hemp C, perm_contains (hrel C).2]
    · apply count_transfer _ _ hbl
      intro C
      rw [hemp C, isPairWith_perm a (hrel C).2]
  · rw [chain_bubbles, chain_bubbles, List.map_map, List.map_map, hpart]
    apply lens_transfer _ _ _ _ hbl
    · intro C
      rw [hemp C]
    · intro C
      exact (hrel C).2.length_eq

/-! ## what `biccs` reports against the definition-level decomposition -/

section rep
variable (nb : V → List V) (comp : List V) (hu : Undirected nb comp) (hd : comp.Nodup) (hc : connectedB nb comp = true)
  (hne : comp ≠ [])
include hu hd hc hne

theorem shareOne_rep : ShareOne (rep nb comp).1 := by
  have h := Gaftools.C15.biccs_comps_share_one nb comp hu hd _ (root_mem comp hne) hc
  unfold ShareOne
  rw [List.pairwise_iff_getElem]
  intro i j hi hj hij x y hx hx' hy hy'
  exact h i j hi hj (by omega) x y hx hx' hy hy'

omit hd hc in
theorem rep_nonempty : ∀ C ∈ (rep nb comp).1, C ≠ [] := by
  intro C hC
  exact ((Gaftools.Proofs.Bicc2.invB_bgo nb comp hu _ (root_mem comp hne) (biccFuel nb comp)).good C hC).2.2

theorem rep_sorted_nodup : ((rep nb comp).1.map sortStrings).Nodup := by
  have hbc := rep_blockCut nb comp hu hd hc hne
  have h1 : (rep nb comp).1.Pairwise (fun C C' => sortStrings C ≠ sortStrings C') := by
    refine (shareOne_rep nb comp hu hd hc hne).imp_of_mem ?_
    intro C C' hC hC' hr e
    obtain ⟨v, hv⟩ := List.exists_mem_of_ne_nil C (rep_nonempty nb comp hu hne C hC)
    obtain ⟨w, hw, hwv⟩ := hbc.blTwo C hC v hv
    have hm : ∀ x, x ∈ C → x ∈ C' := by
      intro x hx
      have : x ∈ sortStrings C := Gaftools.Proofs.Bicc2.mem_sortStrings.mpr hx
      rw [e] at this
      exact Gaftools.Proofs.Bicc2.mem_sortStrings.mp this
    exact hwv (hr w v hw (hm w hw) hv (hm v hv))
  exact List.Pairwise.map sortStrings (fun _ _ h => h) h1

/-- `isLinear` of the definition-level chain = `isLinear` of the chain of what `biccs` reported -/
theorem linear_rep :
    isLinear (chainOf nb comp) = isLinear (chainOfBlocks (rep nb comp).1 (sortStrings (rep nb comp).2)) := by
  have hbc := rep_blockCut nb comp hu hd hc hne
  have hex := Gaftools.C15.biccExact nb comp hu hd hc _ (root_mem comp hne)
  have hsame : sameSets (rep nb comp).1 (blocks nb comp) = true := by
    unfold biccExactB at hex
    simp only [Bool.and_eq_true] at hex
    exact hex.1
  have hcv : ∀ a, a ∈ cutVertices nb comp ↔ a ∈ sortStrings (rep nb comp).2 := by
    intro a
    rw [(Gaftools.C06.sortStrings_perm _).mem_iff, Gaftools.C15.biccs_aps_exact nb comp hu hd _ (root_mem comp hne) hc a]
    unfold cutVertices
    rw [List.mem_filter]
  have hcvn : (cutVertices nb comp).Nodup := by unfold cutVertices; exact hd.filter _
  have g := bridge_of_sameSets hbc hsame hcvn hcv
  unfold chainOf
  apply isLinear_transfer
  · apply (List.perm_ext_iff_of_nodup (Gaftools.Proofs.Bicc2.nodup_blocks nb comp)
      (rep_sorted_nodup nb comp hu hd hc hne)).mpr
    intro B
    rw [List.mem_map]
    constructor
    · intro hB
      obtain ⟨C, hC, e⟩ := g.bwd B hB
      exact ⟨C, hC, e.symm⟩
    · rintro ⟨C, hC, rfl⟩
      exact g.fwd C hC
  · exact (List.perm_ext_iff_of_nodup hcvn hbc.apNodup).mpr hcv

/-- the scaffold graph built from what `biccs` reported passes the census iff the component is chain-shaped -/
theorem census_iff (s : Scaffold) (hb : buildScaffold (rep nb comp).1 (sortStrings (rep nb comp).2) = .ok s) :
    census s ↔ isLinear (chainOf nb comp) = true := by
  rw [linear_rep nb comp hu hd hc hne]
  exact census_iff_linear (rep_blockCut nb comp hu hd hc hne) (shareOne_rep nb comp hu hd hc hne) hb

end rep

theorem decompose_unfold (nb : V → List V) (comp : List V) (so : V → Option Int) (sn : V → Option String)
    (hlen : comp.length ≠ 1) :
    decompose nb comp so sn =
      match buildScaffold (rep nb comp).1 (sortStrings (rep nb comp).2) with
      | .error e => .skipped e
      | .ok s => finishScaffold s (rep nb comp).2 so sn := by
  unfold decompose
  split
  · simp at hlen
  · rfl

end Gaftools.Proofs.Skip
