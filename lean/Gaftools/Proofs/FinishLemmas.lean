import Gaftools.Model.Order
import Gaftools.Proofs.OrderLemmas
import Gaftools.Proofs.HistLemmas
/-!
# Lemmas for C06b: census, traversal, orientation and numbering of a path-shaped scaffold graph
-/
namespace Gaftools.Proofs.Finish
open Gaftools.Gfa Gaftools.Algo Gaftools.Order Gaftools.Proofs.Order

/-! ## generic list lemmas -/

theorem nodup_eraseDups {α} [BEq α] [LawfulBEq α] : ∀ (l : List α), l.eraseDups.Nodup
  | [] => by simp
  | a :: as => by
    rw [List.eraseDups_cons, List.nodup_cons]
    have : (as.filter fun b => !b == a).length < as.length + 1 :=
      Nat.lt_succ_of_le (List.length_filter_le _ _)
    refine ⟨?_, nodup_eraseDups _⟩
    simp
termination_by l => l.length

theorem eraseDups_eq_nil {α} [BEq α] (l : List α) : l.eraseDups = [] ↔ l = [] := by
  cases l <;> simp [List.eraseDups_cons]

/-- exactly one distinct value ⇔ non-empty and all elements equal -/
theorem eraseDups_length_one {α} [BEq α] [LawfulBEq α] (l : List α) :
    l.eraseDups.length = 1 ↔ ∃ a, a ∈ l ∧ ∀ x ∈ l, x = a := by
  cases l with
  | nil => simp
  | cons a as =>
    rw [List.eraseDups_cons]
    simp only [List.length_cons, Nat.add_eq_right, List.length_eq_zero_iff, eraseDups_eq_nil,
      List.filter_eq_nil_iff]
    constructor
    · intro h
      refine ⟨a, by simp, ?_⟩
      intro x hx
      rcases List.mem_cons.mp hx with e | e
      · exact e
      · have := h x e
        simpa using this
    · rintro ⟨b, -, hb⟩ x hx
      have h1 : a = b := hb a (by simp)
      have h2 : x = b := hb x (List.mem_cons_of_mem _ hx)
      simp [h1, h2]

theorem eraseDups_length_one_reverse {α} [BEq α] [LawfulBEq α] (l : List α) (h : l.eraseDups.length = 1) :
    l.reverse.eraseDups.length = 1 := by
  rw [eraseDups_length_one] at h ⊢
  obtain ⟨a, h1, h2⟩ := h
  exact ⟨a, by simpa using h1, fun x hx => h2 x (by simpa using hx)⟩

theorem length_one_of_mem_iff {α} {l : List α} (hn : l.Nodup) (a : α) (h : ∀ x, x ∈ l ↔ x = a) : l.length = 1 := by
  have hp : l.Perm [a] := (List.perm_ext_iff_of_nodup hn (by simp)).mpr (by simpa using h)
  simpa using hp.length_eq

theorem length_two_of_mem_iff {α} {l : List α} (hn : l.Nodup) (a b : α) (hab : a ≠ b)
    (h : ∀ x, x ∈ l ↔ x = a ∨ x = b) : l.length = 2 := by
  have hp : l.Perm [a, b] := (List.perm_ext_iff_of_nodup hn (by simp [hab])).mpr (by simpa using h)
  simpa using hp.length_eq

/-- successful `mapM` in `Option`, as a `map` equation -/
theorem mapM_some_iff_map {α β} (f : α → Option β) (l : List α) (cs : List β) :
    l.mapM f = some cs ↔ l.map f = cs.map some := by
  induction l generalizing cs with
  | nil =>
    cases cs <;> simp
  | cons x xs ih =>
    rw [List.mapM_cons]
    cases hx : f x with
    | none => cases cs <;> simp [hx]
    | some y =>
      cases hm : xs.mapM f with
      | none =>
        have hn : ∀ cs, ¬ List.map f xs = List.map some cs := fun cs h => by
          have := (ih cs).mpr h; rw [hm] at this; cases this
        cases cs with
        | nil => simp
        | cons c cs => simp [hn]
      | some ys =>
        have h1 := (ih ys).mp hm
        cases cs with
        | nil => simp
        | cons c cs =>
          simp [hx, h1]
          intro _
          exact (List.map_inj_right (fun x y h => Option.some.inj h)).symm

theorem length_filter_add {α} (p : α → Bool) (l : List α) :
    (l.filter p).length + (l.filter (fun a => !p a)).length = l.length := by
  induction l with
  | nil => simp
  | cons a l ih =>
    simp only [List.filter_cons]
    cases p a <;> simp <;> omega

theorem filterMap_eq_self {α} (f : α → Option α) (l : List α) (h : ∀ e ∈ l, f e = some e) : l.filterMap f = l := by
  induction l with
  | nil => simp
  | cons a l ih =>
    rw [List.filterMap_cons, h a (by simp), ih (fun e he => h e (List.mem_cons_of_mem _ he))]

theorem mapM_reverse {α β} (f : α → Option β) (l : List α) (cs : List β) (h : l.mapM f = some cs) :
    l.reverse.mapM f = some cs.reverse := by
  rw [mapM_some_iff_map] at h ⊢
  rw [List.map_reverse, List.map_reverse, h]

/-! ## orientation test on strictly increasing offsets -/

theorem zip_tail_all_of_pairwise (C : List Int) (h : C.Pairwise (· < ·)) :
    (List.zip C C.tail).all (fun p => decide (p.1 < p.2)) = true := by
  induction C with
  | nil => simp
  | cons a t ih =>
    cases t with
    | nil => simp
    | cons b t =>
      rw [List.pairwise_cons] at h
      have ih' := ih h.2
      simp only [List.tail_cons] at ih' ⊢
      rw [List.zip_cons_cons, List.all_cons, ih']
      simp [h.1 b (by simp)]

theorem head_lt_last (C : List Int) (h : C.Pairwise (· < ·)) (h2 : 2 ≤ C.length) :
    ∃ a b, C.head? = some a ∧ C.getLast? = some b ∧ a < b := by
  match C, h2 with
  | a :: b :: t, _ =>
    rw [List.pairwise_cons] at h
    have hne : (b :: t) ≠ [] := by simp
    refine ⟨a, (b :: t).getLast hne, by simp, ?_, h.1 _ (List.getLast_mem hne)⟩
    rw [List.getLast?_cons_cons, List.getLast?_eq_some_getLast hne]

/-! ## the path-shaped scaffold graph -/

/-- the scaffold graph `s` is the path `es` (same fields as `Gaftools.C06.PathScaffold`) -/
structure PathS (s : Scaffold) (es : List Elt) : Prop where
  names : (es.map Elt.name).Nodup
  perm : s.elts.Perm es
  len : 2 ≤ es.length
  adj : ∀ a b, b ∈ s.nbrs a ↔
    ∃ i, (es[i]? = some a ∧ es[i + 1]? = some b) ∨ (es[i]? = some b ∧ es[i + 1]? = some a)

def idOf : Elt → Option V
  | .scaffold id => some id
  | .bubble _ => none

variable {s : Scaffold} {es : List Elt}

theorem PathS.nodup (hp : PathS s es) : es.Nodup := by
  have h := hp.names
  unfold List.Nodup at *
  rw [List.pairwise_map] at h
  exact h.imp (fun h e => h (by rw [e]))

theorem PathS.name_inj (hp : PathS s es) {x y : Elt} (hx : x ∈ es) (hy : y ∈ es) (h : x.name = y.name) : x = y := by
  obtain ⟨i, hi, rfl⟩ := List.mem_iff_getElem.mp hx
  obtain ⟨j, hj, rfl⟩ := List.mem_iff_getElem.mp hy
  have hi' : i < (es.map Elt.name).length := by simpa using hi
  have hj' : j < (es.map Elt.name).length := by simpa using hj
  have e : (es.map Elt.name)[i] = (es.map Elt.name)[j] := by simpa using h
  have : i = j := (List.getElem_inj hp.names).mp e
  subst this; rfl

theorem PathS.mem_nbrs (hp : PathS s es) (i : Nat) (hi : i < es.length) (b : Elt) :
    b ∈ s.nbrs es[i] ↔ ((i ≥ 1 ∧ es[i - 1]? = some b) ∨ es[i + 1]? = some b) := by
  rw [hp.adj]
  constructor
  · rintro ⟨j, ⟨h1, h2⟩ | ⟨h1, h2⟩⟩
    · obtain ⟨hj, e⟩ := List.getElem?_eq_some_iff.mp h1
      have : j = i := (List.getElem_inj hp.nodup).mp e
      subst this; right; exact h2
    · obtain ⟨hj, e⟩ := List.getElem?_eq_some_iff.mp h2
      have : j + 1 = i := (List.getElem_inj hp.nodup).mp e
      subst this; left; exact ⟨by omega, by simpa using h1⟩
  · rintro (⟨h1, h2⟩ | h2)
    · refine ⟨i - 1, Or.inr ⟨h2, ?_⟩⟩
      rw [show i - 1 + 1 = i by omega]; exact List.getElem?_eq_getElem hi
    · exact ⟨i, Or.inl ⟨List.getElem?_eq_getElem hi, h2⟩⟩

theorem nbrs_nodup (s : Scaffold) (e : Elt) : (s.nbrs e).Nodup := by
  unfold Scaffold.nbrs
  exact nodup_eraseDups _

/-- the two ends have one neighbour, the inner elements two -/
theorem PathS.deg (hp : PathS s es) (i : Nat) (hi : i < es.length) :
    (s.nbrs es[i]).length = if i = 0 ∨ i + 1 = es.length then 1 else 2 := by
  have hlen := hp.len
  have hm := hp.mem_nbrs i hi
  by_cases h0 : i = 0
  · subst h0
    rw [if_pos (Or.inl rfl)]
    apply length_one_of_mem_iff (nbrs_nodup s _) es[1]
    intro x
    rw [hm x, List.getElem?_eq_getElem (show 0 + 1 < es.length by omega)]
    simp [eq_comm]
  · by_cases hl : i + 1 = es.length
    · rw [if_pos (Or.inr hl)]
      apply length_one_of_mem_iff (nbrs_nodup s _) (es[i - 1]'(by omega))
      intro x
      rw [hm x, List.getElem?_eq_none (show es.length ≤ i + 1 by omega),
        List.getElem?_eq_getElem (show i - 1 < es.length by omega)]
      have : i ≥ 1 := by omega
      simp [this, eq_comm]
    · rw [if_neg (by omega)]
      apply length_two_of_mem_iff (nbrs_nodup s _) (es[i - 1]'(by omega)) (es[i + 1]'(by omega))
      · intro e
        have := (List.getElem_inj hp.nodup).mp e
        omega
      · intro x
        rw [hm x, List.getElem?_eq_getElem (show i + 1 < es.length by omega),
          List.getElem?_eq_getElem (show i - 1 < es.length by omega)]
        have : i ≥ 1 := by omega
        simp [this, eq_comm]

theorem PathS.deg_cases (hp : PathS s es) (e : Elt) (he : e ∈ es) :
    (s.nbrs e).length = 1 ∨ (s.nbrs e).length = 2 := by
  obtain ⟨i, hi, rfl⟩ := List.mem_iff_getElem.mp he
  rw [hp.deg i hi]
  split
  · left; rfl
  · right; rfl

theorem PathS.deg_one_iff (hp : PathS s es) (e : Elt) (he : e ∈ es) :
    (s.nbrs e).length = 1 ↔
      (e = es[0]'(by have := hp.len; omega) ∨ e = es[es.length - 1]'(by have := hp.len; omega)) := by
  have hlen := hp.len
  obtain ⟨i, hi, rfl⟩ := List.mem_iff_getElem.mp he
  rw [hp.deg i hi]
  constructor
  · intro h
    split at h
    · rename_i hc
      rcases hc with hc | hc
      · left; subst hc; rfl
      · right
        have : i = es.length - 1 := by omega
        subst this; rfl
    · omega
  · intro h
    rw [if_pos]
    rcases h with h | h
    · left; exact (List.getElem_inj hp.nodup).mp h
    · right
      have := (List.getElem_inj hp.nodup).mp h
      omega

/-- the census finds exactly the two ends -/
theorem PathS.one_perm (hp : PathS s es) :
    (s.elts.filter (fun e => (s.nbrs e).length == 1)).Perm
      [es[0]'(by have := hp.len; omega), es[es.length - 1]'(by have := hp.len; omega)] := by
  have hlen := hp.len
  refine (hp.perm.filter _).trans ?_
  refine (List.perm_ext_iff_of_nodup (hp.nodup.sublist List.filter_sublist) ?_).mpr ?_
  · rw [List.nodup_cons]
    refine ⟨?_, by simp⟩
    rw [List.mem_singleton]
    intro e
    have := (List.getElem_inj hp.nodup).mp e
    omega
  · intro x
    rw [List.mem_filter]
    constructor
    · rintro ⟨hx, hd⟩
      have := (hp.deg_one_iff x hx).mp (by simpa using hd)
      simpa using this
    · intro hx
      have hx' : x = es[0] ∨ x = es[es.length - 1] := by simpa using hx
      have hmem : x ∈ es := by
        rcases hx' with h | h <;> rw [h] <;> exact List.getElem_mem _
      exact ⟨hmem, by simpa using (hp.deg_one_iff x hmem).mpr hx'⟩

theorem PathS.one_length (hp : PathS s es) :
    (s.elts.filter (fun e => (s.nbrs e).length == 1)).length = 2 := by
  simpa using hp.one_perm.length_eq

theorem PathS.two_length (hp : PathS s es) :
    (s.elts.filter (fun e => (s.nbrs e).length == 2)).length = s.elts.length - 2 := by
  have h1 := hp.one_length
  rw [(hp.perm.filter _).length_eq] at h1 ⊢
  rw [hp.perm.length_eq]
  have hc : es.filter (fun e => (s.nbrs e).length == 2) = es.filter (fun e => !((s.nbrs e).length == 1)) := by
    apply List.filter_congr
    intro x hx
    rcases hp.deg_cases x hx with h | h <;> simp [h]
  rw [hc]
  have := length_filter_add (fun e => (s.nbrs e).length == 1) es
  omega

/-! ## the traversal -/

def nbOf (s : Scaffold) (n : String) : List String :=
  match s.elts.find? (fun e => e.name == n) with
  | some e => sortStrings ((s.nbrs e).map Elt.name)
  | none => []

theorem scaffoldDfs_eq (s : Scaffold) (start : Elt) :
    scaffoldDfs s start =
      (dfs (nbOf s) (s.elts.map Elt.name) start.name).filterMap (fun n => s.elts.find? (fun e => e.name == n)) := rfl

theorem PathS.ofName (hp : PathS s es) (e : Elt) (he : e ∈ es) :
    s.elts.find? (fun x => x.name == e.name) = some e := by
  cases h : s.elts.find? (fun x => x.name == e.name) with
  | none =>
    rw [List.find?_eq_none] at h
    have := h e (hp.perm.mem_iff.mpr he)
    simp at this
  | some x =>
    have h1 := List.find?_some h
    have h2 := List.mem_of_find?_eq_some h
    have : x = e := hp.name_inj (hp.perm.mem_iff.mp h2) he (by simpa using h1)
    rw [this]

theorem PathS.pathNb (hp : PathS s es) : PathNb (nbOf s) (es.map Elt.name) := by
  refine ⟨hp.names, ?_⟩
  intro i hi x
  have hi' : i < es.length := by simpa using hi
  have e1 : (es.map Elt.name)[i] = es[i].name := by simp
  rw [e1]
  unfold nbOf
  rw [hp.ofName es[i] (List.getElem_mem _)]
  simp only
  rw [Gaftools.Proofs.Hist.mem_sortStrings, List.mem_map, List.getElem?_map, List.getElem?_map]
  constructor
  · rintro ⟨b, hb, rfl⟩
    rcases (hp.mem_nbrs i hi' b).mp hb with ⟨h1, h2⟩ | h2
    · left; exact ⟨h1, by rw [h2]; rfl⟩
    · right; rw [h2]; rfl
  · rintro (⟨h1, h2⟩ | h2)
    · rw [Option.map_eq_some_iff] at h2
      obtain ⟨b, hb, rfl⟩ := h2
      exact ⟨b, (hp.mem_nbrs i hi' b).mpr (Or.inl ⟨h1, hb⟩), rfl⟩
    · rw [Option.map_eq_some_iff] at h2
      obtain ⟨b, hb, rfl⟩ := h2
      exact ⟨b, (hp.mem_nbrs i hi' b).mpr (Or.inr hb), rfl⟩

theorem PathS.filterMap_ofName (hp : PathS s es) :
    (es.map Elt.name).filterMap (fun n => s.elts.find? (fun e => e.name == n)) = es := by
  rw [List.filterMap_map]
  exact filterMap_eq_self _ es (fun e he => hp.ofName e he)

/-- started at the first element, the traversal is the path -/
theorem PathS.dfs_head (hp : PathS s es) (hne : es ≠ []) : scaffoldDfs s (es.head hne) = es := by
  have hne' : es.map Elt.name ≠ [] := by simpa using hne
  have h := dfs_path_perm (nbOf s) (es.map Elt.name) (s.elts.map Elt.name) hp.pathNb hne' (hp.perm.map _)
  rw [List.head_map] at h
  rw [scaffoldDfs_eq, h, hp.filterMap_ofName]

theorem PathS.reverse (hp : PathS s es) : PathS s es.reverse := by
  refine ⟨?_, hp.perm.trans (List.reverse_perm es).symm, by simpa using hp.len, ?_⟩
  · rw [List.map_reverse]; exact nodup_reverse hp.names
  · intro a b
    rw [hp.adj]
    have key : ∀ (l : List Elt) (x y : Elt),
        (∃ i, l[i]? = some x ∧ l[i + 1]? = some y) → ∃ i, l.reverse[i]? = some y ∧ l.reverse[i + 1]? = some x := by
      rintro l x y ⟨i, h1, h2⟩
      have hi : i + 1 < l.length := (List.getElem?_eq_some_iff.mp h2).1
      refine ⟨l.length - 2 - i, ?_, ?_⟩
      · rw [List.getElem?_reverse (by omega), ← h2]; congr 1; omega
      · rw [List.getElem?_reverse (by omega), ← h1]; congr 1; omega
    constructor
    · rintro ⟨i, ⟨h1, h2⟩ | ⟨h1, h2⟩⟩
      · obtain ⟨j, h⟩ := key es a b ⟨i, h1, h2⟩
        exact ⟨j, Or.inr h⟩
      · obtain ⟨j, h⟩ := key es b a ⟨i, h1, h2⟩
        exact ⟨j, Or.inl h⟩
    · rintro ⟨i, ⟨h1, h2⟩ | ⟨h1, h2⟩⟩
      · obtain ⟨j, h⟩ := key es.reverse a b ⟨i, h1, h2⟩
        rw [List.reverse_reverse] at h
        exact ⟨j, Or.inr h⟩
      · obtain ⟨j, h⟩ := key es.reverse b a ⟨i, h1, h2⟩
        rw [List.reverse_reverse] at h
        exact ⟨j, Or.inl h⟩

/-- started at the last element, the traversal is the reversed path -/
theorem PathS.dfs_last (hp : PathS s es) (hne : es ≠ []) : scaffoldDfs s (es.getLast hne) = es.reverse := by
  have hne' : es.reverse ≠ [] := by simpa using hne
  have h := hp.reverse.dfs_head hne'
  rw [List.head_reverse] at h
  exact h

/-! ## the part of `finishScaffold` after the traversal -/

theorem finish_of_trav (s : Scaffold) (aps : List V) (so : V → Option Int) (sn : V → Option String)
    (T : List Elt) (C : List Int) (a b : Int) (r : Bool)
    (h1 : (s.elts.filter (fun e => (s.nbrs e).length == 1)).length = 2)
    (h2 : (s.elts.filter (fun e => (s.nbrs e).length == 2)).length = s.elts.length - 2)
    (hT : scaffoldDfs s ((s.elts.filter (fun e => (s.nbrs e).length == 1)).headD (Elt.bubble 0)) = T)
    (hsn : (((T.filterMap idOf).map sn).eraseDups).length = 1)
    (hso : (T.filterMap idOf).mapM so = some C)
    (ha : C.head? = some a) (hb : C.getLast? = some b) (hr : decide (a > b) = r)
    (hz : (List.zip (if r then C.reverse else C) (if r then C.reverse else C).tail).all
      (fun p => decide (p.1 < p.2)) = true) :
    finishScaffold s aps so sn =
      .ok ⟨aps, s.bubbles.flatten, numberChain s (if r then T.reverse else T), T.length, s.bubbles.length⟩ := by
  unfold finishScaffold
  simp only [h1, h2, hT]
  generalize hf : List.filterMap _ T = scaf
  have hs : scaf = T.filterMap idOf := by
    rw [← hf]; congr 1; funext e; cases e <;> rfl
  subst hs
  simp only [hsn, hso, ha, hb, hr, hz]
  cases r <;> simp

theorem headD_of_perm_pair {α} (l : List α) (a z d : α) (h : l.Perm [a, z]) : l.headD d = a ∨ l.headD d = z := by
  cases l with
  | nil => have := h.length_eq; simp at this
  | cons x t =>
    have : x ∈ [a, z] := h.mem_iff.mp (by simp)
    simpa using this

/-- offsets increasing along `es` ⇒ numbered along `es`, whichever end the traversal starts from -/
theorem finish_path_core (s : Scaffold) (es : List Elt) (aps : List V) (so : V → Option Int) (sn : V → Option String)
    (hp : PathS s es) (cs : List Int) (hso : (es.filterMap idOf).mapM so = some cs) (h2 : 2 ≤ cs.length)
    (hinc : cs.Pairwise (· < ·)) (hsn : (((es.filterMap idOf).map sn).eraseDups).length = 1) :
    finishScaffold s aps so sn = .ok ⟨aps, s.bubbles.flatten, numberChain s es, es.length, s.bubbles.length⟩ := by
  have hlen := hp.len
  have hne : es ≠ [] := by intro h; rw [h] at hlen; simp at hlen
  obtain ⟨a, b, ha, hb, hab⟩ := head_lt_last cs hinc h2
  rcases headD_of_perm_pair _ _ _ (Elt.bubble 0) hp.one_perm with hx | hx
  · have hT : scaffoldDfs s ((s.elts.filter (fun e => (s.nbrs e).length == 1)).headD (Elt.bubble 0)) = es := by
      rw [hx, ← List.head_eq_getElem hne]; exact hp.dfs_head hne
    have h := finish_of_trav s aps so sn es cs a b false hp.one_length hp.two_length hT hsn hso ha hb
      (by simp only [gt_iff_lt, decide_eq_false_iff_not]; omega)
      (by simpa using zip_tail_all_of_pairwise cs hinc)
    simpa using h
  · have hT : scaffoldDfs s ((s.elts.filter (fun e => (s.nbrs e).length == 1)).headD (Elt.bubble 0)) = es.reverse := by
      rw [hx, ← List.getLast_eq_getElem hne]; exact hp.dfs_last hne
    have hsn' : (((es.reverse.filterMap idOf).map sn).eraseDups).length = 1 := by
      rw [List.filterMap_reverse, List.map_reverse]
      exact eraseDups_length_one_reverse _ hsn
    have hso' : (es.reverse.filterMap idOf).mapM so = some cs.reverse := by
      rw [List.filterMap_reverse]; exact mapM_reverse so _ cs hso
    have h := finish_of_trav s aps so sn es.reverse cs.reverse b a true hp.one_length hp.two_length hT hsn' hso'
      (by rw [List.head?_reverse]; exact hb) (by rw [List.getLast?_reverse]; exact ha)
      (by simp only [gt_iff_lt, decide_eq_true_eq]; exact hab)
      (by simpa using zip_tail_all_of_pairwise cs hinc)
    simpa using h

end Gaftools.Proofs.Finish
