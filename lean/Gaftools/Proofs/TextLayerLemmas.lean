import Gaftools.Model.TextLayer
/-! helper lemmas for `Props/TextLayer.lean`: the tokeniser on rendered steps, `splitOn`, `stripWith`, `pyInt` on decimals -/
namespace Gaftools.Proofs.TextLayer
open Gaftools.Gfa Gaftools.TextLayer

/-- an id the regex can carry: non-empty, no orientation character -/
def GoodId (id : String) : Prop := id.toList ≠ [] ∧ ∀ c ∈ id.toList, isOri c = false

/-! ## tokeniser -/

theorem aux_run (o : Bool) (id : List Char) (h : ∀ c ∈ id, isOri c = false) (acc rest : List Char) :
    tokenizeAux (some (o, acc)) (id ++ rest) = tokenizeAux (some (o, id.reverse ++ acc)) rest := by
  induction id generalizing acc with
  | nil => rfl
  | cons c id ih =>
    have hc : isOri c = false := h c (List.mem_cons_self ..)
    have ih := ih (fun d hd => h d (List.mem_cons_of_mem _ hd)) (c :: acc)
    simp only [List.cons_append, tokenizeAux, hc, Bool.false_eq_true, if_false, ih, List.reverse_cons, List.append_assoc,
      List.nil_append]

theorem oriChar_isOri (b : Bool) : isOri (if b then '>' else '<') = true := by cases b <;> decide

theorem oriChar_beq (b : Bool) : ((if b then '>' else '<') == '>') = b := by cases b <;> decide

theorem renderChars_cons (s : Step) (rest : List Step) :
    renderChars (s :: rest) = (if s.1 then '>' else '<') :: (s.2.toList ++ renderChars rest) := by
  simp [renderChars]

theorem aux_render_some (steps : List Step) (hg : ∀ s ∈ steps, GoodId s.2) (o : Bool) (acc : List Char) (hacc : acc ≠ []) :
    tokenizeAux (some (o, acc)) (renderChars steps) = (o, String.ofList acc.reverse) :: steps := by
  induction steps generalizing o acc with
  | nil =>
    have : acc.isEmpty = false := by cases acc with | nil => exact absurd rfl hacc | cons _ _ => rfl
    simp [renderChars, tokenizeAux, this]
  | cons s rest ih =>
    obtain ⟨hne, hno⟩ := hg s (List.mem_cons_self ..)
    have hrest : ∀ t ∈ rest, GoodId t.2 := fun t ht => hg t (List.mem_cons_of_mem _ ht)
    have hempty : acc.isEmpty = false := by cases acc with | nil => exact absurd rfl hacc | cons _ _ => rfl
    have hrev : s.2.toList.reverse ≠ [] := by simpa using hne
    rw [renderChars_cons]
    simp only [tokenizeAux, oriChar_isOri, if_true, hempty, Bool.false_eq_true, if_false, oriChar_beq]
    rw [aux_run s.1 s.2.toList hno [] (renderChars rest), List.append_nil, ih hrest s.1 _ hrev]
    simp [String.ofList_toList]

theorem aux_render_none (steps : List Step) (hg : ∀ s ∈ steps, GoodId s.2) :
    tokenizeAux none (renderChars steps) = steps := by
  cases steps with
  | nil => rfl
  | cons s rest =>
    obtain ⟨hne, hno⟩ := hg s (List.mem_cons_self ..)
    have hrest : ∀ t ∈ rest, GoodId t.2 := fun t ht => hg t (List.mem_cons_of_mem _ ht)
    have hrev : s.2.toList.reverse ≠ [] := by simpa using hne
    rw [renderChars_cons]
    simp only [tokenizeAux, oriChar_isOri, if_true, oriChar_beq]
    rw [aux_run s.1 s.2.toList hno [] (renderChars rest), List.append_nil, aux_render_some rest hrest s.1 _ hrev]
    simp [String.ofList_toList]

/-- every token the scan emits has a non-empty id without orientation characters -/
theorem aux_good (p : List Char) (st : Option (Bool × List Char))
    (hst : ∀ o acc, st = some (o, acc) → ∀ c ∈ acc, isOri c = false) :
    ∀ s ∈ tokenizeAux st p, GoodId s.2 := by
  have emit : ∀ (o : Bool) (acc : List Char), (∀ c ∈ acc, isOri c = false) →
      ∀ s ∈ (if acc.isEmpty then [] else [(o, String.ofList acc.reverse)] : List Step), GoodId s.2 := by
    intro o acc hacc s hs
    cases acc with
    | nil => simp at hs
    | cons a acc =>
      simp only [List.isEmpty_cons, Bool.false_eq_true, if_false, List.mem_singleton] at hs
      subst hs
      refine ⟨by simp, ?_⟩
      intro c hc
      simp only [String.toList_ofList, List.mem_reverse] at hc
      exact hacc c hc
  induction p generalizing st with
  | nil =>
    intro s hs
    match st, hst with
    | none, _ => simp [tokenizeAux] at hs
    | some (o, acc), hst =>
      simp only [tokenizeAux] at hs
      exact emit o acc (hst o acc rfl) s hs
  | cons c cs ih =>
    intro s hs
    match st, hst with
    | none, _ =>
      simp only [tokenizeAux] at hs
      split at hs
      · exact ih _ (by intro o acc h; cases h; simp) s hs
      · exact ih _ (by intro o acc h; cases h) s hs
    | some (o, acc), hst =>
      simp only [tokenizeAux] at hs
      split at hs
      · rcases List.mem_append.1 hs with h | h
        · exact emit o acc (hst o acc rfl) s h
        · exact ih _ (by intro o acc h; cases h; simp) s h
      · rename_i hc
        refine ih _ ?_ s hs
        intro o' acc' h
        cases h
        intro d hd
        rcases List.mem_cons.1 hd with rfl | hd
        · simpa using hc
        · exact hst o acc rfl d hd

/-! ## `splitOn` -/

theorem splitOn_ne_nil (sep : Char) (s : List Char) : splitOn sep s ≠ [] := by
  cases s with
  | nil => simp [splitOn]
  | cons c cs =>
    simp only [splitOn]
    split
    · simp
    · split <;> simp

theorem splitOn_cons_ne (sep c : Char) (cs : List Char) (h : (c == sep) = false) :
    ∃ hd tl, splitOn sep cs = hd :: tl ∧ splitOn sep (c :: cs) = (c :: hd) :: tl := by
  cases hs : splitOn sep cs with
  | nil => exact absurd hs (splitOn_ne_nil sep cs)
  | cons hd tl => exact ⟨hd, tl, rfl, by simp [splitOn, h, hs]⟩

/-- `(x + sep + y).split(sep) == x.split(sep) + y.split(sep)` -/
theorem splitOn_append (sep : Char) (x y : List Char) :
    splitOn sep (x ++ sep :: y) = splitOn sep x ++ splitOn sep y := by
  induction x with
  | nil => simp [splitOn]
  | cons c x ih =>
    by_cases h : (c == sep) = true
    · simp [splitOn, h, ih]
    · have h : (c == sep) = false := by simpa using h
      obtain ⟨hd, tl, h1, h2⟩ := splitOn_cons_ne sep c x h
      obtain ⟨hd', tl', h1', h2'⟩ := splitOn_cons_ne sep c (x ++ sep :: y) h
      rw [List.cons_append, h2', h2]
      rw [ih, h1] at h1'
      simp only [List.cons_append, List.cons.injEq] at h1'
      rw [← h1'.1, ← h1'.2]
      rfl

theorem splitOn_no_sep (sep : Char) (s : List Char) (h : sep ∉ s) : splitOn sep s = [s] := by
  induction s with
  | nil => rfl
  | cons c cs ih =>
    have hc : (c == sep) = false := by
      cases hb : c == sep with
      | false => rfl
      | true => exact absurd (by rw [beq_iff_eq.1 hb]; exact List.mem_cons_self ..) h
    have ih := ih (fun hm => h (List.mem_cons_of_mem _ hm))
    simp [splitOn, hc, ih]

/-- no part holds the separator -/
theorem splitOn_parts (sep : Char) (s : List Char) : ∀ p ∈ splitOn sep s, sep ∉ p := by
  induction s with
  | nil => intro p hp; simp [splitOn] at hp; subst hp; simp
  | cons c cs ih =>
    intro p hp
    by_cases h : (c == sep) = true
    · simp only [splitOn, h, if_true, List.mem_cons] at hp
      rcases hp with rfl | hp
      · simp
      · exact ih p hp
    · have h : (c == sep) = false := by simpa using h
      obtain ⟨hd, tl, h1, h2⟩ := splitOn_cons_ne sep c cs h
      rw [h2] at hp
      rw [h1] at ih
      rcases List.mem_cons.1 hp with rfl | hp
      · intro hm
        rcases List.mem_cons.1 hm with rfl | hm
        · simp at h
        · exact ih hd (List.mem_cons_self ..) hm
      · exact ih p (List.mem_cons_of_mem _ hp)

/-- two or more parts exactly when the separator occurs -/
theorem splitOn_two_iff (sep : Char) (s : List Char) :
    (∃ a b t, splitOn sep s = a :: b :: t) ↔ sep ∈ s := by
  constructor
  · rintro ⟨a, b, t, h⟩
    by_cases hm : sep ∈ s
    · exact hm
    · rw [splitOn_no_sep sep s hm] at h; simp at h
  · intro hm
    obtain ⟨x, y, rfl⟩ := List.append_of_mem hm
    rw [splitOn_append]
    cases hx : splitOn sep x with
    | nil => exact absurd hx (splitOn_ne_nil sep x)
    | cons a t =>
      cases hy : splitOn sep y with
      | nil => exact absurd hy (splitOn_ne_nil sep y)
      | cons b u =>
        cases t with
        | nil => exact ⟨a, b, u, rfl⟩
        | cons b' t' => exact ⟨a, b', t' ++ b :: u, rfl⟩

theorem headD_splitOn_append (sep : Char) (x y : List Char) (h : sep ∉ x) :
    (splitOn sep (x ++ sep :: y)).headD [] = x := by
  rw [splitOn_append, splitOn_no_sep sep x h]; rfl

theorem getLastD_splitOn_append (sep : Char) (x y : List Char) (h : sep ∉ y) :
    (splitOn sep (x ++ sep :: y)).getLastD [] = y := by
  rw [splitOn_append, splitOn_no_sep sep y h]
  simp [List.getLastD_eq_getLast?]

/-! ## `stripWith` -/

theorem dropWhile_id_of_head (p : Char → Bool) (s : List Char) (h : ∀ c, s.head? = some c → p c = false) :
    s.dropWhile p = s := by
  cases s with
  | nil => rfl
  | cons c cs => simp [List.dropWhile, h c rfl]

theorem stripWith_id (p : Char → Bool) (s : List Char) (h : ∀ c ∈ s, p c = false) : stripWith p s = s := by
  unfold stripWith
  rw [dropWhile_id_of_head p s (fun c hc => h c (List.mem_of_mem_head? hc)),
    dropWhile_id_of_head p s.reverse (fun c hc => h c (by simpa using List.mem_of_mem_head? hc)), List.reverse_reverse]

theorem mem_stripWith (p : Char → Bool) (s : List Char) : ∀ c ∈ stripWith p s, c ∈ s := by
  intro c hc
  unfold stripWith at hc
  have h1 := (List.dropWhile_sublist (l := (s.dropWhile p).reverse) p).subset (List.mem_reverse.1 hc)
  exact (List.dropWhile_sublist (l := s) p).subset (List.mem_reverse.1 h1)

/-! ## `pyInt` on canonical decimals -/

theorem isDigit_toNat {c : Char} (h : c.isDigit = true) : 48 ≤ c.toNat ∧ c.toNat ≤ 57 := by
  simp only [Char.isDigit, Bool.and_eq_true, decide_eq_true_eq] at h
  exact h

theorem intSpace_digit {c : Char} (h : c.isDigit = true) : intSpace c = false := by
  have hb := isDigit_toNat h
  have : pyIsSpace c = false := by
    unfold pyIsSpace
    simp only [Bool.or_eq_false_iff, Bool.and_eq_false_iff, decide_eq_false_iff_not, beq_eq_false_iff_ne, ne_eq]
    omega
  simp [intSpace, this]

theorem digit_ne {c d : Char} (h : c.isDigit = true) (hd : d.isDigit = false) : c ≠ d := by
  intro e; rw [e, hd] at h; cases h

theorem digits_all (n : Nat) : ∀ c ∈ Nat.toDigits 10 n, c.isDigit = true :=
  fun _ hc => Nat.isDigit_of_mem_toDigits (by decide) (by decide) hc

theorem pyNat_dec (n : Nat) (h : (Nat.toDigits 10 n).length ≤ maxStrDigits) : pyNat (Nat.toDigits 10 n) = some n := by
  have hall := digits_all n
  have hne : Nat.toDigits 10 n ≠ [] := Nat.toDigits_ne_nil
  have hus : '_' ∉ Nat.toDigits 10 n := fun hm => digit_ne (hall _ hm) (by decide) rfl
  have hd : isDigitsNE (Nat.toDigits 10 n) = true := by
    have : (Nat.toDigits 10 n).isEmpty = false := by
      cases hx : Nat.toDigits 10 n with
      | nil => exact absurd hx hne
      | cons _ _ => rfl
    simp only [isDigitsNE, this, Bool.not_false, Bool.true_and, List.all_eq_true]
    exact hall
  unfold pyNat
  simp only [splitOn_no_sep '_' _ hus, List.all_cons, List.all_nil, Bool.and_true, hd, List.flatten_cons, List.flatten_nil,
    List.append_nil, Bool.true_and, decide_eq_true_eq, h, if_true, Nat.ofDigitChars_ten_toDigits]

theorem pyInt_dec (n : Nat) (h : (Nat.toDigits 10 n).length ≤ maxStrDigits) : pyInt (Nat.toDigits 10 n) = some (n : Int) := by
  have hall := digits_all n
  have hne : Nat.toDigits 10 n ≠ [] := Nat.toDigits_ne_nil
  unfold pyInt
  rw [stripWith_id intSpace _ (fun c hc => intSpace_digit (hall c hc))]
  have hp := pyNat_dec n h
  cases hx : Nat.toDigits 10 n with
  | nil => exact absurd hx hne
  | cons c r =>
    have hc : c.isDigit = true := hall c (by rw [hx]; exact List.mem_cons_self ..)
    have h1 : c ≠ '-' := digit_ne hc (by decide)
    have h2 : c ≠ '+' := digit_ne hc (by decide)
    rw [hx] at hp
    split
    · rename_i heq; cases heq; exact absurd rfl h1
    · rename_i heq; cases heq; exact absurd rfl h2
    · rw [hp]; rfl

/-- without a '-' in it, `int()` gives no negative number -/
theorem pyInt_nonneg (s : List Char) (h : '-' ∉ s) (v : Int) (hv : pyInt s = some v) : 0 ≤ v := by
  unfold pyInt at hv
  split at hv
  · rename_i r heq
    have : '-' ∈ stripWith intSpace s := by rw [heq]; exact List.mem_cons_self ..
    exact absurd (mem_stripWith _ _ _ this) h
  all_goals
    cases hp : pyNat _ with
    | none => rw [hp] at hv; cases hv
    | some n => rw [hp] at hv; cases hv; exact Int.natCast_nonneg n

/-! ## lines of a text file -/

theorem univNl_id (s : List Char) (h : '\r' ∉ s) : univNl false s = s := by
  induction s with
  | nil => rfl
  | cons c cs ih =>
    have hc : (c == '\r') = false := by
      cases hb : c == '\r' with
      | false => rfl
      | true => exact absurd (by rw [beq_iff_eq.1 hb]; exact List.mem_cons_self ..) h
    have ih := ih (fun hm => h (List.mem_cons_of_mem _ hm))
    by_cases hn : (c == '\n') = true
    · have e : c = '\n' := beq_iff_eq.1 hn
      subst e
      simp [univNl, ih]
    · simp [univNl, hc, hn, ih]

theorem keepEndsNl_line (l : List Char) (h : '\n' ∉ l) (cur rest : List Char) :
    keepEndsNl cur (l ++ '\n' :: rest) = (cur.reverse ++ l ++ ['\n']) :: keepEndsNl [] rest := by
  induction l generalizing cur with
  | nil => simp [keepEndsNl]
  | cons c cs ih =>
    have hc : (c == '\n') = false := by
      cases hb : c == '\n' with
      | false => rfl
      | true => exact absurd (by rw [beq_iff_eq.1 hb]; exact List.mem_cons_self ..) h
    have ih := ih (fun hm => h (List.mem_cons_of_mem _ hm)) (c :: cur)
    simp [keepEndsNl, hc, ih]

theorem keepEndsNl_lines (ls : List (List Char)) (h : ∀ l ∈ ls, '\n' ∉ l) :
    keepEndsNl [] (ls.flatMap (fun l => l ++ ['\n'])) = ls.map (fun l => l ++ ['\n']) := by
  induction ls with
  | nil => rfl
  | cons l ls ih =>
    have ih := ih (fun m hm => h m (List.mem_cons_of_mem _ hm))
    have hl := h l (List.mem_cons_self ..)
    simp only [List.flatMap_cons, List.map_cons, List.append_assoc, List.singleton_append]
    rw [keepEndsNl_line l hl [] _, ih]
    simp

/-! ## `mapM` in `Except` -/

theorem mapM_ok {α β ε : Type} (f : α → Except ε β) (h : α → β) (ls : List α) (hf : ∀ l ∈ ls, f l = .ok (h l)) :
    ls.mapM f = .ok (ls.map h) := by
  induction ls with
  | nil => rfl
  | cons l ls ih =>
    have ih := ih (fun m hm => hf m (List.mem_cons_of_mem _ hm))
    rw [List.mapM_cons, hf l (List.mem_cons_self ..), ih]
    rfl

theorem mapM_error {α β ε : Type} (f : α → Except ε β) (h : α → β) (pre : List α) (l : α) (post : List α) (e : ε)
    (hpre : ∀ m ∈ pre, f m = .ok (h m)) (hl : f l = .error e) :
    (pre ++ l :: post).mapM f = .error e := by
  induction pre with
  | nil => rw [List.nil_append, List.mapM_cons, hl]; rfl
  | cons m pre ih =>
    have ih := ih (fun x hx => hpre x (List.mem_cons_of_mem _ hx))
    rw [List.cons_append, List.mapM_cons, hpre m (List.mem_cons_self ..), ih]
    rfl

end Gaftools.Proofs.TextLayer
