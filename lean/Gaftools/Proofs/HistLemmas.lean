import Gaftools.Proofs.GfaLemmas
import Gaftools.Model.Hist
import Gaftools.Model.Algo
/-!
# Lemmas for the edit histories (C15): neighbours, removal of edges and nodes, the history invariant
-/
namespace Gaftools.Proofs.Hist
open Gaftools.Gfa Gaftools.Hist Gaftools.Proofs.Gfa

/-! ## `sortStrings`, `neighbors` -/

theorem mem_insertSorted (x y : String) (l : List String) : y ∈ insertSorted x l ↔ y = x ∨ y ∈ l := by
  induction l with
  | nil => simp [insertSorted]
  | cons z zs ih =>
    simp only [insertSorted]
    split
    · simp
    · simp only [List.mem_cons, ih]
      exact or_left_comm

theorem mem_sortStrings (y : String) (l : List String) : y ∈ sortStrings l ↔ y ∈ l := by
  induction l with
  | nil => simp [sortStrings]
  | cons x xs ih =>
    have : sortStrings (x :: xs) = insertSorted x (sortStrings xs) := rfl
    rw [this, mem_insertSorted, ih, List.mem_cons]

theorem mem_neighbors (g : Graph) (a b : String) :
    b ∈ g.neighbors a ↔ ∃ s sm ov, (b, sm, ov) ∈ g.adj a s := by
  unfold Graph.neighbors Graph.adj
  cases g.find a with
  | none => simp
  | some n =>
    simp only [Node.neighbors, mem_sortStrings, List.mem_append, List.mem_map]
    constructor
    · rintro (⟨⟨b', sm, ov⟩, h, rfl⟩ | ⟨⟨b', sm, ov⟩, h, rfl⟩)
      · exact ⟨false, sm, ov, by simpa using h⟩
      · exact ⟨true, sm, ov, by simpa using h⟩
    · rintro ⟨s, sm, ov, h⟩
      cases s
      · exact Or.inl ⟨(b, sm, ov), by simpa using h, rfl⟩
      · exact Or.inr ⟨(b, sm, ov), by simpa using h, rfl⟩

theorem neighbors_of_not_has (g : Graph) (a : String) (h : g.has a = false) : g.neighbors a = [] := by
  have := find_isSome g a
  rw [h] at this
  unfold Graph.neighbors
  cases hf : g.find a with
  | none => rfl
  | some n => simp [hf] at this

theorem adj_of_not_has (g : Graph) (a : String) (s : Bool) (h : g.has a = false) : g.adj a s = [] := by
  have := find_isSome g a
  rw [h] at this
  unfold Graph.adj
  cases hf : g.find a with
  | none => rfl
  | some n => simp [hf] at this

theorem Contrib_symm (l : LinkLine) (n : String) (s : Bool) (m : String) (sm : Bool) (ov : Nat) :
    Contrib l n s (m, sm, ov) ↔ Contrib l m sm (n, s, ov) := by
  unfold Contrib
  simp only [Prod.mk.injEq]
  constructor
  · rintro (⟨h1, h2, h3, h4, h5⟩ | ⟨h1, h2, h3, h4, h5⟩)
    · exact Or.inr ⟨h3, h4, h1, h2, h5⟩
    · exact Or.inl ⟨h3, h4, h1, h2, h5⟩
  · rintro (⟨h1, h2, h3, h4, h5⟩ | ⟨h1, h2, h3, h4, h5⟩)
    · exact Or.inr ⟨h3, h4, h1, h2, h5⟩
    · exact Or.inl ⟨h3, h4, h1, h2, h5⟩

theorem Contrib_ends {l : LinkLine} {n : String} {s : Bool} {x : Adj} (h : Contrib l n s x) :
    (n = l.a ∧ x.1 = l.b) ∨ (n = l.b ∧ x.1 = l.a) := by
  rcases h with ⟨h1, _, rfl⟩ | ⟨h1, _, rfl⟩
  · exact Or.inl ⟨h1, rfl⟩
  · exact Or.inr ⟨h1, rfl⟩

/-! ## `addNode` -/

theorem ids_addNode (g : Graph) (s : SegLine) (lm : Bool) :
    ids (addNode g s lm) = if g.has s.id then ids g else ids g ++ [s.id] := by
  unfold addNode
  split <;> simp [ids]

theorem adj_addNode (g : Graph) (sg : SegLine) (lm : Bool) (n : String) (s : Bool) :
    (addNode g sg lm).adj n s = g.adj n s := by
  unfold addNode
  split
  · rfl
  · rw [adj_eq, adj_eq]
    simp only [Graph.find, List.find?_append]
    cases hf : g.nodes.find? (·.id == n) with
    | some nd => simp
    | none =>
      simp only [Option.none_or, List.find?_cons, List.find?_nil]
      cases sg.id == n
      · rfl
      · cases s <;> rfl

theorem ids_foldl_addNode (segs : List SegLine) (lm : Bool) (g : Graph)
    (h : (ids g ++ segs.map (·.id)).Nodup) :
    ids (segs.foldl (fun g s => addNode g s lm) g) = ids g ++ segs.map (·.id) := by
  induction segs generalizing g with
  | nil => simp
  | cons s segs ih =>
    have hnot : g.has s.id = false := by
      rw [Bool.eq_false_iff]
      intro hh
      rw [has_iff_mem] at hh
      rw [List.nodup_append] at h
      exact h.2.2 _ hh _ (by simp) rfl
    have hids : ids (addNode g s lm) = ids g ++ [s.id] := by rw [ids_addNode, hnot]; simp
    rw [List.foldl_cons, ih]
    · rw [hids]; simp
    · rw [hids]; simpa using h

/-! ## `removeEdge` -/

/-- what `removeAdj` does to one node -/
def delUpd (id : String) (side : Bool) (e : Adj) (n : Node) : Node :=
  if n.id == id then
    (if side then { n with endAdj := n.endAdj.filter (· != e) } else { n with startAdj := n.startAdj.filter (· != e) }) else n

theorem removeAdj_eq_map (ns : List Node) (id : String) (side : Bool) (e : Adj) :
    removeAdj ns id side e = ns.map (delUpd id side e) := rfl

@[simp] theorem delUpd_id (id : String) (side : Bool) (e : Adj) (n : Node) : (delUpd id side e n).id = n.id := by
  unfold delUpd; split
  · split <;> rfl
  · rfl

theorem find?_removeAdj (ns : List Node) (id' : String) (side : Bool) (e : Adj) (id : String) :
    (removeAdj ns id' side e).find? (·.id == id) = (ns.find? (·.id == id)).map (delUpd id' side e) := by
  rw [removeAdj_eq_map, List.find?_map]
  congr 2
  funext n; simp

theorem find_removeEdge (g : Graph) (n1 : String) (s1 : Bool) (n2 : String) (s2 : Bool) (ov : Nat) (id : String) :
    (removeEdge g n1 s1 n2 s2 ov).find id =
      ((g.find id).map (delUpd n1 s1 (n2, s2, ov))).map (delUpd n2 s2 (n1, s1, ov)) := by
  simp only [Graph.find, removeEdge, find?_removeAdj]

theorem mem_adj_delUpd (id' : String) (side' : Bool) (e : Adj) (n : Node) (side : Bool) (x : Adj) :
    x ∈ Node.adj (delUpd id' side' e n) side ↔ x ∈ Node.adj n side ∧ ¬ (n.id = id' ∧ side = side' ∧ x = e) := by
  unfold delUpd Node.adj
  by_cases hid : n.id = id'
  · cases side <;> cases side' <;> simp [hid]
  · simp [hid]

theorem map_id_removeAdj (ns : List Node) (id : String) (side : Bool) (e : Adj) :
    (removeAdj ns id side e).map (·.id) = ns.map (·.id) := by
  rw [removeAdj_eq_map, List.map_map]
  apply List.map_congr_left
  intro n _
  simp

theorem ids_removeEdge (g : Graph) (n1 : String) (s1 : Bool) (n2 : String) (s2 : Bool) (ov : Nat) :
    ids (removeEdge g n1 s1 n2 s2 ov) = ids g := by
  simp [ids, removeEdge, map_id_removeAdj]

theorem mem_adj_removeEdge (g : Graph) (n1 : String) (s1 : Bool) (n2 : String) (s2 : Bool) (ov : Nat)
    (n : String) (s : Bool) (x : Adj) :
    x ∈ (removeEdge g n1 s1 n2 s2 ov).adj n s ↔
      x ∈ g.adj n s ∧ ¬ (n = n1 ∧ s = s1 ∧ x = (n2, s2, ov)) ∧ ¬ (n = n2 ∧ s = s2 ∧ x = (n1, s1, ov)) := by
  rw [adj_eq, adj_eq, find_removeEdge]
  cases hf : g.find n with
  | none => simp
  | some nd =>
    have hid := find_id hf
    simp only [Option.map_some, mem_adj_delUpd, delUpd_id, hid, and_assoc]

/-- removing all the edges of one side of node `id` -/
def delSide (id : String) (side : Bool) (es : List Adj) (g : Graph) : Graph :=
  es.foldl (fun g e => removeEdge g id side e.1 e.2.1 e.2.2) g

theorem ids_delSide (id : String) (side : Bool) (es : List Adj) (g : Graph) : ids (delSide id side es g) = ids g := by
  unfold delSide
  induction es generalizing g with
  | nil => rfl
  | cons e es ih => rw [List.foldl_cons, ih, ids_removeEdge]

theorem mem_adj_delSide (id : String) (side : Bool) (es : List Adj) (g : Graph) (n : String) (s : Bool) (x : Adj) :
    x ∈ (delSide id side es g).adj n s ↔
      x ∈ g.adj n s ∧ ∀ e ∈ es, ¬ (n = id ∧ s = side ∧ x = e) ∧ ¬ (n = e.1 ∧ s = e.2.1 ∧ x = (id, side, e.2.2)) := by
  unfold delSide
  induction es generalizing g with
  | nil => simp
  | cons e es ih =>
    rw [List.foldl_cons, ih, mem_adj_removeEdge]
    simp only [List.mem_cons, forall_eq_or_imp, and_assoc]

/-! ## `removeNode` -/

/-- adjacency is symmetric between the two ends of every link -/
def Sym (g : Graph) : Prop :=
  ∀ n s m sm ov, (m, sm, ov) ∈ g.adj n s → (n, s, ov) ∈ g.adj m sm

theorem removeNode_eq (g : Graph) (id : String) :
    removeNode g id =
      let g1 := delSide id false (g.adj id false) g
      let g2 := delSide id true (g1.adj id true) g1
      { g2 with nodes := g2.nodes.filter (·.id != id) } := rfl

theorem ids_removeNode (g : Graph) (id : String) : ids (removeNode g id) = (ids g).filter (· != id) := by
  rw [removeNode_eq]
  have h : ids (delSide id true ((delSide id false (g.adj id false) g).adj id true) (delSide id false (g.adj id false) g))
      = ids g := by rw [ids_delSide, ids_delSide]
  rw [← h]
  simp only [ids]
  rw [List.filter_map]
  rfl

theorem adj_filter_ne (g : Graph) (id : String) (n : String) (s : Bool) :
    ({ g with nodes := g.nodes.filter (·.id != id) } : Graph).adj n s = if n = id then [] else g.adj n s := by
  rw [adj_eq, adj_eq]
  simp only [Graph.find, List.find?_filter]
  by_cases h : n = id
  · subst h
    have : g.nodes.find? (fun a => (a.id != n) && (a.id == n)) = none := by
      rw [List.find?_eq_none]
      intro a _
      by_cases ha : a.id = n <;> simp [ha]
    rw [if_pos rfl]
    simp only [Bool.decide_and, Bool.decide_eq_true, this]
  · have : (fun a : Node => (a.id != id) && (a.id == n)) = (fun a : Node => a.id == n) := by
      funext a
      by_cases ha : a.id = n
      · subst ha; simp [h]
      · simp [ha]
    rw [if_neg h]
    simp only [Bool.decide_and, Bool.decide_eq_true, this]

theorem mem_adj_removeNode (g : Graph) (hsym : Sym g) (id : String) (n : String) (s : Bool) (x : Adj) :
    x ∈ (removeNode g id).adj n s ↔ n ≠ id ∧ x.1 ≠ id ∧ x ∈ g.adj n s := by
  rw [removeNode_eq]
  simp only []
  rw [adj_filter_ne]
  by_cases hn : n = id
  · simp [hn]
  · rw [if_neg hn, mem_adj_delSide, mem_adj_delSide]
    constructor
    · rintro ⟨⟨hx, h1⟩, h2⟩
      refine ⟨hn, ?_, hx⟩
      intro hxid
      obtain ⟨m, sm, ov⟩ := x
      simp only at hxid
      subst hxid
      have hmir := hsym _ _ _ _ _ hx
      cases sm
      · exact (h1 _ hmir).2 ⟨rfl, rfl, rfl⟩
      · have hmir1 : (n, s, ov) ∈ (delSide m false (g.adj m false) g).adj m true := by
          rw [mem_adj_delSide]
          refine ⟨hmir, ?_⟩
          intro e _
          constructor
          · rintro ⟨_, h, _⟩; exact Bool.noConfusion h
          · rintro ⟨_, _, h⟩
            simp only [Prod.mk.injEq] at h
            exact hn h.1
        exact (h2 _ hmir1).2 ⟨rfl, rfl, rfl⟩
    · rintro ⟨_, hx1, hx⟩
      refine ⟨⟨hx, ?_⟩, ?_⟩
      · intro e _
        constructor
        · rintro ⟨h, _⟩; exact hn h
        · rintro ⟨_, _, h⟩; exact hx1 (by rw [h])
      · intro e _
        constructor
        · rintro ⟨h, _⟩; exact hn h
        · rintro ⟨_, _, h⟩; exact hx1 (by rw [h])

/-! ## the history invariant -/

/-- the library graph `g` and the abstract state `st` (surviving ids, surviving links) describe the same graph -/
structure Inv (g : Graph) (st : List String × List LinkLine) : Prop where
  ids_eq : ids g = st.1
  nodup : st.1.Nodup
  closed : ∀ l ∈ st.2, l.a ∈ st.1 ∧ l.b ∈ st.1
  adj : ∀ n s x, x ∈ g.adj n s ↔ ∃ l ∈ st.2, Contrib l n s x

theorem Inv.sym {g st} (h : Inv g st) : Sym g := by
  intro n s m sm ov hx
  rw [h.adj] at hx ⊢
  obtain ⟨l, hl, hc⟩ := hx
  exact ⟨l, hl, (Contrib_symm l n s m sm ov).mp hc⟩

theorem Inv.has {g st} (h : Inv g st) (id : String) : g.has id = st.1.contains id := by
  rw [Bool.eq_iff_iff, has_iff_mem, h.ids_eq]
  simp

theorem Inv.empty : Inv Graph.empty ([], []) where
  ids_eq := rfl
  nodup := List.nodup_nil
  closed := by simp
  adj := by intro n s x; simp [Graph.adj, Graph.find, Graph.empty]

theorem Inv.addNode {g st} (h : Inv g st) (id : String) :
    Inv (applyOp g (.addNode id)) (survStep st (.addNode id)) := by
  simp only [applyOp, survStep]
  by_cases hc : st.1.contains id = true
  · have hg : g.has id = true := by rw [h.has]; exact hc
    rw [if_pos hc]
    have : Gaftools.Gfa.addNode g ⟨id, "", []⟩ false = g := by simp [Gaftools.Gfa.addNode, hg]
    rw [this]
    exact h
  · have hg : g.has id = false := by rw [h.has]; simpa using hc
    rw [if_neg hc]
    have hni : id ∉ st.1 := by simpa using hc
    refine ⟨?_, ?_, ?_, ?_⟩
    · rw [ids_addNode]; simp [hg, h.ids_eq]
    · simp only
      rw [List.nodup_append]
      refine ⟨h.nodup, by simp, ?_⟩
      intro a ha b hb hab
      simp only [List.mem_singleton] at hb
      subst hb; subst hab
      exact hni ha
    · intro l hl
      have := h.closed l hl
      simp only [List.mem_append]
      exact ⟨Or.inl this.1, Or.inl this.2⟩
    · intro n s x
      rw [adj_addNode]
      exact h.adj n s x

theorem Inv.addLink {g st} (h : Inv g st) (l : LinkLine) :
    Inv (applyOp g (.addLink l)) (survStep st (.addLink l)) := by
  simp only [applyOp, survStep, h.has]
  by_cases hc : (st.1.contains l.a && st.1.contains l.b) = true
  · rw [if_pos hc, if_pos hc]
    have hab : l.a ∈ st.1 ∧ l.b ∈ st.1 := by simpa using hc
    refine ⟨?_, h.nodup, ?_, ?_⟩
    · rw [ids_addEdge]; exact h.ids_eq
    · intro l' hl'
      simp only [List.mem_append, List.mem_singleton] at hl'
      rcases hl' with hl' | rfl
      · exact h.closed l' hl'
      · exact hab
    · intro n s x
      rw [mem_adj_addEdge, h.adj]
      simp only [List.mem_append, List.mem_singleton]
      constructor
      · rintro (⟨l', hl', hc'⟩ | ⟨_, hc'⟩)
        · exact ⟨l', Or.inl hl', hc'⟩
        · exact ⟨l, Or.inr rfl, hc'⟩
      · rintro ⟨l', hl' | rfl, hc'⟩
        · exact Or.inl ⟨l', hl', hc'⟩
        · refine Or.inr ⟨?_, hc'⟩
          rw [has_iff_mem, h.ids_eq]
          rcases hc' with ⟨rfl, _⟩ | ⟨rfl, _⟩
          · exact hab.1
          · exact hab.2
  · rw [if_neg hc, if_neg hc]
    exact h

theorem Inv.delNode {g st} (h : Inv g st) (id : String) :
    Inv (applyOp g (.delNode id)) (survStep st (.delNode id)) := by
  simp only [applyOp, survStep]
  have hclosed : ∀ l ∈ st.2.filter (fun l => l.a != id && l.b != id),
      l.a ∈ st.1.filter (· != id) ∧ l.b ∈ st.1.filter (· != id) := by
    intro l hl
    simp only [List.mem_filter, Bool.and_eq_true, bne_iff_ne, ne_eq] at hl ⊢
    have := h.closed l hl.1
    exact ⟨⟨this.1, hl.2.1⟩, ⟨this.2, hl.2.2⟩⟩
  have hadj : ∀ n s x, (n ≠ id ∧ x.1 ≠ id ∧ x ∈ g.adj n s) ↔
      ∃ l ∈ st.2.filter (fun l => l.a != id && l.b != id), Contrib l n s x := by
    intro n s x
    rw [h.adj]
    simp only [List.mem_filter, Bool.and_eq_true, bne_iff_ne, ne_eq]
    constructor
    · rintro ⟨hn, hx, l, hl, hc⟩
      refine ⟨l, ⟨hl, ?_⟩, hc⟩
      rcases Contrib_ends hc with ⟨h1, h2⟩ | ⟨h1, h2⟩
      · exact ⟨h1 ▸ hn, h2 ▸ hx⟩
      · exact ⟨h2 ▸ hx, h1 ▸ hn⟩
    · rintro ⟨l, ⟨hl, ha, hb⟩, hc⟩
      rcases Contrib_ends hc with ⟨h1, h2⟩ | ⟨h1, h2⟩
      · exact ⟨h1 ▸ ha, h2 ▸ hb, l, hl, hc⟩
      · exact ⟨h1 ▸ hb, h2 ▸ ha, l, hl, hc⟩
  by_cases hc : g.has id = true
  · rw [if_pos hc]
    refine ⟨?_, h.nodup.filter _, hclosed, ?_⟩
    · rw [ids_removeNode, h.ids_eq]
    · intro n s x
      rw [mem_adj_removeNode g h.sym, hadj]
  · rw [if_neg hc]
    have hni : id ∉ st.1 := by
      rw [← h.ids_eq, ← has_iff_mem]; exact hc
    refine ⟨?_, h.nodup.filter _, hclosed, ?_⟩
    · rw [h.ids_eq]
      symm
      rw [List.filter_eq_self]
      intro a ha
      simp only [bne_iff_ne, ne_eq]
      rintro rfl
      exact hni ha
    · intro n s x
      rw [← hadj]
      constructor
      · intro hx
        obtain ⟨l, hl, hc'⟩ := (h.adj n s x).mp hx
        have hcl := h.closed l hl
        rcases Contrib_ends hc' with ⟨h1, h2⟩ | ⟨h1, h2⟩
        · refine ⟨?_, ?_, hx⟩
          · rintro rfl; exact hni (h1 ▸ hcl.1)
          · intro h3; exact hni (h3 ▸ h2 ▸ hcl.2)
        · refine ⟨?_, ?_, hx⟩
          · rintro rfl; exact hni (h1 ▸ hcl.2)
          · intro h3; exact hni (h3 ▸ h2 ▸ hcl.1)
      · exact fun hx => hx.2.2

theorem Inv.step {g st} (h : Inv g st) (op : Op) : Inv (applyOp g op) (survStep st op) := by
  cases op with
  | addNode id => exact h.addNode id
  | addLink l => exact h.addLink l
  | delNode id => exact h.delNode id

theorem inv_foldl (ops : List Op) {g st} (h : Inv g st) : Inv (ops.foldl applyOp g) (ops.foldl survStep st) := by
  induction ops generalizing g st with
  | nil => exact h
  | cons op ops ih => exact ih (h.step op)

theorem inv_history (ops : List Op) : Inv (applyOps ops) (survivors ops) := inv_foldl ops Inv.empty

/-! ## the graph built directly from the abstract state -/

theorem any_build_segs (ids : List String) (id : String) :
    (ids.map (fun id => (⟨id, "", []⟩ : SegLine))).any (·.id == id) = true ↔ id ∈ ids := by
  rw [List.any_eq_true]
  constructor
  · rintro ⟨sg, hs, he⟩
    rw [List.mem_map] at hs
    obtain ⟨i, hi, rfl⟩ := hs
    have : i = id := by simpa using he
    exact this ▸ hi
  · intro h
    exact ⟨⟨id, "", []⟩, List.mem_map.mpr ⟨id, h, rfl⟩, by simp⟩

theorem ids_build (st : List String × List LinkLine) (h : st.1.Nodup) : ids (build st) = st.1 := by
  unfold build
  rw [readGraph_eq, ids_foldl_linkStep, segGraph, ids_foldl_addNode]
  · simp [ids, Graph.empty, Function.comp_def]
  · simpa [ids, Graph.empty, Function.comp_def] using h

theorem mem_adj_build (st : List String × List LinkLine) (n : String) (s : Bool) (x : Adj) :
    x ∈ (build st).adj n s ↔ ∃ l ∈ st.2, l.a ∈ st.1 ∧ l.b ∈ st.1 ∧ Contrib l n s x := by
  unfold build
  rw [mem_adj_readGraph]
  simp only [any_build_segs]

end Gaftools.Proofs.Hist
