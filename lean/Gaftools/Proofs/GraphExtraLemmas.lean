import Gaftools.Model.GraphExtra
import Gaftools.Proofs.HistLemmas
/-!
# Lemmas for `Props/C15Extra.lean` (the helpers of `gfa.py` modelled in `Model/GraphExtra.lean`)
-/
namespace Gaftools.Proofs.GraphExtra
open Gaftools.Gfa Gaftools.View Gaftools.GraphExtra Gaftools.Proofs.Gfa Gaftools.Proofs.Hist

/-- the ids of a graph are pairwise different (what a Python dict guarantees for `GFA.nodes`) -/
def NodupIds (g : Graph) : Prop := (g.nodes.map (·.id)).Nodup

/-! ## `find` in a graph with unique ids -/

theorem find?_of_mem_nodup {ns : List Node} (h : (ns.map (·.id)).Nodup) {n : Node} (hn : n ∈ ns) :
    ns.find? (·.id == n.id) = some n := by
  induction ns with
  | nil => cases hn
  | cons m ms ih =>
    simp only [List.map_cons, List.nodup_cons] at h
    rcases List.mem_cons.mp hn with rfl | hn'
    · simp
    · have hne : m.id ≠ n.id := by
        intro he; exact h.1 (he ▸ List.mem_map.mpr ⟨n, hn', rfl⟩)
      rw [List.find?_cons_of_neg (by simpa using hne)]
      exact ih h.2 hn'

theorem find_of_mem {g : Graph} (h : NodupIds g) {n : Node} (hn : n ∈ g.nodes) : g.find n.id = some n :=
  find?_of_mem_nodup h hn

theorem mem_of_find {g : Graph} {id : String} {n : Node} (h : g.find id = some n) : n ∈ g.nodes := by
  unfold Graph.find at h; exact List.mem_of_find?_eq_some h

theorem find_none_iff (g : Graph) (id : String) : g.find id = none ↔ g.has id = false := by
  have := find_isSome g id
  cases hf : g.find id <;> simp [hf] at this ⊢ <;> simp [← this]

theorem has_of_find {g : Graph} {id : String} {n : Node} (h : g.find id = some n) : g.has id = true := by
  have := find_isSome g id; rw [h] at this; simpa using this.symm

/-! ## `sideOf`, `children`, `inDirection` -/

theorem sideOf_zero : sideOf 0 = .ok false := rfl
theorem sideOf_one : sideOf 1 = .ok true := rfl

theorem sideOf_ok_iff (d : Int) (s : Bool) : sideOf d = .ok s ↔ (d = 0 ∧ s = false) ∨ (d = 1 ∧ s = true) := by
  unfold sideOf
  by_cases h0 : d = 0
  · subst h0; simp [eq_comm]
  · by_cases h1 : d = 1
    · subst h1; simp [eq_comm]
    · simp [h0, h1]

theorem sideOf_error_iff (d : Int) (e : PyErr) : sideOf d = .error e ↔ e = .valueError ∧ d ≠ 0 ∧ d ≠ 1 := by
  unfold sideOf
  by_cases h0 : d = 0
  · subst h0; simp
  · by_cases h1 : d = 1
    · subst h1; simp
    · simp [h0, h1]; exact eq_comm

theorem inDirection_one (n : Node) (o : String) : n.inDirection o 1 = .ok ((n.endAdj.map (·.1)).contains o) := rfl
theorem inDirection_zero (n : Node) (o : String) : n.inDirection o 0 = .ok ((n.startAdj.map (·.1)).contains o) := rfl

/-! ## consecutive pairs of a list -/

theorem pairs_cons {α} (R : α → α → Prop) (p c : α) (r : List α) :
    (∀ i (h : i + 1 < (p :: c :: r).length), R ((p :: c :: r)[i]) ((p :: c :: r)[i + 1])) ↔
    R p c ∧ ∀ i (h : i + 1 < (c :: r).length), R ((c :: r)[i]) ((c :: r)[i + 1]) := by
  constructor
  · intro H
    refine ⟨H 0 (by simp), fun i h => ?_⟩
    have := H (i + 1) (by simp at h ⊢; omega)
    simpa using this
  · rintro ⟨h0, H⟩ i h
    cases i with
    | zero => simpa using h0
    | succ j =>
      have := H j (by simp at h ⊢; omega)
      simpa using this

/-! ## `listIsPath` -/

theorem listIsPath_true_iff (g : Graph) (l : List String) :
    listIsPath g l = .ok true ↔ ∀ i (h : i + 1 < l.length), l[i + 1] ∈ g.neighbors l[i] := by
  induction l with
  | nil => simp [listIsPath]
  | cons p rest ih =>
    cases rest with
    | nil => simp [listIsPath]
    | cons c r =>
      rw [pairs_cons (fun a b => b ∈ g.neighbors a), ← ih]
      rw [listIsPath]
      unfold Graph.neighbors
      cases hf : g.find p with
      | none => simp
      | some n =>
        by_cases hc : n.neighbors.contains c = true
        · simp only [hc, if_true]
          have : c ∈ n.neighbors := by simpa using hc
          simp [this]
        · simp only [hc]
          have : c ∉ n.neighbors := by simpa using hc
          simp [this]

theorem listIsPath_error (g : Graph) (l : List String) (e : PyErr) (h : listIsPath g l = .error e) :
    e = .keyError ∧ ∃ i, ∃ _ : i + 1 < l.length, g.has l[i] = false := by
  induction l with
  | nil => simp [listIsPath] at h
  | cons p rest ih =>
    cases rest with
    | nil => simp [listIsPath] at h
    | cons c r =>
      rw [listIsPath] at h
      cases hf : g.find p with
      | none =>
        rw [hf] at h
        simp at h
        exact ⟨h.symm, 0, by simp, by simpa using (find_none_iff g p).mp hf⟩
      | some n =>
        rw [hf] at h
        by_cases hc : n.neighbors.contains c = true
        · simp only [hc, if_true] at h
          obtain ⟨he, i, hi, hh⟩ := ih h
          exact ⟨he, i + 1, by simp at hi ⊢; omega, by simpa using hh⟩
        · have hc' : ¬ (c ∈ n.neighbors) := by simpa using hc
          simp [hc'] at h

theorem listIsPath_total (g : Graph) (l : List String) (h : ∀ i, ∀ _ : i + 1 < l.length, g.has l[i] = true) :
    ∃ b, listIsPath g l = .ok b := by
  cases hl : listIsPath g l with
  | ok b => exact ⟨b, rfl⟩
  | error e =>
    obtain ⟨_, i, hi, hh⟩ := listIsPath_error g l e hl
    rw [h i hi] at hh; cases hh

/-! ## `return_gfa_path` -/

/-- what one entry `(id, sign)` of `return_gfa_path` says about node `cur` judged against its neighbour in the list `other`:
    `cur` is a node; the sign is `+` exactly when `other` is linked on side `plusSide` of `cur`, and a `-` means it is linked
    on the opposite side (and not on `plusSide`) -/
def OrientSpec (g : Graph) (cur other : String) (plusSide : Bool) (e : String × Bool) : Prop :=
  ∃ n, g.find cur = some n ∧ e.1 = cur ∧
    (e.2 = true ↔ other ∈ (n.side plusSide).map (·.1)) ∧ (e.2 = false → other ∈ (n.side (!plusSide)).map (·.1))

theorem orient_end_ok_iff (g : Graph) (cur other : String) (e : String × Bool) :
    orient g cur other 1 0 = .ok e ↔ OrientSpec g cur other true e := by
  unfold orient OrientSpec
  cases hf : g.find cur with
  | none => simp
  | some n =>
    simp only [inDirection_one, inDirection_zero, bind, Except.bind, pure, Except.pure, Node.side]
    by_cases h1 : (n.endAdj.map (·.1)).contains other = true
    · have h1' : other ∈ n.endAdj.map (·.1) := by simpa using h1
      simp only [h1, if_true]
      constructor
      · intro h; cases h; exact ⟨n, rfl, rfl, by simpa using h1', by simp⟩
      · rintro ⟨m, hm, he1, he2, _⟩
        cases hm
        have : e.2 = true := he2.mpr (by simpa using h1')
        cases e; simp_all
    · have h1' : other ∉ n.endAdj.map (·.1) := by simpa using h1
      simp only [h1]
      by_cases h0 : (n.startAdj.map (·.1)).contains other = true
      · have h0' : other ∈ n.startAdj.map (·.1) := by simpa using h0
        simp only [h0, if_true]
        constructor
        · intro h; cases h
          exact ⟨n, rfl, rfl, by simpa using h1', fun _ => by simpa using h0'⟩
        · rintro ⟨m, hm, he1, he2, _⟩
          cases hm
          have : e.2 = false := by
            cases h2 : e.2 with
            | false => rfl
            | true => exact absurd (he2.mp h2) (by simpa using h1')
          cases e; simp_all
      · have h0' : other ∉ n.startAdj.map (·.1) := by simpa using h0
        simp only [h0]
        constructor
        · intro h; simp at h
        · rintro ⟨m, hm, he1, he2, he3⟩
          cases hm
          cases h2 : e.2 with
          | false => exact absurd (he3 h2) (by simpa using h0')
          | true => exact absurd (he2.mp h2) (by simpa using h1')

theorem orient_start_ok_iff (g : Graph) (cur other : String) (e : String × Bool) :
    orient g cur other 0 1 = .ok e ↔ OrientSpec g cur other false e := by
  unfold orient OrientSpec
  cases hf : g.find cur with
  | none => simp
  | some n =>
    simp only [inDirection_one, inDirection_zero, bind, Except.bind, pure, Except.pure, Node.side]
    by_cases h1 : (n.startAdj.map (·.1)).contains other = true
    · have h1' : other ∈ n.startAdj.map (·.1) := by simpa using h1
      simp only [h1, if_true]
      constructor
      · intro h; cases h; exact ⟨n, rfl, rfl, by simpa using h1', by simp⟩
      · rintro ⟨m, hm, he1, he2, _⟩
        cases hm
        have : e.2 = true := he2.mpr (by simpa using h1')
        cases e; simp_all
    · have h1' : other ∉ n.startAdj.map (·.1) := by simpa using h1
      simp only [h1]
      by_cases h0 : (n.endAdj.map (·.1)).contains other = true
      · have h0' : other ∈ n.endAdj.map (·.1) := by simpa using h0
        simp only [h0, if_true]
        constructor
        · intro h; cases h
          exact ⟨n, rfl, rfl, by simpa using h1', fun _ => by simpa using h0'⟩
        · rintro ⟨m, hm, he1, he2, _⟩
          cases hm
          have : e.2 = false := by
            cases h2 : e.2 with
            | false => rfl
            | true => exact absurd (he2.mp h2) (by simpa using h1')
          cases e; simp_all
      · have h0' : other ∉ n.endAdj.map (·.1) := by simpa using h0
        simp only [h0]
        constructor
        · intro h; simp at h
        · rintro ⟨m, hm, he1, he2, he3⟩
          cases hm
          cases h2 : e.2 with
          | false => exact absurd (he3 h2) (by simpa using h0')
          | true => exact absurd (he2.mp h2) (by simpa using h1')


theorem orient_error_iff (g : Graph) (cur other : String) (d1 d2 : Int) (hd : (d1 = 1 ∧ d2 = 0) ∨ (d1 = 0 ∧ d2 = 1)) (err : PyErr) :
    orient g cur other d1 d2 = .error err ↔
      (g.has cur = false ∧ err = .keyError) ∨
      (∃ n, g.find cur = some n ∧ other ∉ n.startAdj.map (·.1) ∧ other ∉ n.endAdj.map (·.1) ∧ err = .valueError) := by
  unfold orient
  cases hf : g.find cur with
  | none =>
    have := (find_none_iff g cur).mp hf
    simp [this, eq_comm]
  | some n =>
    have hh := has_of_find hf
    rcases hd with ⟨rfl, rfl⟩ | ⟨rfl, rfl⟩ <;>
    · simp only [inDirection_one, inDirection_zero, bind, Except.bind, pure, Except.pure, hh, Option.some.injEq,
        exists_eq_left']
      generalize n.endAdj.map (·.1) = A
      generalize n.startAdj.map (·.1) = B
      by_cases h1 : A.contains other = true <;>
      by_cases h0 : B.contains other = true <;>
      · have h1' := h1
        have h0' := h0
        simp only [List.contains_iff_mem] at h1' h0'
        simp [h1', h0', eq_comm]

/-- the loop of `return_gfa_path`: one entry per node but the last, each judged against the next node, end side = `+` -/
theorem gfaPathBody_ok (g : Graph) (l : List String) (r : List (String × Bool)) (h : gfaPathBody g l = .ok r) :
    r.length = l.length - 1 ∧
    ∀ i (hi : i + 1 < l.length) (hr : i < r.length), OrientSpec g l[i] l[i + 1] true r[i] := by
  induction l generalizing r with
  | nil => simp [gfaPathBody] at h; subst h; simp
  | cons a rest ih =>
    cases rest with
    | nil => simp [gfaPathBody] at h; subst h; simp
    | cons b t =>
      rw [gfaPathBody] at h
      cases ho : orient g a b 1 0 with
      | error e => rw [ho] at h; simp [bind, Except.bind] at h
      | ok e =>
        cases hb : gfaPathBody g (b :: t) with
        | error e' => rw [ho, hb] at h; simp [bind, Except.bind] at h
        | ok r' =>
          rw [ho, hb] at h
          simp [bind, Except.bind, pure, Except.pure] at h
          subst h
          obtain ⟨hlen, hspec⟩ := ih r' hb
          refine ⟨by simp at hlen ⊢; omega, ?_⟩
          intro i hi hr
          cases i with
          | zero => simpa using (orient_end_ok_iff g a b e).mp ho
          | succ j =>
            have := hspec j (by simp at hi ⊢; omega) (by simp at hr; omega)
            simpa using this

theorem gfaPathLast_eq (g : Graph) (l : List String) (h : 2 ≤ l.length) :
    gfaPathLast g l = orient g (l[l.length - 1]) (l[l.length - 2]) 0 1 := by
  unfold gfaPathLast
  rcases hr : l.reverse with _ | ⟨last, _ | ⟨prev, t⟩⟩
  · have := congrArg List.length hr; simp only [List.length_reverse, List.length_nil] at this; omega
  · have := congrArg List.length hr; simp only [List.length_reverse, List.length_cons, List.length_nil] at this; omega
  · have hl : l = t.reverse ++ [prev, last] := by
      have := congrArg List.reverse hr; simpa using this
    subst hl
    simp

theorem gfaPathLast_short (g : Graph) (l : List String) (h : l.length < 2) :
    gfaPathLast g l = .error (match l with | [a] => if g.has a then .indexError else .keyError | _ => .indexError) := by
  match l, h with
  | [], _ => rfl
  | [a], _ =>
    simp only [gfaPathLast, List.reverse_cons, List.reverse_nil, List.nil_append]
    cases hf : g.find a with
    | none => simp [(find_none_iff g a).mp hf]
    | some n => simp [has_of_find hf]

theorem gfaPathBody_error (g : Graph) (l : List String) (e : PyErr) (h : gfaPathBody g l = .error e) :
    ∃ i, ∃ _ : i + 1 < l.length, orient g l[i] l[i + 1] 1 0 = .error e := by
  induction l with
  | nil => simp [gfaPathBody] at h
  | cons a rest ih =>
    cases rest with
    | nil => simp [gfaPathBody] at h
    | cons b t =>
      rw [gfaPathBody] at h
      cases ho : orient g a b 1 0 with
      | error e' =>
        rw [ho] at h; simp [bind, Except.bind] at h; subst h
        exact ⟨0, by simp, by simpa using ho⟩
      | ok x =>
        cases hb : gfaPathBody g (b :: t) with
        | error e' =>
          rw [ho, hb] at h; simp [bind, Except.bind] at h; subst h
          obtain ⟨i, hi, hh⟩ := ih hb
          exact ⟨i + 1, by simp at hi ⊢; omega, by simpa using hh⟩
        | ok r' => rw [ho, hb] at h; simp [bind, Except.bind, pure, Except.pure] at h

theorem mem_neighbors_find {g : Graph} {a : String} {n : Node} (hf : g.find a = some n) (o : String) :
    o ∈ g.neighbors a ↔ o ∈ n.startAdj.map (·.1) ∨ o ∈ n.endAdj.map (·.1) := by
  unfold Graph.neighbors
  rw [hf]
  simp only [Node.neighbors, mem_sortStrings, List.mem_append]

/-! ## `remove_lonely_nodes` -/

/-- a node without adjacency entries -/
def Lonely (n : Node) : Bool := n.startAdj.isEmpty && n.endAdj.isEmpty

theorem sortStrings_eq_nil (l : List String) : sortStrings l = [] ↔ l = [] := by
  constructor
  · intro h
    apply List.eq_nil_iff_forall_not_mem.mpr
    intro a ha
    have := (mem_sortStrings a l).mpr ha
    rw [h] at this; cases this
  · intro h; subst h; rfl

theorem neighbors_length_zero (n : Node) : (n.neighbors.length == 0) = Lonely n := by
  rw [Bool.eq_iff_iff]
  simp only [beq_iff_eq, List.length_eq_zero_iff, Node.neighbors, sortStrings_eq_nil, Lonely, Bool.and_eq_true,
    List.isEmpty_iff, List.append_eq_nil_iff, List.map_eq_nil_iff]

theorem lonelyIds_eq (g : Graph) : lonelyIds g = (g.nodes.filter Lonely).map (·.id) := by
  unfold lonelyIds
  congr 1
  apply List.filter_congr
  intro n _; exact neighbors_length_zero n

theorem removeNode_lonely (g : Graph) (id : String) (h : ∀ s, g.adj id s = []) :
    removeNode g id = { g with nodes := g.nodes.filter (·.id != id) } := by
  unfold removeNode
  simp only [h false, List.foldl_nil, h true]

theorem find_filter_ne (g : Graph) (id id' : String) :
    ({ g with nodes := g.nodes.filter (·.id != id) } : Graph).find id' = if id' = id then none else g.find id' := by
  unfold Graph.find
  simp only [List.find?_filter]
  by_cases h : id' = id
  · subst h
    simp only [if_true]
    apply List.find?_eq_none.mpr
    intro n _; simp
  · simp only [h, if_false]
    congr 1
    funext n
    by_cases hn : n.id = id'
    · subst hn; simp [h]
    · simp [hn]

theorem foldl_removeNode_lonely (ids : List String) (g : Graph) (h : ∀ id ∈ ids, ∀ s, g.adj id s = []) :
    ids.foldl removeNode g = { g with nodes := g.nodes.filter (fun n => !ids.contains n.id) } := by
  induction ids generalizing g with
  | nil =>
    cases g
    simp only [List.foldl_nil, List.contains_nil, Bool.not_false]
    congr 1
    exact (List.filter_eq_self.mpr (fun _ _ => rfl)).symm
  | cons id rest ih =>
    rw [List.foldl_cons, removeNode_lonely g id (h id (by simp))]
    rw [ih]
    · simp only [List.filter_filter]
      congr 1
      apply List.filter_congr
      intro n _
      simp only [List.contains_cons, Bool.not_or, bne, Bool.and_comm]
    · intro id' hid' s
      unfold Graph.adj
      rw [find_filter_ne]
      by_cases he : id' = id
      · simp [he]
      · simp only [he, if_false]
        exact h id' (List.mem_cons_of_mem _ hid') s

theorem inj_id_of_nodup {g : Graph} (h : NodupIds g) {a b : Node} (ha : a ∈ g.nodes) (hb : b ∈ g.nodes) (hab : a.id = b.id) :
    a = b := by
  have h1 := find_of_mem h ha
  have h2 := find_of_mem h hb
  rw [hab, h2] at h1
  exact (Option.some.inj h1).symm

theorem removeLonely_eq (x : GFA) (h : NodupIds x.g) :
    x.removeLonely = { x with g := { x.g with nodes := x.g.nodes.filter (fun n => !Lonely n) } } := by
  unfold GFA.removeLonely
  rw [lonelyIds_eq, foldl_removeNode_lonely]
  · congr 2
    apply List.filter_congr
    intro n hn
    congr 1
    rw [Bool.eq_iff_iff]
    simp only [List.contains_iff_mem, List.mem_map, List.mem_filter]
    constructor
    · rintro ⟨m, ⟨hm, hl⟩, hid⟩
      rw [← inj_id_of_nodup h hm hn hid]; exact hl
    · intro hl; exact ⟨n, ⟨hn, hl⟩, rfl⟩
  · intro id hid s
    simp only [List.mem_map, List.mem_filter] at hid
    obtain ⟨n, ⟨hn, hl⟩, rfl⟩ := hid
    unfold Graph.adj
    rw [find_of_mem h hn]
    simp only [Lonely, Bool.and_eq_true, List.isEmpty_iff] at hl
    cases s <;> simp [hl.1, hl.2]

/-! ## `graph_from_comp` -/

theorem copyNode_ok_iff (g : Graph) (id : String) (n : Node) : copyNode g id = .ok n ↔ g.find id = some n := by
  unfold copyNode
  cases hf : g.find id with
  | none => simp
  | some m =>
    have hid := find_id hf
    have : (⟨id, m.seq, m.startAdj, m.endAdj, m.tags⟩ : Node) = m := by cases m; simp at hid ⊢; exact hid.symm
    simp [this]

theorem copyNode_error_iff (g : Graph) (id : String) (e : PyErr) :
    copyNode g id = .error e ↔ e = .attributeError ∧ g.has id = false := by
  unfold copyNode
  cases hf : g.find id with
  | none => simp [(find_none_iff g id).mp hf, eq_comm]
  | some m => simp [has_of_find hf]

/-- invariant of the loop of `graph_from_comp`: the new dict holds nodes of the old graph under their own ids -/
def CompInv (g : Graph) (acc : List Node) : Prop := (acc.map (·.id)).Nodup ∧ ∀ n ∈ acc, g.find n.id = some n

theorem nodeSet_inv {g : Graph} {acc : List Node} (hinv : CompInv g acc) {id : String} {n : Node} (hf : g.find id = some n) :
    nodeSet acc n = (if acc.any (·.id == n.id) then acc else acc ++ [n]) ∧ CompInv g (nodeSet acc n) := by
  have hn : g.find n.id = some n := by rw [find_id hf]; exact hf
  unfold nodeSet
  by_cases ha : acc.any (·.id == n.id) = true
  · simp only [ha, if_true]
    have : acc.map (fun m => if m.id == n.id then n else m) = acc := by
      conv => rhs; rw [← List.map_id acc]
      apply List.map_congr_left
      intro m hm
      by_cases he : m.id = n.id
      · have h1 := hinv.2 m hm
        rw [he, hn] at h1
        simp [he, Option.some.inj h1]
      · simp [he]
    rw [this]; exact ⟨rfl, hinv⟩
  · rw [if_neg ha, if_neg ha]
    refine ⟨rfl, ?_, ?_⟩
    · rw [List.map_append, List.nodup_append]
      refine ⟨hinv.1, by simp, ?_⟩
      intro a ha' b hb
      simp at hb; subst hb
      intro hab; subst hab
      apply ha
      obtain ⟨m, hm, hmid⟩ := List.mem_map.mp ha'
      exact List.any_eq_true.mpr ⟨m, hm, by simpa using hmid⟩
    · intro m hm
      rcases List.mem_append.mp hm with h | h
      · exact hinv.2 m h
      · simp at h; subst h; exact hn

abbrev compStep (g : Graph) : List Node → String → Except PyErr (List Node) :=
  fun acc id => do let n ← copyNode g id; pure (nodeSet acc n)

theorem graphFromComp_eq (x : GFA) (comp : List String) :
    x.graphFromComp comp = (comp.foldlM (compStep x.g) []).map (fun ns => ⟨⟨ns, []⟩, []⟩) := by
  unfold GFA.graphFromComp
  show (comp.foldlM (compStep x.g) [] >>= fun ns => pure (⟨⟨ns, []⟩, []⟩ : GFA)) = _
  cases comp.foldlM (compStep x.g) [] <;> rfl

theorem fromComp_fold (g : Graph) (comp : List String) (acc : List Node) (hinv : CompInv g acc) :
    (∀ ns, comp.foldlM (compStep g) acc = .ok ns →
      CompInv g ns ∧ (∀ n, n ∈ ns ↔ n ∈ acc ∨ (n.id ∈ comp ∧ g.find n.id = some n)) ∧ (∀ id ∈ comp, g.has id = true)) ∧
    (∀ e, comp.foldlM (compStep g) acc = .error e → e = .attributeError ∧ ∃ id ∈ comp, g.has id = false) := by
  induction comp generalizing acc with
  | nil =>
    constructor
    · intro ns h; simp [pure, Except.pure] at h; subst h; exact ⟨hinv, by simp, by simp⟩
    · intro e h; simp [pure, Except.pure] at h
  | cons id rest ih =>
    cases hc : copyNode g id with
    | error e' =>
      have he := (copyNode_error_iff g id e').mp hc
      constructor
      · intro ns h; simp [List.foldlM_cons, compStep, hc, bind, Except.bind] at h
      · intro e h
        simp [List.foldlM_cons, compStep, hc, bind, Except.bind] at h; subst h
        exact ⟨he.1, id, by simp, he.2⟩
    | ok n =>
      have hf := (copyNode_ok_iff g id n).mp hc
      have hid := find_id hf
      obtain ⟨hset, hinv'⟩ := nodeSet_inv hinv hf
      have hstep : (id :: rest).foldlM (compStep g) acc = rest.foldlM (compStep g) (nodeSet acc n) := by
        simp [List.foldlM_cons, compStep, hc, bind, Except.bind, pure, Except.pure]
      rw [hstep]
      obtain ⟨ih1, ih2⟩ := ih (nodeSet acc n) hinv'
      have hmem : ∀ m, m ∈ nodeSet acc n ↔ m ∈ acc ∨ m = n := by
        intro m; rw [hset]
        by_cases ha : acc.any (·.id == n.id) = true
        · simp only [ha, if_true]
          constructor
          · exact Or.inl
          · rintro (h | h)
            · exact h
            · subst h
              obtain ⟨k, hk, hkid⟩ := List.any_eq_true.mp ha
              have := hinv.2 k hk
              have hkid' : k.id = m.id := by simpa using hkid
              rw [hkid', find_id hf, hf] at this
              rw [Option.some.inj this]; exact hk
        · simp [ha]
      constructor
      · intro ns h
        obtain ⟨h1, h2, h3⟩ := ih1 ns h
        refine ⟨h1, ?_, ?_⟩
        · intro m
          rw [h2 m, hmem m]
          constructor
          · rintro ((h | h) | h)
            · exact Or.inl h
            · subst h; exact Or.inr ⟨by simp [hid], by rw [hid]; exact hf⟩
            · exact Or.inr ⟨List.mem_cons_of_mem _ h.1, h.2⟩
          · rintro (h | ⟨h, h'⟩)
            · exact Or.inl (Or.inl h)
            · rcases List.mem_cons.mp h with he | he
              · left; right
                rw [he, hf] at h'; exact (Option.some.inj h').symm
              · exact Or.inr ⟨he, h'⟩
        · intro id' hid'
          rcases List.mem_cons.mp hid' with he | he
          · subst he; exact has_of_find hf
          · exact h3 id' he
      · intro e h
        obtain ⟨h1, id', hid', hh⟩ := ih2 e h
        exact ⟨h1, id', List.mem_cons_of_mem _ hid', hh⟩

/-! ## the stable sort by key -/

theorem insertByKey_perm (x : String × Int) (l : List (String × Int)) : (insertByKey x l).Perm (x :: l) := by
  induction l with
  | nil => exact List.Perm.refl _
  | cons y ys ih =>
    unfold insertByKey
    split
    · exact List.Perm.refl _
    · exact (List.Perm.cons y ih).trans (List.Perm.swap x y ys)

theorem foldl_insertByKey_perm (l acc : List (String × Int)) :
    (l.foldl (fun acc x => insertByKey x acc) acc).Perm (acc ++ l) := by
  induction l generalizing acc with
  | nil => simp
  | cons x xs ih =>
    simp only [List.foldl_cons]
    refine (ih _).trans ?_
    refine (List.Perm.append_right xs (insertByKey_perm x acc)).trans ?_
    simpa using (List.perm_middle (a := x) (l₁ := acc) (l₂ := xs)).symm

theorem sortByKey_perm (l : List (String × Int)) : (sortByKey l).Perm l := by
  simpa [sortByKey] using foldl_insertByKey_perm l []

def KeySorted (l : List (String × Int)) : Prop := l.Pairwise (fun a b => a.2 ≤ b.2)

theorem insertByKey_sorted (x : String × Int) (l : List (String × Int)) (h : KeySorted l) : KeySorted (insertByKey x l) := by
  unfold KeySorted at *
  induction l with
  | nil => simp [insertByKey]
  | cons y ys ih =>
    rw [List.pairwise_cons] at h
    unfold insertByKey
    split
    · rename_i hlt
      refine List.pairwise_cons.mpr ⟨?_, List.pairwise_cons.mpr h⟩
      intro b hb
      rcases List.mem_cons.mp hb with rfl | hb'
      · omega
      · have := h.1 b hb'; omega
    · rename_i hnl
      refine List.pairwise_cons.mpr ⟨?_, ih h.2⟩
      intro b hb
      rcases List.mem_cons.mp ((insertByKey_perm x ys).subset hb) with rfl | hb'
      · omega
      · exact h.1 b hb'

theorem foldl_insertByKey_sorted (l acc : List (String × Int)) (h : KeySorted acc) :
    KeySorted (l.foldl (fun acc x => insertByKey x acc) acc) := by
  induction l generalizing acc with
  | nil => exact h
  | cons x xs ih => exact ih _ (insertByKey_sorted x acc h)

theorem sortByKey_sorted (l : List (String × Int)) : KeySorted (sortByKey l) :=
  foldl_insertByKey_sorted l [] List.Pairwise.nil

/-- stability, step: among the elements with one key the new element comes last -/
theorem insertByKey_filter (x : String × Int) (l : List (String × Int)) (h : KeySorted l) (k : Int) :
    (insertByKey x l).filter (fun p => p.2 == k) =
      if x.2 == k then l.filter (fun p => p.2 == k) ++ [x] else l.filter (fun p => p.2 == k) := by
  unfold KeySorted at h
  induction l with
  | nil => by_cases hk : x.2 = k <;> simp [insertByKey, hk]
  | cons y ys ih =>
    rw [List.pairwise_cons] at h
    unfold insertByKey
    split
    · rename_i hlt
      by_cases hk : x.2 = k
      · have hnone : (y :: ys).filter (fun p => p.2 == k) = [] := by
          apply List.filter_eq_nil_iff.mpr
          intro b hb
          rcases List.mem_cons.mp hb with rfl | hb'
          · simp; omega
          · have := h.1 b hb'; simp; omega
        rw [List.filter_cons, hnone]; simp [hk]
      · simp [List.filter_cons, hk]
    · rename_i hnl
      rw [List.filter_cons, ih h.2]
      by_cases hy : y.2 = k <;> by_cases hk : x.2 = k <;> simp [hy, hk]

theorem foldl_insertByKey_filter (l acc : List (String × Int)) (h : KeySorted acc) (k : Int) :
    (l.foldl (fun acc x => insertByKey x acc) acc).filter (fun p => p.2 == k) =
      acc.filter (fun p => p.2 == k) ++ l.filter (fun p => p.2 == k) := by
  induction l generalizing acc with
  | nil => simp
  | cons x xs ih =>
    simp only [List.foldl_cons]
    rw [ih _ (insertByKey_sorted x acc h), insertByKey_filter x acc h k]
    by_cases hk : x.2 = k <;> simp [hk]

theorem sortByKey_stable (l : List (String × Int)) (k : Int) :
    (sortByKey l).filter (fun p => p.2 == k) = l.filter (fun p => p.2 == k) := by
  simpa [sortByKey] using foldl_insertByKey_filter l [] List.Pairwise.nil k

/-! ## `get_path` -/

theorem mapM_ok {α β} (f : α → Except PyErr β) (l : List α) (r : List β) (h : l.mapM f = .ok r) :
    l.map f = r.map Except.ok := by
  induction l generalizing r with
  | nil => simp [pure, Except.pure] at h; subst h; rfl
  | cons a rest ih =>
    rw [List.mapM_cons] at h
    cases hfa : f a with
    | error e => rw [hfa] at h; simp [bind, Except.bind] at h
    | ok b =>
      cases hr : rest.mapM f with
      | error e => rw [hfa, hr] at h; simp [bind, Except.bind] at h
      | ok r' =>
        rw [hfa, hr] at h; simp [bind, Except.bind, pure, Except.pure] at h
        subst h
        simp [hfa, ih r' hr]

theorem mapM_error {α β} (f : α → Except PyErr β) (l : List α) (e : PyErr) (h : l.mapM f = .error e) :
    ∃ a ∈ l, f a = .error e := by
  induction l with
  | nil => simp [pure, Except.pure] at h
  | cons a rest ih =>
    rw [List.mapM_cons] at h
    cases hfa : f a with
    | error e' =>
      rw [hfa] at h; simp [bind, Except.bind] at h; subst h
      exact ⟨a, by simp, hfa⟩
    | ok b =>
      cases hr : rest.mapM f with
      | error e' =>
        rw [hfa, hr] at h; simp [bind, Except.bind] at h; subst h
        obtain ⟨a', h1, h2⟩ := ih hr
        exact ⟨a', List.mem_cons_of_mem _ h1, h2⟩
      | ok r' => rw [hfa, hr] at h; simp [bind, Except.bind, pure, Except.pure] at h

theorem keyed_ok (g : Graph) (ids : List String) (ks : List (String × Int)) (h : keyed g ids = .ok ks) :
    ks.map (·.1) = ids ∧ ∀ p ∈ ks, tagIntOf g "SO" p.1 = .ok p.2 := by
  have hm := mapM_ok _ ids ks h
  have hlen : ks.length = ids.length := by simpa using (congrArg List.length hm).symm
  have hi : ∀ i (h1 : i < ids.length) (h2 : i < ks.length),
      (do let k ← tagIntOf g "SO" ids[i]; pure (ids[i], k) : Except PyErr _) = .ok ks[i] := by
    intro i h1 h2
    have := congrArg (fun l => l[i]?) hm
    simpa [h1, h2] using this
  have hi' : ∀ i (h1 : i < ids.length) (h2 : i < ks.length), ks[i].1 = ids[i] ∧ tagIntOf g "SO" ids[i] = .ok ks[i].2 := by
    intro i h1 h2
    have := hi i h1 h2
    cases ht : tagIntOf g "SO" ids[i] with
    | error e => rw [ht] at this; simp [bind, Except.bind] at this
    | ok k =>
      rw [ht] at this; simp [bind, Except.bind, pure, Except.pure] at this
      rw [← this]; exact ⟨rfl, rfl⟩
  constructor
  · apply List.ext_getElem (by simpa using hlen)
    intro i h1 h2
    simp only [List.getElem_map]
    exact (hi' i h2 (by simpa using h1)).1
  · intro p hp
    obtain ⟨i, h2, rfl⟩ := List.getElem_of_mem hp
    have := hi' i (by omega) h2
    rw [this.1]; exact this.2

theorem keyed_error (g : Graph) (ids : List String) (e : PyErr) (h : keyed g ids = .error e) :
    ∃ id ∈ ids, tagIntOf g "SO" id = .error e := by
  obtain ⟨id, h1, h2⟩ := mapM_error _ ids e h
  refine ⟨id, h1, ?_⟩
  cases ht : tagIntOf g "SO" id with
  | error e' => rw [ht] at h2; simp [bind, Except.bind] at h2; rw [h2]
  | ok k => rw [ht] at h2; simp [bind, Except.bind, pure, Except.pure] at h2

/-- the case structure of `get_path`, once and for all -/
theorem getPath_cases (x : GFA) (c : String) (tw : Bool) :
    (x.contigIds c = [] ∧ x.getPath c tw = .ok []) ∨
    (x.contigIds c ≠ [] ∧ ∃ e, keyed x.g (x.contigIds c) = .error e ∧ x.getPath c tw = .error e) ∨
    (x.contigIds c ≠ [] ∧ ∃ ks, keyed x.g (x.contigIds c) = .ok ks ∧
      ((∃ e, listIsPath x.g ((sortByKey ks).map (·.1)) = .error e ∧ x.getPath c tw = .error e) ∨
       (listIsPath x.g ((sortByKey ks).map (·.1)) = .ok true ∧ x.getPath c tw = .ok ((sortByKey ks).map (·.1))) ∨
       (listIsPath x.g ((sortByKey ks).map (·.1)) = .ok false ∧
          x.getPath c tw = .ok (if tw then [] else (sortByKey ks).map (·.1))))) := by
  unfold GFA.getPath
  by_cases hid : x.contigIds c = []
  · left; simp [hid]
  · right
    have hne : (x.contigIds c).isEmpty = false := by simpa using hid
    simp only [hne]
    cases hk : keyed x.g (x.contigIds c) with
    | error e => left; exact ⟨hid, e, rfl, by simp [bind, Except.bind]⟩
    | ok ks =>
      right
      refine ⟨hid, ks, rfl, ?_⟩
      cases hl : listIsPath x.g ((sortByKey ks).map (·.1)) with
      | error e => left; exact ⟨e, rfl, by simp [bind, Except.bind, hl]⟩
      | ok b =>
        right
        cases b with
        | true => left; exact ⟨rfl, by simp [bind, Except.bind, hl, pure, Except.pure]⟩
        | false => right; refine ⟨rfl, ?_⟩; cases tw <;> simp [bind, Except.bind, hl, pure, Except.pure]

/-! ### order of the nodes of `graph_from_comp`: first occurrences -/

/-- insertion of a new key at the end of a dict's key list -/
def insNew (acc : List String) (a : String) : List String := if acc.contains a then acc else acc ++ [a]

theorem foldl_insNew (l acc : List String) :
    l.foldl insNew acc = acc ++ (l.filter (fun x => !acc.contains x)).eraseDups := by
  induction l generalizing acc with
  | nil => simp
  | cons a l ih =>
    rw [List.foldl_cons, ih]
    unfold insNew
    by_cases ha : acc.contains a = true
    · simp only [ha, if_true, List.filter_cons, Bool.not_true, Bool.false_eq_true, if_false]
    · have ha' : acc.contains a = false := by simpa using ha
      simp only [ha', Bool.false_eq_true, if_false, List.filter_cons, Bool.not_false, if_true, List.eraseDups_cons,
        List.append_assoc, List.singleton_append, List.filter_filter]
      congr 3
      apply List.filter_congr
      intro x _
      by_cases hx : x = a
      · subst hx; simp
      · simp [hx]

theorem ids_nodeSet {g : Graph} {acc : List Node} (hinv : CompInv g acc) {id : String} {n : Node} (hf : g.find id = some n) :
    (nodeSet acc n).map (·.id) = insNew (acc.map (·.id)) id := by
  rw [(nodeSet_inv hinv hf).1]
  unfold insNew
  have hid := find_id hf
  have : acc.any (·.id == n.id) = (acc.map (·.id)).contains id := by
    rw [Bool.eq_iff_iff, hid]; simp
  rw [this]
  by_cases hc : (acc.map (·.id)).contains id = true
  · simp only [hc, if_true]
  · simp only [hc]; simp [hid]

theorem fromComp_fold_ids (g : Graph) (comp : List String) (acc ns : List Node) (hinv : CompInv g acc)
    (h : comp.foldlM (compStep g) acc = .ok ns) : ns.map (·.id) = comp.foldl insNew (acc.map (·.id)) := by
  induction comp generalizing acc with
  | nil => simp [pure, Except.pure] at h; subst h; rfl
  | cons id rest ih =>
    cases hc : copyNode g id with
    | error e' => simp [List.foldlM_cons, compStep, hc, bind, Except.bind] at h
    | ok n =>
      have hf := (copyNode_ok_iff g id n).mp hc
      have hstep : (id :: rest).foldlM (compStep g) acc = rest.foldlM (compStep g) (nodeSet acc n) := by
        simp [List.foldlM_cons, compStep, hc, bind, Except.bind, pure, Except.pure]
      rw [hstep] at h
      rw [ih _ (nodeSet_inv hinv hf).2 h, List.foldl_cons, ids_nodeSet hinv hf]

/-! ## `is_equal_to` -/

theorem setEq_iff {α} [BEq α] [LawfulBEq α] (a b : List α) : setEq a b = true ↔ ∀ x, x ∈ a ↔ x ∈ b := by
  unfold setEq
  simp only [Bool.and_eq_true, List.all_eq_true, List.contains_iff_mem]
  constructor
  · rintro ⟨h1, h2⟩ x; exact ⟨h1 x, h2 x⟩
  · intro h; exact ⟨fun x hx => (h x).mp hx, fun x hx => (h x).mpr hx⟩

theorem setEq_comm {α} [BEq α] (a b : List α) : setEq a b = setEq b a := by
  unfold setEq; exact Bool.and_comm _ _

theorem setEq_refl {α} [BEq α] [LawfulBEq α] (a : List α) : setEq a a = true := (setEq_iff a a).mpr (fun _ => Iff.rfl)

/-- what `Node.is_equal_to` decides -/
theorem nodeEq_iff (a b : Node) (t : Bool) :
    a.isEqualTo b t = true ↔
      a.id = b.id ∧ (∀ e, e ∈ a.startAdj ↔ e ∈ b.startAdj) ∧ (∀ e, e ∈ a.endAdj ↔ e ∈ b.endAdj) ∧
      (t = false → a.seq = b.seq ∧ ∀ tg, tg ∈ a.tags ↔ tg ∈ b.tags) := by
  unfold Node.isEqualTo
  cases t with
  | true =>
    simp only [if_true, Bool.and_eq_true, beq_iff_eq, setEq_iff]
    constructor
    · rintro ⟨⟨h1, h2⟩, h3⟩; exact ⟨h1, h2, h3, fun h => by cases h⟩
    · rintro ⟨h1, h2, h3, _⟩; exact ⟨⟨h1, h2⟩, h3⟩
  | false =>
    simp only [Bool.false_eq_true, if_false, Bool.and_eq_true, beq_iff_eq, setEq_iff]
    constructor
    · rintro ⟨⟨⟨⟨⟨h1, h2⟩, _⟩, h3⟩, h4⟩, h5⟩; exact ⟨h1, h3, h4, fun _ => ⟨h2, h5⟩⟩
    · rintro ⟨h1, h2, h3, h4⟩
      obtain ⟨h5, h6⟩ := h4 trivial
      exact ⟨⟨⟨⟨⟨h1, h5⟩, by rw [h5]⟩, h2⟩, h3⟩, h6⟩

theorem nodeEq_refl (a : Node) (t : Bool) : a.isEqualTo a t = true :=
  (nodeEq_iff a a t).mpr ⟨rfl, fun _ => Iff.rfl, fun _ => Iff.rfl, fun _ => ⟨rfl, fun _ => Iff.rfl⟩⟩

theorem nodeEq_symm (a b : Node) (t : Bool) : a.isEqualTo b t = b.isEqualTo a t := by
  rw [Bool.eq_iff_iff, nodeEq_iff, nodeEq_iff]
  constructor <;>
  · rintro ⟨h1, h2, h3, h4⟩
    exact ⟨h1.symm, fun e => (h2 e).symm, fun e => (h3 e).symm, fun ht => ⟨(h4 ht).1.symm, fun tg => ((h4 ht).2 tg).symm⟩⟩

theorem nodeEq_trans (a b c : Node) (t : Bool) (h1 : a.isEqualTo b t = true) (h2 : b.isEqualTo c t = true) :
    a.isEqualTo c t = true := by
  rw [nodeEq_iff] at *
  obtain ⟨a1, a2, a3, a4⟩ := h1
  obtain ⟨b1, b2, b3, b4⟩ := h2
  exact ⟨a1.trans b1, fun e => (a2 e).trans (b2 e), fun e => (a3 e).trans (b3 e),
    fun ht => ⟨(a4 ht).1.trans (b4 ht).1, fun tg => ((a4 ht).2 tg).trans ((b4 ht).2 tg)⟩⟩

/-- pigeonhole: a duplicate-free list inside a list of the same length is a permutation of it -/
theorem perm_of_nodup_subset_length {α} [DecidableEq α] {l1 l2 : List α} (h1 : l1.Nodup) (hs : l1 ⊆ l2)
    (hl : l1.length = l2.length) : l1.Perm l2 := by
  induction l1 generalizing l2 with
  | nil =>
    have : l2 = [] := List.eq_nil_of_length_eq_zero (by simpa using hl.symm)
    subst this; exact List.Perm.refl _
  | cons a t ih =>
    rw [List.nodup_cons] at h1
    have ha : a ∈ l2 := hs (List.mem_cons_self ..)
    have htsub : t ⊆ l2.erase a := by
      intro x hx
      have hxa : x ≠ a := fun h => h1.1 (h ▸ hx)
      exact (List.mem_erase_of_ne hxa).2 (hs (List.mem_cons_of_mem _ hx))
    have hlen : t.length = (l2.erase a).length := by
      rw [List.length_erase_of_mem ha]; simp at hl; omega
    exact (List.Perm.cons a (ih h1.2 htsub hlen)).trans (List.perm_cons_erase ha).symm

/-- `GFA.is_equal_to`, unfolded -/
theorem isEqualTo_unfold (x y : GFA) (t : Bool) :
    x.isEqualTo y t = true ↔
      x.g.nodes.length = y.g.nodes.length ∧ ∀ n1 ∈ x.g.nodes, ∃ n2, y.g.find n1.id = some n2 ∧ n1.isEqualTo n2 t = true := by
  unfold GFA.isEqualTo
  by_cases hl : x.g.nodes.length = y.g.nodes.length
  · simp only [hl, bne_self_eq_false, Bool.false_eq_true, if_false, List.all_eq_true, true_and]
    constructor
    · intro h n1 hn1
      have := h n1 hn1
      cases hf : y.g.find n1.id with
      | none => rw [hf] at this; cases this
      | some n2 => rw [hf] at this; exact ⟨n2, rfl, this⟩
    · intro h n1 hn1
      obtain ⟨n2, hf, he⟩ := h n1 hn1
      rw [hf]; exact he
  · have : (x.g.nodes.length != y.g.nodes.length) = true := by simpa using hl
    simp [this, hl]

/-- when `self` has unique ids and `is_equal_to` says `True`, both graphs have the same ids and `other`'s are unique too -/
theorem isEqualTo_ids_perm (x y : GFA) (t : Bool) (hx : NodupIds x.g) (h : x.isEqualTo y t = true) :
    (ids x.g).Perm (ids y.g) := by
  obtain ⟨hl, hn⟩ := (isEqualTo_unfold x y t).mp h
  apply perm_of_nodup_subset_length hx
  · intro id hid
    obtain ⟨n1, hn1, rfl⟩ := List.mem_map.mp hid
    obtain ⟨n2, hf, _⟩ := hn n1 hn1
    exact (has_iff_mem _ _).mp (has_of_find hf)
  · simpa [ids] using hl

/-! ## `readGFA` -/

theorem segStep_g (lm : Bool) (x : GFA) (s : SegLine) : (segStep lm x s).g = addNode x.g s lm := by
  unfold segStep
  simp only []
  split <;> rfl

theorem foldl_segStep_g (lm : Bool) (segs : List SegLine) (x : GFA) :
    (segs.foldl (segStep lm) x).g = segs.foldl (fun g s => addNode g s lm) x.g := by
  induction segs generalizing x with
  | nil => rfl
  | cons s segs ih => rw [List.foldl_cons, ih, segStep_g]; rfl

/-- the graph part of the loaded object is `Gfa.readGraph` -/
theorem readGFA_g (t : GfaFile) (lm : Bool) : (readGFA t lm).g = readGraph t lm := by
  unfold readGFA readGraph
  simp only [foldl_segStep_g]

theorem nodupIds_addNode {g : Graph} (h : NodupIds g) (s : SegLine) (lm : Bool) : NodupIds (addNode g s lm) := by
  unfold addNode
  split
  · exact h
  · rename_i hh
    unfold NodupIds at *
    simp only [List.map_append, List.map_cons, List.map_nil]
    rw [List.nodup_append]
    refine ⟨h, by simp, ?_⟩
    intro a ha b hb
    simp at hb; subst hb
    intro hab; subst hab
    exact hh ((has_iff_mem g _).mpr ha)

theorem nodupIds_segGraph (t : GfaFile) (lm : Bool) : NodupIds (segGraph t lm) := by
  unfold segGraph
  suffices H : ∀ (segs : List SegLine) (g : Graph), NodupIds g → NodupIds (segs.foldl (fun g s => addNode g s lm) g) from
    H t.segs Graph.empty (by simp [NodupIds, Graph.empty])
  intro segs
  induction segs with
  | nil => intro g h; exact h
  | cons s segs ih => intro g h; exact ih _ (nodupIds_addNode h s lm)

/-- every loaded graph has unique node ids -/
theorem nodupIds_readGraph (t : GfaFile) (lm : Bool) : NodupIds (readGraph t lm) := by
  unfold NodupIds
  have := ids_foldl_linkStep t.links (segGraph t lm)
  rw [readGraph_eq]
  unfold ids at this
  rw [this]
  exact nodupIds_segGraph t lm

end Gaftools.Proofs.GraphExtra
