import Gaftools.Proofs.ChainLemmas
/-!
# Lemmas for C06 (final stretch), part 2: the BO/NO tags of an accepted chain, node by node

`Built` bundles: a block–cut structure, the scaffold graph built from it, and a path `tr` that this graph is.
`tagA` / `tagB` describe the tag function `tagOf (numberChain s tr)` on articulation points and on inner nodes of bubbles.
-/
namespace Gaftools.Proofs.Chain
open Gaftools.Gfa Gaftools.Algo Gaftools.Order Gaftools.Spec.Order Gaftools.Spec.Graph
open Gaftools.Proofs.Algo Gaftools.Proofs.Finish2
open Gaftools.C06 hiding sortStrings_perm insertSorted_perm

/-- the tag function of `ChainCorrect`: first entry of the numbering for the node -/
def tagOf (order : List (V × Nat × Nat)) (v : V) : Option (Int × Int) :=
  (order.find? (·.1 == v)).map (fun x => ((x.2.1 : Int), (x.2.2 : Int)))

theorem find_unique (l : List (V × Nat × Nat)) (v : V) (k no : Nat) (hm : (v, k, no) ∈ l)
    (hu : ∀ k' no', (v, k', no') ∈ l → k' = k ∧ no' = no) : l.find? (·.1 == v) = some (v, k, no) := by
  cases hf : l.find? (·.1 == v) with
  | none =>
    rw [List.find?_eq_none] at hf
    have := hf _ hm
    simp at this
  | some x =>
    have hx := List.mem_of_find?_eq_some hf
    have hp := List.find?_some hf
    obtain ⟨a, b, c⟩ := x
    have : a = v := by simpa using hp
    subst this
    obtain ⟨rfl, rfl⟩ := hu b c hx
    rfl

theorem getD_map_fst (l : List (List V × List V)) (i : Nat) : (l.map (·.1)).getD i [] = (l.getD i ([], [])).1 := by
  simp only [List.getD_eq_getElem?_getD, List.getElem?_map]
  cases l[i]? <;> rfl

theorem getD_inner_mem {c : Chain} {i : Nat} {v : V} (hv : v ∈ (c.bubbles.getD i ([], [])).1) : i < c.bubbles.length := by
  apply Decidable.byContradiction
  intro hn
  rw [List.getD_eq_getElem?_getD, List.getElem?_eq_none (by omega)] at hv
  simp at hv

/-- a block–cut structure, its scaffold graph, and a path that this graph is -/
structure Built (nb : V → List V) (comp : List V) (bl : List (List V)) (ap : List V) (s : Scaffold) (tr : List Elt) :
    Prop where
  bc : BlockCut nb comp bl ap
  build : buildScaffold bl ap = .ok s
  path : PathScaffold s tr

section built
variable {nb : V → List V} {comp : List V} {bl : List (List V)} {ap : List V} {s : Scaffold} {tr : List Elt}

theorem Built.tr_nodup (h : Built nb comp bl ap s tr) : tr.Nodup := nodup_of_names h.path.names

theorem Built.mem_tr (h : Built nb comp bl ap s tr) (e : Elt) :
    e ∈ tr ↔ (∃ a ∈ ap, e = .scaffold a) ∨ (∃ i, i < (chainOfBlocks bl ap).bubbles.length ∧ e = .bubble i) := by
  obtain ⟨_, _, helts, _⟩ := buildScaffold_ok bl ap s h.build
  rw [← h.path.perm.mem_iff, helts, List.mem_append, List.mem_map, List.mem_map]
  constructor
  · rintro (⟨a, ha, rfl⟩ | ⟨i, hi, rfl⟩)
    · exact Or.inl ⟨a, ha, rfl⟩
    · exact Or.inr ⟨i, List.mem_range.mp hi, rfl⟩
  · rintro (⟨a, ha, rfl⟩ | ⟨i, hi, rfl⟩)
    · exact Or.inl ⟨a, ha, rfl⟩
    · exact Or.inr ⟨i, List.mem_range.mpr hi, rfl⟩

theorem Built.scaffold_mem (h : Built nb comp bl ap s tr) {a : V} : Elt.scaffold a ∈ tr ↔ a ∈ ap := by
  rw [h.mem_tr]
  constructor
  · rintro (⟨b, hb, e⟩ | ⟨i, _, e⟩)
    · injection e with e; rw [e]; exact hb
    · cases e
  · intro ha; exact Or.inl ⟨a, ha, rfl⟩

theorem Built.bubble_mem (h : Built nb comp bl ap s tr) {i : Nat} :
    Elt.bubble i ∈ tr ↔ i < (chainOfBlocks bl ap).bubbles.length := by
  rw [h.mem_tr]
  constructor
  · rintro (⟨b, _, e⟩ | ⟨j, hj, e⟩)
    · cases e
    · injection e with e; rw [e]; exact hj
  · intro hi; exact Or.inr ⟨i, hi, rfl⟩

theorem Built.sbubbles (h : Built nb comp bl ap s tr) (i : Nat) :
    s.bubbles.getD i [] = ((chainOfBlocks bl ap).bubbles.getD i ([], [])).1 := by
  obtain ⟨_, hbub, _, _⟩ := buildScaffold_ok bl ap s h.build
  rw [hbub, getD_map_fst]

/-- the bubble `i` is the pair of parts of some block -/
theorem bubble_block {bl : List (List V)} {ap : List V} {i : Nat} (hi : i < (chainOfBlocks bl ap).bubbles.length) :
    ∃ C ∈ bl, (chainOfBlocks bl ap).bubbles.getD i ([], []) = part ap C ∧ (part ap C).1 ≠ [] :=
  mem_bubbles.mp (getD_mem_bubbles hi)

theorem Built.inner_nodup (h : Built nb comp bl ap s tr) (i : Nat) :
    ((chainOfBlocks bl ap).bubbles.getD i ([], [])).1.Nodup := by
  by_cases hi : i < (chainOfBlocks bl ap).bubbles.length
  · obtain ⟨C, hC, hp, _⟩ := bubble_block hi
    rw [hp]
    exact (h.bc.blNodup C hC).sublist List.filter_sublist
  · rw [List.getD_eq_getElem?_getD, List.getElem?_eq_none (by omega)]
    simp

theorem inner_not_ap {bl : List (List V)} {ap : List V} {i : Nat} {v : V}
    (hv : v ∈ ((chainOfBlocks bl ap).bubbles.getD i ([], [])).1) : v ∉ ap := by
  obtain ⟨C, _, hp, _⟩ := bubble_block (getD_inner_mem hv)
  rw [hp] at hv
  exact (mem_part_inner.mp hv).2

theorem Built.index_unique (h : Built nb comp bl ap s tr) {k k' : Nat} {e : Elt} (h1 : tr[k]? = some e)
    (h2 : tr[k']? = some e) : k = k' := by
  have hk : k < tr.length := (List.getElem?_eq_some_iff.mp h1).1
  exact (List.getElem?_inj hk h.tr_nodup).mp (h1.trans h2.symm)

/-- every node occurs at most once in the numbering -/
theorem Built.number_unique (h : Built nb comp bl ap s tr) {v : V} {k no k' no' : Nat}
    (h1 : (v, k, no) ∈ numberChain s tr) (h2 : (v, k', no') ∈ numberChain s tr) : k' = k ∧ no' = no := by
  rcases C18.numberChain_only s tr v k no h1 with ⟨t1, rfl⟩ | ⟨i, t1, n1, s1⟩
  · rcases C18.numberChain_only s tr v k' no' h2 with ⟨t2, rfl⟩ | ⟨j, t2, n2, s2⟩
    · exact ⟨h.index_unique t2 t1, rfl⟩
    · exfalso
      have ha : v ∈ ap := h.scaffold_mem.mp (List.mem_of_getElem? t1)
      have hv := List.mem_of_getElem? s2
      rw [Bicc2.mem_sortStrings, h.sbubbles] at hv
      exact inner_not_ap hv ha
  · have hv := List.mem_of_getElem? s1
    rw [Bicc2.mem_sortStrings, h.sbubbles] at hv
    rcases C18.numberChain_only s tr v k' no' h2 with ⟨t2, rfl⟩ | ⟨j, t2, n2, s2⟩
    · exfalso
      have ha : v ∈ ap := h.scaffold_mem.mp (List.mem_of_getElem? t2)
      exact inner_not_ap hv ha
    · have hv' := List.mem_of_getElem? s2
      rw [Bicc2.mem_sortStrings, h.sbubbles] at hv'
      have hij : i = j := bubble_index_unique h.bc (getD_inner_mem hv) (getD_inner_mem hv') hv hv'
      subst hij
      refine ⟨h.index_unique t2 t1, ?_⟩
      have hnd : (sortStrings (s.bubbles.getD i [])).Nodup := by
        rw [(Bicc2.sortStrings_perm _).nodup_iff, h.sbubbles]; exact h.inner_nodup i
      have hlt : no - 1 < (sortStrings (s.bubbles.getD i [])).length := (List.getElem?_eq_some_iff.mp s1).1
      have := (List.getElem?_inj hlt hnd).mp (s1.trans s2.symm)
      omega

theorem Built.tag_of_mem (h : Built nb comp bl ap s tr) {v : V} {k no : Nat} (hm : (v, k, no) ∈ numberChain s tr) :
    tagOf (numberChain s tr) v = some ((k : Int), (no : Int)) := by
  unfold tagOf
  rw [find_unique _ v k no hm (fun k' no' h' => h.number_unique hm h')]
  rfl

/-- tags of the articulation points -/
theorem Built.tagA (h : Built nb comp bl ap s tr) {a : V} (ha : a ∈ ap) :
    ∃ k : Nat, tr[k]? = some (Elt.scaffold a) ∧ tagOf (numberChain s tr) a = some ((k : Int), 0) := by
  obtain ⟨k, hk⟩ := List.mem_iff_getElem?.mp (h.scaffold_mem.mpr ha)
  exact ⟨k, hk, h.tag_of_mem (C18.numberChain_scaffold s tr k a hk)⟩

/-- tags of the inner nodes of a bubble -/
theorem Built.tagB (h : Built nb comp bl ap s tr) {i : Nat} (hi : i < (chainOfBlocks bl ap).bubbles.length) :
    ∃ k : Nat, tr[k]? = some (Elt.bubble i) ∧ ∀ (j : Nat) (v : V),
      (sortStrings ((chainOfBlocks bl ap).bubbles.getD i ([], [])).1)[j]? = some v →
      tagOf (numberChain s tr) v = some ((k : Int), (j : Int) + 1) := by
  obtain ⟨k, hk⟩ := List.mem_iff_getElem?.mp (h.bubble_mem.mpr hi)
  refine ⟨k, hk, ?_⟩
  intro j v hv
  rw [← h.sbubbles] at hv
  have := h.tag_of_mem (C18.numberChain_bubble s tr k i hk j v hv)
  rw [this]
  simp

end built

end Gaftools.Proofs.Chain
