import Gaftools.Model.Realign
/-!
# Lemmas for C11 / C13 (collector protocol of `realign`)

* sorting (`sortNat`) and batching (`chunks`, `groups`);
* the handler as a function on the program counter (`checkPC`, one poll) and the invariant `HInv` of the program counter
  (the handler is not atomic: the parent is at one of the three polls of `refHandler`; at the third only if the second
  found no worker running);
* the global invariant `Inv batches s` of the transition system `Realign.step`: worker count, conservation of messages
  (received ++ pipe ++ buffered ++ still to put is a permutation of everything the workers were given), per-worker FIFO
  order (ghost: every message in the pipe is tagged with the worker that wrote it; what remains of a worker's sequence is
  empty or ends with its sentinel), `done ↔ all sentinels received`, `exited 0 → nothing left`;
* consequences: completeness at `done`, failure only by death, drain of the pipe by the parent alone.
-/
namespace Gaftools.Proofs.Realign
open Gaftools.Realign

/-! ## sorting -/
theorem insertNat_perm (x : Nat) (l : List Nat) : (insertNat x l).Perm (x :: l) := by
  induction l with
  | nil => simp [insertNat]
  | cons y ys ih =>
    simp only [insertNat]
    split
    · exact List.Perm.refl _
    · exact (List.Perm.cons y ih).trans (List.Perm.swap x y ys)

theorem insertNat_sorted (x : Nat) (l : List Nat) (h : l.Pairwise (· ≤ ·)) : (insertNat x l).Pairwise (· ≤ ·) := by
  induction l with
  | nil => simp [insertNat]
  | cons y ys ih =>
    simp only [insertNat]
    have hy := List.pairwise_cons.1 h
    split
    · rename_i hxy
      refine List.pairwise_cons.2 ⟨?_, h⟩
      intro a ha
      rcases List.mem_cons.1 ha with rfl | ha
      · exact hxy
      · exact Nat.le_trans hxy (hy.1 a ha)
    · rename_i hxy
      refine List.pairwise_cons.2 ⟨?_, ih hy.2⟩
      intro a ha
      rcases List.mem_cons.1 ((insertNat_perm x ys).mem_iff.1 ha) with rfl | ha
      · omega
      · exact hy.1 a ha

theorem sortNat_sorted (l : List Nat) : (sortNat l).Pairwise (· ≤ ·) := by
  induction l with
  | nil => simp [sortNat]
  | cons x xs ih => exact insertNat_sorted x _ ih

theorem sortNat_perm (l : List Nat) : (sortNat l).Perm l := by
  induction l with
  | nil => simp [sortNat]
  | cons x xs ih => exact (insertNat_perm x _).trans (List.Perm.cons x ih)

theorem sorted_perm_eq {l₁ l₂ : List Nat} (h₁ : l₁.Pairwise (· ≤ ·)) (h₂ : l₂.Pairwise (· ≤ ·)) (hp : l₁.Perm l₂) :
    l₁ = l₂ :=
  List.Perm.eq_of_pairwise (fun _ _ _ _ hab hba => Nat.le_antisymm hab hba) h₁ h₂ hp

theorem sortNat_congr {l₁ l₂ : List Nat} (hp : l₁.Perm l₂) : sortNat l₁ = sortNat l₂ :=
  sorted_perm_eq (sortNat_sorted _) (sortNat_sorted _) (((sortNat_perm l₁).trans hp).trans (sortNat_perm l₂).symm)

theorem sortNat_range' (a n : Nat) : sortNat (List.range' a n) = List.range' a n :=
  sorted_perm_eq (sortNat_sorted _) ((List.pairwise_lt_range' (s := a) (n := n)).imp (fun h => Nat.le_of_lt h))
    (sortNat_perm _)

/-! ## batching -/
theorem chunks_flatten {α : Type _} (k : Nat) (hk : 0 < k) (fuel : Nat) (l : List α) (h : l.length < fuel) :
    (chunks k fuel l).flatten = l := by
  induction fuel generalizing l with
  | zero => omega
  | succ f ih =>
    cases l with
    | nil => simp [chunks]
    | cons a t =>
      have hk0 : k ≠ 0 := by omega
      simp only [chunks, hk0, if_false, List.flatten_cons]
      rw [ih]
      · exact List.take_append_drop k (a :: t)
      · simp only [List.length_drop, List.length_cons] at *; omega

theorem chunks_length {α : Type _} (k : Nat) (hk : 0 < k) (fuel : Nat) (l : List α) :
    (chunks k fuel l).length ≤ l.length := by
  induction fuel generalizing l with
  | zero => simp [chunks]
  | succ f ih =>
    cases l with
    | nil => simp [chunks]
    | cons a t =>
      have hk0 : k ≠ 0 := by omega
      simp only [chunks, hk0, if_false, List.length_cons]
      have := ih ((a :: t).drop k)
      simp only [List.length_drop, List.length_cons] at this
      omega

theorem groups_flatten (b c : Nat) (hb : 0 < b) (hc : 0 < c) (recs : List Nat) :
    ((groups b c recs).map List.flatten).flatten = recs := by
  rw [← List.flatten_flatten]
  unfold groups
  rw [chunks_flatten c hc, chunks_flatten b hb]
  · omega
  · have := chunks_length b hb (recs.length + 1) recs
    omega


/-! ## list helpers -/
theorem split_set {α : Type _} : ∀ (ws : List α) (i : Nat) (w w' : α), ws[i]? = some w →
    ∃ l1 l2, ws = l1 ++ w :: l2 ∧ ws.set i w' = l1 ++ w' :: l2
  | [], i, w, w', h => by simp at h
  | a :: ws, 0, w, w', h => by
      simp at h; subst h; exact ⟨[], ws, rfl, rfl⟩
  | a :: ws, i+1, w, w', h => by
      simp at h
      obtain ⟨l1, l2, h1, h2⟩ := split_set ws i w w' h
      exact ⟨a :: l1, l2, by simp [h1], by simp [h2]⟩

/-- messages of all workers that have not reached the pipe -/
def W (ws : List Worker) : List Msg := ws.flatMap (fun w => w.buf ++ w.todo)

def und (ws : List Worker) (i : Nat) : List Msg :=
  match ws[i]? with
  | some w => w.buf ++ w.todo
  | none => []

theorem und_get {ws : List Worker} {i : Nat} {w : Worker} (h : ws[i]? = some w) : und ws i = w.buf ++ w.todo := by
  simp [und, h]

theorem und_set_self {ws : List Worker} {i : Nat} {w : Worker} (w' : Worker) (h : ws[i]? = some w) :
    und (ws.set i w') i = w'.buf ++ w'.todo := by
  have hi : i < ws.length := (List.getElem?_eq_some_iff.1 h).1
  simp [und, hi]

theorem und_set_ne (ws : List Worker) {i j : Nat} (w' : Worker) (h : i ≠ j) : und (ws.set i w') j = und ws j := by
  simp [und, h]

theorem und_subset_W (ws : List Worker) (i : Nat) : ∀ m ∈ und ws i, m ∈ W ws := by
  intro m hm
  unfold und at hm
  split at hm
  · rename_i w hw
    exact List.mem_flatMap.2 ⟨w, List.mem_iff_getElem?.2 ⟨i, hw⟩, hm⟩
  · simp at hm

theorem W_set_count {ws : List Worker} {i : Nat} {w : Worker} (w' : Worker) (h : ws[i]? = some w) (a : Msg) :
    (W (ws.set i w')).count a + (w.buf ++ w.todo).count a = (W ws).count a + (w'.buf ++ w'.todo).count a := by
  obtain ⟨l1, l2, h1, h2⟩ := split_set ws i w w' h
  rw [h2, h1]
  simp only [W, List.flatMap_append, List.flatMap_cons, List.count_append]
  omega

def proj (i : Nat) (g : List (Msg × Nat)) : List Msg := (g.filter (fun p => p.2 == i)).map Prod.fst

theorem proj_subset (i : Nat) (g : List (Msg × Nat)) : ∀ m ∈ proj i g, m ∈ g.map Prod.fst := by
  intro m hm
  simp only [proj, List.mem_map, List.mem_filter] at hm ⊢
  obtain ⟨p, ⟨hp, _⟩, rfl⟩ := hm
  exact ⟨p, hp, rfl⟩

theorem proj_cons (j : Nat) (m : Msg) (k : Nat) (g : List (Msg × Nat)) :
    proj j ((m, k) :: g) = if k = j then m :: proj j g else proj j g := by
  by_cases h : k = j <;> simp [proj, h]

theorem proj_snoc (j : Nat) (m : Msg) (k : Nat) (g : List (Msg × Nat)) :
    proj j (g ++ [(m, k)]) = if k = j then proj j g ++ [m] else proj j g := by
  by_cases h : k = j <;> simp [proj, List.filter_append, h]

/-- a (remaining) message sequence of one worker: empty, or ending with the sentinel -/
def Good (l : List Msg) : Prop := ∀ m, l.getLast? = some m → m = .sentinel

theorem Good.tail {m : Msg} {l : List Msg} (h : Good (m :: l)) : Good l := by
  intro x hx
  cases l with
  | nil => simp at hx
  | cons a t => exact h x (by rw [List.getLast?_cons_cons]; exact hx)

theorem Good.eq_nil {l : List Msg} (h : Good l) (hs : Msg.sentinel ∉ l) : l = [] := by
  cases hl : l.getLast? with
  | none => exact List.getLast?_eq_none_iff.1 hl
  | some m =>
    have := h m hl
    subst this
    exact absurd (List.mem_of_getLast? hl) hs

def target (batches : List (List Nat)) : List Msg := batches.flatMap (fun ps => ps.map Msg.item ++ [Msg.sentinel])

def pool (s : St) : List Msg :=
  s.got.map Msg.item ++ List.replicate s.nSent Msg.sentinel ++ s.chan ++ W s.ws

structure Inv (batches : List (List Nat)) (s : St) : Prop where
  len : s.ws.length = batches.length
  cons : (pool s).Perm (target batches)
  fifo : ∃ g : List (Msg × Nat), g.map Prod.fst = s.chan ∧ ∀ i, Good (proj i g ++ und s.ws i)
  pcd : s.pc = .done ↔ s.nSent = s.ws.length
  zero : ∀ w ∈ s.ws, w.st = .exited 0 → w.buf = [] ∧ w.todo = []

theorem inv_init (batches : List (List Nat)) : Inv batches (init batches) := by
  refine ⟨by simp [init], ?_, ⟨[], rfl, ?_⟩, ?_, ?_⟩
  · have : W (init batches).ws = target batches := by
      simp [W, target, init, List.flatMap_map]
    simp [pool, this]
    simp [init]
  · intro i
    simp only [proj, List.filter_nil, List.map_nil, List.nil_append, und, init, List.getElem?_map]
    cases batches[i]? with
    | none => intro m hm; simp at hm
    | some ps => intro m hm; simpa using hm.symm
  · cases batches <;> simp [init]
  · intro w hw
    simp [init] at hw
    obtain ⟨ps, _, rfl⟩ := hw
    simp

theorem inv_updSame {batches : List (List Nat)} {s : St} (h : Inv batches s) {i : Nat} {w : Worker} (w' : Worker)
    (hw : s.ws[i]? = some w) (hsame : w'.buf ++ w'.todo = w.buf ++ w.todo)
    (hz : w'.st = .exited 0 → w'.buf = [] ∧ w'.todo = []) :
    Inv batches { s with ws := updW s.ws i w' } := by
  obtain ⟨hl, hc, ⟨g, hg, hgood⟩, hp, hzero⟩ := h
  refine ⟨by simpa [updW] using hl, ?_, ⟨g, hg, ?_⟩, by simpa [updW] using hp, ?_⟩
  · refine List.Perm.trans (List.perm_iff_count.2 fun a => ?_) hc
    have := W_set_count w' hw a
    rw [hsame] at this
    simp only [pool, updW, List.count_append] at this ⊢
    omega
  · intro j
    by_cases hj : i = j
    · subst hj
      simp only [updW, und_set_self w' hw, hsame, ← und_get hw]
      exact hgood i
    · simp only [updW, und_set_ne _ w' hj]
      exact hgood j
  · intro x hx
    rcases List.mem_or_eq_of_mem_set hx with hx | rfl
    · exact hzero x hx
    · exact hz

theorem inv_flush {batches : List (List Nat)} {s : St} (h : Inv batches s) {i : Nat} {t b : List Msg} {m : Msg}
    (hw : s.ws[i]? = some ⟨t, m :: b, .running⟩) :
    Inv batches { s with ws := updW s.ws i ⟨t, b, .running⟩, chan := s.chan ++ [m] } := by
  obtain ⟨hl, hc, ⟨g, hg, hgood⟩, hp, hzero⟩ := h
  refine ⟨by simpa [updW] using hl, ?_, ⟨g ++ [(m, i)], by simp [hg], ?_⟩, by simpa [updW] using hp, ?_⟩
  · refine List.Perm.trans (List.perm_iff_count.2 fun a => ?_) hc
    have := W_set_count ⟨t, b, .running⟩ hw a
    simp only [pool, updW, List.count_append, List.count_cons, List.count_nil] at this ⊢
    omega
  · intro j
    have := hgood j
    by_cases hj : i = j
    · subst hj
      rw [und_get hw] at this
      simpa [updW, und_set_self _ hw, proj_snoc] using this
    · simpa [updW, und_set_ne _ _ hj, proj_snoc, hj] using this
  · intro x hx
    rcases List.mem_or_eq_of_mem_set hx with hx | rfl
    · exact hzero x hx
    · intro h; simp at h

theorem inv_setpc {batches : List (List Nat)} {s : St} (h : Inv batches s) (pc' : PC) (h1 : s.pc ≠ .done) (h2 : pc' ≠ .done) :
    Inv batches { s with pc := pc' } := by
  obtain ⟨hl, hc, hf, hp, hzero⟩ := h
  refine ⟨hl, hc, hf, ?_, hzero⟩
  simp only [h2, false_iff]
  exact fun h => h1 (hp.2 h)

theorem inv_receive {batches : List (List Nat)} {s : St} (h : Inv batches s) {m : Msg} {c : List Msg} (hc : s.chan = m :: c) :
    Inv batches (receive { s with chan := c } m) := by
  obtain ⟨hl, hcons, ⟨g, hg, hgood⟩, hp, hzero⟩ := h
  have hfifo : ∃ g : List (Msg × Nat), g.map Prod.fst = c ∧ ∀ i, Good (proj i g ++ und s.ws i) := by
    cases g with
    | nil => simp [hc] at hg
    | cons p g' =>
      obtain ⟨m', k⟩ := p
      simp only [List.map_cons, hc, List.cons.injEq] at hg
      obtain ⟨rfl, hg'⟩ := hg
      refine ⟨g', hg', fun j => ?_⟩
      have := hgood j
      rw [proj_cons] at this
      split at this
      · exact Good.tail this
      · exact this
  cases m with
  | sentinel =>
    have hperm : (pool { s with chan := c, nSent := s.nSent + 1 }).Perm (target batches) := by
      refine List.Perm.trans (List.perm_iff_count.2 fun a => ?_) hcons
      simp only [pool, hc, List.count_append, List.count_cons, List.count_replicate, List.replicate_succ]
      split <;> omega
    simp only [receive]
    split
    · rename_i heq
      exact ⟨hl, hperm, hfifo, by simpa using heq, hzero⟩
    · rename_i heq
      exact ⟨hl, hperm, hfifo, by simpa using heq, hzero⟩
  | item p =>
    have hperm : (pool { s with chan := c, got := s.got ++ [p] }).Perm (target batches) := by
      refine List.Perm.trans (List.perm_iff_count.2 fun a => ?_) hcons
      simp only [pool, hc, List.count_append, List.count_cons, List.map_append, List.map_cons, List.map_nil,
        List.count_nil]
      omega
    simp only [receive]
    split
    · rename_i heq
      exact ⟨hl, hperm, hfifo, by simpa using heq, hzero⟩
    · rename_i heq
      exact ⟨hl, hperm, hfifo, by simpa using heq, hzero⟩

/-! ## the handler as a function on the program counter -/
/-- the rest of `refHandler` after `one_failed` said no -/
def h2 : Prog := .test .alive (.leaf .cont) (.test .exited (.leaf .cont) (.leaf .exit1))
/-- the rest of `refHandler` after `one_is_alive` said no -/
def h3 : Prog := .test .exited (.leaf .cont) (.leaf .exit1)

def enterPC : Prog → PC
  | .leaf .exit1 => .failed
  | .leaf .cont => .atGet
  | .leaf _ => .stuck
  | .test p y n => .eval (.test p y n)

theorem enter_eq (s : St) (p : Prog) : enter s p = { s with pc := enterPC p } := by
  cases p with
  | leaf a => cases a <;> rfl
  | test p y n => rfl

theorem enterPC_ne_done (p : Prog) : enterPC p ≠ .done := by
  cases p with
  | leaf a => cases a <;> simp [enterPC]
  | test p y n => simp [enterPC]

/-- one poll, as a function on the program counter -/
def checkPC (s : St) : PC → PC
  | .eval (.test p y n) => enterPC (if evalPred s p then y else n)
  | pc => pc

theorem checkPC_ne_done (s : St) {pc : PC} (h : pc ≠ .done) : checkPC s pc ≠ .done := by
  unfold checkPC
  split
  · exact enterPC_ne_done _
  · exact h

theorem step_pCheck (s : St) : step s .pCheck = { s with pc := checkPC s s.pc } := by
  simp only [step, stepH]
  split
  · rename_i hpc
    rw [enter_eq, hpc]
    rfl
  · rename_i hne
    have : checkPC s s.pc = s.pc := by
      unfold checkPC
      split
      · rename_i hpc; exact absurd hpc (hne _ _ _)
      · rfl
    rw [this]

theorem step_pTimeout (s : St) :
    step s .pTimeout = s ∨ (s.pc = .atGet ∧ s.chan = [] ∧ step s .pTimeout = { s with pc := .eval refHandler }) := by
  simp only [step, stepH]
  split
  · rename_i hpc hc
    exact Or.inr ⟨hpc, hc, rfl⟩
  · exact Or.inl rfl

theorem inv_step {batches : List (List Nat)} {s : St} (h : Inv batches s) (e : Ev) : Inv batches (step s e) := by
  cases e with
  | wPut i =>
    simp only [step, stepH]
    split
    · rename_i m t b hw
      exact inv_updSame h _ hw (by simp) (by simp)
    · exact h
  | wFlush i =>
    simp only [step, stepH]
    split
    · rename_i t m b hw
      exact inv_flush h hw
    · exact h
  | wExit i =>
    simp only [step, stepH]
    split
    · rename_i hw
      exact inv_updSame h _ hw (by simp) (by simp)
    · exact h
  | wDie i code =>
    simp only [step, stepH]
    split
    · rename_i t b hw
      split
      · exact h
      · rename_i hc
        exact inv_updSame h _ hw (by simp) (by simp [hc])
    · exact h
  | pGet =>
    simp only [step, stepH]
    split
    · rename_i m c hpc hc
      exact inv_receive h hc
    · exact h
  | pTimeout =>
    rcases step_pTimeout s with h' | ⟨hpc, _, h'⟩ <;> rw [h']
    · exact h
    · exact inv_setpc h _ (by simp [hpc]) (by simp)
  | pCheck =>
    rw [step_pCheck]
    by_cases hd : s.pc = .done
    · have : checkPC s s.pc = s.pc := by rw [hd]; rfl
      rw [this]; exact h
    · exact inv_setpc h _ hd (checkPC_ne_done s hd)

theorem run_cons (s : St) (e : Ev) (es : List Ev) : run s (e :: es) = run (step s e) es := rfl
theorem run_nil (s : St) : run s [] = s := rfl
theorem run_append (s : St) (es es' : List Ev) : run s (es ++ es') = run (run s es) es' := by
  simp [run, List.foldl_append]

theorem inv_run {batches : List (List Nat)} {s : St} (h : Inv batches s) (es : List Ev) : Inv batches (run s es) := by
  induction es generalizing s with
  | nil => exact h
  | cons e es ih => exact ih (inv_step h e)

theorem inv_reach (batches : List (List Nat)) (es : List Ev) : Inv batches (run (init batches) es) :=
  inv_run (inv_init batches) es

/-! ## consequences of the invariant -/
theorem count_sentinel_target (batches : List (List Nat)) : (target batches).count Msg.sentinel = batches.length := by
  induction batches with
  | nil => simp [target]
  | cons ps bs ih =>
    simp only [target, List.flatMap_cons, List.count_append, List.length_cons] at ih ⊢
    rw [ih]
    have : List.count Msg.sentinel (List.map Msg.item ps) = 0 := by
      apply List.count_eq_zero.2
      simp
    simp [this]
    omega

def getItem : Msg → Option Nat
  | .item p => some p
  | .sentinel => none

theorem items_target (batches : List (List Nat)) : (target batches).filterMap getItem = batches.flatten := by
  induction batches with
  | nil => simp [target]
  | cons ps bs ih =>
    simp only [target, List.flatMap_cons, List.filterMap_append, List.flatten_cons] at ih ⊢
    rw [ih]
    have : List.filterMap getItem (List.map Msg.item ps) = ps := by
      rw [List.filterMap_map]
      have : getItem ∘ Msg.item = some := rfl
      rw [this, List.filterMap_some]
    simp [this, getItem]

theorem inv_all_empty {batches : List (List Nat)} {s : St} (h : Inv batches s) (hn : s.nSent = s.ws.length) :
    s.chan = [] ∧ W s.ws = [] := by
  obtain ⟨hl, hc, ⟨g, hg, hgood⟩, hp, hzero⟩ := h
  have hcount := hc.count_eq Msg.sentinel
  rw [count_sentinel_target] at hcount
  simp only [pool, List.count_append, List.count_replicate_self] at hcount
  have h1 : s.chan.count Msg.sentinel = 0 := by omega
  have h2 : (W s.ws).count Msg.sentinel = 0 := by omega
  have h1' := List.count_eq_zero.1 h1
  have h2' := List.count_eq_zero.1 h2
  have hnil : ∀ i, proj i g ++ und s.ws i = [] := by
    intro i
    apply (hgood i).eq_nil
    intro hmem
    rcases List.mem_append.1 hmem with hm | hm
    · exact h1' (hg ▸ proj_subset i g _ hm)
    · exact h2' (und_subset_W _ i _ hm)
  have hgnil : g = [] := by
    cases g with
    | nil => rfl
    | cons p g' =>
      obtain ⟨m, k⟩ := p
      have := hnil k
      simp [proj_cons] at this
  subst hgnil
  refine ⟨by simpa using hg.symm, ?_⟩
  simp only [W, List.flatMap_eq_nil_iff]
  intro w hw
  obtain ⟨i, hi⟩ := List.mem_iff_getElem?.1 hw
  have := hnil i
  rw [und_get hi] at this
  simpa using (List.append_eq_nil_iff.1 this).2

theorem done_complete (batches : List (List Nat)) (es : List Ev) (h : (run (init batches) es).pc = .done) :
    (run (init batches) es).got.Perm batches.flatten := by
  have hinv := inv_reach batches es
  obtain ⟨hchan, hW⟩ := inv_all_empty hinv (hinv.pcd.1 h)
  have := hinv.cons.filterMap getItem
  rw [items_target] at this
  simp only [pool, hchan, hW, List.append_nil, List.filterMap_append, List.filterMap_map] at this
  have h1 : getItem ∘ Msg.item = some := rfl
  rw [h1, List.filterMap_some, List.filterMap_replicate] at this
  simpa [getItem] using this

theorem done_undelivered (batches : List (List Nat)) (es : List Ev) (h : (run (init batches) es).pc = .done) :
    ∀ w ∈ (run (init batches) es).ws, w.buf ++ w.todo = [] := by
  have hinv := inv_reach batches es
  obtain ⟨_, hW⟩ := inv_all_empty hinv (hinv.pcd.1 h)
  simpa [W, List.flatMap_eq_nil_iff] using hW

/-! ## deaths and failure -/
theorem receive_ws (s : St) (m : Msg) : (receive s m).ws = s.ws := by
  simp only [receive]; split <;> split <;> rfl
theorem receive_chan (s : St) (m : Msg) : (receive s m).chan = s.chan := by
  simp only [receive]; split <;> split <;> rfl
theorem receive_pc (s : St) (m : Msg) : (receive s m).pc = .done ∨ (receive s m).pc = .atGet := by
  simp only [receive]; split <;> split <;> simp

def isWorkerEv : Ev → Bool
  | .pGet | .pTimeout | .pCheck => false
  | _ => true

theorem ev_cases (e : Ev) : isWorkerEv e = true ∨ e = .pGet ∨ e = .pTimeout ∨ e = .pCheck := by
  cases e <;> simp [isWorkerEv]

/-- the parent's events do not touch the workers -/
theorem step_ws_parent (s : St) (e : Ev) (he : e = .pGet ∨ e = .pTimeout ∨ e = .pCheck) : (step s e).ws = s.ws := by
  rcases he with rfl | rfl | rfl
  · simp only [step, stepH]
    split
    · exact receive_ws _ _
    · rfl
  · rcases step_pTimeout s with h | ⟨_, _, h⟩ <;> rw [h]
  · rw [step_pCheck]

/-- a worker event is a stutter or rewrites one running worker; the parent's program counter is untouched -/
theorem worker_cases (s : St) (e : Ev) (he : isWorkerEv e = true) :
    step s e = s ∨
      ∃ i w w', s.ws[i]? = some w ∧ w.st = .running ∧ (step s e).ws = updW s.ws i w' ∧ (step s e).pc = s.pc := by
  cases e with
  | wPut j =>
    simp only [step, stepH]
    split
    · rename_i hw
      exact Or.inr ⟨j, _, _, hw, rfl, rfl, rfl⟩
    · exact Or.inl rfl
  | wFlush j =>
    simp only [step, stepH]
    split
    · rename_i hw
      exact Or.inr ⟨j, _, _, hw, rfl, rfl, rfl⟩
    · exact Or.inl rfl
  | wExit j =>
    simp only [step, stepH]
    split
    · rename_i hw
      exact Or.inr ⟨j, _, _, hw, rfl, rfl, rfl⟩
    · exact Or.inl rfl
  | wDie j code =>
    simp only [step, stepH]
    split
    · rename_i hw
      split
      · exact Or.inl rfl
      · exact Or.inr ⟨j, _, _, hw, rfl, rfl, rfl⟩
    · exact Or.inl rfl
  | pGet => simp [isWorkerEv] at he
  | pTimeout => simp [isWorkerEv] at he
  | pCheck => simp [isWorkerEv] at he

theorem death_persistent (s : St) (i : Nat) (w : Worker) (hi : s.ws[i]? = some w) (c : Int) (hc : w.st = .exited c) (e : Ev) :
    (step s e).ws[i]? = some w := by
  rcases ev_cases e with he | he
  · rcases worker_cases s e he with h | ⟨j, w₀, w', hj, hr, hws, _⟩
    · rw [h]; exact hi
    · rw [hws]
      by_cases hji : j = i
      · subst hji
        rw [hi] at hj
        cases hj
        rw [hc] at hr
        cases hr
      · simp [updW, hji, hi]
  · rw [step_ws_parent s e he]; exact hi

theorem anyRunning_congr {s s' : St} (h : s'.ws = s.ws) : anyRunning s' = anyRunning s := by
  simp [anyRunning, h]
theorem allExitedZero_congr {s s' : St} (h : s'.ws = s.ws) : allExitedZero s' = allExitedZero s := by
  simp [allExitedZero, h]
theorem anyFailed_congr {s s' : St} (h : s'.ws = s.ws) : anyFailed s' = anyFailed s := by
  simp [anyFailed, h]
theorem evalPred_congr {s s' : St} (h : s'.ws = s.ws) (p : Pred) : evalPred s' p = evalPred s p := by
  cases p <;> simp [evalPred, anyFailed, anyRunning, allExitedZero, allRunning, h]
theorem checkPC_congr {s s' : St} (h : s'.ws = s.ws) (pc : PC) : checkPC s' pc = checkPC s pc := by
  unfold checkPC
  split
  · rw [evalPred_congr h]
  · rfl

theorem checkPC_pc (s : St) (x pc : PC) : checkPC { s with pc := x } pc = checkPC s pc := checkPC_congr rfl pc

/-- once no worker is running, no event changes the workers -/
theorem quiet_step_ws {s : St} (hq : anyRunning s = false) (e : Ev) : (step s e).ws = s.ws := by
  rcases ev_cases e with he | he
  · rcases worker_cases s e he with h | ⟨j, w₀, w', hj, hr, _, _⟩
    · rw [h]
    · simp only [anyRunning, List.any_eq_false, beq_iff_eq] at hq
      exact absurd hr (hq w₀ (List.mem_iff_getElem?.2 ⟨j, hj⟩))
  · exact step_ws_parent s e he

def wMeasure (w : Worker) : Nat :=
  match w.st with | .running => 2 * w.todo.length + w.buf.length + 1 | .exited _ => 0

def workMeasure (s : St) : Nat := (s.ws.map wMeasure).sum

theorem measure_set {ws : List Worker} {i : Nat} {w : Worker} (w' : Worker) (h : ws[i]? = some w)
    (hlt : wMeasure w' < wMeasure w) : ((ws.set i w').map wMeasure).sum < (ws.map wMeasure).sum := by
  obtain ⟨l1, l2, h1, h2⟩ := split_set ws i w w' h
  rw [h2, h1]
  simp only [List.map_append, List.map_cons, List.sum_append, List.sum_cons]
  omega

theorem worker_step_decreases (s : St) (e : Ev) (he : match e with | .pGet | .pTimeout | .pCheck => False | _ => True)
    (hne : step s e ≠ s) : workMeasure (step s e) < workMeasure s := by
  cases e with
  | wPut j =>
    simp only [step, stepH] at hne ⊢
    split at hne
    · rename_i m t b hw
      simp only [workMeasure, updW]
      exact measure_set _ hw (by simp [wMeasure]; omega)
    · exact absurd rfl hne
  | wFlush j =>
    simp only [step, stepH] at hne ⊢
    split at hne
    · rename_i t m b hw
      simp only [workMeasure, updW]
      exact measure_set _ hw (by simp [wMeasure])
    · exact absurd rfl hne
  | wExit j =>
    simp only [step, stepH] at hne ⊢
    split at hne
    · rename_i hw
      simp only [workMeasure, updW]
      exact measure_set _ hw (by simp [wMeasure])
    · exact absurd rfl hne
  | wDie j code =>
    simp only [step, stepH] at hne ⊢
    split at hne
    · rename_i t b hw
      split at hne
      · exact absurd rfl hne
      · rename_i hc
        simp only [hc, if_false, workMeasure, updW]
        exact measure_set _ hw (by simp [wMeasure])
    · exact absurd rfl hne
  | pGet => exact he.elim
  | pTimeout => exact he.elim
  | pCheck => exact he.elim

/-! ## the states inside the handler -/
@[simp] theorem checkPC_atGet (s : St) : checkPC s .atGet = .atGet := rfl
@[simp] theorem checkPC_done (s : St) : checkPC s .done = .done := rfl
@[simp] theorem checkPC_failed (s : St) : checkPC s .failed = .failed := rfl
@[simp] theorem checkPC_h1 (s : St) : checkPC s (.eval refHandler) = if anyFailed s then .failed else .eval h2 := by
  show enterPC (if anyFailed s = true then _ else _) = _
  cases anyFailed s <;> rfl
@[simp] theorem checkPC_h2 (s : St) : checkPC s (.eval h2) = if anyRunning s then .atGet else .eval h3 := by
  show enterPC (if anyRunning s = true then _ else _) = _
  cases anyRunning s <;> rfl
@[simp] theorem checkPC_h3 (s : St) : checkPC s (.eval h3) = if allExitedZero s then .atGet else .failed := by
  show enterPC (if allExitedZero s = true then _ else _) = _
  cases allExitedZero s <;> rfl

theorem h1_ne_h3 : PC.eval refHandler ≠ PC.eval h3 := by simp [refHandler, h3]
theorem h2_ne_h3 : PC.eval h2 ≠ PC.eval h3 := by simp [h2, h3]

/-- the invariant of the parent's program counter: it is at `get`, has left the loop, or is inside the handler at one of the
    three polls of `refHandler`; and it is at the third poll (`all_exited`) only if the second (`one_is_alive`) found no
    worker running — which, workers never coming back to life, still holds -/
structure HInv (s : St) : Prop where
  pcs : s.pc = .atGet ∨ s.pc = .done ∨ s.pc = .failed ∨ s.pc = .eval refHandler ∨ s.pc = .eval h2 ∨ s.pc = .eval h3
  quiet : s.pc = .eval h3 → anyRunning s = false

theorem hinv_init (batches : List (List Nat)) : HInv (init batches) := by
  refine ⟨?_, ?_⟩
  · simp only [init]; split <;> simp
  · simp only [init]; split <;> simp

theorem hinv_step {s : St} (h : HInv s) (e : Ev) : HInv (step s e) := by
  rcases ev_cases e with he | rfl | rfl | rfl
  · rcases worker_cases s e he with h' | ⟨j, w₀, w', _, _, _, hpc⟩
    · rw [h']; exact h
    · refine ⟨by rw [hpc]; exact h.pcs, fun hp => ?_⟩
      have hq := h.quiet (by rw [← hpc]; exact hp)
      exact (anyRunning_congr (quiet_step_ws hq e)).trans hq
  · simp only [step, stepH]
    split
    · rename_i m c _ _
      have hpc := receive_pc { s with chan := c } m
      refine ⟨?_, ?_⟩
      · rcases hpc with h' | h' <;> simp [h']
      · intro hp
        rcases hpc with h' | h' <;> rw [h'] at hp <;> cases hp
    · exact h
  · rcases step_pTimeout s with h' | ⟨_, _, h'⟩ <;> rw [h']
    · exact h
    · exact ⟨by simp, fun hp => absurd hp h1_ne_h3⟩
  · rw [step_pCheck]
    rcases h.pcs with hp | hp | hp | hp | hp | hp
    · have : checkPC s s.pc = s.pc := by rw [hp]; rfl
      rw [this]; exact h
    · have : checkPC s s.pc = s.pc := by rw [hp]; rfl
      rw [this]; exact h
    · have : checkPC s s.pc = s.pc := by rw [hp]; rfl
      rw [this]; exact h
    · rw [hp, checkPC_h1]
      cases anyFailed s
      · exact ⟨by simp, fun hp => absurd hp (by simpa using h2_ne_h3)⟩
      · exact ⟨by simp, fun hp => by simp at hp⟩
    · rw [hp, checkPC_h2]
      cases hr : anyRunning s
      · exact ⟨by simp, fun _ => hr⟩
      · exact ⟨by simp, fun hp => by simp at hp⟩
    · rw [hp, checkPC_h3]
      cases allExitedZero s
      · exact ⟨by simp, fun hp => by simp at hp⟩
      · exact ⟨by simp, fun hp => by simp at hp⟩

theorem hinv_run {s : St} (h : HInv s) (es : List Ev) : HInv (run s es) := by
  induction es generalizing s with
  | nil => exact h
  | cons e es ih => exact ih (hinv_step h e)

theorem hinv_reach (batches : List (List Nat)) (es : List Ev) : HInv (run (init batches) es) :=
  hinv_run (hinv_init batches) es

theorem never_stuck (batches : List (List Nat)) (es : List Ev) : (run (init batches) es).pc ≠ .stuck := by
  intro hs
  rcases (hinv_reach batches es).pcs with hp | hp | hp | hp | hp | hp <;> rw [hs] at hp <;> cases hp

/-! ## failure only by death -/
def isDeath : Ev → Bool
  | .wDie _ c => c != 0
  | _ => false

/-- `failed` is entered only by a poll: `one_failed` says yes, or `all_exited` says no — and that poll is only made after
    `one_is_alive` said no -/
theorem failed_origin (s : St) (hi : HInv s) (e : Ev) (h : (step s e).pc = .failed) :
    s.pc = .failed ∨
      ((anyFailed s = true ∨ (anyRunning s = false ∧ allExitedZero s = false)) ∧ (step s e).ws = s.ws) := by
  rcases ev_cases e with he | rfl | rfl | rfl
  · rcases worker_cases s e he with h' | ⟨_, _, _, _, _, _, hpc⟩
    · rw [h'] at h; exact Or.inl h
    · rw [hpc] at h; exact Or.inl h
  · left
    simp only [step, stepH] at h
    split at h
    · rcases receive_pc _ _ with h' | h' <;> rw [h'] at h <;> cases h
    · exact h
  · left
    rcases step_pTimeout s with h' | ⟨_, _, h'⟩ <;> rw [h'] at h
    · exact h
    · cases h
  · have hws := step_ws_parent s .pCheck (Or.inr (Or.inr rfl))
    rw [step_pCheck] at h
    rcases hi.pcs with hp | hp | hp | hp | hp | hp
    · rw [hp] at h; cases h
    · rw [hp] at h; cases h
    · exact Or.inl hp
    · rw [hp] at h
      cases hf : anyFailed s
      · simp [hf] at h
      · exact Or.inr ⟨Or.inl rfl, hws⟩
    · rw [hp] at h
      cases hr : anyRunning s <;> simp [hr] at h
    · rw [hp] at h
      cases hz : allExitedZero s
      · exact Or.inr ⟨Or.inr ⟨hi.quiet hp, rfl⟩, hws⟩
      · simp [hz] at h

theorem check_failed {s : St} (hr : anyRunning s = false) (hz : allExitedZero s = false) :
    ∃ w ∈ s.ws, ∃ c, w.st = .exited c ∧ c ≠ 0 := by
  simp only [allExitedZero, List.all_eq_false, beq_iff_eq] at hz
  simp only [anyRunning, List.any_eq_false, beq_iff_eq] at hr
  obtain ⟨w, hw, hne⟩ := hz
  refine ⟨w, hw, ?_⟩
  cases hst : w.st with
  | running => exact absurd hst (hr w hw)
  | exited c =>
    refine ⟨c, rfl, ?_⟩
    intro h0
    subst h0
    exact hne hst

theorem anyFailed_witness {s : St} (hf : anyFailed s = true) : ∃ w ∈ s.ws, ∃ c, w.st = .exited c ∧ c ≠ 0 := by
  simp only [anyFailed, List.any_eq_true] at hf
  obtain ⟨w, hw, hc⟩ := hf
  refine ⟨w, hw, ?_⟩
  cases hst : w.st with
  | running => simp [hst] at hc
  | exited c =>
    refine ⟨c, rfl, ?_⟩
    simpa [hst] using hc

theorem check_failed' {s : St} (h : anyFailed s = true ∨ (anyRunning s = false ∧ allExitedZero s = false)) :
    ∃ w ∈ s.ws, ∃ c, w.st = .exited c ∧ c ≠ 0 := by
  rcases h with hf | ⟨hr, hz⟩
  · exact anyFailed_witness hf
  · exact check_failed hr hz

theorem failed_step {s : St} (hi : HInv s) (e : Ev)
    (h : s.pc = .failed → ∃ w ∈ s.ws, ∃ c, w.st = .exited c ∧ c ≠ 0) :
    (step s e).pc = .failed → ∃ w ∈ (step s e).ws, ∃ c, w.st = .exited c ∧ c ≠ 0 := by
  intro hf
  rcases failed_origin s hi e hf with hpc | ⟨hch, hws⟩
  · obtain ⟨w, hw, c, hc, hc0⟩ := h hpc
    obtain ⟨i, hi⟩ := List.mem_iff_getElem?.1 hw
    exact ⟨w, List.mem_iff_getElem?.2 ⟨i, death_persistent s i w hi c hc e⟩, c, hc, hc0⟩
  · rw [hws]
    exact check_failed' hch

theorem failed_has_death (batches : List (List Nat)) (es : List Ev) (h : (run (init batches) es).pc = .failed) :
    ∃ w ∈ (run (init batches) es).ws, ∃ c, w.st = .exited c ∧ c ≠ 0 := by
  have gen : ∀ (es : List Ev) (s : St), HInv s → (s.pc = .failed → ∃ w ∈ s.ws, ∃ c, w.st = .exited c ∧ c ≠ 0) →
      ((run s es).pc = .failed → ∃ w ∈ (run s es).ws, ∃ c, w.st = .exited c ∧ c ≠ 0) := by
    intro es
    induction es with
    | nil => intro s _ hs; exact hs
    | cons e es ih => intro s hi hs; exact ih (step s e) (hinv_step hi e) (failed_step hi e hs)
  refine gen es (init batches) (hinv_init batches) ?_ h
  intro h0
  simp only [init] at h0
  split at h0 <;> cases h0

/-- without a death, every worker is running or has exited with code 0 -/
theorem nodeath_step {s : St} (e : Ev) (he : isDeath e = false)
    (h : ∀ w ∈ s.ws, w.st = .running ∨ w.st = .exited 0) :
    ∀ w ∈ (step s e).ws, w.st = .running ∨ w.st = .exited 0 := by
  have key : ∀ (j : Nat) (w' : Worker), (w'.st = .running ∨ w'.st = .exited 0) →
      ∀ w ∈ updW s.ws j w', w.st = .running ∨ w.st = .exited 0 := by
    intro j w' hw' w hw
    rcases List.mem_or_eq_of_mem_set hw with hw | rfl
    · exact h w hw
    · exact hw'
  cases e with
  | wPut j =>
    simp only [step, stepH]
    split
    · exact key j _ (Or.inl rfl)
    · exact h
  | wFlush j =>
    simp only [step, stepH]
    split
    · exact key j _ (Or.inl rfl)
    · exact h
  | wExit j =>
    simp only [step, stepH]
    split
    · exact key j _ (Or.inr rfl)
    · exact h
  | wDie j code =>
    have hc : code = 0 := by simpa [isDeath] using he
    simp only [step, stepH, hc, if_true]
    split <;> exact h
  | pGet => rw [step_ws_parent s _ (Or.inl rfl)]; exact h
  | pTimeout => rw [step_ws_parent s _ (Or.inr (Or.inl rfl))]; exact h
  | pCheck => rw [step_ws_parent s _ (Or.inr (Or.inr rfl))]; exact h

theorem no_spurious_failure (batches : List (List Nat)) (es : List Ev) (hd : es.any isDeath = false) :
    (run (init batches) es).pc ≠ .failed := by
  have gen : ∀ (es : List Ev) (s : St), es.any isDeath = false → HInv s → s.pc ≠ .failed →
      (∀ w ∈ s.ws, w.st = .running ∨ w.st = .exited 0) → (run s es).pc ≠ .failed := by
    intro es
    induction es with
    | nil => intro s _ _ hs _; exact hs
    | cons e es ih =>
      intro s hd hi hs hw
      simp only [List.any_cons, Bool.or_eq_false_iff] at hd
      refine ih (step s e) hd.2 (hinv_step hi e) ?_ (nodeath_step e hd.1 hw)
      intro hf
      rcases failed_origin s hi e hf with hpc | ⟨hch, _⟩
      · exact hs hpc
      · obtain ⟨w, hw', c, hc, hc0⟩ := check_failed' hch
        rcases hw w hw' with h1 | h1 <;> rw [hc] at h1 <;> cases h1
        exact hc0 rfl
  refine gen es (init batches) hd (hinv_init batches) ?_ ?_
  · simp only [init]
    split <;> simp
  · intro w hw
    simp only [init, List.mem_map] at hw
    obtain ⟨ps, _, rfl⟩ := hw
    exact Or.inl rfl

/-! ## the parent alone, once no worker is running -/
/-- the three polls of the handler -/
def polls : List Ev := [.pCheck, .pCheck, .pCheck]

def drain (n : Nat) : List Ev := List.replicate n .pGet ++ (.pTimeout :: polls)

theorem pGet_stutter {s : St} (h : s.pc ≠ .atGet) : step s .pGet = s := by
  simp only [step, stepH]
  split
  · rename_i hpc _; exact absurd hpc h
  · rfl

theorem pTimeout_stutter {s : St} (h : s.pc ≠ .atGet) : step s .pTimeout = s := by
  rcases step_pTimeout s with h' | ⟨hpc, _, _⟩
  · exact h'
  · exact absurd hpc h

theorem gets_stutter {s : St} (h : s.pc ≠ .atGet) (n : Nat) : run s (List.replicate n .pGet) = s := by
  induction n with
  | zero => rfl
  | succ n ih => rw [List.replicate_succ, run_cons, pGet_stutter h, ih]

/-- three polls in a row, the workers not moving -/
theorem run_polls (s : St) : run s polls = { s with pc := checkPC s (checkPC s (checkPC s s.pc)) } := by
  simp only [polls, run_cons, run_nil, step_pCheck, checkPC_pc]

theorem drain_notAtGet {s : St} (h : s.pc ≠ .atGet) (n : Nat) : run s (drain n) = run s polls := by
  rw [drain, run_append, gets_stutter h, run_cons, pTimeout_stutter h]

theorem polls_stuck {s : St} (h : s.pc = .done ∨ s.pc = .failed) : run s polls = s := by
  rw [run_polls]
  rcases h with h | h <;> simp [h] <;> rw [← h]

theorem drain_stuck {s : St} (h : s.pc = .done ∨ s.pc = .failed) (n : Nat) : run s (drain n) = s := by
  have h1 : s.pc ≠ .atGet := by rcases h with h | h <;> simp [h]
  rw [drain_notAtGet h1, polls_stuck h]

theorem drain_gets (n : Nat) : ∀ (s : St), s.chan.length = n → s.pc = .atGet →
    (run s (List.replicate n .pGet)).ws = s.ws ∧
    ((run s (List.replicate n .pGet)).pc = .done ∨
      ((run s (List.replicate n .pGet)).pc = .atGet ∧ (run s (List.replicate n .pGet)).chan = [])) := by
  induction n with
  | zero =>
    intro s hn hpc
    exact ⟨rfl, Or.inr ⟨hpc, List.length_eq_zero_iff.1 hn⟩⟩
  | succ n ih =>
    intro s hn hpc
    cases hc : s.chan with
    | nil => simp [hc] at hn
    | cons m c =>
      have hstep : step s .pGet = receive { s with chan := c } m := by
        simp only [step, stepH, hpc, hc]
      rw [List.replicate_succ, run_cons, hstep]
      have hws := receive_ws { s with chan := c } m
      have hch := receive_chan { s with chan := c } m
      rcases receive_pc { s with chan := c } m with hd | hg
      · rw [gets_stutter (by simp [hd])]
        exact ⟨hws, Or.inl hd⟩
      · have hlen : (receive { s with chan := c } m).chan.length = n := by
          rw [hch]; simp [hc] at hn; exact hn
        obtain ⟨h1, h2⟩ := ih _ hlen hg
        exact ⟨h1.trans hws, h2⟩

/-- a whole run of the handler, the workers not moving -/
theorem handler_run {s : St} (hpc : s.pc = .atGet) (hc : s.chan = []) :
    run s (.pTimeout :: polls) = { s with pc := checkPC s (checkPC s (checkPC s (.eval refHandler))) } := by
  rcases step_pTimeout s with h' | ⟨_, _, h'⟩
  · simp only [step, stepH, hpc, hc] at h'
    have := congrArg St.pc h'
    rw [enter_eq, hpc] at this
    cases this
  · rw [run_cons, h', run_polls]
    simp only [checkPC_pc]

theorem final_check {s : St} (hpc : s.pc = .atGet) (hc : s.chan = []) (hr : anyRunning s = false) :
    run s (.pTimeout :: polls) =
      { s with pc := if anyFailed s then .failed else if allExitedZero s then .atGet else .failed } := by
  rw [handler_run hpc hc]
  cases hf : anyFailed s <;> cases hz : allExitedZero s <;> simp [hf, hz, hr]

/-- with a failed worker the timeout and the polls end in `failed`, whatever the other workers are doing -/
theorem final_check_failed {s : St} (hpc : s.pc = .atGet) (hc : s.chan = []) (hf : anyFailed s = true) :
    run s (.pTimeout :: polls) = { s with pc := .failed } := by
  rw [handler_run hpc hc]
  simp [hf]

theorem inv_quiet_done {batches : List (List Nat)} {s : St} (h : Inv batches s) (hz : allExitedZero s = true)
    (hc : s.chan = []) : s.pc = .done := by
  have hW : W s.ws = [] := by
    simp only [W, List.flatMap_eq_nil_iff]
    intro w hw
    simp only [allExitedZero, List.all_eq_true, beq_iff_eq] at hz
    obtain ⟨h1, h2⟩ := h.zero w hw (hz w hw)
    simp [h1, h2]
  have hcount := h.cons.count_eq Msg.sentinel
  rw [count_sentinel_target] at hcount
  simp only [pool, hc, hW, List.count_append, List.count_replicate_self, List.count_nil] at hcount
  have : List.count Msg.sentinel (List.map Msg.item s.got) = 0 := by
    apply List.count_eq_zero.2
    simp
  apply h.pcd.2
  rw [h.len]
  omega

theorem anyFailed_not_zero {s : St} (hf : anyFailed s = true) : allExitedZero s = false := by
  obtain ⟨w, hw, c, hc, hc0⟩ := anyFailed_witness hf
  simp only [allExitedZero, List.all_eq_false, beq_iff_eq]
  refine ⟨w, hw, ?_⟩
  rw [hc]
  intro heq
  cases heq
  exact hc0 rfl

/-- termination from a reachable quiescent state in which the parent is not inside the handler -/
theorem drain_terminates {batches : List (List Nat)} {s : St} (h : Inv batches s) (hi : HInv s) (hq : anyRunning s = false)
    (hpc : ∀ p, s.pc ≠ .eval p) :
    (run s (drain s.chan.length)).pc = .done ∨ (run s (drain s.chan.length)).pc = .failed := by
  rcases hi.pcs with hp | hp | hp | hp | hp | hp
  · obtain ⟨hws, hcase⟩ := drain_gets s.chan.length s rfl hp
    have hinv := inv_run h (List.replicate s.chan.length .pGet)
    rw [drain, run_append]
    generalize run s (List.replicate s.chan.length .pGet) = s2 at hws hcase hinv
    rcases hcase with hd | ⟨hg, hch⟩
    · have h1 : s2.pc ≠ .atGet := by simp [hd]
      rw [run_cons, pTimeout_stutter h1, polls_stuck (Or.inl hd)]
      exact Or.inl hd
    · rw [final_check hg hch ((anyRunning_congr hws).trans hq)]
      cases hf : anyFailed s2 with
      | true => right; simp
      | false =>
        cases hz : allExitedZero s2 with
        | false => right; simp
        | true =>
          have := inv_quiet_done hinv hz hch
          rw [hg] at this
          cases this
  · rw [drain_stuck (Or.inl hp)]; exact Or.inl hp
  · rw [drain_stuck (Or.inr hp)]; exact Or.inr hp
  · exact absurd hp (hpc _)
  · exact absurd hp (hpc _)
  · exact absurd hp (hpc _)

/-- the pending polls of a quiescent state lead out of the handler -/
theorem polls_exit_quiet {s : St} (hi : HInv s) (hq : anyRunning s = false) (p : Prog) :
    checkPC s (checkPC s (checkPC s s.pc)) ≠ .eval p := by
  rcases hi.pcs with hp | hp | hp | hp | hp | hp <;> rw [hp] <;>
    cases hf : anyFailed s <;> cases hz : allExitedZero s <;> simp [hf, hz, hq]

/-- with a failed worker the pending polls lead out of the handler, whatever the other workers are doing -/
theorem polls_exit_failed {s : St} (hi : HInv s) (hf : anyFailed s = true) (p : Prog) :
    checkPC s (checkPC s (checkPC s s.pc)) ≠ .eval p := by
  have hz := anyFailed_not_zero hf
  rcases hi.pcs with hp | hp | hp | hp | hp | hp <;> rw [hp] <;>
    cases hr : anyRunning s <;> simp [hf, hz, hr]

theorem polls_ws (s : St) : (run s polls).ws = s.ws := by rw [run_polls]
theorem polls_chan (s : St) : (run s polls).chan = s.chan := by rw [run_polls]

/-- termination for every reachable quiescent state: the pending polls first -/
theorem drain_terminates' {batches : List (List Nat)} {s : St} (h : Inv batches s) (hi : HInv s) (hq : anyRunning s = false) :
    (run s (polls ++ drain s.chan.length)).pc = .done ∨ (run s (polls ++ drain s.chan.length)).pc = .failed := by
  rw [run_append]
  have hpc : ∀ p, (run s polls).pc ≠ .eval p := by
    intro p; rw [run_polls]; exact polls_exit_quiet hi hq p
  have := drain_terminates (inv_run h polls) (hinv_run hi polls) ((anyRunning_congr (polls_ws s)).trans hq) hpc
  rw [polls_chan] at this
  exact this

theorem inv_done_undelivered {batches : List (List Nat)} {s : St} (h : Inv batches s) (hd : s.pc = .done) :
    ∀ w ∈ s.ws, w.buf ++ w.todo = [] := by
  obtain ⟨_, hW⟩ := inv_all_empty h (h.pcd.1 hd)
  simpa [W, List.flatMap_eq_nil_iff] using hW

theorem drain_death_fails {batches : List (List Nat)} {s : St} (h : Inv batches s) (hi : HInv s) (hq : anyRunning s = false)
    (hw : ∃ w ∈ s.ws, (∃ c, w.st = .exited c ∧ c ≠ 0) ∧ w.buf ++ w.todo ≠ []) :
    (run s (drain s.chan.length)).pc = .failed := by
  obtain ⟨w, hwm, ⟨c, hc, hc0⟩, hund⟩ := hw
  have hz : allExitedZero s = false := by
    simp only [allExitedZero, List.all_eq_false, beq_iff_eq]
    refine ⟨w, hwm, ?_⟩
    rw [hc]
    intro heq
    cases heq
    exact hc0 rfl
  have inH : ∀ q, s.pc = .eval q → checkPC s (checkPC s (checkPC s (.eval q))) = .failed →
      (run s (drain s.chan.length)).pc = .failed := by
    intro q hp hres
    rw [drain_notAtGet (by simp [hp]), run_polls, hp]
    exact hres
  rcases hi.pcs with hp | hp | hp | hp | hp | hp
  · obtain ⟨hws, hcase⟩ := drain_gets s.chan.length s rfl hp
    have hinv := inv_run h (List.replicate s.chan.length .pGet)
    rw [drain, run_append]
    generalize run s (List.replicate s.chan.length .pGet) = s2 at hws hcase hinv
    rcases hcase with hd | ⟨hg, hch⟩
    · exact absurd (inv_done_undelivered hinv hd w (hws ▸ hwm)) hund
    · rw [final_check hg hch ((anyRunning_congr hws).trans hq), allExitedZero_congr hws, hz]
      cases anyFailed s2 <;> simp
  · exact absurd (inv_done_undelivered h hp w hwm) hund
  · rw [drain_stuck (Or.inr hp)]; exact hp
  · exact inH _ hp (by cases hf : anyFailed s <;> simp [hf, hq, hz])
  · exact inH _ hp (by simp [hq, hz])
  · exact inH _ hp (by simp [hz])

/-- once some worker has failed, the parent alone terminates (the pending polls, the reads, one timeout, the polls),
    whatever the state of the other workers; only the invariant of the program counter is needed -/
theorem drain_failed_terminates {s : St} (hi : HInv s) (hf : anyFailed s = true) :
    (run s (polls ++ drain s.chan.length)).pc = .done ∨ (run s (polls ++ drain s.chan.length)).pc = .failed := by
  rw [run_append]
  have hi1 := hinv_run hi polls
  have hpc : ∀ p, (run s polls).pc ≠ .eval p := by
    intro p; rw [run_polls]; exact polls_exit_failed hi hf p
  have hf1 : anyFailed (run s polls) = true := (anyFailed_congr (polls_ws s)).trans hf
  rw [← polls_chan s]
  generalize run s polls = s1 at hi1 hpc hf1
  rcases hi1.pcs with hp | hp | hp | hp | hp | hp
  · obtain ⟨hws, hcase⟩ := drain_gets s1.chan.length s1 rfl hp
    rw [drain, run_append]
    generalize run s1 (List.replicate s1.chan.length .pGet) = s2 at hws hcase
    rcases hcase with hd | ⟨hg, hch⟩
    · have h1 : s2.pc ≠ .atGet := by simp [hd]
      rw [run_cons, pTimeout_stutter h1, polls_stuck (Or.inl hd)]
      exact Or.inl hd
    · rw [final_check_failed hg hch ((anyFailed_congr hws).trans hf1)]
      exact Or.inr rfl
  · rw [drain_stuck (Or.inl hp)]; exact Or.inl hp
  · rw [drain_stuck (Or.inr hp)]; exact Or.inr hp
  · exact absurd hp (hpc _)
  · exact absurd hp (hpc _)
  · exact absurd hp (hpc _)

end Gaftools.Proofs.Realign
