import Gaftools.Model.View
import Gaftools.Spec.View
import Gaftools.Props.C03s
/-!
# Helper lemmas for `Props/C03.lean` (index, `view --node`, `view --region`)
-/
namespace Gaftools.Proofs.View
open Gaftools.Conv Gaftools.View Gaftools.Spec.View
open Gaftools.Spec.Conv (SortedDisjoint overlaps)

/-! ## generic list facts -/

theorem nodup_map_inj {α β : Type} (f : α → β) :
    ∀ (l : List α), (l.map f).Nodup → ∀ a ∈ l, ∀ b ∈ l, f a = f b → a = b := by
  intro l
  induction l with
  | nil => intro _ a ha; simp at ha
  | cons x xs ih =>
    intro h a ha b hb hab
    rw [List.map_cons, List.nodup_cons] at h
    have key : ∀ y ∈ xs, f x ≠ f y := fun y hy e => h.1 (e ▸ List.mem_map_of_mem (f := f) hy)
    rcases List.mem_cons.mp ha with ea | ha' <;> rcases List.mem_cons.mp hb with eb | hb'
    · rw [ea, eb]
    · subst ea; exact absurd hab (key b hb')
    · subst eb; exact absurd hab.symm (key a ha')
    · exact ih h.2 a ha' b hb' hab

theorem nodup_eraseDups_aux {α : Type} [BEq α] [LawfulBEq α] :
    ∀ (n : Nat) (l : List α), l.length ≤ n → l.eraseDups.Nodup := by
  intro n
  induction n with
  | zero =>
    intro l hl
    have : l = [] := List.length_eq_zero_iff.mp (by omega)
    subst this; simp
  | succ n ih =>
    intro l hl
    cases l with
    | nil => simp
    | cons a as =>
      rw [List.eraseDups_cons, List.nodup_cons]
      constructor
      · rw [List.mem_eraseDups]; simp
      · apply ih
        have := List.length_filter_le (fun b => !b == a) as
        simp at hl; omega

theorem nodup_eraseDups {α : Type} [BEq α] [LawfulBEq α] (l : List α) : l.eraseDups.Nodup :=
  nodup_eraseDups_aux l.length l (Nat.le_refl _)

theorem eraseDups_of_nodup {α : Type} [BEq α] [LawfulBEq α] : ∀ (l : List α), l.Nodup → l.eraseDups = l := by
  intro l
  induction l with
  | nil => intro _; rfl
  | cons a as ih =>
    intro h
    rw [List.nodup_cons] at h
    rw [List.eraseDups_cons]
    have : as.filter (fun b => !b == a) = as := by
      rw [List.filter_eq_self]
      intro b hb
      simp only [Bool.not_eq_eq_eq_not, Bool.not_true, beq_eq_false_iff_ne, ne_eq]
      rintro rfl; exact h.1 hb
    rw [this, ih h.2]

/-- two strictly increasing lists with the same members are equal -/
theorem eq_of_lt_of_mem : ∀ (l1 l2 : List Nat), l1.Pairwise (· < ·) → l2.Pairwise (· < ·) →
    (∀ x, x ∈ l1 ↔ x ∈ l2) → l1 = l2 := by
  intro l1
  induction l1 with
  | nil =>
    intro l2 _ _ h
    cases l2 with
    | nil => rfl
    | cons b bs => exact absurd ((h b).mpr (by simp)) (by simp)
  | cons a as ih =>
    intro l2 h1 h2 h
    cases l2 with
    | nil => exact absurd ((h a).mp (by simp)) (by simp)
    | cons b bs =>
      rw [List.pairwise_cons] at h1 h2
      have hab : a = b := by
        have ha := (h a).mp (by simp)
        have hb := (h b).mpr (by simp)
        rcases List.mem_cons.mp ha with e | ha
        · exact e
        · rcases List.mem_cons.mp hb with e | hb
          · exact e.symm
          · have := h1.1 b hb; have := h2.1 a ha; omega
      subst hab
      congr 1
      apply ih bs h1.2 h2.2
      intro x
      constructor
      · intro hx
        rcases List.mem_cons.mp ((h x).mp (by simp [hx])) with e | hx'
        · have := h1.1 x hx; omega
        · exact hx'
      · intro hx
        rcases List.mem_cons.mp ((h x).mpr (by simp [hx])) with e | hx'
        · have := h2.1 x hx; omega
        · exact hx'

/-! ## `sortNat` -/

theorem mem_insertNat (x y : Nat) (l : List Nat) : y ∈ insertNat x l ↔ y = x ∨ y ∈ l := by
  induction l with
  | nil => simp [insertNat]
  | cons z zs ih =>
    unfold insertNat
    split
    · simp
    · simp only [List.mem_cons, ih]
      constructor
      · rintro (h | h | h) <;> simp [h]
      · rintro (h | h | h) <;> simp [h]

theorem mem_sortNat (l : List Nat) (x : Nat) : x ∈ sortNat l ↔ x ∈ l := by
  induction l with
  | nil => simp [sortNat]
  | cons a as ih =>
    have : sortNat (a :: as) = insertNat a (sortNat as) := rfl
    rw [this, mem_insertNat, ih, List.mem_cons]

theorem insertNat_sorted (x : Nat) (l : List Nat) (h : l.Pairwise (· ≤ ·)) : (insertNat x l).Pairwise (· ≤ ·) := by
  induction l with
  | nil => simp [insertNat]
  | cons y ys ih =>
    rw [List.pairwise_cons] at h
    unfold insertNat
    split
    · rename_i hxy
      rw [List.pairwise_cons]
      refine ⟨?_, List.pairwise_cons.mpr h⟩
      intro z hz
      rcases List.mem_cons.mp hz with rfl | hz
      · exact hxy
      · have := h.1 z hz; omega
    · rename_i hxy
      rw [List.pairwise_cons]
      refine ⟨?_, ih h.2⟩
      intro z hz
      rcases (mem_insertNat x z ys).mp hz with rfl | hz
      · omega
      · exact h.1 z hz

theorem sortNat_sorted (l : List Nat) : (sortNat l).Pairwise (· ≤ ·) := by
  induction l with
  | nil => simp [sortNat]
  | cons a as ih => exact insertNat_sorted a _ ih

theorem insertNat_lt (x : Nat) (l : List Nat) (h : l.Pairwise (· < ·)) (hx : x ∉ l) :
    (insertNat x l).Pairwise (· < ·) := by
  induction l with
  | nil => simp [insertNat]
  | cons y ys ih =>
    rw [List.pairwise_cons] at h
    have hne : x ≠ y := fun e => hx (by simp [e])
    have hx' : x ∉ ys := fun e => hx (by simp [e])
    unfold insertNat
    split
    · rename_i hxy
      rw [List.pairwise_cons]
      refine ⟨?_, List.pairwise_cons.mpr h⟩
      intro z hz
      rcases List.mem_cons.mp hz with rfl | hz
      · omega
      · have := h.1 z hz; omega
    · rename_i hxy
      rw [List.pairwise_cons]
      refine ⟨?_, ih h.2 hx'⟩
      intro z hz
      rcases (mem_insertNat x z ys).mp hz with rfl | hz
      · omega
      · exact h.1 z hz

theorem sortNat_lt (l : List Nat) (h : l.Nodup) : (sortNat l).Pairwise (· < ·) := by
  induction l with
  | nil => simp [sortNat]
  | cons a as ih =>
    rw [List.nodup_cons] at h
    exact insertNat_lt a _ (ih h.2) (fun e => h.1 ((mem_sortNat as a).mp e))

/-! ## filtered `zipIdx` -/

theorem zipIdx_filter_lt {α : Type} (p : α × Nat → Bool) : ∀ (l : List α) (k : Nat),
    (((l.zipIdx k).filter p).map (·.2)).Pairwise (· < ·) := by
  intro l
  induction l with
  | nil => intro k; simp
  | cons a as ih =>
    intro k
    rw [List.zipIdx_cons, List.filter_cons]
    split
    · rw [List.map_cons, List.pairwise_cons]
      refine ⟨?_, ih (k + 1)⟩
      intro z hz
      rw [List.mem_map] at hz
      obtain ⟨x, hx, rfl⟩ := hz
      have := List.le_snd_of_mem_zipIdx (List.mem_filter.mp hx).1
      show k < x.2
      omega
    · exact ih (k + 1)

theorem mem_zipIdx_filter {α : Type} (p : α × Nat → Bool) (l : List α) (i : Nat) :
    i ∈ ((l.zipIdx).filter p).map (·.2) ↔ ∃ r, l[i]? = some r ∧ p (r, i) = true := by
  simp only [List.mem_map, List.mem_filter, List.mem_zipIdx_iff_getElem?]
  constructor
  · rintro ⟨⟨r, j⟩, ⟨h1, h2⟩, rfl⟩; exact ⟨r, h1, h2⟩
  · rintro ⟨r, h1, h2⟩; exact ⟨(r, i), ⟨h1, h2⟩, rfl⟩

/-! ## `idxAdd` -/

/-- ordinal `i` is listed under key `k` -/
def Has (idx : List (Key × List Nat)) (k : Key) (i : Nat) : Prop := ∃ e ∈ idx, e.1 = k ∧ i ∈ e.2

theorem idxAdd_keys (idx : List (Key × List Nat)) (k : Key) (ord : Nat) :
    (idxAdd idx k ord).map (·.1) = if k ∈ idx.map (·.1) then idx.map (·.1) else idx.map (·.1) ++ [k] := by
  unfold idxAdd
  by_cases h : idx.any (·.1 == k) = true
  · have hk : k ∈ idx.map (·.1) := by
      rw [List.any_eq_true] at h
      obtain ⟨e, he, hek⟩ := h
      exact List.mem_map.mpr ⟨e, he, by simpa using hek⟩
    rw [if_pos h, if_pos hk, List.map_map]
    apply List.map_congr_left
    intro e _
    simp only [Function.comp]
    split <;> rfl
  · have hk : k ∉ idx.map (·.1) := by
      intro hk
      apply h
      rw [List.any_eq_true]
      obtain ⟨e, he, hek⟩ := List.mem_map.mp hk
      exact ⟨e, he, by simpa using hek⟩
    rw [if_neg h, if_neg hk]
    simp

theorem has_idxAdd (idx : List (Key × List Nat)) (k k' : Key) (ord i : Nat) :
    Has (idxAdd idx k ord) k' i ↔ Has idx k' i ∨ (k' = k ∧ i = ord) := by
  unfold idxAdd Has
  by_cases h : idx.any (·.1 == k) = true
  · rw [if_pos h]
    rw [List.any_eq_true] at h
    obtain ⟨e0, he0, hek0⟩ := h
    have hek0 : e0.1 = k := by simpa using hek0
    constructor
    · rintro ⟨e', he', hk', hi⟩
      obtain ⟨e, he, rfl⟩ := List.mem_map.mp he'
      by_cases hek : (e.1 == k) = true
      · rw [if_pos hek] at hk' hi
        simp only at hk' hi
        rcases List.mem_append.mp hi with hi | hi
        · exact Or.inl ⟨e, he, hk', hi⟩
        · refine Or.inr ⟨?_, by simpa using hi⟩
          rw [← hk']; simpa using hek
      · rw [if_neg hek] at hk' hi
        exact Or.inl ⟨e, he, hk', hi⟩
    · rintro (⟨e, he, hk', hi⟩ | ⟨rfl, rfl⟩)
      · refine ⟨_, List.mem_map.mpr ⟨e, he, rfl⟩, ?_, ?_⟩
        · split <;> exact hk'
        · split
          · exact List.mem_append.mpr (Or.inl hi)
          · exact hi
      · refine ⟨_, List.mem_map.mpr ⟨e0, he0, rfl⟩, ?_, ?_⟩
        · split <;> exact hek0
        · rw [if_pos (by simpa using hek0)]
          simp
  · rw [if_neg h]
    constructor
    · rintro ⟨e, he, hk', hi⟩
      rcases List.mem_append.mp he with he | he
      · exact Or.inl ⟨e, he, hk', hi⟩
      · have : e = (k, [ord]) := by simpa using he
        subst this
        exact Or.inr ⟨hk'.symm, by simpa using hi⟩
    · rintro (⟨e, he, hk', hi⟩ | ⟨rfl, rfl⟩)
      · exact ⟨e, List.mem_append.mpr (Or.inl he), hk', hi⟩
      · exact ⟨(k', [i]), by simp, rfl, by simp⟩

theorem mem_idxAdd_keys (idx : List (Key × List Nat)) (k k' : Key) (ord : Nat) :
    k' ∈ (idxAdd idx k ord).map (·.1) ↔ k' ∈ idx.map (·.1) ∨ k' = k := by
  rw [idxAdd_keys]
  split
  · rename_i h
    constructor
    · exact Or.inl
    · rintro (h' | rfl)
      · exact h'
      · exact h
  · simp

theorem idxAdd_nodup (idx : List (Key × List Nat)) (k : Key) (ord : Nat) (h : (idx.map (·.1)).Nodup) :
    ((idxAdd idx k ord).map (·.1)).Nodup := by
  rw [idxAdd_keys]
  split
  · exact h
  · rename_i hk
    rw [List.nodup_append]
    refine ⟨h, by simp, ?_⟩
    intro a ha b hb
    have : b = k := by simpa using hb
    subst this
    rintro rfl
    exact hk ha

/-! ## `entryOf` -/

theorem mem_entryOf (idx : List (Key × List Nat)) (hn : (idx.map (·.1.1)).Nodup) (q : String) (i : Nat) :
    i ∈ entryOf idx q ↔ ∃ e ∈ idx, e.1.1 = q ∧ i ∈ e.2 := by
  unfold entryOf
  split
  · rename_i e hlast
    have hmem := List.mem_of_getLast? hlast
    rw [List.mem_filter] at hmem
    have heq : e.1.1 = q := by simpa using hmem.2
    constructor
    · intro hi; exact ⟨e, hmem.1, heq, hi⟩
    · rintro ⟨e', he', hq', hi⟩
      have : e' = e := nodup_map_inj (fun e : Key × List Nat => e.1.1) idx hn e' he' e hmem.1 (hq'.trans heq.symm)
      rw [← this]; exact hi
  · rename_i hlast
    rw [List.getLast?_eq_none_iff, List.filter_eq_nil_iff] at hlast
    constructor
    · intro hi; simp at hi
    · rintro ⟨e, he, hq, _⟩
      exact absurd (by simpa using hq) (hlast e he)

/-! ## `contigNodes`, `reference` -/

theorem mem_insertBySo (x y : NodeInfo) (l : List NodeInfo) : y ∈ insertBySo x l ↔ y = x ∨ y ∈ l := by
  induction l with
  | nil => simp [insertBySo]
  | cons z zs ih =>
    unfold insertBySo
    split
    · simp
    · simp only [List.mem_cons, ih]
      constructor
      · rintro (h | h | h) <;> simp [h]
      · rintro (h | h | h) <;> simp [h]

theorem mem_foldl_insertBySo (n : NodeInfo) (xs : List NodeInfo) :
    ∀ acc : List NodeInfo, n ∈ xs.foldl (fun acc x => insertBySo x acc) acc ↔ n ∈ xs ∨ n ∈ acc := by
  induction xs with
  | nil => intro acc; simp
  | cons x xs ih =>
    intro acc
    simp only [List.foldl_cons, ih, mem_insertBySo, List.mem_cons]
    constructor
    · rintro (h | h | h) <;> simp [h]
    · rintro ((h | h) | h) <;> simp [h]

theorem mem_contigNodes (g : Gfa.Graph) (c : String) (n : NodeInfo) :
    n ∈ contigNodes g c ↔ n ∈ infos g ∧ n.sn = c := by
  unfold contigNodes
  rw [mem_foldl_insertBySo]
  simp

theorem mem_reference (g : Gfa.Graph) (c : String) (sg : Seg) :
    sg ∈ reference g c ↔ ∃ n ∈ infos g, n.sn = c ∧ sg = ⟨n.id, n.so, n.en⟩ := by
  unfold reference
  simp only [List.mem_map, mem_contigNodes]
  constructor
  · rintro ⟨n, ⟨h1, h2⟩, rfl⟩; exact ⟨n, h1, h2, rfl⟩
  · rintro ⟨n, h1, h2, rfl⟩; exact ⟨n, ⟨h1, h2⟩, rfl⟩

/-! ## `regionNodes` -/

theorem mem_insK (x y : Key) (l : List Key) : y ∈ regionNodes.insK x l ↔ y = x ∨ y ∈ l := by
  induction l with
  | nil => simp [regionNodes.insK]
  | cons z zs ih =>
    unfold regionNodes.insK
    split
    · simp
    · simp only [List.mem_cons, ih]
      constructor
      · rintro (h | h | h) <;> simp [h]
      · rintro (h | h | h) <;> simp [h]

theorem mem_foldl_insK (n : Key) (xs : List Key) :
    ∀ acc : List Key, n ∈ xs.foldl (fun acc x => regionNodes.insK x acc) acc ↔ n ∈ xs ∨ n ∈ acc := by
  induction xs with
  | nil => intro acc; simp
  | cons x xs ih =>
    intro acc
    simp only [List.foldl_cons, ih, mem_insK, List.mem_cons]
    constructor
    · rintro (h | h | h) <;> simp [h]
    · rintro ((h | h) | h) <;> simp [h]

theorem regionNodes_iff (idx : List (Key × List Nat)) (c : String) (a b : Int) (id : String) :
    id ∈ regionNodes idx c a b ↔ ∃ e ∈ idx, e.1.1 = id ∧ e.1.2.1 = c ∧ e.1.2.2.1 ≤ b ∧ a < e.1.2.2.2 := by
  unfold regionNodes
  simp only [List.mem_map, List.mem_filter, mem_foldl_insK, List.not_mem_nil, or_false, beq_iff_eq,
    decide_eq_true_eq]
  constructor
  · rintro ⟨k, ⟨⟨⟨e, he, rfl⟩, hc⟩, hb, ha⟩, rfl⟩
    exact ⟨e, he, rfl, hc, hb, ha⟩
  · rintro ⟨e, he, rfl, hc, hb, ha⟩
    exact ⟨e.1, ⟨⟨⟨e, he, rfl⟩, hc⟩, hb, ha⟩, rfl⟩

/-! ## `convertCoord` -/

/-- contig and query interval of one stable item -/
def itemQ (ps pe : Int) : SItem → String × Int × Int
  | .iv _ c s e => (c, s, e)
  | .bare c => (c, ps, pe)

def ccStep (ref : String → List Seg) (acc : List String) (q : String × Int × Int) : Option (List String) :=
  match searchIv (ref q.1) q.2.1 q.2.2 ((ref q.1).length + 2) 0 (ref q.1).length with
  | none => none
  | some r => some (acc ++ ((window (ref q.1) r).filter (fun sg => overlapCase sg q.2.1 q.2.2 ≠ 0)).map (·.id))

theorem convertCoord_eq (ref : String → List Seg) (items : List SItem) (ps pe : Int) :
    convertCoord ref items ps pe = items.foldlM (fun acc it => ccStep ref acc (itemQ ps pe it)) [] := by
  unfold convertCoord
  congr 1

theorem ccStep_spec (ref : String → List Seg) (hsd : ∀ c, SortedDisjoint (ref c)) (acc : List String)
    (q : String × Int × Int) (hq : q.2.1 < q.2.2) (hex : ∃ sg ∈ ref q.1, overlaps sg q.2.1 q.2.2 = true) :
    ccStep ref acc q = some (acc ++ ((ref q.1).filter (fun sg => overlaps sg q.2.1 q.2.2)).map (·.id)) := by
  unfold ccStep
  have hs := Gaftools.C03.searchIv_isSome (ref q.1) (hsd q.1) q.2.1 q.2.2 hq hex
  rw [Option.isSome_iff_exists] at hs
  obtain ⟨r, hr⟩ := hs
  rw [hr]
  simp only
  rw [Gaftools.C03.selected_eq_overlaps (ref q.1) (hsd q.1) q.2.1 q.2.2 hq r hr]

theorem foldlM_ccStep (ref : String → List Seg) (hsd : ∀ c, SortedDisjoint (ref c)) (ps pe : Int) :
    ∀ (items : List SItem),
      (∀ it ∈ items, (itemQ ps pe it).2.1 < (itemQ ps pe it).2.2 ∧
        ∃ sg ∈ ref (itemQ ps pe it).1, overlaps sg (itemQ ps pe it).2.1 (itemQ ps pe it).2.2 = true) →
      ∀ acc : List String, ∃ ids, items.foldlM (fun acc it => ccStep ref acc (itemQ ps pe it)) acc = some ids ∧
        ∀ a, a ∈ ids ↔ a ∈ acc ∨ ∃ it ∈ items, ∃ sg ∈ ref (itemQ ps pe it).1,
          overlaps sg (itemQ ps pe it).2.1 (itemQ ps pe it).2.2 = true ∧ sg.id = a := by
  intro items
  induction items with
  | nil => intro _ acc; exact ⟨acc, rfl, by simp⟩
  | cons it its ih =>
    intro hgood acc
    have h0 := hgood it (by simp)
    rw [List.foldlM_cons, ccStep_spec ref hsd acc _ h0.1 h0.2]
    obtain ⟨ids, hids, hmem⟩ := ih (fun x hx => hgood x (by simp [hx])) (acc ++ ((ref (itemQ ps pe it).1).filter
      (fun sg => overlaps sg (itemQ ps pe it).2.1 (itemQ ps pe it).2.2)).map (·.id))
    refine ⟨ids, hids, ?_⟩
    intro a
    rw [hmem a]
    simp only [List.mem_append, List.mem_map, List.mem_filter, List.mem_cons, exists_eq_or_imp]
    constructor
    · rintro ((h | ⟨sg, ⟨h1, h2⟩, h3⟩) | h)
      · exact Or.inl h
      · exact Or.inr (Or.inl ⟨sg, h1, h2, h3⟩)
      · exact Or.inr (Or.inr h)
    · rintro (h | ⟨sg, h1, h2, h3⟩ | h)
      · exact Or.inl (Or.inl h)
      · exact Or.inl (Or.inr ⟨sg, ⟨h1, h2⟩, h3⟩)
      · exact Or.inr h

theorem convertCoord_spec (ref : String → List Seg) (hsd : ∀ c, SortedDisjoint (ref c)) (ps pe : Int)
    (items : List SItem)
    (hgood : ∀ it ∈ items, (itemQ ps pe it).2.1 < (itemQ ps pe it).2.2 ∧
        ∃ sg ∈ ref (itemQ ps pe it).1, overlaps sg (itemQ ps pe it).2.1 (itemQ ps pe it).2.2 = true) :
    ∃ ids, convertCoord ref items ps pe = some ids ∧
      ∀ a, a ∈ ids ↔ ∃ it ∈ items, ∃ sg ∈ ref (itemQ ps pe it).1,
          overlaps sg (itemQ ps pe it).2.1 (itemQ ps pe it).2.2 = true ∧ sg.id = a := by
  rw [convertCoord_eq]
  obtain ⟨ids, h1, h2⟩ := foldlM_ccStep ref hsd ps pe items hgood []
  exact ⟨ids, h1, fun a => by rw [h2 a]; simp⟩

end Gaftools.Proofs.View
