import Gaftools.Props.C15
/-!
# Lemmas for C15 (biccs): invariants of the iterative Hopcroft–Tarjan loop `bstep`
-/
namespace Gaftools.Proofs.Bicc
open Gaftools.Gfa Gaftools.Algo Gaftools.Spec.Graph Gaftools.Proofs.Algo

/-! ## basic notions on states -/

/-- the state `biccsFrom` starts from (same as `C15.binit`) -/
def init (nb : V → List V) (root : V) : BSt :=
  { disc := [(root, 0)], low := [(root, 0)], visited := [root], estack := [], loc := [],
    stack := [⟨root, root, 0, nb root⟩], comps := [], aps := [], rootChildren := 0 }

/-- value of a node in the dictionaries `disc` / `low` (0 when absent) -/
def D (l : List (V × Nat)) (v : V) : Nat := (lookup v l).getD 0

/-- frame with its pointer advanced -/
def adv (f : Frame) : Frame := { f with ptr := f.ptr + 1 }

@[simp] theorem adv_child (f : Frame) : (adv f).child = f.child := rfl
@[simp] theorem adv_parent (f : Frame) : (adv f).parent = f.parent := rfl
@[simp] theorem adv_nbrs (f : Frame) : (adv f).nbrs = f.nbrs := rfl
@[simp] theorem adv_ptr (f : Frame) : (adv f).ptr = f.ptr + 1 := rfl

theorem lookup_setKV {α β} [BEq α] [LawfulBEq α] [DecidableEq α] (k k' : α) (v : β) (l : List (α × β)) :
    lookup k (setKV k' v l) = if k = k' then some v else lookup k l := by
  simp [setKV, lookup]

/-! ## the branches of `bstep` -/

/-- case analysis of one loop iteration, one hypothesis per branch -/
theorem bstep_cases (nb : V → List V) (s : BSt) (P : BSt → Prop)
    (hnil : s.stack = [] → P s)
    (hskip : ∀ f rest, s.stack = f :: rest → f.ptr < f.nbrs.length → f.nbrs.getD f.ptr "" = f.parent →
      P { s with stack := adv f :: rest })
    (hback : ∀ f rest nn, s.stack = f :: rest → f.ptr < f.nbrs.length → nn = f.nbrs.getD f.ptr "" →
      nn ≠ f.parent → nn ∈ s.visited → D s.disc nn ≤ D s.disc f.child →
      P { s with stack := adv f :: rest,
                 estack := s.estack ++ [(f.child, nn)],
                 loc := setKV (f.child, nn) s.estack.length s.loc,
                 low := setKV f.child (min (D s.low f.child) (D s.disc nn)) s.low })
    (hign : ∀ f rest nn, s.stack = f :: rest → f.ptr < f.nbrs.length → nn = f.nbrs.getD f.ptr "" →
      nn ≠ f.parent → nn ∈ s.visited → D s.disc f.child < D s.disc nn →
      P { s with stack := adv f :: rest })
    (hpush : ∀ f rest nn, s.stack = f :: rest → f.ptr < f.nbrs.length → nn = f.nbrs.getD f.ptr "" →
      nn ≠ f.parent → nn ∉ s.visited →
      P { s with low := setKV nn s.disc.length s.low, disc := setKV nn s.disc.length s.disc,
                 visited := nn :: s.visited,
                 stack := ⟨f.child, nn, 0, nb nn⟩ :: adv f :: rest,
                 estack := s.estack ++ [(f.child, nn)],
                 loc := setKV (f.child, nn) s.estack.length s.loc })
    (hpop2cut : ∀ f rest, s.stack = f :: rest → ¬ f.ptr < f.nbrs.length → rest.length > 1 →
      D s.disc f.parent ≤ D s.low f.child →
      P { s with stack := rest,
                 aps := insertSet f.parent s.aps,
                 comps := s.comps ++ [nodesOf (s.estack.drop ((lookup (f.parent, f.child) s.loc).getD 0))],
                 estack := s.estack.take ((lookup (f.parent, f.child) s.loc).getD 0),
                 low := setKV f.parent (min (D s.low f.parent) (D s.low f.child)) s.low })
    (hpop2 : ∀ f rest, s.stack = f :: rest → ¬ f.ptr < f.nbrs.length → rest.length > 1 →
      D s.low f.child < D s.disc f.parent →
      P { s with stack := rest,
                 low := setKV f.parent (min (D s.low f.parent) (D s.low f.child)) s.low })
    (hpop1 : ∀ f rest, s.stack = f :: rest → ¬ f.ptr < f.nbrs.length → rest.length = 1 →
      P { s with stack := rest,
                 rootChildren := s.rootChildren + 1,
                 comps := s.comps ++ [nodesOf (s.estack.drop ((lookup (f.parent, f.child) s.loc).getD 0))],
                 estack := s.estack.take ((lookup (f.parent, f.child) s.loc).getD 0) })
    (hpop0 : ∀ f, s.stack = [f] → ¬ f.ptr < f.nbrs.length → P { s with stack := [] }) :
    P (bstep nb s) := by
  unfold bstep
  split
  · next h => exact hnil h
  · next f rest h =>
    split
    · next hlt =>
      simp only []
      split
      · next hp => exact hskip f rest h hlt (by simpa using hp)
      · next hp =>
        have hp' : f.nbrs.getD f.ptr "" ≠ f.parent := by simpa using hp
        split
        · next hv =>
          have hv' : f.nbrs.getD f.ptr "" ∈ s.visited := by simpa using hv
          split
          · next hle => exact hback f rest _ h hlt rfl hp' hv' hle
          · next hle => exact hign f rest _ h hlt rfl hp' hv' (by simpa [D] using hle)
        · next hv =>
          have hv' : f.nbrs.getD f.ptr "" ∉ s.visited := by simpa using hv
          exact hpush f rest _ h hlt rfl hp' hv'
    · next hlt =>
      simp only []
      split
      · next hlen =>
        split
        · next hc => exact hpop2cut f rest h hlt hlen hc
        · next hc => exact hpop2 f rest h hlt hlen (by simpa [D] using hc)
      · next hlen =>
        split
        · next h1 => exact hpop1 f rest h hlt (by simpa using h1)
        · next h1 =>
          have : rest = [] := by
            cases rest with
            | nil => rfl
            | cons g r =>
              cases r with
              | nil => simp at h1
              | cons g' r' => simp at hlen
          subst this
          exact hpop0 f h hlt

theorem getD_mem {l : List V} {i : Nat} (h : i < l.length) : l.getD i "" ∈ l := by
  rw [List.getD_eq_getElem?_getD, List.getElem?_eq_getElem h]
  simp

theorem bgo_inv (nb : V → List V) (I : BSt → Prop) (hI : ∀ s, I s → I (bstep nb s)) :
    ∀ n s, I s → I (bgo nb n s) := by
  intro n
  induction n with
  | zero => intro s h; exact h
  | succ n ih =>
    intro s h
    unfold bgo
    split
    · exact h
    · exact ih _ (hI s h)

/-! ## RUNG 1: basic invariant and termination -/

structure Inv1 (nb : V → List V) (Vs : List V) (s : BSt) : Prop where
  nodup : s.visited.Nodup
  sub : ∀ v ∈ s.visited, v ∈ Vs
  nbrs : ∀ f ∈ s.stack, f.nbrs = nb f.child
  child : ∀ f ∈ s.stack, f.child ∈ s.visited
  parent : ∀ f ∈ s.stack, f.parent ∈ s.visited

theorem inv1_init (nb : V → List V) (Vs : List V) (root : V) (hr : root ∈ Vs) : Inv1 nb Vs (init nb root) := by
  constructor <;> simp [init, hr]

theorem inv1_step (nb : V → List V) (Vs : List V) (hu : Undirected nb Vs) (s : BSt) (h : Inv1 nb Vs s) :
    Inv1 nb Vs (bstep nb s) := by
  obtain ⟨h1, h2, h3, h4, h5⟩ := h
  apply bstep_cases
  · intro _; exact ⟨h1, h2, h3, h4, h5⟩
  · intro f rest hs hlt hp
    rw [hs] at h3 h4 h5
    constructor <;> simp_all
  · intro f rest nn hs hlt hnn hp hv hle
    rw [hs] at h3 h4 h5
    constructor <;> simp_all
  · intro f rest nn hs hlt hnn hp hv hle
    rw [hs] at h3 h4 h5
    constructor <;> simp_all
  · intro f rest nn hs hlt hnn hp hv
    rw [hs] at h3 h4 h5
    have hmem : nn ∈ nb f.child := by
      rw [← h3 f (by simp), hnn]; exact getD_mem hlt
    have hV : nn ∈ Vs := hu.closed _ (h2 _ (h4 f (by simp))) _ hmem
    constructor
    · simp only []; exact List.nodup_cons.mpr ⟨hv, h1⟩
    · simp only []; intro v hv'; rcases List.mem_cons.mp hv' with h | h
      · rw [h]; exact hV
      · exact h2 v h
    · simp only []; intro g hg
      rcases List.mem_cons.mp hg with h | h
      · rw [h]
      · rcases List.mem_cons.mp h with h | h
        · rw [h]; exact h3 f (by simp)
        · exact h3 g (by simp [h])
    · simp only []; intro g hg
      rcases List.mem_cons.mp hg with h | h
      · rw [h]; simp
      · rcases List.mem_cons.mp h with h | h
        · rw [h]; exact List.mem_cons_of_mem _ (h4 f (by simp))
        · exact List.mem_cons_of_mem _ (h4 g (by simp [h]))
    · simp only []; intro g hg
      rcases List.mem_cons.mp hg with h | h
      · rw [h]; exact List.mem_cons_of_mem _ (h4 f (by simp))
      · rcases List.mem_cons.mp h with h | h
        · rw [h]; exact List.mem_cons_of_mem _ (h5 f (by simp))
        · exact List.mem_cons_of_mem _ (h5 g (by simp [h]))
  · intro f rest hs hlt hlen hc
    rw [hs] at h3 h4 h5
    constructor <;> simp_all
  · intro f rest hs hlt hlen hc
    rw [hs] at h3 h4 h5
    constructor <;> simp_all
  · intro f rest hs hlt hlen
    rw [hs] at h3 h4 h5
    constructor <;> simp_all
  · intro f hs hlt
    constructor <;> simp_all

/-- weight of the nodes not yet discovered -/
def uw (nb : V → List V) (Vs vis : List V) : Nat :=
  ((Vs.filter (fun v => decide (v ∉ vis))).map (fun v => (nb v).length + 2)).sum

/-- weight of the stack: remaining neighbours plus one per frame -/
def fw (st : List Frame) : Nat := (st.map (fun f => f.nbrs.length - f.ptr + 1)).sum

def pot (nb : V → List V) (Vs : List V) (s : BSt) : Nat := uw nb Vs s.visited + fw s.stack

theorem uw_le (nb : V → List V) (Vs vis : List V) (x : V) : uw nb Vs (x :: vis) ≤ uw nb Vs vis := by
  unfold uw
  induction Vs with
  | nil => simp
  | cons v Vs ih =>
    simp only [List.filter_cons]
    by_cases h1 : v ∈ vis
    · have : v ∈ x :: vis := List.mem_cons_of_mem _ h1
      simp [h1, this]; simpa using ih
    · by_cases h2 : v = x
      · subst h2; simp [h1]; have := ih; simp at this; omega
      · have : v ∉ x :: vis := by simp [h1, h2]
        simp [h1, this]; simpa using ih

theorem uw_lt (nb : V → List V) (Vs vis : List V) (x : V) (h1 : x ∉ vis) (h2 : x ∈ Vs) :
    uw nb Vs (x :: vis) + (nb x).length + 2 ≤ uw nb Vs vis := by
  induction Vs with
  | nil => simp at h2
  | cons v Vs ih =>
    have hle := uw_le nb Vs vis x
    unfold uw at *
    simp only [List.filter_cons]
    by_cases hv : v = x
    · subst hv; simp [h1]; simp at hle; omega
    · have hxV : x ∈ Vs := by
        rcases List.mem_cons.mp h2 with h | h
        · exact absurd h.symm hv
        · exact h
      have ih' := ih hxV
      by_cases hvc : v ∈ vis
      · have : v ∈ x :: vis := List.mem_cons_of_mem _ hvc
        simp [hvc, this]; simpa using ih'
      · have : v ∉ x :: vis := by simp [hvc, hv]
        simp [hvc, this]; simp at ih'; omega

theorem pot_step (nb : V → List V) (Vs : List V) (hu : Undirected nb Vs) (s : BSt) (h : Inv1 nb Vs s)
    (hne : s.stack ≠ []) : pot nb Vs (bstep nb s) < pot nb Vs s := by
  obtain ⟨h1, h2, h3, h4, h5⟩ := h
  refine bstep_cases nb s (fun t => pot nb Vs t < pot nb Vs s) ?_ ?_ ?_ ?_ ?_ ?_ ?_ ?_ ?_
  · intro h; exact absurd h hne
  · intro f rest hs hlt hp
    simp only [pot, hs, fw, List.map_cons, List.sum_cons, adv_ptr, adv_nbrs]; omega
  · intro f rest nn hs hlt hnn hp hv hle
    simp only [pot, hs, fw, List.map_cons, List.sum_cons, adv_ptr, adv_nbrs]; omega
  · intro f rest nn hs hlt hnn hp hv hle
    simp only [pot, hs, fw, List.map_cons, List.sum_cons, adv_ptr, adv_nbrs]; omega
  · intro f rest nn hs hlt hnn hp hv
    rw [hs] at h3 h4 h5
    have hmem : nn ∈ nb f.child := by
      rw [← h3 f (by simp), hnn]; exact getD_mem hlt
    have hV : nn ∈ Vs := hu.closed _ (h2 _ (h4 f (by simp))) _ hmem
    have := uw_lt nb Vs s.visited nn hv hV
    simp only [pot, hs, fw, List.map_cons, List.sum_cons, adv_ptr, adv_nbrs]; omega
  · intro f rest hs hlt hlen hc
    simp only [pot, hs, fw, List.map_cons, List.sum_cons]; omega
  · intro f rest hs hlt hlen hc
    simp only [pot, hs, fw, List.map_cons, List.sum_cons]; omega
  · intro f rest hs hlt hlen
    simp only [pot, hs, fw, List.map_cons, List.sum_cons]; omega
  · intro f hs hlt
    simp only [pot, hs, fw, List.map_cons, List.sum_cons]; omega

theorem bgo_empty (nb : V → List V) (Vs : List V) (hu : Undirected nb Vs) :
    ∀ n s, Inv1 nb Vs s → pot nb Vs s ≤ n → (bgo nb n s).stack = [] := by
  intro n
  induction n with
  | zero =>
    intro s _ hp
    simp only [bgo]
    cases hst : s.stack with
    | nil => rfl
    | cons f rest => simp [pot, fw, hst] at hp
  | succ n ih =>
    intro s hi hp
    unfold bgo
    split
    · next h => simpa using h
    · next h =>
      have hne : s.stack ≠ [] := by simpa using h
      have := pot_step nb Vs hu s hi hne
      exact ih _ (inv1_step nb Vs hu s hi) (by omega)

theorem uw_nil (nb : V → List V) (Vs : List V) :
    uw nb Vs [] = 2 * Vs.length + (Vs.map (fun v => (nb v).length)).sum := by
  unfold uw
  induction Vs with
  | nil => simp
  | cons v Vs ih => simp at ih; simp [ih]; omega

theorem pot_init (nb : V → List V) (Vs : List V) (root : V) (hr : root ∈ Vs) :
    pot nb Vs (init nb root) ≤ biccFuel nb Vs := by
  have h1 := uw_lt nb Vs [] root (by simp) hr
  have h2 := uw_nil nb Vs
  simp only [pot, init, fw, biccFuel, List.map_cons, List.map_nil, List.sum_cons, List.sum_nil]
  omega

theorem terminates (nb : V → List V) (Vs : List V) (hu : Undirected nb Vs) (root : V) (hr : root ∈ Vs) :
    (bgo nb (biccFuel nb Vs) (init nb root)).stack = [] :=
  bgo_empty nb Vs hu _ _ (inv1_init nb Vs root hr) (pot_init nb Vs root hr)

/-! ## RUNG 2: every node is discovered -/

/-- `w` is a neighbour of the discovered node `u` that the loop has already looked at -/
def Scanned (nb : V → List V) (vis : List V) (st : List Frame) (u w : V) : Prop :=
  u ∈ vis ∧ w ∈ nb u ∧ ∀ f ∈ st, f.child = u → w ∈ f.nbrs.take f.ptr

theorem take_succ_mem {l : List V} {i : Nat} {w : V} (h : w ∈ l.take (i + 1)) :
    w ∈ l.take i ∨ w = l.getD i "" := by
  rw [List.take_add_one] at h
  rcases List.mem_append.mp h with h | h
  · exact Or.inl h
  · right
    rw [List.getD_eq_getElem?_getD]
    cases hi : l[i]? with
    | none => simp [hi] at h
    | some x => simp [hi] at h; simp [h]

/-- pointer advance: the only new scanned pair is (child, next neighbour) -/
theorem scanned_adv {nb : V → List V} {vis : List V} {f : Frame} {rest : List Frame} {u w : V}
    (h : Scanned nb vis (adv f :: rest) u w) :
    Scanned nb vis (f :: rest) u w ∨ (u = f.child ∧ w = f.nbrs.getD f.ptr "") := by
  obtain ⟨h1, h2, h3⟩ := h
  by_cases hu : f.child = u
  · have := h3 (adv f) (by simp) hu
    rcases take_succ_mem this with h | h
    · left
      refine ⟨h1, h2, ?_⟩
      intro g hg hgu
      rcases List.mem_cons.mp hg with hg | hg
      · rw [hg]; exact h
      · exact h3 g (List.mem_cons_of_mem _ hg) hgu
    · right; exact ⟨hu.symm, h⟩
  · left
    refine ⟨h1, h2, ?_⟩
    intro g hg hgu
    rcases List.mem_cons.mp hg with hg | hg
    · rw [hg] at hgu; exact absurd hgu hu
    · exact h3 g (List.mem_cons_of_mem _ hg) hgu

/-- discovery of `nn`: nothing of `nn` is scanned yet -/
theorem scanned_push {nb : V → List V} {vis : List V} {f : Frame} {rest : List Frame} {nn p u w : V} {l : List V}
    (h : Scanned nb (nn :: vis) (⟨p, nn, 0, l⟩ :: adv f :: rest) u w) :
    u ≠ nn ∧ (Scanned nb vis (f :: rest) u w ∨ (u = f.child ∧ w = f.nbrs.getD f.ptr "")) := by
  obtain ⟨h1, h2, h3⟩ := h
  have hne : u ≠ nn := by
    intro he
    have := h3 ⟨p, nn, 0, l⟩ (by simp) he.symm
    simp at this
  refine ⟨hne, ?_⟩
  apply scanned_adv
  refine ⟨?_, h2, ?_⟩
  · rcases List.mem_cons.mp h1 with h | h
    · exact absurd h hne
    · exact h
  · intro g hg
    exact h3 g (List.mem_cons_of_mem _ hg)

/-- pop of an exhausted frame: nothing new is scanned -/
theorem scanned_pop {nb : V → List V} {vis : List V} {f : Frame} {rest : List Frame} {u w : V}
    (hn : f.nbrs = nb f.child) (hlt : ¬ f.ptr < f.nbrs.length)
    (h : Scanned nb vis rest u w) : Scanned nb vis (f :: rest) u w := by
  obtain ⟨h1, h2, h3⟩ := h
  refine ⟨h1, h2, ?_⟩
  intro g hg hgu
  rcases List.mem_cons.mp hg with hg | hg
  · subst hg; rw [List.take_of_length_le (by omega), hn, hgu]; exact h2
  · exact h3 g hg hgu

structure Inv2 (nb : V → List V) (root : V) (s : BSt) : Prop where
  root : root ∈ s.visited
  scan : ∀ u w, Scanned nb s.visited s.stack u w → w ∈ s.visited

theorem inv2_init (nb : V → List V) (root : V) : Inv2 nb root (init nb root) := by
  constructor
  · simp [init]
  · intro u w h
    obtain ⟨h1, _, h3⟩ := h
    simp [init] at h1
    have := h3 ⟨root, root, 0, nb root⟩ (by simp [init]) h1.symm
    simp at this

theorem inv2_step (nb : V → List V) (Vs : List V) (root : V) (s : BSt) (h1 : Inv1 nb Vs s)
    (h : Inv2 nb root s) : Inv2 nb root (bstep nb s) := by
  obtain ⟨hr, hsc⟩ := h
  have adv_case : ∀ f rest, s.stack = f :: rest → f.nbrs.getD f.ptr "" ∈ s.visited →
      ∀ u w, Scanned nb s.visited (adv f :: rest) u w → w ∈ s.visited := by
    intro f rest hs hnn u w h
    rcases scanned_adv h with h | ⟨_, h⟩
    · rw [hs] at hsc; exact hsc u w h
    · rw [h]; exact hnn
  have pop_case : ∀ f rest, s.stack = f :: rest → ¬ f.ptr < f.nbrs.length →
      ∀ u w, Scanned nb s.visited rest u w → w ∈ s.visited := by
    intro f rest hs hlt u w h
    rw [hs] at hsc
    exact hsc u w (scanned_pop (h1.nbrs f (by simp [hs])) hlt h)
  apply bstep_cases
  · intro _; exact ⟨hr, hsc⟩
  · intro f rest hs hlt hp
    exact ⟨hr, adv_case f rest hs (by rw [hp]; exact h1.parent f (by simp [hs]))⟩
  · intro f rest nn hs hlt hnn hp hv hle
    exact ⟨hr, adv_case f rest hs (by rw [← hnn]; exact hv)⟩
  · intro f rest nn hs hlt hnn hp hv hle
    exact ⟨hr, adv_case f rest hs (by rw [← hnn]; exact hv)⟩
  · intro f rest nn hs hlt hnn hp hv
    refine ⟨List.mem_cons_of_mem _ hr, ?_⟩
    intro u w h
    rcases (scanned_push h).2 with h | ⟨_, h⟩
    · rw [hs] at hsc; exact List.mem_cons_of_mem _ (hsc u w h)
    · rw [h, ← hnn]; simp
  · intro f rest hs hlt hlen hc
    exact ⟨hr, pop_case f rest hs hlt⟩
  · intro f rest hs hlt hlen hc
    exact ⟨hr, pop_case f rest hs hlt⟩
  · intro f rest hs hlt hlen
    exact ⟨hr, pop_case f rest hs hlt⟩
  · intro f hs hlt
    exact ⟨hr, pop_case f [] hs hlt⟩

/-- all invariants so far hold in every state the loop reaches -/
theorem inv12_bgo (nb : V → List V) (Vs : List V) (hu : Undirected nb Vs) (root : V) (hr : root ∈ Vs) (n : Nat) :
    Inv1 nb Vs (bgo nb n (init nb root)) ∧ Inv2 nb root (bgo nb n (init nb root)) := by
  apply bgo_inv nb (fun s => Inv1 nb Vs s ∧ Inv2 nb root s)
  · intro s ⟨h1, h2⟩
    exact ⟨inv1_step nb Vs hu s h1, inv2_step nb Vs root s h1 h2⟩
  · exact ⟨inv1_init nb Vs root hr, inv2_init nb root⟩

/-- in a connected graph any two nodes reach one another -/
theorem connected_reach (nb : V → List V) (Vs : List V) (hu : Undirected nb Vs) (hc : connectedB nb Vs = true)
    (x y : V) (hx : x ∈ Vs) (hy : y ∈ Vs) : Reach nb x y := by
  match Vs, hu, hc, hx, hy with
  | a0 :: W, hu, hc, hx, hy =>
    have ha0 : a0 ∈ a0 :: W := by simp
    have hcls : ∀ v, (classOf nb (a0 :: W) a0).contains v = true ↔ Reach nb a0 v := by
      intro v
      have := (C15.findComp_exact nb (a0 :: W) hu a0 ha0 []
        (by intro a ha; simp at ha) (by simp)).2.1 v
      simp only [classOf, List.contains_iff_mem]
      exact this
    have hall : ∀ v ∈ a0 :: W, Reach nb a0 v := by
      simpa only [connectedB, List.all_eq_true, hcls] using hc
    exact Reach.trans (Reach.symm hu.symm (hall x hx)) (hall y hy)

theorem visits_all (nb : V → List V) (Vs : List V) (hu : Undirected nb Vs) (root : V) (hr : root ∈ Vs)
    (hc : connectedB nb Vs = true) :
    (bgo nb (biccFuel nb Vs) (init nb root)).visited.Nodup ∧
    (∀ v, v ∈ (bgo nb (biccFuel nb Vs) (init nb root)).visited ↔ v ∈ Vs) := by
  obtain ⟨h1, h2⟩ := inv12_bgo nb Vs hu root hr (biccFuel nb Vs)
  have hst := terminates nb Vs hu root hr
  refine ⟨h1.nodup, fun v => ⟨h1.sub v, fun hv => ?_⟩⟩
  have hcl : ∀ a ∈ (bgo nb (biccFuel nb Vs) (init nb root)).visited, ∀ b ∈ nb a,
      b ∈ (bgo nb (biccFuel nb Vs) (init nb root)).visited := by
    intro a ha b hb
    apply h2.scan a b
    refine ⟨ha, hb, ?_⟩
    rw [hst]; simp
  exact Reach.mem_of_closed hcl (connected_reach nb Vs hu hc root v hr hv) h2.root

/-! ## RUNG 3: what is reported lies inside the graph -/

theorem nodup_eraseDups_aux {α : Type} [BEq α] [LawfulBEq α] :
    ∀ (n : Nat) (l : List α), l.length ≤ n → l.eraseDups.Nodup := by
  intro n
  induction n with
  | zero =>
    intro l hl
    have : l = [] := List.length_eq_zero_iff.mp (by omega)
    subst this; simp
  | succ n ih =>
    intro l hl
    cases l with
    | nil => simp
    | cons a as =>
      rw [List.eraseDups_cons, List.nodup_cons]
      constructor
      · rw [List.mem_eraseDups]; simp
      · apply ih
        have := List.length_filter_le (fun b => !b == a) as
        simp at hl; omega

theorem nodup_nodesOf (es : List (V × V)) : (nodesOf es).Nodup :=
  nodup_eraseDups_aux _ _ (Nat.le_refl _)

theorem mem_nodesOf {es : List (V × V)} {v : V} (h : v ∈ nodesOf es) : ∃ e ∈ es, v = e.1 ∨ v = e.2 := by
  unfold nodesOf at h
  rw [List.mem_eraseDups, List.mem_flatMap] at h
  obtain ⟨e, he, hv⟩ := h
  exact ⟨e, he, by simpa using hv⟩

theorem mem_insertSet {x a : V} {l : List V} (h : a ∈ insertSet x l) : a = x ∨ a ∈ l := by
  unfold insertSet at h
  split at h
  · exact Or.inr h
  · exact List.mem_cons.mp h

theorem mem_insertSet_self (x : V) (l : List V) : x ∈ insertSet x l := by
  unfold insertSet
  split
  · next h => simpa using h
  · simp

theorem mem_insertSet_of_mem {x a : V} {l : List V} (h : a ∈ l) : a ∈ insertSet x l := by
  unfold insertSet
  split
  · exact h
  · exact List.mem_cons_of_mem _ h

structure Inv3 (Vs : List V) (s : BSt) : Prop where
  est : ∀ e ∈ s.estack, e.1 ∈ Vs ∧ e.2 ∈ Vs
  comps : ∀ c ∈ s.comps, (∀ v ∈ c, v ∈ Vs) ∧ c.Nodup
  aps : ∀ a ∈ s.aps, a ∈ Vs

theorem inv3_init (nb : V → List V) (Vs : List V) (root : V) : Inv3 Vs (init nb root) := by
  constructor <;> simp [init]

theorem comp_ok {Vs : List V} {es : List (V × V)} (h : ∀ e ∈ es, e.1 ∈ Vs ∧ e.2 ∈ Vs) (n : Nat) :
    (∀ v ∈ nodesOf (es.drop n), v ∈ Vs) ∧ (nodesOf (es.drop n)).Nodup := by
  refine ⟨?_, nodup_nodesOf _⟩
  intro v hv
  obtain ⟨e, he, hv⟩ := mem_nodesOf hv
  have := h e (List.mem_of_mem_drop he)
  rcases hv with hv | hv <;> rw [hv]
  · exact this.1
  · exact this.2

theorem inv3_step (nb : V → List V) (Vs : List V) (hu : Undirected nb Vs) (s : BSt) (h1 : Inv1 nb Vs s)
    (h : Inv3 Vs s) : Inv3 Vs (bstep nb s) := by
  obtain ⟨he, hc, ha⟩ := h
  have push_est : ∀ f rest nn, s.stack = f :: rest → f.ptr < f.nbrs.length → nn = f.nbrs.getD f.ptr "" →
      ∀ e ∈ s.estack ++ [(f.child, nn)], e.1 ∈ Vs ∧ e.2 ∈ Vs := by
    intro f rest nn hs hlt hnn e hmem
    rcases List.mem_append.mp hmem with h | h
    · exact he e h
    · simp at h
      have hcV : f.child ∈ Vs := h1.sub _ (h1.child f (by simp [hs]))
      have hmem : nn ∈ nb f.child := by
        rw [← h1.nbrs f (by simp [hs]), hnn]; exact getD_mem hlt
      rw [h]; exact ⟨hcV, hu.closed _ hcV _ hmem⟩
  have comps_ok : ∀ n, ∀ c ∈ s.comps ++ [nodesOf (s.estack.drop n)], (∀ v ∈ c, v ∈ Vs) ∧ c.Nodup := by
    intro n c hmem
    rcases List.mem_append.mp hmem with h | h
    · exact hc c h
    · simp at h; rw [h]; exact comp_ok he n
  have take_ok : ∀ n, ∀ e ∈ s.estack.take n, e.1 ∈ Vs ∧ e.2 ∈ Vs :=
    fun n e hmem => he e (List.mem_of_mem_take hmem)
  apply bstep_cases
  · intro _; exact ⟨he, hc, ha⟩
  · intro f rest hs hlt hp
    exact ⟨he, hc, ha⟩
  · intro f rest nn hs hlt hnn hp hv hle
    exact ⟨push_est f rest nn hs hlt hnn, hc, ha⟩
  · intro f rest nn hs hlt hnn hp hv hle
    exact ⟨he, hc, ha⟩
  · intro f rest nn hs hlt hnn hp hv
    exact ⟨push_est f rest nn hs hlt hnn, hc, ha⟩
  · intro f rest hs hlt hlen hc'
    refine ⟨take_ok _, comps_ok _, ?_⟩
    intro a ha'
    rcases mem_insertSet ha' with h | h
    · rw [h]; exact h1.sub _ (h1.parent f (by simp [hs]))
    · exact ha a h
  · intro f rest hs hlt hlen hc'
    exact ⟨he, hc, ha⟩
  · intro f rest hs hlt hlen
    exact ⟨take_ok _, comps_ok _, ha⟩
  · intro f hs hlt
    exact ⟨he, hc, ha⟩

theorem inv3_bgo (nb : V → List V) (Vs : List V) (hu : Undirected nb Vs) (root : V) (hr : root ∈ Vs) (n : Nat) :
    Inv3 Vs (bgo nb n (init nb root)) := by
  have := bgo_inv nb (fun s => Inv1 nb Vs s ∧ Inv3 Vs s)
    (fun s ⟨h1, h3⟩ => ⟨inv1_step nb Vs hu s h1, inv3_step nb Vs hu s h1 h3⟩) n (init nb root)
    ⟨inv1_init nb Vs root hr, inv3_init nb Vs root⟩
  exact this.2

theorem wellformed (nb : V → List V) (Vs : List V) (hu : Undirected nb Vs) (root : V) (hr : root ∈ Vs) :
    (∀ c ∈ (biccsFrom nb root (biccFuel nb Vs)).1, (∀ v ∈ c, v ∈ Vs) ∧ c.Nodup) ∧
    (∀ a ∈ (biccsFrom nb root (biccFuel nb Vs)).2, a ∈ Vs) := by
  have h3 := inv3_bgo nb Vs hu root hr (biccFuel nb Vs)
  refine ⟨h3.comps, ?_⟩
  intro a ha
  change a ∈ (if (bgo nb (biccFuel nb Vs) (init nb root)).rootChildren > 1 then
    insertSet root (bgo nb (biccFuel nb Vs) (init nb root)).aps else (bgo nb (biccFuel nb Vs) (init nb root)).aps) at ha
  split at ha
  · rcases mem_insertSet ha with h | h
    · rw [h]; exact hr
    · exact h3.aps a h
  · exact h3.aps a ha

/-! # Part 2: discovery numbers, low points, articulation points (RUNGS 4 and 5) -/

theorem D_setKV (k v : V) (x : Nat) (l : List (V × Nat)) :
    D (setKV k x l) v = if v = k then x else D l v := by
  unfold D
  rw [lookup_setKV]
  split <;> rfl

/-- (parent, child) of the frames, top first; does not change when a pointer advances -/
def spine (st : List Frame) : List (V × V) := st.map (fun f => (f.parent, f.child))

@[simp] theorem spine_nil : spine [] = [] := rfl
@[simp] theorem spine_cons (f : Frame) (st : List Frame) : spine (f :: st) = (f.parent, f.child) :: spine st := rfl
theorem spine_adv (f : Frame) (st : List Frame) : spine (adv f :: st) = spine (f :: st) := rfl

theorem mem_spine {st : List Frame} {f : Frame} (h : f ∈ st) : (f.parent, f.child) ∈ spine st :=
  List.mem_map_of_mem h

theorem of_mem_spine {st : List Frame} {e : V × V} (h : e ∈ spine st) : ∃ f ∈ st, f.parent = e.1 ∧ f.child = e.2 := by
  obtain ⟨f, hf, he⟩ := List.mem_map.mp h
  exact ⟨f, hf, by rw [← he], by rw [← he]⟩

/-- discovery numbers strictly increase towards the top of the stack -/
def Sorted (disc : List (V × Nat)) (sp : List (V × V)) : Prop :=
  sp.Pairwise (fun e e' => D disc e'.2 < D disc e.2)

/-- each frame's parent is the child of the frame below; the bottom frame is (root, root) -/
def Chain (root : V) : List (V × V) → Prop
  | [] => True
  | [e] => e.1 = root ∧ e.2 = root
  | e :: e' :: r => e.1 = e'.2 ∧ Chain root (e' :: r)

structure Inv4 (root : V) (s : BSt) : Prop where
  dlt : ∀ v ∈ s.visited, D s.disc v < s.disc.length
  inj : ∀ u ∈ s.visited, ∀ w ∈ s.visited, D s.disc u = D s.disc w → u = w
  droot : D s.disc root = 0
  sorted : Sorted s.disc (spine s.stack)
  chain : Chain root (spine s.stack)

theorem inv4_init (nb : V → List V) (root : V) : Inv4 root (init nb root) := by
  constructor
  · intro v hv; simp [init] at hv; subst hv; simp [init, D, lookup]
  · intro u hu w hw _; simp [init] at hu hw; rw [hu, hw]
  · simp [init, D, lookup]
  · simp [init, Sorted]
  · simp [init, Chain]

theorem chain_tail {root : V} {e : V × V} {sp : List (V × V)} (h : Chain root (e :: sp)) : Chain root sp := by
  cases sp with
  | nil => trivial
  | cons e' r => exact h.2

theorem sorted_tail {disc : List (V × Nat)} {e : V × V} {sp : List (V × V)} (h : Sorted disc (e :: sp)) :
    Sorted disc sp := (List.pairwise_cons.mp h).2

theorem sorted_head {disc : List (V × Nat)} {e : V × V} {sp : List (V × V)} (h : Sorted disc (e :: sp)) :
    ∀ e' ∈ sp, D disc e'.2 < D disc e.2 := (List.pairwise_cons.mp h).1

/-- the children on the stack are discovered nodes (Inv1 in terms of the spine) -/
theorem spine_child {nb : V → List V} {Vs : List V} {s : BSt} (h1 : Inv1 nb Vs s) :
    ∀ e ∈ spine s.stack, e.2 ∈ s.visited ∧ e.1 ∈ s.visited := by
  intro e he
  obtain ⟨f, hf, h1', h2'⟩ := of_mem_spine he
  rw [← h1', ← h2']
  exact ⟨h1.child f hf, h1.parent f hf⟩

theorem inv4_step (nb : V → List V) (Vs : List V) (root : V) (s : BSt) (h1 : Inv1 nb Vs s) (h2 : Inv2 nb root s)
    (h : Inv4 root s) : Inv4 root (bstep nb s) := by
  obtain ⟨hdlt, hinj, hdr, hso, hch⟩ := h
  have adv_case : ∀ f rest, s.stack = f :: rest → ∀ s' : BSt, s'.visited = s.visited → s'.disc = s.disc →
      s'.stack = adv f :: rest → Inv4 root s' := by
    intro f rest hs s' hv hd hst
    constructor
    · rw [hv, hd]; exact hdlt
    · rw [hv, hd]; exact hinj
    · rw [hd]; exact hdr
    · rw [hd, hst, spine_adv, ← hs]; exact hso
    · rw [hst, spine_adv, ← hs]; exact hch
  have pop_case : ∀ f rest, s.stack = f :: rest → ∀ s' : BSt, s'.visited = s.visited → s'.disc = s.disc →
      s'.stack = rest → Inv4 root s' := by
    intro f rest hs s' hv hd hst
    rw [hs] at hso hch
    constructor
    · rw [hv, hd]; exact hdlt
    · rw [hv, hd]; exact hinj
    · rw [hd]; exact hdr
    · rw [hd, hst]; exact sorted_tail hso
    · rw [hst]; exact chain_tail hch
  apply bstep_cases
  · intro _; exact ⟨hdlt, hinj, hdr, hso, hch⟩
  · intro f rest hs hlt hp
    exact adv_case f rest hs _ rfl rfl rfl
  · intro f rest nn hs hlt hnn hp hv hle
    exact adv_case f rest hs _ rfl rfl rfl
  · intro f rest nn hs hlt hnn hp hv hle
    exact adv_case f rest hs _ rfl rfl rfl
  · intro f rest nn hs hlt hnn hp hv
    have hne : ∀ v ∈ s.visited, v ≠ nn := fun v hv' he => hv (he ▸ hv')
    have hDv : ∀ v ∈ s.visited, D (setKV nn s.disc.length s.disc) v = D s.disc v := by
      intro v hv'; rw [D_setKV, if_neg (hne v hv')]
    have hDn : D (setKV nn s.disc.length s.disc) nn = s.disc.length := by
      rw [D_setKV, if_pos rfl]
    have hsc := spine_child h1
    constructor
    · simp only []
      intro v hv'
      rcases List.mem_cons.mp hv' with h | h
      · rw [h, hDn]; simp [setKV]
      · rw [hDv v h]; have := hdlt v h; simp [setKV]; omega
    · simp only []
      intro u hu w hw he
      rcases List.mem_cons.mp hu with hu | hu <;> rcases List.mem_cons.mp hw with hw | hw
      · rw [hu, hw]
      · rw [hu, hDn, hDv w hw] at he; have := hdlt w hw; omega
      · rw [hw, hDn, hDv u hu] at he; have := hdlt u hu; omega
      · rw [hDv u hu, hDv w hw] at he; exact hinj u hu w hw he
    · simp only []
      rw [hDv root h2.root]; exact hdr
    · simp only []
      rw [spine_cons, spine_adv, ← hs]
      unfold Sorted
      rw [List.pairwise_cons]
      constructor
      · intro e he
        have hev := (hsc e he).1
        simp only []
        rw [hDn, hDv _ hev]; exact hdlt _ hev
      · refine List.Pairwise.imp_of_mem ?_ hso
        intro a b ha hb hab
        rw [hDv _ (hsc a ha).1, hDv _ (hsc b hb).1]; exact hab
    · simp only []
      rw [spine_cons, spine_adv]
      rw [hs] at hch
      exact ⟨rfl, hch⟩
  · intro f rest hs hlt hlen hc
    exact pop_case f rest hs _ rfl rfl rfl
  · intro f rest hs hlt hlen hc
    exact pop_case f rest hs _ rfl rfl rfl
  · intro f rest hs hlt hlen
    exact pop_case f rest hs _ rfl rfl rfl
  · intro f hs hlt
    exact pop_case f [] hs _ rfl rfl rfl

/-! ## shape of the stack -/

theorem frame_cases {disc : List (V × Nat)} {root : V} :
    ∀ sp, Sorted disc sp → Chain root sp → ∀ g ∈ sp, (g.1 = root ∧ g.2 = root) ∨ D disc g.1 < D disc g.2 := by
  intro sp
  induction sp with
  | nil => intro _ _ g hg; simp at hg
  | cons e sp ih =>
    intro hso hch g hg
    rcases List.mem_cons.mp hg with hg | hg
    · subst hg
      cases sp with
      | nil => exact Or.inl hch
      | cons e' r =>
        right
        rw [hch.1]
        exact sorted_head hso e' (by simp)
    · exact ih (sorted_tail hso) (chain_tail hch) g hg

/-- everything below the top frame was discovered no later than the top frame's parent -/
theorem below_le_parent {disc : List (V × Nat)} {root : V} {e : V × V} {sp : List (V × V)}
    (hso : Sorted disc (e :: sp)) (hch : Chain root (e :: sp)) : ∀ g ∈ sp, D disc g.2 ≤ D disc e.1 := by
  intro g hg
  cases sp with
  | nil => simp at hg
  | cons e' r =>
    rw [hch.1]
    rcases List.mem_cons.mp hg with hg | hg
    · rw [hg]; exact Nat.le_refl _
    · exact Nat.le_of_lt (sorted_head (sorted_tail hso) g hg)

theorem top_pos {disc : List (V × Nat)} {e : V × V} {sp : List (V × V)}
    (hso : Sorted disc (e :: sp)) (hne : sp ≠ []) : 0 < D disc e.2 := by
  cases sp with
  | nil => exact absurd rfl hne
  | cons e' r => have := sorted_head hso e' (by simp); omega

theorem parent_lt_child {disc : List (V × Nat)} {root : V} {e : V × V} {sp : List (V × V)}
    (hso : Sorted disc (e :: sp)) (hch : Chain root (e :: sp)) (hne : sp ≠ []) : D disc e.1 < D disc e.2 := by
  cases sp with
  | nil => exact absurd rfl hne
  | cons e' r => rw [hch.1]; exact sorted_head hso e' (by simp)

theorem parent_pos {disc : List (V × Nat)} {root : V} {e : V × V} {sp : List (V × V)}
    (hso : Sorted disc (e :: sp)) (hch : Chain root (e :: sp)) (hlen : sp.length > 1) : 0 < D disc e.1 := by
  cases sp with
  | nil => simp at hlen
  | cons e' r =>
    rw [hch.1]
    exact top_pos (sorted_tail hso) (by intro h; rw [h] at hlen; simp at hlen)

theorem parent_root {root : V} {e : V × V} {sp : List (V × V)}
    (hch : Chain root (e :: sp)) (hlen : sp.length = 1) : e.1 = root := by
  match sp, hlen, hch with
  | [e'], _, hch => rw [hch.1]; exact hch.2.2

/-- a node discovered strictly between the top frame's parent and child is not on the stack -/
theorem between_off_stack {disc : List (V × Nat)} {root : V} {e : V × V} {sp : List (V × V)} {w : V}
    (hso : Sorted disc (e :: sp)) (hch : Chain root (e :: sp)) (h1 : D disc e.1 < D disc w) (h2 : D disc w < D disc e.2) :
    ∀ h ∈ e :: sp, h.2 ≠ w := by
  intro h hh he
  rcases List.mem_cons.mp hh with hh | hh
  · rw [← he, hh] at h2; omega
  · have := below_le_parent hso hch h hh
    rw [he] at this; omega

/-! ## low points: witnesses (`Wit`), lower bounds (`LowOK`), no cross edges (`NoCross`), connected subtrees (`Conn`) -/

/-- every low point on the stack is the discovery number of a node seen from the frame's subtree -/
def WitP (nb : V → List V) (vis : List V) (disc low : List (V × Nat)) (sp : List (V × V)) : Prop :=
  ∀ e ∈ sp, ∃ u w, u ∈ vis ∧ w ∈ vis ∧ D disc e.2 ≤ D disc u ∧ (w ∈ nb u ∨ w = u) ∧ D disc w = D low e.2

abbrev Wit (nb : V → List V) (s : BSt) : Prop := WitP nb s.visited s.disc s.low (spine s.stack)

theorem wit_init (nb : V → List V) (root : V) : Wit nb (init nb root) := by
  intro e he
  simp [init] at he
  subst he
  exact ⟨root, root, by simp [init], by simp [init], Nat.le_refl _, Or.inr rfl, rfl⟩

theorem witP_sub {nb : V → List V} {vis : List V} {disc low : List (V × Nat)} {sp sp' : List (V × V)}
    (hsub : ∀ e ∈ sp', e ∈ sp) (h : WitP nb vis disc low sp) : WitP nb vis disc low sp' :=
  fun e he => h e (hsub e he)

theorem wit_step (nb : V → List V) (Vs : List V) (root : V) (s : BSt) (h1 : Inv1 nb Vs s) (h4 : Inv4 root s)
    (hW : Wit nb s) : Wit nb (bstep nb s) := by
  have hsc := spine_child h1
  apply bstep_cases
  · intro _; exact hW
  · intro f rest hs hlt hp
    show WitP nb s.visited s.disc s.low (spine (adv f :: rest))
    rw [spine_adv, ← hs]; exact hW
  · intro f rest nn hs hlt hnn hp hv hle
    show WitP nb s.visited s.disc (setKV f.child (min (D s.low f.child) (D s.disc nn)) s.low) (spine (adv f :: rest))
    rw [spine_adv, ← hs]
    intro e he
    obtain ⟨u, w, hu, hw, h1', h2', h3'⟩ := hW e he
    rw [D_setKV]
    split
    · next hec =>
      by_cases hmin : D s.disc nn ≤ D s.low f.child
      · refine ⟨f.child, nn, h1.child f (by simp [hs]), hv, by rw [hec]; exact Nat.le_refl _, Or.inl ?_, ?_⟩
        · rw [← h1.nbrs f (by simp [hs]), hnn]; exact getD_mem hlt
        · omega
      · refine ⟨u, w, hu, hw, h1', h2', ?_⟩
        rw [h3', hec]; omega
    · exact ⟨u, w, hu, hw, h1', h2', h3'⟩
  · intro f rest nn hs hlt hnn hp hv hle
    show WitP nb s.visited s.disc s.low (spine (adv f :: rest))
    rw [spine_adv, ← hs]; exact hW
  · intro f rest nn hs hlt hnn hp hv
    show WitP nb (nn :: s.visited) (setKV nn s.disc.length s.disc) (setKV nn s.disc.length s.low)
      ((f.child, nn) :: spine (adv f :: rest))
    rw [spine_adv, ← hs]
    have hne : ∀ v ∈ s.visited, v ≠ nn := fun v hv' he => hv (he ▸ hv')
    intro e he
    rcases List.mem_cons.mp he with he | he
    · subst he
      refine ⟨nn, nn, by simp, by simp, Nat.le_refl _, Or.inr rfl, ?_⟩
      simp only [D_setKV, if_true]
    · obtain ⟨u, w, hu, hw, h1', h2', h3'⟩ := hW e he
      refine ⟨u, w, List.mem_cons_of_mem _ hu, List.mem_cons_of_mem _ hw, ?_, h2', ?_⟩
      · rw [D_setKV, D_setKV, if_neg (hne _ (hsc e he).1), if_neg (hne u hu)]; exact h1'
      · rw [D_setKV, D_setKV, if_neg (hne _ (hsc e he).1), if_neg (hne w hw)]; exact h3'
  · intro f rest hs hlt hlen hc
    show WitP nb s.visited s.disc (setKV f.parent (min (D s.low f.parent) (D s.low f.child)) s.low) (spine rest)
    have hso := h4.sorted; have hch := h4.chain
    rw [hs, spine_cons] at hso hch
    have hpc := parent_lt_child hso hch (by intro h; simp [spine] at h; rw [h] at hlen; simp at hlen)
    intro e he
    have he' : e ∈ spine s.stack := by rw [hs]; exact List.mem_cons_of_mem _ he
    obtain ⟨u, w, hu, hw, h1', h2', h3'⟩ := hW e he'
    rw [D_setKV]
    split
    · next hec =>
      by_cases hmin : D s.low f.child ≤ D s.low f.parent
      · obtain ⟨u', w', hu', hw', h1'', h2'', h3''⟩ := hW (f.parent, f.child) (by rw [hs]; simp)
        refine ⟨u', w', hu', hw', ?_, h2'', ?_⟩
        · rw [hec]; simp only [] at h1'' hpc; omega
        · rw [h3'']; simp only []; omega
      · refine ⟨u, w, hu, hw, h1', h2', ?_⟩
        rw [h3', hec]; omega
    · exact ⟨u, w, hu, hw, h1', h2', h3'⟩
  · intro f rest hs hlt hlen hc
    show WitP nb s.visited s.disc (setKV f.parent (min (D s.low f.parent) (D s.low f.child)) s.low) (spine rest)
    have hso := h4.sorted; have hch := h4.chain
    rw [hs, spine_cons] at hso hch
    have hpc := parent_lt_child hso hch (by intro h; simp [spine] at h; rw [h] at hlen; simp at hlen)
    intro e he
    have he' : e ∈ spine s.stack := by rw [hs]; exact List.mem_cons_of_mem _ he
    obtain ⟨u, w, hu, hw, h1', h2', h3'⟩ := hW e he'
    rw [D_setKV]
    split
    · next hec =>
      by_cases hmin : D s.low f.child ≤ D s.low f.parent
      · obtain ⟨u', w', hu', hw', h1'', h2'', h3''⟩ := hW (f.parent, f.child) (by rw [hs]; simp)
        refine ⟨u', w', hu', hw', ?_, h2'', ?_⟩
        · rw [hec]; simp only [] at h1'' hpc; omega
        · rw [h3'']; simp only []; omega
      · refine ⟨u, w, hu, hw, h1', h2', ?_⟩
        rw [h3', hec]; omega
    · exact ⟨u, w, hu, hw, h1', h2', h3'⟩
  · intro f rest hs hlt hlen
    show WitP nb s.visited s.disc s.low (spine rest)
    exact witP_sub (fun e he => by rw [hs]; exact List.mem_cons_of_mem _ he) hW
  · intro f hs hlt
    show WitP nb s.visited s.disc s.low (spine [])
    intro e he; simp at he

/-- a scanned edge leaving the subtree of a stack frame downwards either goes to the frame's parent or is accounted for
    in the low point of a frame at or above it -/
def LowOKP (nb : V → List V) (vis : List V) (disc low : List (V × Nat)) (st : List Frame) : Prop :=
  ∀ g ∈ spine st, ∀ u w, Scanned nb vis st u w → D disc g.2 ≤ D disc u → D disc w < D disc g.2 →
    w = g.1 ∨ ∃ h ∈ spine st, D disc g.2 ≤ D disc h.2 ∧ D low h.2 ≤ D disc w

abbrev LowOK (nb : V → List V) (s : BSt) : Prop := LowOKP nb s.visited s.disc s.low s.stack

theorem lowOK_init (nb : V → List V) (root : V) : LowOK nb (init nb root) := by
  intro g hg u w _ _ h
  simp [init] at hg
  subst hg
  simp [init, D, lookup] at h

theorem lowOK_adv {nb : V → List V} {vis : List V} {disc low low' : List (V × Nat)} {f : Frame} {rest : List Frame}
    (hold : LowOKP nb vis disc low (f :: rest)) (hle : ∀ c, D low' c ≤ D low c)
    (hnew : ∀ g ∈ spine (f :: rest), D disc g.2 ≤ D disc f.child → D disc (f.nbrs.getD f.ptr "") < D disc g.2 →
      f.nbrs.getD f.ptr "" = g.1 ∨
        ∃ h ∈ spine (f :: rest), D disc g.2 ≤ D disc h.2 ∧ D low' h.2 ≤ D disc (f.nbrs.getD f.ptr "")) :
    LowOKP nb vis disc low' (adv f :: rest) := by
  intro g hg u w hsc h1 h2
  rw [spine_adv] at hg ⊢
  rcases scanned_adv hsc with hsc | ⟨hu, hw⟩
  · rcases hold g hg u w hsc h1 h2 with h | ⟨h, hh, h3, h4⟩
    · exact Or.inl h
    · exact Or.inr ⟨h, hh, h3, Nat.le_trans (hle _) h4⟩
  · rw [hu] at h1; rw [hw] at h2 ⊢
    exact hnew g hg h1 h2

theorem lowOK_step (nb : V → List V) (Vs : List V) (root : V) (s : BSt) (h1 : Inv1 nb Vs s) (h2 : Inv2 nb root s)
    (h4 : Inv4 root s) (hL : LowOK nb s) : LowOK nb (bstep nb s) := by
  have hsc := spine_child h1
  apply bstep_cases
  · intro _; exact hL
  · intro f rest hs hlt hp
    show LowOKP nb s.visited s.disc s.low (adv f :: rest)
    have hso := h4.sorted; have hch := h4.chain
    rw [hs, spine_cons] at hso hch
    unfold LowOK at hL; rw [hs] at hL
    apply lowOK_adv hL (fun _ => Nat.le_refl _)
    intro g hg hg1 hg2
    rw [spine_cons] at hg
    rcases List.mem_cons.mp hg with hg | hg
    · left; rw [hg]; exact hp
    · have := below_le_parent hso hch g hg
      rw [hp] at hg2; simp only [] at this; omega
  · intro f rest nn hs hlt hnn hp hv hle
    show LowOKP nb s.visited s.disc (setKV f.child (min (D s.low f.child) (D s.disc nn)) s.low) (adv f :: rest)
    unfold LowOK at hL; rw [hs] at hL
    apply lowOK_adv hL
    · intro c; rw [D_setKV]; split
      · next h => rw [h]; omega
      · exact Nat.le_refl _
    · intro g hg hg1 hg2
      right
      refine ⟨(f.parent, f.child), by simp, hg1, ?_⟩
      rw [D_setKV, if_pos rfl, ← hnn]; omega
  · intro f rest nn hs hlt hnn hp hv hle
    show LowOKP nb s.visited s.disc s.low (adv f :: rest)
    unfold LowOK at hL; rw [hs] at hL
    apply lowOK_adv hL (fun _ => Nat.le_refl _)
    intro g hg hg1 hg2
    rw [← hnn] at hg2; omega
  · intro f rest nn hs hlt hnn hp hv
    show LowOKP nb (nn :: s.visited) (setKV nn s.disc.length s.disc) (setKV nn s.disc.length s.low)
      (⟨f.child, nn, 0, nb nn⟩ :: adv f :: rest)
    have hne : ∀ v ∈ s.visited, v ≠ nn := fun v hv' he => hv (he ▸ hv')
    unfold LowOK at hL
    intro g hg u w hscan hg1 hg2
    obtain ⟨hun, hscan'⟩ := scanned_push hscan
    have huv : u ∈ s.visited := by
      rcases List.mem_cons.mp hscan.1 with h | h
      · exact absurd h hun
      · exact h
    rw [spine_cons, spine_adv, ← hs] at hg ⊢
    rw [D_setKV, D_setKV, if_neg hun] at hg1
    rcases List.mem_cons.mp hg with hg | hg
    · exfalso
      rw [hg] at hg1; simp only [if_true] at hg1
      have := h4.dlt u huv; omega
    · have hgv := (hsc g hg).1
      rw [if_neg (hne _ hgv)] at hg1
      rw [D_setKV, D_setKV, if_neg (hne _ hgv)] at hg2
      rw [← hs] at hscan'
      rcases hscan' with hscan' | ⟨_, hw⟩
      · have hwv : w ∈ s.visited := h2.scan u w hscan'
        rw [if_neg (hne w hwv)] at hg2
        rcases hL g hg u w hscan' hg1 hg2 with h | ⟨h, hh, h3, h4'⟩
        · exact Or.inl h
        · right
          have hhv := (hsc h hh).1
          refine ⟨h, List.mem_cons_of_mem _ hh, ?_, ?_⟩
          · rw [D_setKV, D_setKV, if_neg (hne _ hgv), if_neg (hne _ hhv)]; exact h3
          · rw [D_setKV, D_setKV, if_neg (hne _ hhv), if_neg (hne w hwv)]; exact h4'
      · exfalso
        rw [hw, ← hnn] at hg2; simp only [if_true] at hg2
        have := h4.dlt _ hgv; omega
  · intro f rest hs hlt hlen hc
    show LowOKP nb s.visited s.disc (setKV f.parent (min (D s.low f.parent) (D s.low f.child)) s.low) rest
    have hso := h4.sorted; have hch := h4.chain
    rw [hs, spine_cons] at hso hch
    unfold LowOK at hL; rw [hs] at hL
    intro g hg u w hscan hg1 hg2
    have hscan' := scanned_pop (h1.nbrs f (by simp [hs])) hlt hscan
    rcases hL g (by rw [spine_cons]; exact List.mem_cons_of_mem _ hg) u w hscan' hg1 hg2 with h | ⟨h, hh, h3, h4'⟩
    · exact Or.inl h
    · right
      rw [spine_cons] at hh
      rcases List.mem_cons.mp hh with hh | hh
      · cases hrest : rest with
        | nil => rw [hrest] at hlen; simp at hlen
        | cons g0 r =>
          rw [hrest, spine_cons] at hch hg hso
          refine ⟨(g0.parent, g0.child), by simp, ?_, ?_⟩
          · have := below_le_parent hso hch g hg
            rw [hch.1] at this; exact this
          · rw [D_setKV, if_pos hch.1.symm]
            rw [hh] at h4'; simp only [] at h4'; omega
      · refine ⟨h, hh, h3, ?_⟩
        rw [D_setKV]; split
        · next he => rw [he] at h4'; omega
        · exact h4'
  · intro f rest hs hlt hlen hc
    show LowOKP nb s.visited s.disc (setKV f.parent (min (D s.low f.parent) (D s.low f.child)) s.low) rest
    have hso := h4.sorted; have hch := h4.chain
    rw [hs, spine_cons] at hso hch
    unfold LowOK at hL; rw [hs] at hL
    intro g hg u w hscan hg1 hg2
    have hscan' := scanned_pop (h1.nbrs f (by simp [hs])) hlt hscan
    rcases hL g (by rw [spine_cons]; exact List.mem_cons_of_mem _ hg) u w hscan' hg1 hg2 with h | ⟨h, hh, h3, h4'⟩
    · exact Or.inl h
    · right
      rw [spine_cons] at hh
      rcases List.mem_cons.mp hh with hh | hh
      · cases hrest : rest with
        | nil => rw [hrest] at hlen; simp at hlen
        | cons g0 r =>
          rw [hrest, spine_cons] at hch hg hso
          refine ⟨(g0.parent, g0.child), by simp, ?_, ?_⟩
          · have := below_le_parent hso hch g hg
            rw [hch.1] at this; exact this
          · rw [D_setKV, if_pos hch.1.symm]
            rw [hh] at h4'; simp only [] at h4'; omega
      · refine ⟨h, hh, h3, ?_⟩
        rw [D_setKV]; split
        · next he => rw [he] at h4'; omega
        · exact h4'
  · intro f rest hs hlt hlen
    show LowOKP nb s.visited s.disc s.low rest
    have hch := h4.chain
    rw [hs, spine_cons] at hch
    intro g hg u w hscan hg1 hg2
    exfalso
    match rest, hlen, hch, hg with
    | [g0], _, hch, hg =>
      simp at hg
      rw [hg] at hg2; simp only [] at hg2
      have : g0.child = root := hch.2.2
      rw [this, h4.droot] at hg2; omega
  · intro f hs hlt
    show LowOKP nb s.visited s.disc s.low []
    intro g hg; simp at hg

/-- a finished node has no neighbour inside the subtree of a stack frame discovered after it -/
def NoCrossP (nb : V → List V) (vis : List V) (disc : List (V × Nat)) (sp : List (V × V)) : Prop :=
  ∀ w ∈ vis, (∀ e ∈ sp, e.2 ≠ w) → ∀ x ∈ nb w, ∀ g ∈ sp, D disc w < D disc g.2 → D disc x < D disc g.2

abbrev NoCross (nb : V → List V) (s : BSt) : Prop := NoCrossP nb s.visited s.disc (spine s.stack)

theorem noCross_init (nb : V → List V) (root : V) : NoCross nb (init nb root) := by
  intro w hw hfin
  simp [init] at hw hfin
  exact absurd hw.symm hfin

theorem noCross_step (nb : V → List V) (Vs : List V) (root : V) (s : BSt) (h1 : Inv1 nb Vs s) (h2 : Inv2 nb root s)
    (h4 : Inv4 root s) (hX : NoCross nb s) : NoCross nb (bstep nb s) := by
  have hsc := spine_child h1
  have adv_case : ∀ f rest, s.stack = f :: rest → NoCrossP nb s.visited s.disc (spine (adv f :: rest)) := by
    intro f rest hs; rw [spine_adv, ← hs]; exact hX
  have pop_case : ∀ f rest, s.stack = f :: rest → NoCrossP nb s.visited s.disc (spine rest) := by
    intro f rest hs
    have hso := h4.sorted
    rw [hs, spine_cons] at hso
    unfold NoCross at hX; rw [hs, spine_cons] at hX
    intro w hw hfin x hx g hg hlt
    by_cases hwf : f.child = w
    · have := sorted_head hso g hg
      rw [← hwf] at hlt; simp only [] at this; omega
    · apply hX w hw _ x hx g (List.mem_cons_of_mem _ hg) hlt
      intro e he
      rcases List.mem_cons.mp he with he | he
      · rw [he]; exact hwf
      · exact hfin e he
  apply bstep_cases
  · intro _; exact hX
  · intro f rest hs hlt hp; exact adv_case f rest hs
  · intro f rest nn hs hlt hnn hp hv hle; exact adv_case f rest hs
  · intro f rest nn hs hlt hnn hp hv hle; exact adv_case f rest hs
  · intro f rest nn hs hlt hnn hp hv
    show NoCrossP nb (nn :: s.visited) (setKV nn s.disc.length s.disc) ((f.child, nn) :: spine (adv f :: rest))
    rw [spine_adv, ← hs]
    have hne : ∀ v ∈ s.visited, v ≠ nn := fun v hv' he => hv (he ▸ hv')
    intro w hw hfin x hx g hg hlt'
    have hwn : w ≠ nn := fun h => hfin (f.child, nn) (by simp) h.symm
    have hwv : w ∈ s.visited := by
      rcases List.mem_cons.mp hw with h | h
      · exact absurd h hwn
      · exact h
    have hfin' : ∀ e ∈ spine s.stack, e.2 ≠ w := fun e he => hfin e (List.mem_cons_of_mem _ he)
    have hxv : x ∈ s.visited := by
      apply h2.scan w x
      refine ⟨hwv, hx, ?_⟩
      intro g hg hgw
      exact absurd hgw (hfin' _ (mem_spine hg))
    rw [D_setKV, if_neg (hne x hxv)]
    rw [D_setKV, if_neg hwn] at hlt'
    rcases List.mem_cons.mp hg with hg | hg
    · rw [hg, D_setKV]; simp only [if_true]; exact h4.dlt x hxv
    · have hgv := (hsc g hg).1
      rw [D_setKV, if_neg (hne _ hgv)] at hlt' ⊢
      exact hX w hwv hfin' x hx g hg hlt'
  · intro f rest hs hlt hlen hc; exact pop_case f rest hs
  · intro f rest hs hlt hlen hc; exact pop_case f rest hs
  · intro f rest hs hlt hlen; exact pop_case f rest hs
  · intro f hs hlt; exact pop_case f [] hs

/-- the subtree of a stack frame is connected to the frame's child without passing through the frame's parent -/
def ConnP (nb : V → List V) (vis : List V) (disc : List (V × Nat)) (sp : List (V × V)) : Prop :=
  ∀ g ∈ sp, g.2 ≠ g.1 → ∀ y ∈ vis, D disc g.2 ≤ D disc y → Reach (nbWithout nb g.1) g.2 y

abbrev Conn (nb : V → List V) (s : BSt) : Prop := ConnP nb s.visited s.disc (spine s.stack)

theorem conn_init (nb : V → List V) (root : V) : Conn nb (init nb root) := by
  intro g hg hne
  simp [init] at hg
  subst hg
  exact absurd rfl hne

theorem conn_step (nb : V → List V) (Vs : List V) (root : V) (s : BSt) (h1 : Inv1 nb Vs s)
    (h4 : Inv4 root s) (hT : Conn nb s) : Conn nb (bstep nb s) := by
  have hsc := spine_child h1
  have adv_case : ∀ f rest, s.stack = f :: rest → ConnP nb s.visited s.disc (spine (adv f :: rest)) := by
    intro f rest hs; rw [spine_adv, ← hs]; exact hT
  have pop_case : ∀ f rest, s.stack = f :: rest → ConnP nb s.visited s.disc (spine rest) := by
    intro f rest hs
    unfold Conn at hT; rw [hs, spine_cons] at hT
    intro g hg
    exact hT g (List.mem_cons_of_mem _ hg)
  apply bstep_cases
  · intro _; exact hT
  · intro f rest hs hlt hp; exact adv_case f rest hs
  · intro f rest nn hs hlt hnn hp hv hle; exact adv_case f rest hs
  · intro f rest nn hs hlt hnn hp hv hle; exact adv_case f rest hs
  · intro f rest nn hs hlt hnn hp hv
    show ConnP nb (nn :: s.visited) (setKV nn s.disc.length s.disc) ((f.child, nn) :: spine (adv f :: rest))
    rw [spine_adv, ← hs]
    have hne : ∀ v ∈ s.visited, v ≠ nn := fun v hv' he => hv (he ▸ hv')
    have hso := h4.sorted; have hch := h4.chain
    intro g hg hgne y hy hle
    rcases List.mem_cons.mp hg with hg | hg
    · rw [hg] at hle ⊢; simp only [] at hle ⊢
      rcases List.mem_cons.mp hy with hy | hy
      · rw [hy]; exact Reach.refl _
      · exfalso
        rw [D_setKV, D_setKV, if_neg (hne y hy)] at hle; simp only [if_true] at hle
        have := h4.dlt y hy; omega
    · have hgv := hsc g hg
      rw [D_setKV, if_neg (hne _ hgv.1)] at hle
      rcases List.mem_cons.mp hy with hy | hy
      · rw [hy]
        have hfv : f.child ∈ s.visited := h1.child f (by simp [hs])
        have hgf : D s.disc g.2 ≤ D s.disc f.child := by
          rw [hs, spine_cons] at hg hso
          rcases List.mem_cons.mp hg with hg | hg
          · rw [hg]; exact Nat.le_refl _
          · exact Nat.le_of_lt (sorted_head hso g hg)
        have hr := hT g hg hgne f.child hfv hgf
        have hpc : D s.disc g.1 < D s.disc g.2 := by
          rcases frame_cases _ hso hch g hg with h | h
          · exact absurd (h.2.trans h.1.symm) hgne
          · exact h
        apply Reach.step hr
        apply nbWithout_mem.mpr
        refine ⟨?_, ?_, (hne _ hgv.2).symm⟩
        · intro he; rw [he] at hgf; omega
        · rw [← h1.nbrs f (by simp [hs]), hnn]; exact getD_mem hlt
      · rw [D_setKV, if_neg (hne y hy)] at hle
        exact hT g hg hgne y hy hle
  · intro f rest hs hlt hlen hc; exact pop_case f rest hs
  · intro f rest hs hlt hlen hc; exact pop_case f rest hs
  · intro f rest hs hlt hlen; exact pop_case f rest hs
  · intro f hs hlt; exact pop_case f [] hs

/-! ## RUNG 4: soundness of the articulation points -/

/-- when an exhausted frame (parent p, child c) is popped with low[c] ≥ disc[p], no edge leaves the subtree of c
    except to p -/
theorem closure (nb : V → List V) (Vs : List V) (root : V) (hsym : ∀ a b, b ∈ nb a → a ∈ nb b) (s : BSt)
    (h1 : Inv1 nb Vs s) (h2 : Inv2 nb root s) (h4 : Inv4 root s) (hL : LowOK nb s) (hX : NoCross nb s)
    (f : Frame) (rest : List Frame) (hs : s.stack = f :: rest) (hlt : ¬ f.ptr < f.nbrs.length)
    (hlow : D s.disc f.parent ≤ D s.low f.child) :
    ∀ u ∈ s.visited, D s.disc f.child ≤ D s.disc u → ∀ w ∈ nb u, w ≠ f.parent →
      w ∈ s.visited ∧ D s.disc f.child ≤ D s.disc w := by
  have hso := h4.sorted; have hch := h4.chain
  rw [hs, spine_cons] at hso hch
  intro u hu hcu w hw hwp
  have hscan : Scanned nb s.visited s.stack u w := by
    refine ⟨hu, hw, ?_⟩
    intro g hg hgu
    rw [hs] at hg
    rcases List.mem_cons.mp hg with hg | hg
    · subst hg; rw [List.take_of_length_le (by omega), h1.nbrs g (by simp [hs]), hgu]; exact hw
    · exfalso
      have := sorted_head hso _ (mem_spine hg)
      rw [← hgu] at hcu; simp only [] at this; omega
  have hwv : w ∈ s.visited := h2.scan u w hscan
  refine ⟨hwv, ?_⟩
  apply Decidable.byContradiction
  intro hnle
  have hwc : D s.disc w < D s.disc f.child := by omega
  have hpw : D s.disc f.parent ≤ D s.disc w := by
    rcases hL (f.parent, f.child) (by rw [hs]; simp) u w hscan hcu hwc with h | ⟨h, hh, h3, h4'⟩
    · exact absurd h hwp
    · rw [hs, spine_cons] at hh
      rcases List.mem_cons.mp hh with hh | hh
      · rw [hh] at h4'; simp only [] at h4'; omega
      · have := sorted_head hso h hh; simp only [] at this h3; omega
  have hpv : f.parent ∈ s.visited := h1.parent f (by simp [hs])
  have hpw' : D s.disc f.parent < D s.disc w := by
    rcases Nat.lt_or_ge (D s.disc f.parent) (D s.disc w) with h | h
    · exact h
    · exact absurd (h4.inj w hwv f.parent hpv (by omega)) hwp
  have hfin : ∀ e ∈ spine s.stack, e.2 ≠ w := by
    rw [hs, spine_cons]
    exact between_off_stack hso hch hpw' hwc
  have := hX w hwv hfin u (hsym u w hw) (f.parent, f.child) (by rw [hs]; simp) hwc
  simp only [] at this; omega

theorem reach_closed {nb : V → List V} {p c : V} {P : V → Prop}
    (hcl : ∀ u, P u → ∀ w ∈ nb u, w ≠ p → P w) (hc : P c) : ∀ y, Reach (nbWithout nb p) c y → P y := by
  intro y hr
  induction hr with
  | refl => exact hc
  | step _ hmem ih =>
    obtain ⟨_, h2, h3⟩ := nbWithout_mem.mp hmem
    exact hcl _ ih _ h2 h3

structure Inv6 (nb : V → List V) (Vs : List V) (root : V) (s : BSt) : Prop where
  r1 : s.rootChildren ≥ 1 → ∃ x ∈ Vs, x ≠ root ∧
    ∀ y, Reach (nbWithout nb root) x y → y ∈ s.visited ∧ ∀ e ∈ spine s.stack, e.2 ≠ y
  r2 : s.rootChildren ≥ 2 → isCut nb Vs root = true
  aps : ∀ a ∈ s.aps, isCut nb Vs a = true

theorem inv6_init (nb : V → List V) (Vs : List V) (root : V) : Inv6 nb Vs root (init nb root) := by
  constructor <;> simp [init]

theorem inv6_step (nb : V → List V) (Vs : List V) (hu : Undirected nb Vs) (hd : Vs.Nodup) (root : V) (hr : root ∈ Vs)
    (s : BSt) (h1 : Inv1 nb Vs s) (h2 : Inv2 nb root s) (h4 : Inv4 root s) (hL : LowOK nb s) (hX : NoCross nb s)
    (h : Inv6 nb Vs root s) : Inv6 nb Vs root (bstep nb s) := by
  obtain ⟨hr1, hr2, haps⟩ := h
  have hsc := spine_child h1
  have r1_sub : ∀ (n : Nat) (vis : List V) (sp : List (V × V)), n ≥ 1 → (n ≥ 1 → s.rootChildren ≥ 1) →
      (∀ y ∈ s.visited, y ∈ vis) →
      (∀ y ∈ s.visited, (∀ e ∈ spine s.stack, e.2 ≠ y) → ∀ e ∈ sp, e.2 ≠ y) →
      ∃ x ∈ Vs, x ≠ root ∧ ∀ y, Reach (nbWithout nb root) x y → y ∈ vis ∧ ∀ e ∈ sp, e.2 ≠ y := by
    intro n vis sp hn hn' hvis hsp
    obtain ⟨x, hx1, hx2, hx3⟩ := hr1 (hn' hn)
    exact ⟨x, hx1, hx2, fun y hy => ⟨hvis y (hx3 y hy).1, hsp y (hx3 y hy).1 (hx3 y hy).2⟩⟩
  have tail_sub : ∀ f rest, s.stack = f :: rest →
      ∀ y ∈ s.visited, (∀ e ∈ spine s.stack, e.2 ≠ y) → ∀ e ∈ spine rest, e.2 ≠ y := by
    intro f rest hs y _ hy e he
    exact hy e (by rw [hs, spine_cons]; exact List.mem_cons_of_mem _ he)
  have adv_sub : ∀ f rest, s.stack = f :: rest →
      ∀ y ∈ s.visited, (∀ e ∈ spine s.stack, e.2 ≠ y) → ∀ e ∈ spine (adv f :: rest), e.2 ≠ y := by
    intro f rest hs y _ hy e he
    exact hy e (by rw [hs, ← spine_adv]; exact he)
  apply bstep_cases
  · intro _; exact ⟨hr1, hr2, haps⟩
  · intro f rest hs hlt hp
    exact ⟨fun hn => r1_sub _ _ _ hn id (fun _ h => h) (adv_sub f rest hs), hr2, haps⟩
  · intro f rest nn hs hlt hnn hp hv hle
    exact ⟨fun hn => r1_sub _ _ _ hn id (fun _ h => h) (adv_sub f rest hs), hr2, haps⟩
  · intro f rest nn hs hlt hnn hp hv hle
    exact ⟨fun hn => r1_sub _ _ _ hn id (fun _ h => h) (adv_sub f rest hs), hr2, haps⟩
  · intro f rest nn hs hlt hnn hp hv
    refine ⟨fun hn => r1_sub _ _ _ hn id (fun _ h => List.mem_cons_of_mem _ h) ?_, hr2, haps⟩
    intro y hy hfin e he
    change e ∈ (f.child, nn) :: spine (adv f :: rest) at he
    rcases List.mem_cons.mp he with he | he
    · rw [he]; intro h; exact hv (by simp only [] at h; rw [h]; exact hy)
    · exact adv_sub f rest hs y hy hfin e he
  · intro f rest hs hlt hlen hc
    refine ⟨fun hn => r1_sub _ _ _ hn id (fun _ h => h) (tail_sub f rest hs), hr2, ?_⟩
    intro a ha
    rcases mem_insertSet ha with ha | ha
    · rw [ha]
      have hso := h4.sorted; have hch := h4.chain
      rw [hs, spine_cons] at hso hch
      have hrne : spine rest ≠ [] := by intro h; simp [spine] at h; rw [h] at hlen; simp at hlen
      have hpc := parent_lt_child hso hch hrne
      have hpp := parent_pos hso hch (by simpa [spine] using hlen)
      simp only [] at hpc hpp
      have hpv : f.parent ∈ s.visited := h1.parent f (by simp [hs])
      have hcv : f.child ∈ s.visited := h1.child f (by simp [hs])
      apply (C15.isCut_iff nb Vs hu hd f.parent (h1.sub _ hpv)).mpr
      refine ⟨f.child, root, h1.sub _ hcv, hr, ?_, ?_, ?_⟩
      · intro he; rw [he] at hpc; omega
      · intro he; rw [← he, h4.droot] at hpp; omega
      · intro hreach
        have hcl := closure nb Vs root hu.symm s h1 h2 h4 hL hX f rest hs hlt hc
        have := reach_closed (P := fun y => y ∈ s.visited ∧ D s.disc f.child ≤ D s.disc y)
          (fun u hu' w hw hwp => hcl u hu'.1 hu'.2 w hw hwp) ⟨hcv, Nat.le_refl _⟩ root hreach
        rw [h4.droot] at this; omega
    · exact haps a ha
  · intro f rest hs hlt hlen hc
    exact ⟨fun hn => r1_sub _ _ _ hn id (fun _ h => h) (tail_sub f rest hs), hr2, haps⟩
  · intro f rest hs hlt hlen
    have hso := h4.sorted; have hch := h4.chain
    rw [hs, spine_cons] at hso hch
    have hrne : spine rest ≠ [] := by intro h; simp [spine] at h; rw [h] at hlen; simp at hlen
    have hcpos := top_pos hso hrne
    have hproot : f.parent = root := parent_root hch (by simpa [spine] using hlen)
    simp only [] at hcpos
    have hcv : f.child ∈ s.visited := h1.child f (by simp [hs])
    have hcr : f.child ≠ root := by intro he; rw [he, h4.droot] at hcpos; omega
    refine ⟨?_, ?_, haps⟩
    · intro _
      by_cases hrc : s.rootChildren ≥ 1
      · exact r1_sub 1 _ _ (Nat.le_refl _) (fun _ => hrc) (fun _ h => h) (tail_sub f rest hs)
      · refine ⟨f.child, h1.sub _ hcv, hcr, ?_⟩
        intro y hreach
        have hcl := closure nb Vs root hu.symm s h1 h2 h4 hL hX f rest hs hlt
          (by rw [hproot, h4.droot]; exact Nat.zero_le _)
        rw [hproot] at hcl
        have := reach_closed (P := fun y => y ∈ s.visited ∧ D s.disc f.child ≤ D s.disc y)
          (fun u hu' w hw hwp => hcl u hu'.1 hu'.2 w hw hwp) ⟨hcv, Nat.le_refl _⟩ y hreach
        refine ⟨this.1, ?_⟩
        intro e he hey
        have h' := sorted_head hso e he
        rw [hey] at h'; simp only [] at h'; omega
    · intro hn
      have hn' : s.rootChildren ≥ 1 := by simp only [] at hn; omega
      obtain ⟨x, hx1, hx2, hx3⟩ := hr1 hn'
      apply (C15.isCut_iff nb Vs hu hd root hr).mpr
      refine ⟨x, f.child, hx1, h1.sub _ hcv, hx2, hcr, ?_⟩
      intro hreach
      exact (hx3 _ hreach).2 (f.parent, f.child) (by rw [hs]; simp) rfl
  · intro f hs hlt
    exact ⟨fun hn => r1_sub _ _ _ hn id (fun _ h => h) (tail_sub f [] hs), hr2, haps⟩

structure InvS (nb : V → List V) (Vs : List V) (root : V) (s : BSt) : Prop where
  i1 : Inv1 nb Vs s
  i2 : Inv2 nb root s
  i4 : Inv4 root s
  low : LowOK nb s
  nocross : NoCross nb s
  i6 : Inv6 nb Vs root s

theorem invS_bgo (nb : V → List V) (Vs : List V) (hu : Undirected nb Vs) (hd : Vs.Nodup) (root : V) (hr : root ∈ Vs)
    (n : Nat) : InvS nb Vs root (bgo nb n (init nb root)) := by
  apply bgo_inv nb (InvS nb Vs root)
  · intro s h
    exact ⟨inv1_step nb Vs hu s h.i1, inv2_step nb Vs root s h.i1 h.i2, inv4_step nb Vs root s h.i1 h.i2 h.i4,
      lowOK_step nb Vs root s h.i1 h.i2 h.i4 h.low, noCross_step nb Vs root s h.i1 h.i2 h.i4 h.nocross,
      inv6_step nb Vs hu hd root hr s h.i1 h.i2 h.i4 h.low h.nocross h.i6⟩
  · exact ⟨inv1_init nb Vs root hr, inv2_init nb root, inv4_init nb root, lowOK_init nb root, noCross_init nb root,
      inv6_init nb Vs root⟩

theorem aps_sound (nb : V → List V) (Vs : List V) (hu : Undirected nb Vs) (hd : Vs.Nodup) (root : V) (hr : root ∈ Vs) :
    ∀ a ∈ (biccsFrom nb root (biccFuel nb Vs)).2, isCut nb Vs a = true := by
  have h := (invS_bgo nb Vs hu hd root hr (biccFuel nb Vs)).i6
  intro a ha
  change a ∈ (if (bgo nb (biccFuel nb Vs) (init nb root)).rootChildren > 1 then
    insertSet root (bgo nb (biccFuel nb Vs) (init nb root)).aps else (bgo nb (biccFuel nb Vs) (init nb root)).aps) at ha
  split at ha
  · next hgt =>
    rcases mem_insertSet ha with h' | h'
    · rw [h']; exact h.r2 hgt
    · exact h.aps a h'
  · exact h.aps a ha

/-! ## RUNG 5: completeness of the articulation points -/

/-- for a fixed non-root node `a`: unless `a` has been reported, every discovered node outside the subtree of the
    child of `a` that is being explored is connected to the root avoiding `a` -/
def CaP (nb : V → List V) (root a : V) (aps vis : List V) (disc : List (V × Nat)) (sp : List (V × V)) : Prop :=
  a ∈ aps ∨ ∀ y ∈ vis, y ≠ a → (∀ g ∈ sp, g.1 = a → D disc y < D disc g.2) → Reach (nbWithout nb a) root y

abbrev Ca (nb : V → List V) (root a : V) (s : BSt) : Prop := CaP nb root a s.aps s.visited s.disc (spine s.stack)

theorem ca_init (nb : V → List V) (root a : V) : Ca nb root a (init nb root) := by
  right
  intro y hy _ _
  simp [init] at hy
  rw [hy]; exact Reach.refl _

theorem ca_step (nb : V → List V) (Vs : List V) (hu : Undirected nb Vs) (root a : V) (har : a ≠ root)
    (s : BSt) (h1 : Inv1 nb Vs s) (h4 : Inv4 root s) (hW : Wit nb s) (hT : Conn nb s)
    (hC : Ca nb root a s) : Ca nb root a (bstep nb s) := by
  have hsc := spine_child h1
  have adv_case : ∀ f rest, s.stack = f :: rest → CaP nb root a s.aps s.visited s.disc (spine (adv f :: rest)) := by
    intro f rest hs; rw [spine_adv, ← hs]; exact hC
  -- popping a frame whose parent is not `a`
  have pop_other : ∀ f rest (aps' : List V), s.stack = f :: rest → f.parent ≠ a → (∀ x ∈ s.aps, x ∈ aps') →
      CaP nb root a aps' s.visited s.disc (spine rest) := by
    intro f rest aps' hs hpa haps
    rcases hC with hC | hC
    · exact Or.inl (haps a hC)
    · right
      intro y hy hya hyp
      apply hC y hy hya
      rw [hs, spine_cons]
      intro g hg hga
      rcases List.mem_cons.mp hg with hg | hg
      · rw [hg] at hga; exact absurd hga hpa
      · exact hyp g hg hga
  apply bstep_cases
  · intro _; exact hC
  · intro f rest hs hlt hp; exact adv_case f rest hs
  · intro f rest nn hs hlt hnn hp hv hle; exact adv_case f rest hs
  · intro f rest nn hs hlt hnn hp hv hle; exact adv_case f rest hs
  · intro f rest nn hs hlt hnn hp hv
    show CaP nb root a s.aps (nn :: s.visited) (setKV nn s.disc.length s.disc) ((f.child, nn) :: spine (adv f :: rest))
    rw [spine_adv, ← hs]
    have hne : ∀ v ∈ s.visited, v ≠ nn := fun v hv' he => hv (he ▸ hv')
    rcases hC with hC | hC
    · exact Or.inl hC
    · right
      intro y hy hya hyp
      rcases List.mem_cons.mp hy with hy | hy
      · rw [hy] at hya hyp ⊢
        have hfa : f.child ≠ a := by
          intro he
          have := hyp (f.child, nn) (by simp) he
          simp only [] at this; omega
        have hfv : f.child ∈ s.visited := h1.child f (by simp [hs])
        have hrf : Reach (nbWithout nb a) root f.child := by
          apply hC f.child hfv hfa
          intro g hg hga
          exfalso
          have := hyp g (List.mem_cons_of_mem _ hg) hga
          have hgv := (hsc g hg).1
          rw [D_setKV, D_setKV, if_neg (hne _ hgv)] at this; simp only [if_true] at this
          have := h4.dlt _ hgv; omega
        apply Reach.step hrf
        apply nbWithout_mem.mpr
        refine ⟨hfa, ?_, hya⟩
        rw [← h1.nbrs f (by simp [hs]), hnn]; exact getD_mem hlt
      · apply hC y hy hya
        intro g hg hga
        have := hyp g (List.mem_cons_of_mem _ hg) hga
        rw [D_setKV, D_setKV, if_neg (hne _ (hsc g hg).1), if_neg (hne y hy)] at this
        exact this
  · intro f rest hs hlt hlen hc
    show CaP nb root a (insertSet f.parent s.aps) s.visited s.disc (spine rest)
    by_cases hpa : f.parent = a
    · left; rw [← hpa]; exact mem_insertSet_self _ _
    · exact pop_other f rest _ hs hpa (fun x hx => mem_insertSet_of_mem hx)
  · intro f rest hs hlt hlen hc
    show CaP nb root a s.aps s.visited s.disc (spine rest)
    by_cases hpa : f.parent = a
    · rcases hC with hC | hC
      · exact Or.inl hC
      · right
        have hso := h4.sorted; have hch := h4.chain
        have hfc := frame_cases _ hso hch
        rw [hs, spine_cons] at hso hch
        have hrne : spine rest ≠ [] := by intro h; simp [spine] at h; rw [h] at hlen; simp at hlen
        have hpc := parent_lt_child hso hch hrne
        simp only [] at hpc
        have hu' := nbWithout_undirected hu a
        have hcne : f.child ≠ f.parent := by intro he; rw [he] at hpc; omega
        have hTf := hT (f.parent, f.child) (by rw [hs]; simp) hcne
        simp only [] at hTf
        rw [hpa] at hTf hpc hc
        -- the child of `a` reaches the root avoiding `a`, through the witness of its low point
        have hroot : Reach (nbWithout nb a) root f.child := by
          obtain ⟨u, w, huv, hwv, hcu, hwu, hdw⟩ := hW (f.parent, f.child) (by rw [hs]; simp)
          simp only [] at hcu hdw
          have hua : u ≠ a := by intro he; rw [he] at hcu; omega
          have hwa : w ≠ a := by intro he; rw [he] at hdw; omega
          have hwnb : w ∈ nb u := by
            rcases hwu with h | h
            · exact h
            · rw [h] at hdw; omega
          have hrw : Reach (nbWithout nb a) root w := by
            apply hC w hwv hwa
            intro g hg hga
            rcases hfc g hg with h | h
            · exact absurd (hga.symm.trans h.1) har
            · rw [hga] at h; omega
          have hru : Reach (nbWithout nb a) root u :=
            Reach.step hrw (nbWithout_mem.mpr ⟨hwa, hu.symm u w hwnb, hua⟩)
          exact Reach.trans hru (Reach.symm hu'.symm (hTf u huv hcu))
        intro y hy hya hyp
        by_cases hyc : D s.disc y < D s.disc f.child
        · apply hC y hy hya
          rw [hs, spine_cons]
          intro g hg hga
          rcases List.mem_cons.mp hg with hg | hg
          · rw [hg]; exact hyc
          · exact hyp g hg hga
        · exact Reach.trans hroot (hTf y hy (by omega))
    · exact pop_other f rest _ hs hpa (fun x hx => hx)
  · intro f rest hs hlt hlen
    show CaP nb root a s.aps s.visited s.disc (spine rest)
    have hch := h4.chain
    rw [hs, spine_cons] at hch
    have hproot : f.parent = root := parent_root hch (by simpa [spine] using hlen)
    exact pop_other f rest _ hs (by rw [hproot]; exact fun h => har h.symm) (fun x hx => hx)
  · intro f hs hlt
    show CaP nb root a s.aps s.visited s.disc (spine [])
    have hch := h4.chain
    rw [hs] at hch
    exact pop_other f [] _ hs (by rw [show f.parent = root from hch.1]; exact fun h => har h.symm) (fun x hx => hx)

/-- the root: while no child of the root is finished everything hangs below the first child; after exactly one
    finished child (and nothing else started) everything but the root is connected avoiding the root -/
structure Cr (nb : V → List V) (root : V) (s : BSt) : Prop where
  c0 : s.rootChildren = 0 → ∀ y ∈ s.visited, y ≠ root →
    ∃ g ∈ spine s.stack, g.1 = root ∧ g.2 ≠ root ∧ D s.disc g.2 ≤ D s.disc y
  c1 : s.rootChildren = 1 → s.stack.length ≤ 1 → ∃ x, ∀ y ∈ s.visited, y ≠ root → Reach (nbWithout nb root) x y

theorem cr_init (nb : V → List V) (root : V) : Cr nb root (init nb root) := by
  constructor
  · intro _ y hy hne; simp [init] at hy; exact absurd hy hne
  · intro h; simp [init] at h

theorem cr_step (nb : V → List V) (Vs : List V) (root : V)
    (s : BSt) (h1 : Inv1 nb Vs s) (h4 : Inv4 root s) (hT : Conn nb s)
    (hC : Cr nb root s) : Cr nb root (bstep nb s) := by
  obtain ⟨hc0, hc1⟩ := hC
  have hsc := spine_child h1
  have adv_case : ∀ f rest, s.stack = f :: rest → ∀ s' : BSt, s'.visited = s.visited → s'.disc = s.disc →
      s'.stack = adv f :: rest → s'.rootChildren = s.rootChildren → Cr nb root s' := by
    intro f rest hs s' hv hd hst hrc
    constructor
    · rw [hrc, hv, hd, hst, spine_adv, ← hs]; exact hc0
    · rw [hrc, hv, hst]; intro h hl; exact hc1 h (by rw [hs]; simpa using hl)
  have pop2_case : ∀ f rest, s.stack = f :: rest → rest.length > 1 → ∀ s' : BSt, s'.visited = s.visited →
      s'.disc = s.disc → s'.stack = rest → s'.rootChildren = s.rootChildren → Cr nb root s' := by
    intro f rest hs hlen s' hv hd hst hrc
    have hso := h4.sorted; have hch := h4.chain
    rw [hs, spine_cons] at hso hch
    have hpp := parent_pos hso hch (by simpa [spine] using hlen)
    constructor
    · rw [hrc, hv, hd, hst]
      intro h0 y hy hyr
      obtain ⟨g, hg, hg1, hg2, hg3⟩ := hc0 h0 y hy hyr
      rw [hs, spine_cons] at hg
      rcases List.mem_cons.mp hg with hg | hg
      · exfalso; rw [hg] at hg1; simp only [] at hg1 hpp; rw [hg1, h4.droot] at hpp; omega
      · exact ⟨g, hg, hg1, hg2, hg3⟩
    · rw [hst]; intro _ hl; omega
  apply bstep_cases
  · intro _; exact ⟨hc0, hc1⟩
  · intro f rest hs hlt hp; exact adv_case f rest hs _ rfl rfl rfl rfl
  · intro f rest nn hs hlt hnn hp hv hle; exact adv_case f rest hs _ rfl rfl rfl rfl
  · intro f rest nn hs hlt hnn hp hv hle; exact adv_case f rest hs _ rfl rfl rfl rfl
  · intro f rest nn hs hlt hnn hp hv
    have hne : ∀ v ∈ s.visited, v ≠ nn := fun v hv' he => hv (he ▸ hv')
    constructor
    · show s.rootChildren = 0 → ∀ y ∈ nn :: s.visited, y ≠ root →
        ∃ g ∈ (f.child, nn) :: spine (adv f :: rest), g.1 = root ∧ g.2 ≠ root ∧
          D (setKV nn s.disc.length s.disc) g.2 ≤ D (setKV nn s.disc.length s.disc) y
      rw [spine_adv, ← hs]
      intro h0 y hy hyr
      have old : ∀ y' ∈ s.visited, y' ≠ root → D s.disc y' ≤ D (setKV nn s.disc.length s.disc) y →
          ∃ g ∈ (f.child, nn) :: spine s.stack, g.1 = root ∧ g.2 ≠ root ∧
          D (setKV nn s.disc.length s.disc) g.2 ≤ D (setKV nn s.disc.length s.disc) y := by
        intro y' hy' hyr' hle
        obtain ⟨g, hg, hg1, hg2, hg3⟩ := hc0 h0 y' hy' hyr'
        refine ⟨g, List.mem_cons_of_mem _ hg, hg1, hg2, ?_⟩
        rw [D_setKV (v := g.2), if_neg (hne _ (hsc g hg).1)]; omega
      rcases List.mem_cons.mp hy with hy | hy
      · by_cases hfr : f.child = root
        · exact ⟨(f.child, nn), by simp, hfr, by rw [← hy]; exact hyr, by rw [hy]; exact Nat.le_refl _⟩
        · have hfv : f.child ∈ s.visited := h1.child f (by simp [hs])
          apply old f.child hfv hfr
          rw [hy, D_setKV, if_pos rfl]; exact Nat.le_of_lt (h4.dlt _ hfv)
      · apply old y hy hyr
        rw [D_setKV, if_neg (hne y hy)]; exact Nat.le_refl _
    · intro _ hl; simp at hl
  · intro f rest hs hlt hlen hc; exact pop2_case f rest hs hlen _ rfl rfl rfl rfl
  · intro f rest hs hlt hlen hc; exact pop2_case f rest hs hlen _ rfl rfl rfl rfl
  · intro f rest hs hlt hlen
    have hso := h4.sorted; have hch := h4.chain
    rw [hs, spine_cons] at hso hch
    have hproot : f.parent = root := parent_root hch (by simpa [spine] using hlen)
    have hrne : spine rest ≠ [] := by intro h; simp [spine] at h; rw [h] at hlen; simp at hlen
    have hcpos := top_pos hso hrne
    simp only [] at hcpos
    have hcr : f.child ≠ root := by intro he; rw [he, h4.droot] at hcpos; omega
    constructor
    · intro h; simp at h
    · intro hrc _
      have h0 : s.rootChildren = 0 := by simp only [] at hrc; omega
      refine ⟨f.child, ?_⟩
      intro y hy hyr
      obtain ⟨g, hg, hg1, hg2, hg3⟩ := hc0 h0 y hy hyr
      have hgf : g = (f.parent, f.child) := by
        rw [hs, spine_cons] at hg
        rcases List.mem_cons.mp hg with hg | hg
        · exact hg
        · exfalso
          match rest, hlen, hch, hg with
          | [g0], _, hch, hg =>
            simp at hg
            have : g0.child = root := hch.2.2
            rw [hg] at hg2; exact hg2 this
      have := hT (f.parent, f.child) (by rw [hs]; simp) (by rw [hproot]; exact hcr) y hy (by rw [hgf] at hg3; exact hg3)
      rw [hproot] at this; exact this
  · intro f hs hlt
    have hch := h4.chain
    rw [hs] at hch
    constructor
    · intro h0 y hy hyr
      obtain ⟨g, hg, hg1, hg2, hg3⟩ := hc0 h0 y hy hyr
      rw [hs] at hg; simp at hg
      exfalso; rw [hg] at hg2; exact hg2 hch.2
    · intro hrc _
      exact hc1 hrc (by rw [hs]; simp)

structure InvC (nb : V → List V) (Vs : List V) (root : V) (s : BSt) : Prop where
  i1 : Inv1 nb Vs s
  i2 : Inv2 nb root s
  i4 : Inv4 root s
  wit : Wit nb s
  conn : Conn nb s
  cr : Cr nb root s
  ca : ∀ a, a ≠ root → Ca nb root a s

theorem invC_bgo (nb : V → List V) (Vs : List V) (hu : Undirected nb Vs) (root : V) (hr : root ∈ Vs)
    (n : Nat) : InvC nb Vs root (bgo nb n (init nb root)) := by
  apply bgo_inv nb (InvC nb Vs root)
  · intro s h
    exact ⟨inv1_step nb Vs hu s h.i1, inv2_step nb Vs root s h.i1 h.i2, inv4_step nb Vs root s h.i1 h.i2 h.i4,
      wit_step nb Vs root s h.i1 h.i4 h.wit, conn_step nb Vs root s h.i1 h.i4 h.conn,
      cr_step nb Vs root s h.i1 h.i4 h.conn h.cr,
      fun a har => ca_step nb Vs hu root a har s h.i1 h.i4 h.wit h.conn (h.ca a har)⟩
  · exact ⟨inv1_init nb Vs root hr, inv2_init nb root, inv4_init nb root, wit_init nb root, conn_init nb root,
      cr_init nb root, fun a _ => ca_init nb root a⟩

theorem aps_complete (nb : V → List V) (Vs : List V) (hu : Undirected nb Vs) (hd : Vs.Nodup) (root : V) (hr : root ∈ Vs)
    (hc : connectedB nb Vs = true) :
    ∀ a ∈ Vs, isCut nb Vs a = true → a ∈ (biccsFrom nb root (biccFuel nb Vs)).2 := by
  intro a ha hcut
  have h := invC_bgo nb Vs hu root hr (biccFuel nb Vs)
  have hst := terminates nb Vs hu root hr
  have hvis := (visits_all nb Vs hu root hr hc).2
  obtain ⟨x, y, hx, hy, hxa, hya, hnr⟩ := (C15.isCut_iff nb Vs hu hd a ha).mp hcut
  have hu' := nbWithout_undirected hu a
  show a ∈ (if (bgo nb (biccFuel nb Vs) (init nb root)).rootChildren > 1 then
    insertSet root (bgo nb (biccFuel nb Vs) (init nb root)).aps else (bgo nb (biccFuel nb Vs) (init nb root)).aps)
  generalize bgo nb (biccFuel nb Vs) (init nb root) = s at h hst hvis
  by_cases har : a = root
  · subst har
    split
    · exact mem_insertSet_self _ _
    · next hle =>
      exfalso
      have hxv := (hvis x).mpr hx
      have hyv := (hvis y).mpr hy
      by_cases h0 : s.rootChildren = 0
      · obtain ⟨g, hg, _⟩ := h.cr.c0 h0 x hxv hxa
        rw [hst] at hg; simp at hg
      · obtain ⟨x0, hx0⟩ := h.cr.c1 (by omega) (by rw [hst]; simp)
        exact hnr (Reach.trans (Reach.symm hu'.symm (hx0 x hxv hxa)) (hx0 y hyv hya))
  · have hca := h.ca a har
    have hin : a ∈ s.aps := by
      rcases hca with hca | hca
      · exact hca
      · exfalso
        have hrx := hca x ((hvis x).mpr hx) hxa (by rw [hst]; intro g hg; simp at hg)
        have hry := hca y ((hvis y).mpr hy) hya (by rw [hst]; intro g hg; simp at hg)
        exact hnr (Reach.trans (Reach.symm hu'.symm hrx) hry)
    split
    · exact mem_insertSet_of_mem hin
    · exact hin

end Gaftools.Proofs.Bicc
