import Gaftools.Props.C15
/-!
# Lemmas for C15 (biccs): invariants of the iterative Hopcroft–Tarjan loop `bstep`
-/
namespace Gaftools.Proofs.Bicc
open Gaftools.Gfa Gaftools.Algo Gaftools.Spec.Graph Gaftools.Proofs.Algo

/-! ## basic notions on states -/

/-- the state `biccsFrom` starts from (same as `C15.binit`) -/
def init (nb : V → List V) (root : V) : BSt :=
  { disc := [(root, 0)], low := [(root, 0)], visited := [root], estack := [], loc := [],
    stack := [⟨root, root, 0, nb root⟩], comps := [], aps := [], rootChildren := 0 }

/-- value of a node in the dictionaries `disc` / `low` (0 when absent) -/
def D (l : List (V × Nat)) (v : V) : Nat := (lookup v l).getD 0

/-- frame with its pointer advanced -/
def adv (f : Frame) : Frame := { f with ptr := f.ptr + 1 }

@[simp] theorem adv_child (f : Frame) : (adv f).child = f.child := rfl
@[simp] theorem adv_parent (f : Frame) : (adv f).parent = f.parent := rfl
@[simp] theorem adv_nbrs (f : Frame) : (adv f).nbrs = f.nbrs := rfl
@[simp] theorem adv_ptr (f : Frame) : (adv f).ptr = f.ptr + 1 := rfl

theorem lookup_setKV {α β} [BEq α] [LawfulBEq α] [DecidableEq α] (k k' : α) (v : β) (l : List (α × β)) :
    lookup k (setKV k' v l) = if k = k' then some v else lookup k l := by
  simp [setKV, lookup]

/-! ## the branches of `bstep` -/

/-- case analysis of one loop iteration, one hypothesis per branch -/
theorem bstep_cases (nb : V → List V) (s : BSt) (P : BSt → Prop)
    (hnil : s.stack = [] → P s)
    (hskip : ∀ f rest, s.stack = f :: rest → f.ptr < f.nbrs.length → f.nbrs.getD f.ptr "" = f.parent →
      P { s with stack := adv f :: rest })
    (hback : ∀ f rest nn, s.stack = f :: rest → f.ptr < f.nbrs.length → nn = f.nbrs.getD f.ptr "" →
      nn ≠ f.parent → nn ∈ s.visited → D s.disc nn ≤ D s.disc f.child →
      P { s with stack := adv f :: rest,
                 estack := s.estack ++ [(f.child, nn)],
                 loc := setKV (f.child, nn) s.estack.length s.loc,
                 low := setKV f.child (min (D s.low f.child) (D s.disc nn)) s.low })
    (hign : ∀ f rest nn, s.stack = f :: rest → f.ptr < f.nbrs.length → nn = f.nbrs.getD f.ptr "" →
      nn ≠ f.parent → nn ∈ s.visited → D s.disc f.child < D s.disc nn →
      P { s with stack := adv f :: rest })
    (hpush : ∀ f rest nn, s.stack = f :: rest → f.ptr < f.nbrs.length → nn = f.nbrs.getD f.ptr "" →
      nn ≠ f.parent → nn ∉ s.visited →
      P { s with low := setKV nn s.disc.length s.low, disc := setKV nn s.disc.length s.disc,
                 visited := nn :: s.visited,
                 stack := ⟨f.child, nn, 0, nb nn⟩ :: adv f :: rest,
                 estack := s.estack ++ [(f.child, nn)],
                 loc := setKV (f.child, nn) s.estack.length s.loc })
    (hpop2cut : ∀ f rest, s.stack = f :: rest → ¬ f.ptr < f.nbrs.length → rest.length > 1 →
      D s.disc f.parent ≤ D s.low f.child →
      P { s with stack := rest,
                 aps := insertSet f.parent s.aps,
                 comps := s.comps ++ [nodesOf (s.estack.drop ((lookup (f.parent, f.child) s.loc).getD 0))],
                 estack := s.estack.take ((lookup (f.parent, f.child) s.loc).getD 0),
                 low := setKV f.parent (min (D s.low f.parent) (D s.low f.child)) s.low })
    (hpop2 : ∀ f rest, s.stack = f :: rest → ¬ f.ptr < f.nbrs.length → rest.length > 1 →
      D s.low f.child < D s.disc f.parent →
      P { s with stack := rest,
                 low := setKV f.parent (min (D s.low f.parent) (D s.low f.child)) s.low })
    (hpop1 : ∀ f rest, s.stack = f :: rest → ¬ f.ptr < f.nbrs.length → rest.length = 1 →
      P { s with stack := rest,
                 rootChildren := s.rootChildren + 1,
                 comps := s.comps ++ [nodesOf (s.estack.drop ((lookup (f.parent, f.child) s.loc).getD 0))],
                 estack := s.estack.take ((lookup (f.parent, f.child) s.loc).getD 0) })
    (hpop0 : ∀ f, s.stack = [f] → ¬ f.ptr < f.nbrs.length → P { s with stack := [] }) :
    P (bstep nb s) := by
  unfold bstep
  split
  · next h => exact hnil h
  · next f rest h =>
    split
    · next hlt =>
      simp only []
      split
      · next hp => exact hskip f rest h hlt (by simpa using hp)
      · next hp =>
        have hp' : f.nbrs.getD f.ptr "" ≠ f.parent := by simpa using hp
        split
        · next hv =>
          have hv' : f.nbrs.getD f.ptr "" ∈ s.visited := by simpa using hv
          split
          · next hle => exact hback f rest _ h hlt rfl hp' hv' hle
          · next hle => exact hign f rest _ h hlt rfl hp' hv' (by simpa [D] using hle)
        · next hv =>
          have hv' : f.nbrs.getD f.ptr "" ∉ s.visited := by simpa using hv
          exact hpush f rest _ h hlt rfl hp' hv'
    · next hlt =>
      simp only []
      split
      · next hlen =>
        split
        · next hc => exact hpop2cut f rest h hlt hlen hc
        · next hc => exact hpop2 f rest h hlt hlen (by simpa [D] using hc)
      · next hlen =>
        split
        · next h1 => exact hpop1 f rest h hlt (by simpa using h1)
        · next h1 =>
          have : rest = [] := by
            cases rest with
            | nil => rfl
            | cons g r =>
              cases r with
              | nil => simp at h1
              | cons g' r' => simp at hlen
          subst this
          exact hpop0 f h hlt

theorem getD_mem {l : List V} {i : Nat} (h : i < l.length) : l.getD i "" ∈ l := by
  rw [List.getD_eq_getElem?_getD, List.getElem?_eq_getElem h]
  simp

theorem bgo_inv (nb : V → List V) (I : BSt → Prop) (hI : ∀ s, I s → I (bstep nb s)) :
    ∀ n s, I s → I (bgo nb n s) := by
  intro n
  induction n with
  | zero => intro s h; exact h
  | succ n ih =>
    intro s h
    unfold bgo
    split
    · exact h
    · exact ih _ (hI s h)

/-! ## RUNG 1: basic invariant and termination -/

structure Inv1 (nb : V → List V) (Vs : List V) (s : BSt) : Prop where
  nodup : s.visited.Nodup
  sub : ∀ v ∈ s.visited, v ∈ Vs
  nbrs : ∀ f ∈ s.stack, f.nbrs = nb f.child
  child : ∀ f ∈ s.stack, f.child ∈ s.visited
  parent : ∀ f ∈ s.stack, f.parent ∈ s.visited

theorem inv1_init (nb : V → List V) (Vs : List V) (root : V) (hr : root ∈ Vs) : Inv1 nb Vs (init nb root) := by
  constructor <;> simp [init, hr]

theorem inv1_step (nb : V → List V) (Vs : List V) (hu : Undirected nb Vs) (s : BSt) (h : Inv1 nb Vs s) :
    Inv1 nb Vs (bstep nb s) := by
  obtain ⟨h1, h2, h3, h4, h5⟩ := h
  apply bstep_cases
  · intro _; exact ⟨h1, h2, h3, h4, h5⟩
  · intro f rest hs hlt hp
    rw [hs] at h3 h4 h5
    constructor <;> simp_all
  · intro f rest nn hs hlt hnn hp hv hle
    rw [hs] at h3 h4 h5
    constructor <;> simp_all
  · intro f rest nn hs hlt hnn hp hv hle
    rw [hs] at h3 h4 h5
    constructor <;> simp_all
  · intro f rest nn hs hlt hnn hp hv
    rw [hs] at h3 h4 h5
    have hmem : nn ∈ nb f.child := by
      rw [← h3 f (by simp), hnn]; exact getD_mem hlt
    have hV : nn ∈ Vs := hu.closed _ (h2 _ (h4 f (by simp))) _ hmem
    constructor
    · simp only []; exact List.nodup_cons.mpr ⟨hv, h1⟩
    · simp only []; intro v hv'; rcases List.mem_cons.mp hv' with h | h
      · rw [h]; exact hV
      · exact h2 v h
    · simp only []; intro g hg
      rcases List.mem_cons.mp hg with h | h
      · rw [h]
      · rcases List.mem_cons.mp h with h | h
        · rw [h]; exact h3 f (by simp)
        · exact h3 g (by simp [h])
    · simp only []; intro g hg
      rcases List.mem_cons.mp hg with h | h
      · rw [h]; simp
      · rcases List.mem_cons.mp h with h | h
        · rw [h]; exact List.mem_cons_of_mem _ (h4 f (by simp))
        · exact List.mem_cons_of_mem _ (h4 g (by simp [h]))
    · simp only []; intro g hg
      rcases List.mem_cons.mp hg with h | h
      · rw [h]; exact List.mem_cons_of_mem _ (h4 f (by simp))
      · rcases List.mem_cons.mp h with h | h
        · rw [h]; exact List.mem_cons_of_mem _ (h5 f (by simp))
        · exact List.mem_cons_of_mem _ (h5 g (by simp [h]))
  · intro f rest hs hlt hlen hc
    rw [hs] at h3 h4 h5
    constructor <;> simp_all
  · intro f rest hs hlt hlen hc
    rw [hs] at h3 h4 h5
    constructor <;> simp_all
  · intro f rest hs hlt hlen
    rw [hs] at h3 h4 h5
    constructor <;> simp_all
  · intro f hs hlt
    constructor <;> simp_all

/-- weight of the nodes not yet discovered -/
def uw (nb : V → List V) (Vs vis : List V) : Nat :=
  ((Vs.filter (fun v => decide (v ∉ vis))).map (fun v => (nb v).length + 2)).sum

/-- weight of the stack: remaining neighbours plus one per frame -/
def fw (st : List Frame) : Nat := (st.map (fun f => f.nbrs.length - f.ptr + 1)).sum

def pot (nb : V → List V) (Vs : List V) (s : BSt) : Nat := uw nb Vs s.visited + fw s.stack

theorem uw_le (nb : V → List V) (Vs vis : List V) (x : V) : uw nb Vs (x :: vis) ≤ uw nb Vs vis := by
  unfold uw
  induction Vs with
  | nil => simp
  | cons v Vs ih =>
    simp only [List.filter_cons]
    by_cases h1 : v ∈ vis
    · have : v ∈ x :: vis := List.mem_cons_of_mem _ h1
      simp [h1, this]; simpa using ih
    · by_cases h2 : v = x
      · subst h2; simp [h1]; have := ih; simp at this; omega
      · have : v ∉ x :: vis := by simp [h1, h2]
        simp [h1, this]; simpa using ih

theorem uw_lt (nb : V → List V) (Vs vis : List V) (x : V) (h1 : x ∉ vis) (h2 : x ∈ Vs) :
    uw nb Vs (x :: vis) + (nb x).length + 2 ≤ uw nb Vs vis := by
  induction Vs with
  | nil => simp at h2
  | cons v Vs ih =>
    have hle := uw_le nb Vs vis x
    unfold uw at *
    simp only [List.filter_cons]
    by_cases hv : v = x
    · subst hv; simp [h1]; simp at hle; omega
    · have hxV : x ∈ Vs := by
        rcases List.mem_cons.mp h2 with h | h
        · exact absurd h.symm hv
        · exact h
      have ih' := ih hxV
      by_cases hvc : v ∈ vis
      · have : v ∈ x :: vis := List.mem_cons_of_mem _ hvc
        simp [hvc, this]; simpa using ih'
      · have : v ∉ x :: vis := by simp [hvc, hv]
        simp [hvc, this]; simp at ih'; omega

theorem pot_step (nb : V → List V) (Vs : List V) (hu : Undirected nb Vs) (s : BSt) (h : Inv1 nb Vs s)
    (hne : s.stack ≠ []) : pot nb Vs (bstep nb s) < pot nb Vs s := by
  obtain ⟨h1, h2, h3, h4, h5⟩ := h
  refine bstep_cases nb s (fun t => pot nb Vs t < pot nb Vs s) ?_ ?_ ?_ ?_ ?_ ?_ ?_ ?_ ?_
  · intro h; exact absurd h hne
  · intro f rest hs hlt hp
    simp only [pot, hs, fw, List.map_cons, List.sum_cons, adv_ptr, adv_nbrs]; omega
  · intro f rest nn hs hlt hnn hp hv hle
    simp only [pot, hs, fw, List.map_cons, List.sum_cons, adv_ptr, adv_nbrs]; omega
  · intro f rest nn hs hlt hnn hp hv hle
    simp only [pot, hs, fw, List.map_cons, List.sum_cons, adv_ptr, adv_nbrs]; omega
  · intro f rest nn hs hlt hnn hp hv
    rw [hs] at h3 h4 h5
    have hmem : nn ∈ nb f.child := by
      rw [← h3 f (by simp), hnn]; exact getD_mem hlt
    have hV : nn ∈ Vs := hu.closed _ (h2 _ (h4 f (by simp))) _ hmem
    have := uw_lt nb Vs s.visited nn hv hV
    simp only [pot, hs, fw, List.map_cons, List.sum_cons, adv_ptr, adv_nbrs]; omega
  · intro f rest hs hlt hlen hc
    simp only [pot, hs, fw, List.map_cons, List.sum_cons]; omega
  · intro f rest hs hlt hlen hc
    simp only [pot, hs, fw, List.map_cons, List.sum_cons]; omega
  · intro f rest hs hlt hlen
    simp only [pot, hs, fw, List.map_cons, List.sum_cons]; omega
  · intro f hs hlt
    simp only [pot, hs, fw, List.map_cons, List.sum_cons]; omega

theorem bgo_empty (nb : V → List V) (Vs : List V) (hu : Undirected nb Vs) :
    ∀ n s, Inv1 nb Vs s → pot nb Vs s ≤ n → (bgo nb n s).stack = [] := by
  intro n
  induction n with
  | zero =>
    intro s _ hp
    simp only [bgo]
    cases hst : s.stack with
    | nil => rfl
    | cons f rest => simp [pot, fw, hst] at hp
  | succ n ih =>
    intro s hi hp
    unfold bgo
    split
    · next h => simpa using h
    · next h =>
      have hne : s.stack ≠ [] := by simpa using h
      have := pot_step nb Vs hu s hi hne
      exact ih _ (inv1_step nb Vs hu s hi) (by omega)

theorem uw_nil (nb : V → List V) (Vs : List V) :
    uw nb Vs [] = 2 * Vs.length + (Vs.map (fun v => (nb v).length)).sum := by
  unfold uw
  induction Vs with
  | nil => simp
  | cons v Vs ih => simp at ih; simp [ih]; omega

theorem pot_init (nb : V → List V) (Vs : List V) (root : V) (hr : root ∈ Vs) :
    pot nb Vs (init nb root) ≤ biccFuel nb Vs := by
  have h1 := uw_lt nb Vs [] root (by simp) hr
  have h2 := uw_nil nb Vs
  simp only [pot, init, fw, biccFuel, List.map_cons, List.map_nil, List.sum_cons, List.sum_nil]
  omega

theorem terminates (nb : V → List V) (Vs : List V) (hu : Undirected nb Vs) (root : V) (hr : root ∈ Vs) :
    (bgo nb (biccFuel nb Vs) (init nb root)).stack = [] :=
  bgo_empty nb Vs hu _ _ (inv1_init nb Vs root hr) (pot_init nb Vs root hr)

/-! ## RUNG 2: every node is discovered -/

/-- `w` is a neighbour of the discovered node `u` that the loop has already looked at -/
def Scanned (nb : V → List V) (vis : List V) (st : List Frame) (u w : V) : Prop :=
  u ∈ vis ∧ w ∈ nb u ∧ ∀ f ∈ st, f.child = u → w ∈ f.nbrs.take f.ptr

theorem take_succ_mem {l : List V} {i : Nat} {w : V} (h : w ∈ l.take (i + 1)) :
    w ∈ l.take i ∨ w = l.getD i "" := by
  rw [List.take_add_one] at h
  rcases List.mem_append.mp h with h | h
  · exact Or.inl h
  · right
    rw [List.getD_eq_getElem?_getD]
    cases hi : l[i]? with
    | none => simp [hi] at h
    | some x => simp [hi] at h; simp [h]

/-- pointer advance: the only new scanned pair is (child, next neighbour) -/
theorem scanned_adv {nb : V → List V} {vis : List V} {f : Frame} {rest : List Frame} {u w : V}
    (h : Scanned nb vis (adv f :: rest) u w) :
    Scanned nb vis (f :: rest) u w ∨ (u = f.child ∧ w = f.nbrs.getD f.ptr "") := by
  obtain ⟨h1, h2, h3⟩ := h
  by_cases hu : f.child = u
  · have := h3 (adv f) (by simp) hu
    rcases take_succ_mem this with h | h
    · left
      refine ⟨h1, h2, ?_⟩
      intro g hg hgu
      rcases List.mem_cons.mp hg with hg | hg
      · rw [hg]; exact h
      · exact h3 g (List.mem_cons_of_mem _ hg) hgu
    · right; exact ⟨hu.symm, h⟩
  · left
    refine ⟨h1, h2, ?_⟩
    intro g hg hgu
    rcases List.mem_cons.mp hg with hg | hg
    · rw [hg] at hgu; exact absurd hgu hu
    · exact h3 g (List.mem_cons_of_mem _ hg) hgu

/-- discovery of `nn`: nothing of `nn` is scanned yet -/
theorem scanned_push {nb : V → List V} {vis : List V} {f : Frame} {rest : List Frame} {nn p u w : V} {l : List V}
    (h : Scanned nb (nn :: vis) (⟨p, nn, 0, l⟩ :: adv f :: rest) u w) :
    u ≠ nn ∧ (Scanned nb vis (f :: rest) u w ∨ (u = f.child ∧ w = f.nbrs.getD f.ptr "")) := by
  obtain ⟨h1, h2, h3⟩ := h
  have hne : u ≠ nn := by
    intro he
    have := h3 ⟨p, nn, 0, l⟩ (by simp) he.symm
    simp at this
  refine ⟨hne, ?_⟩
  apply scanned_adv
  refine ⟨?_, h2, ?_⟩
  · rcases List.mem_cons.mp h1 with h | h
    · exact absurd h hne
    · exact h
  · intro g hg
    exact h3 g (List.mem_cons_of_mem _ hg)

/-- pop of an exhausted frame: nothing new is scanned -/
theorem scanned_pop {nb : V → List V} {vis : List V} {f : Frame} {rest : List Frame} {u w : V}
    (hn : f.nbrs = nb f.child) (hlt : ¬ f.ptr < f.nbrs.length)
    (h : Scanned nb vis rest u w) : Scanned nb vis (f :: rest) u w := by
  obtain ⟨h1, h2, h3⟩ := h
  refine ⟨h1, h2, ?_⟩
  intro g hg hgu
  rcases List.mem_cons.mp hg with hg | hg
  · subst hg; rw [List.take_of_length_le (by omega), hn, hgu]; exact h2
  · exact h3 g hg hgu

structure Inv2 (nb : V → List V) (root : V) (s : BSt) : Prop where
  root : root ∈ s.visited
  scan : ∀ u w, Scanned nb s.visited s.stack u w → w ∈ s.visited

theorem inv2_init (nb : V → List V) (root : V) : Inv2 nb root (init nb root) := by
  constructor
  · simp [init]
  · intro u w h
    obtain ⟨h1, _, h3⟩ := h
    simp [init] at h1
    have := h3 ⟨root, root, 0, nb root⟩ (by simp [init]) h1.symm
    simp at this

theorem inv2_step (nb : V → List V) (Vs : List V) (root : V) (s : BSt) (h1 : Inv1 nb Vs s)
    (h : Inv2 nb root s) : Inv2 nb root (bstep nb s) := by
  obtain ⟨hr, hsc⟩ := h
  have adv_case : ∀ f rest, s.stack = f :: rest → f.nbrs.getD f.ptr "" ∈ s.visited →
      ∀ u w, Scanned nb s.visited (adv f :: rest) u w → w ∈ s.visited := by
    intro f rest hs hnn u w h
    rcases scanned_adv h with h | ⟨_, h⟩
    · rw [hs] at hsc; exact hsc u w h
    · rw [h]; exact hnn
  have pop_case : ∀ f rest, s.stack = f :: rest → ¬ f.ptr < f.nbrs.length →
      ∀ u w, Scanned nb s.visited rest u w → w ∈ s.visited := by
    intro f rest hs hlt u w h
    rw [hs] at hsc
    exact hsc u w (scanned_pop (h1.nbrs f (by simp [hs])) hlt h)
  apply bstep_cases
  · intro _; exact ⟨hr, hsc⟩
  · intro f rest hs hlt hp
    exact ⟨hr, adv_case f rest hs (by rw [hp]; exact h1.parent f (by simp [hs]))⟩
  · intro f rest nn hs hlt hnn hp hv hle
    exact ⟨hr, adv_case f rest hs (by rw [← hnn]; exact hv)⟩
  · intro f rest nn hs hlt hnn hp hv hle
    exact ⟨hr, adv_case f rest hs (by rw [← hnn]; exact hv)⟩
  · intro f rest nn hs hlt hnn hp hv
    refine ⟨List.mem_cons_of_mem _ hr, ?_⟩
    intro u w h
    rcases (scanned_push h).2 with h | ⟨_, h⟩
    · rw [hs] at hsc; exact List.mem_cons_of_mem _ (hsc u w h)
    · rw [h, ← hnn]; simp
  · intro f rest hs hlt hlen hc
    exact ⟨hr, pop_case f rest hs hlt⟩
  · intro f rest hs hlt hlen hc
    exact ⟨hr, pop_case f rest hs hlt⟩
  · intro f rest hs hlt hlen
    exact ⟨hr, pop_case f rest hs hlt⟩
  · intro f hs hlt
    exact ⟨hr, pop_case f [] hs hlt⟩

/-- all invariants so far hold in every state the loop reaches -/
theorem inv12_bgo (nb : V → List V) (Vs : List V) (hu : Undirected nb Vs) (root : V) (hr : root ∈ Vs) (n : Nat) :
    Inv1 nb Vs (bgo nb n (init nb root)) ∧ Inv2 nb root (bgo nb n (init nb root)) := by
  apply bgo_inv nb (fun s => Inv1 nb Vs s ∧ Inv2 nb root s)
  · intro s ⟨h1, h2⟩
    exact ⟨inv1_step nb Vs hu s h1, inv2_step nb Vs root s h1 h2⟩
  · exact ⟨inv1_init nb Vs root hr, inv2_init nb root⟩

/-- in a connected graph any two nodes reach one another -/
theorem connected_reach (nb : V → List V) (Vs : List V) (hu : Undirected nb Vs) (hc : connectedB nb Vs = true)
    (x y : V) (hx : x ∈ Vs) (hy : y ∈ Vs) : Reach nb x y := by
  match Vs, hu, hc, hx, hy with
  | a0 :: W, hu, hc, hx, hy =>
    have ha0 : a0 ∈ a0 :: W := by simp
    have hcls : ∀ v, (classOf nb (a0 :: W) a0).contains v = true ↔ Reach nb a0 v := by
      intro v
      have := (C15.findComp_exact nb (a0 :: W) hu a0 ha0 []
        (by intro a ha; simp at ha) (by simp)).2.1 v
      simp only [classOf, List.contains_iff_mem]
      exact this
    have hall : ∀ v ∈ a0 :: W, Reach nb a0 v := by
      simpa only [connectedB, List.all_eq_true, hcls] using hc
    exact Reach.trans (Reach.symm hu.symm (hall x hx)) (hall y hy)

theorem visits_all (nb : V → List V) (Vs : List V) (hu : Undirected nb Vs) (root : V) (hr : root ∈ Vs)
    (hc : connectedB nb Vs = true) :
    (bgo nb (biccFuel nb Vs) (init nb root)).visited.Nodup ∧
    (∀ v, v ∈ (bgo nb (biccFuel nb Vs) (init nb root)).visited ↔ v ∈ Vs) := by
  obtain ⟨h1, h2⟩ := inv12_bgo nb Vs hu root hr (biccFuel nb Vs)
  have hst := terminates nb Vs hu root hr
  refine ⟨h1.nodup, fun v => ⟨h1.sub v, fun hv => ?_⟩⟩
  have hcl : ∀ a ∈ (bgo nb (biccFuel nb Vs) (init nb root)).visited, ∀ b ∈ nb a,
      b ∈ (bgo nb (biccFuel nb Vs) (init nb root)).visited := by
    intro a ha b hb
    apply h2.scan a b
    refine ⟨ha, hb, ?_⟩
    rw [hst]; simp
  exact Reach.mem_of_closed hcl (connected_reach nb Vs hu hc root v hr hv) h2.root

/-! ## RUNG 3: what is reported lies inside the graph -/

theorem nodup_eraseDups_aux {α : Type} [BEq α] [LawfulBEq α] :
    ∀ (n : Nat) (l : List α), l.length ≤ n → l.eraseDups.Nodup := by
  intro n
  induction n with
  | zero =>
    intro l hl
    have : l = [] := List.length_eq_zero_iff.mp (by omega)
    subst this; simp
  | succ n ih =>
    intro l hl
    cases l with
    | nil => simp
    | cons a as =>
      rw [List.eraseDups_cons, List.nodup_cons]
      constructor
      · rw [List.mem_eraseDups]; simp
      · apply ih
        have := List.length_filter_le (fun b => !b == a) as
        simp at hl; omega

theorem nodup_nodesOf (es : List (V × V)) : (nodesOf es).Nodup :=
  nodup_eraseDups_aux _ _ (Nat.le_refl _)

theorem mem_nodesOf {es : List (V × V)} {v : V} (h : v ∈ nodesOf es) : ∃ e ∈ es, v = e.1 ∨ v = e.2 := by
  unfold nodesOf at h
  rw [List.mem_eraseDups, List.mem_flatMap] at h
  obtain ⟨e, he, hv⟩ := h
  exact ⟨e, he, by simpa using hv⟩

theorem mem_insertSet {x a : V} {l : List V} (h : a ∈ insertSet x l) : a = x ∨ a ∈ l := by
  unfold insertSet at h
  split at h
  · exact Or.inr h
  · exact List.mem_cons.mp h

theorem mem_insertSet_self (x : V) (l : List V) : x ∈ insertSet x l := by
  unfold insertSet
  split
  · next h => simpa using h
  · simp

theorem mem_insertSet_of_mem {x a : V} {l : List V} (h : a ∈ l) : a ∈ insertSet x l := by
  unfold insertSet
  split
  · exact h
  · exact List.mem_cons_of_mem _ h

structure Inv3 (Vs : List V) (s : BSt) : Prop where
  est : ∀ e ∈ s.estack, e.1 ∈ Vs ∧ e.2 ∈ Vs
  comps : ∀ c ∈ s.comps, (∀ v ∈ c, v ∈ Vs) ∧ c.Nodup
  aps : ∀ a ∈ s.aps, a ∈ Vs

theorem inv3_init (nb : V → List V) (Vs : List V) (root : V) : Inv3 Vs (init nb root) := by
  constructor <;> simp [init]

theorem comp_ok {Vs : List V} {es : List (V × V)} (h : ∀ e ∈ es, e.1 ∈ Vs ∧ e.2 ∈ Vs) (n : Nat) :
    (∀ v ∈ nodesOf (es.drop n), v ∈ Vs) ∧ (nodesOf (es.drop n)).Nodup := by
  refine ⟨?_, nodup_nodesOf _⟩
  intro v hv
  obtain ⟨e, he, hv⟩ := mem_nodesOf hv
  have := h e (List.mem_of_mem_drop he)
  rcases hv with hv | hv <;> rw [hv]
  · exact this.1
  · exact this.2

theorem inv3_step (nb : V → List V) (Vs : List V) (hu : Undirected nb Vs) (s : BSt) (h1 : Inv1 nb Vs s)
    (h : Inv3 Vs s) : Inv3 Vs (bstep nb s) := by
  obtain ⟨he, hc, ha⟩ := h
  have push_est : ∀ f rest nn, s.stack = f :: rest → f.ptr < f.nbrs.length → nn = f.nbrs.getD f.ptr "" →
      ∀ e ∈ s.estack ++ [(f.child, nn)], e.1 ∈ Vs ∧ e.2 ∈ Vs := by
    intro f rest nn hs hlt hnn e hmem
    rcases List.mem_append.mp hmem with h | h
    · exact he e h
    · simp at h
      have hcV : f.child ∈ Vs := h1.sub _ (h1.child f (by simp [hs]))
      have hmem : nn ∈ nb f.child := by
        rw [← h1.nbrs f (by simp [hs]), hnn]; exact getD_mem hlt
      rw [h]; exact ⟨hcV, hu.closed _ hcV _ hmem⟩
  have comps_ok : ∀ n, ∀ c ∈ s.comps ++ [nodesOf (s.estack.drop n)], (∀ v ∈ c, v ∈ Vs) ∧ c.Nodup := by
    intro n c hmem
    rcases List.mem_append.mp hmem with h | h
    · exact hc c h
    · simp at h; rw [h]; exact comp_ok he n
  have take_ok : ∀ n, ∀ e ∈ s.estack.take n, e.1 ∈ Vs ∧ e.2 ∈ Vs :=
    fun n e hmem => he e (List.mem_of_mem_take hmem)
  apply bstep_cases
  · intro _; exact ⟨he, hc, ha⟩
  · intro f rest hs hlt hp
    exact ⟨he, hc, ha⟩
  · intro f rest nn hs hlt hnn hp hv hle
    exact ⟨push_est f rest nn hs hlt hnn, hc, ha⟩
  · intro f rest nn hs hlt hnn hp hv hle
    exact ⟨he, hc, ha⟩
  · intro f rest nn hs hlt hnn hp hv
    exact ⟨push_est f rest nn hs hlt hnn, hc, ha⟩
  · intro f rest hs hlt hlen hc'
    refine ⟨take_ok _, comps_ok _, ?_⟩
    intro a ha'
    rcases mem_insertSet ha' with h | h
    · rw [h]; exact h1.sub _ (h1.parent f (by simp [hs]))
    · exact ha a h
  · intro f rest hs hlt hlen hc'
    exact ⟨he, hc, ha⟩
  · intro f rest hs hlt hlen
    exact ⟨take_ok _, comps_ok _, ha⟩
  · intro f hs hlt
    exact ⟨he, hc, ha⟩

theorem inv3_bgo (nb : V → List V) (Vs : List V) (hu : Undirected nb Vs) (root : V) (hr : root ∈ Vs) (n : Nat) :
    Inv3 Vs (bgo nb n (init nb root)) := by
  have := bgo_inv nb (fun s => Inv1 nb Vs s ∧ Inv3 Vs s)
    (fun s ⟨h1, h3⟩ => ⟨inv1_step nb Vs hu s h1, inv3_step nb Vs hu s h1 h3⟩) n (init nb root)
    ⟨inv1_init nb Vs root hr, inv3_init nb Vs root⟩
  exact this.2

theorem wellformed (nb : V → List V) (Vs : List V) (hu : Undirected nb Vs) (root : V) (hr : root ∈ Vs) :
    (∀ c ∈ (biccsFrom nb root (biccFuel nb Vs)).1, (∀ v ∈ c, v ∈ Vs) ∧ c.Nodup) ∧
    (∀ a ∈ (biccsFrom nb root (biccFuel nb Vs)).2, a ∈ Vs) := by
  have h3 := inv3_bgo nb Vs hu root hr (biccFuel nb Vs)
  refine ⟨h3.comps, ?_⟩
  intro a ha
  change a ∈ (if (bgo nb (biccFuel nb Vs) (init nb root)).rootChildren > 1 then
    insertSet root (bgo nb (biccFuel nb Vs) (init nb root)).aps else (bgo nb (biccFuel nb Vs) (init nb root)).aps) at ha
  split at ha
  · rcases mem_insertSet ha with h | h
    · rw [h]; exact hr
    · exact h3.aps a h
  · exact h3.aps a ha

end Gaftools.Proofs.Bicc
