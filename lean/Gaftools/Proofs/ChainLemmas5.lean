import Gaftools.Proofs.ChainLemmas4
/-!
# Lemmas for C06 (final stretch), part 5: walking the chain elements in order of increasing BO, consecutive elements are adjacent
-/
namespace Gaftools.Proofs.Chain
open Gaftools.Gfa Gaftools.Algo Gaftools.Order Gaftools.Spec.Order Gaftools.Spec.Graph
open Gaftools.Proofs.Algo Gaftools.Proofs.Finish2
open Gaftools.C06 hiding sortStrings_perm insertSorted_perm

section conj
variable {nb : V → List V} {comp : List V} {bl : List (List V)} {ap : List V} {bl' : List (List V)} {ap' : List V}
  {s : Scaffold} {tr : List Elt}

/-- every entry of the specification's element list sits at the position of the chain element it stands for -/
theorem elts_desc (h : Built nb comp bl ap s tr) (g : Bridge nb comp bl ap bl' ap') :
    ∀ p ∈ specElts (chainOfBlocks bl' ap') (tagOf (numberChain s tr)),
      ∃ (k : Nat) (e : Elt), p.1 = (k : Int) ∧ tr[k]? = some e ∧ EltRel bl ap bl' ap' p.2 e := by
  intro p hp
  unfold specElts at hp
  rcases List.mem_append.mp hp with hp | hp
  · obtain ⟨a, ha, hm⟩ := List.mem_filterMap.mp hp
    obtain ⟨k, ht, hk⟩ := entryA h g ha
    rw [ht] at hm
    injection hm with hm
    subst hm
    exact ⟨k, _, rfl, hk, rfl⟩
  · obtain ⟨i', hi', hm⟩ := List.mem_filterMap.mp hp
    obtain ⟨k, i, j, ht, hk, hrel⟩ := entryB h g (List.mem_range.mp hi')
    rw [ht] at hm
    injection hm with hm
    subst hm
    exact ⟨k, _, rfl, hk, hrel⟩

theorem elts_surj (h : Built nb comp bl ap s tr) (g : Bridge nb comp bl ap bl' ap') :
    ∀ k : Nat, k < tr.length → ∃ p ∈ specElts (chainOfBlocks bl' ap') (tagOf (numberChain s tr)), p.1 = (k : Int) := by
  intro k hk
  have hke : tr[k]? = some tr[k] := List.getElem?_eq_getElem hk
  rcases (h.mem_tr tr[k]).mp (List.getElem_mem hk) with ⟨a, ha, he⟩ | ⟨i, hi, he⟩
  · have ha' : a ∈ ap' := (g.apmem a).mpr ha
    obtain ⟨k2, ht, hk2⟩ := entryA h g ha'
    rw [he] at hke
    have : k2 = k := h.index_unique hk2 hke
    subst this
    refine ⟨((k2 : Int), Sum.inl a), ?_, rfl⟩
    unfold specElts
    exact List.mem_append_left _ (List.mem_filterMap.mpr ⟨a, ha', by rw [ht]; rfl⟩)
  · obtain ⟨i', hi', hr⟩ := g.bubble_bwd hi
    obtain ⟨k2, i2, j, ht, hk2, hrel⟩ := entryB h g hi'
    have hrel0 : EltRel bl ap bl' ap' (Sum.inr i') (Elt.bubble i) := ⟨hi', i, rfl, hi, hr⟩
    have hii : Elt.bubble i2 = Elt.bubble i := eltRel_fun h hrel hrel0
    rw [he] at hke
    rw [hii] at hk2
    have : k2 = k := h.index_unique hk2 hke
    subst this
    refine ⟨((k2 : Int), Sum.inr i'), ?_, rfl⟩
    unfold specElts
    exact List.mem_append_right _ (List.mem_filterMap.mpr ⟨i', List.mem_range.mpr hi', by rw [ht]; rfl⟩)

theorem elts_nodup (h : Built nb comp bl ap s tr) (g : Bridge nb comp bl ap bl' ap') :
    (specElts (chainOfBlocks bl' ap') (tagOf (numberChain s tr))).Nodup := by
  unfold specElts List.Nodup
  rw [List.pairwise_append]
  refine ⟨?_, ?_, ?_⟩
  · have hn : ap'.Pairwise (· ≠ ·) := g.bc'.apNodup
    refine List.Pairwise.filterMap _ ?_ hn
    intro a a' hne b hb b' hb' e
    obtain ⟨t, _, rfl⟩ := Option.map_eq_some_iff.mp hb
    obtain ⟨t', _, rfl⟩ := Option.map_eq_some_iff.mp hb'
    injection e with _ e
    injection e with e
    exact hne e
  · have hn : (List.range (chainOfBlocks bl' ap').bubbles.length).Pairwise (· ≠ ·) := List.nodup_range
    refine List.Pairwise.filterMap _ ?_ hn
    intro a a' hne b hb b' hb' e
    obtain ⟨t, _, rfl⟩ := Option.map_eq_some_iff.mp hb
    obtain ⟨t', _, rfl⟩ := Option.map_eq_some_iff.mp hb'
    injection e with _ e
    injection e with e
    exact hne e
  · intro x hx y hy e
    obtain ⟨a, _, hm⟩ := List.mem_filterMap.mp hx
    obtain ⟨i, _, hm'⟩ := List.mem_filterMap.mp hy
    obtain ⟨t, _, rfl⟩ := Option.map_eq_some_iff.mp hm
    obtain ⟨t', _, e'⟩ := Option.map_eq_some_iff.mp hm'
    rw [← e'] at e
    injection e with _ e
    cases e

theorem elts_keys_nodup (h : Built nb comp bl ap s tr) (g : Bridge nb comp bl ap bl' ap') :
    ((specElts (chainOfBlocks bl' ap') (tagOf (numberChain s tr))).map (·.1)).Nodup := by
  unfold List.Nodup
  rw [List.pairwise_map]
  have hn : (specElts (chainOfBlocks bl' ap') (tagOf (numberChain s tr))).Pairwise (· ≠ ·) := elts_nodup h g
  refine hn.imp_of_mem ?_
  intro p q hp hq hne e
  obtain ⟨k, e1, hpk, hk, hr⟩ := elts_desc h g p hp
  obtain ⟨k', e2, hqk, hk', hr'⟩ := elts_desc h g q hq
  have hkk : k = k' := by rw [hpk, hqk] at e; omega
  subst hkk
  have hee : e1 = e2 := Option.some.inj (hk.symm.trans hk')
  subst hee
  exact hne (Prod.ext e (eltRel_inj g hr hr'))

/-- adjacent chain elements are adjacent in the specification's sense -/
theorem adj_ok (h : Built nb comp bl ap s tr) (g : Bridge nb comp bl ap bl' ap') {e1 e2 : Elt} (hn : e2 ∈ s.nbrs e1)
    {x y : Sum V Nat} (hx : EltRel bl ap bl' ap' x e1) (hy : EltRel bl ap bl' ap' y e2) (kx ky : Int) :
    specAdj (chainOfBlocks bl' ap') ((kx, x), (ky, y)) = true := by
  obtain ⟨_, _, _, hedges⟩ := buildScaffold_ok bl ap s h.build
  rw [mem_nbrs' s (edges_noLoop h.bc s h.build)] at hn
  obtain ⟨p, hp, hor⟩ := hn
  -- the edge, as an unordered pair of a bubble and one of its articulation points, or a bridge
  have hcase : (∃ i a, i < (chainOfBlocks bl ap).bubbles.length ∧ a ∈ ((chainOfBlocks bl ap).bubbles.getD i ([], [])).2 ∧
        ((e1 = Elt.bubble i ∧ e2 = Elt.scaffold a) ∨ (e1 = Elt.scaffold a ∧ e2 = Elt.bubble i))) ∨
      (∃ a b, e1 = Elt.scaffold a ∧ e2 = Elt.scaffold b ∧
        ((a, b) ∈ (chainOfBlocks bl ap).bridges ∨ (b, a) ∈ (chainOfBlocks bl ap).bridges)) := by
    rcases (hedges p).mp hp with ⟨i, a, rfl, hi, ha⟩ | ⟨a, b, rfl, hab⟩
    · left
      refine ⟨i, a, hi, ha, ?_⟩
      rcases hor with ⟨h1, h2⟩ | ⟨h1, h2⟩
      · exact Or.inl ⟨h1.symm, h2.symm⟩
      · exact Or.inr ⟨h1.symm, h2.symm⟩
    · right
      rcases hor with ⟨h1, h2⟩ | ⟨h1, h2⟩
      · exact ⟨a, b, h1.symm, h2.symm, Or.inl hab⟩
      · exact ⟨b, a, h1.symm, h2.symm, Or.inr hab⟩
  rcases hcase with ⟨i, a, hi, ha, ⟨rfl, rfl⟩ | ⟨rfl, rfl⟩⟩ | ⟨a, b, rfl, rfl, hab⟩
  · -- bubble, then scaffold node
    cases x with
    | inl a' => cases hx
    | inr i' =>
      cases y with
      | inr j' => obtain ⟨_, j, hj, _⟩ := hy; cases hj
      | inl b' =>
        have hb : a = b' := by injection hy
        subst hb
        obtain ⟨_, i2, hi2, _, hr⟩ := hx
        injection hi2 with hi2
        subst hi2
        show (((chainOfBlocks bl' ap').bubbles.getD i' ([], [])).2).contains a = true
        rw [List.contains_iff_mem]
        exact hr.2.mem_iff.mpr ha
  · -- scaffold node, then bubble
    cases y with
    | inl a' => cases hy
    | inr i' =>
      cases x with
      | inr j' => obtain ⟨_, j, hj, _⟩ := hx; cases hj
      | inl b' =>
        have hb : a = b' := by injection hx
        subst hb
        obtain ⟨_, i2, hi2, _, hr⟩ := hy
        injection hi2 with hi2
        subst hi2
        show (((chainOfBlocks bl' ap').bubbles.getD i' ([], [])).2).contains a = true
        rw [List.contains_iff_mem]
        exact hr.2.mem_iff.mpr ha
  · -- two scaffold nodes joined by a bridge
    cases x with
    | inr j' => obtain ⟨_, j, hj, _⟩ := hx; cases hj
    | inl a' =>
      cases y with
      | inr j' => obtain ⟨_, j, hj, _⟩ := hy; cases hj
      | inl b' =>
        have ha : a = a' := by injection hx
        have hb : b = b' := by injection hy
        subst ha; subst hb
        show (chainOfBlocks bl' ap').bridges.any (fun q => (q.1 == a && q.2 == b) || (q.1 == b && q.2 == a)) = true
        rw [List.any_eq_true]
        have h4 : (a, b) ∈ (chainOfBlocks bl' ap').bridges ∨ (b, a) ∈ (chainOfBlocks bl' ap').bridges := by
          rcases hab with hab | hab
          · exact g.bridge_fwd hab
          · exact (g.bridge_fwd hab).symm
        rcases h4 with h4 | h4
        · exact ⟨(a, b), h4, by simp⟩
        · exact ⟨(b, a), h4, by simp⟩

theorem spec5_ok (h : Built nb comp bl ap s tr) (g : Bridge nb comp bl ap bl' ap') :
    spec5 (chainOfBlocks bl' ap') (tagOf (numberChain s tr)) = true := by
  have hkeys := sorted_keys (specElts (chainOfBlocks bl' ap') (tagOf (numberChain s tr))) tr.length
    (elts_keys_nodup h g)
    (by
      intro p hp
      obtain ⟨k, e, hpk, hk, _⟩ := elts_desc h g p hp
      exact ⟨k, (List.getElem?_eq_some_iff.mp hk).1, hpk⟩)
    (elts_surj h g)
  unfold spec5
  rw [List.all_eq_true]
  intro pr hpr
  obtain ⟨k, h1, h2⟩ := zip_tail_mem hpr
  -- the keys at positions k, k+1 of the sorted list are k, k+1
  have key : ∀ (m : Nat) (q : Int × Sum V Nat),
      ((specElts (chainOfBlocks bl' ap') (tagOf (numberChain s tr))).mergeSort (fun x y => decide (x.1 ≤ y.1)))[m]? = some q →
      q.1 = (m : Int) ∧ m < tr.length := by
    intro m q hq
    have hm : (((specElts (chainOfBlocks bl' ap') (tagOf (numberChain s tr))).mergeSort
        (fun x y => decide (x.1 ≤ y.1))).map (·.1))[m]? = some q.1 := by
      rw [List.getElem?_map, hq]; rfl
    rw [hkeys, List.getElem?_map] at hm
    cases hr : (List.range tr.length)[m]? with
    | none => rw [hr] at hm; cases hm
    | some z =>
      rw [hr] at hm
      obtain ⟨hlt, hz⟩ := List.getElem?_eq_some_iff.mp hr
      rw [List.getElem_range] at hz
      subst hz
      rw [List.length_range] at hlt
      exact ⟨(Option.some.inj hm).symm, hlt⟩
  obtain ⟨hk1, _⟩ := key k pr.1 h1
  obtain ⟨hk2, _⟩ := key (k + 1) pr.2 h2
  have hm1 : pr.1 ∈ specElts (chainOfBlocks bl' ap') (tagOf (numberChain s tr)) :=
    List.mem_mergeSort.mp (List.mem_of_getElem? h1)
  have hm2 : pr.2 ∈ specElts (chainOfBlocks bl' ap') (tagOf (numberChain s tr)) :=
    List.mem_mergeSort.mp (List.mem_of_getElem? h2)
  obtain ⟨k1, e1, hp1, ht1, hr1⟩ := elts_desc h g pr.1 hm1
  obtain ⟨k2, e2, hp2, ht2, hr2⟩ := elts_desc h g pr.2 hm2
  have e1k : k1 = k := by rw [hk1] at hp1; omega
  have e2k : k2 = k + 1 := by rw [hk2] at hp2; omega
  subst e1k; subst e2k
  have hadj := (chain_adjacent s tr h.path k1 e1 e2 ht1 ht2).1
  exact adj_ok h g hadj hr1 hr2 pr.1.1 pr.2.1

end conj

/-! ## from `BiccExact` to the bridge between the two enumerations -/

theorem bridge_of_sameSets {nb : V → List V} {comp : List V} {bl : List (List V)} {ap ap' : List V}
    (hbc : BlockCut nb comp bl ap) (hs : sameSets bl (blocks nb comp) = true) (hap' : ap'.Nodup)
    (hmem : ∀ a, a ∈ ap' ↔ a ∈ ap) : Bridge nb comp bl ap (blocks nb comp) ap' := by
  unfold sameSets at hs
  simp only [Bool.and_eq_true, List.all_eq_true, List.contains_iff_mem, beq_iff_eq] at hs
  obtain ⟨⟨h1, h2⟩, _⟩ := hs
  have hsorted : ∀ B ∈ blocks nb comp, sortStrings B = B := by
    intro B hB
    obtain ⟨e, _, rfl⟩ := Bicc2.mem_blocks.mp hB
    exact Bicc2.sort_idem _
  have fwd : ∀ C ∈ bl, sortStrings C ∈ blocks nb comp := by
    intro C hC
    obtain ⟨B, hB, e⟩ := List.mem_map.mp (h1 _ (List.mem_map.mpr ⟨C, hC, rfl⟩))
    rw [← e, hsorted B hB]; exact hB
  have bwd : ∀ B ∈ blocks nb comp, ∃ C ∈ bl, B = sortStrings C := by
    intro B hB
    obtain ⟨C, hC, e⟩ := List.mem_map.mp (h2 _ (List.mem_map.mpr ⟨B, hB, rfl⟩))
    exact ⟨C, hC, by rw [e, hsorted B hB]⟩
  exact ⟨hbc.transfer fwd bwd (Bicc2.nodup_blocks nb comp) hap' hmem, fwd, bwd, hmem⟩

theorem exists_nbr {nb : V → List V} {v u : V} (h : Reach nb v u) (hne : u ≠ v) : ∃ w ∈ nb v, w ≠ v := by
  induction h with
  | refl => exact absurd rfl hne
  | @step b c hab hc ih =>
    by_cases hb : b = v
    · subst hb; exact ⟨c, hc, hne⟩
    · exact ih hb

/-- in a connected component of more than one node every node lies in some block -/
theorem BlockCut.all_in {nb : V → List V} {comp : List V} {bl : List (List V)} {ap : List V}
    (hbc : BlockCut nb comp bl ap) (hreach : ∀ a ∈ comp, ∀ b ∈ comp, Reach nb a b) (hd : comp.Nodup)
    (hlen : comp.length ≠ 1) : ∀ v ∈ comp, ∃ C ∈ bl, v ∈ C := by
  intro v hv
  have hother : ∃ u ∈ comp, u ≠ v := by
    match comp, hd, hlen, hv with
    | [a], _, hlen, _ => simp at hlen
    | a :: b :: rest, hd, _, hv =>
      have hab : a ≠ b := by
        intro e; subst e; simp at hd
      by_cases hva : v = a
      · subst hva; exact ⟨b, by simp, fun e => hab e.symm⟩
      · exact ⟨a, by simp, fun e => hva e.symm⟩
  obtain ⟨u, hu, huv⟩ := hother
  obtain ⟨w, hw, hwv⟩ := exists_nbr (hreach v hv u hu) huv
  obtain ⟨C, hC, hvC, _⟩ := hbc.cover v hv w hw (fun e => hwv e.symm)
  exact ⟨C, hC, hvC⟩

/-- all conjuncts together -/
theorem chainSpec_of_built {nb : V → List V} {comp : List V} {bl : List (List V)} {ap : List V} {s : Scaffold}
    {tr : List Elt} (h : Built nb comp bl ap s tr) (g : Bridge nb comp bl ap (blocks nb comp) (cutVertices nb comp))
    (hall : ∀ v ∈ comp, ∃ C ∈ bl, v ∈ C) (so : V → Option Int) (cs : List Int)
    (hso : (scaffoldIds tr).mapM so = some cs) (hinc : strictlyIncreasing cs) :
    chainSpecB nb comp so (tagOf (numberChain s tr)) 0 = true := by
  rw [chainSpecB_eq]
  unfold chainOf
  rw [spec1_ok h hall, spec2_ok h g, spec3_ok h g, spec4_ok h g, spec5_ok h g, spec6_ok h g so cs hso hinc]
  rfl

end Gaftools.Proofs.Chain
