import Gaftools.Proofs.CsvLemmas
/-!
# Lemmas for C07c, part 2: what `decompose` accepts (`LocalOK`)
-/
namespace Gaftools.Proofs.Csv
open Gaftools.Gfa Gaftools.Algo Gaftools.View Gaftools.Order Gaftools.Spec.Order Gaftools.Spec.Graph
open Gaftools.Proofs.Chain Gaftools.Proofs.OrderRun Gaftools.Proofs.Finish2

/-- strict (position, NO) order on numbering entries -/
def KeyLt (x y : V × Nat × Nat) : Prop := x.2.1 < y.2.1 ∨ (x.2.1 = y.2.1 ∧ x.2.2 < y.2.2)

theorem zipIdx_pairwise {α} (l : List α) : ∀ m, (l.zipIdx m).Pairwise (fun a b => a.2 < b.2) := by
  induction l with
  | nil => intro m; simp
  | cons a l ih =>
    intro m
    rw [List.zipIdx_cons, List.pairwise_cons]
    refine ⟨?_, ih _⟩
    rintro ⟨x, i⟩ hx
    have := List.mem_zipIdx hx
    simp only
    omega

def numF (s : Scaffold) : Elt × Nat → List (V × Nat × Nat) := fun (e, k) => match e with
    | .scaffold id => [(id, k, 0)]
    | .bubble i => (sortStrings (s.bubbles.getD i [])).zipIdx.map (fun (n, j) => (n, k, j + 1))

theorem numberChain_eq (s : Scaffold) (trav : List Elt) : numberChain s trav = trav.zipIdx.flatMap (numF s) := rfl

theorem numF_key (s : Scaffold) (e : Elt) (k : Nat) : ∀ x ∈ numF s (e, k), x.2.1 = k := by
  intro x hx
  cases e with
  | scaffold id => simp [numF] at hx; rw [hx]
  | bubble i =>
    simp only [numF, List.mem_map] at hx
    obtain ⟨⟨n, j⟩, _, rfl⟩ := hx
    rfl

theorem numF_sorted (s : Scaffold) (e : Elt) (k : Nat) : (numF s (e, k)).Pairwise KeyLt := by
  cases e with
  | scaffold id => simp [numF]
  | bubble i =>
    simp only [numF]
    rw [List.pairwise_map]
    apply (zipIdx_pairwise _ 0).imp
    rintro ⟨a, p⟩ ⟨b, q⟩ h
    have h' : p < q := h
    exact Or.inr ⟨rfl, Nat.succ_lt_succ h'⟩

theorem flatMap_numF_sorted (s : Scaffold) (trav : List Elt) : ∀ m,
    ((trav.zipIdx m).flatMap (numF s)).Pairwise KeyLt ∧ ∀ x ∈ (trav.zipIdx m).flatMap (numF s), m ≤ x.2.1 := by
  induction trav with
  | nil => intro m; simp
  | cons e es ih =>
    intro m
    rw [List.zipIdx_cons, List.flatMap_cons]
    obtain ⟨ih1, ih2⟩ := ih (m + 1)
    constructor
    · rw [List.pairwise_append]
      refine ⟨numF_sorted s e m, ih1, ?_⟩
      intro a ha b hb
      left
      have := numF_key s e m a ha
      have := ih2 b hb
      omega
    · intro x hx
      rcases List.mem_append.mp hx with hx | hx
      · have := numF_key s e m x hx; omega
      · have := ih2 x hx; omega

theorem numberChain_sorted (s : Scaffold) (trav : List Elt) : (numberChain s trav).Pairwise KeyLt :=
  (flatMap_numF_sorted s trav 0).1

/-- what is used of an accepted component -/
structure LocalOK (comp : List V) (l : Local) : Prop where
  cover : ∀ v ∈ comp, ∃ k no, (v, k, no) ∈ l.order
  sub : ∀ x ∈ l.order, x.1 ∈ comp ∧ x.2.1 < l.len
  uniq : ∀ v k no k' no', (v, k, no) ∈ l.order → (v, k', no') ∈ l.order → k' = k ∧ no' = no
  sorted : l.order.Pairwise KeyLt
  roles : ∀ v ∈ comp, v ∉ l.aps → v ∈ l.inside

theorem decompose_localOK (nb : V → List V) (comp : List V) (so : V → Option Int) (sn : V → Option String) (l : Local)
    (hu : Undirected nb comp) (hd : comp.Nodup) (hc : connectedB nb comp = true) (htab : ∀ v ∈ comp, '\t' ∉ v.toList)
    (h : decompose nb comp so sn = .ok l) : LocalOK comp l := by
  by_cases hlen : comp.length = 1
  · match comp, hlen with
    | [v], _ =>
      have : l = ⟨[v], [], [(v, 0, 0)], 1, 0⟩ := by
        simp only [decompose] at h
        injection h with h
        exact h.symm
      subst this
      refine ⟨?_, ?_, ?_, ?_, ?_⟩
      · intro u hu'; simp at hu'; subst hu'; exact ⟨0, 0, by simp⟩
      · intro x hx; simp at hx; subst hx; simp
      · intro u k no k' no' h1 h2
        simp at h1 h2
        omega
      · simp
      · intro u hu' hn; simp at hu' hn; exact absurd hu' hn
  · obtain ⟨s, tr, cs, hb, hp, hl, hso, hinc, _⟩ := Gaftools.C06.decompose_ok_chain_full nb comp so sn l hu hd hc htab hlen h
    have hne : comp ≠ [] := by
      rintro rfl
      exact decompose_nil' nb so sn l h
    have hbc := Gaftools.C06.rep_blockCut nb comp hu hd hc hne
    have hB : Built nb comp (Gaftools.C06.rep nb comp).1 (sortStrings (Gaftools.C06.rep nb comp).2) s tr := ⟨hbc, hb, hp⟩
    have hreach : ∀ a ∈ comp, ∀ b ∈ comp, Reach nb a b :=
      fun a ha b hb' => Gaftools.Proofs.Bicc.connected_reach nb comp hu hc a b ha hb'
    have hall := hbc.all_in hreach hd hlen
    subst hl
    refine ⟨?_, ?_, ?_, ?_, ?_⟩
    · intro v hv
      have h1 := spec1_ok hB hall
      unfold spec1 at h1
      rw [List.all_eq_true] at h1
      have h2 := h1 v hv
      unfold tagOf at h2
      cases hf : (numberChain s tr).find? (·.1 == v) with
      | none => rw [hf] at h2; simp at h2
      | some x =>
        obtain ⟨a, k, no⟩ := x
        have hm := List.mem_of_find?_eq_some hf
        have hp' := List.find?_some hf
        have : a = v := by simpa using hp'
        subst this
        exact ⟨k, no, hm⟩
    · rintro ⟨v, k, no⟩ hx
      simp only
      rcases Gaftools.C18.numberChain_only s tr v k no hx with ⟨t1, _⟩ | ⟨i, t1, _, s1⟩
      · refine ⟨hbc.apSub v (hB.scaffold_mem.mp (List.mem_of_getElem? t1)), (List.getElem?_eq_some_iff.mp t1).1⟩
      · refine ⟨?_, (List.getElem?_eq_some_iff.mp t1).1⟩
        have hv := List.mem_of_getElem? s1
        rw [Gaftools.Proofs.Bicc2.mem_sortStrings, hB.sbubbles] at hv
        obtain ⟨C, hC, hpC, _⟩ := bubble_block (getD_inner_mem hv)
        rw [hpC] at hv
        exact hbc.blSub C hC v (mem_part_inner.mp hv).1
    · intro v k no k' no' h1 h2
      exact hB.number_unique h1 h2
    · exact numberChain_sorted s tr
    · intro v hv hna
      simp only at hna ⊢
      obtain ⟨C, hC, hvC⟩ := hall v hv
      have hna' : v ∉ sortStrings (Gaftools.C06.rep nb comp).2 := by
        rw [Gaftools.Proofs.Bicc2.mem_sortStrings]; exact hna
      have hin : v ∈ (part (sortStrings (Gaftools.C06.rep nb comp).2) C).1 := mem_part_inner.mpr ⟨hvC, hna'⟩
      obtain ⟨i, hi, hg⟩ := bubble_of_block hC (List.ne_nil_of_mem hin)
      obtain ⟨_, hbub, _, _⟩ := Gaftools.C06.buildScaffold_ok _ _ s hb
      rw [hbub, List.mem_flatten]
      refine ⟨(part (sortStrings (Gaftools.C06.rep nb comp).2) C).1, ?_, hin⟩
      rw [List.mem_map]
      refine ⟨_, getD_mem_bubbles hi, ?_⟩
      rw [hg]

end Gaftools.Proofs.Csv
