import Gaftools.Proofs.ChainLemmas2
/-!
# Lemmas for C06 (final stretch), part 3: generic list lemmas (sorting by distinct keys, consecutive pairs) and the
conjuncts of `chainSpecB` one by one
-/
namespace Gaftools.Proofs.Chain
open Gaftools.Gfa Gaftools.Algo Gaftools.Order Gaftools.Spec.Order Gaftools.Spec.Graph
open Gaftools.Proofs.Algo Gaftools.Proofs.Finish2
open Gaftools.C06 hiding sortStrings_perm insertSorted_perm

/-! ## generic list lemmas -/

theorem eraseDups_of_nodup {α} [BEq α] [LawfulBEq α] : ∀ (l : List α), l.Nodup → l.eraseDups = l
  | [], _ => by simp
  | a :: as, h => by
    rw [List.eraseDups_cons]
    have hn := List.nodup_cons.mp h
    have hf : as.filter (fun b => !b == a) = as := by
      rw [List.filter_eq_self]
      intro b hb
      have : b ≠ a := fun e => hn.1 (e ▸ hb)
      simpa using this
    rw [hf, eraseDups_of_nodup as hn.2]

/-- a list of pairs with distinct keys `0 … N-1`, sorted by key, lists the keys in order -/
theorem sorted_keys {β : Type} (L : List (Int × β)) (N : Nat)
    (hinj : (L.map (·.1)).Nodup)
    (hrange : ∀ p ∈ L, ∃ k : Nat, k < N ∧ p.1 = (k : Int))
    (hsurj : ∀ k : Nat, k < N → ∃ p ∈ L, p.1 = (k : Int)) :
    (L.mergeSort (fun x y => decide (x.1 ≤ y.1))).map (·.1) = (List.range N).map (fun (k : Nat) => (k : Int)) := by
  have hperm := (List.mergeSort_perm L (fun x y => decide (x.1 ≤ y.1))).map (·.1)
  have hsorted : (L.mergeSort (fun x y => decide (x.1 ≤ y.1))).Pairwise (fun x y => decide (x.1 ≤ y.1) = true) :=
    List.pairwise_mergeSort (by intro a b c h1 h2; simp only [decide_eq_true_eq] at *; exact Int.le_trans h1 h2)
      (by intro a b; simp only [Bool.or_eq_true, decide_eq_true_eq]; exact Int.le_total _ _) L
  have hs' : ((L.mergeSort (fun x y => decide (x.1 ≤ y.1))).map (·.1)).Pairwise (· ≤ ·) := by
    rw [List.pairwise_map]
    exact hsorted.imp (by intro a b h; simpa using h)
  have hr : ((List.range N).map (fun (k : Nat) => (k : Int))).Pairwise (· ≤ ·) := by
    rw [List.pairwise_map]
    exact List.pairwise_lt_range.imp (by intro a b h; omega)
  have hnd2 : ((List.range N).map (fun (k : Nat) => (k : Int))).Nodup := by
    unfold List.Nodup
    rw [List.pairwise_map]
    exact List.nodup_range.imp (by intro a b h; omega)
  have hp2 : ((L.mergeSort (fun x y => decide (x.1 ≤ y.1))).map (·.1)).Perm ((List.range N).map (fun (k : Nat) => (k : Int))) := by
    apply (List.perm_ext_iff_of_nodup (hperm.nodup_iff.mpr hinj) hnd2).mpr
    intro a
    rw [hperm.mem_iff]
    simp only [List.mem_map, List.mem_range]
    constructor
    · rintro ⟨p, hp, rfl⟩
      obtain ⟨k, hk, e⟩ := hrange p hp
      exact ⟨k, hk, e.symm⟩
    · rintro ⟨k, hk, rfl⟩
      obtain ⟨p, hp, e⟩ := hsurj k hk
      exact ⟨p, hp, e⟩
  exact List.Perm.eq_of_pairwise (fun a b _ _ h1 h2 => Int.le_antisymm h1 h2) hs' hr hp2

theorem zip_tail_mem {α} {l : List α} {p : α × α} (h : p ∈ l.zip l.tail) :
    ∃ k : Nat, l[k]? = some p.1 ∧ l[k + 1]? = some p.2 := by
  obtain ⟨k, hk⟩ := List.mem_iff_getElem?.mp h
  rw [List.getElem?_zip_eq_some, List.getElem?_tail] at hk
  exact ⟨k, hk⟩

/-- values that increase along a list increase from an earlier to a later position -/
theorem incr_pos {α β : Type} (f : α → Option β) (g : β → Option Int) (l : List α) (cs : List Int)
    (hso : (l.filterMap f).mapM g = some cs) (hinc : cs.Pairwise (· < ·)) {k k' : Nat} {x y : α} {a b : β} {o o' : Int}
    (hx : l[k]? = some x) (hy : l[k']? = some y) (hlt : k < k') (hfx : f x = some a) (hfy : f y = some b)
    (ho : g a = some o) (ho' : g b = some o') : o < o' := by
  rw [Gaftools.Proofs.Finish.mapM_some_iff_map] at hso
  rw [← List.take_append_drop k' l, List.filterMap_append, List.map_append] at hso
  have hp : (cs.map some).Pairwise (fun u w => ∀ p ∈ u, ∀ q ∈ w, p < q) := by
    rw [List.pairwise_map]
    exact hinc.imp (by intro p q h p' hp' q' hq'; cases hp'; cases hq'; exact h)
  rw [← hso, List.pairwise_append] at hp
  have h1 : some o ∈ ((l.take k').filterMap f).map g := by
    refine List.mem_map.mpr ⟨a, List.mem_filterMap.mpr ⟨x, ?_, hfx⟩, ho⟩
    exact List.mem_iff_getElem?.mpr ⟨k, by rw [List.getElem?_take_of_lt hlt]; exact hx⟩
  have h2 : some o' ∈ ((l.drop k').filterMap f).map g := by
    refine List.mem_map.mpr ⟨b, List.mem_filterMap.mpr ⟨y, ?_, hfy⟩, ho'⟩
    exact List.mem_iff_getElem?.mpr ⟨0, by rw [List.getElem?_drop]; exact hy⟩
  exact hp.2.2 _ h1 _ h2 o rfl o' rfl

/-! ## the two enumerations of the decomposition: what `biccs` reported (`bl`, `ap`) and the definition-level one (`bl'`, `ap'`) -/

/-- `bl'`, `ap'` re-enumerate `bl`, `ap` (blocks sorted) -/
structure Bridge (nb : V → List V) (comp : List V) (bl : List (List V)) (ap : List V) (bl' : List (List V)) (ap' : List V) :
    Prop where
  bc' : BlockCut nb comp bl' ap'
  fwd : ∀ C ∈ bl, sortStrings C ∈ bl'
  bwd : ∀ B ∈ bl', ∃ C ∈ bl, B = sortStrings C
  apmem : ∀ a, a ∈ ap' ↔ a ∈ ap

/-- the same bubble in the two enumerations: same inner nodes, same articulation points -/
def PartRel (p' p : List V × List V) : Prop := p'.1.Perm p.1 ∧ p'.2.Perm p.2

theorem part_sort {ap ap' : List V} (hap : ∀ a, a ∈ ap' ↔ a ∈ ap) (C : List V) :
    PartRel (part ap' (sortStrings C)) (part ap C) := by
  have hc : ∀ x, ap'.contains x = ap.contains x := by
    intro x
    rw [Bool.eq_iff_iff]
    simp only [List.contains_iff_mem]
    exact hap x
  unfold PartRel part
  constructor
  · rw [List.filter_congr (q := fun v => !ap.contains v) (fun x _ => by rw [hc x])]
    exact (Bicc2.sortStrings_perm C).filter _
  · rw [List.filter_congr (q := fun v => ap.contains v) (fun x _ => hc x)]
    exact (Bicc2.sortStrings_perm C).filter _

section bridge
variable {nb : V → List V} {comp : List V} {bl : List (List V)} {ap : List V} {bl' : List (List V)} {ap' : List V}

theorem Bridge.bubble_fwd (g : Bridge nb comp bl ap bl' ap') {i' : Nat} (hi' : i' < (chainOfBlocks bl' ap').bubbles.length) :
    ∃ i, i < (chainOfBlocks bl ap).bubbles.length ∧
      PartRel ((chainOfBlocks bl' ap').bubbles.getD i' ([], [])) ((chainOfBlocks bl ap).bubbles.getD i ([], [])) := by
  obtain ⟨B, hB, hp, hne⟩ := bubble_block hi'
  obtain ⟨C, hC, rfl⟩ := g.bwd B hB
  have hr := part_sort g.apmem C
  have hne' : (part ap C).1 ≠ [] := by
    intro e
    have h1 := hr.1
    rw [e] at h1
    exact hne h1.eq_nil
  obtain ⟨i, hi, hg⟩ := bubble_of_block hC hne'
  exact ⟨i, hi, by rw [hp, hg]; exact hr⟩

theorem Bridge.bubble_bwd (g : Bridge nb comp bl ap bl' ap') {i : Nat} (hi : i < (chainOfBlocks bl ap).bubbles.length) :
    ∃ i', i' < (chainOfBlocks bl' ap').bubbles.length ∧
      PartRel ((chainOfBlocks bl' ap').bubbles.getD i' ([], [])) ((chainOfBlocks bl ap).bubbles.getD i ([], [])) := by
  obtain ⟨C, hC, hp, hne⟩ := bubble_block hi
  have hr := part_sort g.apmem C
  have hne' : (part ap' (sortStrings C)).1 ≠ [] := by
    intro e
    have h1 := hr.1
    rw [e] at h1
    exact hne h1.symm.eq_nil
  obtain ⟨i', hi', hg⟩ := bubble_of_block (g.fwd C hC) hne'
  exact ⟨i', hi', by rw [hp, hg]; exact hr⟩

theorem perm_pair {a b : V} {l : List V} (h : l.Perm [a, b]) : l = [a, b] ∨ l = [b, a] := by
  have hl := h.length_eq
  match l, hl with
  | [x, y], _ =>
    have hx : x ∈ [a, b] := h.mem_iff.mp (by simp)
    have hy : y ∈ [a, b] := h.mem_iff.mp (by simp)
    have ha : a ∈ [x, y] := h.mem_iff.mpr (by simp)
    have hb : b ∈ [x, y] := h.mem_iff.mpr (by simp)
    simp only [List.mem_cons, List.not_mem_nil, or_false] at hx hy ha hb
    rcases hx with rfl | rfl
    · rcases hy with rfl | rfl
      · rcases hb with rfl | rfl <;> exact Or.inl rfl
      · exact Or.inl rfl
    · rcases hy with rfl | rfl
      · exact Or.inr rfl
      · rcases ha with rfl | rfl <;> exact Or.inl rfl

theorem Bridge.bridge_fwd (g : Bridge nb comp bl ap bl' ap') {a b : V} (h : (a, b) ∈ (chainOfBlocks bl ap).bridges) :
    (a, b) ∈ (chainOfBlocks bl' ap').bridges ∨ (b, a) ∈ (chainOfBlocks bl' ap').bridges := by
  obtain ⟨C, hC, hemp, hends⟩ := mem_bridges.mp h
  obtain ⟨hr1, hr2⟩ := part_sort g.apmem C
  rw [hemp] at hr1
  rw [hends] at hr2
  have hemp' := hr1.eq_nil
  rcases perm_pair hr2 with e | e
  · exact Or.inl (mem_bridges.mpr ⟨_, g.fwd C hC, hemp', e⟩)
  · exact Or.inr (mem_bridges.mpr ⟨_, g.fwd C hC, hemp', e⟩)

end bridge

/-! ## `chainSpecB`, conjunct by conjunct -/

def spec1 (comp : List V) (tag : V → Option (Int × Int)) : Bool := comp.all (fun v => (tag v).isSome)

def spec2 (c : Chain) (tag : V → Option (Int × Int)) : Bool := c.aps.all (fun a => (tag a).map (·.2) == some 0)

def spec3 (c : Chain) (tag : V → Option (Int × Int)) : Bool :=
  c.bubbles.all (fun b =>
    let inner := sortStrings b.1
    (inner.map (fun v => (tag v).map (·.1))).eraseDups.length == 1 &&
    inner.zipIdx.all (fun (v, j) => (tag v).map (·.2) == some ((j : Int) + 1)))

def specBo (c : Chain) (tag : V → Option (Int × Int)) : List (Option Int) :=
  c.aps.map (fun a => (tag a).map (·.1)) ++ c.bubbles.map (fun b => (b.1.head?.bind tag).map (·.1))

def spec4 (c : Chain) (tag : V → Option (Int × Int)) (lo : Int) : Bool :=
  (specBo c tag).all (fun b => match b with | some v => decide (lo ≤ v) | none => false) &&
  (specBo c tag).eraseDups.length == (specBo c tag).length && (specBo c tag).length == c.aps.length + c.bubbles.length

def specElts (c : Chain) (tag : V → Option (Int × Int)) : List (Int × Sum V Nat) :=
  (c.aps.filterMap (fun a => (tag a).map (fun t => (t.1, Sum.inl a)))) ++
  ((List.range c.bubbles.length).filterMap (fun i => (((c.bubbles.getD i ([], [])).1.head?.bind tag).map (fun t => (t.1, Sum.inr i)))))

def specAdj (c : Chain) (p : (Int × Sum V Nat) × (Int × Sum V Nat)) : Bool :=
  match p.1.2, p.2.2 with
  | Sum.inl a, Sum.inr i => ((c.bubbles.getD i ([], [])).2).contains a
  | Sum.inr i, Sum.inl a => ((c.bubbles.getD i ([], [])).2).contains a
  | Sum.inl a, Sum.inl b => c.bridges.any (fun q => (q.1 == a && q.2 == b) || (q.1 == b && q.2 == a))
  | _, _ => false

def spec5 (c : Chain) (tag : V → Option (Int × Int)) : Bool :=
  (List.zip ((specElts c tag).mergeSort (fun x y => decide (x.1 ≤ y.1)))
    ((specElts c tag).mergeSort (fun x y => decide (x.1 ≤ y.1))).tail).all (specAdj c)

def specScaf (c : Chain) (so : V → Option Int) (tag : V → Option (Int × Int)) : List (Int × Int) :=
  c.aps.filterMap (fun a => match tag a, so a with | some t, some o => some (t.1, o) | _, _ => none)

def spec6 (c : Chain) (so : V → Option Int) (tag : V → Option (Int × Int)) : Bool :=
  (specScaf c so tag).all (fun x => (specScaf c so tag).all (fun y => !(decide (x.1 < y.1)) || decide (x.2 < y.2)))

theorem chainSpecB_eq (nb : V → List V) (comp : List V) (so : V → Option Int) (tag : V → Option (Int × Int)) (lo : Int) :
    chainSpecB nb comp so tag lo =
      (spec1 comp tag && spec2 (chainOf nb comp) tag && spec3 (chainOf nb comp) tag && spec4 (chainOf nb comp) tag lo &&
        spec5 (chainOf nb comp) tag && spec6 (chainOf nb comp) so tag) := rfl

end Gaftools.Proofs.Chain
