import Gaftools.Spec.Stat
/-!
# Helper lemmas for C19 (`gaftools stat`)

* `run_snoc` + `snoc_ind`: every invariant of `run` is proved by induction on the *end* of the record list
* spec functions on `recs ++ [r]`
* `bump` fold / `cigarStep` characterisation
* `maxRat` / `sumRat` permutation invariance
-/
namespace Gaftools.Proofs.Stat
open Gaftools.Gaf Gaftools.Stat Gaftools.Spec.Stat

theorem snoc_ind {α} {P : List α → Prop} (nil : P []) (snoc : ∀ l a, P l → P (l ++ [a])) : ∀ l, P l := by
  intro l
  have : ∀ r : List α, P r.reverse := by
    intro r
    induction r with
    | nil => exact nil
    | cons a r ih => simpa using snoc _ a ih
  simpa using this l.reverse

theorem isSecondary_eq (r : Rec) : isSecondary r = !isPrimaryRec r := by
  cases h : r.isPrimary <;> by_cases h0 : r.mapq = 0 <;> simp [isSecondary, isPrimaryRec, h, h0] <;> omega

theorem run_nil (c : Bool) : run c [] = {} := rfl

theorem run_snoc (c : Bool) (l : List Rec) (r : Rec) : run c (l ++ [r]) = step c (run c l) r := by
  simp [run, List.foldl_append]

theorem step_sec (c : Bool) (s : St) (r : Rec) (h : isPrimaryRec r = false) :
    step c s r = { s with total := s.total + 1, secondary := s.secondary + 1 } := by
  simp [step, isSecondary_eq, h]

theorem step_prim (c : Bool) (s : St) (r : Rec) (h : isPrimaryRec r = true) :
    step c s r = { s with total := s.total + 1, primary := s.primary + 1, bases := s.bases + r.nmatch,
                          mapqSum := s.mapqSum + r.mapq, reads := updReads s.reads r,
                          cig := if c then cigarStep s.cig r.cigar else s.cig } := by
  simp [step, isSecondary_eq, h]

theorem primaries_snoc (l : List Rec) (r : Rec) :
    primaries (l ++ [r]) = if isPrimaryRec r then primaries l ++ [r] else primaries l := by
  simp [primaries, List.filter_append, List.filter_cons]
  split <;> simp

/-! ### counts -/

theorem run_total (c : Bool) (recs : List Rec) : (run c recs).total = recs.length := by
  induction recs using snoc_ind with
  | nil => rfl
  | snoc l r ih =>
    rw [run_snoc]
    cases h : isPrimaryRec r
    · simp [step_sec _ _ _ h, ih]
    · simp [step_prim _ _ _ h, ih]

theorem run_secondary (c : Bool) (recs : List Rec) : (run c recs).secondary = secondary recs := by
  induction recs using snoc_ind with
  | nil => rfl
  | snoc l r ih =>
    rw [run_snoc]
    cases h : isPrimaryRec r
    · simp [step_sec _ _ _ h, ih, secondary, List.filter_append, h]
    · simp [step_prim _ _ _ h, ih, secondary, List.filter_append, h]

theorem run_primary (c : Bool) (recs : List Rec) : (run c recs).primary = primary recs := by
  induction recs using snoc_ind with
  | nil => rfl
  | snoc l r ih =>
    rw [run_snoc]
    cases h : isPrimaryRec r
    · simp [step_sec _ _ _ h, ih, primary, primaries_snoc, h]
    · simp [step_prim _ _ _ h, ih, primary, primaries_snoc, h]

theorem total_split (recs : List Rec) : total recs = primary recs + secondary recs := by
  induction recs with
  | nil => rfl
  | cons r l ih =>
    simp only [total, primary, secondary, primaries] at *
    cases h : isPrimaryRec r <;> simp [h] <;> omega

theorem run_bases (c : Bool) (recs : List Rec) : (run c recs).bases = bases recs := by
  induction recs using snoc_ind with
  | nil => rfl
  | snoc l r ih =>
    rw [run_snoc]
    cases h : isPrimaryRec r
    · simp [step_sec _ _ _ h, ih, bases, primaries_snoc, h]
    · simp [step_prim _ _ _ h, ih, bases, primaries_snoc, h]

theorem run_mapqSum (c : Bool) (recs : List Rec) :
    (run c recs).mapqSum = ((primaries recs).map (·.mapq)).sum := by
  induction recs using snoc_ind with
  | nil => rfl
  | snoc l r ih =>
    rw [run_snoc]
    cases h : isPrimaryRec r
    · simp [step_sec _ _ _ h, ih, primaries_snoc, h]
    · simp [step_prim _ _ _ h, ih, primaries_snoc, h]

theorem eraseDups_snoc {α} [BEq α] [LawfulBEq α] (l : List α) (x : α) :
    (l ++ [x]).eraseDups = if x ∈ l then l.eraseDups else l.eraseDups ++ [x] := by
  rw [List.eraseDups_append]
  by_cases h : x ∈ l
  · simp [h, List.removeAll]
  · simp [h, List.removeAll, List.eraseDups_cons]

theorem updReads_names (reads : List ReadAgg) (r : Rec) :
    (updReads reads r).map (·.name) =
      if r.qname ∈ reads.map (·.name) then reads.map (·.name) else reads.map (·.name) ++ [r.qname] := by
  unfold updReads
  by_cases h : r.qname ∈ reads.map (·.name)
  · have h' : reads.any (·.name == r.qname) = true := by
      simp only [List.mem_map] at h
      obtain ⟨a, ha, e⟩ := h
      exact List.any_eq_true.mpr ⟨a, ha, by simp [e]⟩
    rw [if_pos h', if_pos h, List.map_map]
    apply List.map_congr_left
    intro a _
    simp only [Function.comp]
    split <;> simp_all
  · have h' : ¬ reads.any (·.name == r.qname) = true := by
      intro h2
      obtain ⟨a, ha, e⟩ := List.any_eq_true.mp h2
      exact h (List.mem_map.mpr ⟨a, ha, by simpa using e⟩)
    rw [if_neg h', if_neg h]
    simp

theorem readNames_snoc (l : List Rec) (r : Rec) :
    readNames (l ++ [r]) =
      if isPrimaryRec r then (if r.qname ∈ readNames l then readNames l else readNames l ++ [r.qname]) else readNames l := by
  unfold readNames
  rw [primaries_snoc]
  cases h : isPrimaryRec r
  · simp
  · simp only [if_true, List.map_append, List.map_cons, List.map_nil, eraseDups_snoc, List.mem_eraseDups]

theorem run_names (c : Bool) (recs : List Rec) : (run c recs).reads.map (·.name) = readNames recs := by
  induction recs using snoc_ind with
  | nil => rfl
  | snoc l r ih =>
    rw [run_snoc, readNames_snoc]
    cases h : isPrimaryRec r
    · simp [step_sec _ _ _ h, ih]
    · simp only [step_prim _ _ _ h, updReads_names, ih, if_true]

/-! ### best values -/

/-- the running maximum used by both the tool and `maxRat` -/
def mx (m x : Rat) : Rat := if m < x then x else m

theorem maxRat_cons (a : Rat) (l : List Rat) : maxRat (a :: l) = l.foldl mx a := rfl

theorem maxRat_snoc (l : List Rat) (x : Rat) (h : l ≠ []) : maxRat (l ++ [x]) = mx (maxRat l) x := by
  cases l with
  | nil => contradiction
  | cons a l => simp only [List.cons_append, maxRat, List.foldl_append, mx]; rfl

/-- primary records of read `q` -/
def ofRead (recs : List Rec) (q : Str) : List Rec := (primaries recs).filter (·.qname == q)

theorem ofRead_snoc (l : List Rec) (r : Rec) (q : Str) :
    ofRead (l ++ [r]) q = if isPrimaryRec r && r.qname == q then ofRead l q ++ [r] else ofRead l q := by
  unfold ofRead
  rw [primaries_snoc]
  cases h : isPrimaryRec r
  · simp
  · by_cases h2 : r.qname = q <;> simp [List.filter_append, h2]

theorem mem_readNames (recs : List Rec) (q : Str) : q ∈ readNames recs ↔ ofRead recs q ≠ [] := by
  unfold readNames ofRead
  rw [List.mem_eraseDups, List.mem_map, ne_eq, List.filter_eq_nil_iff]
  constructor
  · rintro ⟨r, hr, e⟩ h
    exact h r hr (by simp [e])
  · intro h
    false_or_by_contra
    rename_i h2
    apply h
    intro r hr e
    exact h2 ⟨r, hr, by simpa using e⟩

theorem bestId_eq (recs : List Rec) (q : Str) : bestId recs q = maxRat ((ofRead recs q).map identity) := rfl
theorem bestRatio_eq (recs : List Rec) (q : Str) : bestRatio recs q = maxRat ((ofRead recs q).map ratio) := rfl

theorem mem_updReads (reads : List ReadAgg) (r : Rec) (a : ReadAgg) (h : a ∈ updReads reads r) :
    (∃ b ∈ reads, b.name = r.qname ∧ a = ⟨b.name, mx b.bestRatio (ratio r), mx b.bestId (identity r)⟩) ∨
    (a ∈ reads ∧ a.name ≠ r.qname) ∨
    (r.qname ∉ reads.map (·.name) ∧ a = ⟨r.qname, ratio r, identity r⟩) := by
  unfold updReads at h
  split at h
  · rw [List.mem_map] at h
    obtain ⟨b, hb, e⟩ := h
    by_cases hn : b.name = r.qname
    · left
      refine ⟨b, hb, hn, ?_⟩
      simp [hn] at e
      simp [← e, mx, hn]
    · right; left
      simp [hn] at e
      subst e
      exact ⟨hb, hn⟩
  · rename_i hany
    rw [List.mem_append] at h
    rcases h with h | h
    · right; left
      refine ⟨h, ?_⟩
      intro e
      exact hany (List.any_eq_true.mpr ⟨a, h, by simp [e]⟩)
    · right; right
      refine ⟨?_, by simpa using h⟩
      intro hm
      obtain ⟨b, hb, e⟩ := List.mem_map.mp hm
      exact hany (List.any_eq_true.mpr ⟨b, hb, by simp [e]⟩)

theorem run_best (c : Bool) (recs : List Rec) :
    ∀ a ∈ (run c recs).reads, a.bestId = bestId recs a.name ∧ a.bestRatio = bestRatio recs a.name := by
  induction recs using snoc_ind with
  | nil => intro a h; simp [run_nil] at h
  | snoc l r ih =>
    intro a ha
    rw [run_snoc] at ha
    cases h : isPrimaryRec r
    · simp only [step_sec _ _ _ h] at ha
      have := ih a ha
      simpa [bestId_eq, bestRatio_eq, ofRead_snoc, h] using this
    · simp only [step_prim _ _ _ h] at ha
      have hnames := run_names c l
      rcases mem_updReads _ _ _ ha with ⟨b, hb, hn, rfl⟩ | ⟨ha', hn⟩ | ⟨hn, rfl⟩
      · have hne : ofRead l b.name ≠ [] := by
          rw [← mem_readNames, ← hnames]
          exact List.mem_map.mpr ⟨b, hb, rfl⟩
        have := ih b hb
        simp only [bestId_eq, bestRatio_eq, ofRead_snoc, h, hn, beq_self_eq_true, Bool.and_self, if_true,
          List.map_append, List.map_cons, List.map_nil]
        rw [maxRat_snoc _ _ (by simpa [hn] using hne), maxRat_snoc _ _ (by simpa [hn] using hne)]
        simp [this.1, this.2, bestId_eq, bestRatio_eq, hn]
      · have := ih a ha'
        have hn' : (r.qname == a.name) = false := by simpa using fun e => hn e.symm
        simpa [bestId_eq, bestRatio_eq, ofRead_snoc, h, hn'] using this
      · have he : ofRead l r.qname = [] := by
          false_or_by_contra
          rename_i h2
          rw [← ne_eq, ← mem_readNames, ← hnames] at h2
          exact hn h2
        simp [bestId_eq, bestRatio_eq, ofRead_snoc, h, he, maxRat]

/-! ### CIGAR counters -/

def cnt (op : Char) (ps : List (Str × Str)) : Nat := (ps.filter (fun p => p.2 == [op])).length
def cntL (op : Char) (ps : List (Str × Str)) : Nat :=
  (((ps.filter (fun p => p.2 == [op])).map (fun p => toNat p.1)).filter (· ≥ 50)).length

theorem cnt_cons (op : Char) (p : Str × Str) (ps : List (Str × Str)) :
    cnt op (p :: ps) = (if p.2 == [op] then 1 else 0) + cnt op ps := by
  unfold cnt
  rw [List.filter_cons]
  split <;> simp <;> omega

theorem cntL_cons (op : Char) (p : Str × Str) (ps : List (Str × Str)) :
    cntL op (p :: ps) = (if p.2 == [op] then (if toNat p.1 ≥ 50 then 1 else 0) else 0) + cntL op ps := by
  unfold cntL
  rw [List.filter_cons]
  split
  · rw [List.map_cons, List.filter_cons]
    split <;> simp_all <;> omega
  · simp

theorem bump_spec (c : CigarCounts) (p : Str × Str) :
    (bump c p).del = c.del + (if p.2 == ['D'] then 1 else 0) ∧
    (bump c p).ins = c.ins + (if p.2 == ['I'] then 1 else 0) ∧
    (bump c p).x = c.x + (if p.2 == ['X'] then 1 else 0) ∧
    (bump c p).m = c.m + (if p.2 == ['='] then 1 else 0) ∧
    (bump c p).delL = c.delL + (if p.2 == ['D'] then (if toNat p.1 ≥ 50 then 1 else 0) else 0) ∧
    (bump c p).insL = c.insL + (if p.2 == ['I'] then (if toNat p.1 ≥ 50 then 1 else 0) else 0) ∧
    (bump c p).xL = c.xL + (if p.2 == ['X'] then (if toNat p.1 ≥ 50 then 1 else 0) else 0) ∧
    (bump c p).mL = c.mL + (if p.2 == ['='] then (if toNat p.1 ≥ 50 then 1 else 0) else 0) ∧
    (bump c p).perfect = c.perfect := by
  unfold bump
  by_cases hD : p.2 = ['D']
  · simp [hD]
  by_cases hI : p.2 = ['I']
  · simp [hI]
  by_cases hX : p.2 = ['X']
  · simp [hX]
  by_cases hM : p.2 = ['=']
  · simp [hM]
  simp [hD, hI, hX, hM]

theorem foldl_bump (ps : List (Str × Str)) (c : CigarCounts) :
    (ps.foldl bump c).del = c.del + cnt 'D' ps ∧
    (ps.foldl bump c).ins = c.ins + cnt 'I' ps ∧
    (ps.foldl bump c).x = c.x + cnt 'X' ps ∧
    (ps.foldl bump c).m = c.m + cnt '=' ps ∧
    (ps.foldl bump c).delL = c.delL + cntL 'D' ps ∧
    (ps.foldl bump c).insL = c.insL + cntL 'I' ps ∧
    (ps.foldl bump c).xL = c.xL + cntL 'X' ps ∧
    (ps.foldl bump c).mL = c.mL + cntL '=' ps ∧
    (ps.foldl bump c).perfect = c.perfect := by
  induction ps generalizing c with
  | nil => simp [cnt, cntL]
  | cons p ps ih =>
    obtain ⟨h1, h2, h3, h4, h5, h6, h7, h8, h9⟩ := ih (bump c p)
    obtain ⟨b1, b2, b3, b4, b5, b6, b7, b8, b9⟩ := bump_spec c p
    simp only [List.foldl_cons, cnt_cons, cntL_cons]
    refine ⟨?_, ?_, ?_, ?_, ?_, ?_, ?_, ?_, ?_⟩ <;> omega

theorem runs_length (op : Char) (s : Str) : (runs op s).length = cnt op (cigarPairs (groupDigits s)) := by
  simp [runs, cnt]

theorem runs_large (op : Char) (s : Str) :
    ((runs op s).filter (· ≥ 50)).length = cntL op (cigarPairs (groupDigits s)) := rfl

theorem cigarStep_spec (c : CigarCounts) (s : Str) :
    (cigarStep c s).del = c.del + (runs 'D' s).length ∧
    (cigarStep c s).ins = c.ins + (runs 'I' s).length ∧
    (cigarStep c s).x = c.x + (runs 'X' s).length ∧
    (cigarStep c s).m = c.m + (runs '=' s).length ∧
    (cigarStep c s).delL = c.delL + ((runs 'D' s).filter (· ≥ 50)).length ∧
    (cigarStep c s).insL = c.insL + ((runs 'I' s).filter (· ≥ 50)).length ∧
    (cigarStep c s).xL = c.xL + ((runs 'X' s).filter (· ≥ 50)).length ∧
    (cigarStep c s).mL = c.mL + ((runs '=' s).filter (· ≥ 50)).length ∧
    (cigarStep c s).perfect = c.perfect + (if (groupDigits s).length == 2 then 1 else 0) := by
  simp only [runs_length, runs_large]
  unfold cigarStep
  simp only []
  obtain ⟨h1, h2, h3, h4, h5, h6, h7, h8, h9⟩ := foldl_bump (cigarPairs (groupDigits s))
    (if (groupDigits s).length == 2 then { c with perfect := c.perfect + 1 } else c)
  rw [h1, h2, h3, h4, h5, h6, h7, h8, h9]
  split <;> simp

theorem events_snoc (op : Char) (l : List Rec) (r : Rec) :
    events op (l ++ [r]) = events op l + (if isPrimaryRec r then (runs op r.cigar).length else 0) := by
  unfold events
  rw [primaries_snoc]
  split <;> simp

theorem large_snoc (op : Char) (l : List Rec) (r : Rec) :
    large op (l ++ [r]) = large op l + (if isPrimaryRec r then ((runs op r.cigar).filter (· ≥ 50)).length else 0) := by
  unfold large
  rw [primaries_snoc]
  split <;> simp

theorem perfect_snoc (l : List Rec) (r : Rec) :
    perfect (l ++ [r]) = perfect l + (if isPrimaryRec r then (if (groupDigits r.cigar).length == 2 then 1 else 0) else 0) := by
  unfold perfect
  rw [primaries_snoc]
  split
  · rw [List.filter_append, List.length_append, List.filter_cons]
    split <;> simp
  · simp

theorem run_cig_true (recs : List Rec) :
    (run true recs).cig.del = events 'D' recs ∧ (run true recs).cig.ins = events 'I' recs ∧
    (run true recs).cig.x = events 'X' recs ∧ (run true recs).cig.m = events '=' recs ∧
    (run true recs).cig.delL = large 'D' recs ∧ (run true recs).cig.insL = large 'I' recs ∧
    (run true recs).cig.xL = large 'X' recs ∧ (run true recs).cig.mL = large '=' recs ∧
    (run true recs).cig.perfect = perfect recs := by
  induction recs using snoc_ind with
  | nil => simp [run_nil, events, large, perfect, primaries]
  | snoc l r ih =>
    rw [run_snoc]
    simp only [events_snoc, large_snoc, perfect_snoc]
    cases h : isPrimaryRec r
    · simpa [step_sec _ _ _ h] using ih
    · simp only [step_prim _ _ _ h, if_true]
      obtain ⟨h1, h2, h3, h4, h5, h6, h7, h8, h9⟩ := cigarStep_spec (run true l).cig r.cigar
      obtain ⟨i1, i2, i3, i4, i5, i6, i7, i8, i9⟩ := ih
      rw [h1, h2, h3, h4, h5, h6, h7, h8, h9, i1, i2, i3, i4, i5, i6, i7, i8, i9]
      simp

theorem run_cig_false (recs : List Rec) : (run false recs).cig = {} := by
  induction recs using snoc_ind with
  | nil => rfl
  | snoc l r ih =>
    rw [run_snoc]
    cases h : isPrimaryRec r
    · simpa [step_sec _ _ _ h] using ih
    · simpa [step_prim _ _ _ h] using ih

/-! ### permutation invariance -/

theorem mx_comm (a b : Rat) : mx a b = mx b a := by unfold mx; grind
theorem mx_right_comm (m x y : Rat) : mx (mx m x) y = mx (mx m y) x := by unfold mx; grind

theorem maxRat_perm {l₁ l₂ : List Rat} (h : l₁.Perm l₂) : maxRat l₁ = maxRat l₂ := by
  induction h with
  | nil => rfl
  | cons a hp _ =>
    rw [maxRat_cons, maxRat_cons]
    exact hp.foldl_eq' (fun x _ y _ m => mx_right_comm m x y) a
  | swap a b l => simp only [maxRat_cons, List.foldl_cons, mx_comm]
  | trans _ _ ih₁ ih₂ => exact ih₁.trans ih₂

theorem sumRat_perm {l₁ l₂ : List Rat} (h : l₁.Perm l₂) : sumRat l₁ = sumRat l₂ := by
  unfold sumRat
  apply h.foldl_eq'
  intro b _ c _ a
  rw [Rat.add_assoc, Rat.add_comm b c, ← Rat.add_assoc]

theorem nodup_eraseDups {α} [BEq α] [LawfulBEq α] (l : List α) : l.eraseDups.Nodup := by
  generalize hn : l.length = n
  induction n using Nat.strongRecOn generalizing l with
  | _ n ih =>
    cases l with
    | nil => simp
    | cons a as =>
      rw [List.eraseDups_cons, List.nodup_cons]
      refine ⟨?_, ?_⟩
      · simp
      · have hl : (as.filter (fun b => !b == a)).length ≤ as.length := List.length_filter_le _ _
        exact ih _ (by simp at hn; omega) _ rfl

theorem primaries_perm {r₁ r₂ : List Rec} (h : r₁.Perm r₂) : (primaries r₁).Perm (primaries r₂) := h.filter _

theorem ofRead_perm {r₁ r₂ : List Rec} (h : r₁.Perm r₂) (q : Str) : (ofRead r₁ q).Perm (ofRead r₂ q) :=
  (primaries_perm h).filter _

theorem bestId_perm {r₁ r₂ : List Rec} (h : r₁.Perm r₂) (q : Str) : bestId r₁ q = bestId r₂ q :=
  maxRat_perm ((ofRead_perm h q).map _)

theorem bestRatio_perm {r₁ r₂ : List Rec} (h : r₁.Perm r₂) (q : Str) : bestRatio r₁ q = bestRatio r₂ q :=
  maxRat_perm ((ofRead_perm h q).map _)

theorem readNames_perm {r₁ r₂ : List Rec} (h : r₁.Perm r₂) : (readNames r₁).Perm (readNames r₂) := by
  unfold readNames
  rw [List.perm_ext_iff_of_nodup (nodup_eraseDups _) (nodup_eraseDups _)]
  intro q
  rw [List.mem_eraseDups, List.mem_eraseDups]
  exact ((primaries_perm h).map _).mem_iff

/-- the reads dict, in closed form -/
def agg (recs : List Rec) (q : Str) : ReadAgg := ⟨q, bestRatio recs q, bestId recs q⟩

theorem run_reads (c : Bool) (recs : List Rec) : (run c recs).reads = (readNames recs).map (agg recs) := by
  rw [← run_names, List.map_map]
  conv => lhs; rw [← List.map_id (run c recs).reads]
  apply List.map_congr_left
  intro a ha
  obtain ⟨h1, h2⟩ := run_best c recs a ha
  cases a
  simp_all [agg]

theorem reads_perm (c : Bool) {r₁ r₂ : List Rec} (h : r₁.Perm r₂) : (run c r₁).reads.Perm (run c r₂).reads := by
  rw [run_reads, run_reads]
  have : agg r₁ = agg r₂ := by
    funext q
    simp [agg, bestId_perm h q, bestRatio_perm h q]
  rw [this]
  exact (readNames_perm h).map _

theorem events_perm (op : Char) {r₁ r₂ : List Rec} (h : r₁.Perm r₂) : events op r₁ = events op r₂ :=
  ((primaries_perm h).map _).sum_nat

theorem large_perm (op : Char) {r₁ r₂ : List Rec} (h : r₁.Perm r₂) : large op r₁ = large op r₂ :=
  ((primaries_perm h).map _).sum_nat

theorem perfect_perm {r₁ r₂ : List Rec} (h : r₁.Perm r₂) : perfect r₁ = perfect r₂ :=
  ((primaries_perm h).filter _).length_eq

theorem cig_perm (c : Bool) {r₁ r₂ : List Rec} (h : r₁.Perm r₂) : (run c r₁).cig = (run c r₂).cig := by
  cases c
  · rw [run_cig_false, run_cig_false]
  · obtain ⟨a1, a2, a3, a4, a5, a6, a7, a8, a9⟩ := run_cig_true r₁
    obtain ⟨b1, b2, b3, b4, b5, b6, b7, b8, b9⟩ := run_cig_true r₂
    rw [← events_perm _ h] at b1 b2 b3 b4
    rw [← large_perm _ h] at b5 b6 b7 b8
    rw [← perfect_perm h] at b9
    generalize (run true r₁).cig = x at *
    generalize (run true r₂).cig = y at *
    cases x; cases y
    simp_all

end Gaftools.Proofs.Stat
