import Gaftools.Proofs.FinishLemmas
import Gaftools.Spec.Order
/-!
# Lemmas for C06c: the complete decision of `finishScaffold` on a path-shaped scaffold graph, and `buildScaffold` against
`chainOfBlocks`
-/
namespace Gaftools.Proofs.Finish2
open Gaftools.Gfa Gaftools.Algo Gaftools.Order Gaftools.Proofs.Finish Gaftools.Spec.Order

/-! ## generic -/

/-- converse of `zip_tail_all_of_pairwise` -/
theorem pairwise_of_zip_tail_all (C : List Int)
    (h : (List.zip C C.tail).all (fun p => decide (p.1 < p.2)) = true) : C.Pairwise (· < ·) := by
  induction C with
  | nil => simp
  | cons a t ih =>
    cases t with
    | nil => simp
    | cons b t =>
      simp only [List.tail_cons] at h ih
      rw [List.zip_cons_cons, List.all_cons, Bool.and_eq_true] at h
      have hab : a < b := by simpa using h.1
      have ht := ih h.2
      rw [List.pairwise_cons]
      refine ⟨?_, ht⟩
      intro x hx
      rcases List.mem_cons.mp hx with e | e
      · rw [e]; exact hab
      · have := (List.pairwise_cons.mp ht).1 x e
        omega

theorem mapM_reverse_none {α β} (f : α → Option β) (l : List α) (h : l.mapM f = none) :
    l.reverse.mapM f = none := by
  cases h' : l.reverse.mapM f with
  | none => rfl
  | some cs =>
    have := mapM_reverse f l.reverse cs h'
    rw [List.reverse_reverse, h] at this
    cases this

/-! ## `finishScaffold` after the traversal -/

/-- the orientation test -/
def revOf (coords : List Int) : Bool :=
  match coords.head?, coords.getLast? with
  | some a, some b => decide (a > b)
  | _, _ => false

/-- the part of `finishScaffold` after the orientation is chosen -/
def afterCoords (s : Scaffold) (aps : List V) (T : List Elt) (coords : List Int) (r : Bool) : Outcome :=
  if !(List.zip (if r then coords.reverse else coords) (if r then coords.reverse else coords).tail).all
      (fun p => decide (p.1 < p.2)) then .skipped .notIncreasing
  else
    .ok ⟨aps, s.bubbles.flatten, numberChain s (if r then T.reverse else T),
      (if r then T.reverse else T).length, s.bubbles.length⟩

/-- the part of `finishScaffold` after the traversal `T` -/
def afterTrav (s : Scaffold) (aps : List V) (so : V → Option Int) (sn : V → Option String) (T : List Elt) : Outcome :=
  if (((T.filterMap idOf).map sn).eraseDups).length != 1 then .skipped .mixedSN
  else
    match (T.filterMap idOf).mapM so with
    | none => .crash "SO missing"
    | some coords => afterCoords s aps T coords (revOf coords)

theorem finish_eq_afterTrav (s : Scaffold) (aps : List V) (so : V → Option Int) (sn : V → Option String)
    (T : List Elt)
    (h1 : (s.elts.filter (fun e => (s.nbrs e).length == 1)).length = 2)
    (h2 : (s.elts.filter (fun e => (s.nbrs e).length == 2)).length = s.elts.length - 2)
    (hT : scaffoldDfs s ((s.elts.filter (fun e => (s.nbrs e).length == 1)).headD (Elt.bubble 0)) = T) :
    finishScaffold s aps so sn = afterTrav s aps so sn T := by
  unfold finishScaffold
  simp only [h1, h2, hT]
  generalize hf : List.filterMap _ T = scaf
  have hs : scaf = T.filterMap idOf := by
    rw [← hf]; congr 1; funext e; cases e <;> rfl
  subst hs
  rw [if_neg (by simp), if_neg (by simp)]
  rfl

/-- on a path-shaped scaffold graph the traversal is the path, forwards or backwards -/
theorem finish_path_cases {s : Scaffold} {es : List Elt} (hp : PathS s es) (aps : List V) (so : V → Option Int)
    (sn : V → Option String) :
    finishScaffold s aps so sn = afterTrav s aps so sn es ∨
    finishScaffold s aps so sn = afterTrav s aps so sn es.reverse := by
  have hlen := hp.len
  have hne : es ≠ [] := by intro h; rw [h] at hlen; simp at hlen
  rcases headD_of_perm_pair _ _ _ (Elt.bubble 0) hp.one_perm with hx | hx
  · left
    apply finish_eq_afterTrav s aps so sn es hp.one_length hp.two_length
    rw [hx, ← List.head_eq_getElem hne]; exact hp.dfs_head hne
  · right
    apply finish_eq_afterTrav s aps so sn es.reverse hp.one_length hp.two_length
    rw [hx, ← List.getLast_eq_getElem hne]; exact hp.dfs_last hne

theorem afterCoords_false (s : Scaffold) (aps : List V) (T : List Elt) (coords : List Int) (r : Bool)
    (h : ¬ (if r then coords.reverse else coords).Pairwise (· < ·)) :
    afterCoords s aps T coords r = .skipped .notIncreasing := by
  unfold afterCoords
  rw [if_pos]
  cases hh : (List.zip (if r then coords.reverse else coords) (if r then coords.reverse else coords).tail).all
      (fun p => decide (p.1 < p.2)) with
  | false => rfl
  | true => exact absurd (pairwise_of_zip_tail_all _ hh) h

theorem afterCoords_ok (s : Scaffold) (aps : List V) (T : List Elt) (coords : List Int) (r : Bool) (l : Local)
    (h : afterCoords s aps T coords r = .ok l) :
    (if r then coords.reverse else coords).Pairwise (· < ·) ∧
    l = ⟨aps, s.bubbles.flatten, numberChain s (if r then T.reverse else T), T.length, s.bubbles.length⟩ := by
  unfold afterCoords at h
  cases r <;> simp only [Bool.false_eq_true, if_false, if_true] at h ⊢
  all_goals
    split at h
    · cases h
    · rename_i hz
      injection h with h
      refine ⟨pairwise_of_zip_tail_all _ (by simpa using hz), ?_⟩
      rw [← h]
      try rw [List.length_reverse]

theorem afterTrav_mixedSN (s : Scaffold) (aps : List V) (so : V → Option Int) (sn : V → Option String) (T : List Elt)
    (h : (((T.filterMap idOf).map sn).eraseDups).length ≠ 1) : afterTrav s aps so sn T = .skipped .mixedSN := by
  unfold afterTrav
  rw [if_pos (by simpa using h)]

theorem afterTrav_crash (s : Scaffold) (aps : List V) (so : V → Option Int) (sn : V → Option String) (T : List Elt)
    (h : (((T.filterMap idOf).map sn).eraseDups).length = 1) (hso : (T.filterMap idOf).mapM so = none) :
    afterTrav s aps so sn T = .crash "SO missing" := by
  unfold afterTrav
  rw [if_neg (by simp [h])]
  simp only [hso]

theorem afterTrav_notIncreasing (s : Scaffold) (aps : List V) (so : V → Option Int) (sn : V → Option String)
    (T : List Elt) (cs : List Int)
    (h : (((T.filterMap idOf).map sn).eraseDups).length = 1) (hso : (T.filterMap idOf).mapM so = some cs)
    (h1 : ¬ cs.Pairwise (· < ·)) (h2 : ¬ cs.reverse.Pairwise (· < ·)) :
    afterTrav s aps so sn T = .skipped .notIncreasing := by
  unfold afterTrav
  rw [if_neg (by simp [h])]
  simp only [hso]
  apply afterCoords_false
  cases revOf cs
  · simpa using h1
  · simpa using h2

theorem afterTrav_ok (s : Scaffold) (aps : List V) (so : V → Option Int) (sn : V → Option String)
    (T : List Elt) (l : Local) (h : afterTrav s aps so sn T = .ok l) :
    ∃ tr cs, (tr = T ∨ tr = T.reverse) ∧
      l = ⟨aps, s.bubbles.flatten, numberChain s tr, T.length, s.bubbles.length⟩ ∧
      (tr.filterMap idOf).mapM so = some cs ∧ cs.Pairwise (· < ·) ∧
      (((T.filterMap idOf).map sn).eraseDups).length = 1 := by
  unfold afterTrav at h
  split at h
  · cases h
  · rename_i hsn
    have hsn' : (((T.filterMap idOf).map sn).eraseDups).length = 1 := by simpa using hsn
    split at h
    · cases h
    · rename_i coords hso
      obtain ⟨hpw, hl⟩ := afterCoords_ok s aps T coords _ l h
      cases hr : revOf coords with
      | false =>
        rw [hr] at hpw hl
        exact ⟨T, coords, Or.inl rfl, by simpa using hl, hso, by simpa using hpw, hsn'⟩
      | true =>
        rw [hr] at hpw hl
        refine ⟨T.reverse, coords.reverse, Or.inr rfl, by simpa using hl, ?_, by simpa using hpw, hsn'⟩
        rw [List.filterMap_reverse]; exact mapM_reverse so _ coords hso

/-! ## `buildScaffold` against `chainOfBlocks` -/

/-- (inner nodes, articulation points) of a block -/
def part (aps : List V) (b : List V) : List V × List V :=
  (b.filter (fun v => !aps.contains v), b.filter (fun v => aps.contains v))

/-- one round of the loop `for bc in all_biccs` -/
def step (aps : List V) (s : Scaffold) (bc : List V) : Except Skip Scaffold :=
  if (part aps bc).1.isEmpty then
    match (part aps bc).2 with
    | [a, b] => .ok { s with edges := s.edges ++ [(Elt.scaffold a, Elt.scaffold b)] }
    | _ => .error Skip.blockEnds
  else
    .ok { elts := s.elts ++ [Elt.bubble s.bubbles.length], bubbles := s.bubbles ++ [(part aps bc).1],
          edges := s.edges ++ (part aps bc).2.map (fun e => (Elt.bubble s.bubbles.length, Elt.scaffold e)) }

theorem buildScaffold_eq (bl : List (List V)) (aps : List V) :
    buildScaffold bl aps = bl.foldlM (step aps) ⟨aps.map Elt.scaffold, [], []⟩ := rfl

theorem step_bubble (aps : List V) (s : Scaffold) (b : List V) (h : (part aps b).1.isEmpty = false) :
    step aps s b = .ok ⟨s.elts ++ [Elt.bubble s.bubbles.length],
      s.edges ++ (part aps b).2.map (fun e => (Elt.bubble s.bubbles.length, Elt.scaffold e)),
      s.bubbles ++ [(part aps b).1]⟩ := by
  unfold step
  rw [if_neg (by simp [h])]

theorem step_bridge (aps : List V) (s : Scaffold) (b : List V) (x y : V) (h : (part aps b).1.isEmpty = true)
    (he : (part aps b).2 = [x, y]) :
    step aps s b = .ok { s with edges := s.edges ++ [(Elt.scaffold x, Elt.scaffold y)] } := by
  unfold step
  rw [if_pos h, he]

theorem step_bad (aps : List V) (s : Scaffold) (b : List V) (h : (part aps b).1.isEmpty = true)
    (he : (part aps b).2.length ≠ 2) : step aps s b = .error Skip.blockEnds := by
  unfold step
  rw [if_pos h]
  split
  · rename_i x y heq
    rw [heq] at he
    simp at he
  · rfl

theorem chain_nil (aps : List V) : chainOfBlocks [] aps = ⟨aps, [], [], false⟩ := rfl

theorem length_eq_two {α} (l : List α) (h : l.length = 2) : ∃ a b, l = [a, b] := by
  match l, h with
  | [a, b], _ => exact ⟨a, b, rfl⟩

theorem chain_eq (bl : List (List V)) (aps : List V) :
    chainOfBlocks bl aps =
      ⟨aps, (bl.map (part aps)).filter (fun p => !p.1.isEmpty),
       ((bl.map (part aps)).filter (fun p => p.1.isEmpty)).filterMap
         (fun p => match p.2 with | [a, b] => some (a, b) | _ => none),
       ((bl.map (part aps)).filter (fun p => p.1.isEmpty)).any (fun p => p.2.length != 2)⟩ := rfl

theorem chain_cons_bubble (aps : List V) (b : List V) (bl : List (List V)) (h : (part aps b).1.isEmpty = false) :
    chainOfBlocks (b :: bl) aps =
      { chainOfBlocks bl aps with bubbles := part aps b :: (chainOfBlocks bl aps).bubbles } := by
  rw [chain_eq, chain_eq]
  simp only [List.map_cons, List.filter_cons, h, Bool.not_false, if_true, Bool.false_eq_true, if_false]

theorem chain_cons_bridge (aps : List V) (b : List V) (bl : List (List V)) (x y : V)
    (h : (part aps b).1.isEmpty = true) (he : (part aps b).2 = [x, y]) :
    chainOfBlocks (b :: bl) aps =
      { chainOfBlocks bl aps with bridges := (x, y) :: (chainOfBlocks bl aps).bridges } := by
  rw [chain_eq, chain_eq]
  simp only [List.map_cons, List.filter_cons, h, Bool.not_true, if_true, Bool.false_eq_true, if_false,
    List.filterMap_cons, he, List.any_cons]
  simp

theorem chain_cons_bad (aps : List V) (b : List V) (bl : List (List V))
    (h : (part aps b).1.isEmpty = true) (he : (part aps b).2.length ≠ 2) :
    (chainOfBlocks (b :: bl) aps).bad = true := by
  rw [chain_eq]
  simp only [List.map_cons, List.filter_cons, h, if_true, List.any_cons]
  simp [he]

theorem foldl_ok (aps : List V) : ∀ (bl : List (List V)) (s0 s : Scaffold), bl.foldlM (step aps) s0 = .ok s →
    (chainOfBlocks bl aps).bad = false ∧
    s.bubbles = s0.bubbles ++ (chainOfBlocks bl aps).bubbles.map (·.1) ∧
    s.elts = s0.elts ++
      (List.range (chainOfBlocks bl aps).bubbles.length).map (fun i => Elt.bubble (s0.bubbles.length + i)) ∧
    (∀ p, p ∈ s.edges ↔ (p ∈ s0.edges ∨
      (∃ i a, p = (Elt.bubble (s0.bubbles.length + i), Elt.scaffold a) ∧
          i < (chainOfBlocks bl aps).bubbles.length ∧
          a ∈ ((chainOfBlocks bl aps).bubbles.getD i ([], [])).2) ∨
       (∃ a b, p = (Elt.scaffold a, Elt.scaffold b) ∧ (a, b) ∈ (chainOfBlocks bl aps).bridges)))
  | [], s0, s, h => by
    rw [List.foldlM_nil] at h
    injection h with h
    subst h
    simp [chain_nil]
  | b :: bl, s0, s, h => by
    rw [List.foldlM_cons] at h
    cases hb : (part aps b).1.isEmpty with
    | false =>
      rw [step_bubble aps s0 b hb] at h
      obtain ⟨i1, i2, i3, i4⟩ := foldl_ok aps bl _ s h
      rw [chain_cons_bubble aps b bl hb]
      refine ⟨i1, ?_, ?_, ?_⟩
      · rw [i2]; simp
      · rw [i3]
        simp only [List.length_cons, List.length_append, List.length_nil, List.range_succ_eq_map, List.map_cons,
          List.map_map, List.append_assoc, List.cons_append, List.nil_append]
        congr 2
        apply List.map_congr_left
        intro i _
        simp only [Function.comp]
        congr 1
        omega
      · intro p
        rw [i4]
        simp only [List.mem_append, List.mem_map, List.length_append, List.length_cons, List.length_nil]
        constructor
        · rintro ((h1 | ⟨e, he, rfl⟩) | ⟨i, a, rfl, hi, ha⟩ | h3)
          · exact Or.inl h1
          · exact Or.inr (Or.inl ⟨0, e, rfl, by omega, by simpa using he⟩)
          · refine Or.inr (Or.inl ⟨i + 1, a, ?_, by omega, by simpa using ha⟩)
            congr 2; omega
          · exact Or.inr (Or.inr h3)
        · rintro (h1 | ⟨i, a, rfl, hi, ha⟩ | h3)
          · exact Or.inl (Or.inl h1)
          · cases i with
            | zero => exact Or.inl (Or.inr ⟨a, by simpa using ha, rfl⟩)
            | succ i =>
              refine Or.inr (Or.inl ⟨i, a, ?_, by omega, by simpa using ha⟩)
              congr 2; omega
          · exact Or.inr (Or.inr h3)
    | true =>
      by_cases hl : (part aps b).2.length = 2
      · obtain ⟨x, y, he⟩ := length_eq_two _ hl
        rw [step_bridge aps s0 b x y hb he] at h
        obtain ⟨i1, i2, i3, i4⟩ := foldl_ok aps bl _ s h
        rw [chain_cons_bridge aps b bl x y hb he]
        refine ⟨i1, i2, i3, ?_⟩
        intro p
        rw [i4]
        simp only [List.mem_append, List.mem_cons, List.not_mem_nil, or_false]
        constructor
        · rintro ((h1 | rfl) | h2 | ⟨a, c, rfl, h3⟩)
          · exact Or.inl h1
          · exact Or.inr (Or.inr ⟨x, y, rfl, Or.inl rfl⟩)
          · exact Or.inr (Or.inl h2)
          · exact Or.inr (Or.inr ⟨a, c, rfl, Or.inr h3⟩)
        · rintro (h1 | h2 | ⟨a, c, rfl, h3 | h3⟩)
          · exact Or.inl (Or.inl h1)
          · exact Or.inr (Or.inl h2)
          · injection h3 with e1 e2
            subst e1; subst e2
            exact Or.inl (Or.inr rfl)
          · exact Or.inr (Or.inr ⟨a, c, rfl, h3⟩)
      · rw [step_bad aps s0 b hb hl] at h
        cases h

theorem foldl_error (aps : List V) : ∀ (bl : List (List V)) (s0 : Scaffold) (e : Skip),
    bl.foldlM (step aps) s0 = .error e → e = Skip.blockEnds ∧ (chainOfBlocks bl aps).bad = true
  | [], s0, e, h => by
    rw [List.foldlM_nil] at h
    cases h
  | b :: bl, s0, e, h => by
    rw [List.foldlM_cons] at h
    cases hb : (part aps b).1.isEmpty with
    | false =>
      rw [step_bubble aps s0 b hb] at h
      obtain ⟨i1, i2⟩ := foldl_error aps bl _ e h
      rw [chain_cons_bubble aps b bl hb]
      exact ⟨i1, i2⟩
    | true =>
      by_cases hl : (part aps b).2.length = 2
      · obtain ⟨x, y, he⟩ := length_eq_two _ hl
        rw [step_bridge aps s0 b x y hb he] at h
        obtain ⟨i1, i2⟩ := foldl_error aps bl _ e h
        rw [chain_cons_bridge aps b bl x y hb he]
        exact ⟨i1, i2⟩
      · rw [step_bad aps s0 b hb hl] at h
        injection h with h
        exact ⟨h.symm, chain_cons_bad aps b bl hb hl⟩

end Gaftools.Proofs.Finish2
