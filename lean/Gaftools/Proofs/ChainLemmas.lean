import Gaftools.Props.C06e
import Gaftools.Props.C15Bicc2
/-!
# Lemmas for C06 (final stretch): the block–cut structure reported by `biccs`, and connectedness of the scaffold graph

* `BlockCut` — what the chain construction needs to know about a list of blocks and a list of articulation points of a
  component; it holds for what `biccs` reports (`blockCut_rep`) and is stable under re-enumeration (`BlockCut.transfer`),
  hence it also holds for the definition-level decomposition (`Spec.Graph.blocks`, `cutVertices`).
* membership lemmas for `chainOfBlocks`
* `sconnected_of_blockCut` — RUNG A in its abstract form.
-/
namespace Gaftools.Proofs.Chain
open Gaftools.Gfa Gaftools.Algo Gaftools.Order Gaftools.Spec.Order Gaftools.Spec.Graph
open Gaftools.Proofs.Algo Gaftools.Proofs.Finish2
open Gaftools.C06 hiding sortStrings_perm insertSorted_perm

/-- what the chain construction uses of a decomposition into blocks `bl` and articulation points `ap` -/
structure BlockCut (nb : V → List V) (comp : List V) (bl : List (List V)) (ap : List V) : Prop where
  apNodup : ap.Nodup
  apSub : ∀ a ∈ ap, a ∈ comp
  blSub : ∀ C ∈ bl, ∀ v ∈ C, v ∈ comp
  blNodup : ∀ C ∈ bl, C.Nodup
  blTwo : ∀ C ∈ bl, ∀ v ∈ C, ∃ w ∈ C, w ≠ v
  cover : ∀ u ∈ comp, ∀ v ∈ nb u, u ≠ v → ∃ C ∈ bl, u ∈ C ∧ v ∈ C
  share : bl.Pairwise (fun C C' => ∀ v, v ∈ C → v ∈ C' → v ∈ ap)

theorem root_mem (comp : List V) (hne : comp ≠ []) : (sortStrings comp).headD "" ∈ comp := by
  have hp := Bicc2.sortStrings_perm comp
  cases h : sortStrings comp with
  | nil =>
    rw [h] at hp
    exact absurd hp.symm.eq_nil hne
  | cons x t =>
    rw [h] at hp
    exact hp.mem_iff.mp (by simp)

/-- a node shared by two components that `SepRel` relates is a cut vertex -/
theorem sepRel_cut {nb : V → List V} {Vs : List V} (hu : Undirected nb Vs) (hd : Vs.Nodup) {C C' : List V}
    (h : Bicc2.SepRel nb Vs C C') (hC : ∀ v ∈ C, v ∈ Vs) (hC' : ∀ v ∈ C', v ∈ Vs)
    (h2 : ∀ v ∈ C, ∃ w ∈ C, w ≠ v) (h2' : ∀ v ∈ C', ∃ w ∈ C', w ≠ v) :
    ∀ v, v ∈ C → v ∈ C' → isCut nb Vs v = true := by
  obtain ⟨x, c, hx, ha, hb⟩ := h
  intro v hv hv'
  by_cases hvx : v = x
  · subst hvx
    obtain ⟨w, hw, hwx⟩ := h2 v hv
    obtain ⟨w', hw', hwx'⟩ := h2' v hv'
    exact (C15.isCut_iff nb Vs hu hd v hx).mpr
      ⟨w, w', hC w hw, hC' w' hw', hwx, hwx', fun hr => hb w' hw' hwx' (Reach.trans (ha w hw hwx) hr)⟩
  · exact absurd (ha v hv hvx) (hb v hv' hvx)

/-- what `biccs` reports for a connected component is a block–cut structure -/
theorem blockCut_biccs (nb : V → List V) (Vs : List V) (hu : Undirected nb Vs) (hd : Vs.Nodup)
    (hc : connectedB nb Vs = true) (root : V) (hr : root ∈ Vs) :
    BlockCut nb Vs (biccsFrom nb root (biccFuel nb Vs)).1 (biccsFrom nb root (biccFuel nb Vs)).2 := by
  have hB := Bicc2.invB_bgo nb Vs hu root hr (biccFuel nb Vs)
  have hwf := Bicc.wellformed nb Vs hu root hr
  have hgood : ∀ C ∈ (biccsFrom nb root (biccFuel nb Vs)).1, ∀ v ∈ C, ∃ w ∈ C, w ≠ v := by
    intro C hC v hv
    obtain ⟨w, hw, hwv, _⟩ := (hB.good C hC).2.1 v hv
    exact ⟨w, hw, hwv⟩
  refine ⟨?_, hwf.2, fun C hC => (hwf.1 C hC).1, fun C hC => (hwf.1 C hC).2, hgood, ?_, ?_⟩
  · show (if (bgo nb (biccFuel nb Vs) (Bicc.init nb root)).rootChildren > 1 then
        insertSet root (bgo nb (biccFuel nb Vs) (Bicc.init nb root)).aps
        else (bgo nb (biccFuel nb Vs) (Bicc.init nb root)).aps).Nodup
    split
    · exact Bicc2.nodup_insertSet hB.apsnd
    · exact hB.apsnd
  · intro u hu' v hv hne
    exact Bicc2.covers_links nb Vs hu root hr hc u v hu' hv hne
  · have hs : (biccsFrom nb root (biccFuel nb Vs)).1.Pairwise (Bicc2.SepRel nb Vs) := hB.sepC
    refine hs.imp_of_mem ?_
    intro C C' hC hC' hrel v hv hv'
    have hcut := sepRel_cut hu hd hrel (hwf.1 C hC).1 (hwf.1 C' hC').1 (hgood C hC) (hgood C' hC') v hv hv'
    exact Bicc.aps_complete nb Vs hu hd root hr hc v ((hwf.1 C hC).1 v hv) hcut

/-- a block–cut structure may be re-enumerated: blocks sorted and listed in another order, articulation points in another order -/
theorem BlockCut.transfer {nb : V → List V} {comp : List V} {bl bl' : List (List V)} {ap ap' : List V}
    (h : BlockCut nb comp bl ap) (h1 : ∀ C ∈ bl, sortStrings C ∈ bl') (h2 : ∀ B ∈ bl', ∃ C ∈ bl, B = sortStrings C)
    (hn : bl'.Nodup) (hap : ap'.Nodup) (hmem : ∀ a, a ∈ ap' ↔ a ∈ ap) : BlockCut nb comp bl' ap' := by
  refine ⟨hap, fun a ha => h.apSub a ((hmem a).mp ha), ?_, ?_, ?_, ?_, ?_⟩
  · intro B hB v hv
    obtain ⟨C, hC, rfl⟩ := h2 B hB
    exact h.blSub C hC v (Bicc2.mem_sortStrings.mp hv)
  · intro B hB
    obtain ⟨C, hC, rfl⟩ := h2 B hB
    exact (Bicc2.sortStrings_perm C).nodup_iff.mpr (h.blNodup C hC)
  · intro B hB v hv
    obtain ⟨C, hC, rfl⟩ := h2 B hB
    obtain ⟨w, hw, hwv⟩ := h.blTwo C hC v (Bicc2.mem_sortStrings.mp hv)
    exact ⟨w, Bicc2.mem_sortStrings.mpr hw, hwv⟩
  · intro u hu v hv hne
    obtain ⟨C, hC, huC, hvC⟩ := h.cover u hu v hv hne
    exact ⟨sortStrings C, h1 C hC, Bicc2.mem_sortStrings.mpr huC, Bicc2.mem_sortStrings.mpr hvC⟩
  · have hpair : ∀ C ∈ bl, ∀ C' ∈ bl, C ≠ C' → ∀ v, v ∈ C → v ∈ C' → v ∈ ap := by
      intro C hC C' hC' hne v hv hv'
      obtain ⟨i, hi, rfl⟩ := List.getElem_of_mem hC
      obtain ⟨j, hj, rfl⟩ := List.getElem_of_mem hC'
      have hp := List.pairwise_iff_getElem.mp h.share
      rcases Nat.lt_trichotomy i j with hlt | heq | hgt
      · exact hp i j hi hj hlt v hv hv'
      · subst heq; exact absurd rfl hne
      · exact hp j i hj hi hgt v hv' hv
    refine hn.imp_of_mem ?_
    intro B B' hB hB' hne v hv hv'
    obtain ⟨C, hC, rfl⟩ := h2 B hB
    obtain ⟨C', hC', rfl⟩ := h2 B' hB'
    have hne' : C ≠ C' := fun e => hne (by rw [e])
    exact (hmem v).mpr (hpair C hC C' hC' hne' v (Bicc2.mem_sortStrings.mp hv) (Bicc2.mem_sortStrings.mp hv'))

/-- the articulation points may be listed in another order -/
theorem BlockCut.congr_ap {nb : V → List V} {comp : List V} {bl : List (List V)} {ap ap' : List V}
    (h : BlockCut nb comp bl ap) (hap : ap'.Nodup) (hmem : ∀ a, a ∈ ap' ↔ a ∈ ap) : BlockCut nb comp bl ap' :=
  ⟨hap, fun a ha => h.apSub a ((hmem a).mp ha), h.blSub, h.blNodup, h.blTwo, h.cover,
    h.share.imp (fun hs v hv hv' => (hmem v).mpr (hs v hv hv'))⟩

/-- two blocks sharing a node that is no articulation point are the same block -/
theorem BlockCut.same_block {nb : V → List V} {comp : List V} {bl : List (List V)} {ap : List V}
    (h : BlockCut nb comp bl ap) {C C' : List V} (hC : C ∈ bl) (hC' : C' ∈ bl) {v : V} (hv : v ∈ C) (hv' : v ∈ C')
    (hap : v ∉ ap) : C = C' := by
  obtain ⟨i, hi, rfl⟩ := List.getElem_of_mem hC
  obtain ⟨j, hj, rfl⟩ := List.getElem_of_mem hC'
  have hp := List.pairwise_iff_getElem.mp h.share
  rcases Nat.lt_trichotomy i j with hlt | heq | hgt
  · exact absurd (hp i j hi hj hlt v hv hv') hap
  · subst heq; rfl
  · exact absurd (hp j i hj hi hgt v hv' hv) hap

/-! ## `chainOfBlocks` by membership -/

theorem mem_part_inner {aps C : List V} {v : V} : v ∈ (part aps C).1 ↔ v ∈ C ∧ v ∉ aps := by
  unfold part
  simp [List.mem_filter]

theorem mem_part_ends {aps C : List V} {v : V} : v ∈ (part aps C).2 ↔ v ∈ C ∧ v ∈ aps := by
  unfold part
  simp [List.mem_filter]

theorem mem_bubbles {bl : List (List V)} {aps : List V} {p : List V × List V} :
    p ∈ (chainOfBlocks bl aps).bubbles ↔ ∃ C ∈ bl, p = part aps C ∧ (part aps C).1 ≠ [] := by
  rw [chain_eq]
  simp only [List.mem_filter, List.mem_map]
  constructor
  · rintro ⟨⟨C, hC, rfl⟩, hne⟩
    exact ⟨C, hC, rfl, by simpa using hne⟩
  · rintro ⟨C, hC, rfl, hne⟩
    exact ⟨⟨C, hC, rfl⟩, by simpa using hne⟩

theorem mem_bridges {bl : List (List V)} {aps : List V} {a b : V} :
    (a, b) ∈ (chainOfBlocks bl aps).bridges ↔ ∃ C ∈ bl, (part aps C).1 = [] ∧ (part aps C).2 = [a, b] := by
  rw [chain_eq]
  simp only [List.mem_filterMap, List.mem_filter, List.mem_map]
  constructor
  · rintro ⟨p, ⟨⟨C, hC, rfl⟩, hemp⟩, hm⟩
    refine ⟨C, hC, by simpa using hemp, ?_⟩
    split at hm
    · next x y hxy =>
      injection hm with hm
      injection hm with e1 e2
      rw [hxy, e1, e2]
    · cases hm
  · rintro ⟨C, hC, hemp, hends⟩
    refine ⟨part aps C, ⟨⟨C, hC, rfl⟩, by simp [hemp]⟩, ?_⟩
    rw [hends]

theorem bad_false {bl : List (List V)} {aps : List V} (h : (chainOfBlocks bl aps).bad = false) {C : List V} (hC : C ∈ bl)
    (hemp : (part aps C).1 = []) : ∃ a b, (part aps C).2 = [a, b] := by
  rw [chain_eq] at h
  simp only [List.any_eq_false, List.mem_filter, List.mem_map] at h
  have := h (part aps C) ⟨⟨C, hC, rfl⟩, by simp [hemp]⟩
  exact length_eq_two _ (by simpa using this)

theorem getD_mem_bubbles {c : Chain} {i : Nat} (hi : i < c.bubbles.length) : c.bubbles.getD i ([], []) ∈ c.bubbles := by
  rw [List.getD_eq_getElem?_getD, List.getElem?_eq_getElem hi, Option.getD_some]
  exact List.getElem_mem _

theorem exists_getD_of_mem {c : Chain} {p : List V × List V} (hp : p ∈ c.bubbles) :
    ∃ i, i < c.bubbles.length ∧ c.bubbles.getD i ([], []) = p := by
  obtain ⟨i, hi, rfl⟩ := List.getElem_of_mem hp
  refine ⟨i, hi, ?_⟩
  rw [List.getD_eq_getElem?_getD, List.getElem?_eq_getElem hi, Option.getD_some]

/-- the inner node lists of different bubbles are disjoint -/
theorem bubbles_disjoint {nb : V → List V} {comp : List V} {bl : List (List V)} {ap : List V}
    (h : BlockCut nb comp bl ap) :
    (chainOfBlocks bl ap).bubbles.Pairwise (fun p q => ∀ v, v ∈ p.1 → v ∉ q.1) := by
  rw [chain_eq]
  apply List.Pairwise.filter
  apply List.Pairwise.map (part ap) _ h.share
  intro C C' hs v hv hv'
  rw [mem_part_inner] at hv hv'
  exact hv.2 (hs v hv.1 hv'.1)

theorem bubble_index_unique {nb : V → List V} {comp : List V} {bl : List (List V)} {ap : List V}
    (h : BlockCut nb comp bl ap) {i j : Nat} (hi : i < (chainOfBlocks bl ap).bubbles.length)
    (hj : j < (chainOfBlocks bl ap).bubbles.length) {v : V}
    (hv : v ∈ ((chainOfBlocks bl ap).bubbles.getD i ([], [])).1)
    (hv' : v ∈ ((chainOfBlocks bl ap).bubbles.getD j ([], [])).1) : i = j := by
  have hp := List.pairwise_iff_getElem.mp (bubbles_disjoint h)
  rw [List.getD_eq_getElem?_getD, List.getElem?_eq_getElem hi, Option.getD_some] at hv
  rw [List.getD_eq_getElem?_getD, List.getElem?_eq_getElem hj, Option.getD_some] at hv'
  rcases Nat.lt_trichotomy i j with hlt | heq | hgt
  · exact absurd hv' (hp i j hi hj hlt v hv)
  · exact heq
  · exact absurd hv (hp j i hj hi hgt v hv')

/-! ## RUNG A (abstract form): the scaffold graph of a block–cut structure of a connected graph is connected -/

theorem SReach.trans {s : Scaffold} {a b c : Elt} (h1 : SReach s a b) (h2 : SReach s b c) : SReach s a c := by
  induction h2 with
  | refl => exact h1
  | step _ hc ih => exact SReach.step ih hc

theorem sreach_edge {s : Scaffold} (hl : ∀ p ∈ s.edges, p.1 ≠ p.2) {a b : Elt} (h : (a, b) ∈ s.edges) :
    SReach s a b ∧ SReach s b a := by
  constructor
  · exact SReach.step (SReach.refl a) ((mem_nbrs' s hl a b).mpr ⟨(a, b), h, Or.inl ⟨rfl, rfl⟩⟩)
  · exact SReach.step (SReach.refl b) ((mem_nbrs' s hl b a).mpr ⟨(a, b), h, Or.inr ⟨rfl, rfl⟩⟩)

/-- the two ends of a bridge differ -/
theorem bridge_ne {nb : V → List V} {comp : List V} {bl : List (List V)} {ap : List V} (h : BlockCut nb comp bl ap)
    {a b : V} (hab : (a, b) ∈ (chainOfBlocks bl ap).bridges) : a ≠ b := by
  obtain ⟨C, hC, _, hends⟩ := mem_bridges.mp hab
  have hnd : (part ap C).2.Nodup := (h.blNodup C hC).sublist List.filter_sublist
  rw [hends] at hnd
  simpa using hnd

theorem edges_noLoop {nb : V → List V} {comp : List V} {bl : List (List V)} {ap : List V} (h : BlockCut nb comp bl ap)
    (s : Scaffold) (hb : buildScaffold bl ap = .ok s) : ∀ p ∈ s.edges, p.1 ≠ p.2 := by
  obtain ⟨_, _, _, hedges⟩ := buildScaffold_ok bl ap s hb
  intro p hp
  rcases (hedges p).mp hp with ⟨i, a, rfl, _, _⟩ | ⟨a, b, rfl, hab⟩
  · intro e; cases e
  · intro e
    injection e with e
    exact bridge_ne h hab e

/-- the chain element a node belongs to: its scaffold node, or the bubble that holds it as an inner node -/
def EltOf (bl : List (List V)) (ap : List V) (w : V) (e : Elt) : Prop :=
  (w ∈ ap ∧ e = .scaffold w) ∨
  (w ∉ ap ∧ ∃ i, i < (chainOfBlocks bl ap).bubbles.length ∧ e = .bubble i ∧
    w ∈ ((chainOfBlocks bl ap).bubbles.getD i ([], [])).1)

theorem eltOf_unique {nb : V → List V} {comp : List V} {bl : List (List V)} {ap : List V} (h : BlockCut nb comp bl ap)
    {w : V} {e e' : Elt} (h1 : EltOf bl ap w e) (h2 : EltOf bl ap w e') : e = e' := by
  rcases h1 with ⟨ha, rfl⟩ | ⟨hna, i, hi, rfl, hv⟩
  · rcases h2 with ⟨_, rfl⟩ | ⟨hna, _⟩
    · rfl
    · exact absurd ha hna
  · rcases h2 with ⟨ha, _⟩ | ⟨_, j, hj, rfl, hv'⟩
    · exact absurd ha hna
    · rw [bubble_index_unique h hi hj hv hv']

/-- the bubble of a block with inner nodes -/
theorem bubble_of_block {bl : List (List V)} {ap : List V} {C : List V} (hC : C ∈ bl) (hne : (part ap C).1 ≠ []) :
    ∃ i, i < (chainOfBlocks bl ap).bubbles.length ∧ (chainOfBlocks bl ap).bubbles.getD i ([], []) = part ap C :=
  exists_getD_of_mem (mem_bubbles.mpr ⟨C, hC, rfl, hne⟩)

theorem eltOf_exists {bl : List (List V)} {ap : List V} {C : List V} (hC : C ∈ bl) {w : V} (hw : w ∈ C) :
    ∃ e, EltOf bl ap w e := by
  by_cases ha : w ∈ ap
  · exact ⟨.scaffold w, Or.inl ⟨ha, rfl⟩⟩
  · have hin : w ∈ (part ap C).1 := mem_part_inner.mpr ⟨hw, ha⟩
    obtain ⟨i, hi, hg⟩ := bubble_of_block hC (List.ne_nil_of_mem hin)
    exact ⟨.bubble i, Or.inr ⟨ha, i, hi, rfl, by rw [hg]; exact hin⟩⟩

theorem eltOf_of_mem_elts {nb : V → List V} {comp : List V} {bl : List (List V)} {ap : List V}
    (h : BlockCut nb comp bl ap) (s : Scaffold) (hb : buildScaffold bl ap = .ok s) {e : Elt} (he : e ∈ s.elts) :
    ∃ w ∈ comp, EltOf bl ap w e := by
  obtain ⟨_, _, helts, _⟩ := buildScaffold_ok bl ap s hb
  rw [helts, List.mem_append] at he
  rcases he with he | he
  · obtain ⟨a, ha, rfl⟩ := List.mem_map.mp he
    exact ⟨a, h.apSub a ha, Or.inl ⟨ha, rfl⟩⟩
  · obtain ⟨i, hi, rfl⟩ := List.mem_map.mp he
    have hi' := List.mem_range.mp hi
    obtain ⟨C, hC, hp, hne⟩ := mem_bubbles.mp (getD_mem_bubbles hi')
    obtain ⟨w, hw⟩ := List.exists_mem_of_ne_nil _ hne
    have hw' := mem_part_inner.mp hw
    exact ⟨w, h.blSub C hC w hw'.1, Or.inr ⟨hw'.2, i, hi', rfl, by rw [hp]; exact hw⟩⟩

/-- the elements of two different nodes of one block are joined in the scaffold graph -/
theorem link_reach {nb : V → List V} {comp : List V} {bl : List (List V)} {ap : List V}
    (h : BlockCut nb comp bl ap) (s : Scaffold) (hb : buildScaffold bl ap = .ok s) {C : List V} (hC : C ∈ bl)
    {w w' : V} (hw : w ∈ C) (hw' : w' ∈ C) (hne : w ≠ w') {e e' : Elt} (he : EltOf bl ap w e) (he' : EltOf bl ap w' e') :
    SReach s e e' := by
  obtain ⟨hbad, _, _, hedges⟩ := buildScaffold_ok bl ap s hb
  have hl := edges_noLoop h s hb
  by_cases hemp : (part ap C).1 = []
  · -- a bridge
    have hap : ∀ v ∈ C, v ∈ ap := by
      intro v hv
      apply Decidable.byContradiction
      intro hn
      have : v ∈ (part ap C).1 := mem_part_inner.mpr ⟨hv, hn⟩
      rw [hemp] at this; simp at this
    have hes : ∀ v ∈ C, ∀ f, EltOf bl ap v f → f = .scaffold v := by
      intro v hv f hf
      rcases hf with ⟨_, rfl⟩ | ⟨hn, _⟩
      · rfl
      · exact absurd (hap v hv) hn
    rw [hes w hw e he, hes w' hw' e' he']
    obtain ⟨x, y, hxy⟩ := bad_false hbad hC hemp
    have hbr : (x, y) ∈ (chainOfBlocks bl ap).bridges := mem_bridges.mpr ⟨C, hC, hemp, hxy⟩
    have hedge : (Elt.scaffold x, Elt.scaffold y) ∈ s.edges := (hedges _).mpr (Or.inr ⟨x, y, rfl, hbr⟩)
    have hwm : w ∈ (part ap C).2 := mem_part_ends.mpr ⟨hw, hap w hw⟩
    have hwm' : w' ∈ (part ap C).2 := mem_part_ends.mpr ⟨hw', hap w' hw'⟩
    rw [hxy] at hwm hwm'
    simp only [List.mem_cons, List.not_mem_nil, or_false] at hwm hwm'
    rcases hwm with rfl | rfl <;> rcases hwm' with rfl | rfl
    · exact absurd rfl hne
    · exact (sreach_edge hl hedge).1
    · exact (sreach_edge hl hedge).2
    · exact absurd rfl hne
  · -- a bubble
    obtain ⟨i, hi, hg⟩ := bubble_of_block hC hemp
    have key : ∀ v ∈ C, ∀ f, EltOf bl ap v f → SReach s f (.bubble i) ∧ SReach s (.bubble i) f := by
      intro v hv f hf
      by_cases ha : v ∈ ap
      · have hf' : f = .scaffold v := eltOf_unique h hf (Or.inl ⟨ha, rfl⟩)
        rw [hf']
        have hedge : (Elt.bubble i, Elt.scaffold v) ∈ s.edges :=
          (hedges _).mpr (Or.inl ⟨i, v, rfl, hi, by rw [hg]; exact mem_part_ends.mpr ⟨hv, ha⟩⟩)
        exact ⟨(sreach_edge hl hedge).2, (sreach_edge hl hedge).1⟩
      · have hf' : f = .bubble i :=
          eltOf_unique h hf (Or.inr ⟨ha, i, hi, rfl, by rw [hg]; exact mem_part_inner.mpr ⟨hv, ha⟩⟩)
        rw [hf']
        exact ⟨SReach.refl _, SReach.refl _⟩
    exact SReach.trans (key w hw e he).1 (key w' hw' e' he').2

theorem sconnected_of_blockCut (nb : V → List V) (comp : List V) (bl : List (List V)) (ap : List V)
    (hu : Undirected nb comp) (h : BlockCut nb comp bl ap) (hreach : ∀ a ∈ comp, ∀ b ∈ comp, Reach nb a b)
    (s : Scaffold) (hb : buildScaffold bl ap = .ok s) : SConnected s := by
  have walk : ∀ w w', Reach nb w w' → w ∈ comp → ∀ e e', EltOf bl ap w e → EltOf bl ap w' e' → SReach s e e' := by
    intro w w' hr hw
    induction hr with
    | refl =>
      intro e e' he he'
      rw [eltOf_unique h he he']
      exact SReach.refl _
    | @step b c hab hc ih =>
      intro e e' he he'
      by_cases hbc : b = c
      · subst hbc; exact ih e e' he he'
      · have hbV : b ∈ comp := Reach.mem hu.closed hab hw
        obtain ⟨C, hC, hbC, hcC⟩ := h.cover b hbV c hc hbc
        obtain ⟨e'', he''⟩ := eltOf_exists (ap := ap) hC hbC
        exact SReach.trans (ih e e'' he he'') (link_reach h s hb hC hbC hcC hbc he'' he')
  intro a ha b hb'
  obtain ⟨wa, hwa, hea⟩ := eltOf_of_mem_elts h s hb ha
  obtain ⟨wb, hwb, heb⟩ := eltOf_of_mem_elts h s hb hb'
  exact walk wa wb (hreach wa hwa wb hwb) hwa a b hea heb

end Gaftools.Proofs.Chain
