import Gaftools.Proofs.BiccLemmas
/-!
# Lemmas for C15 (biccs), part 2: discovery numbers, low points, articulation points
-/
namespace Gaftools.Proofs.Bicc
open Gaftools.Gfa Gaftools.Algo Gaftools.Spec.Graph Gaftools.Proofs.Algo

theorem D_setKV (k v : V) (x : Nat) (l : List (V × Nat)) :
    D (setKV k x l) v = if v = k then x else D l v := by
  unfold D
  rw [lookup_setKV]
  split <;> rfl

/-- (parent, child) of the frames, top first; does not change when a pointer advances -/
def spine (st : List Frame) : List (V × V) := st.map (fun f => (f.parent, f.child))

@[simp] theorem spine_nil : spine [] = [] := rfl
@[simp] theorem spine_cons (f : Frame) (st : List Frame) : spine (f :: st) = (f.parent, f.child) :: spine st := rfl
theorem spine_adv (f : Frame) (st : List Frame) : spine (adv f :: st) = spine (f :: st) := rfl

theorem mem_spine {st : List Frame} {f : Frame} (h : f ∈ st) : (f.parent, f.child) ∈ spine st :=
  List.mem_map_of_mem h

theorem of_mem_spine {st : List Frame} {e : V × V} (h : e ∈ spine st) : ∃ f ∈ st, f.parent = e.1 ∧ f.child = e.2 := by
  obtain ⟨f, hf, he⟩ := List.mem_map.mp h
  exact ⟨f, hf, by rw [← he], by rw [← he]⟩

/-- discovery numbers strictly increase towards the top of the stack -/
def Sorted (disc : List (V × Nat)) (sp : List (V × V)) : Prop :=
  sp.Pairwise (fun e e' => D disc e'.2 < D disc e.2)

/-- each frame's parent is the child of the frame below; the bottom frame is (root, root) -/
def Chain (root : V) : List (V × V) → Prop
  | [] => True
  | [e] => e.1 = root ∧ e.2 = root
  | e :: e' :: r => e.1 = e'.2 ∧ Chain root (e' :: r)

structure Inv4 (root : V) (s : BSt) : Prop where
  dlt : ∀ v ∈ s.visited, D s.disc v < s.disc.length
  inj : ∀ u ∈ s.visited, ∀ w ∈ s.visited, D s.disc u = D s.disc w → u = w
  droot : D s.disc root = 0
  sorted : Sorted s.disc (spine s.stack)
  chain : Chain root (spine s.stack)

theorem inv4_init (nb : V → List V) (root : V) : Inv4 root (init nb root) := by
  constructor
  · intro v hv; simp [init] at hv; subst hv; simp [init, D, lookup]
  · intro u hu w hw _; simp [init] at hu hw; rw [hu, hw]
  · simp [init, D, lookup]
  · simp [init, Sorted]
  · simp [init, Chain]

theorem chain_tail {root : V} {e : V × V} {sp : List (V × V)} (h : Chain root (e :: sp)) : Chain root sp := by
  cases sp with
  | nil => trivial
  | cons e' r => exact h.2

theorem sorted_tail {disc : List (V × Nat)} {e : V × V} {sp : List (V × V)} (h : Sorted disc (e :: sp)) :
    Sorted disc sp := (List.pairwise_cons.mp h).2

theorem sorted_head {disc : List (V × Nat)} {e : V × V} {sp : List (V × V)} (h : Sorted disc (e :: sp)) :
    ∀ e' ∈ sp, D disc e'.2 < D disc e.2 := (List.pairwise_cons.mp h).1

/-- the children on the stack are discovered nodes (Inv1 in terms of the spine) -/
theorem spine_child {nb : V → List V} {Vs : List V} {s : BSt} (h1 : Inv1 nb Vs s) :
    ∀ e ∈ spine s.stack, e.2 ∈ s.visited ∧ e.1 ∈ s.visited := by
  intro e he
  obtain ⟨f, hf, h1', h2'⟩ := of_mem_spine he
  rw [← h1', ← h2']
  exact ⟨h1.child f hf, h1.parent f hf⟩

theorem inv4_step (nb : V → List V) (Vs : List V) (root : V) (s : BSt) (h1 : Inv1 nb Vs s) (h2 : Inv2 nb root s)
    (h : Inv4 root s) : Inv4 root (bstep nb s) := by
  obtain ⟨hdlt, hinj, hdr, hso, hch⟩ := h
  have adv_case : ∀ f rest, s.stack = f :: rest → ∀ s' : BSt, s'.visited = s.visited → s'.disc = s.disc →
      s'.stack = adv f :: rest → Inv4 root s' := by
    intro f rest hs s' hv hd hst
    constructor
    · rw [hv, hd]; exact hdlt
    · rw [hv, hd]; exact hinj
    · rw [hd]; exact hdr
    · rw [hd, hst, spine_adv, ← hs]; exact hso
    · rw [hst, spine_adv, ← hs]; exact hch
  have pop_case : ∀ f rest, s.stack = f :: rest → ∀ s' : BSt, s'.visited = s.visited → s'.disc = s.disc →
      s'.stack = rest → Inv4 root s' := by
    intro f rest hs s' hv hd hst
    rw [hs] at hso hch
    constructor
    · rw [hv, hd]; exact hdlt
    · rw [hv, hd]; exact hinj
    · rw [hd]; exact hdr
    · rw [hd, hst]; exact sorted_tail hso
    · rw [hst]; exact chain_tail hch
  apply bstep_cases
  · intro _; exact ⟨hdlt, hinj, hdr, hso, hch⟩
  · intro f rest hs hlt hp
    exact adv_case f rest hs _ rfl rfl rfl
  · intro f rest nn hs hlt hnn hp hv hle
    exact adv_case f rest hs _ rfl rfl rfl
  · intro f rest nn hs hlt hnn hp hv hle
    exact adv_case f rest hs _ rfl rfl rfl
  · intro f rest nn hs hlt hnn hp hv
    have hne : ∀ v ∈ s.visited, v ≠ nn := fun v hv' he => hv (he ▸ hv')
    have hDv : ∀ v ∈ s.visited, D (setKV nn s.disc.length s.disc) v = D s.disc v := by
      intro v hv'; rw [D_setKV, if_neg (hne v hv')]
    have hDn : D (setKV nn s.disc.length s.disc) nn = s.disc.length := by
      rw [D_setKV, if_pos rfl]
    have hsc := spine_child h1
    constructor
    · simp only []
      intro v hv'
      rcases List.mem_cons.mp hv' with h | h
      · rw [h, hDn]; simp [setKV]
      · rw [hDv v h]; have := hdlt v h; simp [setKV]; omega
    · simp only []
      intro u hu w hw he
      rcases List.mem_cons.mp hu with hu | hu <;> rcases List.mem_cons.mp hw with hw | hw
      · rw [hu, hw]
      · rw [hu, hDn, hDv w hw] at he; have := hdlt w hw; omega
      · rw [hw, hDn, hDv u hu] at he; have := hdlt u hu; omega
      · rw [hDv u hu, hDv w hw] at he; exact hinj u hu w hw he
    · simp only []
      rw [hDv root h2.root]; exact hdr
    · simp only []
      rw [spine_cons, spine_adv, ← hs]
      unfold Sorted
      rw [List.pairwise_cons]
      constructor
      · intro e he
        have hev := (hsc e he).1
        simp only []
        rw [hDn, hDv _ hev]; exact hdlt _ hev
      · refine List.Pairwise.imp_of_mem ?_ hso
        intro a b ha hb hab
        rw [hDv _ (hsc a ha).1, hDv _ (hsc b hb).1]; exact hab
    · simp only []
      rw [spine_cons, spine_adv]
      rw [hs] at hch
      exact ⟨rfl, hch⟩
  · intro f rest hs hlt hlen hc
    exact pop_case f rest hs _ rfl rfl rfl
  · intro f rest hs hlt hlen hc
    exact pop_case f rest hs _ rfl rfl rfl
  · intro f rest hs hlt hlen
    exact pop_case f rest hs _ rfl rfl rfl
  · intro f hs hlt
    exact pop_case f [] hs _ rfl rfl rfl

/-! ## shape of the stack -/

theorem frame_cases {disc : List (V × Nat)} {root : V} :
    ∀ sp, Sorted disc sp → Chain root sp → ∀ g ∈ sp, (g.1 = root ∧ g.2 = root) ∨ D disc g.1 < D disc g.2 := by
  intro sp
  induction sp with
  | nil => intro _ _ g hg; simp at hg
  | cons e sp ih =>
    intro hso hch g hg
    rcases List.mem_cons.mp hg with hg | hg
    · subst hg
      cases sp with
      | nil => exact Or.inl hch
      | cons e' r =>
        right
        rw [hch.1]
        exact sorted_head hso e' (by simp)
    · exact ih (sorted_tail hso) (chain_tail hch) g hg

/-- everything below the top frame was discovered no later than the top frame's parent -/
theorem below_le_parent {disc : List (V × Nat)} {root : V} {e : V × V} {sp : List (V × V)}
    (hso : Sorted disc (e :: sp)) (hch : Chain root (e :: sp)) : ∀ g ∈ sp, D disc g.2 ≤ D disc e.1 := by
  intro g hg
  cases sp with
  | nil => simp at hg
  | cons e' r =>
    rw [hch.1]
    rcases List.mem_cons.mp hg with hg | hg
    · rw [hg]; exact Nat.le_refl _
    · exact Nat.le_of_lt (sorted_head (sorted_tail hso) g hg)

theorem top_pos {disc : List (V × Nat)} {e : V × V} {sp : List (V × V)}
    (hso : Sorted disc (e :: sp)) (hne : sp ≠ []) : 0 < D disc e.2 := by
  cases sp with
  | nil => exact absurd rfl hne
  | cons e' r => have := sorted_head hso e' (by simp); omega

theorem parent_lt_child {disc : List (V × Nat)} {root : V} {e : V × V} {sp : List (V × V)}
    (hso : Sorted disc (e :: sp)) (hch : Chain root (e :: sp)) (hne : sp ≠ []) : D disc e.1 < D disc e.2 := by
  cases sp with
  | nil => exact absurd rfl hne
  | cons e' r => rw [hch.1]; exact sorted_head hso e' (by simp)

theorem parent_pos {disc : List (V × Nat)} {root : V} {e : V × V} {sp : List (V × V)}
    (hso : Sorted disc (e :: sp)) (hch : Chain root (e :: sp)) (hlen : sp.length > 1) : 0 < D disc e.1 := by
  cases sp with
  | nil => simp at hlen
  | cons e' r =>
    rw [hch.1]
    exact top_pos (sorted_tail hso) (by intro h; rw [h] at hlen; simp at hlen)

theorem parent_root {root : V} {e : V × V} {sp : List (V × V)}
    (hch : Chain root (e :: sp)) (hlen : sp.length = 1) : e.1 = root := by
  match sp, hlen, hch with
  | [e'], _, hch => rw [hch.1]; exact hch.2.2

/-- a node discovered strictly between the top frame's parent and child is not on the stack -/
theorem between_off_stack {disc : List (V × Nat)} {root : V} {e : V × V} {sp : List (V × V)} {w : V}
    (hso : Sorted disc (e :: sp)) (hch : Chain root (e :: sp)) (h1 : D disc e.1 < D disc w) (h2 : D disc w < D disc e.2) :
    ∀ h ∈ e :: sp, h.2 ≠ w := by
  intro h hh he
  rcases List.mem_cons.mp hh with hh | hh
  · rw [← he, hh] at h2; omega
  · have := below_le_parent hso hch h hh
    rw [he] at this; omega

/-! ## low points: witnesses (`Wit`), lower bounds (`LowOK`), no cross edges (`NoCross`), connected subtrees (`Conn`) -/

/-- every low point on the stack is the discovery number of a node seen from the frame's subtree -/
def WitP (nb : V → List V) (vis : List V) (disc low : List (V × Nat)) (sp : List (V × V)) : Prop :=
  ∀ e ∈ sp, ∃ u w, u ∈ vis ∧ w ∈ vis ∧ D disc e.2 ≤ D disc u ∧ (w ∈ nb u ∨ w = u) ∧ D disc w = D low e.2

abbrev Wit (nb : V → List V) (s : BSt) : Prop := WitP nb s.visited s.disc s.low (spine s.stack)

theorem wit_init (nb : V → List V) (root : V) : Wit nb (init nb root) := by
  intro e he
  simp [init] at he
  subst he
  exact ⟨root, root, by simp [init], by simp [init], Nat.le_refl _, Or.inr rfl, rfl⟩

theorem witP_sub {nb : V → List V} {vis : List V} {disc low : List (V × Nat)} {sp sp' : List (V × V)}
    (hsub : ∀ e ∈ sp', e ∈ sp) (h : WitP nb vis disc low sp) : WitP nb vis disc low sp' :=
  fun e he => h e (hsub e he)

theorem wit_step (nb : V → List V) (Vs : List V) (root : V) (s : BSt) (h1 : Inv1 nb Vs s) (h4 : Inv4 root s)
    (hW : Wit nb s) : Wit nb (bstep nb s) := by
  have hsc := spine_child h1
  apply bstep_cases
  · intro _; exact hW
  · intro f rest hs hlt hp
    show WitP nb s.visited s.disc s.low (spine (adv f :: rest))
    rw [spine_adv, ← hs]; exact hW
  · intro f rest nn hs hlt hnn hp hv hle
    show WitP nb s.visited s.disc (setKV f.child (min (D s.low f.child) (D s.disc nn)) s.low) (spine (adv f :: rest))
    rw [spine_adv, ← hs]
    intro e he
    obtain ⟨u, w, hu, hw, h1', h2', h3'⟩ := hW e he
    rw [D_setKV]
    split
    · next hec =>
      by_cases hmin : D s.disc nn ≤ D s.low f.child
      · refine ⟨f.child, nn, h1.child f (by simp [hs]), hv, by rw [hec]; exact Nat.le_refl _, Or.inl ?_, ?_⟩
        · rw [← h1.nbrs f (by simp [hs]), hnn]; exact getD_mem hlt
        · omega
      · refine ⟨u, w, hu, hw, h1', h2', ?_⟩
        rw [h3', hec]; omega
    · exact ⟨u, w, hu, hw, h1', h2', h3'⟩
  · intro f rest nn hs hlt hnn hp hv hle
    show WitP nb s.visited s.disc s.low (spine (adv f :: rest))
    rw [spine_adv, ← hs]; exact hW
  · intro f rest nn hs hlt hnn hp hv
    show WitP nb (nn :: s.visited) (setKV nn s.disc.length s.disc) (setKV nn s.disc.length s.low)
      ((f.child, nn) :: spine (adv f :: rest))
    rw [spine_adv, ← hs]
    have hne : ∀ v ∈ s.visited, v ≠ nn := fun v hv' he => hv (he ▸ hv')
    intro e he
    rcases List.mem_cons.mp he with he | he
    · subst he
      refine ⟨nn, nn, by simp, by simp, Nat.le_refl _, Or.inr rfl, ?_⟩
      simp only [D_setKV, if_true]
    · obtain ⟨u, w, hu, hw, h1', h2', h3'⟩ := hW e he
      refine ⟨u, w, List.mem_cons_of_mem _ hu, List.mem_cons_of_mem _ hw, ?_, h2', ?_⟩
      · rw [D_setKV, D_setKV, if_neg (hne _ (hsc e he).1), if_neg (hne u hu)]; exact h1'
      · rw [D_setKV, D_setKV, if_neg (hne _ (hsc e he).1), if_neg (hne w hw)]; exact h3'
  · intro f rest hs hlt hlen hc
    show WitP nb s.visited s.disc (setKV f.parent (min (D s.low f.parent) (D s.low f.child)) s.low) (spine rest)
    have hso := h4.sorted; have hch := h4.chain
    rw [hs, spine_cons] at hso hch
    have hpc := parent_lt_child hso hch (by intro h; simp [spine] at h; rw [h] at hlen; simp at hlen)
    intro e he
    have he' : e ∈ spine s.stack := by rw [hs]; exact List.mem_cons_of_mem _ he
    obtain ⟨u, w, hu, hw, h1', h2', h3'⟩ := hW e he'
    rw [D_setKV]
    split
    · next hec =>
      by_cases hmin : D s.low f.child ≤ D s.low f.parent
      · obtain ⟨u', w', hu', hw', h1'', h2'', h3''⟩ := hW (f.parent, f.child) (by rw [hs]; simp)
        refine ⟨u', w', hu', hw', ?_, h2'', ?_⟩
        · rw [hec]; simp only [] at h1'' hpc; omega
        · rw [h3'']; simp only []; omega
      · refine ⟨u, w, hu, hw, h1', h2', ?_⟩
        rw [h3', hec]; omega
    · exact ⟨u, w, hu, hw, h1', h2', h3'⟩
  · intro f rest hs hlt hlen hc
    show WitP nb s.visited s.disc (setKV f.parent (min (D s.low f.parent) (D s.low f.child)) s.low) (spine rest)
    have hso := h4.sorted; have hch := h4.chain
    rw [hs, spine_cons] at hso hch
    have hpc := parent_lt_child hso hch (by intro h; simp [spine] at h; rw [h] at hlen; simp at hlen)
    intro e he
    have he' : e ∈ spine s.stack := by rw [hs]; exact List.mem_cons_of_mem _ he
    obtain ⟨u, w, hu, hw, h1', h2', h3'⟩ := hW e he'
    rw [D_setKV]
    split
    · next hec =>
      by_cases hmin : D s.low f.child ≤ D s.low f.parent
      · obtain ⟨u', w', hu', hw', h1'', h2'', h3''⟩ := hW (f.parent, f.child) (by rw [hs]; simp)
        refine ⟨u', w', hu', hw', ?_, h2'', ?_⟩
        · rw [hec]; simp only [] at h1'' hpc; omega
        · rw [h3'']; simp only []; omega
      · refine ⟨u, w, hu, hw, h1', h2', ?_⟩
        rw [h3', hec]; omega
    · exact ⟨u, w, hu, hw, h1', h2', h3'⟩
  · intro f rest hs hlt hlen
    show WitP nb s.visited s.disc s.low (spine rest)
    exact witP_sub (fun e he => by rw [hs]; exact List.mem_cons_of_mem _ he) hW
  · intro f hs hlt
    show WitP nb s.visited s.disc s.low (spine [])
    intro e he; simp at he

/-- a scanned edge leaving the subtree of a stack frame downwards either goes to the frame's parent or is accounted for
    in the low point of a frame at or above it -/
def LowOKP (nb : V → List V) (vis : List V) (disc low : List (V × Nat)) (st : List Frame) : Prop :=
  ∀ g ∈ spine st, ∀ u w, Scanned nb vis st u w → D disc g.2 ≤ D disc u → D disc w < D disc g.2 →
    w = g.1 ∨ ∃ h ∈ spine st, D disc g.2 ≤ D disc h.2 ∧ D low h.2 ≤ D disc w

abbrev LowOK (nb : V → List V) (s : BSt) : Prop := LowOKP nb s.visited s.disc s.low s.stack

theorem lowOK_init (nb : V → List V) (root : V) : LowOK nb (init nb root) := by
  intro g hg u w _ _ h
  simp [init] at hg
  subst hg
  simp [init, D, lookup] at h

theorem lowOK_adv {nb : V → List V} {vis : List V} {disc low low' : List (V × Nat)} {f : Frame} {rest : List Frame}
    (hold : LowOKP nb vis disc low (f :: rest)) (hle : ∀ c, D low' c ≤ D low c)
    (hnew : ∀ g ∈ spine (f :: rest), D disc g.2 ≤ D disc f.child → D disc (f.nbrs.getD f.ptr "") < D disc g.2 →
      f.nbrs.getD f.ptr "" = g.1 ∨
        ∃ h ∈ spine (f :: rest), D disc g.2 ≤ D disc h.2 ∧ D low' h.2 ≤ D disc (f.nbrs.getD f.ptr "")) :
    LowOKP nb vis disc low' (adv f :: rest) := by
  intro g hg u w hsc h1 h2
  rw [spine_adv] at hg ⊢
  rcases scanned_adv hsc with hsc | ⟨hu, hw⟩
  · rcases hold g hg u w hsc h1 h2 with h | ⟨h, hh, h3, h4⟩
    · exact Or.inl h
    · exact Or.inr ⟨h, hh, h3, Nat.le_trans (hle _) h4⟩
  · rw [hu] at h1; rw [hw] at h2 ⊢
    exact hnew g hg h1 h2

theorem lowOK_step (nb : V → List V) (Vs : List V) (root : V) (s : BSt) (h1 : Inv1 nb Vs s) (h2 : Inv2 nb root s)
    (h4 : Inv4 root s) (hL : LowOK nb s) : LowOK nb (bstep nb s) := by
  have hsc := spine_child h1
  apply bstep_cases
  · intro _; exact hL
  · intro f rest hs hlt hp
    show LowOKP nb s.visited s.disc s.low (adv f :: rest)
    have hso := h4.sorted; have hch := h4.chain
    rw [hs, spine_cons] at hso hch
    unfold LowOK at hL; rw [hs] at hL
    apply lowOK_adv hL (fun _ => Nat.le_refl _)
    intro g hg hg1 hg2
    rw [spine_cons] at hg
    rcases List.mem_cons.mp hg with hg | hg
    · left; rw [hg]; exact hp
    · have := below_le_parent hso hch g hg
      rw [hp] at hg2; simp only [] at this; omega
  · intro f rest nn hs hlt hnn hp hv hle
    show LowOKP nb s.visited s.disc (setKV f.child (min (D s.low f.child) (D s.disc nn)) s.low) (adv f :: rest)
    unfold LowOK at hL; rw [hs] at hL
    apply lowOK_adv hL
    · intro c; rw [D_setKV]; split
      · next h => rw [h]; omega
      · exact Nat.le_refl _
    · intro g hg hg1 hg2
      right
      refine ⟨(f.parent, f.child), by simp, hg1, ?_⟩
      rw [D_setKV, if_pos rfl, ← hnn]; omega
  · intro f rest nn hs hlt hnn hp hv hle
    show LowOKP nb s.visited s.disc s.low (adv f :: rest)
    unfold LowOK at hL; rw [hs] at hL
    apply lowOK_adv hL (fun _ => Nat.le_refl _)
    intro g hg hg1 hg2
    rw [← hnn] at hg2; omega
  · intro f rest nn hs hlt hnn hp hv
    show LowOKP nb (nn :: s.visited) (setKV nn s.disc.length s.disc) (setKV nn s.disc.length s.low)
      (⟨f.child, nn, 0, nb nn⟩ :: adv f :: rest)
    have hne : ∀ v ∈ s.visited, v ≠ nn := fun v hv' he => hv (he ▸ hv')
    unfold LowOK at hL
    intro g hg u w hscan hg1 hg2
    obtain ⟨hun, hscan'⟩ := scanned_push hscan
    have huv : u ∈ s.visited := by
      rcases List.mem_cons.mp hscan.1 with h | h
      · exact absurd h hun
      · exact h
    rw [spine_cons, spine_adv, ← hs] at hg ⊢
    rw [D_setKV, D_setKV, if_neg hun] at hg1
    rcases List.mem_cons.mp hg with hg | hg
    · exfalso
      rw [hg] at hg1; simp only [if_true] at hg1
      have := h4.dlt u huv; omega
    · have hgv := (hsc g hg).1
      rw [if_neg (hne _ hgv)] at hg1
      rw [D_setKV, D_setKV, if_neg (hne _ hgv)] at hg2
      rw [← hs] at hscan'
      rcases hscan' with hscan' | ⟨_, hw⟩
      · have hwv : w ∈ s.visited := h2.scan u w hscan'
        rw [if_neg (hne w hwv)] at hg2
        rcases hL g hg u w hscan' hg1 hg2 with h | ⟨h, hh, h3, h4'⟩
        · exact Or.inl h
        · right
          have hhv := (hsc h hh).1
          refine ⟨h, List.mem_cons_of_mem _ hh, ?_, ?_⟩
          · rw [D_setKV, D_setKV, if_neg (hne _ hgv), if_neg (hne _ hhv)]; exact h3
          · rw [D_setKV, D_setKV, if_neg (hne _ hhv), if_neg (hne w hwv)]; exact h4'
      · exfalso
        rw [hw, ← hnn] at hg2; simp only [if_true] at hg2
        have := h4.dlt _ hgv; omega
  · intro f rest hs hlt hlen hc
    show LowOKP nb s.visited s.disc (setKV f.parent (min (D s.low f.parent) (D s.low f.child)) s.low) rest
    have hso := h4.sorted; have hch := h4.chain
    rw [hs, spine_cons] at hso hch
    unfold LowOK at hL; rw [hs] at hL
    intro g hg u w hscan hg1 hg2
    have hscan' := scanned_pop (h1.nbrs f (by simp [hs])) hlt hscan
    rcases hL g (by rw [spine_cons]; exact List.mem_cons_of_mem _ hg) u w hscan' hg1 hg2 with h | ⟨h, hh, h3, h4'⟩
    · exact Or.inl h
    · right
      rw [spine_cons] at hh
      rcases List.mem_cons.mp hh with hh | hh
      · cases hrest : rest with
        | nil => rw [hrest] at hlen; simp at hlen
        | cons g0 r =>
          rw [hrest, spine_cons] at hch hg hso
          refine ⟨(g0.parent, g0.child), by simp, ?_, ?_⟩
          · have := below_le_parent hso hch g hg
            rw [hch.1] at this; exact this
          · rw [D_setKV, if_pos hch.1.symm]
            rw [hh] at h4'; simp only [] at h4'; omega
      · refine ⟨h, hh, h3, ?_⟩
        rw [D_setKV]; split
        · next he => rw [he] at h4'; omega
        · exact h4'
  · intro f rest hs hlt hlen hc
    show LowOKP nb s.visited s.disc (setKV f.parent (min (D s.low f.parent) (D s.low f.child)) s.low) rest
    have hso := h4.sorted; have hch := h4.chain
    rw [hs, spine_cons] at hso hch
    unfold LowOK at hL; rw [hs] at hL
    intro g hg u w hscan hg1 hg2
    have hscan' := scanned_pop (h1.nbrs f (by simp [hs])) hlt hscan
    rcases hL g (by rw [spine_cons]; exact List.mem_cons_of_mem _ hg) u w hscan' hg1 hg2 with h | ⟨h, hh, h3, h4'⟩
    · exact Or.inl h
    · right
      rw [spine_cons] at hh
      rcases List.mem_cons.mp hh with hh | hh
      · cases hrest : rest with
        | nil => rw [hrest] at hlen; simp at hlen
        | cons g0 r =>
          rw [hrest, spine_cons] at hch hg hso
          refine ⟨(g0.parent, g0.child), by simp, ?_, ?_⟩
          · have := below_le_parent hso hch g hg
            rw [hch.1] at this; exact this
          · rw [D_setKV, if_pos hch.1.symm]
            rw [hh] at h4'; simp only [] at h4'; omega
      · refine ⟨h, hh, h3, ?_⟩
        rw [D_setKV]; split
        · next he => rw [he] at h4'; omega
        · exact h4'
  · intro f rest hs hlt hlen
    show LowOKP nb s.visited s.disc s.low rest
    have hch := h4.chain
    rw [hs, spine_cons] at hch
    intro g hg u w hscan hg1 hg2
    exfalso
    match rest, hlen, hch, hg with
    | [g0], _, hch, hg =>
      simp at hg
      rw [hg] at hg2; simp only [] at hg2
      have : g0.child = root := hch.2.2
      rw [this, h4.droot] at hg2; omega
  · intro f hs hlt
    show LowOKP nb s.visited s.disc s.low []
    intro g hg; simp at hg

/-- a finished node has no neighbour inside the subtree of a stack frame discovered after it -/
def NoCrossP (nb : V → List V) (vis : List V) (disc : List (V × Nat)) (sp : List (V × V)) : Prop :=
  ∀ w ∈ vis, (∀ e ∈ sp, e.2 ≠ w) → ∀ x ∈ nb w, ∀ g ∈ sp, D disc w < D disc g.2 → D disc x < D disc g.2

abbrev NoCross (nb : V → List V) (s : BSt) : Prop := NoCrossP nb s.visited s.disc (spine s.stack)

theorem noCross_init (nb : V → List V) (root : V) : NoCross nb (init nb root) := by
  intro w hw hfin
  simp [init] at hw hfin
  exact absurd hw.symm hfin

theorem noCross_step (nb : V → List V) (Vs : List V) (root : V) (s : BSt) (h1 : Inv1 nb Vs s) (h2 : Inv2 nb root s)
    (h4 : Inv4 root s) (hX : NoCross nb s) : NoCross nb (bstep nb s) := by
  have hsc := spine_child h1
  have adv_case : ∀ f rest, s.stack = f :: rest → NoCrossP nb s.visited s.disc (spine (adv f :: rest)) := by
    intro f rest hs; rw [spine_adv, ← hs]; exact hX
  have pop_case : ∀ f rest, s.stack = f :: rest → NoCrossP nb s.visited s.disc (spine rest) := by
    intro f rest hs
    have hso := h4.sorted
    rw [hs, spine_cons] at hso
    unfold NoCross at hX; rw [hs, spine_cons] at hX
    intro w hw hfin x hx g hg hlt
    by_cases hwf : f.child = w
    · have := sorted_head hso g hg
      rw [← hwf] at hlt; simp only [] at this; omega
    · apply hX w hw _ x hx g (List.mem_cons_of_mem _ hg) hlt
      intro e he
      rcases List.mem_cons.mp he with he | he
      · rw [he]; exact hwf
      · exact hfin e he
  apply bstep_cases
  · intro _; exact hX
  · intro f rest hs hlt hp; exact adv_case f rest hs
  · intro f rest nn hs hlt hnn hp hv hle; exact adv_case f rest hs
  · intro f rest nn hs hlt hnn hp hv hle; exact adv_case f rest hs
  · intro f rest nn hs hlt hnn hp hv
    show NoCrossP nb (nn :: s.visited) (setKV nn s.disc.length s.disc) ((f.child, nn) :: spine (adv f :: rest))
    rw [spine_adv, ← hs]
    have hne : ∀ v ∈ s.visited, v ≠ nn := fun v hv' he => hv (he ▸ hv')
    intro w hw hfin x hx g hg hlt'
    have hwn : w ≠ nn := fun h => hfin (f.child, nn) (by simp) h.symm
    have hwv : w ∈ s.visited := by
      rcases List.mem_cons.mp hw with h | h
      · exact absurd h hwn
      · exact h
    have hfin' : ∀ e ∈ spine s.stack, e.2 ≠ w := fun e he => hfin e (List.mem_cons_of_mem _ he)
    have hxv : x ∈ s.visited := by
      apply h2.scan w x
      refine ⟨hwv, hx, ?_⟩
      intro g hg hgw
      exact absurd hgw (hfin' _ (mem_spine hg))
    rw [D_setKV, if_neg (hne x hxv)]
    rw [D_setKV, if_neg hwn] at hlt'
    rcases List.mem_cons.mp hg with hg | hg
    · rw [hg, D_setKV]; simp only [if_true]; exact h4.dlt x hxv
    · have hgv := (hsc g hg).1
      rw [D_setKV, if_neg (hne _ hgv)] at hlt' ⊢
      exact hX w hwv hfin' x hx g hg hlt'
  · intro f rest hs hlt hlen hc; exact pop_case f rest hs
  · intro f rest hs hlt hlen hc; exact pop_case f rest hs
  · intro f rest hs hlt hlen; exact pop_case f rest hs
  · intro f hs hlt; exact pop_case f [] hs

/-- the subtree of a stack frame is connected to the frame's child without passing through the frame's parent -/
def ConnP (nb : V → List V) (vis : List V) (disc : List (V × Nat)) (sp : List (V × V)) : Prop :=
  ∀ g ∈ sp, g.2 ≠ g.1 → ∀ y ∈ vis, D disc g.2 ≤ D disc y → Reach (nbWithout nb g.1) g.2 y

abbrev Conn (nb : V → List V) (s : BSt) : Prop := ConnP nb s.visited s.disc (spine s.stack)

theorem conn_init (nb : V → List V) (root : V) : Conn nb (init nb root) := by
  intro g hg hne
  simp [init] at hg
  subst hg
  exact absurd rfl hne

theorem conn_step (nb : V → List V) (Vs : List V) (root : V) (s : BSt) (h1 : Inv1 nb Vs s)
    (h4 : Inv4 root s) (hT : Conn nb s) : Conn nb (bstep nb s) := by
  have hsc := spine_child h1
  have adv_case : ∀ f rest, s.stack = f :: rest → ConnP nb s.visited s.disc (spine (adv f :: rest)) := by
    intro f rest hs; rw [spine_adv, ← hs]; exact hT
  have pop_case : ∀ f rest, s.stack = f :: rest → ConnP nb s.visited s.disc (spine rest) := by
    intro f rest hs
    unfold Conn at hT; rw [hs, spine_cons] at hT
    intro g hg
    exact hT g (List.mem_cons_of_mem _ hg)
  apply bstep_cases
  · intro _; exact hT
  · intro f rest hs hlt hp; exact adv_case f rest hs
  · intro f rest nn hs hlt hnn hp hv hle; exact adv_case f rest hs
  · intro f rest nn hs hlt hnn hp hv hle; exact adv_case f rest hs
  · intro f rest nn hs hlt hnn hp hv
    show ConnP nb (nn :: s.visited) (setKV nn s.disc.length s.disc) ((f.child, nn) :: spine (adv f :: rest))
    rw [spine_adv, ← hs]
    have hne : ∀ v ∈ s.visited, v ≠ nn := fun v hv' he => hv (he ▸ hv')
    have hso := h4.sorted; have hch := h4.chain
    intro g hg hgne y hy hle
    rcases List.mem_cons.mp hg with hg | hg
    · rw [hg] at hle ⊢; simp only [] at hle ⊢
      rcases List.mem_cons.mp hy with hy | hy
      · rw [hy]; exact Reach.refl _
      · exfalso
        rw [D_setKV, D_setKV, if_neg (hne y hy)] at hle; simp only [if_true] at hle
        have := h4.dlt y hy; omega
    · have hgv := hsc g hg
      rw [D_setKV, if_neg (hne _ hgv.1)] at hle
      rcases List.mem_cons.mp hy with hy | hy
      · rw [hy]
        have hfv : f.child ∈ s.visited := h1.child f (by simp [hs])
        have hgf : D s.disc g.2 ≤ D s.disc f.child := by
          rw [hs, spine_cons] at hg hso
          rcases List.mem_cons.mp hg with hg | hg
          · rw [hg]; exact Nat.le_refl _
          · exact Nat.le_of_lt (sorted_head hso g hg)
        have hr := hT g hg hgne f.child hfv hgf
        have hpc : D s.disc g.1 < D s.disc g.2 := by
          rcases frame_cases _ hso hch g hg with h | h
          · exact absurd (h.2.trans h.1.symm) hgne
          · exact h
        apply Reach.step hr
        apply nbWithout_mem.mpr
        refine ⟨?_, ?_, (hne _ hgv.2).symm⟩
        · intro he; rw [he] at hgf; omega
        · rw [← h1.nbrs f (by simp [hs]), hnn]; exact getD_mem hlt
      · rw [D_setKV, if_neg (hne y hy)] at hle
        exact hT g hg hgne y hy hle
  · intro f rest hs hlt hlen hc; exact pop_case f rest hs
  · intro f rest hs hlt hlen hc; exact pop_case f rest hs
  · intro f rest hs hlt hlen; exact pop_case f rest hs
  · intro f hs hlt; exact pop_case f [] hs

/-! ## RUNG 4: soundness of the articulation points -/

/-- when an exhausted frame (parent p, child c) is popped with low[c] ≥ disc[p], no edge leaves the subtree of c
    except to p -/
theorem closure (nb : V → List V) (Vs : List V) (root : V) (hsym : ∀ a b, b ∈ nb a → a ∈ nb b) (s : BSt)
    (h1 : Inv1 nb Vs s) (h2 : Inv2 nb root s) (h4 : Inv4 root s) (hL : LowOK nb s) (hX : NoCross nb s)
    (f : Frame) (rest : List Frame) (hs : s.stack = f :: rest) (hlt : ¬ f.ptr < f.nbrs.length)
    (hlow : D s.disc f.parent ≤ D s.low f.child) :
    ∀ u ∈ s.visited, D s.disc f.child ≤ D s.disc u → ∀ w ∈ nb u, w ≠ f.parent →
      w ∈ s.visited ∧ D s.disc f.child ≤ D s.disc w := by
  have hso := h4.sorted; have hch := h4.chain
  rw [hs, spine_cons] at hso hch
  intro u hu hcu w hw hwp
  have hscan : Scanned nb s.visited s.stack u w := by
    refine ⟨hu, hw, ?_⟩
    intro g hg hgu
    rw [hs] at hg
    rcases List.mem_cons.mp hg with hg | hg
    · subst hg; rw [List.take_of_length_le (by omega), h1.nbrs g (by simp [hs]), hgu]; exact hw
    · exfalso
      have := sorted_head hso _ (mem_spine hg)
      rw [← hgu] at hcu; simp only [] at this; omega
  have hwv : w ∈ s.visited := h2.scan u w hscan
  refine ⟨hwv, ?_⟩
  apply Decidable.byContradiction
  intro hnle
  have hwc : D s.disc w < D s.disc f.child := by omega
  have hpw : D s.disc f.parent ≤ D s.disc w := by
    rcases hL (f.parent, f.child) (by rw [hs]; simp) u w hscan hcu hwc with h | ⟨h, hh, h3, h4'⟩
    · exact absurd h hwp
    · rw [hs, spine_cons] at hh
      rcases List.mem_cons.mp hh with hh | hh
      · rw [hh] at h4'; simp only [] at h4'; omega
      · have := sorted_head hso h hh; simp only [] at this h3; omega
  have hpv : f.parent ∈ s.visited := h1.parent f (by simp [hs])
  have hpw' : D s.disc f.parent < D s.disc w := by
    rcases Nat.lt_or_ge (D s.disc f.parent) (D s.disc w) with h | h
    · exact h
    · exact absurd (h4.inj w hwv f.parent hpv (by omega)) hwp
  have hfin : ∀ e ∈ spine s.stack, e.2 ≠ w := by
    rw [hs, spine_cons]
    exact between_off_stack hso hch hpw' hwc
  have := hX w hwv hfin u (hsym u w hw) (f.parent, f.child) (by rw [hs]; simp) hwc
  simp only [] at this; omega

theorem reach_closed {nb : V → List V} {p c : V} {P : V → Prop}
    (hcl : ∀ u, P u → ∀ w ∈ nb u, w ≠ p → P w) (hc : P c) : ∀ y, Reach (nbWithout nb p) c y → P y := by
  intro y hr
  induction hr with
  | refl => exact hc
  | step _ hmem ih =>
    obtain ⟨_, h2, h3⟩ := nbWithout_mem.mp hmem
    exact hcl _ ih _ h2 h3

structure Inv6 (nb : V → List V) (Vs : List V) (root : V) (s : BSt) : Prop where
  r1 : s.rootChildren ≥ 1 → ∃ x ∈ Vs, x ≠ root ∧
    ∀ y, Reach (nbWithout nb root) x y → y ∈ s.visited ∧ ∀ e ∈ spine s.stack, e.2 ≠ y
  r2 : s.rootChildren ≥ 2 → isCut nb Vs root = true
  aps : ∀ a ∈ s.aps, isCut nb Vs a = true

theorem inv6_init (nb : V → List V) (Vs : List V) (root : V) : Inv6 nb Vs root (init nb root) := by
  constructor <;> simp [init]

theorem inv6_step (nb : V → List V) (Vs : List V) (hu : Undirected nb Vs) (hd : Vs.Nodup) (root : V) (hr : root ∈ Vs)
    (s : BSt) (h1 : Inv1 nb Vs s) (h2 : Inv2 nb root s) (h4 : Inv4 root s) (hL : LowOK nb s) (hX : NoCross nb s)
    (h : Inv6 nb Vs root s) : Inv6 nb Vs root (bstep nb s) := by
  obtain ⟨hr1, hr2, haps⟩ := h
  have hsc := spine_child h1
  have r1_sub : ∀ (n : Nat) (vis : List V) (sp : List (V × V)), n ≥ 1 → (n ≥ 1 → s.rootChildren ≥ 1) →
      (∀ y ∈ s.visited, y ∈ vis) →
      (∀ y ∈ s.visited, (∀ e ∈ spine s.stack, e.2 ≠ y) → ∀ e ∈ sp, e.2 ≠ y) →
      ∃ x ∈ Vs, x ≠ root ∧ ∀ y, Reach (nbWithout nb root) x y → y ∈ vis ∧ ∀ e ∈ sp, e.2 ≠ y := by
    intro n vis sp hn hn' hvis hsp
    obtain ⟨x, hx1, hx2, hx3⟩ := hr1 (hn' hn)
    exact ⟨x, hx1, hx2, fun y hy => ⟨hvis y (hx3 y hy).1, hsp y (hx3 y hy).1 (hx3 y hy).2⟩⟩
  have tail_sub : ∀ f rest, s.stack = f :: rest →
      ∀ y ∈ s.visited, (∀ e ∈ spine s.stack, e.2 ≠ y) → ∀ e ∈ spine rest, e.2 ≠ y := by
    intro f rest hs y _ hy e he
    exact hy e (by rw [hs, spine_cons]; exact List.mem_cons_of_mem _ he)
  have adv_sub : ∀ f rest, s.stack = f :: rest →
      ∀ y ∈ s.visited, (∀ e ∈ spine s.stack, e.2 ≠ y) → ∀ e ∈ spine (adv f :: rest), e.2 ≠ y := by
    intro f rest hs y _ hy e he
    exact hy e (by rw [hs, ← spine_adv]; exact he)
  apply bstep_cases
  · intro _; exact ⟨hr1, hr2, haps⟩
  · intro f rest hs hlt hp
    exact ⟨fun hn => r1_sub _ _ _ hn id (fun _ h => h) (adv_sub f rest hs), hr2, haps⟩
  · intro f rest nn hs hlt hnn hp hv hle
    exact ⟨fun hn => r1_sub _ _ _ hn id (fun _ h => h) (adv_sub f rest hs), hr2, haps⟩
  · intro f rest nn hs hlt hnn hp hv hle
    exact ⟨fun hn => r1_sub _ _ _ hn id (fun _ h => h) (adv_sub f rest hs), hr2, haps⟩
  · intro f rest nn hs hlt hnn hp hv
    refine ⟨fun hn => r1_sub _ _ _ hn id (fun _ h => List.mem_cons_of_mem _ h) ?_, hr2, haps⟩
    intro y hy hfin e he
    change e ∈ (f.child, nn) :: spine (adv f :: rest) at he
    rcases List.mem_cons.mp he with he | he
    · rw [he]; intro h; exact hv (by simp only [] at h; rw [h]; exact hy)
    · exact adv_sub f rest hs y hy hfin e he
  · intro f rest hs hlt hlen hc
    refine ⟨fun hn => r1_sub _ _ _ hn id (fun _ h => h) (tail_sub f rest hs), hr2, ?_⟩
    intro a ha
    rcases mem_insertSet ha with ha | ha
    · rw [ha]
      have hso := h4.sorted; have hch := h4.chain
      rw [hs, spine_cons] at hso hch
      have hrne : spine rest ≠ [] := by intro h; simp [spine] at h; rw [h] at hlen; simp at hlen
      have hpc := parent_lt_child hso hch hrne
      have hpp := parent_pos hso hch (by simpa [spine] using hlen)
      simp only [] at hpc hpp
      have hpv : f.parent ∈ s.visited := h1.parent f (by simp [hs])
      have hcv : f.child ∈ s.visited := h1.child f (by simp [hs])
      apply (C15.isCut_iff nb Vs hu hd f.parent (h1.sub _ hpv)).mpr
      refine ⟨f.child, root, h1.sub _ hcv, hr, ?_, ?_, ?_⟩
      · intro he; rw [he] at hpc; omega
      · intro he; rw [← he, h4.droot] at hpp; omega
      · intro hreach
        have hcl := closure nb Vs root hu.symm s h1 h2 h4 hL hX f rest hs hlt hc
        have := reach_closed (P := fun y => y ∈ s.visited ∧ D s.disc f.child ≤ D s.disc y)
          (fun u hu' w hw hwp => hcl u hu'.1 hu'.2 w hw hwp) ⟨hcv, Nat.le_refl _⟩ root hreach
        rw [h4.droot] at this; omega
    · exact haps a ha
  · intro f rest hs hlt hlen hc
    exact ⟨fun hn => r1_sub _ _ _ hn id (fun _ h => h) (tail_sub f rest hs), hr2, haps⟩
  · intro f rest hs hlt hlen
    have hso := h4.sorted; have hch := h4.chain
    rw [hs, spine_cons] at hso hch
    have hrne : spine rest ≠ [] := by intro h; simp [spine] at h; rw [h] at hlen; simp at hlen
    have hcpos := top_pos hso hrne
    have hproot : f.parent = root := parent_root hch (by simpa [spine] using hlen)
    simp only [] at hcpos
    have hcv : f.child ∈ s.visited := h1.child f (by simp [hs])
    have hcr : f.child ≠ root := by intro he; rw [he, h4.droot] at hcpos; omega
    refine ⟨?_, ?_, haps⟩
    · intro _
      by_cases hrc : s.rootChildren ≥ 1
      · exact r1_sub 1 _ _ (Nat.le_refl _) (fun _ => hrc) (fun _ h => h) (tail_sub f rest hs)
      · refine ⟨f.child, h1.sub _ hcv, hcr, ?_⟩
        intro y hreach
        have hcl := closure nb Vs root hu.symm s h1 h2 h4 hL hX f rest hs hlt
          (by rw [hproot, h4.droot]; exact Nat.zero_le _)
        rw [hproot] at hcl
        have := reach_closed (P := fun y => y ∈ s.visited ∧ D s.disc f.child ≤ D s.disc y)
          (fun u hu' w hw hwp => hcl u hu'.1 hu'.2 w hw hwp) ⟨hcv, Nat.le_refl _⟩ y hreach
        refine ⟨this.1, ?_⟩
        intro e he hey
        have h' := sorted_head hso e he
        rw [hey] at h'; simp only [] at h'; omega
    · intro hn
      have hn' : s.rootChildren ≥ 1 := by simp only [] at hn; omega
      obtain ⟨x, hx1, hx2, hx3⟩ := hr1 hn'
      apply (C15.isCut_iff nb Vs hu hd root hr).mpr
      refine ⟨x, f.child, hx1, h1.sub _ hcv, hx2, hcr, ?_⟩
      intro hreach
      exact (hx3 _ hreach).2 (f.parent, f.child) (by rw [hs]; simp) rfl
  · intro f hs hlt
    exact ⟨fun hn => r1_sub _ _ _ hn id (fun _ h => h) (tail_sub f [] hs), hr2, haps⟩

structure InvS (nb : V → List V) (Vs : List V) (root : V) (s : BSt) : Prop where
  i1 : Inv1 nb Vs s
  i2 : Inv2 nb root s
  i4 : Inv4 root s
  low : LowOK nb s
  nocross : NoCross nb s
  i6 : Inv6 nb Vs root s

theorem invS_bgo (nb : V → List V) (Vs : List V) (hu : Undirected nb Vs) (hd : Vs.Nodup) (root : V) (hr : root ∈ Vs)
    (n : Nat) : InvS nb Vs root (bgo nb n (init nb root)) := by
  apply bgo_inv nb (InvS nb Vs root)
  · intro s h
    exact ⟨inv1_step nb Vs hu s h.i1, inv2_step nb Vs root s h.i1 h.i2, inv4_step nb Vs root s h.i1 h.i2 h.i4,
      lowOK_step nb Vs root s h.i1 h.i2 h.i4 h.low, noCross_step nb Vs root s h.i1 h.i2 h.i4 h.nocross,
      inv6_step nb Vs hu hd root hr s h.i1 h.i2 h.i4 h.low h.nocross h.i6⟩
  · exact ⟨inv1_init nb Vs root hr, inv2_init nb root, inv4_init nb root, lowOK_init nb root, noCross_init nb root,
      inv6_init nb Vs root⟩

theorem aps_sound (nb : V → List V) (Vs : List V) (hu : Undirected nb Vs) (hd : Vs.Nodup) (root : V) (hr : root ∈ Vs) :
    ∀ a ∈ (biccsFrom nb root (biccFuel nb Vs)).2, isCut nb Vs a = true := by
  have h := (invS_bgo nb Vs hu hd root hr (biccFuel nb Vs)).i6
  intro a ha
  change a ∈ (if (bgo nb (biccFuel nb Vs) (init nb root)).rootChildren > 1 then
    insertSet root (bgo nb (biccFuel nb Vs) (init nb root)).aps else (bgo nb (biccFuel nb Vs) (init nb root)).aps) at ha
  split at ha
  · next hgt =>
    rcases mem_insertSet ha with h' | h'
    · rw [h']; exact h.r2 hgt
    · exact h.aps a h'
  · exact h.aps a ha

end Gaftools.Proofs.Bicc
