import Gaftools.Spec.Graph
/-!
# Lemmas for C15: loop invariants of the component search and of the depth-first traversal
-/
namespace Gaftools.Proofs.Algo
open Gaftools.Gfa Gaftools.Algo Gaftools.Spec.Graph

/-! ## reachability -/

theorem Reach.trans {nb : V → List V} {a b c : V} (h1 : Reach nb a b) (h2 : Reach nb b c) : Reach nb a c := by
  induction h2 with
  | refl => exact h1
  | step _ hc ih => exact Reach.step ih hc

theorem Reach.single {nb : V → List V} {a b : V} (h : b ∈ nb a) : Reach nb a b :=
  Reach.step (Reach.refl a) h

theorem Reach.symm {nb : V → List V} (hs : ∀ a b, b ∈ nb a → a ∈ nb b) {a b : V} (h : Reach nb a b) :
    Reach nb b a := by
  induction h with
  | refl => exact Reach.refl _
  | step _ hc ih => exact Reach.trans (Reach.single (hs _ _ hc)) ih

theorem Reach.mem {nb : V → List V} {Vs : List V} (hcl : ∀ a ∈ Vs, ∀ b ∈ nb a, b ∈ Vs) {a b : V}
    (h : Reach nb a b) (ha : a ∈ Vs) : b ∈ Vs := by
  induction h with
  | refl => exact ha
  | step _ hc ih => exact hcl _ ih _ hc

/-- a node without neighbours reaches only itself -/
theorem Reach.eq_of_nil {nb : V → List V} {a b : V} (hn : nb a = []) (h : Reach nb a b) : b = a := by
  induction h with
  | refl => rfl
  | step _ hc ih => subst ih; rw [hn] at hc; simp at hc

/-- a set that contains `a` and is closed under the neighbour relation contains everything reachable from `a` -/
theorem Reach.mem_of_closed {nb : V → List V} {S : List V} (hcl : ∀ a ∈ S, ∀ b ∈ nb a, b ∈ S) {a b : V}
    (h : Reach nb a b) (ha : a ∈ S) : b ∈ S := Reach.mem hcl h ha

/-! ## `find_component` -/

theorem mem_flag (vis : List V) (x v : V) :
    v ∈ (if _h : vis.contains x = true then vis else x :: vis) ↔ v ∈ vis ∨ v = x := by
  by_cases h : vis.contains x = true
  · rw [dif_pos h]
    constructor
    · exact Or.inl
    · rintro (h' | h')
      · exact h'
      · subst h'; simpa using h
  · rw [dif_neg h]; simp [or_comm]

theorem mem_flag' (vis : List V) (x v : V) :
    v ∈ (if vis.contains x = true then vis else x :: vis) ↔ v ∈ vis ∨ v = x := by
  have := mem_flag vis x v
  simpa using this

/-- the loop invariant of `find_component`. `S` = flags left by earlier searches (disjoint from the class of `start`). -/
theorem findCompLoop_inv (nb : V → List V) (Vs : List V) (hcl : ∀ a ∈ Vs, ∀ b ∈ nb a, b ∈ Vs)
    (start : V) (hsV : start ∈ Vs) (S : List V) (hS : ∀ b ∈ S, ¬ Reach nb start b) :
    ∀ st cc vis,
      (∀ x ∈ st, Reach nb start x) → (∀ x ∈ cc, Reach nb start x) → cc.Nodup →
      (∀ x ∈ cc, x ∈ vis) → (∀ x ∈ S, x ∈ vis) → (∀ v ∈ vis, v ∈ S ∨ v ∈ cc ∨ v ∈ st) →
      (∀ a ∈ cc, ∀ b ∈ nb a, b ∈ cc ∨ b ∈ st) →
      (findCompLoop nb Vs st cc vis).1.Nodup ∧
      (∀ x ∈ (findCompLoop nb Vs st cc vis).1, Reach nb start x) ∧
      (∀ x ∈ cc, x ∈ (findCompLoop nb Vs st cc vis).1) ∧
      (∀ x ∈ st, x ∈ (findCompLoop nb Vs st cc vis).1) ∧
      (∀ a ∈ (findCompLoop nb Vs st cc vis).1, ∀ b ∈ nb a, b ∈ (findCompLoop nb Vs st cc vis).1) ∧
      (∀ v, v ∈ (findCompLoop nb Vs st cc vis).2 ↔ v ∈ S ∨ v ∈ (findCompLoop nb Vs st cc vis).1) := by
  intro st cc vis
  induction st, cc, vis using findCompLoop.induct (nb := nb) (Vs := Vs) with
  | case1 cc vis =>
    intro _ hcc hnd hcv hSv hvis hclo
    simp only [findCompLoop]
    refine ⟨hnd, hcc, fun x hx => hx, fun x hx => by simp at hx, ?_, ?_⟩
    · intro a ha b hb
      rcases hclo a ha b hb with h | h
      · exact h
      · simp at h
    · intro v
      constructor
      · intro hv
        rcases hvis v hv with h | h | h
        · exact Or.inl h
        · exact Or.inr h
        · simp at h
      · rintro (h | h)
        · exact hSv v h
        · exact hcv v h
  | case2 x st cc vis h ih =>
    intro hst hcc hnd hcv hSv hvis hclo
    rw [findCompLoop, dif_pos h]
    have hxV : x ∈ Vs := Reach.mem hcl (hst x (by simp)) hsV
    have hxcc : x ∈ cc := by
      rcases h with h | h
      · exact h
      · exact absurd hxV h
    have := ih (fun z hz => hst z (List.mem_cons_of_mem _ hz)) hcc hnd hcv hSv
      (fun v hv => by
        rcases hvis v hv with h' | h' | h'
        · exact Or.inl h'
        · exact Or.inr (Or.inl h')
        · rcases List.mem_cons.mp h' with h'' | h''
          · subst h''; exact Or.inr (Or.inl hxcc)
          · exact Or.inr (Or.inr h''))
      (fun z hz y hy => by
        rcases hclo z hz y hy with h' | h'
        · exact Or.inl h'
        · rcases List.mem_cons.mp h' with h'' | h''
          · subst h''; exact Or.inl hxcc
          · exact Or.inr h'')
    refine ⟨this.1, this.2.1, this.2.2.1, ?_, this.2.2.2.2⟩
    intro z hz
    rcases List.mem_cons.mp hz with hz | hz
    · subst hz; exact this.2.2.1 _ hxcc
    · exact this.2.2.2.1 z hz
  | case3 x st cc vis h vis' ih =>
    intro hst hcc hnd hcv hSv hvis hclo
    rw [findCompLoop, dif_neg h]
    have hvis' : ∀ v, v ∈ vis' ↔ v ∈ vis ∨ v = x := mem_flag vis x
    have hvis'' : (if vis.contains x = true then vis else x :: vis) = vis' := by
      simp only [vis']; split <;> rfl
    simp only [hvis'']
    have hx : Reach nb start x := hst x (by simp)
    have hxcc : x ∉ cc := fun hc => h (Or.inl hc)
    have := ih
      (fun z hz => by
        rcases List.mem_append.mp hz with hz | hz
        · have hz' := (List.mem_filter.mp (List.mem_reverse.mp hz)).1
          exact Reach.step hx hz'
        · exact hst z (List.mem_cons_of_mem _ hz))
      (fun z hz => by
        rcases List.mem_cons.mp hz with hz | hz
        · subst hz; exact hx
        · exact hcc z hz)
      (List.nodup_cons.mpr ⟨hxcc, hnd⟩)
      (fun z hz => by
        rcases List.mem_cons.mp hz with hz | hz
        · subst hz; exact (hvis' z).mpr (Or.inr rfl)
        · exact (hvis' z).mpr (Or.inl (hcv z hz)))
      (fun z hz => (hvis' z).mpr (Or.inl (hSv z hz)))
      (fun v hv => by
        rcases (hvis' v).mp hv with hv | hv
        · rcases hvis v hv with h' | h' | h'
          · exact Or.inl h'
          · exact Or.inr (Or.inl (List.mem_cons_of_mem _ h'))
          · rcases List.mem_cons.mp h' with h'' | h''
            · subst h''; exact Or.inr (Or.inl (by simp))
            · exact Or.inr (Or.inr (List.mem_append_right _ h''))
        · subst hv; exact Or.inr (Or.inl (by simp)))
      (fun z hz y hy => by
        rcases List.mem_cons.mp hz with hz | hz
        · subst hz
          by_cases hyv : y ∈ vis'
          · rcases (hvis' y).mp hyv with hv | hv
            · rcases hvis y hv with h' | h' | h'
              · exact absurd (Reach.step hx hy) (hS y h')
              · exact Or.inl (List.mem_cons_of_mem _ h')
              · rcases List.mem_cons.mp h' with h'' | h''
                · subst h''; exact Or.inl (by simp)
                · exact Or.inr (List.mem_append_right _ h'')
            · subst hv; exact Or.inl (by simp)
          · refine Or.inr (List.mem_append_left _ (List.mem_reverse.mpr (List.mem_filter.mpr ⟨hy, ?_⟩)))
            simpa using hyv
        · rcases hclo z hz y hy with h' | h'
          · exact Or.inl (List.mem_cons_of_mem _ h')
          · rcases List.mem_cons.mp h' with h'' | h''
            · subst h''; exact Or.inl (by simp)
            · exact Or.inr (List.mem_append_right _ h''))
    refine ⟨this.1, this.2.1, fun z hz => this.2.2.1 z (List.mem_cons_of_mem _ hz), ?_, this.2.2.2.2⟩
    intro z hz
    rcases List.mem_cons.mp hz with hz | hz
    · subst hz; exact this.2.2.1 _ (by simp)
    · exact this.2.2.2.1 z (List.mem_append_right _ hz)

/-- exactness of the loop started at `[start]` with `start` flagged -/
theorem findCompLoop_exact (nb : V → List V) (Vs : List V) (hcl : ∀ a ∈ Vs, ∀ b ∈ nb a, b ∈ Vs)
    (start : V) (hsV : start ∈ Vs) (S : List V) (hS : ∀ b ∈ S, ¬ Reach nb start b)
    (vis0 : List V) (hvis0 : ∀ v, v ∈ vis0 ↔ v ∈ S ∨ v = start) :
    (findCompLoop nb Vs [start] [] vis0).1.Nodup ∧
    (∀ b, b ∈ (findCompLoop nb Vs [start] [] vis0).1 ↔ Reach nb start b) ∧
    (∀ b, b ∈ (findCompLoop nb Vs [start] [] vis0).2 ↔ b ∈ S ∨ Reach nb start b) := by
  have h := findCompLoop_inv nb Vs hcl start hsV S hS [start] [] vis0
    (by intro x hx; simp at hx; subst hx; exact Reach.refl _) (by simp) (by simp) (by simp)
    (fun x hx => (hvis0 x).mpr (Or.inl hx))
    (fun v hv => by
      rcases (hvis0 v).mp hv with h | h
      · exact Or.inl h
      · subst h; exact Or.inr (Or.inr (by simp)))
    (by simp)
  have hex : ∀ b, b ∈ (findCompLoop nb Vs [start] [] vis0).1 ↔ Reach nb start b := by
    intro b
    constructor
    · exact h.2.1 b
    · intro hr
      exact Reach.mem h.2.2.2.2.1 hr (h.2.2.2.1 start (by simp))
  refine ⟨h.1, hex, ?_⟩
  intro b
  rw [h.2.2.2.2.2 b, hex b]

/-! ## `dfs` -/

theorem nodup_reverse {l : List V} (h : l.Nodup) : l.reverse.Nodup := by
  unfold List.Nodup at *
  rw [List.pairwise_reverse]
  exact h.imp (fun h => h.symm)

theorem dfsLoop_inv (nb : V → List V) (Vs : List V) (hcl : ∀ a ∈ Vs, ∀ b ∈ nb a, b ∈ Vs)
    (start : V) (hsV : start ∈ Vs) :
    ∀ st out,
      (∀ x ∈ st, Reach nb start x) → (∀ x ∈ out, Reach nb start x) → out.Nodup →
      (∀ a ∈ out, ∀ b ∈ nb a, b ∈ out ∨ b ∈ st) →
      (dfsLoop nb Vs st out).Nodup ∧
      (∀ x ∈ dfsLoop nb Vs st out, Reach nb start x) ∧
      (∀ x ∈ out, x ∈ dfsLoop nb Vs st out) ∧
      (∀ x ∈ st, x ∈ dfsLoop nb Vs st out) ∧
      (∀ a ∈ dfsLoop nb Vs st out, ∀ b ∈ nb a, b ∈ dfsLoop nb Vs st out) ∧
      (∃ pre, dfsLoop nb Vs st out = pre ++ out) := by
  intro st out
  induction st, out using dfsLoop.induct (nb := nb) (Vs := Vs) with
  | case1 out =>
    intro _ hout hnd hclo
    simp only [dfsLoop]
    refine ⟨hnd, hout, fun x hx => hx, fun x hx => by simp at hx, ?_, ⟨[], rfl⟩⟩
    intro a ha b hb
    rcases hclo a ha b hb with h | h
    · exact h
    · simp at h
  | case2 x st out h ih =>
    intro hst hout hnd hclo
    rw [dfsLoop, dif_pos h]
    have hxV : x ∈ Vs := Reach.mem hcl (hst x (by simp)) hsV
    have hxo : x ∈ out := by
      rcases h with h | h
      · exact h
      · exact absurd hxV h
    have := ih (fun z hz => hst z (List.mem_cons_of_mem _ hz)) hout hnd
      (fun z hz y hy => by
        rcases hclo z hz y hy with h' | h'
        · exact Or.inl h'
        · rcases List.mem_cons.mp h' with h'' | h''
          · subst h''; exact Or.inl hxo
          · exact Or.inr h'')
    refine ⟨this.1, this.2.1, this.2.2.1, ?_, this.2.2.2.2⟩
    intro z hz
    rcases List.mem_cons.mp hz with hz | hz
    · subst hz; exact this.2.2.1 _ hxo
    · exact this.2.2.2.1 z hz
  | case3 x st out h ih =>
    intro hst hout hnd hclo
    rw [dfsLoop, dif_neg h]
    have hx : Reach nb start x := hst x (by simp)
    have hxo : x ∉ out := fun hc => h (Or.inl hc)
    have := ih
      (fun z hz => by
        rcases List.mem_append.mp hz with hz | hz
        · exact Reach.step hx (List.mem_reverse.mp hz)
        · exact hst z (List.mem_cons_of_mem _ hz))
      (fun z hz => by
        rcases List.mem_cons.mp hz with hz | hz
        · subst hz; exact hx
        · exact hout z hz)
      (List.nodup_cons.mpr ⟨hxo, hnd⟩)
      (fun z hz y hy => by
        rcases List.mem_cons.mp hz with hz | hz
        · subst hz; exact Or.inr (List.mem_append_left _ (List.mem_reverse.mpr hy))
        · rcases hclo z hz y hy with h' | h'
          · exact Or.inl (List.mem_cons_of_mem _ h')
          · rcases List.mem_cons.mp h' with h'' | h''
            · subst h''; exact Or.inl (by simp)
            · exact Or.inr (List.mem_append_right _ h''))
    refine ⟨this.1, this.2.1, fun z hz => this.2.2.1 z (List.mem_cons_of_mem _ hz), ?_, this.2.2.2.2.1, ?_⟩
    · intro z hz
      rcases List.mem_cons.mp hz with hz | hz
      · subst hz; exact this.2.2.1 _ (by simp)
      · exact this.2.2.2.1 z (List.mem_append_right _ hz)
    · obtain ⟨pre, hpre⟩ := this.2.2.2.2.2
      exact ⟨pre ++ [x], by rw [hpre]; simp⟩

theorem dfsLoop_exact (nb : V → List V) (Vs : List V) (hcl : ∀ a ∈ Vs, ∀ b ∈ nb a, b ∈ Vs)
    (start : V) (hsV : start ∈ Vs) :
    (dfsLoop nb Vs [start] []).Nodup ∧ (∀ b, b ∈ dfsLoop nb Vs [start] [] ↔ Reach nb start b) ∧
    (∃ pre, dfsLoop nb Vs [start] [] = pre ++ [start]) := by
  have hstep : dfsLoop nb Vs [start] [] = dfsLoop nb Vs ((nb start).reverse ++ []) [start] := by
    rw [dfsLoop, dif_neg (by simp [hsV])]
  have h := dfsLoop_inv nb Vs hcl start hsV [start] []
    (by intro x hx; simp at hx; subst hx; exact Reach.refl _) (by simp) (by simp) (by simp)
  have h2 := dfsLoop_inv nb Vs hcl start hsV ((nb start).reverse ++ []) [start]
    (by intro x hx; simp at hx; exact Reach.single hx)
    (by intro x hx; simp at hx; subst hx; exact Reach.refl _) (by simp)
    (by intro a ha b hb; simp at ha; subst ha; right; simpa using hb)
  refine ⟨h.1, ?_, ?_⟩
  · intro b
    constructor
    · exact h.2.1 b
    · intro hr
      exact Reach.mem h.2.2.2.2.1 hr (h.2.2.2.1 start (by simp))
  · rw [hstep]; exact h2.2.2.2.2.2

/-! ## the graph without one node -/

theorem nbWithout_mem {nb : V → List V} {x a b : V} :
    b ∈ nbWithout nb x a ↔ a ≠ x ∧ b ∈ nb a ∧ b ≠ x := by
  unfold nbWithout
  by_cases h : a = x
  · simp [h]
  · simp [h]

theorem nbWithout_undirected {nb : V → List V} {Vs : List V} (hu : Undirected nb Vs) (x : V) :
    Undirected (nbWithout nb x) (Vs.filter (· != x)) where
  symm := by
    intro a b hb
    obtain ⟨h1, h2, h3⟩ := nbWithout_mem.mp hb
    exact nbWithout_mem.mpr ⟨h3, hu.symm a b h2, h1⟩
  closed := by
    intro a ha b hb
    obtain ⟨_, h2, h3⟩ := nbWithout_mem.mp hb
    have haV : a ∈ Vs := (List.mem_filter.mp ha).1
    exact List.mem_filter.mpr ⟨hu.closed a haV b h2, by simpa using h3⟩
  outside := by
    intro a ha
    apply List.eq_nil_iff_forall_not_mem.mpr
    intro b hb
    obtain ⟨h1, h2, _⟩ := nbWithout_mem.mp hb
    apply ha
    refine List.mem_filter.mpr ⟨?_, by simpa using h1⟩
    apply Decidable.byContradiction
    intro hn
    rw [hu.outside a hn] at h2
    simp at h2

end Gaftools.Proofs.Algo
