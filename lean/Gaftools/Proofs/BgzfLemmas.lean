import Gaftools.Model.Bgzf
/-!
# Lemmas on the byte-level model of plain / BGZF files (for `Props/C17b.lean`)
-/
namespace Gaftools.Bgzf

/-! ### virtual offsets -/

theorem voff_eq (a u : Nat) (hu : u < 65536) : voff a u = a * 65536 + u := by
  unfold voff
  have h : u < 2 ^ 16 := by omega
  rw [← Nat.shiftLeft_add_eq_or_of_lt h, Nat.shiftLeft_eq]

theorem voff_shift (a u : Nat) (hu : u < 65536) : voff a u >>> 16 = a := by
  rw [voff_eq a u hu, Nat.shiftRight_eq_div_pow]
  have : (2 : Nat) ^ 16 = 65536 := by decide
  omega

theorem voff_mask (a u : Nat) (hu : u < 65536) : voff a u &&& 65535 = u := by
  rw [voff_eq a u hu]
  have h : (65535 : Nat) = 2 ^ 16 - 1 := by decide
  rw [h, Nat.and_two_pow_sub_one_eq_mod]
  have : (2 : Nat) ^ 16 = 65536 := by decide
  omega

theorem voff_lt_iff (a₁ u₁ a₂ u₂ : Nat) (h₁ : u₁ < 65536) (h₂ : u₂ < 65536) :
    voff a₁ u₁ < voff a₂ u₂ ↔ (a₁ < a₂ ∨ (a₁ = a₂ ∧ u₁ < u₂)) := by
  rw [voff_eq a₁ u₁ h₁, voff_eq a₂ u₂ h₂]
  omega

/-! ### lines -/

theorem takeLine_append (r rest : List Byte) (h : nl ∉ r) : takeLine (r ++ nl :: rest) = r ++ [nl] := by
  induction r with
  | nil => simp [takeLine]
  | cons b t ih =>
    have hb : b ≠ nl := fun e => h (by simp [e])
    have ht : nl ∉ t := fun e => h (by simp [e])
    simp [takeLine, hb, ih ht]

theorem fileOf_cons (r : List Byte) (rs : List (List Byte)) : fileOf (r :: rs) = r ++ nl :: fileOf rs := by
  simp [fileOf]

theorem plainOff_zero (recs : List (List Byte)) : plainOff recs 0 = 0 := by simp [plainOff]

theorem plainOff_succ (r : List Byte) (rs : List (List Byte)) (i : Nat) :
    plainOff (r :: rs) (i + 1) = (r.length + 1) + plainOff rs i := by
  simp [plainOff]

theorem drop_fileOf (recs : List (List Byte)) (i : Nat) :
    (fileOf recs).drop (plainOff recs i) = fileOf (recs.drop i) := by
  induction recs generalizing i with
  | nil => simp [fileOf, plainOff]
  | cons r rs ih =>
    cases i with
    | zero => simp [plainOff_zero]
    | succ i =>
      rw [plainOff_succ, fileOf_cons, List.drop_succ_cons, ← ih i]
      have : r ++ nl :: fileOf rs = (r ++ [nl]) ++ fileOf rs := by simp
      rw [this]
      have hl : r.length + 1 = (r ++ [nl]).length := by simp
      rw [hl, List.drop_length_add_append]

/-! ### well-formed layouts -/

theorem wf_tail (b : Nat × List Byte) (t : Layout) (h : WF (b :: t) = true) : WF t = true := by
  cases t with
  | nil => rfl
  | cons c t => simp [WF] at h; exact h.2

theorem wf_head_len (b : Nat × List Byte) (t : Layout) (h : WF (b :: t) = true) : b.2.length < 65536 := by
  cases t with
  | nil => simpa [WF] using h
  | cons c t => simp [WF] at h; exact h.1.1

theorem wf_head_lt (b : Nat × List Byte) (t : Layout) (h : WF (b :: t) = true) : ∀ x ∈ t, b.1 < x.1 := by
  induction t generalizing b with
  | nil => intro x hx; cases hx
  | cons c t ih =>
    have hbc : b.1 < c.1 := by simp [WF] at h; exact h.1.2
    have hct : WF (c :: t) = true := wf_tail b _ h
    intro x hx
    rcases List.mem_cons.mp hx with e | hx
    · subst e; exact hbc
    · exact Nat.lt_trans hbc (ih c hct x hx)

theorem wf_len (L : Layout) (h : WF L = true) : ∀ b ∈ L, b.2.length < 65536 := by
  induction L with
  | nil => intro b hb; cases hb
  | cons c t ih =>
    intro b hb
    rcases List.mem_cons.mp hb with e | hb
    · subst e; exact wf_head_len _ _ h
    · exact ih (wf_tail _ _ h) b hb

theorem wf_pairwise (L : Layout) (h : WF L = true) : L.Pairwise (fun a b => a.1 < b.1) := by
  induction L with
  | nil => exact List.Pairwise.nil
  | cons c t ih => exact List.pairwise_cons.mpr ⟨wf_head_lt c t h, ih (wf_tail _ _ h)⟩

theorem wf_addr_lt (L : Layout) (h : WF L = true) (k₁ k₂ : Nat) (h₁ : k₁ < L.length) (h₂ : k₂ < L.length)
    (hlt : k₁ < k₂) : (L[k₁]).1 < (L[k₂]).1 :=
  List.pairwise_iff_getElem.mp (wf_pairwise L h) k₁ k₂ h₁ h₂ hlt

/-! ### block starts -/

theorem blockStart_zero (L : Layout) : blockStart L 0 = 0 := by simp [blockStart]

theorem blockStart_cons_succ (b : Nat × List Byte) (t : Layout) (k : Nat) :
    blockStart (b :: t) (k + 1) = b.2.length + blockStart t k := by
  simp [blockStart]

theorem blockStart_succ (L : Layout) (k : Nat) (hk : k < L.length) :
    blockStart L (k + 1) = blockStart L k + (L[k]).2.length := by
  induction L generalizing k with
  | nil => cases hk
  | cons b t ih =>
    cases k with
    | zero => simp [blockStart]
    | succ k =>
      have hk' : k < t.length := by simpa using hk
      rw [blockStart_cons_succ, blockStart_cons_succ, ih k hk']
      simp only [List.getElem_cons_succ]
      omega

theorem blockStart_end_le (L : Layout) (k₁ k₂ : Nat) (h₂ : k₂ < L.length) (hlt : k₁ < k₂) :
    blockStart L k₁ + (L[k₁]'(by omega)).2.length ≤ blockStart L k₂ := by
  induction k₂ with
  | zero => cases hlt
  | succ k ih =>
    have hk : k < L.length := by omega
    rw [blockStart_succ L k hk]
    rcases Nat.lt_or_eq_of_le (Nat.le_of_lt_succ hlt) with h | h
    · have := ih hk h; omega
    · subst h; exact Nat.le_refl _

/-! ### resolution -/

theorem resolveGo_spec (L : Layout) (hw : WF L = true) (before k : Nat) (hk : k < L.length) (u : Nat)
    (hu : u ≤ (L[k]).2.length) : resolveGo L before (L[k]).1 u = some (before + blockStart L k + u) := by
  induction L generalizing before k with
  | nil => cases hk
  | cons b t ih =>
    cases k with
    | zero =>
      simp only [List.getElem_cons_zero] at hu ⊢
      simp [resolveGo, hu, blockStart_zero]
    | succ k =>
      have hk' : k < t.length := by simpa using hk
      simp only [List.getElem_cons_succ] at hu ⊢
      have hne : b.1 ≠ (t[k]).1 := Nat.ne_of_lt (wf_head_lt b t hw _ (List.getElem_mem hk'))
      have hbeq : (b.1 == (t[k]).1) = false := by simpa using hne
      rw [resolveGo, hbeq]
      simp only [Bool.false_eq_true, if_false]
      rw [ih (wf_tail _ _ hw) (before + b.2.length) k hk' hu, blockStart_cons_succ]
      congr 1
      omega

end Gaftools.Bgzf
