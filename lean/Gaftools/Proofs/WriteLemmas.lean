import Gaftools.Proofs.HistLemmas
/-!
# Lemmas for `writeGfa` after `readGraph` (C07)

* `edgeTags_readGraph`   — the `edge_tags` dict after reading = one slot per declared link, in file order
* `edgeTagsGet_readGraph`— lookup of a key
* `nodup_adj_readGraph`  — adjacency sets are duplicate-free
* `nodes_readGraph`      — the nodes (id, sequence, tags) after reading
* `write_links_gen`      — the L lines written for a duplicate-free node order
-/
namespace Gaftools.Proofs.Write
open Gaftools.Gfa Gaftools.Proofs.Gfa Gaftools.Proofs.Hist

/-! ## generic list facts -/

theorem inj_of_nodup_map {α β} (f : α → β) {l : List α} (h : (l.map f).Nodup) {a b : α}
    (ha : a ∈ l) (hb : b ∈ l) (hab : f a = f b) : a = b := by
  induction l with
  | nil => cases ha
  | cons x xs ih =>
    rw [List.map_cons, List.nodup_cons] at h
    rcases List.mem_cons.1 ha with rfl | ha'
    · rcases List.mem_cons.1 hb with rfl | hb'
      · rfl
      · exact absurd (hab ▸ List.mem_map.2 ⟨b, hb', rfl⟩) h.1
    · rcases List.mem_cons.1 hb with rfl | hb'
      · exact absurd (hab ▸ List.mem_map.2 ⟨a, ha', rfl⟩) h.1
      · exact ih h.2 ha' hb'

theorem filterMap_eq_self {α} (f : α → Option α) (l : List α) (h : ∀ a ∈ l, f a = some a) :
    l.filterMap f = l := by
  induction l with
  | nil => rfl
  | cons a l ih =>
    rw [List.filterMap_cons, h a List.mem_cons_self, ih (fun b hb => h b (List.mem_cons_of_mem _ hb))]

theorem any_id_iff (segs : List SegLine) (x : String) :
    segs.any (·.id == x) = true ↔ x ∈ segs.map (·.id) := by
  rw [List.any_eq_true, List.mem_map]
  constructor
  · rintro ⟨s, hs, h⟩; exact ⟨s, hs, by simpa using h⟩
  · rintro ⟨s, hs, h⟩; exact ⟨s, hs, by simpa using h⟩

theorem nodup_setInsert {α} [BEq α] [LawfulBEq α] (x : α) (l : List α) (h : l.Nodup) : (setInsert x l).Nodup := by
  unfold setInsert
  split
  · exact h
  · rename_i hx
    have hx : x ∉ l := by simpa using hx
    rw [List.nodup_append]
    refine ⟨h, by simp, ?_⟩
    intro a ha b hb
    have : b = x := by simpa using hb
    subst this
    intro hab; subst hab; exact hx ha

/-! ## edge tags -/

/-- the `edge_tags` key of a link -/
def ekey (l : LinkLine) : EdgeKey := (l.a, l.da, l.b, !l.db)

/-- the links the reader keeps -/
def decl (t : GfaFile) : List LinkLine :=
  t.links.filter (fun l => t.segs.any (·.id == l.a) && t.segs.any (·.id == l.b))

theorem mem_decl (t : GfaFile) (l : LinkLine) :
    l ∈ decl t ↔ l ∈ t.links ∧ l.a ∈ t.segs.map (·.id) ∧ l.b ∈ t.segs.map (·.id) := by
  unfold decl
  rw [List.mem_filter, Bool.and_eq_true, any_id_iff, any_id_iff]

theorem edgeTagSet_new (d : List (EdgeKey × List String)) (k : EdgeKey) (v : List String)
    (h : ∀ e ∈ d, e.1 ≠ k) : edgeTagSet d k v = d ++ [(k, v)] := by
  unfold edgeTagSet
  rw [if_neg]
  simp only [List.any_eq_true, beq_iff_eq, not_exists, not_and]
  exact h

theorem edgeTags_addEdge (g : Graph) (l : LinkLine) :
    (addEdge g l).edgeTags = edgeTagSet g.edgeTags (ekey l) l.tags := rfl

theorem edgeTags_foldl_linkStep (ls : List LinkLine) (g : Graph)
    (hnew : ∀ l ∈ ls, ∀ e ∈ g.edgeTags, e.1 ≠ ekey l) (hnd : (ls.map ekey).Nodup) :
    (ls.foldl linkStep g).edgeTags =
      g.edgeTags ++ (ls.filter (fun l => g.has l.a && g.has l.b)).map (fun l => (ekey l, l.tags)) := by
  induction ls generalizing g with
  | nil => simp
  | cons l ls ih =>
    rw [List.map_cons, List.nodup_cons] at hnd
    have hh : ∀ id, (linkStep g l).has id = g.has id := has_congr (ids_linkStep g l)
    have hstep : (linkStep g l).edgeTags =
        g.edgeTags ++ (if g.has l.a && g.has l.b then [(ekey l, l.tags)] else []) := by
      unfold linkStep
      split
      · rw [edgeTags_addEdge, edgeTagSet_new]
        exact hnew l (List.mem_cons_self)
      · simp
    rw [List.foldl_cons, ih _ _ hnd.2]
    · simp only [hh, hstep, List.filter_cons]
      split <;> simp
    · intro l' hl' e he
      rw [hstep, List.mem_append] at he
      rcases he with he | he
      · exact hnew l' (List.mem_cons_of_mem _ hl') e he
      · split at he
        · have : e = (ekey l, l.tags) := by simpa using he
          subst this
          intro heq
          have heq : ekey l = ekey l' := heq
          exact hnd.1 (heq ▸ List.mem_map.2 ⟨l', hl', rfl⟩)
        · cases he

theorem edgeTags_addNode (g : Graph) (s : SegLine) (lm : Bool) : (addNode g s lm).edgeTags = g.edgeTags := by
  unfold addNode; split <;> rfl

theorem edgeTags_segGraph (t : GfaFile) (lm : Bool) : (segGraph t lm).edgeTags = [] := by
  unfold segGraph
  suffices H : ∀ (segs : List SegLine) (g : Graph), g.edgeTags = [] →
      (segs.foldl (fun g s => addNode g s lm) g).edgeTags = [] from H t.segs Graph.empty rfl
  intro segs
  induction segs with
  | nil => intro g h; exact h
  | cons s segs ih => intro g h; exact ih _ (by rw [edgeTags_addNode, h])

theorem edgeTags_readGraph (t : GfaFile) (lm : Bool) (hnd : (t.links.map ekey).Nodup) :
    (readGraph t lm).edgeTags = (decl t).map (fun l => (ekey l, l.tags)) := by
  rw [readGraph_eq, edgeTags_foldl_linkStep _ _ _ hnd, edgeTags_segGraph]
  · simp only [has_segGraph, List.nil_append]; rfl
  · intro l _ e he; rw [edgeTags_segGraph] at he; cases he

theorem nodup_ekey_of_nodup_key (ls : List LinkLine)
    (h : (ls.map (fun l => (l.a, l.da, l.b, l.db))).Nodup) : (ls.map ekey).Nodup := by
  rw [List.Nodup, List.pairwise_map] at h ⊢
  refine h.imp ?_
  intro a b hab heq
  apply hab
  simp only [ekey, Prod.mk.injEq] at heq ⊢
  exact ⟨heq.1, heq.2.1, heq.2.2.1, Bool.not_inj heq.2.2.2⟩

theorem edgeTagsGet_readGraph (t : GfaFile) (lm : Bool) (hnd : (t.links.map ekey).Nodup)
    (k : EdgeKey) (v : List String) :
    edgeTagsGet (readGraph t lm) k = some v ↔ ∃ l ∈ decl t, ekey l = k ∧ v = l.tags := by
  unfold edgeTagsGet
  rw [edgeTags_readGraph t lm hnd]
  constructor
  · intro h
    cases hf : List.find? (·.1 == k) ((decl t).map (fun l => (ekey l, l.tags))) with
    | none => rw [hf] at h; cases h
    | some p =>
      rw [hf] at h
      have hv : p.2 = v := by simpa using h
      have hp := List.find?_some hf
      have hm := List.mem_of_find?_eq_some hf
      rcases List.mem_map.1 hm with ⟨l, hl, rfl⟩
      exact ⟨l, hl, by simpa using hp, hv.symm⟩
  · rintro ⟨l, hl, rfl, rfl⟩
    cases hf : List.find? (·.1 == ekey l) ((decl t).map (fun l => (ekey l, l.tags))) with
    | none =>
      rw [List.find?_eq_none] at hf
      exact absurd (by simp) (hf _ (List.mem_map.2 ⟨l, hl, rfl⟩))
    | some p =>
      have hp := List.find?_some hf
      have hm := List.mem_of_find?_eq_some hf
      rcases List.mem_map.1 hm with ⟨l', hl', rfl⟩
      have hk : ekey l' = ekey l := by simpa using hp
      have : l' = l :=
        inj_of_nodup_map ekey hnd (List.mem_filter.1 hl').1 (List.mem_filter.1 hl).1 hk
      subst this
      rfl

/-! ## adjacency sets are duplicate-free -/

def AdjNodup (g : Graph) : Prop := ∀ n ∈ g.nodes, n.startAdj.Nodup ∧ n.endAdj.Nodup

theorem adjNodup_updNode {n : Node} (h : n.startAdj.Nodup ∧ n.endAdj.Nodup) (id : String) (side : Bool) (e : Adj) :
    (updNode id side e n).startAdj.Nodup ∧ (updNode id side e n).endAdj.Nodup := by
  unfold Gaftools.Proofs.Gfa.updNode
  split
  · split
    · exact ⟨h.1, nodup_setInsert _ _ h.2⟩
    · exact ⟨nodup_setInsert _ _ h.1, h.2⟩
  · exact h

theorem adjNodup_addEdge {g : Graph} (h : AdjNodup g) (l : LinkLine) : AdjNodup (addEdge g l) := by
  intro n hn
  simp only [Gaftools.Gfa.addEdge, eDir, addAdj_eq_map, List.mem_map] at hn
  rcases hn with ⟨n1, ⟨n0, hn0, rfl⟩, rfl⟩
  exact adjNodup_updNode (adjNodup_updNode (h n0 hn0) _ _ _) _ _ _

theorem adjNodup_linkStep {g : Graph} (h : AdjNodup g) (l : LinkLine) : AdjNodup (linkStep g l) := by
  unfold Gaftools.Proofs.Gfa.linkStep; split
  · exact adjNodup_addEdge h l
  · exact h

theorem adjNodup_foldl_linkStep (ls : List LinkLine) {g : Graph} (h : AdjNodup g) : AdjNodup (ls.foldl linkStep g) := by
  induction ls generalizing g with
  | nil => exact h
  | cons l ls ih => exact ih (adjNodup_linkStep h l)

theorem adjNodup_addNode {g : Graph} (h : AdjNodup g) (s : SegLine) (lm : Bool) : AdjNodup (addNode g s lm) := by
  unfold Gaftools.Gfa.addNode; split
  · exact h
  · intro n hn
    rcases List.mem_append.1 hn with hn | hn
    · exact h n hn
    · rw [List.mem_singleton] at hn
      subst hn
      exact ⟨List.nodup_nil, List.nodup_nil⟩

theorem adjNodup_segGraph (t : GfaFile) (lm : Bool) : AdjNodup (segGraph t lm) := by
  unfold Gaftools.Proofs.Gfa.segGraph
  suffices H : ∀ (segs : List SegLine) (g : Graph), AdjNodup g →
      AdjNodup (segs.foldl (fun g s => Gaftools.Gfa.addNode g s lm) g) from
    H t.segs Graph.empty (fun _ hn => by cases hn)
  intro segs
  induction segs with
  | nil => intro g h; exact h
  | cons s segs ih => intro g h; exact ih _ (adjNodup_addNode h s lm)

theorem adjNodup_readGraph (t : GfaFile) (lm : Bool) : AdjNodup (readGraph t lm) := by
  rw [readGraph_eq]; exact adjNodup_foldl_linkStep _ (adjNodup_segGraph t lm)

theorem mem_nodes_of_find {g : Graph} {id : String} {n : Node} (h : g.find id = some n) : n ∈ g.nodes :=
  List.mem_of_find?_eq_some h

theorem nodup_adj_of_find {g : Graph} (hg : AdjNodup g) {id : String} {n : Node} (h : g.find id = some n)
    (s : Bool) : (Node.adj n s).Nodup := by
  have := hg n (mem_nodes_of_find h)
  unfold Node.adj; cases s
  · exact this.1
  · exact this.2

theorem mem_adj_of_find {g : Graph} {id : String} {n : Node} (h : g.find id = some n) (s : Bool) (e : Adj) :
    e ∈ g.adj id s ↔ e ∈ Node.adj n s := by
  rw [adj_eq, h]

/-! ## tags dict -/

def names (d : List Tag) : List String := d.map (·.name)

theorem names_tagSet (d : List Tag) (t : Tag) :
    names (tagSet d t) = if d.any (·.name == t.name) then names d else names d ++ [t.name] := by
  unfold tagSet names
  split
  · rw [List.map_map]
    apply List.map_congr_left
    intro e _
    simp only [Function.comp]
    split
    · rename_i h; exact (by simpa using h : e.name = t.name).symm
    · rfl
  · simp

theorem nodup_names_tagSet (d : List Tag) (t : Tag) (h : (names d).Nodup) : (names (tagSet d t)).Nodup := by
  rw [names_tagSet]
  split
  · exact h
  · rename_i hn
    rw [List.nodup_append]
    refine ⟨h, by simp, ?_⟩
    intro a ha b hb hab
    have hb : b = t.name := by simpa using hb
    subst hab hb
    apply hn
    unfold names at ha
    rcases List.mem_map.1 ha with ⟨e, he, hee⟩
    exact List.any_eq_true.2 ⟨e, he, by simpa using hee⟩

theorem nodup_names_foldl (l d : List Tag) (h : (names d).Nodup) : (names (l.foldl tagSet d)).Nodup := by
  induction l generalizing d with
  | nil => exact h
  | cons t l ih => exact ih _ (nodup_names_tagSet d t h)

theorem foldl_tagSet_of_nodup (l d : List Tag) (h : (names (d ++ l)).Nodup) : l.foldl tagSet d = d ++ l := by
  induction l generalizing d with
  | nil => simp
  | cons t l ih =>
    have hnot : ¬ (d.any (·.name == t.name) = true) := by
      intro hany
      rcases List.any_eq_true.1 hany with ⟨e, he, hee⟩
      have hee : e.name = t.name := by simpa using hee
      unfold names at h
      rw [List.map_append, List.nodup_append] at h
      exact h.2.2 e.name (List.mem_map.2 ⟨e, he, rfl⟩) t.name (by simp) hee
    have hts : tagSet d t = d ++ [t] := by unfold tagSet; rw [if_neg hnot]
    rw [List.foldl_cons, hts, ih]
    · simp
    · simpa using h

theorem foldl_tagSet_idem (l : List Tag) : (l.foldl tagSet []).foldl tagSet [] = l.foldl tagSet [] := by
  have h := nodup_names_foldl l [] (by simp [names])
  rw [foldl_tagSet_of_nodup _ [] (by simpa using h)]
  simp

/-! ## the nodes after reading -/

/-- the part of a node the links do not touch -/
def core (n : Node) : String × String × List Tag := (n.id, n.seq, n.tags)

theorem core_updNode (id : String) (side : Bool) (e : Adj) (n : Node) : core (updNode id side e n) = core n := by
  unfold Gaftools.Proofs.Gfa.updNode; split
  · split <;> rfl
  · rfl

theorem core_addEdge (g : Graph) (l : LinkLine) : (addEdge g l).nodes.map core = g.nodes.map core := by
  simp only [addEdge, eDir, addAdj_eq_map, List.map_map]
  apply List.map_congr_left
  intro n _
  simp [Function.comp, core_updNode]

theorem core_linkStep (g : Graph) (l : LinkLine) : (linkStep g l).nodes.map core = g.nodes.map core := by
  unfold linkStep; split
  · exact core_addEdge g l
  · rfl

theorem core_foldl_linkStep (ls : List LinkLine) (g : Graph) :
    (ls.foldl linkStep g).nodes.map core = g.nodes.map core := by
  induction ls generalizing g with
  | nil => rfl
  | cons l ls ih => rw [List.foldl_cons, ih, core_linkStep]

def mkNode (lm : Bool) (s : SegLine) : Node := ⟨s.id, if lm then "" else s.seq, [], [], s.tags.foldl tagSet []⟩

theorem nodes_foldl_addNode (segs : List SegLine) (lm : Bool) (g : Graph)
    (h : (ids g ++ segs.map (·.id)).Nodup) :
    (segs.foldl (fun g s => addNode g s lm) g).nodes = g.nodes ++ segs.map (mkNode lm) := by
  induction segs generalizing g with
  | nil => simp
  | cons s segs ih =>
    have hnot : g.has s.id = false := by
      rw [Bool.eq_false_iff]
      intro hh
      rw [has_iff_mem] at hh
      rw [List.nodup_append] at h
      exact h.2.2 _ hh _ (by simp) rfl
    have hn : (addNode g s lm).nodes = g.nodes ++ [mkNode lm s] := by
      unfold addNode; rw [hnot]; rfl
    have hids : ids (addNode g s lm) = ids g ++ [s.id] := by rw [ids_addNode, hnot]; simp
    rw [List.foldl_cons, ih]
    · rw [hn]; simp
    · rw [hids]; simpa using h

theorem nodes_segGraph (t : GfaFile) (lm : Bool) (h : (t.segs.map (·.id)).Nodup) :
    (segGraph t lm).nodes = t.segs.map (mkNode lm) := by
  unfold segGraph
  rw [nodes_foldl_addNode]
  · simp [Graph.empty]
  · simpa [ids, Graph.empty] using h

theorem core_readGraph (t : GfaFile) (lm : Bool) (h : (t.segs.map (·.id)).Nodup) :
    (readGraph t lm).nodes.map core =
      t.segs.map (fun s => (s.id, (if lm then "" else s.seq), s.tags.foldl tagSet [])) := by
  rw [readGraph_eq, core_foldl_linkStep, nodes_segGraph t lm h, List.map_map]
  rfl

theorem ids_readGraph (t : GfaFile) (lm : Bool) (h : (t.segs.map (·.id)).Nodup) :
    ids (readGraph t lm) = t.segs.map (·.id) := by
  have := congrArg (List.map (·.1)) (core_readGraph t lm h)
  rw [List.map_map, List.map_map] at this
  exact this

/-- with unique ids, looking up every id in order lists the nodes -/
theorem filterMap_find_ids (g : Graph) (h : (ids g).Nodup) : (ids g).filterMap g.find = g.nodes := by
  unfold ids at h ⊢
  rw [List.filterMap_map]
  have : ∀ n ∈ g.nodes, (g.find ∘ (·.id)) n = some n := by
    intro n hn
    simp only [Function.comp, Graph.find]
    cases hf : g.nodes.find? (·.id == n.id) with
    | none =>
      rw [List.find?_eq_none] at hf
      exact absurd (by simp) (hf n hn)
    | some m =>
      have hm := List.mem_of_find?_eq_some hf
      have hid : m.id = n.id := by simpa using List.find?_some hf
      rw [inj_of_nodup_map (·.id) h hm hn hid]
  exact filterMap_eq_self _ _ this

/-! ## `writeGfa` -/

/-- the L line written for one adjacency entry, if its `edge_tags` key exists -/
def emit (g : Graph) (inSet : String → Bool) (id : String) (s : Bool) (e : Adj) : Option LinkLine :=
  if inSet e.1 then (edgeTagsGet g (id, s, e.1, e.2.1)).map (fun tags => ⟨id, s, e.1, !e.2.1, e.2.2, tags⟩) else none

theorem linkLinesOf_eq (g : Graph) (inSet : String → Bool) (n : Node) :
    linkLinesOf g inSet n =
      n.startAdj.filterMap (emit g inSet n.id false) ++ n.endAdj.filterMap (emit g inSet n.id true) := rfl

theorem emit_eq_some (g : Graph) (inSet : String → Bool) (id : String) (s : Bool) (e : Adj) (x : LinkLine) :
    emit g inSet id s e = some x ↔
      inSet e.1 = true ∧ ∃ tags, edgeTagsGet g (id, s, e.1, e.2.1) = some tags ∧
        x = ⟨id, s, e.1, !e.2.1, e.2.2, tags⟩ := by
  unfold emit
  split
  · rename_i hin
    rw [Option.map_eq_some_iff]
    simp only [hin, true_and, eq_comm]
  · rename_i hin
    simp [hin]

theorem emit_inj {g : Graph} {inSet : String → Bool} {id : String} {s : Bool} {e e' : Adj} {x : LinkLine}
    (h : emit g inSet id s e = some x) (h' : emit g inSet id s e' = some x) : e = e' := by
  rw [emit_eq_some] at h h'
  rcases h with ⟨_, tags, _, rfl⟩
  rcases h' with ⟨_, tags', _, h'⟩
  simp only [LinkLine.mk.injEq, true_and] at h'
  rcases e with ⟨e1, e2, e3⟩
  rcases e' with ⟨f1, f2, f3⟩
  simp only at h'
  rw [h'.1, Bool.not_inj h'.2.1, h'.2.2.1]

theorem mem_linkLinesOf (g : Graph) (inSet : String → Bool) (n : Node) (x : LinkLine) :
    x ∈ linkLinesOf g inSet n ↔ ∃ s, ∃ e ∈ Node.adj n s, emit g inSet n.id s e = some x := by
  rw [linkLinesOf_eq, List.mem_append, List.mem_filterMap, List.mem_filterMap]
  constructor
  · rintro (⟨e, he, h⟩ | ⟨e, he, h⟩)
    · exact ⟨false, e, he, h⟩
    · exact ⟨true, e, he, h⟩
  · rintro ⟨s, e, he, h⟩
    cases s
    · exact Or.inl ⟨e, he, h⟩
    · exact Or.inr ⟨e, he, h⟩

theorem linkLinesOf_a {g : Graph} {inSet : String → Bool} {n : Node} {x : LinkLine}
    (h : x ∈ linkLinesOf g inSet n) : x.a = n.id := by
  rw [mem_linkLinesOf] at h
  rcases h with ⟨s, e, _, h⟩
  rw [emit_eq_some] at h
  rcases h with ⟨_, tags, _, rfl⟩
  rfl

theorem nodup_linkLinesOf (g : Graph) (inSet : String → Bool) (n : Node)
    (hs : n.startAdj.Nodup) (he : n.endAdj.Nodup) : (linkLinesOf g inSet n).Nodup := by
  rw [linkLinesOf_eq, List.nodup_append]
  refine ⟨?_, ?_, ?_⟩
  · refine List.Pairwise.filterMap _ ?_ hs
    intro a a' hne b hb b' hb' hbb
    subst hbb
    exact hne (emit_inj hb hb')
  · refine List.Pairwise.filterMap _ ?_ he
    intro a a' hne b hb b' hb' hbb
    subst hbb
    exact hne (emit_inj hb hb')
  · intro x hx y hy hxy
    subst hxy
    rcases List.mem_filterMap.1 hx with ⟨e, _, h⟩
    rcases List.mem_filterMap.1 hy with ⟨e', _, h'⟩
    rw [emit_eq_some] at h h'
    rcases h with ⟨_, tags, _, rfl⟩
    rcases h' with ⟨_, tags', _, h'⟩
    simp at h'

theorem mem_write_links (g : Graph) (order : List String) (x : LinkLine) :
    x ∈ (writeGfa g order).links ↔
      ∃ id ∈ order, ∃ n, g.find id = some n ∧ ∃ s, ∃ e ∈ g.adj id s,
        emit g (fun id => order.contains id) id s e = some x := by
  unfold writeGfa
  simp only [List.mem_flatMap, List.mem_filterMap, mem_linkLinesOf]
  constructor
  · rintro ⟨n, ⟨id, hid, hf⟩, s, e, he, h⟩
    have hnid := find_id hf
    exact ⟨id, hid, n, hf, s, e, (mem_adj_of_find hf s e).2 he, hnid ▸ h⟩
  · rintro ⟨id, hid, n, hf, s, e, he, h⟩
    have hnid := find_id hf
    exact ⟨n, ⟨id, hid, hf⟩, s, e, (mem_adj_of_find hf s e).1 he, hnid.symm ▸ h⟩

theorem nodup_write_links (g : Graph) (hg : AdjNodup g) (order : List String) (ho : order.Nodup) :
    (writeGfa g order).links.Nodup := by
  unfold writeGfa
  simp only
  rw [List.Nodup, List.pairwise_flatMap]
  constructor
  · intro n hn
    rcases List.mem_filterMap.1 hn with ⟨id, _, hf⟩
    have := hg n (mem_nodes_of_find hf)
    exact nodup_linkLinesOf g _ n this.1 this.2
  · rw [List.pairwise_filterMap]
    refine List.Pairwise.imp ?_ ho
    intro a a' hne n hn n' hn' x hx y hy hxy
    apply hne
    rw [← find_id hn, ← find_id hn', ← linkLinesOf_a hx, ← linkLinesOf_a hy, hxy]

/-- the heart of C07: an adjacency entry whose `edge_tags` key exists was contributed by the link owning the key -/
theorem emitted_eq (t : GfaFile)
    (hkeys : (t.links.map (fun l => (l.a, l.da, l.b, l.db))).Nodup)
    (hmirror : ∀ l ∈ t.links, ∀ m ∈ t.links, (m.a, m.da, m.b, m.db) = (l.b, !l.db, l.a, !l.da) → m = l)
    {l l' : LinkLine} (hl : l ∈ t.links) (hl' : l' ∈ t.links) {id : String} {s : Bool} {e : Adj}
    (hc : Contrib l' id s e) (hk : ekey l = (id, s, e.1, e.2.1)) :
    (⟨id, s, e.1, !e.2.1, e.2.2, l.tags⟩ : LinkLine) = l := by
  simp only [ekey, Prod.mk.injEq] at hk
  rcases hk with ⟨h1, h2, h3, h4⟩
  rcases hc with ⟨rfl, rfl, rfl⟩ | ⟨rfl, rfl, rfl⟩
  · have : l = l' := by
      refine inj_of_nodup_map _ hkeys hl hl' ?_
      show (l.a, l.da, l.b, l.db) = (l'.a, l'.da, l'.b, l'.db)
      rw [h1, h2, h3, Bool.not_inj h4]
    subst this
    cases l; simp
  · simp only at h3 h4
    have : l = l' := by
      refine hmirror l' hl' l hl ?_
      rw [h1, h2, h3, ← h4, Bool.not_not]
    subst this
    rcases l with ⟨a, da, b, db, ov, tags⟩
    simp only at h1 h2 h3 h4
    subst h1
    simp only [LinkLine.mk.injEq, true_and, and_true]
    rw [h2]; simp

theorem write_links_gen (t : GfaFile)
    (hkeys : (t.links.map (fun l => (l.a, l.da, l.b, l.db))).Nodup)
    (hmirror : ∀ l ∈ t.links, ∀ m ∈ t.links, (m.a, m.da, m.b, m.db) = (l.b, !l.db, l.a, !l.da) → m = l)
    (lm : Bool) (order : List String) (ho : order.Nodup) :
    (writeGfa (readGraph t lm) order).links.Perm
      ((decl t).filter (fun l => order.contains l.a && order.contains l.b)) := by
  have hek := nodup_ekey_of_nodup_key _ hkeys
  have hlinks : t.links.Nodup := by
    have := hkeys
    rw [List.Nodup, List.pairwise_map] at this
    exact this.imp (fun hne heq => hne (by rw [heq]))
  have hnd2 : ((decl t).filter (fun l => order.contains l.a && order.contains l.b)).Nodup :=
    (hlinks.sublist List.filter_sublist).sublist List.filter_sublist
  rw [List.perm_ext_iff_of_nodup (nodup_write_links _ (adjNodup_readGraph t lm) order ho) hnd2]
  intro x
  rw [mem_write_links, List.mem_filter]
  constructor
  · rintro ⟨id, hid, n, hf, s, e, he, h⟩
    rw [emit_eq_some] at h
    rcases h with ⟨hin, tags, ht, rfl⟩
    rw [edgeTagsGet_readGraph t lm hek] at ht
    rcases ht with ⟨l, hl, hk, rfl⟩
    rw [mem_adj_readGraph] at he
    rcases he with ⟨l', hl', _, _, hc⟩
    have hlt : l ∈ t.links := (List.mem_filter.1 hl).1
    rw [emitted_eq t hkeys hmirror hlt hl' hc hk]
    refine ⟨hl, ?_⟩
    simp only [ekey, Prod.mk.injEq] at hk
    rw [hk.1, hk.2.2.1]
    simp only [List.contains_iff_mem, Bool.and_eq_true] at hin ⊢
    exact ⟨hid, hin⟩
  · rintro ⟨hl, hin⟩
    simp only [Bool.and_eq_true] at hin
    have hd := hl
    unfold decl at hd
    rw [List.mem_filter, Bool.and_eq_true] at hd
    have hhas : (readGraph t lm).has x.a = true := by rw [has_readGraph]; exact hd.2.1
    rw [← find_isSome] at hhas
    cases hf : (readGraph t lm).find x.a with
    | none => rw [hf] at hhas; cases hhas
    | some n =>
      refine ⟨x.a, by simpa using hin.1, n, hf, x.da, (x.b, !x.db, x.ov), ?_, ?_⟩
      · rw [mem_adj_readGraph]
        exact ⟨x, hd.1, hd.2.1, hd.2.2, Or.inl ⟨rfl, rfl, rfl⟩⟩
      · rw [emit_eq_some]
        refine ⟨hin.2, x.tags, ?_, ?_⟩
        · rw [edgeTagsGet_readGraph t lm hek]
          exact ⟨x, hl, rfl, rfl⟩
        · cases x; simp

/-! ## reading the written file back -/

theorem read_back (t t' : GfaFile) (hids : (t.segs.map (·.id)).Nodup) (hek : (t.links.map ekey).Nodup)
    (hsegs : t'.segs = (readGraph t false).nodes.map segLineOf) (hperm : t'.links.Perm (decl t)) :
    (readGraph t' false).nodes.map core =
        (readGraph t false).nodes.map (fun n => (n.id, (segLineOf n).seq, n.tags)) ∧
    (∀ id side e, e ∈ (readGraph t' false).adj id side ↔ e ∈ (readGraph t false).adj id side) ∧
    (∀ k v, (k, v) ∈ (readGraph t' false).edgeTags ↔ (k, v) ∈ (readGraph t false).edgeTags) := by
  have hcore := core_readGraph t false hids
  have hidsg := ids_readGraph t false hids
  have hids' : t'.segs.map (·.id) = t.segs.map (·.id) := by
    rw [hsegs, List.map_map, ← hidsg]; rfl
  have hdecl : ∀ l, l ∈ decl t' ↔ l ∈ decl t := by
    intro l
    rw [mem_decl, hids', hperm.mem_iff, mem_decl]
    constructor
    · exact fun h => h.1
    · exact fun h => ⟨h, h.2⟩
  have hek' : (t'.links.map ekey).Nodup :=
    ((hperm.map ekey).nodup_iff).2 (hek.sublist (List.filter_sublist.map ekey))
  refine ⟨?_, ?_, ?_⟩
  · rw [core_readGraph t' false (hids'.symm ▸ hids), hsegs, List.map_map]
    apply List.map_congr_left
    intro n hn
    have hc : core n ∈ (readGraph t false).nodes.map core := List.mem_map.2 ⟨n, hn, rfl⟩
    rw [hcore] at hc
    rcases List.mem_map.1 hc with ⟨s, _, hs⟩
    have htags : n.tags = s.tags.foldl tagSet [] := by
      have := congrArg (fun p => p.2.2) hs
      exact this.symm
    simp only [Function.comp, segLineOf, Bool.false_eq_true, if_false]
    rw [htags, foldl_tagSet_idem]
  · intro id side e
    rw [mem_adj_readGraph, mem_adj_readGraph]
    simp only [any_id_iff, hids']
    constructor
    · rintro ⟨l, hl, ha, hb, hc⟩
      exact ⟨l, ((mem_decl t l).1 (hperm.mem_iff.1 hl)).1, ha, hb, hc⟩
    · rintro ⟨l, hl, ha, hb, hc⟩
      exact ⟨l, hperm.mem_iff.2 ((mem_decl t l).2 ⟨hl, ha, hb⟩), ha, hb, hc⟩
  · intro k v
    rw [edgeTags_readGraph t' false hek', edgeTags_readGraph t false hek]
    simp only [List.mem_map, hdecl]

end Gaftools.Proofs.Write
