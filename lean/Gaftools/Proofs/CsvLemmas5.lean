import Gaftools.Proofs.CsvLemmas4
/-!
# Lemmas for C07c, part 5: chromosomes of different names hold disjoint node sets
-/
namespace Gaftools.Proofs.Csv
open Gaftools.Gfa Gaftools.Algo Gaftools.View Gaftools.Order Gaftools.Spec.Order Gaftools.Spec.Graph
open Gaftools.Proofs.Chain Gaftools.Proofs.OrderRun Gaftools.Proofs.Finish2

def nameStep (sn : V → Option String) (acc : List (String × List V)) (c : List V) : List (String × List V) :=
  match majoritySN sn c with
  | some name => (acc.filter (·.1 != name)) ++ [(name, c)]
  | none => acc

theorem nameComps_eq (sn : V → Option String) (comps : List (List V)) : nameComps sn comps = comps.foldl (nameStep sn) [] := rfl

theorem nameStep_sublist (sn : V → Option String) : ∀ (cs : List (List V)) (acc : List (String × List V)) (pre : List (List V)),
    (acc.map (·.2)).Sublist pre → ((cs.foldl (nameStep sn) acc).map (·.2)).Sublist (pre ++ cs) := by
  intro cs
  induction cs with
  | nil => intro acc pre h; simpa using h
  | cons c cs ih =>
    intro acc pre h
    rw [List.foldl_cons]
    have := ih (nameStep sn acc c) (pre ++ [c]) (by
      unfold nameStep
      split
      · rw [List.map_append]
        exact List.Sublist.append ((List.filter_sublist.map _).trans h) (by simp)
      · exact h.trans (List.sublist_append_left _ _))
    simpa using this

theorem nameComps_sublist (sn : V → Option String) (comps : List (List V)) :
    ((nameComps sn comps).map (·.2)).Sublist comps := by
  rw [nameComps_eq]
  simpa using nameStep_sublist sn comps [] [] (by simp)

theorem pairwise_mem_ne {α} {R : α → α → Prop} (hsym : ∀ a b, R a b → R b a) : ∀ (l : List α), l.Pairwise R →
    ∀ a ∈ l, ∀ b ∈ l, a ≠ b → R a b := by
  intro l
  induction l with
  | nil => intro _ a ha; simp at ha
  | cons x l ih =>
    intro h a ha b hb hne
    rw [List.pairwise_cons] at h
    rcases List.mem_cons.mp ha with hax | ha'
    · rcases List.mem_cons.mp hb with hbx | hb'
      · exact absurd (hax.trans hbx.symm) hne
      · rw [hax]; exact h.1 b hb'
    · rcases List.mem_cons.mp hb with hbx | hb'
      · rw [hbx]; exact hsym _ _ (h.1 a ha')
      · exact ih h.2 a ha' b hb' hne

theorem compOfName_entry (t : GfaFile) (lm : Bool) (c : String) (hne : compOfName t lm c ≠ []) :
    ∃ p ∈ nameComps (snOf t) (allComponents (Graph.nbFun (readGraph t lm)) (Graph.ids (readGraph t lm))),
      p.1 = c ∧ p.2 = compOfName t lm c := by
  unfold compOfName at hne ⊢
  simp only at hne ⊢
  cases hf : (nameComps (snOf t) (allComponents (Graph.nbFun (readGraph t lm)) (Graph.ids (readGraph t lm)))).find? (·.1 == c) with
  | none => rw [hf] at hne; simp at hne
  | some p =>
    refine ⟨p, List.mem_of_find?_eq_some hf, by simpa using List.find?_some hf, ?_⟩
    simp

/-- components filed under different names are disjoint -/
theorem compOfName_disjoint (t : GfaFile) (lm : Bool) (hids : (t.segs.map (·.id)).Nodup) (c1 c2 : String) (hc : c1 ≠ c2) :
    ∀ a ∈ compOfName t lm c1, a ∉ compOfName t lm c2 := by
  intro a ha1 ha2
  obtain ⟨p1, hp1, hn1, hcomp1⟩ := compOfName_entry t lm c1 (List.ne_nil_of_mem ha1)
  obtain ⟨p2, hp2, hn2, hcomp2⟩ := compOfName_entry t lm c2 (List.ne_nil_of_mem ha2)
  have hU := Gaftools.C15.readGraph_undirected t hids lm
  have hidsEq : Graph.ids (readGraph t lm) = t.segs.map (·.id) := Gaftools.Proofs.Write.ids_readGraph t lm hids
  have hnd : (Graph.ids (readGraph t lm)).Nodup := by rw [hidsEq]; exact hids
  have hpart := Gaftools.C15.components_partition _ _ hU hnd
  have hpw := hpart.2.2.sublist (nameComps_sublist (snOf t) _)
  rw [List.pairwise_map] at hpw
  have hne : p1 ≠ p2 := by
    intro e; apply hc; rw [← hn1, ← hn2, e]
  have := pairwise_mem_ne (R := fun (p q : String × List V) => ∀ a ∈ p.2, a ∉ q.2)
    (fun p q h a ha hb => h a hb ha) _ hpw p1 hp1 p2 hp2 hne
  rw [← hcomp1] at ha1
  rw [← hcomp2] at ha2
  exact this a ha1 ha2

end Gaftools.Proofs.Csv
